// Harness for C02 (content conservation).  Streams:
//
//	ws     bo.ProcessWhitespace on trees of inline boxes built with the
//	       implementation's own styles (one per white-space mode)
//	text   random text documents rendered with document.Render and drawn on the
//	       recording backend: one CPara case per inline formatting context
//	       (source items vs the text of its line boxes over all pages), one
//	       COrder case per document, one CDraw case per page
//	units  the C12 document stream: CUnits + CDraw per page
//	eq     tree.ResumeStack.Equals on pairs of random nested stacks (copies, copies changed
//	       somewhere deep down, independent ones)
//
// Documents run in worker subprocesses (a crash / hang is recorded as a case
// the model cannot agree with).
package main

import (
	"encoding/json"
	"flag"
	"fmt"
	"os"
	"path/filepath"
	"sort"
	"strings"
	"time"

	pr "github.com/benoitkugler/webrender/css/properties"
	bo "github.com/benoitkugler/webrender/html/boxes"
	"github.com/benoitkugler/webrender/html/document"
	"github.com/benoitkugler/webrender/html/tree"
	"verifharness/pagedoc"
	"verifharness/vlib"
	"verifharness/vlib/render"
)

type job struct {
	Seed   uint64 `json:"seed,omitempty"`
	Corpus string `json:"corpus,omitempty"`
	Stream string `json:"stream"`
}

var fonts = render.NewFonts("pango")

// ---------------------------------------------------------------- ws stream

var wsStyles []pr.ElementStyle // per white-space mode, taken from a laid-out document

func initStyles() {
	if wsStyles != nil {
		return
	}
	var sb strings.Builder
	sb.WriteString("<html><body style='font:20px Ahem'>")
	for i, m := range pagedoc.WsNames {
		fmt.Fprintf(&sb, "<p style='white-space:%s'>m%d</p>", m, i)
	}
	sb.WriteString("</body></html>")
	pages, err := render.Layout(sb.String(), nil, false, true, fonts)
	if err != nil {
		panic(err)
	}
	wsStyles = make([]pr.ElementStyle, 5)
	for _, p := range pages {
		render.Walk(p, func(b bo.Box, _ int) {
			if t, ok := b.(*bo.TextBox); ok {
				s := t.TextS()
				if len(s) == 2 && s[0] == 'm' {
					wsStyles[int(s[1]-'0')] = t.Style
				}
			}
		})
	}
	for i, s := range wsStyles {
		if s == nil {
			panic(fmt.Sprintf("no style for mode %d", i))
		}
	}
}

type wsNode struct {
	Kind int // 0 text 1 box 2 atom
	Mode int
	Text string
	Kids []*wsNode
}

var wsAlphabet = []string{" ", " ", " ", "\t", "\n", "\n", "\r", "\r\n", "a", "b", "c", "é", " ", "x", "-"}

func genWsText(r *vlib.Rng) string {
	var sb strings.Builder
	for i, n := 0, r.Range(0, 9); i < n; i++ {
		sb.WriteString(vlib.Pick(r, wsAlphabet))
	}
	return sb.String()
}

func genWs(r *vlib.Rng, depth int) *wsNode {
	k := r.Intn(10)
	if depth >= 3 {
		k = 0
	}
	switch {
	case k < 5:
		return &wsNode{Kind: 0, Mode: r.Intn(5), Text: genWsText(r)}
	case k < 9:
		n := &wsNode{Kind: 1, Mode: r.Intn(5)}
		for i, m := 0, r.Range(0, 4); i < m; i++ {
			n.Kids = append(n.Kids, genWs(r, depth+1))
		}
		return n
	default:
		return &wsNode{Kind: 2}
	}
}

func (n *wsNode) box() bo.Box {
	switch n.Kind {
	case 0:
		t := bo.NewTextBox(wsStyles[n.Mode], nil, "", []rune("x"))
		t.Text = []rune(n.Text)
		return t
	case 1:
		var ks []bo.Box
		for _, k := range n.Kids {
			ks = append(ks, k.box())
		}
		return bo.NewInlineBox(wsStyles[n.Mode], nil, "", ks)
	default:
		return bo.NewInlineBlockBox(wsStyles[0], nil, "", nil)
	}
}

func (n *wsNode) coq() string {
	switch n.Kind {
	case 0:
		return fmt.Sprintf("(IText %s %s)", pagedoc.WsCoq[n.Mode], vlib.Runes(n.Text))
	case 1:
		var ks []string
		for _, k := range n.Kids {
			ks = append(ks, k.coq())
		}
		return "(IBox " + vlib.List(ks) + ")"
	default:
		return "IAtom"
	}
}

func (n *wsNode) desc() string {
	switch n.Kind {
	case 0:
		return fmt.Sprintf("%s:%q", pagedoc.WsNames[n.Mode], n.Text)
	case 1:
		var ks []string
		for _, k := range n.Kids {
			ks = append(ks, k.desc())
		}
		return "[" + strings.Join(ks, " ") + "]"
	default:
		return "atom"
	}
}

func wsCase(r *vlib.Rng) vlib.Case {
	initStyles()
	n := genWs(r, 0)
	following := r.Bool()
	b := n.box()
	var res bool
	out := render.Guard(func() { res = bo.ProcessWhitespace(b, following) })
	var texts, dtexts []string
	render.Walk(b, func(c bo.Box, _ int) {
		if t, ok := c.(*bo.TextBox); ok {
			texts = append(texts, vlib.Runes(t.TextS()))
			dtexts = append(dtexts, t.TextS())
		}
	})
	c := vlib.Case{Kind: "ws", Nontrivial: true, Tags: []string{"stream=ws"},
		Desc: map[string]interface{}{"tree": n.desc(), "following": following, "out": dtexts, "returned": res}}
	if out.Status != "ok" {
		c.Desc.(map[string]interface{})["panic"] = out.Msg
		// an impossible output: the model never returns a text list of this shape for it
		c.Coq = fmt.Sprintf("CWs %s %s [[0;0;0]] false", vlib.Bool(following), n.coq())
		return c
	}
	c.Coq = fmt.Sprintf("CWs %s %s %s %s", vlib.Bool(following), n.coq(), vlib.List(texts), vlib.Bool(res))
	return c
}

// ---------------------------------------------------------------- eq stream: ResumeStack.Equals

// a random resume stack: mostly one entry per level (block / line fragmentation), sometimes
// several (out-of-flow boxes, table cells), nil or an empty map at the leaves
func genStack(r *vlib.Rng, depth int) tree.ResumeStack {
	if depth == 0 || r.Chance(1, 6) {
		if r.Chance(1, 3) {
			return tree.ResumeStack{}
		}
		return nil
	}
	n := vlib.Pick(r, []int{1, 1, 1, 1, 2, 3})
	out := tree.ResumeStack{}
	for i := 0; i < n; i++ {
		out[r.Range(0, 12)] = genStack(r, depth-1)
	}
	return out
}

func copyStack(s tree.ResumeStack) tree.ResumeStack {
	if s == nil {
		return nil
	}
	out := tree.ResumeStack{}
	for k, v := range s {
		out[k] = copyStack(v)
	}
	return out
}

func sortedKeys(s tree.ResumeStack) []int {
	var ks []int
	for k := range s {
		ks = append(ks, k)
	}
	sort.Ints(ks)
	return ks
}

// mutateDeep changes the copy somewhere along a random path, preferably far from the root:
// another key, an entry more or less, another sub-stack of the same size
func mutateDeep(r *vlib.Rng, s tree.ResumeStack) tree.ResumeStack {
	if len(s) == 0 {
		return tree.ResumeStack{r.Range(0, 12): nil}
	}
	ks := sortedKeys(s)
	k := ks[r.Intn(len(ks))]
	if len(s[k]) != 0 && r.Chance(4, 5) {
		s[k] = mutateDeep(r, s[k])
		return s
	}
	switch r.Intn(4) {
	case 0: // another key for the same sub-stack
		nk := k + r.Range(1, 5)
		if _, has := s[nk]; !has {
			s[nk] = s[k]
			delete(s, k)
			return s
		}
		fallthrough
	case 1: // one entry more
		for nk := 0; ; nk++ {
			if _, has := s[nk]; !has {
				s[nk] = nil
				return s
			}
		}
	case 2: // one entry less
		delete(s, k)
		return s
	default: // the sub-stack grows by a level
		s[k] = tree.ResumeStack{r.Range(0, 12): nil}
		if r.Chance(1, 2) {
			s[k] = mutateDeep(r, s[k])
		}
		return s
	}
}

func stackCoq(s tree.ResumeStack) string {
	var es []string
	for _, k := range sortedKeys(s) {
		es = append(es, fmt.Sprintf("((%d)%%Z, %s)", k, stackCoq(s[k])))
	}
	return "(MS " + vlib.List(es) + ")"
}

func eqCases(r *vlib.Rng) []vlib.Case {
	var out []vlib.Case
	for i := 0; i < 25; i++ {
		a := genStack(r, r.Range(1, 6))
		var b tree.ResumeStack
		kind := "copy"
		switch k := r.Intn(10); {
		case k < 3:
			b = copyStack(a)
		case k < 9:
			b = mutateDeep(r, copyStack(a))
			kind = "deep-change"
			if r.Chance(1, 4) {
				b = mutateDeep(r, b)
			}
		default:
			b = genStack(r, r.Range(1, 6))
			kind = "independent"
		}
		if r.Bool() {
			a, b = b, a
		}
		var res bool
		o := render.Guard(func() { res = a.Equals(b) })
		c := vlib.Case{Kind: "eq", Nontrivial: true, Tags: []string{"stream=eq", "pair=" + kind},
			Desc: map[string]interface{}{"r": a.String(), "other": b.String(), "equals": res}}
		if o.Status != "ok" {
			c.Desc.(map[string]interface{})["panic"] = o.Msg
			res = !reflectEqual(a, b) // an answer the model cannot agree with
		}
		c.Coq = fmt.Sprintf("CEq %s %s %s", stackCoq(a), stackCoq(b), vlib.Bool(res))
		out = append(out, c)
	}
	return out
}

func reflectEqual(a, b tree.ResumeStack) bool { return stackCoq(a) == stackCoq(b) }

// ---------------------------------------------------------------- page observation

type lineObs struct {
	Para int
	Page int
	Text string
}

type textBoxObs struct {
	Visible      bool // as the source declares it (nearest element that sets visibility)
	Text         string
	StyleVisible bool // the computed style of the box (not compared)
}

func elemID(b bo.Box) string {
	e := b.Box().Element
	if e == nil {
		return ""
	}
	for _, a := range e.Attr {
		if a.Key == "id" {
			return a.Val
		}
	}
	return ""
}

func hasClass(b bo.Box, class string) bool {
	e := b.Box().Element
	if e == nil {
		return false
	}
	for _, a := range e.Attr {
		if a.Key == "class" && a.Val == class {
			return true
		}
	}
	return false
}

// text of a line box: its text boxes reached through inline boxes only
func lineText(b bo.Box, sb *strings.Builder) {
	for _, c := range b.Box().Children {
		switch t := c.(type) {
		case *bo.TextBox:
			if t.PseudoType != "marker" {
				sb.WriteString(t.TextS())
			}
		case *bo.InlineBox:
			if t.PseudoType == "before" && hasClass(t, "pc") {
				// the generated word of a TPageCount item (never broken: nowrap), whatever its length
				var in strings.Builder
				lineText(t, &in)
				if in.Len() != 0 {
					sb.WriteString(pagedoc.PageCountMark)
				}
				continue
			}
			lineText(t, sb)
		}
	}
}

// a box generated for paragraph element t<Para> on a page (one per fragment)
type fragObs struct {
	Para, Page int
	// the box is a direct child of a line box that already has, among its direct children, a
	// principal box of the same element (one line holds the element's box twice)
	SameLine bool
}

func walkLines(b bo.Box, para, page int, out *[]lineObs, frags *[]fragObs) {
	if _, isInline := b.(*bo.InlineBox); !isInline {
		if id := elemID(b); strings.HasPrefix(id, "t") && b.Box().PseudoType == "" {
			var k int
			if _, err := fmt.Sscanf(id[1:], "%d", &k); err == nil {
				if k != para { // the principal box of the element (anonymous boxes inside it carry the same element)
					*frags = append(*frags, fragObs{Para: k, Page: page})
				}
				para = k
			}
		}
	}
	_, isLine := b.(*bo.LineBox)
	if l, ok := b.(*bo.LineBox); ok {
		var sb strings.Builder
		lineText(l, &sb)
		*out = append(*out, lineObs{Para: para, Page: page, Text: sb.String()})
	}
	seen := map[string]bool{}
	for _, c := range b.Box().Children {
		n0 := len(*frags)
		walkLines(c, para, page, out, frags)
		if _, inl := c.(*bo.InlineBox); isLine && !inl && len(*frags) > n0 {
			if id := elemID(c); strings.HasPrefix(id, "t") && c.Box().PseudoType == "" && fmt.Sprintf("t%d", (*frags)[n0].Para) == id {
				if seen[id] {
					(*frags)[n0].SameLine = true
				}
				seen[id] = true
			}
		}
	}
}

// visibility of a box as the source declares it: the value set in the style attribute of
// the nearest ancestor-or-self element of the box's element that sets it (visibility is
// inherited; the generated documents set it in style attributes only); "" when none does
func sourceVisibility(b bo.Box) string {
	for e := b.Box().Element; e != nil; e = e.Parent {
		for _, a := range e.Attr {
			if a.Key != "style" {
				continue
			}
			for _, d := range strings.Split(a.Val, ";") {
				if kv := strings.SplitN(d, ":", 2); len(kv) == 2 && strings.TrimSpace(kv[0]) == "visibility" {
					return strings.TrimSpace(kv[1])
				}
			}
		}
	}
	return ""
}

func visOpt(b bo.Box) (string, bool) {
	switch sourceVisibility(b) {
	case "":
		return "None", true
	case "visible":
		return "(Some true)", true
	default:
		return "(Some false)", false
	}
}

// the box tree of a page as a Layout/TextDraw.v `vbox`: every box with the visibility the
// source gives it, text boxes with their text
func pageVTree(b bo.Box, out *[]textBoxObs) string {
	set, vis := visOpt(b)
	if t, ok := b.(*bo.TextBox); ok {
		*out = append(*out, textBoxObs{Visible: vis, Text: t.TextS(), StyleVisible: t.Style.GetVisibility() == "visible"})
		return fmt.Sprintf("VBox %s [VText %s]", set, vlib.Runes(t.TextS()))
	}
	var ks []string
	for _, c := range b.Box().Children {
		ks = append(ks, pageVTree(c, out))
	}
	return fmt.Sprintf("VBox %s %s", set, vlib.List(ks))
}

func drawCases(d *document.Document, tags []string, key string) []vlib.Case {
	rec := render.Draw(d, 1)
	var out []vlib.Case
	for i, pg := range d.Pages {
		var boxes []textBoxObs
		tree := pageVTree(document.VerifC02PageBox(pg), &boxes)
		var ds, dd []string
		for _, e := range rec.Events {
			if e.Op == "DrawText" && e.Page == i {
				ds = append(ds, vlib.Runes(e.S))
				dd = append(dd, e.S)
			}
		}
		ptags := tags
		hidden, shown := false, false
		for _, b := range boxes {
			hidden = hidden || !b.Visible
			shown = shown || b.Visible
		}
		if hidden {
			ptags = append(append([]string{}, tags...), "page-has-hidden-text")
		}
		out = append(out, vlib.Case{Kind: "draw", Coq: fmt.Sprintf("CDraw (%s) %s", tree, vlib.List(ds)),
			Desc: map[string]interface{}{"doc": key, "page": i, "text_boxes": boxes, "draw_text": dd},
			Tags: ptags, Nontrivial: len(boxes) > 0})
	}
	return out
}

// ---------------------------------------------------------------- documents

// kinds of out-of-flow / atomic children of a paragraph (structural triggers)
func itemKinds(items []*pagedoc.TItem, seen map[string]bool) []string {
	var out []string
	add := func(s string) {
		if !seen[s] {
			seen[s] = true
			out = append(out, s)
		}
	}
	for _, it := range items {
		switch it.Kind {
		case pagedoc.TSpan:
			out = append(out, itemKinds(it.Kids, seen)...)
		case pagedoc.TInlineBlock:
			add("has-inline-block")
		case pagedoc.TFloat:
			add("has-float")
		case pagedoc.TAbs:
			add("has-abspos")
		case pagedoc.TBlockIn:
			add("has-block-in-inline")
		case pagedoc.TBr:
			add("has-br")
		}
	}
	return out
}

func textDocCases(d *pagedoc.TextDoc, stream string) []vlib.Case {
	html := d.HTML()
	tags := append(d.TagList(), "stream="+stream)
	var doc *document.Document
	out := render.GuardTimeout(30*time.Second, func() {
		var err error
		doc, err = render.Render(html, nil, false, true, fonts)
		if err != nil {
			panic(err)
		}
	})
	if out.Status != "ok" {
		// crashes are C01's subject: recorded (not compared) so the distribution shows them
		return []vlib.Case{{Kind: "text-crash", Coq: "COrder 0 []", Tags: append(tags, "status="+out.Status),
			Desc: map[string]interface{}{"html": html, "status": out.Status, "site": out.Site, "msg": out.Msg}}}
	}
	d.Index()
	var lines []lineObs
	var frags []fragObs
	for i, pg := range doc.Pages {
		pb := document.VerifC02PageBox(pg)
		for _, c := range pb.Children {
			if _, isM := c.(*bo.MarginBox); isM {
				continue
			}
			walkLines(c, -1, i, &lines, &frags)
		}
	}
	var cases []vlib.Case
	// per paragraph: the occurrences of its text (one, or one per page for repeated cells)
	occ := map[int][][]string{}
	for _, p := range d.Paras {
		var obs [][]string
		var cur []string
		lastPage := -1
		for _, l := range lines {
			if l.Para != p.ID {
				continue
			}
			if p.Repeat && lastPage != -1 && l.Page != lastPage {
				obs = append(obs, cur)
				cur = nil
			}
			cur = append(cur, l.Text)
			lastPage = l.Page
		}
		occ[p.ID] = append(obs, cur)
	}
	st := newStructure(d, occ, lines, frags, len(doc.Pages))
	for _, p := range d.Paras {
		for k, o := range occ[p.ID] {
			var ls []string
			for _, t := range o {
				ls = append(ls, vlib.Runes(t))
			}
			ptags := append([]string{}, tags...)
			if p.Repeat {
				ptags = append(ptags, "repeat")
			}
			if !p.InFlow {
				ptags = append(ptags, "out-of-order-para")
			}
			ptags = append(ptags, p.Ctx...)
			if len(p.Ctx) == 0 {
				ptags = append(ptags, "in-root-flow")
			}
			for _, k := range itemKinds(p.Items, map[string]bool{}) {
				ptags = append(ptags, k)
			}
			dg := st.diagnose(p, k)
			ptags = append(ptags, dg.Tags...)
			ptags = append(ptags, inlineTriggers(p)...)
			cases = append(cases, vlib.Case{Kind: "para", Coq: fmt.Sprintf("CPara %s %s", p.Coq(), vlib.List(ls)),
				Desc:       map[string]interface{}{"html": html, "para": fmt.Sprintf("t%d", p.ID), "occurrence": k, "lines": o, "structure": dg.Info},
				Tags:       ptags,
				Nontrivial: len(o) > 1})
		}
	}
	// order of the in-flow paragraphs
	rank := map[int]int{}
	n := 0
	for _, p := range d.Paras {
		if p.InFlow {
			rank[p.ID] = n
			n++
		}
	}
	var ids []string
	for _, l := range lines {
		if r, ok := rank[l.Para]; ok {
			ids = append(ids, fmt.Sprint(r))
		}
	}
	cases = append(cases, vlib.Case{Kind: "order", Coq: fmt.Sprintf("COrder %d %s", n, vlib.List(ids)),
		Desc: map[string]interface{}{"html": html, "in_flow_paragraph_of_each_line": ids}, Tags: tags, Nontrivial: n > 1})
	cases = append(cases, drawCases(doc, tags, html)...)
	return cases
}

func unitDocCases(d *pagedoc.Doc) []vlib.Case {
	html := d.HTML()
	tags := append(d.TagList(), "stream=units")
	var doc *document.Document
	out := render.GuardTimeout(30*time.Second, func() {
		var err error
		doc, err = render.Render(html, nil, false, true, fonts)
		if err != nil {
			panic(err)
		}
	})
	if out.Status != "ok" {
		return []vlib.Case{{Kind: "units-crash", Coq: "COrder 0 []", Tags: append(tags, "status="+out.Status),
			Desc: map[string]interface{}{"html": html, "status": out.Status, "site": out.Site, "msg": out.Msg}}}
	}
	var pbs []*bo.PageBox
	for _, pg := range doc.Pages {
		pbs = append(pbs, document.VerifC02PageBox(pg))
	}
	obs := pagedoc.Observe(pbs)
	var ids []string
	for _, p := range obs {
		for _, u := range p.Units {
			id := u.ID
			if id < 0 {
				id = 99999
			}
			ids = append(ids, fmt.Sprint(id))
		}
	}
	cases := []vlib.Case{{Kind: "units", Coq: fmt.Sprintf("CUnits %d %s", d.NUnits, vlib.List(ids)),
		Desc: map[string]interface{}{"html": html, "pages": pagedoc.Summary(obs)}, Tags: tags, Nontrivial: len(obs) > 1}}
	return append(cases, drawCases(doc, tags, html)...)
}

// the text document of a job seed.  EXPLORATORY ONLY (environment C02_SOFT_HYPHENS=1, never
// set by the registered check): 1 document in 4 gets soft hyphens inside its words (drawn from
// a generator of their own: otherwise the same document).  Not part of the check because the
// unchanged tree already loses / cuts characters on that path (see notes/C02.md, fourth round).
func genTextDoc(seed uint64) *pagedoc.TextDoc {
	if os.Getenv("C02_SOFT_HYPHENS") == "1" && vlib.NewRng(seed^0x5348590001).Chance(1, 4) {
		return pagedoc.GenerateTextShy(vlib.NewRng(seed), vlib.NewRng(seed^0x5348590002))
	}
	return pagedoc.GenerateText(vlib.NewRng(seed))
}

func handle(in string) string {
	var j job
	if err := json.Unmarshal([]byte(in), &j); err != nil {
		return ""
	}
	var cases []vlib.Case
	r := vlib.NewRng(j.Seed)
	switch j.Stream {
	case "ws":
		for i := 0; i < 20; i++ {
			cases = append(cases, wsCase(r.Fork()))
		}
	case "eq":
		cases = eqCases(r)
	case "units":
		p := pagedoc.RandomProfile(r)
		if r.Chance(1, 2) && !p.Decor {
			// content conservation around the second layout of a block whose bottom padding /
			// border does not fit: half of the unit documents are of the decorated kind
			p.Decor, p.Spacing, p.MaxUnits = true, true, r.Range(12, 36)
			p.Rules, p.Exotic, p.OW = false, false, r.Chance(1, 4)
		}
		cases = unitDocCases(pagedoc.Generate(r, p))
	case "corpus":
		b, err := os.ReadFile(j.Corpus)
		if err != nil {
			return ""
		}
		var d pagedoc.TextDoc
		if json.Unmarshal(b, &d) != nil {
			return ""
		}
		cases = textDocCases(&d, "corpus")
	default:
		cases = textDocCases(genTextDoc(j.Seed), "text")
	}
	b, _ := json.Marshal(cases)
	return string(b)
}

func main() {
	if vlib.IsWorker() {
		vlib.WorkerMain(handle)
	}
	out := flag.String("out", "cases.jsonl", "output file")
	n := flag.Int("n", 3000, "approximate number of cases")
	par := flag.Int("par", 16, "worker processes")
	corpusDir := flag.String("corpus", "../corpus/C02", "regression corpus directory")
	one := flag.Uint64("seed", 0, "print the text document of this job seed")
	docFile := flag.String("doc", "", "lay out one text document (corpus JSON) and print the lines of every paragraph with their pages")
	asJSON := flag.Bool("json", false, "with -seed: print the document as JSON (corpus format)")
	flag.Parse()
	if *docFile != "" {
		b, err := os.ReadFile(*docFile)
		if err != nil {
			panic(err)
		}
		var d pagedoc.TextDoc
		if err := json.Unmarshal(b, &d); err != nil {
			panic(err)
		}
		fmt.Println(d.HTML())
		for _, c := range textDocCases(&d, "single") {
			if c.Kind == "para" {
				m := c.Desc.(map[string]interface{})
				fmt.Printf("%v %q %v %v\n", m["para"], m["lines"], m["structure"], c.Tags)
			}
		}
		return
	}
	if *one != 0 {
		d := genTextDoc(*one)
		if *asJSON {
			b, _ := json.Marshal(d)
			fmt.Println(string(b))
		} else {
			fmt.Println(d.HTML())
		}
		return
	}
	rng := vlib.NewRng(vlib.Seed() + 7)
	var jobs []job
	files, _ := filepath.Glob(filepath.Join(*corpusDir, "*.json"))
	sort.Strings(files)
	for _, f := range files {
		jobs = append(jobs, job{Corpus: f, Stream: "corpus"})
	}
	// a text document yields ~12 cases, a unit document ~5, a ws job 20, an eq job 25
	for est := 0; est < *n; {
		switch k := rng.Intn(20); {
		case k < 2:
			jobs = append(jobs, job{Seed: rng.U64(), Stream: "ws"})
			est += 20
		case k == 2:
			jobs = append(jobs, job{Seed: rng.U64(), Stream: "eq"})
			est += 25
		case k < 8:
			jobs = append(jobs, job{Seed: rng.U64(), Stream: "units"})
			est += 5
		default:
			jobs = append(jobs, job{Seed: rng.U64(), Stream: "text"})
			est += 12
		}
	}
	inputs := make([]string, len(jobs))
	for i, j := range jobs {
		b, _ := json.Marshal(j)
		inputs[i] = string(b)
	}
	res := vlib.RunPool(inputs, *par, 60*time.Second, 0)
	w := vlib.NewWriter(*out)
	defer w.Close()
	for i, r := range res {
		if r.Status == "ok" && r.Out != "" {
			var cs []vlib.Case
			if json.Unmarshal([]byte(r.Out), &cs) == nil {
				for _, c := range cs {
					c.Tags = append(c.Tags, fmt.Sprintf("job=%d", jobs[i].Seed))
					w.Add(c)
				}
				continue
			}
		}
		kind := r.Status
		if r.Status == "fatal" {
			kind = vlib.FatalKind(r.Out)
		}
		w.Add(vlib.Case{Kind: "doc-crash", Coq: "COrder 0 []",
			Desc: map[string]interface{}{"job": jobs[i], "status": kind},
			Tags: []string{"status=" + kind, "stream=" + jobs[i].Stream}})
	}
}
