package main

// Structural diagnosis of a paragraph case.  Nothing here decides whether a
// case passes (Check/C02.v does, on the source items and the observed lines);
// the tags computed here only let a known-finding matcher name the construct
// that fails, so that a different loss / duplication with the same symptom is
// still reported.

import (
	"fmt"
	"strings"

	"verifharness/pagedoc"
)

// stripWS: the non-space characters of an observed line; soft hyphens are left out, and so is
// the hyphen shown after a soft hyphen at the very end of a line (as Check/C02.v strip_shy does)
func stripWS(s string) []rune {
	var out []rune
	rs := []rune(s)
	if n := len(rs); n >= 2 && rs[n-1] == '-' && rs[n-2] == pagedoc.SoftHyphen {
		s = string(rs[:n-1])
	}
	for _, c := range s {
		if c != ' ' && c != '\t' && c != '\n' && c != '\r' && c != pagedoc.SoftHyphen {
			out = append(out, c)
		}
	}
	return out
}

// diffClass: how the observed non-space text differs from the expected one.
//
//	same         equal (a mismatch then concerns white space / line breaks only)
//	lost-all     nothing of a non-empty text is there
//	lost-tail    a proper prefix is there
//	lost-head    a proper suffix is there
//	lost-middle  one inner segment is missing
//	lost-ends    only an inner segment is there (from / to delimit it)
//	lost-multi   several segments are missing, nothing is added or moved
//	dup-all      the whole text twice (or more), nothing else
//	dup-seg      one segment is there twice in a row, the rest once
//	other        anything else
//
// from / to delimit (in the expected text) the lost or repeated segment.
func diffClass(e, o []rune) (class string, from, to int) {
	eq := func(a, b []rune) bool {
		if len(a) != len(b) {
			return false
		}
		for i := range a {
			if a[i] != b[i] {
				return false
			}
		}
		return true
	}
	if eq(e, o) {
		return "same", 0, 0
	}
	p := 0
	for p < len(e) && p < len(o) && e[p] == o[p] {
		p++
	}
	s := 0
	for s < len(e)-p && s < len(o)-p && e[len(e)-1-s] == o[len(o)-1-s] {
		s++
	}
	if len(o) < len(e) && len(o) > 0 && p+s < len(o) {
		// a proper infix of the expected text: both ends are missing
		for a := 1; a+len(o) < len(e); a++ {
			if eq(e[a:a+len(o)], o) {
				return "lost-ends", a, a + len(o)
			}
		}
	}
	switch {
	case len(o) < len(e) && p+s >= len(o):
		// o = e without e[p' : len(e)-s'] ; prefer the longest prefix
		s = len(o) - p
		from, to = p, len(e)-s
		switch {
		case len(o) == 0:
			return "lost-all", from, to
		case s == 0:
			return "lost-tail", from, to
		case p == 0:
			return "lost-head", from, to
		}
		return "lost-middle", from, to
	case len(o) > len(e) && len(e) > 0:
		if len(o)%len(e) == 0 {
			all := true
			for i := range o {
				if o[i] != e[i%len(e)] {
					all = false
					break
				}
			}
			if all {
				return "dup-all", 0, len(e)
			}
		}
		// o = e[:a] + e[b:a] + e[a:]  (segment e[b:a] repeated) for some b < a
		extra := len(o) - len(e)
		for a := extra; a <= len(e); a++ {
			b := a - extra
			if a <= len(o) && eq(o[:a], e[:a]) && eq(o[a:a+extra], e[b:a]) && eq(o[a+extra:], e[a:]) {
				return "dup-seg", b, a
			}
		}
	}
	// several segments missing, nothing added or moved: o is a subsequence of e
	if len(o) < len(e) {
		j := 0
		for i := 0; i < len(e) && j < len(o); i++ {
			if e[i] == o[j] {
				j++
			}
		}
		if j == len(o) {
			return "lost-multi", 0, 0
		}
	}
	return "other", 0, 0
}

// symptom: coarse form of the diff class
func symptom(class string) string {
	switch class {
	case "same":
		return "none"
	case "lost-all", "lost-tail":
		return "rest-missing" // a prefix (possibly empty) of the text is there, the rest is not
	case "lost-head", "lost-middle", "lost-ends", "lost-multi":
		return "part-missing"
	case "dup-all", "dup-seg":
		return "repeated"
	}
	return "mixed"
}

type paraDiag struct {
	Tags []string
	Info map[string]interface{}
}

type paraFacts struct {
	diff      []string // per occurrence
	from, to  []int
	n         int   // length of the expected text
	boxPages  []int // page of every principal box of the element
	sameLine  bool  // two of those boxes are direct children of one line box
	linePages []int // page of every line
}

// structure holds what the laid-out document shows of every paragraph element.
type structure struct {
	d      *pagedoc.TextDoc
	npages int
	facts  map[int]*paraFacts
	lines  []lineObs
}

func newStructure(d *pagedoc.TextDoc, occ map[int][][]string, lines []lineObs, frags []fragObs, npages int) *structure {
	s := &structure{d: d, npages: npages, facts: map[int]*paraFacts{}, lines: lines}
	for _, p := range d.Paras {
		f := &paraFacts{}
		e := p.OwnText()
		f.n = len(e)
		for _, o := range occ[p.ID] {
			var or []rune
			for _, l := range o {
				or = append(or, stripWS(l)...)
			}
			c, a, b := diffClass(e, or)
			if len(e) == 0 && len(o) == 0 && p.HasText() {
				// a paragraph of white space only that has no line at all: when its white space is
				// preserved this is a loss (when it is collapsible the case passes and the tag is
				// never looked at)
				c = "lost-all"
			}
			f.diff = append(f.diff, c)
			f.from = append(f.from, a)
			f.to = append(f.to, b)
		}
		for _, fr := range frags {
			if fr.Para == p.ID {
				f.boxPages = append(f.boxPages, fr.Page)
				f.sameLine = f.sameLine || fr.SameLine
			}
		}
		for _, l := range lines {
			if l.Para == p.ID {
				f.linePages = append(f.linePages, l.Page)
			}
		}
		s.facts[p.ID] = f
	}
	return s
}

func (f *paraFacts) fails() (bool, string) {
	for _, c := range f.diff {
		if c != "same" {
			return true, c
		}
	}
	return false, "same"
}

// tags describing where the boxes of an element are
func (s *structure) fragTags(f *paraFacts, prefix string) []string {
	var out []string
	if len(f.boxPages) == 0 {
		return []string{prefix + "frags=none"}
	}
	last := f.boxPages[len(f.boxPages)-1]
	if last == s.npages-1 {
		out = append(out, prefix+"frag-last=docend")
	} else {
		out = append(out, prefix+"frag-last=inner")
	}
	hasLine := map[int]bool{}
	minL, maxL := 1<<30, -1
	for _, p := range f.linePages {
		hasLine[p] = true
		if p < minL {
			minL = p
		}
		if p > maxL {
			maxL = p
		}
	}
	seen := map[int]bool{}
	twice, between := false, false
	for _, p := range f.boxPages {
		if seen[p] {
			twice = true
		}
		seen[p] = true
		if !hasLine[p] && p > minL && p < maxL {
			between = true
		}
	}
	if twice {
		out = append(out, prefix+"frag-twice-on-page")
	}
	if between {
		out = append(out, prefix+"empty-frag-between")
	}
	if !hasLine[last] {
		out = append(out, prefix+"frag-last-empty")
	}
	return out
}

// movedWhole: the container (break-inside: avoid) of the block-level out-of-flow box q starts
// on the page P that holds the first box of q, as the first in-flow content of that page, and
// nothing of it is on an earlier page: an in-flow paragraph that is a child of the container
// precedes q, all its lines are on P, and the first line of an in-flow paragraph on P belongs
// to the container.  (When the page end falls inside a container that is not moved -- it
// starts its page -- the container has content on the page before P.)
func (s *structure) movedWhole(q *pagedoc.TPara) bool {
	qf := s.facts[q.ID]
	if q.ContFirst < 0 || qf == nil || len(qf.boxPages) == 0 {
		return false
	}
	page := qf.boxPages[0]
	ff := s.facts[q.ContFirst]
	if ff == nil || len(ff.linePages) == 0 {
		return false
	}
	for _, p := range ff.linePages {
		if p != page {
			return false
		}
	}
	inside := map[int]bool{}
	for _, id := range q.ContParas {
		inside[id] = true
	}
	for _, id := range q.ContParas {
		if f := s.facts[id]; f != nil {
			for _, p := range f.linePages {
				if p < page {
					return false
				}
			}
		}
	}
	for _, l := range s.lines {
		if l.Page != page {
			continue
		}
		if p := s.d.ParaByID(l.Para); p != nil && p.InFlow {
			return inside[l.Para]
		}
	}
	return false
}

func (s *structure) diagnose(p *pagedoc.TPara, k int) paraDiag {
	f := s.facts[p.ID]
	dg := paraDiag{Info: map[string]interface{}{}}
	class := f.diff[k]
	dg.Tags = append(dg.Tags, "diff="+class, "sym="+symptom(class), "role="+p.Role)
	if p.Block {
		dg.Tags = append(dg.Tags, "level=block")
	}
	if f.n == 0 && p.HasText() {
		dg.Tags = append(dg.Tags, "ws-only") // its own text is white space only
	}
	if (class == "dup-seg" || class == "dup-all") && f.from[k] == 0 {
		dg.Tags = append(dg.Tags, "dup-from-start")
	}
	if (class == "lost-tail" || class == "lost-middle") && lostWordBeforeFloat(p, f.from[k], f.to[k]) {
		// exactly the end of the word that immediately precedes a float of the line is missing
		dg.Tags = append(dg.Tags, "lost-word-before-float")
	}
	dg.Tags = append(dg.Tags, s.fragTags(f, "")...)
	dg.Info["diff"] = fmt.Sprintf("%s [%d,%d) of %d", class, f.from[k], f.to[k], f.n)
	dg.Info["box_pages"] = f.boxPages
	dg.Info["line_pages"] = f.linePages
	dg.Info["npages"] = s.npages
	// the out-of-flow boxes (float / abspos) this paragraph is, or lies in: where their
	// fragments are.  oof-docend: one of them has its last fragment on the last page of the
	// document; oof-twice: one of them has two boxes on one page; oof-none: one of them has
	// no box on any page; oof-split: one of them has boxes on more than one page
	var chain []map[string]interface{}
	flags := map[string]bool{}
	for _, id := range append(append([]int{}, p.Anc...), p.ID) {
		q := s.d.ParaByID(id)
		if q == nil || (q.Role != "float" && q.Role != "abspos") {
			continue
		}
		qf := s.facts[id]
		flags["in-oof"] = true
		flags["oof-has-"+q.Role] = true
		if q.Block && q.AvoidParent {
			// a block-level out-of-flow box that is a child of a container with break-inside: avoid
			flags["oof-child-of-avoid"] = true
			if q.Role == "float" && q.AvoidPlain && s.movedWhole(q) {
				// ... a float, the container is a child of the body, nothing in the document
				// has break-before / break-after: avoid, and the container was moved to the
				// next page as a whole (see movedWhole)
				flags["oof-float-in-avoid-moved-whole"] = true
			}
		}
		if q.Block && q.AvoidAnc {
			flags["oof-below-avoid"] = true
		}
		if len(qf.boxPages) == 0 && q.Role == "float" && !q.Block && tallInlineBesideFloat(s.d, id) {
			// a float written in a line of a paragraph that also holds an inline box taller
			// than the strut (own line-height / font-size), without any box
			flags["oof-none-in-line-with-tall-inline"] = true
		}
		if len(qf.boxPages) == 0 {
			flags["oof-none"] = true
			if q.Block {
				flags["oof-none-block"] = true
			}
		} else {
			if qf.boxPages[len(qf.boxPages)-1] == s.npages-1 {
				flags["oof-docend"] = true
			}
			if qf.boxPages[0] != qf.boxPages[len(qf.boxPages)-1] {
				flags["oof-split"] = true
			}
			for i := 1; i < len(qf.boxPages); i++ {
				if qf.boxPages[i] == qf.boxPages[i-1] {
					flags["oof-twice"] = true
				}
			}
			if qf.sameLine && qf.boxPages[0] == qf.boxPages[len(qf.boxPages)-1] && directFloatItem(s.d, id) {
				// ... as two children of ONE line box, and all its boxes are on one page: a
				// float of the line that was not broken by a page end, laid out twice by the
				// line itself.  (The stale continuations of a float broken between pages are
				// also put into the line that holds the float: those have boxes on several pages;
				// and a float INSIDE an inline box is laid out twice on the unchanged tree when
				// that inline box is split a second time: only a float that is a direct child of
				// its paragraph's element counts here.)
				flags["oof-twice-in-one-line"] = true
			}
		}
		chain = append(chain, map[string]interface{}{"id": id, "role": q.Role, "block_level": q.Block, "box_pages": qf.boxPages, "line_pages": qf.linePages})
	}
	for _, k := range []string{"in-oof", "oof-has-float", "oof-has-abspos", "oof-child-of-avoid", "oof-float-in-avoid-moved-whole", "oof-below-avoid", "oof-none", "oof-none-block", "oof-none-in-line-with-tall-inline", "oof-docend", "oof-split", "oof-twice", "oof-twice-in-one-line"} {
		if flags[k] {
			dg.Tags = append(dg.Tags, k)
		}
	}
	if chain != nil {
		dg.Info["out_of_flow_chain"] = chain
	}
	// the outermost enclosing paragraph whose own text is not conserved: what happens to
	// this paragraph may be a consequence of what happened to that one
	for _, id := range p.Anc {
		q := s.d.ParaByID(id)
		if q == nil {
			continue
		}
		qf := s.facts[id]
		if bad, c := qf.fails(); bad {
			dg.Tags = append(dg.Tags, "anc-fails", "anc-diff="+c, "anc-role="+q.Role)
			dg.Tags = append(dg.Tags, s.fragTags(qf, "anc-")...)
			dg.Info["failing_ancestor"] = map[string]interface{}{"id": id, "role": q.Role, "diff": c, "box_pages": qf.boxPages}
			break
		}
	}
	return dg
}

// tallInlineBesideFloat: the paragraph that holds the float item `id` in its inline content
// (directly or inside spans) also holds a span with a line-height / font-size of its own
func tallInlineBesideFloat(d *pagedoc.TextDoc, id int) bool {
	var has func(its []*pagedoc.TItem, f func(*pagedoc.TItem) bool) bool
	has = func(its []*pagedoc.TItem, f func(*pagedoc.TItem) bool) bool {
		for _, it := range its {
			if f(it) || (it.Kind == pagedoc.TSpan && has(it.Kids, f)) {
				return true
			}
		}
		return false
	}
	for _, p := range d.Paras {
		if has(p.Items, func(it *pagedoc.TItem) bool { return it.Kind == pagedoc.TFloat && it.Para != nil && it.Para.ID == id }) {
			return has(p.Items, func(it *pagedoc.TItem) bool {
				return it.Kind == pagedoc.TSpan && (strings.Contains(it.Edge, "line-height:") || strings.Contains(it.Edge, "font-size:"))
			})
		}
	}
	return false
}

// directFloatItem: the paragraph id is a float written directly in the inline content of its
// parent paragraph (not inside a span)
func directFloatItem(d *pagedoc.TextDoc, id int) bool {
	for _, p := range d.Paras {
		for _, it := range p.Items {
			if it.Kind == pagedoc.TFloat && it.Para != nil && it.Para.ID == id {
				return true
			}
		}
	}
	return false
}

// lostWordBeforeFloat: the missing segment [from, to) of the paragraph's own non-space text
// lies inside the word that immediately precedes a float item (no white space between the
// word and the float) and runs up to the float
func lostWordBeforeFloat(p *pagedoc.TPara, from, to int) bool {
	pos, wordStart := 0, 0
	found := false
	var walk func(its []*pagedoc.TItem)
	walk = func(its []*pagedoc.TItem) {
		for _, it := range its {
			switch it.Kind {
			case pagedoc.TText:
				for _, c := range it.Text {
					if c == pagedoc.SoftHyphen {
						continue
					}
					if c == ' ' || c == '\t' || c == '\n' || c == '\r' {
						wordStart = -1
					} else {
						if wordStart < 0 {
							wordStart = pos
						}
						pos++
					}
				}
			case pagedoc.TPageCount:
				if wordStart < 0 {
					wordStart = pos
				}
				pos += len([]rune(pagedoc.PageCountMark))
			case pagedoc.TSpan:
				walk(it.Kids)
			case pagedoc.TFloat:
				if wordStart >= 0 && to == pos && from >= wordStart && from < to {
					found = true
				}
			case pagedoc.TAbs:
			default: // br, inline-block, block in inline: ends the word
				wordStart = -1
			}
		}
	}
	walk(p.Items)
	return found
}

// inlineTriggers: structural triggers of the two known inline-layout deviations.
//
//	space-at-box-boundary  a collapsible white space sits at the edge of an inline box
//	                       (last / first character of a text next to the start or end of a
//	                       span, an inline-block, a float ...)
//	br-in-nowrap           a <br> inside content that does not wrap (white-space: nowrap / pre)
func inlineTriggers(p *pagedoc.TPara) []string {
	space, br := false, false
	isWS := func(c byte) bool { return c == ' ' || c == '\t' || c == '\n' || c == '\r' }
	collapsible := func(m int) bool { return m == 0 || m == 1 || m == 4 } // normal nowrap pre-line
	var walk func(its []*pagedoc.TItem, mode int, inner bool)
	walk = func(its []*pagedoc.TItem, mode int, inner bool) {
		for i, it := range its {
			switch it.Kind {
			case pagedoc.TText:
				if it.Text == "" || !collapsible(it.Mode) {
					continue
				}
				// an edge of this text touches a box boundary when a non-text sibling is next to
				// it or when it is the first / last child of a span
				atStart := (i == 0 && inner) || (i > 0 && its[i-1].Kind != pagedoc.TText)
				atEnd := (i == len(its)-1 && inner) || (i < len(its)-1 && its[i+1].Kind != pagedoc.TText)
				if (atStart && isWS(it.Text[0])) || (atEnd && isWS(it.Text[len(it.Text)-1])) {
					space = true
				}
			case pagedoc.TSpan:
				m := mode
				if it.Mode >= 0 {
					m = it.Mode
				}
				walk(it.Kids, m, true)
			case pagedoc.TBr:
				if mode == 1 || mode == 2 { // nowrap, pre: lines do not wrap
					br = true
				}
			}
		}
	}
	walk(p.Items, p.Mode, false)
	var out []string
	if spaceNextTo(p, 'B') {
		out = append(out, "space-next-to-block-in-inline")
	}
	if spaceNextTo(p, 'A') {
		out = append(out, "space-next-to-inline-block")
	}
	if space {
		out = append(out, "space-at-box-boundary")
	}
	if br {
		out = append(out, "br-in-nowrap")
	}
	return out
}

// spaceNextTo: a collapsible white space is the neighbour of a block inside an inline
// box (what = 'B') / of an inline-block (what = 'A'); span boundaries and out-of-flow boxes
// in between do not count
func spaceNextTo(p *pagedoc.TPara, what byte) bool {
	type tok struct {
		kind        byte // 'B' block-in-inline, 'A' inline-block, 'T' text, 'X' other in-flow inline content
		first, last byte
		coll        bool
	}
	var toks []tok
	var walk func(its []*pagedoc.TItem)
	walk = func(its []*pagedoc.TItem) {
		for _, it := range its {
			switch it.Kind {
			case pagedoc.TText:
				if it.Text != "" {
					toks = append(toks, tok{'T', it.Text[0], it.Text[len(it.Text)-1], it.Mode == 0 || it.Mode == 1 || it.Mode == 4})
				}
			case pagedoc.TSpan:
				walk(it.Kids)
			case pagedoc.TBlockIn:
				toks = append(toks, tok{kind: 'B'})
			case pagedoc.TInlineBlock:
				toks = append(toks, tok{kind: 'A'})
			case pagedoc.TFloat, pagedoc.TAbs:
			default:
				toks = append(toks, tok{kind: 'X'})
			}
		}
	}
	walk(p.Items)
	ws := func(c byte) bool { return c == ' ' || c == '\t' || c == '\n' || c == '\r' }
	for i, t := range toks {
		if t.kind != 'T' || !t.coll {
			continue
		}
		if i > 0 && toks[i-1].kind == what && ws(t.first) {
			return true
		}
		if i+1 < len(toks) && toks[i+1].kind == what && ws(t.last) {
			return true
		}
	}
	return false
}
