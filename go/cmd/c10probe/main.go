package main

import (
	"fmt"
	"verifharness/vlib/render"
)

func main() {
	pages, err := render.Layout(`<html><body><div style="margin-top:3px;max-height:50%;min-width:auto;border-top: 2px solid"></div></body></html>`, nil, false, true, render.NewPango())
	fmt.Println(err)
	b := pages[0].Children[0].Box().Children[0].Box().Children[0].Box()
	s := b.Style
	fmt.Printf("%#v\n%#v\n%#v\n%#v\n%#v\n%#v %v %v\n", s.GetMarginTop(), s.GetBorderTopWidth(), s.GetBorderLeftWidth(), s.GetMinWidth(), s.GetMaxWidth(), s.GetMaxHeight(), s.GetBoxSizing(), s.GetBorderCollapse())
}
