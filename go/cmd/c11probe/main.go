// throw-away probe for C11 (removed once the harness exists)
package main

import (
	"fmt"
	"os"
	"strings"

	bo "github.com/benoitkugler/webrender/html/boxes"
	"verifharness/vlib/render"
)

func dump(b bo.Box, depth int) {
	f := b.Box()
	ind := strings.Repeat("  ", depth)
	extra := ""
	if t, ok := b.(*bo.TextBox); ok {
		extra = fmt.Sprintf(" text=%q", string(t.Text))
	}
	fmt.Printf("%s%s <%s> x=%v y=%v w=%v h=%v mw=%v base=%v%s\n", ind, b.Type(), f.ElementTag(), f.PositionX, f.PositionY, f.Width, f.Height, f.MarginWidth(), f.Baseline, extra)
	for _, c := range f.Children {
		dump(c, depth+1)
	}
}

func main() {
	if os.Args[1] == "split" {
		splitMain(os.Args[2:])
		return
	}
	html := os.Args[2]
	fonts := render.NewFonts(os.Args[1])
	pages, err := render.Layout(html, nil, false, true, fonts)
	if err != nil {
		panic(err)
	}
	for _, p := range pages {
		dump(p, 0)
	}
}
