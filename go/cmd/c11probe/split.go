package main

import (
	"fmt"
	"strconv"

	bo "github.com/benoitkugler/webrender/html/boxes"
	"github.com/benoitkugler/webrender/html/layout"
	pr "github.com/benoitkugler/webrender/css/properties"
	"github.com/benoitkugler/webrender/text"
	"verifharness/vlib/render"
)

// split engine html width... : SplitFirstLine on the first text box of the doc
func splitMain(args []string) {
	fonts := render.NewFonts(args[0])
	doc, err := render.ParseHTML(args[1], true, nil)
	if err != nil {
		panic(err)
	}
	root := layout.VerifBoxTree(doc, nil, false, fonts)
	var tb *bo.TextBox
	render.Walk(root, func(b bo.Box, _ int) {
		if t, ok := b.(*bo.TextBox); ok && tb == nil {
			tb = t
		}
	})
	ctx := layout.NewVerifTextContext(fonts)
	for _, a := range args[2:] {
		w, _ := strconv.ParseFloat(a, 64)
		for _, ls := range []bool{true, false} {
			v := text.SplitFirstLine(tb.Text, tb.Style, ctx, pr.Float(w), false, ls)
			fmt.Printf("w=%v lineStart=%v text=%q -> len=%d resume=%d width=%v layoutText=%q\n", w, ls, string(tb.Text), v.Length, v.ResumeAt, v.Width, string(v.Layout.Text()))
		}
	}
}
