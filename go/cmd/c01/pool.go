package main

// Worker pool (a variant of vlib.RunPool whose workers can ask to be restarted:
// after an in-process hang detection the rendering goroutine cannot be killed,
// so the worker answers and exits).  One document per call, a watchdog per call,
// an address-space limit per worker.

import (
	"bufio"
	"encoding/json"
	"fmt"
	"os"
	"os/exec"
	"runtime/debug"
	"runtime/pprof"
	"strings"
	"sync"
	"time"

	"verifharness/vlib"
)

const (
	workerTimeout = 10 * time.Second // in-process hang detection (stack dump)
	parentTimeout = 14 * time.Second // watchdog of the parent: worker silent => killed
	memLimitKB    = 3 << 20          // ulimit -v per worker (3 GiB)
)

func workerMain() {
	debug.SetMaxStack(256 << 20)                  // a runaway recursion dies after 256 MB instead of 1 GB
	if pf := os.Getenv("VERIF_PPROF"); pf != "" { // triage aid: CPU profile of the worker
		if f, err := os.Create(pf); err == nil {
			pprof.StartCPUProfile(f)
			defer f.Close()
		}
	}
	rd := bufio.NewReaderSize(os.Stdin, 1<<22)
	wr := bufio.NewWriter(os.Stdout)
	for {
		line, err := rd.ReadString('\n')
		if len(strings.TrimSpace(line)) > 0 {
			out, exit := workerHandle(strings.TrimSpace(line))
			pprof.StopCPUProfile() // no-op unless VERIF_PPROF started one
			wr.WriteString(out)
			wr.WriteByte('\n')
			wr.Flush()
			if exit {
				os.Exit(0)
			}
		}
		if err != nil {
			os.Exit(0)
		}
	}
}

type tail struct {
	mu sync.Mutex
	b  []byte
}

func (t *tail) Write(p []byte) (int, error) {
	t.mu.Lock()
	t.b = append(t.b, p...)
	if len(t.b) > 1<<16 {
		// keep head (the fatal error line and the first goroutine) and tail
		t.b = append(t.b[:1<<15:1<<15], t.b[len(t.b)-(1<<14):]...)
	}
	t.mu.Unlock()
	return len(p), nil
}
func (t *tail) String() string { t.mu.Lock(); defer t.mu.Unlock(); return string(t.b) }

type worker struct {
	cmd    *exec.Cmd
	in     *bufio.Writer
	out    *bufio.Reader
	stderr *tail
}

func startWorker() *worker {
	exe, _ := os.Executable()
	cmd := exec.Command("/bin/sh", "-c", fmt.Sprintf("ulimit -v %d; exec \"$0\"", memLimitKB), exe)
	cmd.Env = append(os.Environ(), "VERIF_WORKER=1", "GOMAXPROCS=2", "GOTRACEBACK=single")
	stdin, _ := cmd.StdinPipe()
	stdout, _ := cmd.StdoutPipe()
	tb := &tail{}
	cmd.Stderr = tb
	if err := cmd.Start(); err != nil {
		panic(err)
	}
	return &worker{cmd: cmd, in: bufio.NewWriter(stdin), out: bufio.NewReaderSize(stdout, 1<<22), stderr: tb}
}

func (w *worker) kill() {
	if w.cmd.Process != nil {
		w.cmd.Process.Kill()
	}
	w.cmd.Wait()
}

// call returns the outcome and whether the worker is still usable
func (w *worker) call(d *Doc, ms int, trace int) (Outcome, bool) {
	b, _ := json.Marshal(workerIn{D: d, Ms: ms, Analyze: ms == -1, Trace: trace})
	w.in.Write(b)
	w.in.WriteByte('\n')
	if err := w.in.Flush(); err != nil {
		w.cmd.Wait()
		return fatalOutcome(w.stderr.String()), false
	}
	type rd struct {
		line string
		err  error
	}
	// the worker's own watchdog counts CPU time with a wall-clock cap of 6x
	watchdog := 6*workerTimeout + (parentTimeout - workerTimeout)
	if ms > 0 {
		watchdog = 6*time.Duration(ms)*time.Millisecond + (parentTimeout - workerTimeout)
	}
	ch := make(chan rd, 1)
	go func() {
		l, err := w.out.ReadString('\n')
		ch <- rd{l, err}
	}()
	select {
	case r := <-ch:
		if r.err != nil || strings.TrimSpace(r.line) == "" {
			w.cmd.Wait()
			return fatalOutcome(w.stderr.String()), false
		}
		var o Outcome
		if err := json.Unmarshal([]byte(r.line), &o); err != nil {
			return Outcome{Status: "fatal", Site: "fatal:bad-worker-output", Msg: truncate(r.line, 200)}, false
		}
		return o, !o.Exit
	case <-time.After(watchdog):
		return Outcome{Status: "hang", Site: "hang@watchdog", Msg: "worker silent; killed by the parent watchdog"}, false
	}
}

func fatalOutcome(stderr string) Outcome {
	kind := vlib.FatalKind(stderr)
	o := Outcome{Status: "fatal", Msg: truncate(firstLine(stderr, "fatal error"), 200)}
	o.Frames = repoFrames(stderr, false, 400)
	// a stack overflow is named by the recursive function: the innermost /repo frame
	site := "?"
	if len(o.Frames) > 0 {
		p := strings.Fields(o.Frames[0])
		if len(p) == 2 {
			site = p[1]
		} else {
			site = p[0]
		}
	}
	o.OnStack = stackClasses(o.Frames)
	o.Site = "fatal:" + kind + "@" + site
	if kind == "out-of-memory" {
		// where the allocation fails is arbitrary: the site is the kind alone
		o.Site = "fatal:out-of-memory"
		o.Msg += " (allocating in " + site + ")"
	}
	if len(o.Frames) > 10 {
		o.Frames = o.Frames[:10]
	}
	return o
}

func firstLine(s, containing string) string {
	for _, l := range strings.Split(s, "\n") {
		if strings.Contains(l, containing) {
			return l
		}
	}
	if i := strings.Index(s, "\n"); i > 0 {
		return s[:i]
	}
	return s
}

// Pool is a long-lived set of workers used both for the stream and by the shrinker.
type Pool struct {
	par  int
	idle chan *worker
}

func NewPool(par int) *Pool {
	p := &Pool{par: par, idle: make(chan *worker, par)}
	for i := 0; i < par; i++ {
		p.idle <- nil
	}
	return p
}

// Run renders one document in some worker (blocking until one is free)
func (p *Pool) Run(d *Doc) Outcome { return p.RunT(d, 0) }

// Analyze computes the structural analysis of a document (in a worker: it runs /repo's cascade)
func (p *Pool) Analyze(d *Doc) Analysis {
	o := p.RunT(d, -1)
	if o.Analysis != nil {
		return *o.Analysis
	}
	return Analysis{}
}

// RunT: ms > 0 overrides the in-process hang timeout (used while shrinking hangs)
func (p *Pool) RunT(d *Doc, ms int) Outcome { return p.run(d, ms, 0) }

// Trace records the first pagination round of a document page by page (at most
// maxPages pages, watchdog ms)
func (p *Pool) Trace(d *Doc, maxPages, ms int) Outcome { return p.run(d, ms, maxPages) }

func (p *Pool) run(d *Doc, ms int, trace int) Outcome {
	w := <-p.idle
	if w == nil {
		w = startWorker()
	}
	t0 := time.Now()
	o, ok := w.call(d, ms, trace)
	if o.Ms == 0 {
		o.Ms = int(time.Since(t0) / time.Millisecond) // dead worker: duration seen by the parent
	}
	if !ok {
		w.kill()
		w = nil
	}
	p.idle <- w
	return o
}

func (p *Pool) RunAll(docs []*Doc) []Outcome {
	res := make([]Outcome, len(docs))
	var wg sync.WaitGroup
	sem := make(chan struct{}, p.par)
	for i := range docs {
		wg.Add(1)
		sem <- struct{}{}
		go func(i int) {
			defer wg.Done()
			res[i] = p.Run(docs[i])
			<-sem
		}(i)
	}
	wg.Wait()
	return res
}

func (p *Pool) Close() {
	for i := 0; i < p.par; i++ {
		if w := <-p.idle; w != nil {
			w.in.Flush()
			w.kill()
		}
	}
}
