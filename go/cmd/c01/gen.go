package main

// Random documents: tag soup from a pool of ~45 tags x random CSS (author
// <style>, user sheets, inline style; valid and broken) x presentational hints
// x text engine.  Everything derives from one vlib.Rng.

import (
	"fmt"
	"os"
	"strings"

	"verifharness/vlib"
)

type gen struct {
	r        *vlib.Rng
	budget   int // remaining element budget
	maxDepth int
	ids      []string
	profile  int
	theme    int // 0 none, themeVars, themeFootnotes, themeRefs: a structural dimension the document is built around
	refs     refPiece // themeRefs: the reference graphs of the document
}

const (
	themeVars      = 1
	themeFootnotes = 2
	themeRefs      = 3 // reference graphs (refs.go)
)

// VERIF_C01_THEME=vars|footnotes|refs builds every document around that dimension (triage aid;
// the registered stream does not set it)
var forceTheme = map[string]int{"vars": themeVars, "footnotes": themeFootnotes, "refs": themeRefs}[os.Getenv("VERIF_C01_THEME")]

var blockTags = []string{"div", "p", "section", "article", "blockquote", "h1", "h2", "h3", "pre", "center", "address", "figure", "details", "fieldset", "form", "nav", "header", "footer", "main"}
var inlineTags = []string{"span", "a", "b", "i", "em", "strong", "q", "sup", "sub", "font", "label", "code", "small", "u", "bdo", "bdi", "abbr", "cite"}
var listTags = []string{"ul", "ol", "dl"}
var replacedTags = []string{"img", "br", "hr", "input", "button", "select", "textarea", "svg", "object", "embed", "iframe", "video", "canvas", "meter", "progress", "wbr"}
var tableParts = []string{"table", "thead", "tbody", "tfoot", "tr", "td", "th", "caption", "col", "colgroup"}
var svgTags = []string{"rect", "circle", "ellipse", "line", "path", "polygon", "polyline", "g", "use", "text", "tspan", "defs", "linearGradient", "radialGradient", "stop", "image", "clipPath", "mask", "marker", "pattern", "symbol", "a", "svg", "filter", "feOffset", "textPath"}

const pngData = "data:image/png;base64,iVBORw0KGgoAAAANSUhEUgAAAAQAAAAECAIAAAAmkwkpAAAAEklEQVQI12P4z8DAwMDAxMDAAAANHQEDasKb6QAAAABJRU5ErkJggg=="
const svgData = "data:image/svg+xml,<svg xmlns='http://www.w3.org/2000/svg' width='10' height='10'><rect width='10' height='10' fill='lime'/></svg>"

var urls = []string{"pattern.png", "pattern.svg", "pattern.gif", "blue.jpg", "missing.png", "missing.svg", pngData, svgData,
	"data:image/png;base64,AAAA", "data:,", "data:image/svg+xml,<svg", "empty.png", "garbage.png", "garbage.svg", "zero.svg", "really-a-png.svg", "really-a-svg.png", "", "#", "#t1", "icon.png", "data:text/plain,hello"}

var words = []string{"lorem", "ipsum", "dolor", "sit", "amet", "a", "I", "consectetur", "x", "Hyphenation-friendly", "supercalifragilisticexpialidocious",
	"שלום", "עולם", "مرحبا", "بالعالم", "العربية", "123", "3.14", "—", "…", "ﬁ", "中文字", "日本語", "😀", "e\u0301", "\u200b", "\u00ad", "soft\u00adhy\u00adphen", "\u202eRLO", "\u200f", "\u2067x\u2069",
	"&amp;", "&lt;", "&nbsp;", "&#x202e;", "&#0;", "&#xD800;", "&bogus;", "&#1234567890;", "&copy", "AT&T", "\t", "\n", "  ", "\u00a0", "\u2028", "\ufeff", "\u0000"}

func (g *gen) word() string {
	r := g.r
	switch {
	case r.Chance(1, 40):
		return strings.Repeat(vlib.Pick(r, []string{"W", "m", "ab", "ש", "م", "字"}), r.Range(41, 140))
	case r.Chance(1, 30):
		return strings.Repeat("x", r.Range(1, 30)) + "/" + strings.Repeat("y", r.Range(1, 30))
	}
	return vlib.Pick(r, words)
}

func (g *gen) text() string {
	r := g.r
	n := r.Range(1, 12)
	if r.Chance(1, 10) {
		n = r.Range(20, 60)
	}
	var sb strings.Builder
	rtl := r.Chance(1, 6)
	for i := 0; i < n; i++ {
		if i > 0 {
			sb.WriteString(" ")
		}
		if rtl && r.Chance(2, 3) {
			sb.WriteString(vlib.Pick(r, []string{"שלום", "עולם", "مرحبا", "العربية", "עברית", "(", ")", "123"}))
		} else {
			sb.WriteString(g.word())
		}
	}
	return sb.String()
}

func (g *gen) id() string {
	if len(g.ids) > 0 && g.r.Chance(1, 2) {
		return vlib.Pick(g.r, g.ids)
	}
	id := fmt.Sprintf("t%d", g.r.Intn(6))
	g.ids = append(g.ids, id)
	return id
}

// ---------------------------------------------------------------- CSS values

func (g *gen) length() string {
	r := g.r
	switch r.Intn(16) {
	case 0:
		return "0"
	case 1:
		return "auto"
	case 2:
		return fmt.Sprintf("%d%%", r.Range(-20, 250))
	case 3:
		return fmt.Sprintf("-%dpx", r.Range(1, 3000))
	case 4:
		// huge values: mostly "large" (a 1e5px box is ~100 pages), rarely astronomic
		if r.Chance(1, 5) {
			return vlib.Pick(r, []string{"1e9px", "99999999px", "1e38px", "1e39px", "3.5e38px", "-1e9px", "1e9em", "100000%"})
		}
		return vlib.Pick(r, []string{"1e5px", "30000px", "99999px", "0.0001px", "1e-40px", "-1e5px", "1e4em", "5000%", "2e4pt"})
	case 5:
		return fmt.Sprintf("%dem", r.Range(0, 12))
	case 6:
		return fmt.Sprintf("%d%s", r.Range(0, 40), vlib.Pick(r, []string{"pt", "mm", "cm", "in", "pc", "ex", "ch", "rem", "vw", "vh", "Q", "q", "fr", "deg", "s", "xyz"}))
	case 7:
		return vlib.Pick(r, []string{"calc(1px + 2px)", "calc(100% - 10px)", "calc(", "min-content", "max-content", "fit-content", "fit-content(10px)", "inherit", "initial", "unset", "revert", "var(--a)", "var(--b, 10px)", "var(--undefined)", "var(--c,)", "var()", "none", "normal", "thin", "medium", "thick", "0.5", "2", "-1", "NaN", "infinity", "+5px", ".5px", "5.px", "1e3", "0x10"})
	default:
		return fmt.Sprintf("%dpx", r.Range(0, 400))
	}
}

func (g *gen) color() string {
	return vlib.Pick(g.r, []string{"red", "lime", "#00f", "#12345678", "#1234", "#12", "rgb(1,2,3)", "rgba(0,0,0,0.5)", "rgb(100% 0% 0% / 50%)", "hsl(120, 100%, 50%)", "hsla(1e9,0%,0%,2)", "transparent", "currentColor", "inherit", "var(--a)", "rgb(", "notacolor", "rgb(1,2)", "rgb(300,-5,1e9)", "hsl(0deg 0% 0%)", "CanvasText"})
}

func (g *gen) image() string {
	r := g.r
	switch r.Intn(8) {
	case 0:
		return "none"
	case 1:
		return fmt.Sprintf("linear-gradient(%s, %s, %s)", vlib.Pick(r, []string{"to right", "45deg", "to top left", "0", "1e9deg", "-90deg", "to nowhere"}), g.color(), g.color())
	case 2:
		return fmt.Sprintf("radial-gradient(%s, %s %s, %s)", vlib.Pick(r, []string{"circle", "ellipse at center", "0px at 0 0", "closest-side", "circle 0 at 100% 100%", "10px 0px", "farthest-corner at -50px 1e9px"}), g.color(), g.length(), g.color())
	case 3:
		return fmt.Sprintf("repeating-linear-gradient(%s 0, %s 0)", g.color(), g.color())
	case 4:
		return fmt.Sprintf("repeating-radial-gradient(%s, %s %s)", g.color(), g.color(), g.length())
	case 5:
		return "linear-gradient(red)"
	default:
		return "url(" + vlib.Pick(r, urls) + ")"
	}
}

func (g *gen) counterName() string {
	return vlib.Pick(g.r, []string{"c", "d", "page", "pages", "list-item", "footnote", "none", "inherit", "1c"})
}

func (g *gen) counterStyleName() string {
	return vlib.Pick(g.r, []string{"decimal", "lower-roman", "upper-alpha", "disc", "cs0", "cs1", "cs2", "cs3", "undefined-style", "decimal-leading-zero", "lower-greek", "armenian", "georgian", "hebrew", "cjk-decimal", "ethiopic-numeric", "simp-chinese-informal", "disclosure-open", "symbols(cyclic 'a' 'b')", "symbols(numeric '0')", "symbols(alphabetic 'a')", "symbols(fixed)", "symbols()", "none", "'-'"})
}

func (g *gen) contentValue() string {
	r := g.r
	n := r.Range(1, 3)
	parts := make([]string, 0, n)
	for i := 0; i < n; i++ {
		switch r.Intn(16) {
		case 0:
			parts = append(parts, "counter("+g.counterName()+")")
		case 1:
			parts = append(parts, "counter("+g.counterName()+", "+g.counterStyleName()+")")
		case 2:
			parts = append(parts, "counters("+g.counterName()+", '.', "+g.counterStyleName()+")")
		case 3:
			parts = append(parts, vlib.Pick(r, []string{"attr(title)", "attr(href)", "attr(missing)", "attr(data-x string)", "attr()", "attr(title url)"}))
		case 4:
			parts = append(parts, vlib.Pick(r, []string{"open-quote", "close-quote", "no-open-quote", "no-close-quote"}))
		case 5:
			parts = append(parts, "url("+vlib.Pick(r, urls)+")")
		case 6:
			parts = append(parts, vlib.Pick(r, []string{"string(s)", "string(s, first)", "string(s, last)", "string(s, start)", "string(s, first-except)", "string(undefined)", "string()"}))
		case 7:
			parts = append(parts, vlib.Pick(r, []string{"target-counter(attr(href), page)", "target-counter('#t1', c, lower-roman)", "target-counters(attr(href), c, '.')", "target-text(attr(href))", "target-text('#t2', before)", "target-text(attr(href), first-letter)", "target-counter(attr(href url), pages)", "target-counter('#nowhere', page)", "target-counter()"}))
		case 8:
			parts = append(parts, vlib.Pick(r, []string{"leader('.')", "leader(dotted)", "leader(space)", "leader('')", "leader('abc')"}))
		case 9:
			parts = append(parts, vlib.Pick(r, []string{"element(run)", "element(run, first)", "element(undefined)", "element()"}))
		case 10:
			parts = append(parts, vlib.Pick(r, []string{"normal", "none", "inherit", "contents", "\"\\A\"", "'\\'", "\"unterminated", "linear-gradient(red, blue)", "var(--a)", "counter()", "counter(c d e)", "counters(c)", "content()", "image-set('a.png' 1x)"}))
		default:
			parts = append(parts, "\""+vlib.Pick(r, []string{"x", "", " ", "→", "abc def", "שלום", "\\A line", "[", "•"})+"\"")
		}
	}
	return strings.Join(parts, " ")
}

var displays = []string{"block", "inline", "inline-block", "list-item", "flex", "inline-flex", "grid", "inline-grid", "table", "inline-table", "table-row", "table-cell", "table-row-group", "table-header-group", "table-footer-group", "table-column", "table-column-group", "table-caption", "none", "contents", "flow-root", "run-in", "block flow", "inline flow-root", "block flex", "inline list-item", "list-item block flow-root", "ruby", "bogus"}

type propGen func(g *gen) string

func kw(opts ...string) propGen { return func(g *gen) string { return vlib.Pick(g.r, opts) } }
func lengthP(g *gen) string     { return g.length() }
func colorP(g *gen) string      { return g.color() }
func intP(lo, hi int) propGen {
	return func(g *gen) string {
		if g.r.Chance(1, 8) {
			return vlib.Pick(g.r, []string{"0", "-1", "1e9", "2147483647", "2147483648", "-2147483649", "99999999999999999999", "1.5", "auto", "none", "inherit"})
		}
		return fmt.Sprint(g.r.Range(lo, hi))
	}
}

func trackList(g *gen) string {
	r := g.r
	n := r.Range(1, 4)
	parts := []string{}
	for i := 0; i < n; i++ {
		parts = append(parts, vlib.Pick(r, []string{"1fr", "2fr", "0fr", "auto", "100px", "0", "50%", "min-content", "max-content", "minmax(10px, 1fr)", "minmax(auto, 0)", "minmax(1fr, 1fr)", "fit-content(50px)", "repeat(2, 1fr)", "repeat(auto-fill, 50px)", "repeat(auto-fit, minmax(10px, 1fr))", "repeat(0, 1fr)", "repeat(1000, 1px)", "[a]", "[a b] 10px [c]", "subgrid", "none", "1e9px", "-5px", "repeat(auto-fill, 0px)", "repeat(auto-fill, auto)", "repeat(2, [x] 10px [y])"}))
	}
	return strings.Join(parts, " ")
}

func gridLine(g *gen) string {
	return vlib.Pick(g.r, []string{"auto", "1", "2", "-1", "0", "span 2", "span 0", "span a", "a", "1 / 3", "2 / span 2", "span 2 / 1", "-1 / -3", "1000", "span 1000", "a / b", "1 / 1", "3 / 1", "auto / auto", "span 2 / span 3"})
}

func transformV(g *gen) string {
	r := g.r
	n := r.Range(1, 3)
	parts := []string{}
	for i := 0; i < n; i++ {
		parts = append(parts, vlib.Pick(r, []string{"rotate(45deg)", "rotate(1e9deg)", "rotate(0.5turn)", "rotate(5)", "scale(2)", "scale(0)", "scale(-1, 1e9)", "scaleX(0)", "translate(10px, 50%)", "translate(1e9px)", "translateY(-100%)", "skew(45deg, 45deg)", "skewX(90deg)", "skewY(89.999deg)", "matrix(1,0,0,1,0,0)", "matrix(0,0,0,0,0,0)", "matrix(1,2,3)", "none", "perspective(10px)", "rotate3d(1,1,1,45deg)", "translate(", "scale()", "matrix(1e38,1e38,1e38,1e38,1e38,1e38)"}))
	}
	return strings.Join(parts, " ")
}

type prop struct {
	name string
	gen  propGen
	w    int // weight
}

var props []prop

func init() {
	side4 := func(base string, suffix string, g propGen, w int) {
		for _, s := range []string{"top", "right", "bottom", "left"} {
			props = append(props, prop{base + "-" + s + suffix, g, w})
		}
	}
	add := func(name string, g propGen, w int) { props = append(props, prop{name, g, w}) }
	add("display", kw(displays...), 30)
	add("float", kw("left", "right", "none", "footnote", "inline-start", "bogus"), 12)
	add("clear", kw("left", "right", "both", "none"), 5)
	add("position", kw("absolute", "relative", "fixed", "static", "sticky", "running(run)", "running()", "absolute", "fixed"), 14)
	for _, s := range []string{"top", "left", "right", "bottom"} {
		add(s, lengthP, 3)
	}
	add("inset", lengthP, 1)
	add("z-index", intP(-3, 5), 3)
	add("overflow", kw("hidden", "visible", "scroll", "auto", "clip"), 4)
	add("width", lengthP, 12)
	add("height", lengthP, 12)
	add("min-width", lengthP, 4)
	add("max-width", lengthP, 4)
	add("min-height", lengthP, 4)
	add("max-height", lengthP, 4)
	add("box-sizing", kw("border-box", "content-box", "padding-box"), 3)
	add("margin", func(g *gen) string {
		n := g.r.Range(1, 4)
		p := []string{}
		for i := 0; i < n; i++ {
			p = append(p, g.length())
		}
		return strings.Join(p, " ")
	}, 8)
	add("padding", lengthP, 6)
	side4("margin", "", lengthP, 2)
	side4("padding", "", lengthP, 1)
	add("border", func(g *gen) string {
		return g.length() + " " + vlib.Pick(g.r, []string{"solid", "dotted", "dashed", "double", "groove", "ridge", "inset", "outset", "none", "hidden"}) + " " + g.color()
	}, 8)
	side4("border", "-width", lengthP, 1)
	side4("border", "-style", kw("solid", "dotted", "dashed", "double", "groove", "ridge", "inset", "outset", "none", "hidden"), 1)
	add("border-radius", func(g *gen) string {
		if g.r.Bool() {
			return g.length() + " / " + g.length()
		}
		return g.length() + " " + g.length()
	}, 4)
	add("border-collapse", kw("collapse", "separate"), 6)
	add("border-spacing", func(g *gen) string { return g.length() + " " + g.length() }, 3)
	add("border-image-source", func(g *gen) string { return g.image() }, 2)
	add("border-image-slice", kw("1", "0", "50%", "10 fill", "1e9", "10 20 30 40", "fill"), 2)
	add("border-image-width", kw("1", "0", "auto", "10px", "50%", "1e9"), 1)
	add("border-image-outset", kw("0", "10px", "2", "1e9px"), 1)
	add("border-image-repeat", kw("stretch", "repeat", "round", "space", "round space"), 1)
	add("border-image", func(g *gen) string {
		return g.image() + " " + vlib.Pick(g.r, []string{"1", "10 fill / 5px / 2px round", "50% / 0", "0", "1 / 1e9px"})
	}, 2)
	add("outline", func(g *gen) string { return g.length() + " solid " + g.color() }, 2)
	add("table-layout", kw("fixed", "auto"), 6)
	add("caption-side", kw("top", "bottom", "block-start"), 2)
	add("empty-cells", kw("show", "hide"), 2)
	add("vertical-align", func(g *gen) string {
		if g.r.Chance(1, 3) {
			return g.length()
		}
		return vlib.Pick(g.r, []string{"baseline", "middle", "top", "bottom", "sub", "super", "text-top", "text-bottom"})
	}, 6)
	add("color", colorP, 3)
	add("background", func(g *gen) string {
		return g.image() + " " + vlib.Pick(g.r, []string{"", "no-repeat", "repeat-x", "space", "round", "center / cover", "0 0 / 0 0", "left 10px top 5px / contain", "fixed", "border-box content-box", "-10px 1e9px / 1e9px auto", "50% / 0px"}) + " " + g.color()
	}, 8)
	add("background-color", colorP, 4)
	add("background-image", func(g *gen) string {
		if g.r.Chance(1, 4) {
			return g.image() + ", " + g.image()
		}
		return g.image()
	}, 5)
	add("background-size", kw("cover", "contain", "auto", "0", "0 0", "10px", "50% auto", "1e9px", "auto 0", "-5px"), 3)
	add("background-position", kw("center", "0 0", "100% 100%", "right 10px bottom", "-1e9px 50%", "left", "top right", "10px"), 2)
	add("background-repeat", kw("repeat", "no-repeat", "space", "round", "repeat-x", "space round"), 3)
	add("background-clip", kw("border-box", "padding-box", "content-box", "text"), 1)
	add("background-origin", kw("border-box", "padding-box", "content-box"), 1)
	add("background-attachment", kw("fixed", "scroll", "local"), 1)
	add("opacity", kw("0", "0.5", "1", "2", "-1", "50%"), 3)
	add("visibility", kw("hidden", "visible", "collapse"), 3)
	add("transform", transformV, 6)
	add("transform-origin", kw("0 0", "center", "100% 100%", "left top", "10px", "1e9px 1e9px", "top", "50% 50% 10px"), 2)
	add("font-size", func(g *gen) string {
		if g.r.Chance(1, 2) {
			return vlib.Pick(g.r, []string{"0", "1px", "0.01px", "1e4px", "1e9px", "200%", "2em", "larger", "smaller", "xx-small", "xxx-large", "medium", "-5px", "1e38px", "0.5rem", "2ex", "3ch", "1.5ex"})
		}
		return fmt.Sprintf("%dpx", g.r.Range(1, 60))
	}, 10)
	add("font-family", kw("ahem", "weasyprint", "serif", "sans-serif", "monospace", "'No Such Font'", "ahem, weasyprint", "system-ui", "\"\"", "inherit", "my-font", "fantasy"), 8)
	add("font-weight", kw("bold", "bolder", "lighter", "normal", "100", "900", "1", "1000", "0", "1001", "550.5"), 5)
	add("font-style", kw("italic", "oblique", "normal", "oblique 10deg"), 2)
	add("font-stretch", kw("condensed", "expanded", "50%", "ultra-condensed", "normal"), 1)
	add("font-variant", kw("small-caps", "normal", "none", "all-petite-caps", "tabular-nums slashed-zero", "common-ligatures no-common-ligatures", "super", "ruby"), 2)
	add("font-variant-caps", kw("small-caps", "all-small-caps", "petite-caps", "unicase", "titling-caps"), 1)
	add("font-feature-settings", kw("normal", "'liga' 0", "'kern' 1, 'smcp'", "'abcd' 99999", "'x'", "liga"), 1)
	add("font-variation-settings", kw("normal", "'wght' 700", "'wdth' 1e9", "'x' 1"), 1)
	add("font-kerning", kw("none", "normal", "auto"), 1)
	add("font-language-override", kw("normal", "'TRK'", "''"), 1)
	add("font", kw("10px ahem", "bold italic 2em/1.5 weasyprint", "0/0 ahem", "caption", "menu", "12px", "ahem", "small-caps bold condensed 16px/2 serif", "1e9px/0 ahem", "italic", "10px/normal 'a b', c"), 5)
	add("line-height", kw("0", "1", "normal", "1.5", "50%", "100px", "-1", "1e9", "0.01", "3em"), 6)
	add("letter-spacing", kw("normal", "0", "5px", "-5px", "1e9px", "-1e9px", "1em", "-1em"), 3)
	add("word-spacing", kw("normal", "0", "5px", "-5px", "1e9px", "-100px", "50%"), 3)
	add("text-indent", kw("0", "20px", "-20px", "50%", "1e9px", "-1e9px", "2em hanging", "10px each-line"), 3)
	add("text-align", kw("left", "right", "center", "justify", "start", "end", "justify-all", "match-parent"), 6)
	add("text-align-last", kw("left", "right", "center", "justify", "start", "end", "auto"), 2)
	add("text-decoration", kw("underline", "overline line-through", "underline dotted red", "none", "blink", "underline wavy", "underline overline line-through double"), 3)
	add("text-transform", kw("uppercase", "lowercase", "capitalize", "full-width", "none"), 3)
	add("white-space", kw("normal", "nowrap", "pre", "pre-wrap", "pre-line", "break-spaces"), 8)
	add("word-break", kw("normal", "break-all", "keep-all", "break-word"), 3)
	add("overflow-wrap", kw("normal", "break-word", "anywhere"), 4)
	add("word-wrap", kw("normal", "break-word", "anywhere"), 1)
	add("hyphens", kw("none", "manual", "auto"), 4)
	add("hyphenate-character", kw("'-'", "auto", "''", "'abc'", "'\u2010'"), 1)
	add("hyphenate-limit-chars", kw("auto", "5 2 2", "0 0 0", "1", "100 50 50", "auto 1"), 1)
	add("hyphenate-limit-zone", kw("0", "50%", "1e9px", "10px", "-5px", "1ex", "2ch"), 1)
	add("lang", kw("'en'", "'fr'", "'he'", "'xx'", "''", "none", "attr(lang)"), 1)
	add("tab-size", kw("0", "4", "8", "1e9", "10px", "-1", "2ch", "1ex"), 2)
	add("direction", kw("rtl", "ltr"), 6)
	add("unicode-bidi", kw("normal", "embed", "isolate", "bidi-override", "isolate-override", "plaintext"), 3)
	add("text-overflow", kw("clip", "ellipsis"), 2)
	add("block-ellipsis", kw("none", "auto", "'…'", "''"), 1)
	add("max-lines", kw("none", "1", "2", "0", "1e9"), 1)
	add("continue", kw("auto", "discard"), 1)
	add("line-clamp", kw("none", "1", "2 '…'", "0", "2 auto"), 1)
	add("content", func(g *gen) string { return g.contentValue() }, 10)
	add("quotes", kw("none", "auto", "'«' '»'", "'a' 'b' 'c' 'd'", "'a'", "'' ''", "'a' 'b' 'c'"), 3)
	add("counter-reset", func(g *gen) string {
		return g.counterName() + vlib.Pick(g.r, []string{"", " 0", " -5", " 2147483647", " 99999999999", " 1.5", " 3 d 4"})
	}, 5)
	add("counter-increment", func(g *gen) string {
		return g.counterName() + vlib.Pick(g.r, []string{"", " 1", " -1", " 2147483647", " 0", " 1000000"})
	}, 5)
	add("counter-set", func(g *gen) string { return g.counterName() + vlib.Pick(g.r, []string{"", " 0", " -7", " 40000"}) }, 2)
	add("list-style-type", func(g *gen) string { return g.counterStyleName() }, 6)
	add("list-style-position", kw("inside", "outside"), 3)
	add("list-style-image", func(g *gen) string { return g.image() }, 2)
	add("list-style", func(g *gen) string {
		return g.counterStyleName() + " " + vlib.Pick(g.r, []string{"inside", "outside", ""})
	}, 2)
	add("string-set", kw("s content()", "s content(text)", "s content(before)", "s attr(title)", "s 'x' counter(c)", "s content(first-letter)", "none", "s", "s content(), t 'y'", "s counter(page)", "s counters(c, '.')", "s target-counter(attr(href), page)"), 3)
	add("bookmark-label", kw("content()", "content(text)", "'b' counter(c)", "none", "attr(title)", "content(before) content(after)", "counter(page)", "target-text(attr(href))"), 3)
	add("bookmark-level", kw("1", "2", "none", "0", "-1", "1e9", "6"), 3)
	add("bookmark-state", kw("open", "closed", "0"), 1)
	add("anchor", kw("attr(id)", "attr(name)", "none", "'x'", "attr()"), 2)
	add("link", kw("attr(href)", "attr(href url)", "url(#t1)", "url(http://x.test/)", "none", "'#t1'", "attr(missing)"), 2)
	add("break-before", kw("page", "left", "right", "recto", "verso", "avoid", "always", "column", "avoid-page", "avoid-column", "auto", "all"), 10)
	add("break-after", kw("page", "left", "right", "recto", "verso", "avoid", "always", "column", "avoid-page", "auto"), 10)
	add("break-inside", kw("avoid", "avoid-page", "avoid-column", "auto"), 6)
	add("page-break-before", kw("always", "left", "right", "avoid", "auto"), 3)
	add("page-break-after", kw("always", "left", "right", "avoid", "auto"), 3)
	add("page-break-inside", kw("avoid", "auto"), 2)
	add("page", kw("p1", "p2", "auto", "undefined-page", "1p"), 6)
	add("orphans", intP(0, 5), 3)
	add("widows", intP(0, 5), 3)
	add("box-decoration-break", kw("clone", "slice"), 3)
	add("margin-break", kw("auto", "keep", "discard"), 2)
	add("footnote-display", kw("block", "inline", "compact"), 2)
	add("footnote-policy", kw("auto", "line", "block"), 2)
	add("columns", kw("2", "3 100px", "100px", "auto", "0", "1e9", "auto auto", "2 0px", "1000", "0px", "1 1px"), 6)
	add("column-count", intP(1, 4), 5)
	add("column-width", lengthP, 4)
	add("column-gap", lengthP, 3)
	add("column-span", kw("all", "none"), 4)
	add("column-fill", kw("auto", "balance"), 3)
	add("column-rule", func(g *gen) string { return g.length() + " solid " + g.color() }, 2)
	add("gap", func(g *gen) string { return g.length() + " " + g.length() }, 3)
	add("row-gap", lengthP, 1)
	add("flex", kw("1", "none", "auto", "0 0 auto", "1 1 0", "2 0 100px", "0", "1e9", "1 0", "0 1e9 50%", "initial", "1 1 -5px", "0.0001", "1 content"), 10)
	add("flex-direction", kw("row", "column", "row-reverse", "column-reverse"), 8)
	add("flex-wrap", kw("wrap", "nowrap", "wrap-reverse"), 8)
	add("flex-flow", kw("row wrap", "column wrap", "column-reverse wrap-reverse", "wrap", "column nowrap"), 3)
	add("flex-grow", kw("0", "1", "2", "1e9", "0.5", "-1"), 3)
	add("flex-shrink", kw("0", "1", "1e9", "0.5", "-1"), 3)
	add("flex-basis", func(g *gen) string {
		if g.r.Chance(1, 4) {
			return "content"
		}
		return g.length()
	}, 4)
	add("order", intP(-2, 3), 3)
	add("justify-content", kw("flex-start", "flex-end", "center", "space-between", "space-around", "space-evenly", "stretch", "start", "end", "left", "right", "normal", "safe center", "unsafe end"), 4)
	add("justify-items", kw("start", "end", "center", "stretch", "normal", "legacy", "legacy left", "baseline", "self-start"), 2)
	add("justify-self", kw("start", "end", "center", "stretch", "auto", "normal", "baseline", "left"), 2)
	add("align-items", kw("flex-start", "flex-end", "center", "baseline", "stretch", "start", "end", "normal", "first baseline", "last baseline", "self-end"), 4)
	add("align-self", kw("flex-start", "flex-end", "center", "baseline", "stretch", "auto", "start", "end", "normal"), 3)
	add("align-content", kw("flex-start", "flex-end", "center", "space-between", "space-around", "space-evenly", "stretch", "start", "normal", "baseline"), 3)
	add("place-items", kw("center", "start end", "stretch"), 1)
	add("place-content", kw("center", "space-between start", "stretch"), 1)
	add("place-self", kw("center", "start end", "auto"), 1)
	add("grid-template-columns", trackList, 10)
	add("grid-template-rows", trackList, 6)
	add("grid-template-areas", kw("'a b' 'c d'", "'a a' 'a a'", "'a' 'b' 'c'", "'a . b'", "'a b' 'c'", "'a a' 'b a'", "none", "''", "'a b c d e f g h'", "'. .' '. .'", "'a b' 'a b' 'a b'"), 4)
	add("grid-template", kw("'a b' 10px 'c d' / 1fr 2fr", "10px / 1fr", "none", "'a' / 0", "[x] 'a' 1fr [y] / auto"), 2)
	add("grid", kw("auto-flow / 1fr 1fr", "10px / auto-flow dense 10px", "'a b' / 1fr", "none", "auto-flow dense / 10px"), 1)
	add("grid-auto-flow", kw("row", "column", "dense", "row dense", "column dense"), 4)
	add("grid-auto-columns", trackList, 3)
	add("grid-auto-rows", trackList, 3)
	add("grid-column", gridLine, 6)
	add("grid-row", gridLine, 6)
	add("grid-area", kw("a", "b", "c", "d", "1 / 1 / 2 / 2", "1 / 2", "auto", "2 / 1 / span 2 / span 3", "zz", "1 / 1 / 1 / 1", "-1 / -1", "span 3", "-2 / 2 / 2 / -2"), 4)
	add("grid-column-start", kw("1", "2", "-1", "span 2", "auto", "a", "0", "1000", "a-start", "span a 2"), 2)
	add("grid-column-end", kw("1", "3", "-1", "span 2", "auto", "a", "1000", "a-end"), 2)
	add("grid-row-start", kw("1", "2", "-1", "span 2", "auto", "a", "1000"), 2)
	add("grid-row-end", kw("1", "3", "-1", "span 2", "auto", "a", "1000"), 2)
	add("object-fit", kw("fill", "contain", "cover", "none", "scale-down"), 3)
	add("object-position", kw("center", "0 0", "100% 100%", "-1e9px 50%", "right 5px bottom 5px"), 2)
	add("image-resolution", kw("1dppx", "300dpi", "0dppx", "from-image", "from-image 2dppx", "1e9dppx", "0.0001dpi", "snap", "-1dppx"), 3)
	add("image-rendering", kw("auto", "pixelated", "crisp-edges", "smooth"), 1)
	add("image-orientation", kw("none", "from-image", "90deg", "90deg flip", "flip", "45deg", "1e9deg", "-90deg"), 2)
	add("appearance", kw("none", "auto", "button"), 1)
	add("clip", kw("auto", "rect(0, 10px, 10px, 0)", "rect(auto, auto, auto, auto)", "rect(1e9px, -5px, 0, 0)", "rect(0 0 0 0)", "rect()"), 2)
	add("size", kw("A4", "a5 landscape", "100px", "100px 50px", "0", "0 0", "1px", "1e6px", "1e9px 1e9px", "auto", "landscape", "portrait letter", "-5px", "50%", "1e38px", "0.001px 100px", "100px 0"), 0)
	add("marks", kw("crop", "cross", "crop cross", "none"), 0)
	add("bleed", lengthP, 0)
	add("--a", func(g *gen) string {
		return vlib.Pick(g.r, []string{"var(--a)", "var(--b)", "10px", "red", "var(--b, var(--a))", "", " ", "block", "var(--c) var(--c)", "{", "1px solid", "var(--undefined)", "calc(var(--b) + 1px)", "var(--a,)"})
	}, 6)
	add("--b", func(g *gen) string {
		return vlib.Pick(g.r, []string{"var(--a)", "var(--c)", "20px", "blue", "flex", "var(--b)", "0", "var(--c, 5px)", "a b c", "url(x.png)", "'str'"})
	}, 5)
	add("--c", func(g *gen) string {
		return vlib.Pick(g.r, []string{"var(--b)", "var(--a) var(--b)", "absolute", "5", "var(--c)", "inherit", "initial", "!important", "var(--d)"})
	}, 4)
	add("--d", kw("var(--c)", "1", "grid", "var(--a)"), 2)
}

var totalW int
var propByName = map[string]prop{}

func init() {
	for _, p := range props {
		totalW += p.w
		propByName[p.name] = p
	}
}

func (g *gen) pickProp() prop {
	k := g.r.Intn(totalW)
	for _, p := range props {
		if k < p.w {
			return p
		}
		k -= p.w
	}
	return props[0]
}

var brokenDecls = []string{"color", "color:", ": red", "width: 10px 20px 30px 40px 50px", "display: block !important !important", "!important", "width: 10px !importan", "{}", "color: red; }", "background: url(", "content: \"abc", "width: calc(1px +", "margin: 1px 2px 3px 4px 5px", "-: 1", "--: 1", "- : x", "\\", "@media x { }", "color: rgb(1,2,3", "font: ", "width: 1-", "top: #-", "a: @-", "/*", "*/", "<!--", "-->", "width: 10px;;;;", "WIDTH: 10PX", "wi\\64th: 10px", "width: 10\\70x", "width:10px!important", "unknown-prop: 1", "-webkit-box: 1", "width: expression(alert(1))", "grid-template-areas: 'a' 'b b'", "transform: rotate(", "content: counter(", "counter-reset: c c c c c 5 5", "font-family: ,", "quotes: 'a' 'b' 'c'", "size: 10px 10px 10px"}

func (g *gen) decl() Decl {
	r := g.r
	if r.Chance(1, 14) {
		return Decl{Raw: vlib.Pick(r, brokenDecls)}
	}
	p := g.pickProp()
	v := p.gen(g)
	if r.Chance(1, 12) {
		// a value of another property / a generic one (mostly invalid)
		v = vlib.Pick(r, []string{g.length(), g.color(), "var(--a)", "var(--b) var(--c)", "inherit", "initial", "unset", "", "0", "none", "auto", "-1", "1e9", "'s'", "url(missing.png)", "a b c d e f"})
	}
	if r.Chance(1, 10) {
		v += " !important"
	}
	return Decl{N: p.name, V: v}
}

func (g *gen) decls(lo, hi int) []Decl {
	n := g.r.Range(lo, hi)
	out := make([]Decl, 0, n)
	for i := 0; i < n; i++ {
		out = append(out, g.decl())
	}
	return out
}

// focused declaration sets: layout modes need several cooperating properties
func (g *gen) themedDecls() []Decl {
	r := g.r
	pd := func(name string) Decl { return Decl{N: name, V: propByName[name].gen(g)} }
	var out []Decl
	switch r.Intn(12) {
	case 0:
		out = []Decl{{N: "display", V: vlib.Pick(r, []string{"flex", "inline-flex"})}, pd("flex-direction"), pd("flex-wrap"), pd("align-items"), pd("justify-content")}
	case 1:
		out = []Decl{{N: "display", V: vlib.Pick(r, []string{"grid", "inline-grid"})}, pd("grid-template-columns"), pd("grid-template-rows"), pd("grid-template-areas"), pd("grid-auto-flow"), pd("gap")}
	case 2:
		out = []Decl{pd("columns"), pd("column-gap"), pd("column-fill"), pd("height")}
	case 3:
		out = []Decl{{N: "display", V: vlib.Pick(r, []string{"table", "inline-table", "table-row", "table-cell", "table-row-group", "table-column", "table-caption", "table-column-group", "table-header-group", "table-footer-group"})}, pd("table-layout"), pd("border-collapse"), pd("width")}
	case 4:
		out = []Decl{pd("position"), pd("top"), pd("left"), pd("right"), pd("bottom"), pd("width"), pd("height")}
	case 5:
		out = []Decl{pd("float"), pd("width"), pd("height"), pd("clear"), pd("margin")}
	case 6:
		out = []Decl{pd("break-before"), pd("break-after"), pd("break-inside"), pd("page"), pd("orphans"), pd("widows")}
	case 7:
		out = []Decl{pd("grid-column"), pd("grid-row"), pd("grid-area"), pd("align-self"), pd("justify-self")}
	case 8:
		out = []Decl{pd("flex"), pd("order"), pd("align-self"), pd("flex-basis"), pd("min-width")}
	case 9:
		out = []Decl{pd("direction"), pd("unicode-bidi"), pd("text-align"), pd("white-space"), pd("overflow-wrap"), pd("hyphens"), pd("letter-spacing"), pd("width")}
	case 10:
		out = []Decl{pd("content"), pd("counter-increment"), pd("counter-reset"), pd("list-style-type"), pd("display")}
	default:
		out = []Decl{pd("font-size"), pd("line-height"), pd("font-family"), pd("vertical-align"), pd("display")}
	}
	// keep a random non-empty subset
	var sub []Decl
	for _, d := range out {
		if r.Chance(3, 4) {
			sub = append(sub, d)
		}
	}
	if len(sub) == 0 {
		sub = out[:1]
	}
	if r.Chance(1, 2) {
		sub = append(sub, g.decls(0, 3)...)
	}
	return sub
}

func (g *gen) someDecls() []Decl {
	if g.r.Chance(1, 16) {
		// a custom-property graph and its uses in one declaration list
		customs, users := g.varGraph()
		if g.r.Bool() {
			return append(customs, users...)
		}
		return append(users, customs...)
	}
	if g.r.Chance(1, 2) {
		return g.themedDecls()
	}
	return g.decls(1, 5)
}

// ---------------------------------------------------------------- custom-property graphs

var customNames = []string{"--a", "--b", "--c", "--d", "--e"}

func (g *gen) varLiteral() string {
	return vlib.Pick(g.r, []string{"10px", "2", "red", "5%", "block", "1px solid", "0", "20px", "3em", "#00f", "1", "'s'", "auto", "2 100px", "a b"})
}

// wrappers through which a var() reference can be routed: math functions, colour
// functions, unknown functions, simple blocks, the fallback of another var()
var varWrappers = []string{"calc(%s + 1px)", "calc(2 * %s)", "min(%s, 10px)", "max(1px, %s)", "clamp(1px, %s, 9px)", "rgb(%s, 0, 0)", "rgb(0 %s 0)",
	"foo(%s)", "(%s)", "[%s]", "{%s}", "translate(%s)", "var(--undefined, %s)", "var(--undefined,%s)", "linear-gradient(%s, blue)", "calc(1px + min(%s, 2px))",
	"counter(%s)", "repeat(2, %s)", "minmax(%s, 1fr)", "fit-content(%s)", "hsl(%s 50% 50%)", "attr(title, %s)", "symbols(cyclic %s)", "rect(%s, 1px, 1px, 1px)"}

// varRef is a reference to the custom property `name`: bare, with a fallback
// (a literal or another reference), and routed through 0..2 functions / blocks.
func (g *gen) varRef(name string, others []string, wrapNum, wrapDen int) string {
	r := g.r
	ref := "var(" + name + ")"
	switch r.Intn(8) {
	case 0:
		ref = "var(" + name + ", " + g.varLiteral() + ")"
	case 1:
		if len(others) > 0 {
			ref = "var(" + name + ", var(" + vlib.Pick(r, others) + "))"
		}
	case 2:
		ref = "var( " + name + " )"
	case 3:
		if len(others) > 0 {
			ref = "var(" + name + ", calc(var(" + vlib.Pick(r, others) + ") * 2))"
		}
	}
	for n := 0; n < 2 && r.Chance(wrapNum, wrapDen); n++ {
		ref = strings.Replace(vlib.Pick(r, varWrappers), "%s", ref, 1)
	}
	return ref
}

// regular properties that use a reference (the custom properties are resolved
// when a regular property uses them)
var varUsers = [][2]string{{"width", "%s"}, {"margin-left", "%s"}, {"height", "calc(%s * 2)"}, {"color", "%s"}, {"background-color", "rgb(%s 0 0)"},
	{"font-size", "%s"}, {"padding", "%s %s"}, {"border", "%s solid red"}, {"transform", "translate(%s)"}, {"content", "%s"}, {"line-height", "%s"},
	{"columns", "%s"}, {"grid-template-columns", "repeat(2, %s)"}, {"margin", "%s %s"}, {"display", "%s"}, {"min-width", "max(%s, 1px)"}, {"top", "%s"},
	{"background", "linear-gradient(%s, %s)"}, {"counter-reset", "c %s"}, {"text-indent", "%s"}, {"flex", "%s"}, {"border-radius", "%s / %s"}, {"size", "%s"}}

// varGraph: declarations of 2..5 custom properties referencing each other (random
// graph: with or without cycles, self references, references to undefined
// properties), every edge bare or routed through a function, and regular
// properties using them.  Returned separately: they may sit in the same rule, in
// different rules (inheritance) or in an inline style.
func (g *gen) varGraph() (customs []Decl, users []Decl) {
	r := g.r
	n := r.Range(2, 5)
	names := append([]string{}, customNames...)
	for i := len(names) - 1; i > 0; i-- { // shuffle
		j := r.Intn(i + 1)
		names[i], names[j] = names[j], names[i]
	}
	names = names[:n]
	edges := make([][]string, n) // references of names[i]
	if r.Chance(1, 4) {
		// a shape of the common reference-graph dimension (refs.go): self / 2-cycle / cycle / rho / diamond / chain / dangling / random
		gr := g.refGraph()
		n = gr.n
		names = g.shuffled(customNames, n)
		edges = make([][]string, n)
		for i, out := range gr.out {
			for _, j := range out {
				if j < 0 {
					edges[i] = append(edges[i], "--undefined")
				} else {
					edges[i] = append(edges[i], names[j])
				}
			}
		}
	} else if r.Chance(3, 5) {
		// a cycle through the first k names (k = 1: self reference)
		k := r.Range(1, n)
		for i := 0; i < k; i++ {
			edges[i] = append(edges[i], names[(i+1)%k])
		}
		for i := k; i < n; i++ { // the others lead into the cycle or are leaves
			if r.Chance(2, 3) {
				edges[i] = append(edges[i], names[r.Intn(i)])
			}
		}
	} else {
		// acyclic: references to later names only; the last one is a leaf
		for i := 0; i < n-1; i++ {
			edges[i] = append(edges[i], names[r.Range(i+1, n-1)])
			if r.Chance(1, 4) {
				edges[i] = append(edges[i], names[r.Range(i+1, n-1)])
			}
		}
	}
	if r.Chance(1, 6) {
		edges[r.Intn(n)] = append(edges[r.Intn(n)], "--undefined")
	}
	// how often an edge goes through a function: per graph, so that graphs whose
	// edges are ALL bare, ALL wrapped, or mixed are produced
	wrapNum := vlib.Pick(r, []int{0, 1, 1, 2, 3})
	for i, name := range names {
		var parts []string
		for _, to := range edges[i] {
			parts = append(parts, g.varRef(to, names, wrapNum, 3))
		}
		if len(parts) == 0 || r.Chance(1, 5) {
			parts = append(parts, g.varLiteral())
		}
		if r.Chance(1, 2) { // order of tokens
			parts[0], parts[len(parts)-1] = parts[len(parts)-1], parts[0]
		}
		v := strings.Join(parts, " ")
		if r.Chance(1, 12) {
			v += " !important"
		}
		customs = append(customs, Decl{N: name, V: v})
	}
	nu := r.Range(1, 3)
	for i := 0; i < nu; i++ {
		u := vlib.Pick(r, varUsers)
		ref := func() string { return g.varRef(names[r.Intn(1+r.Intn(n))], names, 1, 3) }
		v := u[1]
		for strings.Contains(v, "%s") {
			v = strings.Replace(v, "%s", ref(), 1)
		}
		users = append(users, Decl{N: u[0], V: v})
	}
	return customs, users
}

var sureSelectors = []string{"*", "html", "body", ":root", "body *", "div", "p", "span", "html, body"}

func (g *gen) sureSel() string {
	if g.r.Chance(1, 4) {
		return g.simpleSel()
	}
	return vlib.Pick(g.r, sureSelectors)
}

// varGraphRules places a custom-property graph in 1..3 rules
func (g *gen) varGraphRules() []Rule {
	r := g.r
	customs, users := g.varGraph()
	switch r.Intn(4) {
	case 0: // everything in one rule
		return []Rule{{Pre: g.sureSel(), Decls: append(customs, users...)}}
	case 1: // uses before definitions, same selector
		sel := g.sureSel()
		return []Rule{{Pre: sel, Decls: users}, {Pre: sel, Decls: customs}}
	case 2: // definitions split over ancestors (inheritance), uses on descendants
		k := r.Range(1, len(customs)-1)
		return []Rule{{Pre: "html", Decls: customs[:k]}, {Pre: vlib.Pick(r, []string{"body", "*", "html"}), Decls: customs[k:]}, {Pre: g.sureSel(), Decls: users}}
	}
	return []Rule{{Pre: g.sureSel(), Decls: customs}, {Pre: g.sureSel(), Decls: users}}
}

// ---------------------------------------------------------------- footnotes

// footnoteRules: a footnote area (bounded or not), footnote elements (selector
// .fn and sometimes plain tags) whose content may be higher than the area or
// than the page, call / marker pseudo-elements
func (g *gen) footnoteRules() []Rule {
	r := g.r
	pd := func(name string) Decl { return Decl{N: name, V: propByName[name].gen(g)} }
	sub := func(ds []Decl, num, den int) []Decl {
		var out []Decl
		for _, d := range ds {
			if r.Chance(num, den) {
				out = append(out, d)
			}
		}
		return out
	}
	page := Rule{Pre: "@page"}
	if r.Chance(1, 4) {
		page.Pre += " " + vlib.Pick(r, []string{":first", ":left", ":right", ":blank", ":nth(2)"})
	}
	if r.Chance(4, 5) {
		page.Decls = append(page.Decls, Decl{N: "size", V: vlib.Pick(r, []string{"200px 150px", "300px 200px", "A6", "100px", "400px 120px", "150px 400px", "80px 60px", "A4", "300px 50px"})})
	}
	if r.Chance(3, 4) {
		page.Decls = append(page.Decls, Decl{N: "margin", V: vlib.Pick(r, []string{"10px", "0", "20px 10px", "5px", "1px", "40px"})})
	}
	if r.Chance(4, 5) {
		area := Rule{Pre: "@footnote"}
		lim := vlib.Pick(r, []string{"10px", "20px", "40px", "0", "1px", "50%", "5em", "80px", "15px", "100%", "30px"})
		area.Decls = append(area.Decls, sub([]Decl{{N: "max-height", V: lim}, {N: "height", V: vlib.Pick(r, []string{"10px", "30px", "0", "60px", "auto", "20%"})}}, 2, 3)...)
		area.Decls = append(area.Decls, sub([]Decl{{N: "margin-top", V: vlib.Pick(r, []string{"0", "5px", "20px", "-5px"})}, {N: "padding", V: vlib.Pick(r, []string{"0", "2px", "10px"})},
			{N: "border-top", V: "1px solid red"}, {N: "content", V: "'notes'"}, pd("footnote-display"), pd("overflow"), pd("columns"), pd("display"), pd("position"),
			{N: "min-height", V: vlib.Pick(r, []string{"5px", "50px", "200px"})}, pd("font-size"), pd("float"), pd("width")}, 1, 7)...)
		page.Rules = append(page.Rules, area)
	}
	if r.Chance(1, 5) {
		mb := Rule{Pre: vlib.Pick(r, marginBoxes), Decls: []Decl{{N: "content", V: g.contentValue()}}}
		page.Rules = append(page.Rules, mb)
	}
	out := []Rule{page}
	fn := Rule{Pre: vlib.Pick(r, []string{".fn", ".fn", ".fn", "span.fn", ".fn, q", ".fn, li", ".fn, b", ".fn, .c0"}), Decls: []Decl{{N: "float", V: "footnote"}}}
	fn.Decls = append(fn.Decls, sub([]Decl{pd("footnote-policy"), pd("footnote-display"),
		{N: "font-size", V: vlib.Pick(r, []string{"8px", "10px", "16px", "30px", "2em", "60px"})},
		{N: "line-height", V: vlib.Pick(r, []string{"1", "2", "30px", "100px", "normal"})},
		{N: "display", V: vlib.Pick(r, []string{"block", "inline-block", "list-item", "table", "flex", "grid", "inline"})},
		{N: "height", V: vlib.Pick(r, []string{"30px", "100px", "300px", "1000px", "5px", "50%"})},
		{N: "width", V: vlib.Pick(r, []string{"20px", "100%", "50px", "1px"})},
		{N: "padding", V: vlib.Pick(r, []string{"2px", "20px", "100px 0"})},
		{N: "margin", V: vlib.Pick(r, []string{"5px", "50px", "-10px", "0 0 200px"})},
		{N: "border", V: "3px solid"}, {N: "white-space", V: "pre"}, pd("break-inside"), pd("break-before"), pd("columns"), pd("position"), pd("overflow")}, 1, 5)...)
	out = append(out, fn)
	if r.Chance(1, 3) {
		out = append(out, Rule{Pre: vlib.Pick(r, []string{".fn::footnote-call", "::footnote-call", ".fn::footnote-marker", "::footnote-marker"}),
			Decls: append([]Decl{{N: "content", V: vlib.Pick(r, []string{"counter(footnote)", "'[' counter(footnote) ']'", "'*'", "none", "counter(footnote, lower-roman) '. '"})}}, g.decls(0, 2)...)})
	}
	if r.Chance(1, 3) {
		out = append(out, Rule{Pre: vlib.Pick(r, []string{"body", "p", "div", "html"}), Decls: sub([]Decl{pd("columns"), pd("orphans"), pd("widows"), pd("font-size"), pd("line-height"), pd("break-after"), pd("height"), pd("column-fill")}, 1, 3)})
	}
	return out
}

// footnoteNode: a footnote element with text (often long: higher than a bounded
// footnote area) and sometimes block children
func (g *gen) footnoteNode() *Node {
	r := g.r
	n := &Node{K: "el", Tag: vlib.Pick(r, []string{"span", "span", "span", "div", "p", "i", "aside"}), Attrs: [][2]string{{"class", "fn"}}}
	words := r.Range(1, 6)
	if r.Chance(1, 2) {
		words = r.Range(15, 60)
	}
	var sb strings.Builder
	for i := 0; i < words; i++ {
		if i > 0 {
			sb.WriteString(" ")
		}
		sb.WriteString(vlib.Pick(r, []string{"note", "lorem", "ipsum", "dolor", "sit", "amet", "consectetur", "a", "x"}))
	}
	n.Kids = []*Node{{K: "text", Text: sb.String()}}
	if r.Chance(1, 5) {
		n.Kids = append(n.Kids, &Node{K: "el", Tag: "div", Style: []Decl{{N: "height", V: vlib.Pick(r, []string{"50px", "200px", "1000px"})}}})
	}
	if r.Chance(1, 8) {
		n.Kids = append(n.Kids, g.footnoteNode()) // a footnote inside a footnote
	}
	if r.Chance(1, 6) {
		n.Style = g.decls(1, 2)
	}
	return n
}

// ---------------------------------------------------------------- selectors / rules

var allTagsForSel = append(append(append(append([]string{"html", "body", "li", "td", "tr", "table", "*"}, blockTags[:8]...), inlineTags[:8]...), listTags...), "img", "svg", "input", "br")

func (g *gen) simpleSel() string {
	r := g.r
	s := ""
	switch r.Intn(8) {
	case 0:
		s = "*"
	case 1, 2, 3:
		s = vlib.Pick(r, allTagsForSel)
	case 4, 5:
		s = fmt.Sprintf(".c%d", r.Intn(5))
	case 6:
		s = "#" + g.id()
	default:
		s = vlib.Pick(r, allTagsForSel) + fmt.Sprintf(".c%d", r.Intn(5))
	}
	if r.Chance(1, 5) {
		s += vlib.Pick(r, []string{":first-child", ":last-child", ":nth-child(2n+1)", ":nth-child(-n+3)", ":nth-last-child(2)", ":nth-of-type(even)", ":only-child", ":empty", ":root", ":not(.c1)", ":not(*)", ":link", ":checked", ":lang(he)", ":is(div, p)", ":where(.c0)", ":has(p)", ":hover", ":nth-child(0n+0)", ":nth-child(-1)", ":nth-child(2147483647n+1)", "[dir=rtl]", "[title]", "[class~=c1]", "[id^=t]", "[href$='1']", "[lang|=en]", "[a=]", ":first-of-type", ":target", ":disabled", ":not()", ":nth-child()"})
	}
	return s
}

func (g *gen) selector() string {
	r := g.r
	if r.Chance(1, 25) {
		return vlib.Pick(r, []string{"", ">", "div >", ",", "div,,p", ".", "#", "::", ":::before", "div::before::after", "[", "[a", "div[=x]", "1div", "div > > p", "!", "@", "*|*", "a|b", "|div", "svg|rect", ":nth-child(n", "\\", "div/**/p", "-", "--x", ".-", "#-", "div:before:hover"})
	}
	n := r.Range(1, 3)
	s := g.simpleSel()
	for i := 1; i < n; i++ {
		s += vlib.Pick(r, []string{" ", " > ", " + ", " ~ ", " "}) + g.simpleSel()
	}
	if r.Chance(1, 4) {
		s += vlib.Pick(r, []string{"::before", "::after", "::marker", "::first-line", "::first-letter", ":before", ":after", "::footnote-call", "::footnote-marker", "::selection", "::bogus", "::first-line::before"})
	}
	if r.Chance(1, 6) {
		s += ", " + g.simpleSel()
	}
	return s
}

var marginBoxes = []string{"@top-left-corner", "@top-left", "@top-center", "@top-right", "@top-right-corner", "@bottom-left-corner", "@bottom-left", "@bottom-center", "@bottom-right", "@bottom-right-corner", "@left-top", "@left-middle", "@left-bottom", "@right-top", "@right-middle", "@right-bottom", "@footnote", "@bogus-box"}

func (g *gen) pageRule() Rule {
	r := g.r
	pre := "@page"
	if r.Chance(1, 2) {
		pre += " " + vlib.Pick(r, []string{":first", ":left", ":right", ":blank", "p1", "p2", "p1:first", ":nth(2)", ":nth(2n+1)", ":nth(1 of p1)", "p1:left:blank", ":first:first", ":bogus", "p1, p2", ":nth(0)", ":nth(-1)", ":nth(0n)", ":nth(2n+1 of p2)", ":first, :left", "1p", ":nth("})
	}
	var ds []Decl
	if r.Chance(3, 4) {
		ds = append(ds, Decl{N: "size", V: propByName["size"].gen(g)})
	}
	if r.Chance(3, 4) {
		ds = append(ds, Decl{N: "margin", V: vlib.Pick(r, []string{"0", "10px", "-500px", "1e5px", "auto", "50%", "-50%", "100%", "1e9px", "10px -1000px", "1in", "0 0 1e9px 0", "-1e9px", "200%", "49% 49%", "50px auto"})})
	}
	if r.Chance(1, 3) {
		ds = append(ds, Decl{N: vlib.Pick(r, []string{"marks", "bleed", "padding", "border", "background", "width", "height", "min-height", "max-width", "counter-increment", "counter-reset", "font-size", "direction", "footnote-policy", "display", "float", "position", "overflow", "columns", "transform", "opacity", "page", "break-before"}), V: ""})
		p := ds[len(ds)-1].N
		ds[len(ds)-1].V = propByName[p].gen(g)
	}
	rule := Rule{Pre: pre, Decls: ds}
	nb := 0
	if r.Chance(1, 2) {
		nb = r.Range(1, 3)
	}
	for i := 0; i < nb; i++ {
		mb := Rule{Pre: vlib.Pick(r, marginBoxes)}
		mb.Decls = append(mb.Decls, Decl{N: "content", V: g.contentValue()})
		if r.Chance(1, 2) {
			mb.Decls = append(mb.Decls, g.someDecls()...)
		}
		rule.Rules = append(rule.Rules, mb)
	}
	return rule
}

func (g *gen) counterStyleRule() Rule {
	r := g.r
	name := vlib.Pick(r, []string{"cs0", "cs1", "cs2", "cs3", "decimal", "none", "disc", "inherit"})
	var ds []Decl
	sys := vlib.Pick(r, []string{"cyclic", "numeric", "alphabetic", "symbolic", "additive", "fixed", "fixed 5", "fixed -3", "extends cs0", "extends cs1", "extends cs2", "extends " + name, "extends decimal", "extends undefined-style", "bogus", "extends", "fixed 99999999999"})
	if r.Chance(5, 6) {
		ds = append(ds, Decl{N: "system", V: sys})
	}
	if r.Chance(4, 5) {
		if strings.HasPrefix(sys, "additive") || r.Chance(1, 6) {
			ds = append(ds, Decl{N: "additive-symbols", V: vlib.Pick(r, []string{"10 'X', 5 'V', 1 'I'", "0 'z'", "5 'V', 0 'z'", "1 'I', 0 ''", "0 '', 0 ''", "10 'X', 10 'Y'", "1 'I', 5 'V'", "3 'c', 2 'b'", "2147483647 'M', 1 'I'", "'X' 10", "", "1", "-5 'n'"})})
		} else {
			ds = append(ds, Decl{N: "symbols", V: vlib.Pick(r, []string{"'a' 'b' 'c'", "'a'", "'0' '1'", "a b", "", "''", "'' ''", "url(pattern.png)", "'a' url(missing.png)", "\"\\1F44D\"", "'x' 'y' 'z' 'w' 'v' 'u' 't'", "1 2"})})
		}
	}
	for _, d := range []struct {
		n string
		v []string
	}{
		{"fallback", []string{"cs0", "cs1", "cs2", "cs3", "decimal", name, "undefined-style", "none"}},
		{"range", []string{"auto", "1 5", "infinite infinite", "-5 5", "5 1", "0 0", "infinite 0, 3 infinite", "1", "2 2147483648"}},
		{"negative", []string{"'-'", "'(' ')'", "''", "'minus ' ' suffix'", "url(x.png)"}},
		{"prefix", []string{"'>'", "''", "'[['", "url(pattern.png)"}},
		{"suffix", []string{"'. '", "''", "')'", "'\\A'"}},
		{"pad", []string{"3 '0'", "0 ''", "1000 'x'", "5 ''", "-1 '0'", "2147483647 '0'", "3"}},
		{"speak-as", []string{"auto", "bullets", "cs0", "numbers"}},
	} {
		if r.Chance(1, 4) {
			ds = append(ds, Decl{N: d.n, V: vlib.Pick(r, d.v)})
		}
	}
	return Rule{Pre: "@counter-style " + name, Decls: ds}
}

func (g *gen) fontFaceRule() Rule {
	r := g.r
	ds := []Decl{}
	if r.Chance(5, 6) {
		ds = append(ds, Decl{N: "font-family", V: vlib.Pick(r, []string{"my-font", "'my font'", "ahem", "", "a, b", "serif"})})
	}
	if r.Chance(5, 6) {
		ds = append(ds, Decl{N: "src", V: vlib.Pick(r, []string{"url(missing.ttf)", "url(weasyprint.otf)", "url(AHEM____.TTF) format('truetype')", "local(ahem)", "local('No Such')", "url(pattern.png)", "url(garbage.png) format('woff2')", "url()", "", "url(data:font/ttf;base64,AAAA)", "local(ahem), url(missing.woff)", "url(empty.png)"})})
	}
	if r.Chance(1, 3) {
		ds = append(ds, Decl{N: vlib.Pick(r, []string{"font-weight", "font-style", "font-stretch", "font-variant", "font-feature-settings", "unicode-range"}), V: vlib.Pick(r, []string{"bold", "italic", "condensed", "small-caps", "'liga' 0", "U+0-7F", "100 900", "1e9", "bogus"})})
	}
	return Rule{Pre: "@font-face", Decls: ds}
}

func (g *gen) rule(depth int) Rule {
	r := g.r
	switch k := r.Intn(40); {
	case k < 4:
		return g.pageRule()
	case k < 7:
		return g.counterStyleRule()
	case k < 8:
		return g.fontFaceRule()
	case k < 10 && depth < 2:
		q := vlib.Pick(r, []string{"print", "screen", "all", "not print", "print and (min-width: 100px)", "(max-width: 1e9px)", "only screen", "bogus", "", "print, screen", "(orientation: landscape)", "not all and (monochrome)", "print and", "(", "(width: 0)", "(min-resolution: 2dppx)"})
		ru := Rule{Pre: "@media " + q}
		n := r.Range(0, 3)
		for i := 0; i < n; i++ {
			ru.Rules = append(ru.Rules, g.rule(depth+1))
		}
		return ru
	case k < 11:
		return Rule{NoBlk: true, Pre: vlib.Pick(r, []string{"@import url(sheet2.css)", "@import 'missing.css'", "@import url(loop.css)", "@import url(pattern.png)", "@import", "@import url(sheet2.css) screen", "@import 'user.css' print", "@import url()", "@namespace svg url(http://www.w3.org/2000/svg)", "@namespace url(http://www.w3.org/1999/xhtml)", "@namespace", "@charset \"utf-8\"", "@unknown foo", "@", "@-", "@page", "@media", "@font-face", "@counter-style x", "@import url(data:text/css,p%7Bcolor:red%7D)"})}
	case k < 15:
		// generated content with page-based counters / targets: these ask for re-pagination rounds
		sel := g.simpleSel() + vlib.Pick(r, []string{"::before", "::after", "::before", "::after", "::marker", ""})
		ds := []Decl{{N: "content", V: vlib.Pick(r, []string{"counter(pages)", "counter(page) '/' counter(pages)", "target-counter(attr(href), page)", "target-counter(attr(href), pages)", "target-counters(attr(href), c, '.')", "target-text(attr(href))", "'p.' target-counter('#t1', page)", "string(s)", "counter(page, upper-roman)", "counters(pages, '-')", "target-counter(attr(href), c) ' ' counter(pages)"})}}
		if r.Chance(1, 3) {
			ds = append(ds, g.decls(1, 2)...)
		}
		return Rule{Pre: sel, Decls: ds}
	case k < 17:
		return Rule{Raw: vlib.Pick(r, []string{"}", "{", "{}", "p {", "p { color: red", "@media print {", "@page { @top-left { content: 'x'", "<!--", "-->", "/* unterminated", "p { color: red } }", "@supports (display: grid) { p { color: red } }", "@font-feature-values f { @styleset { a: 1 } }", "@keyframes k { from { top: 0 } to { top: 1px } }", "@layer a, b;", "@page :first { size: 0 } }", "div { & p { color: red } }", "p { color: red; @media print { color: blue } }", "@counter-style { }", "@counter-style a b { system: cyclic; symbols: x }", "@page { size: }", "@page { margin: 1px 2px 3px 4px 5px }", "\\", "'", "url(", "#-", "@-", "1-", "-", "p { \\", "p[", "p { width: 10px }}}}", ";;;;", "@media { p { display: none } }"})}
	}
	return Rule{Pre: g.selector(), Decls: g.someDecls()}
}

func (g *gen) sheet(lo, hi int) Sheet {
	n := g.r.Range(lo, hi)
	var s Sheet
	for i := 0; i < n; i++ {
		s.Rules = append(s.Rules, g.rule(0))
		switch {
		case g.r.Chance(1, 14):
			s.Rules = append(s.Rules, g.varGraphRules()...)
		case g.r.Chance(1, 40):
			s.Rules = append(s.Rules, g.footnoteRules()...)
		case g.r.Chance(1, 30):
			s.Rules = append(s.Rules, g.counterStyleGraph().rules...)
		}
	}
	return s
}

// themeSheet: the style sheet a themed document is built around
func (g *gen) themeSheet() Sheet {
	var s Sheet
	if g.r.Bool() {
		s.Rules = append(s.Rules, g.rule(0))
	}
	switch g.theme {
	case themeVars:
		s.Rules = append(s.Rules, g.varGraphRules()...)
		if g.r.Chance(1, 3) {
			s.Rules = append(s.Rules, g.varGraphRules()...)
		}
	case themeFootnotes:
		s.Rules = append(s.Rules, g.footnoteRules()...)
	case themeRefs:
		// @import statements are only honoured at the beginning of a sheet
		s.Rules = append(append([]Rule{}, g.refs.imps...), s.Rules...)
		s.Rules = append(s.Rules, g.refs.rules...)
	}
	for g.r.Chance(1, 2) {
		s.Rules = append(s.Rules, g.rule(0))
	}
	return s
}

// ---------------------------------------------------------------- HTML

func (g *gen) attrs(tag string) [][2]string {
	r := g.r
	var out [][2]string
	add := func(k, v string) { out = append(out, [2]string{k, v}) }
	if r.Chance(1, 3) {
		add("class", fmt.Sprintf("c%d", r.Intn(5)))
	}
	if r.Chance(1, 6) {
		add("id", g.id())
	}
	if r.Chance(1, 12) {
		add("dir", vlib.Pick(r, []string{"rtl", "ltr", "auto", "RTL", "bogus"}))
	}
	if r.Chance(1, 20) {
		add("lang", vlib.Pick(r, []string{"en", "he", "ar", "fr", "", "xx-YY", "zh", "fr-x", "x", "en_US_x", "-", "id", "de-1996", "zh-Hant-TW", "a-b-c"}))
	}
	if r.Chance(1, 12) {
		add("title", vlib.Pick(r, []string{"a title", "", "שלום", "x\"y"}))
	}
	switch tag {
	case "a", "area":
		add("href", vlib.Pick(r, []string{"#t1", "#t2", "#nowhere", "#", "", "http://x.test/p", "missing.html", "mailto:a@b", "%zz", "://", "#" + g.id(), "javascript:void(0)", "http://[::1", "file:///etc/passwd"}))
		if r.Chance(1, 5) {
			add("rel", vlib.Pick(r, []string{"attachment", "stylesheet", "ATTACHMENT nofollow"}))
		}
		if r.Chance(1, 6) {
			add("name", g.id())
		}
	case "img", "embed", "video", "iframe", "input":
		if tag != "input" || r.Chance(1, 4) {
			add("src", vlib.Pick(r, urls))
		}
		if tag == "img" && r.Chance(1, 3) {
			add("alt", vlib.Pick(r, []string{"alt text", "", "שלום עולם"}))
		}
	case "object":
		add("data", vlib.Pick(r, urls))
		if r.Chance(1, 2) {
			add("type", vlib.Pick(r, []string{"image/png", "image/svg+xml", "text/html", "bogus"}))
		}
	case "link":
		add("rel", vlib.Pick(r, []string{"stylesheet", "attachment", "icon", "STYLESHEET", "alternate stylesheet"}))
		add("href", vlib.Pick(r, []string{"sheet2.css", "missing.css", "loop.css", "pattern.png", "", "data:text/css,p{color:red}", "user.css"}))
		if r.Chance(1, 4) {
			add("media", vlib.Pick(r, []string{"print", "screen", "bogus", ""}))
		}
	case "meta":
		add(vlib.Pick(r, []string{"name", "http-equiv"}), vlib.Pick(r, []string{"author", "keywords", "description", "generator", "dcterms.created", "dcterms.modified", "refresh", "content-type"}))
		add("content", vlib.Pick(r, []string{"x", "", "2020-01-01", "2020-13-45T99:99", "a, b, c", "text/html; charset=utf-16", "not a date", "2011-04-21T23:00:00Z"}))
	case "base":
		add("href", vlib.Pick(r, []string{"http://verif.test/sub/", "", "://bad", "relative/", "data:,"}))
	}
	if tag == "input" {
		add("type", vlib.Pick(r, []string{"text", "checkbox", "radio", "hidden", "submit", "image", "password", "range", "file", "bogus", "button", "color", "date"}))
		if r.Chance(1, 2) {
			add("value", vlib.Pick(r, []string{"v", "", "a long value of text", "שלום"}))
		}
		if r.Chance(1, 5) {
			add("checked", "\x00")
		}
		if r.Chance(1, 5) {
			add("size", vlib.Pick(r, []string{"0", "5", "-1", "1000000", "x"}))
		}
	}
	if tag == "ol" || tag == "li" || tag == "ul" {
		if r.Chance(1, 4) {
			add(vlib.Pick(r, []string{"start", "value", "type", "reversed"}), vlib.Pick(r, []string{"0", "-5", "2147483647", "99999999999", "a", "A", "i", "I", "1", "disc", "", "x"}))
		}
	}
	if tag == "textarea" && r.Chance(1, 2) {
		add("rows", vlib.Pick(r, []string{"0", "3", "-1", "100000", "x"}))
		add("cols", vlib.Pick(r, []string{"0", "10", "-1", "100000", "x"}))
	}
	if tag == "select" && r.Chance(1, 3) {
		add("multiple", "\x00")
		add("size", vlib.Pick(r, []string{"0", "3", "-1", "x"}))
	}
	if tag == "details" && r.Chance(1, 2) {
		add("open", "\x00")
	}
	if tag == "meter" || tag == "progress" {
		add("value", vlib.Pick(r, []string{"0.5", "2", "-1", "x", "1e9"}))
		add("max", vlib.Pick(r, []string{"1", "0", "-1", "x"}))
	}
	// presentational hints
	if r.Chance(1, 4) {
		switch tag {
		case "table":
			add(vlib.Pick(r, []string{"border", "cellspacing", "cellpadding", "width", "height", "align", "bgcolor", "bordercolor", "hspace", "vspace", "rules", "frame"}), vlib.Pick(r, []string{"0", "1", "5", "50%", "-1", "x", "100", "center", "left", "right", "#f00", "red", "1e9", "", "all", "none"}))
		case "td", "th", "tr", "col", "colgroup", "thead", "tbody", "tfoot":
			add(vlib.Pick(r, []string{"colspan", "rowspan", "span", "width", "height", "align", "valign", "bgcolor", "nowrap", "background"}), vlib.Pick(r, []string{"0", "1", "2", "3", "-1", "1000", "65535", "100000", "x", "50%", "center", "middle", "top", "#0f0", "", "char", "justify", "pattern.png"}))
		case "img", "object", "embed", "iframe", "video", "canvas", "svg", "input":
			add(vlib.Pick(r, []string{"width", "height", "border", "hspace", "vspace", "align"}), vlib.Pick(r, []string{"0", "10", "50%", "-5", "x", "1e9", "100000", "left", "right", "middle", "top", "absmiddle", ""}))
		case "font":
			add(vlib.Pick(r, []string{"size", "color", "face"}), vlib.Pick(r, []string{"1", "7", "+2", "-3", "0", "100", "+", "-", "x", "red", "#abc", "ahem", "", "+1e9"}))
		case "hr":
			add(vlib.Pick(r, []string{"size", "width", "color", "align", "noshade"}), vlib.Pick(r, []string{"0", "1", "5", "50%", "-1", "x", "red", "center", "left", ""}))
		case "body", "div", "p", "h1", "h2", "center", "pre", "br", "ul", "ol", "li", "caption", "legend":
			add(vlib.Pick(r, []string{"align", "bgcolor", "text", "background", "marginwidth", "marginheight", "leftmargin", "topmargin", "clear", "type", "width", "wrap", "compact"}), vlib.Pick(r, []string{"center", "left", "right", "justify", "#00f", "red", "pattern.png", "0", "10", "-5", "x", "all", "both", "disc", "square", "circle", "1", "a", ""}))
		}
	}
	return out
}

func (g *gen) svgAttrs(tag string) [][2]string {
	r := g.r
	var out [][2]string
	add := func(k, v string) { out = append(out, [2]string{k, v}) }
	num := func() string {
		return vlib.Pick(r, []string{"0", "1", "10", "50", "100", "-10", "50%", "1e9", "-1e9", "x", "", "10px", "2em", "1e39", "NaN", ".5", "1e-9", "100%"})
	}
	if r.Chance(1, 3) {
		add("id", g.id())
	}
	switch tag {
	case "svg":
		if r.Chance(2, 3) {
			add("width", num())
			add("height", num())
		}
		if r.Chance(1, 2) {
			add("viewBox", vlib.Pick(r, []string{"0 0 100 100", "0 0 0 0", "0 0 -1 -1", "0,0,10,10", "0 0 10", "x", "", "-50 -50 1e9 1e9", "0 0 1e-9 1e-9", "0 0 100 0"}))
		}
		if r.Chance(1, 4) {
			add("preserveAspectRatio", vlib.Pick(r, []string{"none", "xMidYMid meet", "xMaxYMin slice", "bogus", "", "xMinYMin", "slice"}))
		}
	case "rect", "image", "pattern", "mask", "filter", "use", "foreignObject":
		add("x", num())
		add("y", num())
		add("width", num())
		add("height", num())
		if tag == "rect" && r.Chance(1, 3) {
			add("rx", num())
			add("ry", num())
		}
	case "circle":
		add("cx", num())
		add("cy", num())
		add("r", num())
	case "ellipse":
		add("cx", num())
		add("cy", num())
		add("rx", num())
		add("ry", num())
	case "line":
		add("x1", num())
		add("y1", num())
		add("x2", num())
		add("y2", num())
	case "path":
		add("d", vlib.Pick(r, []string{"M0 0L10 10", "M 10,10 h 20 v 20 z", "M0 0", "", "M", "L10 10", "M0 0 A 10 10 0 0 1 20 20", "M0 0 A 0 0 0 0 0 0 0", "M0 0a1e9 1e9 0 1 1 1 1", "M0 0 C 1 2 3", "M0 0 Q", "m1 1 1 1 1 1z m 5 5", "M0 0 T 1 1 S 2 2 3 3", "M0 0Z Z Z", "M 0 0 L 1e39 1e39", "M0,0 10,10-5-5.5.5", "M0 0 X 5", "M 1 2 3", "z", "M0 0 A 5 5 0 2 2 10 10", "M-.5-.5e1-1"}))
	case "polygon", "polyline":
		add("points", vlib.Pick(r, []string{"0,0 10,0 10,10", "0 0 10", "", "x", "0,0", "1e9,1e9 -1e9,-1e9 0,0", "0,0,10,10,5", "1 2 3 4 5 6 7 8"}))
	case "stop":
		add("offset", vlib.Pick(r, []string{"0", "1", "50%", "0.5", "-1", "2", "x", "", "200%"}))
		add("stop-color", g.color())
	case "linearGradient", "radialGradient":
		add(vlib.Pick(r, []string{"x1", "x2", "y1", "y2", "cx", "cy", "r", "fx", "fy", "fr"}), num())
		if r.Chance(1, 3) {
			add("gradientUnits", vlib.Pick(r, []string{"userSpaceOnUse", "objectBoundingBox", "bogus"}))
		}
		if r.Chance(1, 3) {
			add("spreadMethod", vlib.Pick(r, []string{"pad", "reflect", "repeat", "bogus"}))
		}
		if r.Chance(1, 4) {
			add("gradientTransform", vlib.Pick(r, []string{"rotate(45)", "scale(0)", "matrix(0 0 0 0 0 0)", "bogus(", "translate(1e9)"}))
		}
		if r.Chance(1, 4) {
			add("href", "#"+g.id())
		}
	case "marker":
		add("markerWidth", num())
		add("markerHeight", num())
		if r.Chance(1, 2) {
			add("orient", vlib.Pick(r, []string{"auto", "45", "auto-start-reverse", "x", "1e9"}))
		}
		if r.Chance(1, 2) {
			add("viewBox", vlib.Pick(r, []string{"0 0 10 10", "0 0 0 0", "x"}))
		}
	case "text", "tspan":
		add("x", vlib.Pick(r, []string{"0", "10", "10 20 30", "x", "", "1e9", "50%"}))
		add("y", vlib.Pick(r, []string{"0", "10", "10 20", "1e9", "-5"}))
		if r.Chance(1, 3) {
			add(vlib.Pick(r, []string{"dx", "dy", "rotate", "textLength", "text-anchor", "letter-spacing", "font-size", "font-family", "lengthAdjust", "dominant-baseline", "writing-mode"}), vlib.Pick(r, []string{"0", "5", "1 2 3", "middle", "end", "x", "1e9", "-5", "0px", "ahem", "spacingAndGlyphs", "central", "tb"}))
		}
	case "textPath":
		add("href", "#"+g.id())
	case "feOffset":
		add("dx", num())
		add("dy", num())
	}
	if tag == "use" || (tag == "image" && r.Chance(1, 2)) || r.Chance(1, 30) {
		if tag == "image" {
			add(vlib.Pick(r, []string{"href", "xlink:href"}), vlib.Pick(r, urls))
		} else {
			add(vlib.Pick(r, []string{"href", "xlink:href"}), vlib.Pick(r, []string{"#" + g.id(), "#t0", "#t1", "#nowhere", "", "#", "pattern.svg#x", "missing.svg#a", "pattern.svg", "data:image/svg+xml,<svg xmlns='http://www.w3.org/2000/svg' id='a'/>#a"}))
		}
	}
	if r.Chance(1, 3) {
		ref := "url(#" + g.id() + ")"
		paint := vlib.Pick(r, []string{g.color(), "none", ref, ref + " red", "url(#nowhere)", "url()", "currentColor", "context-fill", "inherit", "url(#t0"})
		add(vlib.Pick(r, []string{"fill", "stroke"}), paint)
	}
	if r.Chance(1, 5) {
		add(vlib.Pick(r, []string{"stroke-width", "stroke-dasharray", "stroke-dashoffset", "stroke-linecap", "stroke-linejoin", "stroke-miterlimit", "opacity", "fill-opacity", "stroke-opacity", "fill-rule", "clip-rule", "display", "visibility", "font-size"}),
			vlib.Pick(r, []string{"0", "1", "5", "-1", "1e9", "5 5", "0 0", "5 -5", "1,2,3", "x", "round", "square", "bevel", "evenodd", "nonzero", "none", "hidden", "0.5", "50%", "inline", "", "1e-9", "5,0"}))
	}
	if r.Chance(1, 5) {
		add("transform", vlib.Pick(r, []string{"translate(10 10)", "scale(0)", "rotate(45 5 5)", "matrix(1 0 0 1 0 0)", "matrix(0 0 0 0 0 0)", "skewX(90)", "skewY(45)", "scale(1e9)", "translate(", "bogus(1)", "rotate(1e9)", "translate(1),scale(2)", "matrix(1 2 3)", ""}))
	}
	if r.Chance(1, 8) {
		add(vlib.Pick(r, []string{"clip-path", "mask", "filter", "marker-start", "marker-mid", "marker-end", "marker"}), vlib.Pick(r, []string{"url(#" + g.id() + ")", "url(#nowhere)", "none", "url()", "bogus"}))
	}
	if r.Chance(1, 12) {
		add("style", vlib.Pick(r, []string{"fill: red", "stroke: url(#t0); stroke-width: 1e9", "display: none", "fill:", "font-size: 0", "bogus", "fill: var(--a)", "transform: rotate(45deg)"}))
	}
	return out
}

func (g *gen) svgKids(depth int) []*Node {
	r := g.r
	n := r.Range(0, 4)
	var out []*Node
	for i := 0; i < n && g.budget > 0; i++ {
		g.budget--
		tag := vlib.Pick(r, svgTags)
		nd := &Node{K: "el", Tag: tag, Attrs: g.svgAttrs(tag)}
		if depth < 6 {
			switch tag {
			case "g", "defs", "svg", "symbol", "clipPath", "mask", "marker", "pattern", "a", "linearGradient", "radialGradient", "filter":
				nd.Kids = g.svgKids(depth + 1)
			case "text", "tspan", "textPath":
				nd.Kids = append(nd.Kids, &Node{K: "text", Text: g.text()})
				if r.Chance(1, 3) {
					nd.Kids = append(nd.Kids, g.svgKids(depth+1)...)
				}
			}
		}
		out = append(out, nd)
	}
	return out
}

func (g *gen) pickTag(parent string) string {
	r := g.r
	// mostly plausible children, sometimes anything (tag soup)
	if r.Chance(1, 8) {
		all := [][]string{blockTags, inlineTags, listTags, replacedTags, tableParts, {"li", "dt", "dd", "option", "optgroup", "legend", "summary", "figcaption", "html", "body", "head", "title", "style", "link", "meta", "base", "script", "noscript", "template", "frameset", "math", "ruby", "rt", "marquee", "dialog", "slot", "x-custom", "area", "map"}}
		return vlib.Pick(r, vlib.Pick(r, all))
	}
	switch parent {
	case "table":
		return vlib.Pick(r, []string{"tr", "tr", "tbody", "thead", "tfoot", "caption", "colgroup", "col", "td"})
	case "thead", "tbody", "tfoot":
		return "tr"
	case "tr":
		return vlib.Pick(r, []string{"td", "td", "th"})
	case "colgroup":
		return "col"
	case "ul", "ol":
		return "li"
	case "dl":
		return vlib.Pick(r, []string{"dt", "dd"})
	case "select":
		return vlib.Pick(r, []string{"option", "option", "optgroup"})
	case "optgroup":
		return "option"
	case "details":
		return vlib.Pick(r, []string{"summary", "p", "div"})
	case "fieldset":
		return vlib.Pick(r, []string{"legend", "input", "label", "div"})
	case "figure":
		return vlib.Pick(r, []string{"figcaption", "img", "div"})
	}
	switch k := r.Intn(20); {
	case k < 7:
		return vlib.Pick(r, blockTags)
	case k < 12:
		return vlib.Pick(r, inlineTags)
	case k < 14:
		return vlib.Pick(r, listTags)
	case k < 16:
		return "table"
	default:
		return vlib.Pick(r, replacedTags)
	}
}

func (g *gen) element(tag string, depth int) *Node {
	r := g.r
	g.budget--
	n := &Node{K: "el", Tag: tag, Attrs: g.attrs(tag)}
	if r.Chance(1, 5) {
		n.Style = g.someDecls()
	}
	if r.Chance(1, 30) {
		n.NoClose = true
	}
	if tag == "svg" && r.Chance(1, 3) {
		return g.svgGraph(false) // definitions referencing each other along a reference graph (refs.go)
	}
	if tag == "svg" {
		n.Attrs = append(n.Attrs, g.svgAttrs("svg")...)
		n.Kids = g.svgKids(0)
		return n
	}
	if tag == "style" {
		return &Node{K: "style", Sheet: func() *Sheet { s := g.sheet(1, 5); return &s }()}
	}
	if voidTags[tag] {
		return n
	}
	if tag == "textarea" || tag == "option" || tag == "title" || tag == "button" && r.Bool() {
		n.Kids = []*Node{{K: "text", Text: g.text()}}
		return n
	}
	n.Kids = g.kids(tag, depth+1)
	return n
}

func (g *gen) kids(parent string, depth int) []*Node {
	r := g.r
	if depth >= g.maxDepth || g.budget <= 0 {
		if r.Bool() {
			return []*Node{{K: "text", Text: g.text()}}
		}
		return nil
	}
	n := r.Range(0, 4)
	if r.Chance(1, 12) {
		n = r.Range(5, 12)
	}
	if g.profile == 1 && depth < g.maxDepth-1 && n == 0 {
		n = 1 // deep-nesting profile: keep going down
	}
	var out []*Node
	for i := 0; i < n && g.budget > 0; i++ {
		if g.theme == themeFootnotes && r.Chance(1, 4) {
			g.budget--
			out = append(out, g.footnoteNode())
			continue
		}
		switch k := r.Intn(20); {
		case k < 5:
			out = append(out, &Node{K: "text", Text: g.text()})
		case k == 5 && r.Chance(1, 3):
			out = append(out, &Node{K: "comment", Text: vlib.Pick(r, []string{" c ", "", "-", "->", "<p>", "[if IE]>x<![endif]"})})
		case k == 6 && r.Chance(1, 4):
			out = append(out, &Node{K: "raw", Text: vlib.Pick(r, []string{"</div>", "</p>", "</table>", "<", "<div", "</", "<!-", "<!--", "<![CDATA[x]]>", "<?xml?>", "</span></span>", "<p", "<a href=", "<table><tr>", "</body>", "</html>", "<br/>", "<div/>", "&", "&#", "<svg><p>", "<math><mi>x</mi>", "<select><div>", "<tr><td>", "<b><i></b></i>", "<plaintext>", "<textarea>", "<title>", "<script>", "<!DOCTYPE html>", "\x00", "<a><a>", "<form><form>", "<li><li>", "<p><table>", "<button><button>", "<frameset>", "<template><tr>"})})
		default:
			out = append(out, g.element(g.pickTag(parent), depth))
		}
	}
	return out
}

// GenDoc builds one random document.
func GenDoc(r *vlib.Rng) *Doc {
	g := &gen{r: r}
	d := &Doc{Engine: "pango"}
	if r.Bool() {
		d.Engine = "gotext"
	}
	d.Hints = r.Bool()
	d.TestUA = r.Chance(1, 6)
	g.profile = 0
	switch k := r.Intn(16); {
	case k < 2:
		g.theme = themeVars
	case k < 4:
		g.theme = themeFootnotes
	case k < 8:
		g.theme = themeRefs
	}
	if forceTheme != 0 { // triage aid
		g.theme = forceTheme
	}
	switch k := r.Intn(10); {
	case k == 0: // deep nesting
		g.profile = 1
		g.maxDepth = r.Range(20, 60)
		g.budget = r.Range(40, 120)
	case k == 1: // tiny
		g.maxDepth = r.Range(1, 3)
		g.budget = r.Range(1, 6)
	case k < 5:
		g.maxDepth = r.Range(3, 7)
		g.budget = r.Range(8, 30)
	default:
		g.maxDepth = r.Range(4, 12)
		g.budget = r.Range(20, 70)
	}

	// top-level prologue: doctype / comments / text anywhere
	pre := func() {
		for r.Chance(1, 4) {
			switch r.Intn(5) {
			case 0, 1:
				d.Top = append(d.Top, &Node{K: "comment", Text: vlib.Pick(r, []string{" before ", "", "x"})})
			case 2:
				d.Top = append(d.Top, &Node{K: "doctype", Text: vlib.Pick(r, []string{"html", "", "html PUBLIC \"-//W3C//DTD HTML 4.01//EN\"", "svg", "bogus system"})})
			case 3:
				d.Top = append(d.Top, &Node{K: "text", Text: vlib.Pick(r, []string{"\n", " ", "stray text", "\ufeff"})})
			default:
				d.Top = append(d.Top, &Node{K: "raw", Text: vlib.Pick(r, []string{"<?xml version=\"1.0\"?>", "</html>", "<!>", "<!-->", "\x00"})})
			}
		}
	}
	if r.Chance(2, 3) {
		d.Top = append(d.Top, &Node{K: "doctype", Text: "html"})
	}
	pre()

	var headKids []*Node
	nStyle := r.Range(0, 2)
	for i := 0; i < nStyle; i++ {
		s := g.sheet(1, 7)
		headKids = append(headKids, &Node{K: "style", Sheet: &s})
	}
	if g.theme == themeRefs {
		g.refs = g.refPieces()
		d.Files = g.refs.files
		headKids = append(headKids, g.refs.head...)
		if g.profile == 0 && g.budget > 30 {
			g.budget = 30 // the reference graphs, not the size of the document, are the subject
		}
	}
	if g.theme != 0 {
		s := g.themeSheet()
		headKids = append(headKids, &Node{K: "style", Sheet: &s})
		if g.theme == themeFootnotes && g.profile == 0 && g.budget > 40 {
			g.budget = 40 // the page loop, not the size of the document, is the subject
		}
	}
	if r.Chance(1, 5) {
		headKids = append(headKids, &Node{K: "el", Tag: "title", Kids: []*Node{{K: "text", Text: g.text()}}})
	}
	for r.Chance(1, 6) {
		t := vlib.Pick(r, []string{"link", "meta", "base"})
		headKids = append(headKids, &Node{K: "el", Tag: t, Attrs: g.attrs(t)})
	}

	k := r.Intn(12)
	if g.theme == themeRefs && k == 1 {
		k = 2 // fragments only would drop the style sheet of the graphs
	}
	switch {
	case k == 0: // no html/head/body wrappers at all: the parser adds them
		d.Top = append(d.Top, headKids...)
		d.Top = append(d.Top, g.insertNodes(g.kids("body", 1), g.refs.body)...)
	case k == 1: // only fragments
		d.Top = append(d.Top, g.insertNodes(g.kids(vlib.Pick(r, []string{"body", "table", "tr", "select", "ul"}), 1), g.refs.body)...)
	default:
		html := &Node{K: "el", Tag: "html", Attrs: g.attrs("html")}
		if r.Chance(1, 6) {
			html.Style = g.someDecls()
		}
		if len(headKids) > 0 || r.Bool() {
			html.Kids = append(html.Kids, &Node{K: "el", Tag: "head", Kids: headKids})
		}
		body := &Node{K: "el", Tag: "body", Attrs: g.attrs("body")}
		if r.Chance(1, 6) {
			body.Style = g.someDecls()
		}
		body.Kids = g.kids("body", 1)
		if g.theme == themeRefs {
			body.Kids = g.insertNodes(body.Kids, g.refs.body)
		}
		if r.Chance(1, 15) {
			html.Kids = append(html.Kids, &Node{K: "comment", Text: "between"})
		}
		html.Kids = append(html.Kids, body)
		d.Top = append(d.Top, html)
	}
	pre() // trailing comments / doctype after the root

	nUser := 0
	if r.Chance(1, 3) {
		nUser = r.Range(1, 2)
	}
	for i := 0; i < nUser; i++ {
		d.User = append(d.User, g.sheet(1, 5))
	}
	return d
}
