package main

import ("testing"; "verifharness/vlib")

func TestApplyEditNoPanic(t *testing.T) {
	rng := vlib.NewRng(5)
	for i := 0; i < 3000; i++ {
		d := GenDoc(rng.Fork())
		for k := 0; ; k++ {
			if applyEdit(d, k) == nil { break }
		}
	}
}
