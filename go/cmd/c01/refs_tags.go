package main

// Structural tags of the reference graphs of a document, computed from the
// document itself (so that they describe shrunk documents as well):
// `ref:<mechanism>:<class>` with class in self | cycle | rho | dangling | join | acyclic.

import (
	"regexp"
	"sort"
	"strings"
)

type edgeSet struct {
	defined map[string]bool
	out     map[string][]string
}

func newEdgeSet() *edgeSet { return &edgeSet{defined: map[string]bool{}, out: map[string][]string{}} }

func (e *edgeSet) def(n string) { e.defined[n] = true }
func (e *edgeSet) add(a, b string) {
	for _, x := range e.out[a] {
		if x == b {
			return
		}
	}
	e.out[a] = append(e.out[a], b)
}

// classes of the graph: self (a -> a), cycle (through >= 2 nodes), rho (a node
// outside every cycle reaches a cycle), dangling (edge to an undefined name), join
// (a node with two different predecessors), acyclic (edges, no cycle)
func (e *edgeSet) classes() []string {
	set := map[string]bool{}
	nodes := make([]string, 0, len(e.defined))
	for n := range e.defined {
		nodes = append(nodes, n)
	}
	sort.Strings(nodes)
	reach := map[string]map[string]bool{}
	for _, n := range nodes {
		seen := map[string]bool{}
		stack := append([]string{}, e.out[n]...)
		for len(stack) > 0 {
			x := stack[len(stack)-1]
			stack = stack[:len(stack)-1]
			if seen[x] || !e.defined[x] {
				continue
			}
			seen[x] = true
			stack = append(stack, e.out[x]...)
		}
		reach[n] = seen
	}
	onCycle := map[string]bool{}
	edges := 0
	preds := map[string]map[string]bool{}
	for _, n := range nodes {
		for _, t := range e.out[n] {
			edges++
			if !e.defined[t] {
				set["dangling"] = true
				continue
			}
			if t == n {
				set["self"] = true
			} else {
				if preds[t] == nil {
					preds[t] = map[string]bool{}
				}
				preds[t][n] = true
			}
		}
		if reach[n][n] {
			onCycle[n] = true
			for _, t := range e.out[n] {
				if t != n && reach[t][n] {
					set["cycle"] = true
				}
			}
		}
	}
	for _, n := range nodes {
		if onCycle[n] {
			continue
		}
		for t := range reach[n] {
			if onCycle[t] {
				set["rho"] = true
			}
		}
	}
	for _, p := range preds {
		if len(p) >= 2 {
			set["join"] = true
		}
	}
	if edges > 0 && len(onCycle) == 0 {
		set["acyclic"] = true
	}
	out := make([]string, 0, len(set))
	for c := range set {
		out = append(out, c)
	}
	sort.Strings(out)
	return out
}

var (
	urlFragRe  = regexp.MustCompile(`url\(\s*['"]?#([^)'"\s]*)`)
	varNameRe  = regexp.MustCompile(`var\(\s*(--[A-Za-z0-9_-]+)`)
	importRe   = regexp.MustCompile(`(?i)^@import\s+(?:url\(\s*)?['"]?([^'")\s;]*)`)
	stringFnRe = regexp.MustCompile(`string\(\s*([A-Za-z0-9_-]+)`)
	targetRe   = regexp.MustCompile(`target-(?:text|counters?)\(\s*(?:url\()?['"]?#([^'"),\s]*)`)
)

func baseName(u string) string {
	if i := strings.IndexAny(u, "?#"); i >= 0 {
		u = u[:i]
	}
	if i := strings.LastIndex(u, "/"); i >= 0 {
		u = u[i+1:]
	}
	return u
}

func refFeatures(f featureSet, d *Doc) {
	cs, csExt, csFb := newEdgeSet(), newEdgeSet(), newEdgeSet()
	vars, strs, imports := newEdgeSet(), newEdgeSet(), newEdgeSet()
	svg, svgHref, svgFiles, targets := newEdgeSet(), newEdgeSet(), newEdgeSet(), newEdgeSet()

	var decls func(ds []Decl, owner string)
	decls = func(ds []Decl, owner string) {
		for _, dc := range ds {
			if strings.HasPrefix(dc.N, "--") {
				vars.def(dc.N)
				for _, m := range varNameRe.FindAllStringSubmatch(dc.V, -1) {
					vars.add(dc.N, m[1])
				}
			}
			if dc.N == "string-set" {
				fs := strings.Fields(dc.V)
				if len(fs) > 0 {
					strs.def(fs[0])
					for _, m := range stringFnRe.FindAllStringSubmatch(dc.V, -1) {
						strs.add(fs[0], m[1])
					}
				}
			}
			if owner != "" && strings.Contains(dc.V, "target-") {
				for _, m := range targetRe.FindAllStringSubmatch(dc.V, -1) {
					targets.add(owner, m[1])
				}
			}
		}
	}
	var rules func(rs []Rule, file string)
	rules = func(rs []Rule, file string) {
		for _, r := range rs {
			pre := strings.TrimSpace(r.Pre)
			low := strings.ToLower(pre)
			switch {
			case strings.HasPrefix(low, "@counter-style"):
				name := strings.TrimSpace(pre[len("@counter-style"):])
				cs.def(name)
				csExt.def(name)
				csFb.def(name)
				for _, dc := range r.Decls {
					v := strings.Fields(dc.V)
					if dc.N == "system" && len(v) == 2 && v[0] == "extends" {
						cs.add(name, v[1])
						csExt.add(name, v[1])
					}
					if dc.N == "fallback" && len(v) == 1 {
						cs.add(name, v[0])
						csFb.add(name, v[0])
					}
				}
			case strings.HasPrefix(low, "@import"):
				if m := importRe.FindStringSubmatch(pre); m != nil && file != "" {
					imports.add(file, baseName(m[1]))
				}
				if file == "" {
					f.add("ref:import:used")
				}
			}
			owner := ""
			if strings.HasPrefix(pre, "#") { // `#id::before { content: target-text('#other') }`
				owner = strings.TrimPrefix(strings.SplitN(pre, ":", 2)[0], "#")
			}
			decls(r.Decls, owner)
			rules(r.Rules, file)
		}
	}
	// svg trees: the source of an edge is the nearest ancestor-or-self with an id
	var svgWalk func(n *Node, owner string, file string)
	svgWalk = func(n *Node, owner string, file string) {
		if n.K == "style" && n.Sheet != nil {
			rules(n.Sheet.Rules, file)
			return
		}
		if n.K != "el" {
			return
		}
		self := ""
		for _, a := range n.Attrs {
			if a[0] == "id" && a[1] != "" {
				self = a[1]
			}
		}
		if self != "" {
			owner = self
			svg.def(self)
			svgHref.def(self)
		}
		for _, a := range n.Attrs {
			switch a[0] {
			case "href", "xlink:href":
				if strings.HasPrefix(a[1], "#") {
					if owner != "" {
						svg.add(owner, a[1][1:])
					}
					if self != "" {
						svgHref.add(self, a[1][1:])
					}
				} else if file != "" && a[1] != "" && !strings.HasPrefix(a[1], "data:") {
					svgFiles.add(file, baseName(a[1]))
				}
			case "fill", "stroke", "clip-path", "mask", "filter", "marker", "marker-start", "marker-mid", "marker-end", "style":
				for _, m := range urlFragRe.FindAllStringSubmatch(a[1], -1) {
					if owner != "" {
						svg.add(owner, m[1])
					}
				}
			}
		}
		for _, c := range n.Kids {
			svgWalk(c, owner, file)
		}
	}
	var htmlWalk func(n *Node, owner string)
	htmlWalk = func(n *Node, owner string) {
		switch n.K {
		case "style":
			if n.Sheet != nil {
				rules(n.Sheet.Rules, "")
			}
			return
		case "el":
		default:
			return
		}
		if n.Tag == "svg" {
			svgWalk(n, "", "")
			return
		}
		for _, a := range n.Attrs {
			if a[0] == "id" && a[1] != "" {
				owner = a[1]
				targets.def(owner)
			}
		}
		for _, a := range n.Attrs {
			if a[0] == "href" && n.Tag == "a" && strings.HasPrefix(a[1], "#") && owner != "" {
				targets.add(owner, a[1][1:])
			}
		}
		decls(n.Style, "")
		for _, c := range n.Kids {
			htmlWalk(c, owner)
		}
	}
	for _, n := range d.Top {
		htmlWalk(n, "")
	}
	for _, s := range d.User {
		rules(s.Rules, "")
	}
	for _, fl := range d.Files {
		if fl.Sheet != nil {
			imports.def(fl.Name)
			rules(fl.Sheet.Rules, fl.Name)
		}
		if fl.Node != nil {
			svgFiles.def(fl.Name)
			svgWalk(fl.Node, "", fl.Name)
		}
	}
	for _, g := range []struct {
		name string
		e    *edgeSet
	}{{"counter-style", cs}, {"counter-style-extends", csExt}, {"counter-style-fallback", csFb}, {"var", vars}, {"string", strs}, {"import", imports},
		{"svg", svg}, {"svg-href", svgHref}, {"svg-file", svgFiles}, {"target", targets}} {
		for _, c := range g.e.classes() {
			f.add("ref:" + g.name + ":" + c)
		}
	}
}
