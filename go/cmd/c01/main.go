// Harness for C01 ("rendering any document terminates without crashing"):
// whole-pipeline stream.  Random HTML x CSS x hints x text engine through
// tree.NewHTML -> document.Render -> Write(recording backend), ONE document per
// worker call (subprocess pool, 10 s watchdog, 3 GiB address-space limit).
// Observable per document: Ok | Panic(site) | Fatal(kind) | Hang, the number of
// re-pagination rounds, and the root chosen by tree.NewHTML among the parsed
// document's top-level nodes.  Each case is a Coq term of type Check.C01.case.
//
//	c01 -out cases.jsonl -n 1200          the registered stream (corpus first)
//	c01 -triage -n 3000                   group failures by site, print one example each
//	c01 -shrink doc.json [-o out.json]    minimise a failing document
//	c01 -show doc.json                    print the HTML / CSS of a document and render it
//	c01 -trace doc.json [-trace-pages n]  print the page trace of a document (layout.VerifPageTrace)
package main

import (
	"encoding/json"
	"flag"
	"fmt"
	"os"
	"path/filepath"
	"regexp"
	"sort"
	"strings"
	"sync"
	"time"

	"verifharness/vlib"
)

type corpusFile struct {
	Comment string `json:"comment,omitempty"`
	Doc     *Doc   `json:"doc"`
}

func loadDoc(path string) (*Doc, string, error) {
	b, err := os.ReadFile(path)
	if err != nil {
		return nil, "", err
	}
	var cf corpusFile
	if err := json.Unmarshal(b, &cf); err == nil && cf.Doc != nil {
		return cf.Doc, cf.Comment, nil
	}
	// replay files written by lib/corr.py: {"case": {"desc": {"doc": ...}}}
	var rp struct {
		Case struct {
			Desc struct {
				Doc *Doc `json:"doc"`
			} `json:"desc"`
		} `json:"case"`
	}
	if err := json.Unmarshal(b, &rp); err == nil && rp.Case.Desc.Doc != nil {
		return rp.Case.Desc.Doc, "", nil
	}
	var d Doc
	if err := json.Unmarshal(b, &d); err != nil {
		return nil, "", err
	}
	return &d, "", nil
}

func outcomeCode(o Outcome) int {
	switch o.Status {
	case "ok":
		return 0
	case "panic":
		return 1
	case "fatal":
		return 2
	case "hang":
		return 3
	}
	return 2
}

func kindCode(k string) int {
	switch k {
	case "doctype":
		return 0
	case "comment":
		return 1
	case "elem":
		return 2
	case "text":
		return 3
	}
	return 4
}

func coqTerm(o Outcome) string {
	tops := make([]string, len(o.Top))
	for i, t := range o.Top {
		tops[i] = []string{"Doctype", "Comment", "Elem", "Text", "Other"}[kindCode(t.Kind)]
	}
	rk := 4
	if o.RootKind != "" {
		rk = kindCode(o.RootKind)
	}
	return fmt.Sprintf("CRun %d %d %s %s %d", outcomeCode(o), o.Rounds, vlib.List(tops), vlib.Z(o.RootIdx), rk)
}

type desc struct {
	Outcome  string    `json:"outcome"`
	Site     string    `json:"site,omitempty"`
	Msg      string    `json:"msg,omitempty"`
	Frames   []string  `json:"frames,omitempty"`
	Pages    int       `json:"pages"`
	Rounds   int       `json:"rounds"`
	Err      string    `json:"err,omitempty"`
	HTML     string    `json:"html"`
	UserCSS  []string  `json:"user_css,omitempty"`
	Hints    bool      `json:"hints"`
	Engine   string    `json:"engine"`
	Doc      *Doc      `json:"doc,omitempty"`    // structured form (replayable: c01 -show / -shrink)
	Shrunk   *Doc      `json:"shrunk,omitempty"` // minimised failing document
	ShrunkH  string    `json:"shrunk_html,omitempty"`
	ShrunkU  []string  `json:"shrunk_user_css,omitempty"`
	Corpus   string    `json:"corpus,omitempty"`
	Analysis *Analysis `json:"analysis,omitempty"`
}

// traceDesc is the replay content of a page-trace case
type traceDesc struct {
	Trace         *PageTrace `json:"trace"`
	Verdict       string     `json:"verdict"`
	RenderOutcome string     `json:"render_outcome"`
	HTML          string     `json:"html"`
	UserCSS       []string   `json:"user_css,omitempty"`
	Hints         bool       `json:"hints"`
	Engine        string     `json:"engine"`
	Doc           *Doc       `json:"doc,omitempty"`
	Corpus        string     `json:"corpus,omitempty"`
}

func pagesBucket(n int) string {
	switch {
	case n <= 1:
		return "1"
	case n <= 5:
		return "2-5"
	}
	return "6+"
}

var floatFootnoteRe = regexp.MustCompile(`float\s*:\s*footnote`)

// usesFootnotes: some declaration of the document asks for float: footnote
func usesFootnotes(d *Doc) bool {
	if floatFootnoteRe.MatchString(d.HTML()) {
		return true
	}
	for _, u := range d.UserCSS() {
		if floatFootnoteRe.MatchString(u) {
			return true
		}
	}
	return false
}

func main() {
	if os.Getenv("VERIF_WORKER") == "1" {
		workerMain()
		return
	}
	out := flag.String("out", "", "cases file (JSONL)")
	n := flag.Int("n", 300, "number of generated documents")
	par := flag.Int("par", 16, "worker processes")
	triage := flag.Bool("triage", false, "print failures grouped by site")
	shrinkF := flag.String("shrink", "", "minimise the failing document of this file")
	show := flag.String("show", "", "render the document of this file and print it")
	traceF := flag.String("trace", "", "print the page trace (first pagination round) of the document of this file")
	outDoc := flag.String("o", "", "output file for -shrink")
	shrinkVerdict := flag.String("shrink-verdict", "", "with -shrink: minimise while the page trace has this verdict (stuck-resume, stuck-footnote) instead of while the render fails")
	htmlF := flag.String("html", "", "render a raw HTML file (engine/hints from -engine/-hints)")
	engineF := flag.String("engine", "pango", "text engine for -html")
	hintsF := flag.Bool("hints", false, "presentational hints for -html")
	corpusDir := flag.String("corpus", "/verif/corpus/C01", "regression corpus directory")
	confirmMs := flag.Int("confirm-ms", 40000, "second, longer watchdog for documents that exceeded the first one")
	maxShrunk := flag.Int("max-shrunk", 60, "number of failing documents that are shrunk (the rest is reported unshrunk)")
	maxShrink := flag.Int("shrink-calls", 120, "render budget per shrunk failing case in the stream")
	shrinkWall := flag.Int("shrink-wall-ms", 0, "wall-clock budget of the shrinking of one failing case in the stream (0: none)")
	traceEvery := flag.Int("trace-every", 4, "record the page trace of every k-th document (documents with footnotes and hanging documents are always traced; 0: only those)")
	tracePages := flag.Int("trace-pages", 60, "page cap of a page trace")
	printN := flag.Int("print", 0, "print the first N generated documents that have a reference-graph tag containing -print-tag, and exit")
	tagStats := flag.Int("tagstats", 0, "print the distribution of the ref: tags over the first N generated documents, and exit")
	printTag := flag.String("print-tag", "ref:", "see -print")
	flag.Parse()

	if *tagStats > 0 { // distribution of the reference-graph tags over the first N generated documents
		rng := vlib.NewRng(vlib.Seed())
		cnt := map[string]int{}
		for i := 0; i < *tagStats; i++ {
			for _, t := range GenDoc(rng.Fork()).Features(false) {
				if strings.HasPrefix(t, "ref:") || strings.HasPrefix(t, "file:") {
					cnt[t]++
				}
			}
		}
		keys := make([]string, 0, len(cnt))
		for k := range cnt {
			keys = append(keys, k)
		}
		sort.Strings(keys)
		for _, k := range keys {
			fmt.Printf("%-40s %d\n", k, cnt[k])
		}
		return
	}
	if *printN > 0 {
		rng := vlib.NewRng(vlib.Seed())
		for i, k := 0, 0; i < 100000 && k < *printN; i++ {
			d := GenDoc(rng.Fork())
			tags := strings.Join(d.Features(false), " ")
			if !strings.Contains(tags, *printTag) {
				continue
			}
			k++
			fmt.Printf("==== doc %d\n%s\n", i, d.HTML())
			for _, f := range d.Files {
				fmt.Printf("---- file %s\n%s\n", f.Name, f.Content())
			}
			var rt []string
			for _, t := range d.Features(false) {
				if strings.HasPrefix(t, "ref:") {
					rt = append(rt, t)
				}
			}
			fmt.Printf("---- %s\n", strings.Join(rt, " "))
		}
		return
	}

	pool := NewPool(*par)
	defer pool.Close()

	if *htmlF != "" {
		b, err := os.ReadFile(*htmlF)
		if err != nil {
			fmt.Println(err)
			os.Exit(2)
		}
		d := &Doc{Top: []*Node{{K: "raw", Text: string(b)}}, Engine: *engineF, Hints: *hintsF}
		o := pool.Run(d)
		o.Top = nil
		ob, _ := json.MarshalIndent(o, "", " ")
		fmt.Printf("%s\n", ob)
		return
	}
	if *traceF != "" {
		d, _, err := loadDoc(*traceF)
		if err != nil {
			fmt.Println(err)
			os.Exit(2)
		}
		o := pool.Trace(d, *tracePages, 5000)
		fmt.Printf("status=%s site=%s msg=%s\n", o.Status, o.Site, o.Msg)
		if o.Trace != nil {
			for i, st := range o.Trace.Steps {
				fmt.Printf("page %d: %+v\n", i+1, st)
			}
			fmt.Printf("footnotes=%d truncated=%v verdict=%s\n%s\n", o.Trace.Footnotes, o.Trace.Truncated, o.Trace.Verdict(), o.Trace.Coq())
		}
		return
	}
	if *show != "" {
		d, _, err := loadDoc(*show)
		if err != nil {
			fmt.Println(err)
			os.Exit(2)
		}
		o := pool.Run(d)
		fmt.Printf("---- html\n%s\n", d.HTML())
		for i, u := range d.UserCSS() {
			fmt.Printf("---- user sheet %d\n%s\n", i, u)
		}
		fmt.Printf("---- hints=%v engine=%s testua=%v\n", d.Hints, d.Engine, d.TestUA)
		o.Top = nil
		b, _ := json.MarshalIndent(o, "", " ")
		fmt.Printf("---- outcome\n%s\n", b)
		return
	}
	if *shrinkF != "" {
		d, _, err := loadDoc(*shrinkF)
		if err != nil {
			fmt.Println(err)
			os.Exit(2)
		}
		if *shrinkVerdict != "" {
			// minimise while the page trace keeps its verdict (stuck-resume / stuck-footnote): no render needed
			verdict := func(x *Doc) Outcome {
				o := pool.Trace(x, *tracePages, 5000)
				v := "none:" + o.Status
				if o.Status == "ok" && o.Trace != nil {
					v = o.Trace.Verdict()
				}
				return Outcome{Status: "trace", Site: v}
			}
			want := verdict(d)
			if want.Site != *shrinkVerdict {
				fmt.Printf("the page trace of the document has verdict %s\n", want.Site)
				os.Exit(1)
			}
			sd, calls := Shrink(d, want, verdict, 3000)
			fmt.Printf("verdict=%s\nshrunk %d -> %d pieces in %d traces\n---- html\n%s\n", want.Site, d.Size(), sd.Size(), calls, sd.HTML())
			for i, u := range sd.UserCSS() {
				fmt.Printf("---- user sheet %d\n%s\n", i, u)
			}
			fmt.Printf("---- hints=%v engine=%s testua=%v\n", sd.Hints, sd.Engine, sd.TestUA)
			if *outDoc != "" {
				b, _ := json.MarshalIndent(corpusFile{Comment: "page trace " + want.Site, Doc: sd}, "", " ")
				os.WriteFile(*outDoc, b, 0o644)
			}
			return
		}
		o := pool.Run(d)
		if o.Status == "ok" {
			fmt.Println("document does not fail")
			os.Exit(1)
		}
		ms := 0
		if o.Status == "hang" {
			ms = 2500
			o = pool.RunT(d, ms)
		}
		sd, calls := Shrink(d, o, func(x *Doc) Outcome { return pool.RunT(x, ms) }, 3000)
		fmt.Printf("site=%s status=%s msg=%s\nshrunk %d -> %d pieces in %d renders\n", o.Site, o.Status, o.Msg, d.Size(), sd.Size(), calls)
		fmt.Printf("---- html\n%s\n", sd.HTML())
		for i, u := range sd.UserCSS() {
			fmt.Printf("---- user sheet %d\n%s\n", i, u)
		}
		fmt.Printf("---- hints=%v engine=%s testua=%v\n---- frames\n%s\n---- tags\n%s\n", sd.Hints, sd.Engine, sd.TestUA, strings.Join(o.Frames, "\n"), strings.Join(sd.Features(true), " "))
		if *outDoc != "" {
			b, _ := json.MarshalIndent(corpusFile{Comment: fmt.Sprintf("%s %s: %s", o.Status, o.Site, o.Msg), Doc: sd}, "", " ")
			os.WriteFile(*outDoc, b, 0o644)
		}
		return
	}

	// ---------------------------------------------------------------- stream
	type item struct {
		doc    *Doc
		kind   string
		corpus string
	}
	var items []item
	files, _ := filepath.Glob(filepath.Join(*corpusDir, "*.json"))
	sort.Strings(files)
	for _, f := range files {
		d, _, err := loadDoc(f)
		if err != nil {
			fmt.Fprintf(os.Stderr, "corpus %s: %v\n", f, err)
			os.Exit(2)
		}
		// every corpus witness runs with both engines and both hint settings of interest
		for _, eng := range []string{"pango", "gotext"} {
			c := cloneDoc(d)
			c.Engine = eng
			items = append(items, item{c, "corpus", filepath.Base(f)})
		}
	}
	rng := vlib.NewRng(vlib.Seed())
	for i := 0; i < *n; i++ {
		items = append(items, item{GenDoc(rng.Fork()), "gen", ""})
	}
	docs := make([]*Doc, len(items))
	for i := range items {
		docs[i] = items[i].doc
	}
	t0 := time.Now()
	phase := func(name string) {
		fmt.Fprintf(os.Stderr, "c01: %-14s done at %5.1f s\n", name, time.Since(t0).Seconds())
	}
	res := pool.RunAll(docs)
	phase("stream")

	// After the stream, per document and all in parallel (the pool bounds the
	// number of renders running):
	//  - a watchdog expiry is re-examined with a longer budget: a document that
	//    returns within it is slow, not hanging (observable Ok, tag "slow");
	//  - page traces (model-level tie of the page loop, Check.C01.replay): the first
	//    pagination round recorded page by page through layout.VerifPageTrace, for the
	//    documents with footnotes, a sample of the others, and every document that did
	//    not return (trigger tag: is the page loop stuck or progressing?);
	//  - panics and stack overflows are shrunk (bounded) to compute the trigger tags.
	slowMs := make([]int, len(items))
	traces := make([]*PageTrace, len(items))
	traceNote := make([]string, len(items))
	shrunk := make([]*Doc, len(items))
	var wg sync.WaitGroup
	nShrink := 0
	for i := range items {
		first := res[i] // outcome of the stream (the goroutine below may replace res[i])
		wg.Add(1)
		go func(i int) {
			defer wg.Done()
			if res[i].Status == "hang" {
				o := pool.RunT(docs[i], *confirmMs)
				if o.Status != "hang" {
					slowMs[i] = o.Ms
					if slowMs[i] == 0 {
						slowMs[i] = 1
					}
					if *triage {
						b, _ := json.Marshal(corpusFile{Comment: fmt.Sprintf("slow %d ms, first attempt: %s", o.Ms, res[i].Site), Doc: docs[i]})
						os.MkdirAll("/verif/.work/b-c01/triage", 0o755)
						os.WriteFile(fmt.Sprintf("/verif/.work/b-c01/triage/slow_%d.json", i), b, 0o644)
						fmt.Printf("slow: doc %d took %d ms (%s) -> %s\n", i, o.Ms, res[i].Site, o.Status)
					}
					res[i] = o
				}
			}
			st := res[i].Status
			failing := st == "hang" || st == "fatal"
			if !(failing || st == "ok" && (usesFootnotes(docs[i]) || *traceEvery > 0 && i%*traceEvery == 0)) {
				return
			}
			pages := *tracePages
			if failing {
				pages = 40
			}
			o := pool.Trace(docs[i], pages, 5000)
			if o.Status == "ok" && o.Trace != nil {
				traces[i] = o.Trace
				traceNote[i] = o.Trace.Verdict()
			} else if o.Status != "ok" {
				traceNote[i] = "none:" + o.Status
			}
		}(i)
		// hangs and exhausted memory are not shrunk automatically (a shorter watchdog would
		// turn the criterion into "slow"): their trigger tags come from the structural analysis
		if st := first.Status; st == "ok" || st == "hang" || strings.Contains(first.Site, "out-of-memory") {
			continue
		}
		nShrink++
		if nShrink > *maxShrunk && !*triage { // a tree this broken is reported unshrunk
			continue
		}
		wg.Add(1)
		go func(i int, want Outcome) {
			defer wg.Done()
			// a candidate that does not fail within a few times the duration of the
			// original failure is not the same failure (it may well hang: no need to wait
			// for the 10 s watchdog)
			ms := 4*want.Ms + 1500
			var deadline time.Time
			if *shrinkWall > 0 {
				deadline = time.Now().Add(time.Duration(*shrinkWall) * time.Millisecond)
			}
			shrunk[i], _ = ShrinkUntil(docs[i], want, func(x *Doc) Outcome { return pool.RunT(x, ms) }, *maxShrink, deadline)
		}(i, first)
	}
	wg.Wait()
	nFail := 0
	for i := range items {
		if res[i].Status != "ok" {
			nFail++
		}
	}
	phase("confirm/trace/shrink")

	if *triage {
		type grp struct {
			n     int
			first int
		}
		groups := map[string]*grp{}
		for i, o := range res {
			if o.Status == "ok" {
				continue
			}
			key := o.Status + " " + o.Site
			if g, ok := groups[key]; ok {
				g.n++
				if shrunk[i] != nil && (shrunk[g.first] == nil || shrunk[i].Size() < shrunk[g.first].Size()) {
					g.first = i
				}
			} else {
				groups[key] = &grp{1, i}
			}
		}
		keys := make([]string, 0, len(groups))
		for k := range groups {
			keys = append(keys, k)
		}
		sort.Slice(keys, func(a, b int) bool { return groups[keys[a]].n > groups[keys[b]].n })
		os.MkdirAll("/verif/.work/b-c01/triage", 0o755)
		fmt.Printf("%d documents, %d failing, %d distinct sites\n", len(items), nFail, len(groups))
		for _, k := range keys {
			g := groups[k]
			o := res[g.first]
			d := shrunk[g.first]
			if d == nil {
				d = docs[g.first]
			}
			name := strings.NewReplacer("/", "_", ":", "_", " ", "_", "@", "_", "*", "", "(", "", ")", "").Replace(k)
			b, _ := json.MarshalIndent(corpusFile{Comment: k + ": " + o.Msg, Doc: d}, "", " ")
			os.WriteFile("/verif/.work/b-c01/triage/"+name+".json", b, 0o644)
			fmt.Printf("\n==== %s  x%d  msg=%s\n  frames: %s\n  html: %s\n", k, g.n, o.Msg, strings.Join(o.Frames, " | "), truncate(d.HTML(), 1500))
			for _, u := range d.UserCSS() {
				fmt.Printf("  user: %s\n", truncate(u, 600))
			}
			fmt.Printf("  hints=%v engine=%s testua=%v file=%s.json\n  analysis(original)=%+v tags=%v\n", d.Hints, d.Engine, d.TestUA, name, pool.Analyze(docs[g.first]), pool.Analyze(docs[g.first]).Tags())
		}
		return
	}

	if *out == "" {
		fmt.Println("need -out")
		os.Exit(2)
	}
	w := vlib.NewWriter(*out)
	nTrace := 0
	for i, it := range items {
		o := res[i]
		tags := it.doc.Features(false)
		tags = append(tags, "outcome="+o.Status)
		if o.Err != "" {
			tags = append(tags, "returned-error")
		}
		if slowMs[i] > 0 {
			tags = append(tags, "slow")
		}
		if o.Rounds > 1 {
			tags = append(tags, fmt.Sprintf("rounds=%d", o.Rounds))
		}
		switch {
		case o.Pages == 0:
			tags = append(tags, "pages=0")
		case o.Pages == 1:
			tags = append(tags, "pages=1")
		case o.Pages <= 5:
			tags = append(tags, "pages=2-5")
		default:
			tags = append(tags, "pages=6+")
		}
		ds := desc{Outcome: o.Status, Site: o.Site, Msg: o.Msg, Frames: o.Frames, Pages: o.Pages, Rounds: o.Rounds, Err: o.Err,
			HTML: it.doc.HTML(), UserCSS: it.doc.UserCSS(), Hints: it.doc.Hints, Engine: it.doc.Engine, Corpus: it.corpus}
		if o.Status != "ok" {
			ds.Doc = it.doc
			tags = append(tags, "site="+o.Site)
			if o.Status == "fatal" {
				// the function in which the stack / the memory runs out is arbitrary: the kind is the stable part
				tags = append(tags, "fatal="+strings.SplitN(strings.TrimPrefix(o.Site, "fatal:"), "@", 2)[0])
			}
			if o.Status == "panic" && len(o.Frames) > 0 {
				if p := strings.Fields(o.Frames[0]); len(p) == 2 {
					tags = append(tags, "fn="+p[1]) // function of the panic site: stable when lines shift
				}
			}
			src := it.doc
			if shrunk[i] != nil {
				src = shrunk[i]
				ds.Shrunk = src
				ds.ShrunkH = src.HTML()
				ds.ShrunkU = src.UserCSS()
				tags = append(tags, "shrunk")
			}
			for _, t := range src.Features(true) {
				tags = append(tags, "t:"+t)
			}
			an := pool.Analyze(src)
			for _, t := range an.Tags() {
				tags = append(tags, "t:"+t)
			}
			ds.Analysis = &an
			for _, c := range o.OnStack {
				tags = append(tags, "t:on-stack:"+c)
			}
			if (o.Status == "hang" || o.Status == "fatal") && traceNote[i] != "" {
				// is the page loop itself stuck (a page that places nothing) or progressing?
				tags = append(tags, "t:page-loop:"+traceNote[i])
			}
		}
		key := ds.HTML + "\x00" + strings.Join(ds.UserCSS, "\x00") + fmt.Sprint(ds.Hints, ds.Engine)
		w.Add(vlib.Case{Kind: it.kind, Coq: coqTerm(o), Desc: ds, Tags: tags, Nontrivial: it.doc.Size() > 3, Key: key})
		if t := traces[i]; t != nil {
			nTrace++
			ttags := append(it.doc.Features(false), "page-trace", "page-trace:"+traceNote[i], fmt.Sprintf("trace-pages=%s", pagesBucket(len(t.Steps))))
			blank, fnPages := 0, 0
			for _, s := range t.Steps {
				if s.Blank {
					blank++
				}
				if s.FnIn > 0 {
					fnPages++
				}
			}
			if blank > 0 {
				ttags = append(ttags, "trace:blank-pages")
			}
			if fnPages > 0 {
				ttags = append(ttags, "trace:reported-footnotes")
			}
			if t.Footnotes > 0 {
				ttags = append(ttags, "trace:footnotes")
			}
			if t.Truncated {
				ttags = append(ttags, "trace:truncated")
			}
			if traceNote[i] != "progress" {
				for _, f := range it.doc.Features(true) {
					ttags = append(ttags, "t:"+f)
				}
			}
			td := traceDesc{Trace: t, Verdict: traceNote[i], RenderOutcome: o.Status, HTML: ds.HTML, UserCSS: ds.UserCSS, Hints: ds.Hints, Engine: ds.Engine, Doc: it.doc, Corpus: it.corpus}
			w.Add(vlib.Case{Kind: it.kind + "-trace", Coq: t.Coq(), Desc: td, Tags: ttags, Nontrivial: len(t.Steps) > 1, Key: "trace\x00" + key})
		}
	}
	w.Close()
	fmt.Printf("c01: %d documents, %d not ok, %d page traces\n", len(items), nFail, nTrace)
}
