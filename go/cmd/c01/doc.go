package main

// Structured documents: the generator builds a Doc, the worker serialises it to
// HTML/CSS text and renders it, the shrinker removes pieces of the structure.
// A Doc is JSON-serialisable (it is the worker input and the replay content).

import (
	"math"
	"regexp"
	"sort"
	"strconv"
	"strings"
)

type Decl struct {
	N   string `json:"n,omitempty"` // property name ("" => Raw only)
	V   string `json:"v,omitempty"`
	Raw string `json:"raw,omitempty"` // broken declaration text
}

type Rule struct {
	Pre   string `json:"pre,omitempty"` // selector list or at-rule prelude ("@page :first")
	Decls []Decl `json:"d,omitempty"`
	Rules []Rule `json:"r,omitempty"`   // nested rules (@media, @page margin boxes)
	Raw   string `json:"raw,omitempty"` // broken rule text, used verbatim
	NoBlk bool   `json:"nb,omitempty"`  // statement at-rule (@import ...;)
}

type Sheet struct {
	Rules []Rule `json:"rules,omitempty"`
}

type Node struct {
	K       string      `json:"k"` // el | text | comment | doctype | raw | style
	Tag     string      `json:"tag,omitempty"`
	Attrs   [][2]string `json:"a,omitempty"`
	Style   []Decl      `json:"st,omitempty"` // inline style attribute
	Kids    []*Node     `json:"c,omitempty"`
	Text    string      `json:"t,omitempty"`
	NoClose bool        `json:"nc,omitempty"` // omit the end tag (tag soup)
	Sheet   *Sheet      `json:"sheet,omitempty"`
}

// DocFile is a file the document refers to by name (style sheet or svg image),
// served by the worker's fetcher
type DocFile struct {
	Name  string `json:"name"`
	Sheet *Sheet `json:"sheet,omitempty"` // a style sheet
	Node  *Node  `json:"node,omitempty"`  // an svg document
	Text  string `json:"text,omitempty"`  // anything else, verbatim
}

func (f DocFile) Content() string {
	switch {
	case f.Sheet != nil:
		return f.Sheet.String()
	case f.Node != nil:
		var sb strings.Builder
		f.Node.write(&sb)
		return sb.String()
	}
	return f.Text
}

type Doc struct {
	Top    []*Node   `json:"top"`
	User   []Sheet   `json:"user,omitempty"`
	Files  []DocFile `json:"files,omitempty"`
	Hints  bool    `json:"hints"`
	Engine string  `json:"engine"`
	TestUA bool    `json:"testua,omitempty"`
}

var voidTags = map[string]bool{"br": true, "hr": true, "img": true, "input": true, "col": true, "wbr": true, "embed": true, "meta": true, "link": true, "base": true, "area": true, "source": true}

func (d Decl) String() string {
	if d.N == "" {
		return d.Raw
	}
	return d.N + ": " + d.V
}

func declsString(ds []Decl, sep string) string {
	parts := make([]string, len(ds))
	for i, d := range ds {
		parts[i] = d.String()
	}
	return strings.Join(parts, ";"+sep)
}

func (r Rule) write(sb *strings.Builder, ind string) {
	if r.Raw != "" {
		sb.WriteString(ind + r.Raw + "\n")
		return
	}
	if r.NoBlk {
		sb.WriteString(ind + r.Pre + ";\n")
		return
	}
	sb.WriteString(ind + r.Pre + " {")
	if len(r.Decls) > 0 {
		sb.WriteString(" " + declsString(r.Decls, " ") + ";")
	}
	if len(r.Rules) > 0 {
		sb.WriteString("\n")
		for _, s := range r.Rules {
			s.write(sb, ind+"  ")
		}
		sb.WriteString(ind)
	}
	sb.WriteString(" }\n")
}

func (s Sheet) String() string {
	var sb strings.Builder
	for _, r := range s.Rules {
		r.write(&sb, "")
	}
	return sb.String()
}

func escAttr(s string) string {
	s = strings.ReplaceAll(s, "&", "&amp;")
	return strings.ReplaceAll(s, "\"", "&quot;")
}

func (n *Node) write(sb *strings.Builder) {
	switch n.K {
	case "text", "raw":
		sb.WriteString(n.Text)
	case "comment":
		sb.WriteString("<!--" + n.Text + "-->")
	case "doctype":
		sb.WriteString("<!DOCTYPE " + n.Text + ">")
	case "style":
		sb.WriteString("<style>\n")
		if n.Sheet != nil {
			sb.WriteString(n.Sheet.String())
		}
		sb.WriteString("</style>")
	case "el":
		sb.WriteString("<" + n.Tag)
		for _, a := range n.Attrs {
			if a[1] == "\x00" {
				sb.WriteString(" " + a[0])
			} else {
				sb.WriteString(" " + a[0] + "=\"" + escAttr(a[1]) + "\"")
			}
		}
		if len(n.Style) > 0 {
			sb.WriteString(" style=\"" + escAttr(declsString(n.Style, " ")) + "\"")
		}
		sb.WriteString(">")
		for _, c := range n.Kids {
			c.write(sb)
		}
		if !n.NoClose && !voidTags[n.Tag] {
			sb.WriteString("</" + n.Tag + ">")
		}
	}
}

func (d *Doc) HTML() string {
	var sb strings.Builder
	for _, n := range d.Top {
		n.write(&sb)
	}
	return sb.String()
}

func (d *Doc) UserCSS() []string {
	out := make([]string, len(d.User))
	for i, s := range d.User {
		out[i] = s.String()
	}
	return out
}

// ---------------------------------------------------------------- features

var (
	spanNamedRe = regexp.MustCompile(`(?i)\bspan\s+(\d+\s+)?[a-z_-][a-z0-9_-]*|[a-z_][a-z0-9_-]*\s+span\b`)
	identRe     = regexp.MustCompile(`[a-zA-Z_@-][a-zA-Z0-9_-]*\(?`)
	numFullRe   = regexp.MustCompile(`^[-+]?([0-9]+\.?[0-9]*|\.[0-9]+)([eE][-+]?[0-9]+)?`)
)

// properties / descriptors whose numbers are counter values or representation lengths
var counterNumbers = map[string]bool{"pad": true, "counter-reset": true, "counter-increment": true, "counter-set": true}

// ... and those whose numbers are not geometry either
var nonGeometric = map[string]bool{"range": true, "system": true, "additive-symbols": true, "symbols": true, "z-index": true, "bookmark-level": true,
	"content": true, "string-set": true, "bookmark-label": true, "negative": true, "prefix": true, "suffix": true, "fallback": true, "speak-as": true, "quotes": true}

type featureSet map[string]bool

func (f featureSet) add(s string) { f[s] = true }

func (f featureSet) sorted() []string {
	out := make([]string, 0, len(f))
	for k := range f {
		out = append(out, k)
	}
	sort.Strings(out)
	return out
}

// declFeatures: fine => also keyword/function tokens of the value
func declFeatures(f featureSet, ds []Decl, where string, fine bool) {
	for _, d := range ds {
		if d.N == "" {
			f.add("decl:broken")
			continue
		}
		name := d.N
		if strings.HasPrefix(name, "--") {
			f.add("prop:--custom")
			if i := strings.Index(d.V, "var("); i >= 0 {
				f.add("custom:uses-var")
				if strings.Contains(d.V[:i], "(") || strings.Contains(d.V[:i], "[") || strings.Contains(d.V[:i], "{") {
					f.add("custom:var-inside-function") // a reference routed through a function / block / fallback
				}
			}
			continue
		}
		f.add("prop:" + name)
		if strings.Contains(d.V, "var(") {
			f.add("val:var()")
		}
		if fine {
			f.add("in:" + where)
			if strings.HasPrefix(name, "grid-") && spanNamedRe.MatchString(d.V) {
				f.add("grid:span-named-line") // `span <ident>` / `span <ident> <n>`: a span counted in named lines
			}
			toks := identRe.FindAllString(d.V, -1)
			if len(toks) > 6 {
				toks = toks[:6]
			}
			for _, t := range toks {
				if len(t) > 24 {
					continue
				}
				f.add("kw:" + name + "=" + strings.ToLower(t))
			}
			for _, w := range strings.FieldsFunc(d.V, func(r rune) bool { return r == ' ' || r == ',' || r == '(' || r == ')' || r == '/' }) {
				m := numFullRe.FindString(w)
				if m == "" {
					continue
				}
				v, err := strconv.ParseFloat(m, 64)
				if err != nil {
					continue
				}
				if (name == "columns" || name == "column-count") && m == w && v >= 100 {
					f.add("columns:count>=100") // a bare number: hundreds of columns or more
				}
				switch {
				case math.Abs(v) >= 1e6 || math.IsInf(v, 0):
					f.add("num:" + name + "=astronomic")
					f.add("astronomic-number")
					switch {
					case counterNumbers[name]:
						f.add("astronomic-counter") // the value of a counter / the length of its representation
					case !nonGeometric[name]:
						f.add("astronomic-length") // a number that sizes, places or multiplies something laid out or drawn
					}
				case v < 0:
					f.add("num:" + name + "=negative")
				case v == 0:
					f.add("num:" + name + "=zero")
				case v >= 1e4:
					f.add("num:" + name + "=large")
				}
			}
		}
	}
}

func preludeFeatures(f featureSet, pre string, fine bool) {
	p := strings.TrimSpace(pre)
	if strings.HasPrefix(p, "@") {
		name := p
		if i := strings.IndexAny(p, " \t:{("); i > 0 {
			name = p[:i]
		}
		f.add("at:" + strings.ToLower(name))
		if fine && strings.HasPrefix(strings.ToLower(p), "@page") {
			for _, ps := range []string{":first", ":left", ":right", ":blank", ":nth("} {
				if strings.Contains(p, ps) {
					f.add("page-sel" + ps)
				}
			}
		}
		return
	}
	for _, ps := range []string{"::before", "::after", "::marker", "::first-line", "::first-letter", "::footnote-call", "::footnote-marker", ":nth-", ":not(", ":first-child", ":last-child", ":empty", ":root", ":link", ":checked", ":lang(", ":is(", ":where(", ":has("} {
		if strings.Contains(p, ps) {
			f.add("sel:" + strings.TrimRight(ps, "("))
		}
	}
}

func ruleFeatures(f featureSet, rs []Rule, where string, fine bool) {
	for _, r := range rs {
		if r.Raw != "" {
			f.add("rule:broken")
			continue
		}
		preludeFeatures(f, r.Pre, fine)
		if strings.Contains(r.Pre, ":before") || strings.Contains(r.Pre, ":after") || strings.Contains(r.Pre, "::marker") {
			// generated content: boxes re-created at layout time when the content uses page-based counters
			for _, d := range r.Decls {
				switch {
				case d.N == "display" && d.V != "inline" && d.V != "inline flow":
					f.add("pseudo:display")
				case d.N == "content" && (strings.Contains(d.V, "counter(") || strings.Contains(d.V, "counters(") || strings.Contains(d.V, "target-")):
					f.add("pseudo:content-counter")
				}
			}
		}
		w := where
		if strings.HasPrefix(strings.TrimSpace(r.Pre), "@") {
			w = strings.ToLower(strings.Fields(strings.TrimSpace(r.Pre) + " ")[0])
			if i := strings.IndexAny(w, ":("); i > 0 {
				w = w[:i]
			}
		}
		declFeatures(f, r.Decls, w, fine)
		ruleFeatures(f, r.Rules, w, fine)
	}
}

func hasRTL(s string) bool {
	for _, r := range s {
		if (r >= 0x590 && r <= 0x8ff) || (r >= 0xfb1d && r <= 0xfdff) || r == 0x202e || r == 0x202b || r == 0x200f || r == 0x2067 {
			return true
		}
	}
	return false
}

func hasLTRLetters(s string) bool {
	for _, r := range s {
		if (r >= 'a' && r <= 'z') || (r >= 'A' && r <= 'Z') {
			return true
		}
	}
	return false
}

func nodeFeatures(f featureSet, n *Node, depth int, fine bool, maxDepth *int) {
	if depth > *maxDepth {
		*maxDepth = depth
	}
	switch n.K {
	case "el":
		f.add("el:" + n.Tag)
		for _, a := range n.Attrs {
			f.add("attr:" + a[0])
			if fine && (a[0] == "dir" || a[0] == "type" || a[0] == "align") {
				f.add("attr:" + a[0] + "=" + strings.ToLower(a[1]))
			}
			if fine && (a[0] == "start" || a[0] == "value") && (n.Tag == "ol" || n.Tag == "li" || n.Tag == "ul") {
				if v, err := strconv.ParseFloat(a[1], 64); err == nil && math.Abs(v) >= 1e6 {
					f.add("astronomic-counter") // list item numbers
				}
			}
			if a[0] == "src" || a[0] == "href" || a[0] == "data" || a[0] == "xlink:href" {
				switch {
				case strings.HasPrefix(a[1], "data:"):
					f.add("url:data")
				case strings.HasPrefix(a[1], "#"):
					f.add("url:fragment")
				case a[1] == "":
					f.add("url:empty")
				default:
					f.add("url:file")
				}
			}
		}
		if len(n.Style) > 0 {
			f.add("inline-style")
			declFeatures(f, n.Style, "inline", fine)
		}
		if n.NoClose {
			f.add("soup:unclosed")
		}
	case "text":
		if strings.TrimSpace(n.Text) != "" {
			f.add("text")
		}
		rtl := hasRTL(n.Text)
		if rtl {
			f.add("text:rtl")
			if hasLTRLetters(n.Text) {
				f.add("text:mixed-bidi")
			}
		}
		if strings.Contains(n.Text, "&") {
			f.add("text:entity")
		}
		for _, w := range strings.Fields(n.Text) {
			if len(w) > 40 {
				f.add("text:longword")
				break
			}
		}
		if strings.ContainsAny(n.Text, "\n\t") {
			f.add("text:newline-tab")
		}
		if strings.Contains(n.Text, "­") {
			f.add("text:soft-hyphen")
		}
	case "comment":
		f.add("comment")
	case "doctype":
		f.add("doctype")
	case "raw":
		f.add("soup:raw")
	case "style":
		f.add("el:style")
		if n.Sheet != nil {
			ruleFeatures(f, n.Sheet.Rules, "author", fine)
		}
	}
	for _, c := range n.Kids {
		nodeFeatures(f, c, depth+1, fine, maxDepth)
	}
}

// Features computes structural tags of a document. fine=true (used on shrunk
// failing documents) adds value keywords so that a known-finding matcher can
// name the construct that triggers a crash.
func (d *Doc) Features(fine bool) []string {
	f := featureSet{}
	maxDepth := 0
	// position of comments / doctype relative to the first element at top level
	seenEl := false
	for _, n := range d.Top {
		switch n.K {
		case "el":
			seenEl = true
		case "comment":
			if !seenEl {
				f.add("top:comment-before-root")
			} else {
				f.add("top:comment-after-root")
			}
		case "doctype":
			if seenEl {
				f.add("top:doctype-after-root")
			}
		case "text", "raw":
			if !seenEl {
				f.add("top:text-before-root")
			}
		}
		nodeFeatures(f, n, 1, fine, &maxDepth)
	}
	for _, s := range d.User {
		f.add("user-sheet")
		ruleFeatures(f, s.Rules, "user", fine)
	}
	for _, fl := range d.Files {
		switch {
		case fl.Sheet != nil:
			f.add("file:css")
			ruleFeatures(f, fl.Sheet.Rules, "file", fine)
		case fl.Node != nil:
			f.add("file:svg")
			nodeFeatures(f, fl.Node, 1, fine, &maxDepth)
		}
	}
	refFeatures(f, d)
	switch {
	case maxDepth > 40:
		f.add("depth:>40")
	case maxDepth > 15:
		f.add("depth:16-40")
	}
	if d.Hints {
		f.add("hints=on")
	} else {
		f.add("hints=off")
	}
	f.add("engine=" + d.Engine)
	if d.TestUA {
		f.add("ua=test")
	}
	return f.sorted()
}

// size of a document = number of removable pieces (nodes + rules + declarations)
func (d *Doc) Size() int {
	n := 0
	var rs func([]Rule)
	rs = func(l []Rule) {
		for _, r := range l {
			n += 1 + len(r.Decls)
			rs(r.Rules)
		}
	}
	var nd func(*Node)
	nd = func(x *Node) {
		n += 1 + len(x.Attrs) + len(x.Style)
		if x.Sheet != nil {
			rs(x.Sheet.Rules)
		}
		for _, c := range x.Kids {
			nd(c)
		}
	}
	for _, t := range d.Top {
		nd(t)
	}
	for _, s := range d.User {
		n++
		rs(s.Rules)
	}
	for _, fl := range d.Files {
		n++
		if fl.Sheet != nil {
			rs(fl.Sheet.Rules)
		}
		if fl.Node != nil {
			nd(fl.Node)
		}
	}
	return n
}
