package main

// Structural delta debugging: remove nodes / attributes / rules / declarations
// while the document still fails at the same site.

import (
	"encoding/json"
	"fmt"
	"os"
	"strings"
	"time"
)

func cloneDoc(d *Doc) *Doc {
	b, _ := json.Marshal(d)
	var c Doc
	json.Unmarshal(b, &c)
	return &c
}

// editor walks a document and applies the k-th candidate edit.
type editor struct {
	k    int // edit to apply (counts down); -1 after it was applied
	done bool
}

func (e *editor) hit() bool {
	if e.done {
		return false
	}
	if e.k == 0 {
		e.done = true
		e.k = -1
		return true
	}
	e.k--
	return false
}

func (e *editor) decls(ds []Decl) []Decl {
	for i := 0; i < len(ds) && !e.done; i++ {
		if e.hit() {
			return append(append([]Decl{}, ds[:i]...), ds[i+1:]...)
		}
	}
	return ds
}

func (e *editor) rules(rs []Rule) []Rule {
	for i := 0; i < len(rs) && !e.done; i++ {
		if e.hit() {
			return append(append([]Rule{}, rs[:i]...), rs[i+1:]...)
		}
	}
	for i := range rs {
		if e.done {
			break
		}
		rs[i].Decls = e.decls(rs[i].Decls)
		rs[i].Rules = e.rules(rs[i].Rules)
		// simplify a selector list / compound prelude to its first simple part
		// (a broken prelude made of separators only, e.g. ">" or ",", has no such part:
		// it is not a candidate)
		if parts := strings.FieldsFunc(rs[i].Pre, func(r rune) bool { return strings.ContainsRune(" ,>+~", r) }); !e.done &&
			!strings.HasPrefix(rs[i].Pre, "@") && len(parts) > 0 && parts[0] != rs[i].Pre {
			if e.hit() {
				rs[i].Pre = parts[0]
			}
		}
	}
	return rs
}

func (e *editor) nodes(ns []*Node) []*Node {
	// whole-child removals first (big steps), then unwrapping, then inside
	for i := 0; i < len(ns) && !e.done; i++ {
		if e.hit() {
			return append(append([]*Node{}, ns[:i]...), ns[i+1:]...)
		}
	}
	for i := 0; i < len(ns) && !e.done; i++ {
		if ns[i].K == "el" && len(ns[i].Kids) > 0 {
			if e.hit() {
				out := append([]*Node{}, ns[:i]...)
				out = append(out, ns[i].Kids...)
				return append(out, ns[i+1:]...)
			}
		}
	}
	for _, n := range ns {
		if e.done {
			break
		}
		e.node(n)
	}
	return ns
}

func (e *editor) node(n *Node) {
	switch n.K {
	case "el":
		n.Kids = e.nodes(n.Kids)
		for i := 0; i < len(n.Attrs) && !e.done; i++ {
			if e.hit() {
				n.Attrs = append(append([][2]string{}, n.Attrs[:i]...), n.Attrs[i+1:]...)
				return
			}
		}
		n.Style = e.decls(n.Style)
		if !e.done && n.NoClose && e.hit() {
			n.NoClose = false
		}
	case "text":
		if len(n.Text) > 1 && !e.done {
			if e.hit() {
				// halve the text (on a rune boundary)
				rs := []rune(n.Text)
				n.Text = string(rs[:len(rs)/2])
				return
			}
			if e.hit() {
				rs := []rune(n.Text)
				n.Text = string(rs[len(rs)/2:])
				return
			}
		}
	case "style":
		if n.Sheet != nil {
			n.Sheet.Rules = e.rules(n.Sheet.Rules)
		}
	}
}

// applyEdit returns a copy of d with the k-th candidate edit applied, or nil
// when there are fewer than k+1 candidates.
func applyEdit(d *Doc, k int) *Doc {
	c := cloneDoc(d)
	e := &editor{k: k}
	for i := 0; i < len(c.User) && !e.done; i++ {
		if e.hit() {
			c.User = append(append([]Sheet{}, c.User[:i]...), c.User[i+1:]...)
		}
	}
	if !e.done {
		c.Top = e.nodes(c.Top)
	}
	for i := range c.User {
		if e.done {
			break
		}
		c.User[i].Rules = e.rules(c.User[i].Rules)
	}
	for i := 0; i < len(c.Files) && !e.done; i++ {
		if e.hit() {
			c.Files = append(append([]DocFile{}, c.Files[:i]...), c.Files[i+1:]...)
		}
	}
	for i := range c.Files {
		if e.done {
			break
		}
		if c.Files[i].Sheet != nil {
			c.Files[i].Sheet.Rules = e.rules(c.Files[i].Sheet.Rules)
		}
		if c.Files[i].Node != nil {
			e.node(c.Files[i].Node)
		}
	}
	if !e.done && c.Hints && e.hit() {
		c.Hints = false
	}
	if !e.done {
		return nil
	}
	return c
}

func sameFailure(a, b Outcome) bool {
	return a.Status == b.Status && a.Site == b.Site
}

// Shrink greedily minimises d while run(d) fails like `want`. At most maxCalls renders.
//
// A defect of the shrinker itself must never take the stream down or lose the
// failing document: a panic in here is recovered and the best document found so
// far (at worst d itself) is returned.
func Shrink(d *Doc, want Outcome, run func(*Doc) Outcome, maxCalls int) (cur *Doc, calls int) {
	return ShrinkUntil(d, want, run, maxCalls, time.Time{})
}

// ShrinkUntil is Shrink with a wall-clock deadline (zero: none)
func ShrinkUntil(d *Doc, want Outcome, run func(*Doc) Outcome, maxCalls int, deadline time.Time) (cur *Doc, calls int) {
	cur = d
	defer func() {
		if r := recover(); r != nil {
			fmt.Fprintf(os.Stderr, "c01: shrinker panicked (%v): document kept as it is\n", r)
		}
	}()
	for pass := 0; pass < 6; pass++ {
		progress := false
		k := 0
		for calls < maxCalls {
			if !deadline.IsZero() && time.Now().After(deadline) {
				return cur, calls
			}
			c := applyEdit(cur, k)
			if c == nil {
				break
			}
			calls++
			if sameFailure(run(c), want) {
				cur = c
				progress = true
				// same k now designates the next candidate
			} else {
				k++
			}
		}
		if !progress || calls >= maxCalls {
			break
		}
	}
	return cur, calls
}
