package main

// The reference-graph dimension.  Every mechanism of /repo that follows names or
// ids gets a random graph of 2..5 nodes (self loops, 2-cycles, longer cycles, rho
// shapes: a tail leading into a cycle, diamonds, chains, dangling references,
// random graphs), realised with the constructs of that mechanism, and the
// document actually USES the entry node (node 0) of the graph:
//
//	counter styles   @counter-style: system: extends / fallback; used by list-style-type,
//	                 counter() / counters() / target-counter() in content, page counters
//	svg ids          gradient / pattern href (template inheritance), fill / stroke paint
//	                 servers, use, clip-path, mask, filter, marker-*, textPath, tref; inline
//	                 <svg> or an .svg file used as an image
//	style sheets     @import chains between files; <link>, @import in <style>, user sheets
//	svg files        <image href> / <use href="file#id"> between .svg files
//	targets          ids, <a href="#id">, target-counter / target-counters / target-text
//	                 (attr(href) and literal '#id'), string-set / bookmark-label from targets
//	names            named strings (string-set / string()), running elements (running() /
//	                 element()), named pages (page / @page name), nested in each other
//	custom props     var() graphs (gen.go varGraph; shapes shared with this file)
//
// Files referenced by name live in Doc.Files and are served by the worker's fetcher.

import (
	"fmt"
	"strings"

	"verifharness/vlib"
)

// refGraph: out[i] = targets of node i (-1: a name that is defined nowhere).
// Node 0 is the entry: the node the document uses.
type refGraph struct {
	n     int
	out   [][]int
	shape string
}

func (gr *refGraph) add(a, b int) { gr.out[a] = append(gr.out[a], b) }

func (g *gen) refGraph() refGraph {
	r := g.r
	n := r.Range(2, 5)
	gr := refGraph{n: n, out: make([][]int, n)}
	used := n // nodes [0, used) belong to the shape; the others lead into it or are leaves
	switch k := r.Intn(20); {
	case k < 2: // self loop on the entry
		gr.shape = "self"
		gr.add(0, 0)
		used = 1
	case k < 4: // a tail leading into a self loop
		gr.shape = "rho1"
		t := r.Range(1, n-1)
		for i := 0; i < t; i++ {
			gr.add(i, i+1)
		}
		gr.add(t, t)
		used = t + 1
	case k < 6:
		gr.shape = "2-cycle"
		gr.add(0, 1)
		gr.add(1, 0)
		used = 2
	case k < 8: // cycle through the entry
		gr.shape = "cycle"
		c := r.Range(2, n)
		for i := 0; i < c; i++ {
			gr.add(i, (i+1)%c)
		}
		used = c
	case k < 12: // rho: tail 0..t-1, cycle t..m
		gr.shape = "rho"
		if n < 3 {
			n = 3
			gr.n = 3
			gr.out = make([][]int, 3)
		}
		t := r.Range(1, n-2)
		m := r.Range(t+1, n-1)
		for i := 0; i < m; i++ {
			gr.add(i, i+1)
		}
		gr.add(m, t)
		used = m + 1
	case k < 14: // diamond: two paths from the entry to the same node
		gr.shape = "diamond"
		if n < 3 {
			n = 3
			gr.n = 3
			gr.out = make([][]int, 3)
		}
		if n == 3 {
			gr.add(0, 1)
			gr.add(0, 2)
			gr.add(1, 2)
			used = 3
		} else {
			gr.add(0, 1)
			gr.add(0, 2)
			gr.add(1, 3)
			gr.add(2, 3)
			used = 4
			if r.Chance(1, 3) { // closed: a cycle through both paths
				gr.shape = "diamond-cycle"
				gr.add(3, r.Intn(3))
			}
		}
	case k < 16:
		gr.shape = "chain"
		for i := 0; i+1 < n; i++ {
			gr.add(i, i+1)
		}
	case k < 18: // a chain ending in a name that is not defined
		gr.shape = "dangling"
		t := r.Range(0, n-1)
		for i := 0; i < t; i++ {
			gr.add(i, i+1)
		}
		gr.add(t, -1)
		used = t + 1
	default:
		gr.shape = "random"
		for i := 0; i < n; i++ {
			for k := r.Intn(3); k > 0; k-- {
				gr.add(i, r.Range(-1, n-1))
			}
		}
		if len(gr.out[0]) == 0 {
			gr.add(0, r.Intn(n))
		}
	}
	n = gr.n
	for i := used; i < n; i++ { // the other nodes lead into the shape or are leaves
		if r.Chance(2, 3) {
			gr.add(i, r.Intn(i))
		}
	}
	if r.Chance(1, 5) { // one more edge anywhere
		gr.add(r.Intn(n), r.Range(-1, n-1))
		gr.shape += "+"
	}
	return gr
}

func (g *gen) shuffled(pool []string, n int) []string {
	names := append([]string{}, pool...)
	for i := len(names) - 1; i > 0; i-- {
		j := g.r.Intn(i + 1)
		names[i], names[j] = names[j], names[i]
	}
	if n > len(names) {
		n = len(names)
	}
	return names[:n]
}

// refPiece is what one mechanism contributes to a document
type refPiece struct {
	rules []Rule    // author / user rules
	imps  []Rule    // @import statements (must come first in a sheet)
	head  []*Node   // <link> ...
	body  []*Node   // elements that use the graph
	files []DocFile // files served by the fetcher
}

func (p *refPiece) merge(q refPiece) {
	p.rules = append(p.rules, q.rules...)
	p.imps = append(p.imps, q.imps...)
	p.head = append(p.head, q.head...)
	p.body = append(p.body, q.body...)
	p.files = append(p.files, q.files...)
}

func txt(s string) *Node { return &Node{K: "text", Text: s} }

func el(tag string, attrs [][2]string, kids ...*Node) *Node {
	return &Node{K: "el", Tag: tag, Attrs: attrs, Kids: kids}
}

// ---------------------------------------------------------------- counter styles

var csNamePool = []string{"cs0", "cs1", "cs2", "cs3", "cs4"}

func (g *gen) counterStyleGraph() refPiece {
	r := g.r
	gr := g.refGraph()
	names := g.shuffled(csNamePool, gr.n)
	if r.Chance(1, 8) { // a predefined style redefined as a node of the graph (not the entry)
		names[r.Range(1, gr.n-1)] = vlib.Pick(r, []string{"lower-roman", "lower-alpha", "circle", "square", "upper-roman", "decimal-leading-zero"})
	}
	name := func(j int) string {
		if j < 0 {
			return vlib.Pick(r, []string{"undefined-style", "nowhere", "decimal", "lower-roman", "none"})
		}
		return names[j]
	}
	// how edges are realised, per graph: all `extends`, all `fallback`, or mixed
	mode := r.Intn(4) // 0,1: extends first; 2: fallback only; 3: mixed
	var p refPiece
	order := make([]int, gr.n)
	for i := range order {
		order[i] = i
	}
	if r.Bool() { // definitions after their uses / before
		for i, j := 0, gr.n-1; i < j; i, j = i+1, j-1 {
			order[i], order[j] = order[j], order[i]
		}
	}
	for _, i := range order {
		t := gr.out[i]
		var ds []Decl
		extends := len(t) > 0 && (mode < 2 || mode == 3 && r.Bool())
		rest := t
		if extends {
			ds = append(ds, Decl{N: "system", V: "extends " + name(t[0])})
			rest = t[1:]
			if r.Chance(1, 14) { // invalid: an extending style with symbols (the rule is dropped: the name becomes undefined)
				ds = append(ds, Decl{N: "symbols", V: "'x' 'y'"})
			}
		} else {
			sys := vlib.Pick(r, []string{"cyclic", "numeric", "alphabetic", "symbolic", "additive", "fixed", "fixed 3", "fixed -1"})
			ds = append(ds, Decl{N: "system", V: sys})
			if sys == "additive" {
				ds = append(ds, Decl{N: "additive-symbols", V: vlib.Pick(r, []string{"10 'X', 5 'V', 1 'I'", "5 'V', 2 'II'", "3 'c', 2 'b'", "4 'd', 0 'z'"})})
			} else {
				ds = append(ds, Decl{N: "symbols", V: vlib.Pick(r, []string{"'a' 'b' 'c'", "'0' '1'", "'x' 'y'", "'*' '+' '-' '/'", "a b", "'p' 'q' 'r' 's' 't'"})})
			}
		}
		if len(rest) > 0 || !extends && len(t) > 0 {
			fb := t[len(t)-1]
			ds = append(ds, Decl{N: "fallback", V: name(fb)})
			// a range / a fixed system that excludes most values, so that the fallback is followed
			if r.Chance(3, 4) {
				ds = append(ds, Decl{N: "range", V: vlib.Pick(r, []string{"1 1", "100 200", "-5 -1", "2 2", "infinite 0", "1000 infinite", "0 0"})})
			}
		} else if r.Chance(1, 5) {
			ds = append(ds, Decl{N: "fallback", V: name(r.Range(-1, gr.n-1))})
		}
		for _, d := range [][2]string{{"prefix", "'<'"}, {"suffix", "'> '"}, {"pad", "3 '0'"}, {"negative", "'(' ')'"}, {"range", "auto"}, {"speak-as", "auto"}} {
			if r.Chance(1, 7) {
				ds = append(ds, Decl{N: d[0], V: d[1]})
			}
		}
		p.rules = append(p.rules, Rule{Pre: "@counter-style " + names[i], Decls: ds})
	}
	// the document uses the entry (and sometimes another node)
	use := func() string {
		if r.Chance(1, 8) {
			return names[r.Intn(gr.n)]
		}
		return names[0]
	}
	nu := r.Range(1, 3)
	list := false
	for k := 0; k < nu; k++ {
		switch r.Intn(7) {
		case 0, 1:
			list = true
			p.rules = append(p.rules, Rule{Pre: vlib.Pick(r, []string{"li", "ol", "ul, ol", "ol li", "li:nth-child(2n+1)", "ol > li"}),
				Decls: []Decl{{N: vlib.Pick(r, []string{"list-style-type", "list-style-type", "list-style"}), V: use()}}})
		case 2:
			list = true
			p.rules = append(p.rules, Rule{Pre: "li::marker", Decls: []Decl{{N: "content", V: "counter(list-item, " + use() + ") ' '"}}})
		case 3:
			p.rules = append(p.rules, Rule{Pre: vlib.Pick(r, []string{"body", "html", "div"}), Decls: []Decl{{N: "counter-reset", V: "c " + vlib.Pick(r, []string{"0", "-3", "50", "4000", "1", "99"})}}},
				Rule{Pre: vlib.Pick(r, []string{"p::before", "div::before", "span::after", "p::after", "li::before", "body *::before"}),
					Decls: []Decl{{N: "counter-increment", V: "c " + vlib.Pick(r, []string{"1", "-1", "7", "100"})},
						{N: "content", V: vlib.Pick(r, []string{"counter(c, " + use() + ") ' '", "counters(c, '.', " + use() + ")", "counter(c, " + use() + ") counter(c, " + use() + ")"})}}})
		case 4:
			mb := Rule{Pre: vlib.Pick(r, marginBoxes[:16]), Decls: []Decl{{N: "content", V: vlib.Pick(r, []string{"counter(page, " + use() + ")", "counter(page, " + use() + ") '/' counter(pages, " + use() + ")", "counter(c, " + use() + ")"})}}}
			p.rules = append(p.rules, Rule{Pre: "@page", Rules: []Rule{mb}})
		case 5:
			p.rules = append(p.rules, Rule{Pre: vlib.Pick(r, []string{"p", "div", "span", "h2"}), Decls: []Decl{{N: "display", V: "list-item"}, {N: "list-style-type", V: use()},
				{N: "list-style-position", V: vlib.Pick(r, []string{"inside", "outside"})}}})
		default:
			p.rules = append(p.rules, Rule{Pre: "a::after", Decls: []Decl{{N: "content", V: vlib.Pick(r, []string{"target-counter(attr(href), c, " + use() + ")", "target-counter(attr(href), page, " + use() + ")", "target-counters(attr(href), c, '.', " + use() + ")"})}}})
			p.body = append(p.body, el("p", nil, el("a", [][2]string{{"href", "#" + g.id()}}, txt("see"))))
		}
	}
	// elements that render counters
	if list || r.Bool() {
		tag := vlib.Pick(r, []string{"ol", "ol", "ul"})
		var attrs [][2]string
		if r.Chance(1, 3) {
			attrs = append(attrs, [2]string{vlib.Pick(r, []string{"start", "reversed"}), vlib.Pick(r, []string{"-2", "0", "5", "300", "99"})})
		}
		l := el(tag, attrs)
		for k := r.Range(1, 5); k > 0; k-- {
			li := el("li", nil, txt(g.word()))
			if r.Chance(1, 5) {
				li.Attrs = [][2]string{{"value", vlib.Pick(r, []string{"-7", "0", "150", "3", "1000000"})}}
			}
			if r.Chance(1, 6) {
				li.Style = []Decl{{N: "list-style-type", V: use()}}
			}
			l.Kids = append(l.Kids, li)
		}
		p.body = append(p.body, l)
	}
	if !list || r.Chance(2, 3) { // elements matched by the other users (p / div / span / h2, ::before / ::after)
		p.body = append(p.body, el("div", nil, txt(g.word()+" "), el("span", nil, txt("x"))), el("p", nil, txt("y")), el("h2", nil, txt("z")))
	}
	return p
}

// ---------------------------------------------------------------- svg ids

type svgKind struct {
	tag      string
	refAttr  []string // attributes by which another element references this kind (empty: through <use>)
	children bool     // can hold shapes
}

var svgKinds = []svgKind{
	{"linearGradient", []string{"fill", "stroke"}, false},
	{"radialGradient", []string{"fill", "stroke"}, false},
	{"pattern", []string{"fill", "stroke"}, true},
	{"clipPath", []string{"clip-path"}, true},
	{"mask", []string{"mask"}, true},
	{"marker", []string{"marker-start", "marker-mid", "marker-end", "marker"}, true},
	{"filter", []string{"filter"}, false},
	{"symbol", nil, true},
	{"g", nil, true},
	{"svg", nil, true},
	{"rect", nil, false},
	{"path", nil, false},
	{"text", nil, true},
}

func isPaint(k svgKind) bool { return len(k.refAttr) == 2 }

func (g *gen) svgNum() string {
	if g.r.Chance(1, 25) {
		return vlib.Pick(g.r, []string{"0", "-5", "50%", "1e9", "x", "", "1e-9", "2em"})
	}
	return fmt.Sprint(g.r.Range(1, 60))
}

func (g *gen) svgShape(attrs [][2]string) *Node {
	r := g.r
	tag := vlib.Pick(r, []string{"rect", "path", "circle", "polyline", "line", "ellipse", "polygon", "path"})
	a := [][2]string{}
	switch tag {
	case "rect":
		a = append(a, [2]string{"x", g.svgNum()}, [2]string{"y", g.svgNum()}, [2]string{"width", g.svgNum()}, [2]string{"height", g.svgNum()})
	case "path":
		a = append(a, [2]string{"d", vlib.Pick(r, []string{"M0 0L10 10 20 0", "M 10,10 h 20 v 20 z", "M0 0 C 5 5 10 5 15 0", "M5 5 L 30 30 L 5 30 Z", "M0 0 A 10 10 0 0 1 20 20"})})
	case "circle":
		a = append(a, [2]string{"cx", g.svgNum()}, [2]string{"cy", g.svgNum()}, [2]string{"r", g.svgNum()})
	case "ellipse":
		a = append(a, [2]string{"cx", g.svgNum()}, [2]string{"cy", g.svgNum()}, [2]string{"rx", g.svgNum()}, [2]string{"ry", g.svgNum()})
	case "line":
		a = append(a, [2]string{"x1", g.svgNum()}, [2]string{"y1", g.svgNum()}, [2]string{"x2", g.svgNum()}, [2]string{"y2", g.svgNum()}, [2]string{"stroke", "black"})
	default:
		a = append(a, [2]string{"points", vlib.Pick(r, []string{"0,0 10,0 10,10", "5,5 40,5 40,40 5,40", "0,0 30,30"})})
	}
	return el(tag, append(a, attrs...))
}

// svgGraph builds one <svg> element whose definitions reference each other along a refGraph
func (g *gen) svgGraph(file bool) *Node {
	r := g.r
	gr := g.refGraph()
	ids := g.shuffled([]string{"t0", "t1", "t2", "t3", "t4", "t5"}, gr.n)
	kinds := make([]svgKind, gr.n)
	// per graph: template mode (gradients / patterns inheriting from each other through href),
	// paint mode (containers whose content is painted / clipped / masked / marked by the others), or mixed
	mode := r.Intn(3)
	for i := range kinds {
		switch mode {
		case 0:
			kinds[i] = svgKinds[r.Intn(3)]
		case 1:
			kinds[i] = svgKinds[r.Range(2, 9)]
		default:
			kinds[i] = vlib.Pick(r, svgKinds)
		}
	}
	id := func(j int) string {
		if j < 0 {
			return vlib.Pick(r, []string{"nowhere", "", "t9"})
		}
		return ids[j]
	}
	hrefName := func() string {
		if r.Chance(1, 4) {
			return "xlink:href"
		}
		return "href"
	}
	// a reference to node j as an attribute of a shape / container
	refAttr := func(j int) ([2]string, bool) {
		if j < 0 {
			return [2]string{vlib.Pick(r, []string{"fill", "stroke", "clip-path", "mask", "filter", "marker-start"}), "url(#" + id(j) + ")"}, true
		}
		k := kinds[j]
		if len(k.refAttr) == 0 {
			return [2]string{}, false
		}
		v := "url(#" + ids[j] + ")"
		if isPaint(k) && r.Chance(1, 5) {
			v += " red"
		}
		return [2]string{vlib.Pick(r, k.refAttr), v}, true
	}
	useEl := func(j int) *Node {
		a := [][2]string{{hrefName(), "#" + id(j)}}
		if r.Bool() {
			a = append(a, [2]string{"x", g.svgNum()}, [2]string{"y", g.svgNum()})
		}
		if r.Chance(1, 3) {
			a = append(a, [2]string{"width", g.svgNum()}, [2]string{"height", g.svgNum()})
		}
		return el("use", a)
	}
	// an element that references node j: a shape carrying the attribute, or a <use>
	refEl := func(j int) *Node {
		if a, ok := refAttr(j); ok && r.Chance(4, 5) {
			return g.svgShape([][2]string{a})
		}
		return useEl(j)
	}
	var defs []*Node
	for i := 0; i < gr.n; i++ {
		k := kinds[i]
		n := el(k.tag, [][2]string{{"id", ids[i]}})
		add := func(a, v string) { n.Attrs = append(n.Attrs, [2]string{a, v}) }
		switch k.tag {
		case "linearGradient":
			if r.Bool() {
				add("x1", "0")
				add("x2", vlib.Pick(r, []string{"1", "100%", "50", "0"}))
			}
		case "radialGradient":
			if r.Bool() {
				add("cx", "50%")
				add("r", vlib.Pick(r, []string{"50%", "0", "10", "1"}))
			}
		case "pattern":
			add("width", vlib.Pick(r, []string{"10", "0.25", "50%", "0"}))
			add("height", vlib.Pick(r, []string{"10", "0.25", "50%"}))
			if r.Bool() {
				add("patternUnits", vlib.Pick(r, []string{"userSpaceOnUse", "objectBoundingBox"}))
			}
		case "marker":
			add("markerWidth", g.svgNum())
			add("markerHeight", g.svgNum())
			if r.Bool() {
				add("orient", vlib.Pick(r, []string{"auto", "45", "auto-start-reverse"}))
			}
		case "mask", "svg", "symbol":
			if r.Bool() {
				add("width", g.svgNum())
				add("height", g.svgNum())
			}
			if k.tag != "mask" && r.Chance(1, 3) {
				add("viewBox", "0 0 50 50")
			}
		case "rect":
			add("width", g.svgNum())
			add("height", g.svgNum())
		case "path":
			add("d", "M0 0 L 30 10 L 10 30")
		case "text":
			add("x", "5")
			add("y", "15")
			n.Kids = append(n.Kids, txt(g.word()))
		case "filter":
			n.Kids = append(n.Kids, el("feOffset", [][2]string{{"dx", g.svgNum()}, {"dy", g.svgNum()}}))
		}
		if strings.HasSuffix(k.tag, "Gradient") {
			for s := r.Range(0, 3); s > 0; s-- {
				n.Kids = append(n.Kids, el("stop", [][2]string{{"offset", vlib.Pick(r, []string{"0", "0.5", "1", "50%"})}, {"stop-color", vlib.Pick(r, []string{"red", "lime", "#00f"})}}))
			}
		}
		for _, j := range gr.out[i] {
			tmpl := isPaint(k) && (mode == 0 || r.Chance(1, 2)) || !k.children && k.tag != "rect" && k.tag != "path"
			switch {
			case tmpl: // template inheritance (any element with an id can be named)
				add(hrefName(), "#"+id(j))
			case k.children && r.Chance(3, 4):
				if k.tag == "text" {
					if a, ok := refAttr(j); ok && r.Bool() {
						n.Kids = append(n.Kids, el("tspan", [][2]string{a}, txt("s")))
					} else {
						n.Kids = append(n.Kids, el(vlib.Pick(r, []string{"textPath", "tref", "textPath"}), [][2]string{{hrefName(), "#" + id(j)}}, txt("on a path")))
					}
				} else {
					n.Kids = append(n.Kids, refEl(j))
				}
			default: // on the element itself
				if a, ok := refAttr(j); ok {
					add(a[0], a[1])
				} else if !k.children {
					// a leaf that must name an element drawn through <use>: it becomes the <use>
					n.Tag = "use"
					add(hrefName(), "#"+id(j))
				} else {
					n.Kids = append(n.Kids, useEl(j))
				}
			}
		}
		if k.children && k.tag != "text" && (len(n.Kids) == 0 || r.Chance(1, 3)) {
			n.Kids = append(n.Kids, g.svgShape(nil))
		}
		defs = append(defs, n)
	}
	for i := len(defs) - 1; i > 0; i-- { // document order: references forwards and backwards
		j := r.Intn(i + 1)
		defs[i], defs[j] = defs[j], defs[i]
	}
	svg := el("svg", [][2]string{{"width", vlib.Pick(r, []string{"100", "60", "200", "100%"})}, {"height", vlib.Pick(r, []string{"100", "60", "40"})}})
	if file {
		svg.Attrs = append(svg.Attrs, [2]string{"xmlns", "http://www.w3.org/2000/svg"}, [2]string{"xmlns:xlink", "http://www.w3.org/1999/xlink"})
	}
	if r.Chance(1, 3) {
		svg.Attrs = append(svg.Attrs, [2]string{"viewBox", "0 0 100 100"})
	}
	// the entry is used by something that is drawn
	var users []*Node
	for k := r.Range(1, 2); k > 0; k-- {
		j := 0
		if r.Chance(1, 5) {
			j = r.Intn(gr.n)
		}
		if a, ok := refAttr(j); ok {
			sh := g.svgShape([][2]string{a})
			if strings.HasPrefix(a[0], "marker") { // markers are drawn on vertices
				switch r.Intn(3) {
				case 0:
					sh = el("path", [][2]string{{"d", "M5 5 L 40 5 L 40 40"}, {"stroke", "black"}, {"fill", "none"}, a})
				case 1:
					sh = el("polyline", [][2]string{{"points", "5,5 40,5 40,40 5,40"}, {"stroke", "black"}, a})
				default:
					sh = el("line", [][2]string{{"x1", "5"}, {"y1", "5"}, {"x2", "30"}, {"y2", "30"}, {"stroke", "black"}, a})
				}
			}
			users = append(users, sh)
		} else {
			users = append(users, useEl(j))
		}
	}
	switch r.Intn(3) {
	case 0:
		svg.Kids = append([]*Node{el("defs", nil, defs...)}, users...)
	case 1:
		svg.Kids = append(users, el("defs", nil, defs...))
	default:
		svg.Kids = append(append([]*Node{}, defs...), users...)
	}
	if r.Chance(1, 8) {
		svg.Kids = append(svg.Kids, g.svgKids(3)...)
	}
	if r.Chance(1, 8) {
		sh := Sheet{Rules: []Rule{{Pre: vlib.Pick(r, []string{"rect", "path", "*", "#" + ids[0]}), Decls: []Decl{{N: vlib.Pick(r, []string{"fill", "stroke", "clip-path", "mask"}), V: "url(#" + ids[r.Intn(gr.n)] + ")"}}}}}
		svg.Kids = append([]*Node{{K: "style", Sheet: &sh}}, svg.Kids...)
	}
	return svg
}

// imageUse: an element / a rule that displays the image file `name`
func (g *gen) imageUse(name string) refPiece {
	r := g.r
	var p refPiece
	switch r.Intn(7) {
	case 0, 1:
		p.body = append(p.body, el("img", [][2]string{{"src", name}}))
	case 2:
		if r.Bool() {
			p.body = append(p.body, el("object", [][2]string{{"data", name}}))
		} else {
			p.body = append(p.body, el("embed", [][2]string{{"src", name}}))
		}
	case 3:
		p.body = append(p.body, el("div", nil, txt("bg")))
		p.body[0].Style = []Decl{{N: "background", V: "url(" + name + ") " + vlib.Pick(r, []string{"", "no-repeat", "0 0 / 20px 20px", "center / contain"})}, {N: "height", V: "50px"}}
	case 4:
		p.rules = append(p.rules, Rule{Pre: "li", Decls: []Decl{{N: "list-style-image", V: "url(" + name + ")"}}})
		p.body = append(p.body, el("ul", nil, el("li", nil, txt("item")), el("li", nil, txt("item"))))
	case 5:
		p.rules = append(p.rules, Rule{Pre: vlib.Pick(r, []string{"p::before", "h2::after", "p"}), Decls: []Decl{{N: "content", V: "url(" + name + ")"}}})
		p.body = append(p.body, el("p", nil, txt("text")), el("h2", nil, txt("title")))
	default:
		p.rules = append(p.rules, Rule{Pre: "div", Decls: []Decl{{N: "border-image", V: "url(" + name + ") 10 / 10px"}, {N: "border", V: "10px solid"}}})
		p.body = append(p.body, el("div", nil, txt("framed")))
	}
	return p
}

func (g *gen) svgIDGraph() refPiece {
	r := g.r
	if r.Chance(3, 5) {
		return refPiece{body: []*Node{g.svgGraph(false)}}
	}
	name := fmt.Sprintf("g%d.svg", r.Intn(3))
	p := g.imageUse(name)
	p.files = append(p.files, DocFile{Name: name, Node: g.svgGraph(true)})
	return p
}

// ---------------------------------------------------------------- files: @import chains

func (g *gen) importGraph() refPiece {
	r := g.r
	gr := g.refGraph()
	names := g.shuffled([]string{"i0.css", "i1.css", "i2.css", "i3.css", "i4.css"}, gr.n)
	name := func(j int) string {
		if j < 0 {
			return vlib.Pick(r, []string{"missing.css", "", "pattern.png", "loop.css", "sheet2.css"})
		}
		return names[j]
	}
	imp := func(j int) Rule {
		pre := vlib.Pick(r, []string{"@import url(%s)", "@import '%s'", "@import url('%s')", "@import url(%s) print", "@import url(%s) all"})
		if r.Chance(1, 20) {
			pre = "@import url(%s) screen"
		}
		return Rule{NoBlk: true, Pre: fmt.Sprintf(pre, name(j))}
	}
	var p refPiece
	for i := 0; i < gr.n; i++ {
		var s Sheet
		for _, j := range gr.out[i] {
			s.Rules = append(s.Rules, imp(j))
		}
		for k := r.Range(0, 2); k > 0; k-- {
			s.Rules = append(s.Rules, g.rule(1))
		}
		if r.Chance(1, 6) { // an import after a rule is ignored
			s.Rules = append(s.Rules, imp(r.Range(-1, gr.n-1)))
		}
		if r.Chance(1, 5) { // another graph lives in the imported sheet
			q := g.counterStyleGraph()
			s.Rules = append(s.Rules, q.rules...)
			p.body = append(p.body, q.body...)
		}
		p.files = append(p.files, DocFile{Name: names[i], Sheet: &s})
	}
	switch r.Intn(3) {
	case 0:
		a := [][2]string{{"rel", "stylesheet"}, {"href", names[0]}}
		if r.Chance(1, 5) {
			a = append(a, [2]string{"media", "print"})
		}
		p.head = append(p.head, el("link", a))
	default:
		p.imps = append(p.imps, imp(0))
	}
	if r.Chance(1, 4) {
		p.imps = append(p.imps, imp(r.Intn(gr.n)))
	}
	p.body = append(p.body, el("p", nil, txt(g.text())))
	return p
}

// ---------------------------------------------------------------- files: svg images in svg images

func (g *gen) svgFileGraph() refPiece {
	r := g.r
	gr := g.refGraph()
	names := g.shuffled([]string{"v0.svg", "v1.svg", "v2.svg", "v3.svg", "v4.svg"}, gr.n)
	name := func(j int) string {
		if j < 0 {
			return vlib.Pick(r, []string{"missing.svg", "", "pattern.png", "garbage.svg", "pattern.svg", "#r"})
		}
		return names[j]
	}
	var p refPiece
	for i := 0; i < gr.n; i++ {
		svg := el("svg", [][2]string{{"xmlns", "http://www.w3.org/2000/svg"}, {"xmlns:xlink", "http://www.w3.org/1999/xlink"}, {"width", g.svgNum()}, {"height", g.svgNum()}})
		svg.Kids = append(svg.Kids, el("rect", [][2]string{{"id", "r"}, {"width", "10"}, {"height", "10"}, {"fill", vlib.Pick(r, []string{"red", "lime", "blue"})}}))
		for _, j := range gr.out[i] {
			switch r.Intn(5) {
			case 0, 1, 2:
				svg.Kids = append(svg.Kids, el("image", [][2]string{{vlib.Pick(r, []string{"href", "xlink:href"}), name(j)}, {"width", g.svgNum()}, {"height", g.svgNum()}}))
			case 3:
				svg.Kids = append(svg.Kids, el("use", [][2]string{{"href", name(j) + "#r"}}))
			default:
				svg.Kids = append(svg.Kids, el("use", [][2]string{{"href", name(j)}, {"width", "10"}, {"height", "10"}}))
			}
		}
		if r.Chance(1, 6) {
			sh := Sheet{Rules: []Rule{{NoBlk: true, Pre: "@import url(" + vlib.Pick(r, []string{"i0.css", "missing.css", "loop.css"}) + ")"}, {Pre: "rect", Decls: []Decl{{N: "fill", V: "blue"}}}}}
			svg.Kids = append([]*Node{{K: "style", Sheet: &sh}}, svg.Kids...)
		}
		p.files = append(p.files, DocFile{Name: names[i], Node: svg})
	}
	p.merge(g.imageUse(names[0]))
	if r.Chance(1, 4) {
		// used from an inline svg as well
		p.body = append(p.body, el("svg", [][2]string{{"width", "50"}, {"height", "50"}}, el("image", [][2]string{{"href", names[r.Intn(gr.n)]}, {"width", "20"}, {"height", "20"}})))
	}
	return p
}

// ---------------------------------------------------------------- targets: ids, links, target-*()

func (g *gen) targetGraph() refPiece {
	r := g.r
	gr := g.refGraph()
	ids := g.shuffled([]string{"t0", "t1", "t2", "t3", "t4", "t5"}, gr.n)
	frag := func(j int) string {
		if j < 0 {
			return vlib.Pick(r, []string{"#nowhere", "#", "", "missing.html#t1"})
		}
		return "#" + ids[j]
	}
	which := func() string { return vlib.Pick(r, []string{"", ", content", ", before", ", after", ", first-letter"}) }
	var p refPiece
	for i := 0; i < gr.n; i++ {
		n := el(vlib.Pick(r, []string{"p", "div", "h2", "section", "span", "li"}), [][2]string{{"id", ids[i]}}, txt(g.word()+" "))
		if r.Chance(1, 6) {
			n.Attrs = append(n.Attrs, [2]string{"title", "a title"})
		}
		for _, j := range gr.out[i] {
			n.Kids = append(n.Kids, el("a", [][2]string{{"href", frag(j)}}, txt("link")), txt(" "))
			if r.Chance(1, 2) { // the same edge in the style sheet, by literal id
				lnk := "'" + frag(j) + "'"
				if r.Chance(1, 4) {
					lnk = "url(" + frag(j) + ")"
				}
				v := vlib.Pick(r, []string{"target-text(" + lnk + which() + ")", "target-counter(" + lnk + ", page)", "target-counter(" + lnk + ", c)", "target-counters(" + lnk + ", c, '.')", "target-text(" + lnk + ", before) target-text(" + lnk + ", after)"})
				p.rules = append(p.rules, Rule{Pre: "#" + ids[i] + vlib.Pick(r, []string{"::before", "::after", "::before", "", "::marker"}), Decls: []Decl{{N: "content", V: v}}})
			}
		}
		if r.Chance(1, 3) {
			n.Style = []Decl{{N: vlib.Pick(r, []string{"break-before", "break-after"}), V: vlib.Pick(r, []string{"page", "left", "right"})}}
		}
		p.body = append(p.body, n)
	}
	for k := r.Range(1, 3); k > 0; k-- {
		switch r.Intn(6) {
		case 0, 1:
			p.rules = append(p.rules, Rule{Pre: vlib.Pick(r, []string{"a::after", "a::before", "a"}), Decls: []Decl{{N: "content", V: vlib.Pick(r, []string{"target-counter(attr(href), page)", "target-text(attr(href)" + which() + ")", "target-counters(attr(href), c, '.')",
				"' p.' target-counter(attr(href), page) ' of ' counter(pages)", "target-counter(attr(href), c, lower-roman)", "target-text(attr(href), before) target-text(attr(href), after)"})}}})
		case 2:
			p.rules = append(p.rules, Rule{Pre: vlib.Pick(r, []string{"[id]", "p", "h2", "a"}), Decls: []Decl{{N: "string-set", V: vlib.Pick(r, []string{"s target-text(attr(href))", "s target-counter(attr(href), page)", "s content() target-text('" + frag(r.Range(-1, gr.n-1)) + "')"})}}},
				Rule{Pre: "@page", Rules: []Rule{{Pre: "@top-center", Decls: []Decl{{N: "content", V: "string(s)"}}}}})
		case 3:
			p.rules = append(p.rules, Rule{Pre: vlib.Pick(r, []string{"[id]", "a", "h2"}), Decls: []Decl{{N: "bookmark-label", V: vlib.Pick(r, []string{"target-text(attr(href))", "target-text('" + frag(r.Range(-1, gr.n-1)) + "')", "content() target-counter(attr(href), page)"})}, {N: "bookmark-level", V: "1"}}})
		case 4:
			p.rules = append(p.rules, Rule{Pre: "[id]", Decls: []Decl{{N: "counter-increment", V: "c"}, {N: "anchor", V: "attr(id)"}}}, Rule{Pre: "a", Decls: []Decl{{N: "link", V: "attr(href)"}}})
		default:
			p.rules = append(p.rules, Rule{Pre: "[id]::before", Decls: []Decl{{N: "content", V: "counter(c) ' '"}, {N: "counter-increment", V: "c"}}})
		}
	}
	return p
}

// ---------------------------------------------------------------- names: strings, running elements, pages

func (g *gen) nameGraph() refPiece {
	r := g.r
	gr := g.refGraph()
	var p refPiece
	str := func(j int) string {
		if j < 0 {
			return "undefined"
		}
		return fmt.Sprintf("s%d", j)
	}
	run := func(j int) string {
		if j < 0 {
			return "undefined"
		}
		return fmt.Sprintf("r%d", j)
	}
	pg := func(j int) string {
		if j < 0 {
			return "undefined-page"
		}
		return fmt.Sprintf("p%d", j+1)
	}
	els := make([]*Node, gr.n)
	for i := range els {
		els[i] = el(vlib.Pick(r, []string{"div", "section", "p", "article"}), [][2]string{{"class", fmt.Sprintf("k%d", i)}}, el(vlib.Pick(r, []string{"h3", "span", "b"}), [][2]string{{"class", "run"}}, txt(fmt.Sprintf("running %d", i))), txt(g.text()))
	}
	nested := make([]bool, gr.n)
	for i := 0; i < gr.n; i++ {
		var setParts, boxParts []string
		for _, j := range gr.out[i] {
			if j > i && !nested[j] && r.Chance(2, 3) { // the element of the target is nested in this one
				nested[j] = true
				els[i].Kids = append(els[i].Kids, els[j])
			}
			setParts = append(setParts, vlib.Pick(r, []string{"string(" + str(j) + ")", "string(" + str(j) + ", last)", "string(" + str(j) + ", first-except)"}))
			boxParts = append(boxParts, vlib.Pick(r, []string{"string(" + str(j) + vlib.Pick(r, []string{"", ", first", ", last", ", start", ", first-except"}) + ")", "element(" + run(j) + vlib.Pick(r, []string{"", ", first", ", last", ", start", ", first-except"}) + ")"}))
		}
		set := str(i) + " " + vlib.Pick(r, []string{"content()", "content(text)", "'x' counter(page)", "attr(class)", "content(before)"})
		if len(setParts) > 0 && r.Bool() {
			set = str(i) + " " + strings.Join(setParts, " ") + vlib.Pick(r, []string{"", " content()"})
		}
		ds := []Decl{{N: "string-set", V: set}}
		if r.Chance(2, 3) {
			ds = append(ds, Decl{N: "page", V: pg(i)})
		}
		if r.Chance(1, 4) {
			ds = append(ds, Decl{N: "break-before", V: vlib.Pick(r, []string{"page", "left", "right", "recto"})})
		}
		p.rules = append(p.rules, Rule{Pre: fmt.Sprintf(".k%d", i), Decls: ds})
		if r.Chance(2, 3) {
			p.rules = append(p.rules, Rule{Pre: fmt.Sprintf(".k%d > .run", i), Decls: []Decl{{N: "position", V: "running(" + run(i) + ")"}}})
		}
		page := Rule{Pre: "@page " + pg(i) + vlib.Pick(r, []string{"", "", ":first", ":left", ":blank"})}
		if r.Bool() {
			page.Decls = append(page.Decls, Decl{N: "size", V: vlib.Pick(r, []string{"200px 150px", "A6", "300px 200px", "A5 landscape"})})
		}
		if len(boxParts) == 0 {
			boxParts = append(boxParts, "string("+str(i)+")")
		}
		for _, bp := range boxParts {
			page.Rules = append(page.Rules, Rule{Pre: vlib.Pick(r, marginBoxes[:16]), Decls: []Decl{{N: "content", V: bp}}})
		}
		p.rules = append(p.rules, page)
	}
	for i := 0; i < gr.n; i++ {
		if !nested[i] {
			p.body = append(p.body, els[i])
		}
	}
	if r.Chance(1, 3) {
		p.rules = append(p.rules, Rule{Pre: "@page", Rules: []Rule{{Pre: "@bottom-center", Decls: []Decl{{N: "content", V: "string(" + str(0) + ") element(" + run(0) + ") counter(page)"}}}}})
	}
	return p
}

// ---------------------------------------------------------------- putting it together

func (g *gen) refMechanism() refPiece {
	switch k := g.r.Intn(20); {
	case k < 6:
		return g.counterStyleGraph()
	case k < 11:
		return g.svgIDGraph()
	case k < 13:
		return g.importGraph()
	case k < 15:
		return g.svgFileGraph()
	case k < 17:
		return g.targetGraph()
	case k < 19:
		return g.nameGraph()
	}
	rs := g.varGraphRules()
	return refPiece{rules: rs, body: []*Node{el("p", nil, txt(g.text())), el("div", nil, el("span", nil, txt("x")))}}
}

// refPieces: the reference graphs a themed document is built around
func (g *gen) refPieces() refPiece {
	p := g.refMechanism()
	if g.r.Chance(1, 2) { // two graphs (of the same or of different mechanisms) in one document
		p.merge(g.refMechanism())
	}
	return p
}

// insertNodes places the nodes of a piece among the children of the body (at top
// level or inside a wrapper that changes the formatting context)
func (g *gen) insertNodes(kids []*Node, ns []*Node) []*Node {
	r := g.r
	for _, n := range ns {
		if r.Chance(1, 6) {
			w := el(vlib.Pick(r, []string{"div", "section", "blockquote", "td", "li"}), nil, n)
			if r.Bool() {
				w.Style = []Decl{{N: vlib.Pick(r, []string{"columns", "display", "float", "position", "display"}), V: ""}}
				w.Style[0].V = propByName[w.Style[0].N].gen(g)
			}
			n = w
		}
		at := r.Intn(len(kids) + 1)
		kids = append(kids[:at:at], append([]*Node{n}, kids[at:]...)...)
	}
	return kids
}
