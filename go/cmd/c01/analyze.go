package main

// Structural analysis of a failing document on /repo's own computed styles
// (no box building, no layout): nesting depths of the constructs whose layout
// cost multiplies with nesting.  Used for the trigger tags of hangs.

import (
	"strings"

	pr "github.com/benoitkugler/webrender/css/properties"
	"github.com/benoitkugler/webrender/html/tree"
	"github.com/benoitkugler/webrender/text"
	"github.com/benoitkugler/webrender/text/hyphen"
	"github.com/benoitkugler/webrender/utils"
	"golang.org/x/net/html"
)

type textCtx struct {
	fc     text.FontConfiguration
	hyph   map[text.HyphenDictKey]hyphen.Hyphener
	struts map[text.StrutLayoutKey][2]pr.Float
}

func (t *textCtx) Fonts() text.FontConfiguration                       { return t.fc }
func (t *textCtx) HyphenCache() map[text.HyphenDictKey]hyphen.Hyphener { return t.hyph }
func (t *textCtx) StrutLayoutsCache() map[text.StrutLayoutKey][2]pr.Float {
	return t.struts
}

type Analysis struct {
	Multicol int `json:"multicol"` // max nesting depth of multi-column containers
	Flex     int `json:"flex"`
	Grid     int `json:"grid"`
	Table    int `json:"table"`
	Shrink   int `json:"shrink"`   // inline-block / float / abspos / table-cell (shrink-to-fit) nesting
	Footnote int `json:"footnote"` // float: footnote elements nested in float: footnote elements
	Depth    int `json:"depth"`
	MaxText  int `json:"max_text"` // longest text node (runes)
	Elements int `json:"elements"`
}

func analyzeDoc(d *Doc) (a Analysis) {
	defer func() { recover() }()
	doc, err := tree.NewHTML(utils.InputString(d.HTML()), "http://verif.test/", fetcher, "")
	if err != nil {
		return
	}
	if d.TestUA {
		doc.UAStyleSheet = tree.TestUAStylesheet
	}
	var sheets []tree.CSS
	for _, s := range d.UserCSS() {
		if c, err := tree.NewCSSDefault(utils.InputString(s)); err == nil {
			sheets = append(sheets, c)
		}
	}
	fc := fonts(d.Engine)
	var pageRules []tree.PageRule
	tc := tree.NewTargetCollector()
	ctx := &textCtx{fc: fc, hyph: map[text.HyphenDictKey]hyphen.Hyphener{}, struts: map[text.StrutLayoutKey][2]pr.Float{}}
	sf := tree.GetAllComputedStyles(doc, sheets, d.Hints, fc, nil, &pageRules, &tc, false, ctx)
	type depths struct{ mc, fl, gr, tb, sh, fn, d int }
	var walk func(n *html.Node, cur depths)
	walk = func(n *html.Node, cur depths) {
		switch n.Type {
		case html.TextNode:
			if l := len([]rune(n.Data)); l > a.MaxText {
				a.MaxText = l
			}
			return
		case html.ElementNode:
		default:
			return
		}
		a.Elements++
		st := sf.Get((*utils.HTMLNode)(n), "")
		if st == nil {
			return
		}
		dv := st.GetDisplay()
		disp := strings.TrimSpace(strings.Join(dv[:], " "))
		if disp == "none" {
			return
		}
		cur.d++
		if st.GetColumnCount().String != "auto" || st.GetColumnWidth().S != "auto" {
			cur.mc++
		}
		switch {
		case strings.Contains(disp, "flex"):
			cur.fl++
		case strings.Contains(disp, "grid"):
			cur.gr++
		case disp == "table" || disp == "inline-table" || disp == "block table" || disp == "inline table":
			cur.tb++
		}
		pos := st.GetPosition().String
		if strings.Contains(disp, "inline-block") || strings.Contains(disp, "flow-root") && strings.Contains(disp, "inline") || st.GetFloat() != "none" || pos == "absolute" || pos == "fixed" || disp == "table-cell" {
			cur.sh++
		}
		if st.GetFloat() == "footnote" {
			cur.fn++
		}
		for _, p := range []struct {
			v   int
			dst *int
		}{{cur.fn, &a.Footnote}, {cur.mc, &a.Multicol}, {cur.fl, &a.Flex}, {cur.gr, &a.Grid}, {cur.tb, &a.Table}, {cur.sh, &a.Shrink}, {cur.d, &a.Depth}} {
			if p.v > *p.dst {
				*p.dst = p.v
			}
		}
		for c := n.FirstChild; c != nil; c = c.NextSibling {
			walk(c, cur)
		}
	}
	walk((*html.Node)(doc.Root), depths{})
	return a
}

func bucket(n int) string {
	switch {
	case n >= 8:
		return ">=8"
	case n >= 4:
		return ">=4"
	case n >= 2:
		return ">=2"
	}
	return ""
}

// Tags of an analysis, cumulative (">=4" implies ">=2") so that matchers can use tags_all
func (a Analysis) Tags() []string {
	var out []string
	add := func(name string, n int) {
		for _, th := range []int{2, 3, 4, 6, 8, 12} {
			if n >= th {
				out = append(out, "nest:"+name+">="+itoa(th))
			}
		}
	}
	if a.Multicol >= 1 {
		out = append(out, "nest:multicol>=1")
	}
	add("multicol", a.Multicol)
	add("flex", a.Flex)
	add("grid", a.Grid)
	add("table", a.Table)
	add("shrink-to-fit", a.Shrink)
	if a.Footnote >= 2 {
		out = append(out, "nest:footnote>=2") // a footnote inside a footnote
	}
	for _, th := range []int{100, 300, 1000} {
		if a.MaxText >= th {
			out = append(out, "text-run>="+itoa(th))
		}
	}
	return out
}

func itoa(i int) string {
	if i == 0 {
		return "0"
	}
	s := ""
	for i > 0 {
		s = string(rune('0'+i%10)) + s
		i /= 10
	}
	return s
}
