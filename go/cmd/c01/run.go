package main

// Worker side: render one document with /repo's pipeline
// (tree.NewHTML -> document.Render -> Write on the recording backend) and
// report the outcome.  Panics are recovered (site = first /repo frame); a hang
// is detected by an in-process timer that dumps the goroutine stacks so the
// looping function can be named; process-fatal errors (stack exhaustion, out of
// memory) are observed by the parent as a dead worker.

import (
	"bytes"
	"encoding/json"
	"fmt"
	"os"
	"path/filepath"
	"runtime"
	"runtime/debug"
	"sort"
	"strings"
	"sync"
	"sync/atomic"
	"syscall"
	"time"

	"verifharness/vlib/render"

	"github.com/benoitkugler/webrender/html/document"
	"github.com/benoitkugler/webrender/html/layout"
	"github.com/benoitkugler/webrender/html/tree"
	"github.com/benoitkugler/webrender/logger"
	"github.com/benoitkugler/webrender/text"
	"github.com/benoitkugler/webrender/utils"
	"golang.org/x/net/html"
)

type TopNode struct {
	Kind string `json:"kind"` // doctype | comment | elem | text | other
	Data string `json:"data,omitempty"`
}

type Outcome struct {
	Status string   `json:"status"` // ok | panic | hang | fatal (fatal is set by the parent)
	Site   string   `json:"site,omitempty"`
	Msg    string   `json:"msg,omitempty"`
	Frames []string `json:"frames,omitempty"` // first /repo frames (file:line func)
	Pages  int      `json:"pages"`
	Rounds int      `json:"rounds"` // re-pagination rounds (layout.go loop iterations)
	Events int      `json:"events"`
	Err    string   `json:"err,omitempty"` // NewHTML / user CSS returned an error (a normal return)
	// root discovery observables (tree.go 53-64)
	Top      []TopNode  `json:"top,omitempty"` // children of the parsed document node
	RootIdx  int        `json:"root_idx"`      // index of HTML.Root among them (-1: nil root)
	RootKind string     `json:"root_kind,omitempty"`
	Exit     bool       `json:"exit,omitempty"` // worker must be restarted (abandoned goroutine)
	Analysis *Analysis  `json:"analysis,omitempty"`
	Ms       int        `json:"ms"`
	OnStack  []string   `json:"on_stack,omitempty"` // hang: classes of the /repo functions on the stack of the rendering goroutine
	Trace    *PageTrace `json:"trace,omitempty"`    // first pagination round, page by page (trace calls only)
}

// PageTrace is the first pagination round of a document recorded page by page
// through /repo's hook layout.VerifPageTrace (one remakePage call per step).
type PageTrace struct {
	Steps     []layout.VerifPageStep `json:"steps"`
	Footnotes int                    `json:"footnotes"`
	RootLTR   bool                   `json:"root_ltr"`
	Truncated bool                   `json:"truncated"`
}

// brkCode: 0 any, 1 left, 2 right; recto / verso resolved with the root direction
// like pages.go 915-926
func (t *PageTrace) brkCode(b string) int {
	switch b {
	case "left":
		return 1
	case "right":
		return 2
	case "recto":
		if t.RootLTR {
			return 2
		}
		return 1
	case "verso":
		if t.RootLTR {
			return 1
		}
		return 2
	}
	return 0
}

// Coq renders the trace as a Check.C01.case (CPages); resume points are
// numbered in order of first appearance (0 = nil).
func (t *PageTrace) Coq() string {
	ids := map[string]int{"": 0}
	id := func(s string) int {
		if k, ok := ids[s]; ok {
			return k
		}
		ids[s] = len(ids)
		return ids[s]
	}
	steps := make([]string, len(t.Steps))
	for i, s := range t.Steps {
		rin := id(s.ResumeIn)
		rout := id(s.ResumeOut)
		steps[i] = fmt.Sprintf("PStep %v %v %d %d %d %d %d %d %d %d %d", s.Blank, s.Right, t.brkCode(s.BreakIn), rin, rout,
			t.brkCode(s.BreakOut), s.FnIn, s.FnOut, s.Broken, s.UnplacedIn, s.UnplacedOut)
	}
	return fmt.Sprintf("CPages [%s] %d %v", strings.Join(steps, "; "), t.Footnotes, t.Truncated)
}

// Verdict is the harness-side reading of a trace, used for trigger tags only (the
// authoritative check is Check.C01.replay): "stuck-footnote" a blank page that
// received reported footnotes placed none (the footnotes not placed yet did not decrease), "stuck-resume" a page with content
// returned a resume point seen before, else "progress".
func (t *PageTrace) Verdict() string {
	seen := map[string]bool{}
	for _, s := range t.Steps {
		if s.Blank && (s.FnIn == 0 && s.FnOut > 0 || s.FnIn > 0 && s.UnplacedOut >= s.UnplacedIn) {
			return "stuck-footnote"
		}
		if !s.Blank && s.ResumeOut != "" {
			if seen[s.ResumeOut] {
				return "stuck-resume"
			}
			seen[s.ResumeOut] = true
		}
	}
	return "progress"
}

// countWriter counts "Repagination" lines of the progress logger
type countWriter struct{ rounds, pages int32 }

func (c *countWriter) Write(p []byte) (int, error) {
	if progressEcho {
		os.Stderr.Write(p) // triage aid (VERIF_PROGRESS=1 on a worker run by hand)
	}
	if bytes.Contains(p, []byte("Repagination #")) {
		atomic.AddInt32(&c.rounds, 1)
	} else if bytes.Contains(p, []byte("Creating layout - Page")) {
		atomic.AddInt32(&c.pages, 1)
	}
	return len(p), nil
}

var progressEcho = os.Getenv("VERIF_PROGRESS") == "1"

var (
	resOnce sync.Once
	resMap  map[string][]byte
)

func resources() map[string][]byte {
	resOnce.Do(func() {
		resMap = map[string][]byte{}
		for _, n := range []string{"pattern.png", "pattern.svg", "pattern.gif", "blue.jpg", "icon.png", "really-a-png.svg", "really-a-svg.png", "sheet2.css", "user.css"} {
			b, err := os.ReadFile(filepath.Join(render.FontDir, n))
			if err == nil {
				resMap[n] = b
			}
		}
		resMap["empty.png"] = []byte{}
		resMap["garbage.png"] = []byte("\x89PNG\r\n\x1a\n\x00\x00\x00\rIHDR\x00\x00\xff\xff")
		resMap["garbage.svg"] = []byte("<svg xmlns='http://www.w3.org/2000/svg'><g><rect width='a' height=</g>")
		resMap["zero.svg"] = []byte("<svg xmlns='http://www.w3.org/2000/svg' width='0' height='0' viewBox='0 0 0 0'><rect width='10' height='10'/></svg>")
		resMap["loop.css"] = []byte("@import url(loop.css); p { color: red }")
	})
	return resMap
}

// offline fetcher: data: URIs through /repo's decoder, a few in-memory files,
// everything else is a missing file.
func fetcher(u string) (utils.RemoteRessource, error) {
	if strings.HasPrefix(strings.ToLower(u), "data:") {
		return utils.DefaultUrlFetcher(u)
	}
	name := u
	if i := strings.LastIndex(name, "/"); i >= 0 {
		name = name[i+1:]
	}
	if i := strings.IndexAny(name, "?#"); i >= 0 {
		name = name[:i]
	}
	if b, ok := docFiles[name]; ok { // files of the document under test
		mime := ""
		switch {
		case strings.HasSuffix(name, ".svg"):
			mime = "image/svg+xml"
		case strings.HasSuffix(name, ".css"):
			mime = "text/css"
		}
		return utils.RemoteRessource{Content: bytes.NewReader(b), RedirectedUrl: u, Filename: name, MimeType: mime}, nil
	}
	if b, ok := resources()[name]; ok {
		return utils.RemoteRessource{Content: bytes.NewReader(b), RedirectedUrl: u, Filename: name}, nil
	}
	return utils.RemoteRessource{}, os.ErrNotExist
}

// docFiles: the files of the document being rendered (one document per worker call)
var docFiles map[string][]byte

func setDocFiles(d *Doc) {
	docFiles = map[string][]byte{}
	for _, f := range d.Files {
		docFiles[f.Name] = []byte(f.Content())
	}
}

var fontCache = map[string]text.FontConfiguration{}

func fonts(engine string) text.FontConfiguration {
	// a fresh configuration per document would cost ~50 ms (font scan); @font-face
	// rules mutate it, so it is rebuilt whenever the previous document had one.
	if fc, ok := fontCache[engine]; ok {
		return fc
	}
	fc := render.NewFonts(engine)
	fontCache[engine] = fc
	return fc
}

func repoFrames(stack string, afterPanic bool, max int) []string {
	lines := strings.Split(stack, "\n")
	seen := !afterPanic
	var out []string
	for i, l := range lines {
		t := strings.TrimSpace(l)
		if strings.HasPrefix(t, "panic(") {
			seen = true
			out = out[:0]
			continue
		}
		if !seen {
			continue
		}
		if k := strings.Index(t, "/repo/"); k >= 0 && strings.HasPrefix(t, "/") && strings.Contains(t, ".go:") {
			t = t[k:]
			if j := strings.Index(t, " "); j > 0 {
				t = t[:j]
			}
			fn := ""
			if i > 0 {
				fn = strings.TrimSpace(lines[i-1])
				if j := strings.LastIndex(fn, "("); j > 0 {
					fn = fn[:j]
				}
				fn = strings.TrimPrefix(fn, "github.com/benoitkugler/webrender/")
			}
			out = append(out, strings.TrimPrefix(t, "/repo/")+" "+fn)
			if len(out) >= max {
				break
			}
		}
	}
	return out
}

func topNodes(src string) []TopNode {
	root, err := html.ParseWithOptions(strings.NewReader(src), html.ParseOptionEnableScripting(false))
	if err != nil || root == nil {
		return nil
	}
	var out []TopNode
	for c := root.FirstChild; c != nil; c = c.NextSibling {
		k := "other"
		switch c.Type {
		case html.DoctypeNode:
			k = "doctype"
		case html.CommentNode:
			k = "comment"
		case html.ElementNode:
			k = "elem"
		case html.TextNode:
			k = "text"
		}
		out = append(out, TopNode{Kind: k, Data: c.Data})
	}
	return out
}

// parseDoc parses the document and its user style sheets and records the root
// discovery observables
func parseDoc(d *Doc, o *Outcome) (*tree.HTML, []tree.CSS, bool) {
	setDocFiles(d)
	src := d.HTML()
	o.Top = topNodes(src)
	o.RootIdx = -1
	doc, err := tree.NewHTML(utils.InputString(src), "http://verif.test/", fetcher, "")
	if err != nil {
		o.Err = "NewHTML: " + err.Error()
		return nil, nil, false
	}
	if doc.Root != nil {
		i := 0
		for p := doc.Root.PrevSibling; p != nil; p = p.PrevSibling {
			i++
		}
		o.RootIdx = i
		switch doc.Root.Type {
		case html.DoctypeNode:
			o.RootKind = "doctype"
		case html.CommentNode:
			o.RootKind = "comment"
		case html.ElementNode:
			o.RootKind = "elem"
		case html.TextNode:
			o.RootKind = "text"
		default:
			o.RootKind = "other"
		}
	}
	if d.TestUA {
		doc.UAStyleSheet = tree.TestUAStylesheet
	}
	var sheets []tree.CSS
	for _, s := range d.UserCSS() {
		c, err := tree.NewCSSDefault(utils.InputString(s))
		if err != nil {
			o.Err = "user css: " + err.Error()
			continue
		}
		sheets = append(sheets, c)
	}
	return doc, sheets, true
}

// renderDoc is the function under watch (its name is searched in goroutine dumps)
func renderDoc(d *Doc, o *Outcome, tracePages int) {
	doc, sheets, ok := parseDoc(d, o)
	if !ok {
		return
	}
	fc := fonts(d.Engine)
	if tracePages > 0 {
		// first pagination round only, one remakePage call at a time
		t := &PageTrace{}
		t.Steps, t.Footnotes, t.RootLTR, t.Truncated = layout.VerifPageTrace(doc, sheets, d.Hints, fc, tracePages)
		o.Trace = t
		o.Pages = len(t.Steps)
		return
	}
	out := document.Render(doc, sheets, d.Hints, fc)
	o.Pages = len(out.Pages)
	rec := render.NewRecorder()
	out.Write(rec, 1, nil)
	o.Events = len(rec.Events)
}

func runDoc(d *Doc, timeout time.Duration, tracePages int) Outcome {
	cw := &countWriter{}
	logger.ProgressLogger.SetOutput(cw)
	done := make(chan Outcome, 1)
	t0 := time.Now()
	go func() {
		var o Outcome
		defer func() {
			if r := recover(); r != nil {
				st := string(debug.Stack())
				o.Status = "panic"
				o.Msg = truncate(sprint(r), 300)
				o.Frames = repoFrames(st, true, 6)
				o.Site = "?"
				if len(o.Frames) > 0 {
					o.Site = strings.Fields(o.Frames[0])[0]
				}
			}
			done <- o
		}()
		o.Status = "ok"
		renderDoc(d, &o, tracePages)
	}()
	var o Outcome
	// the watchdog counts the CPU time of the process (the machine may be loaded by
	// other checks: wall-clock alone would turn slow documents into hangs), with
	// a wall-clock cap of 6x for a render that sleeps or dead-locks
	cpu0 := cpuTime()
	tick := time.NewTicker(50 * time.Millisecond)
	defer tick.Stop()
	fired := false
	for !fired {
		select {
		case o = <-done:
			goto finished
		case <-tick.C:
			if cpuTime()-cpu0 >= timeout || time.Since(t0) >= 6*timeout {
				fired = true
			}
		}
	}
	{
		buf := make([]byte, 1<<22)
		n := runtime.Stack(buf, true)
		o = Outcome{Status: "hang", Exit: true}
		for _, g := range strings.Split(string(buf[:n]), "\n\n") {
			if strings.Contains(g, "main.renderDoc") {
				// innermost /repo frames and the outermost ones below renderDoc
				o.Frames = repoFrames(g, false, 400)
				break
			}
		}
		o.Site = hangSite(o.Frames)
		o.OnStack = stackClasses(o.Frames)
		if np := atomic.LoadInt32(&cw.pages); np >= 300 {
			// pagination is progressing through a huge document (cost proportional
			// to the output), not stuck
			o.Site = "hang@many-pages"
			o.Msg = fmt.Sprintf("%d pages made when the watchdog fired", np)
		}
		if len(o.Frames) > 60 {
			o.Frames = append(o.Frames[:40:40], o.Frames[len(o.Frames)-6:]...)
		}
	}
finished:
	o.Rounds = int(atomic.LoadInt32(&cw.rounds)) + 1
	o.Ms = int(time.Since(t0) / time.Millisecond)
	// @font-face rules register fonts in the configuration: do not reuse it
	if docHasFontFace(d) {
		delete(fontCache, d.Engine)
	}
	return o
}

// hangSite names a hang by the innermost function of /repo on the stack that
// belongs to the layout / document / tree / text packages (function name, no
// line: the sampled line inside a loop is arbitrary).
// cpuTime = user + system CPU time consumed by this process
func cpuTime() time.Duration {
	var ru syscall.Rusage
	if err := syscall.Getrusage(syscall.RUSAGE_SELF, &ru); err != nil {
		return 0
	}
	return time.Duration(ru.Utime.Nano() + ru.Stime.Nano())
}

func hangSite(frames []string) string {
	// innermost landmark function (the sampled innermost frame itself is arbitrary)
	for _, f := range frames {
		p := strings.Fields(f)
		if len(p) != 2 {
			continue
		}
		for _, lm := range hangLandmarks {
			if strings.HasSuffix(p[1], lm) {
				return "hang@" + lm
			}
		}
	}
	if len(frames) > 0 {
		p := strings.Fields(frames[len(frames)-1])
		if len(p) == 2 {
			return "hang@" + p[1]
		}
	}
	return "hang@?"
}

// stackClasses: which kinds of layout code were running when the watchdog fired
// (whole stack, not only the innermost landmark): trigger tags `t:on-stack:<class>`
// let a known-finding matcher require that the hang is in the construct it describes.
func stackClasses(frames []string) []string {
	classes := []struct{ class, substr string }{
		{"line-breaking", "text.(*TextLayoutPango)"}, {"line-breaking", "text.(*FontConfigurationGotext)"}, {"line-breaking", "text.(*FontConfigurationPango)"},
		{"line-breaking", "text.SplitFirstLine"}, {"line-breaking", "layout.getNextLinebox"}, {"line-breaking", "layout.splitTextBox"},
		{"line-breaking", "layout.inlineMinContentWidth"}, {"line-breaking", "layout.inlineMaxContentWidth"}, {"line-breaking", "layout.inlineLineWidths"},
		{"footnote-area", "layoutContext).updateFootnoteArea"}, {"columns", "layout.columnsLayout"}, {"table", "layout.tableLayout"}, {"table", "layout.autoTableLayout"}, {"table", "layout.tableAndColumnsPreferredWidths"},
		{"flex", "layout.flexLayout"}, {"grid", "layout.gridLayout"}, {"float", "layout.floatLayout"}, {"float", "layout.avoidCollisions"},
		{"absolute", "layout.absoluteLayout"}, {"margin-boxes", "layout.makeMarginBoxes"},
		{"drawing", "document.drawContext"}, {"drawing", "document.(*Document).Write"},
		{"box-building", "boxes.BuildFormattingStructure"}, {"cascade", "tree.GetAllComputedStyles"}, {"parsing", "tree.NewHTML"},
		// output proportional to the geometry (known out-of-memory findings)
		{"leader", "layout.handleLeader"}, {"border-drawing", "document.clipBorderSegment"}, {"border-drawing", "drawContext.drawBorder"},
		{"decoration-drawing", "drawTextDecoration"}, {"gradient", "GradientSpread"},
		// name-following code
		{"counter-style", "css/counters."}, {"counter-style-extends", "CounterStyle.extendsChain"}, {"svg", " svg."}, {"images", " images."},
		{"var-resolution", "tree.resolveVar"}, {"stylesheet-import", "tree.preprocessStylesheet"}, {"target-collector", "TargetCollector"},
		// the pagination proper (layout.Layout is on the stack during the cascade and box building as well)
		{"page-layout", "layoutContext).makePage"}, {"page-layout", "layout.makeMarginBoxes"},
	}
	set := map[string]bool{}
	for _, f := range frames {
		for _, c := range classes {
			if strings.Contains(f, c.substr) {
				set[c.class] = true
			}
		}
	}
	out := make([]string, 0, len(set))
	for c := range set {
		out = append(out, c)
	}
	sort.Strings(out)
	return out
}

var hangLandmarks = []string{
	"text.(*TextLayoutPango).GetFirstLine", "text.(*FontConfigurationGotext).wrapWordBreak",
	"text.(*FontConfigurationPango).splitFirstLine", "text.(*FontConfigurationGotext).splitFirstLine",
	"layout.tableLayout", "layout.autoTableLayout", "layout.flexLayout", "layout.gridLayout", "layout.columnsLayout",
	"layout.floatLayout", "layout.absoluteLayout", "layout.avoidCollisions",
	"layout.inlineMinContentWidth", "layout.inlineMaxContentWidth", "layout.tableAndColumnsPreferredWidths",
	"layout.getNextLinebox", "layout.blockContainerLayout",
	"layout.makeMarginBoxes", "layout.(*layoutContext).makePage", "layout.(*layoutContext).makeAllPages",
	"layout.layoutDocument", "boxes.BuildFormattingStructure", "tree.GetAllComputedStyles",
	"document.drawContext.drawBorder", "document.drawContext.drawBackground", "document.drawContext.drawStackingContext",
	"document.(*Document).Write", "tree.NewHTML",
}

func docHasFontFace(d *Doc) bool {
	for _, f := range d.Features(false) {
		if f == "at:@font-face" {
			return true
		}
	}
	return false
}

func sprint(r interface{}) string {
	if e, ok := r.(error); ok {
		return e.Error()
	}
	if s, ok := r.(string); ok {
		return s
	}
	b, _ := json.Marshal(r)
	return string(b)
}

func truncate(s string, n int) string {
	if len(s) > n {
		return s[:n] + "..."
	}
	return s
}

type workerIn struct {
	D       *Doc `json:"d"`
	Ms      int  `json:"ms"`                // in-process hang timeout
	Analyze bool `json:"analyze,omitempty"` // structural analysis instead of a render
	Trace   int  `json:"trace,omitempty"`   // > 0: page trace of the first round (at most that many pages) instead of a render
}

func workerHandle(in string) (string, bool) {
	var wi workerIn
	if err := json.Unmarshal([]byte(in), &wi); err != nil || wi.D == nil {
		return `{"status":"fatal","site":"fatal:bad-worker-input"}`, false
	}
	if wi.Analyze {
		o := Outcome{Status: "ok"}
		a := analyzeDoc(wi.D)
		o.Analysis = &a
		b, _ := json.Marshal(o)
		return string(b), false
	}
	to := workerTimeout
	if wi.Ms > 0 {
		to = time.Duration(wi.Ms) * time.Millisecond
	}
	o := runDoc(wi.D, to, wi.Trace)
	b, _ := json.Marshal(o)
	return string(b), o.Exit
}
