// Harness for C18: runs /repo/svg's path-data parser, number scanner, shape
// emitters, viewBox resolution and reference following on generated inputs and
// writes one case per run, as a Coq term of type Check.C18.case (the input and
// what the implementation did).
//
// Streams (corpus/C18/*.jsonl first):
//   path     abstract command lists (all commands, 1-3 argument groups) printed
//            with random legal concrete syntax -> VerifParsePath
//   bad      malformed / mutated path data -> only panic / no panic is observed
//   points   legal number lists -> VerifParsePoints
//   viewbox  preserveAspectRatio x viewport x viewBox -> VerifViewboxTransform
//   shapes   whole documents (rect/circle/ellipse/line/polyline/polygon/path,
//            viewBox / preserveAspectRatio) -> svg.Parse + Draw on the recorder
//   use      <use> reference graphs with cycles and dangling ids -> Parse + Draw
//   uses     several <use> of the same <svg> / <symbol> / <g> / shape with differing
//            x y width height stroke attributes -> Parse + Draw, Transform and
//            SetLineWidth calls recorded too
//   refs     gradient/pattern/marker/clipPath/mask reference graphs -> Parse + Draw
// Documents run in worker subprocesses (a stack overflow kills the process).
package main

import (
	"bufio"
	"encoding/json"
	"flag"
	"fmt"
	"math"
	"math/big"
	"os"
	"path/filepath"
	"sort"
	"strconv"
	"strings"
	"time"

	"verifharness/vlib"
	"verifharness/vlib/render"

	"github.com/benoitkugler/webrender/svg"
)

type fl = float32

// ------------------------------------------------------------------ numbers

type num struct {
	s        string   // spelling
	v        *big.Rat // exact value of the spelling
	dotOrExp bool     // the spelling contains '.', 'e' or 'E'
	flag     bool     // arc flag (single character)
}

// always in `(n # d)` form: inside a Coq list literal a bare numeral would be
// read in the wrong scope
func ratQ(v *big.Rat) string {
	return "(" + v.Num().String() + " # " + v.Denom().String() + ")"
}

func q32l(x fl) string {
	var r big.Rat
	r.SetFloat64(float64(x))
	return ratQ(&r)
}

// value of [sign] int [. frac] [e exp]
func decValue(neg bool, ip, fp string, exp int) *big.Rat {
	m := new(big.Int)
	m.SetString(ip+fp+"0", 10) // trailing 0 keeps SetString happy on empty digits
	v := new(big.Rat).SetInt(m)
	e := exp - len(fp) - 1
	p := new(big.Int).Exp(big.NewInt(10), big.NewInt(int64(abs(e))), nil)
	if e >= 0 {
		v.Mul(v, new(big.Rat).SetInt(p))
	} else {
		v.Quo(v, new(big.Rat).SetInt(p))
	}
	if neg {
		v.Neg(v)
	}
	return v
}

func abs(i int) int {
	if i < 0 {
		return -i
	}
	return i
}

func digits(r *vlib.Rng, n int) string {
	var sb strings.Builder
	for i := 0; i < n; i++ {
		sb.WriteByte(byte('0' + r.Intn(10)))
	}
	return sb.String()
}

// parseSpelling computes the value of a spelling written by hand (corpus)
func parseSpelling(s string) (num, bool) {
	t := s
	neg := false
	if strings.HasPrefix(t, "-") {
		neg, t = true, t[1:]
	} else if strings.HasPrefix(t, "+") {
		t = t[1:]
	}
	exp := 0
	doe := false
	if i := strings.IndexAny(t, "eE"); i >= 0 {
		e, err := strconv.Atoi(t[i+1:])
		if err != nil {
			return num{}, false
		}
		exp, t, doe = e, t[:i], true
	}
	ip, fp := t, ""
	if i := strings.IndexByte(t, '.'); i >= 0 {
		ip, fp, doe = t[:i], t[i+1:], true
	}
	for _, c := range ip + fp {
		if c < '0' || c > '9' {
			return num{}, false
		}
	}
	if ip+fp == "" {
		return num{}, false
	}
	return num{s: s, v: decValue(neg, ip, fp, exp), dotOrExp: doe}, true
}

// genNum: a number of the SVG grammar
//   sign? (digits | digits? "." digits | digits ".") (("e"|"E") sign? digits)?
func genNum(r *vlib.Rng, nonneg bool) num {
	var ip, fp string
	exp, hasExp := 0, false
	switch r.Intn(12) {
	case 0, 1, 2:
		ip = strconv.Itoa(r.Intn(30))
	case 3, 4: // dyadic with 1-3 fraction digits
		k := r.Intn(8)
		ip = strconv.Itoa(r.Intn(200))
		fp = []string{"0", "125", "25", "375", "5", "625", "75", "875"}[k]
	case 5: // decimal fraction, inexact in binary
		ip = strconv.Itoa(r.Intn(100))
		fp = digits(r, r.Range(1, 3))
	case 6: // leading dot
		fp = digits(r, r.Range(1, 3))
	case 7: // trailing dot
		ip = strconv.Itoa(r.Intn(50))
		fp = ""
		return finishNum(r, nonneg, ip, fp, true, 0, false)
	case 8: // exponent
		ip = strconv.Itoa(r.Intn(50))
		if r.Bool() {
			fp = digits(r, r.Range(1, 2))
		}
		exp, hasExp = r.Range(-3, 3), true
	case 9: // leading zeros
		ip = "0" + strconv.Itoa(r.Intn(10))
		if r.Bool() {
			fp = digits(r, 1) + "0"
		}
	case 10: // many digits (rounding to binary32)
		if r.Bool() {
			ip = strconv.Itoa(16777216 + r.Intn(64))
		} else {
			ip = strconv.Itoa(r.Intn(4))
			fp = digits(r, r.Range(8, 16))
		}
	default:
		ip = strconv.Itoa(r.Intn(1000))
	}
	return finishNum(r, nonneg, ip, fp, false, exp, hasExp)
}

func finishNum(r *vlib.Rng, nonneg bool, ip, fp string, trailingDot bool, exp int, hasExp bool) num {
	neg := !nonneg && r.Chance(1, 3)
	var sb strings.Builder
	if neg {
		sb.WriteByte('-')
	} else if r.Chance(1, 12) {
		sb.WriteByte('+')
	}
	sb.WriteString(ip)
	doe := false
	if fp != "" || trailingDot {
		sb.WriteByte('.')
		sb.WriteString(fp)
		doe = true
	}
	if hasExp {
		sb.WriteByte("eE"[r.Intn(2)])
		if exp < 0 {
			sb.WriteString("-" + strconv.Itoa(-exp))
		} else if r.Chance(1, 3) {
			sb.WriteString("+" + strconv.Itoa(exp))
		} else {
			sb.WriteString(strconv.Itoa(exp))
		}
		doe = true
	}
	return num{s: sb.String(), v: decValue(neg, ip, fp, exp), dotOrExp: doe}
}

// 2^128 - 2^103: the smallest magnitude that rounds to infinity in binary32
var overflow32 = func() *big.Rat {
	a := new(big.Int).Lsh(big.NewInt(1), 128)
	b := new(big.Int).Lsh(big.NewInt(1), 103)
	return new(big.Rat).SetInt(a.Sub(a, b))
}()

// numbers around the limits of binary32: overflow threshold, subnormals,
// rounding ties, long mantissas, large exponents
func genExtreme(r *vlib.Rng) num {
	var ip, fp string
	exp := 0
	switch r.Intn(7) {
	case 0: // near the overflow threshold 3.4028235677973366e38
		ip, fp = "3", []string{"4028234", "4028235", "40282356", "40282357", "402823567", "4028236", "40282346638528859811704183484516925440"}[r.Intn(7)]
		exp = 38
	case 1: // subnormal range
		ip, fp = strconv.Itoa(r.Range(1, 9)), digits(r, r.Range(0, 6))
		exp = -r.Range(38, 47)
	case 2: // large exponents either way
		ip = strconv.Itoa(r.Range(1, 999))
		exp = r.Range(-80, 60)
	case 3: // long mantissa
		ip, fp = digits(r, r.Range(1, 30)), digits(r, r.Range(0, 30))
		exp = r.Range(-30, 10)
	case 4: // ties of the 24-bit significand
		ip = strconv.Itoa(16777216 + 2*r.Intn(50) + 1)
		if r.Bool() {
			fp = "0000000000000000000001"
		}
		exp = r.Range(0, 3)
	case 5: // zero mantissa, any exponent
		ip, fp = "0", "000"
		exp = r.Range(-500, 500)
	default:
		ip, fp = "", digits(r, r.Range(1, 50))
		exp = r.Range(-10, 40)
	}
	if ip == "" && fp == "" {
		ip = "1"
	}
	return finishNum(r, false, ip, fp, false, exp, true)
}

func flagNum(r *vlib.Rng) num {
	b := r.Intn(2)
	return num{s: strconv.Itoa(b), v: new(big.Rat).SetInt64(int64(b)), flag: true}
}

var wsp = []string{" ", "\t", "\n", "\r"}

func genWsp(r *vlib.Rng, min int) string {
	n := min
	for r.Chance(1, 4) {
		n++
	}
	s := ""
	for i := 0; i < n; i++ {
		if r.Chance(5, 6) {
			s += " "
		} else {
			s += vlib.Pick(r, wsp)
		}
	}
	return s
}

// separator between two numbers: comma-wsp, or nothing where the grammar can
// still tell the numbers apart
func genSep(r *vlib.Rng, prev, next num) string {
	c := next.s[0]
	canGlue := prev.flag || c == '-' || c == '+' || (c == '.' && prev.dotOrExp)
	if canGlue && r.Chance(1, 2) {
		return ""
	}
	switch r.Intn(6) {
	case 0:
		return ","
	case 1:
		return genWsp(r, 1) + "," + genWsp(r, 0)
	case 2:
		return "," + genWsp(r, 1)
	default:
		return genWsp(r, 1)
	}
}

func spellNums(r *vlib.Rng, ns []num) string {
	var sb strings.Builder
	for i, n := range ns {
		if i > 0 {
			sb.WriteString(genSep(r, ns[i-1], n))
		}
		sb.WriteString(n.s)
	}
	return sb.String()
}

// a byte string as a Coq term of type list N (string literal, decoded by Check.C18.bs)
func coqBytes(d string) string {
	for i := 0; i < len(d); i++ {
		if d[i] >= 0x80 || d[i] == 0 {
			return vlib.Bytes(d)
		}
	}
	return `(bs "` + strings.ReplaceAll(d, `"`, `""`) + `"%string)`
}

// ------------------------------------------------------------------ paths

type seg struct {
	letter byte
	args   []num
}

var groupSize = map[byte]int{'m': 2, 'l': 2, 'h': 1, 'v': 1, 'c': 6, 's': 4, 'q': 4, 't': 2, 'a': 7, 'z': 0}

func genSeg(r *vlib.Rng, letter byte) seg {
	lower := letter | 0x20
	sz := groupSize[lower]
	if sz == 0 {
		return seg{letter: letter}
	}
	groups := 1
	if r.Chance(1, 3) {
		groups = r.Range(2, 3)
	}
	var args []num
	for g := 0; g < groups; g++ {
		if lower == 'a' {
			rx, ry := genNum(r, true), genNum(r, true)
			if r.Chance(1, 10) {
				rx = num{s: "0", v: new(big.Rat)}
			}
			if r.Chance(1, 14) {
				ry = num{s: "0.0", v: new(big.Rat), dotOrExp: true}
			}
			ex, ey := genNum(r, false), genNum(r, false)
			if letter == 'a' && r.Chance(1, 10) { // identical end points
				ex, ey = num{s: "0", v: new(big.Rat)}, num{s: "0", v: new(big.Rat)}
			}
			args = append(args, rx, ry, genNum(r, false), flagNum(r), flagNum(r), ex, ey)
		} else {
			for i := 0; i < sz; i++ {
				args = append(args, genNum(r, false))
			}
		}
	}
	return seg{letter: letter, args: args}
}

const letters = "MmLlHhVvCcSsQqTtAaZz"

func genPath(r *vlib.Rng, arcs bool) []seg {
	var out []seg
	out = append(out, genSeg(r, "Mm"[r.Intn(2)]))
	n := r.Range(0, 7)
	for i := 0; i < n; i++ {
		var l byte
		switch {
		case r.Chance(1, 8):
			l = "Zz"[r.Intn(2)]
		case r.Chance(1, 12):
			l = "Mm"[r.Intn(2)]
		default:
			l = letters[r.Intn(len(letters))]
		}
		if !arcs && (l == 'a' || l == 'A') {
			l = 'L'
		}
		out = append(out, genSeg(r, l))
	}
	return out
}

// decimal number with at most `dec` fraction digits, spelled plainly or with an
// exponent / explicit sign
func decNum(r *vlib.Rng, v float64, dec int) num {
	p := math.Pow(10, float64(dec))
	i := int64(math.Round(v * p))
	neg := i < 0
	if neg {
		i = -i
	}
	ip := strconv.FormatInt(i/int64(p), 10)
	fp := ""
	if dec > 0 {
		fp = fmt.Sprintf("%0*d", dec, i%int64(p))
		fp = strings.TrimRight(fp, "0")
	}
	var sb strings.Builder
	if neg {
		sb.WriteByte('-')
	} else if r.Chance(1, 16) {
		sb.WriteByte('+')
	}
	if ip == "0" && fp != "" && r.Bool() {
		ip = ""
	}
	sb.WriteString(ip)
	doe := false
	if fp != "" {
		sb.WriteString("." + fp)
		doe = true
	}
	exp := 0
	if r.Chance(1, 10) {
		sb.WriteString("e0")
		doe = true
	}
	return num{s: sb.String(), v: decValue(neg, ip, fp, exp), dotOrExp: doe}
}

var arcRots = []float64{0, 0, 30, 45, 90, -60, 123.4, 180, 270, 360, -90, 15.5, 720.25, 1e3}

// genArcPath: paths made of arcs whose geometry is well conditioned (radii
// within a factor 6 of each other, not tiny against the coordinates), in both
// regimes of F.6.6 (radii large enough / too small for the chord: scaled), all
// flag combinations, rotated axes, absolute and relative, several argument
// groups, with a few straight or curved segments in between
func genArcPath(r *vlib.Rng) []seg {
	cx, cy := float64(r.Range(-150, 150)), float64(r.Range(-150, 150))
	if r.Bool() {
		cx, cy = float64(r.Range(-1500, 1500))/10, float64(r.Range(-1500, 1500))/10
	}
	m := seg{letter: 'M', args: []num{decNum(r, cx, 1), decNum(r, cy, 1)}}
	cx, cy = ratF(m.args[0]), ratF(m.args[1])
	sx, sy := cx, cy
	out := []seg{m}
	n := r.Range(1, 3)
	for i := 0; i < n; i++ {
		if r.Chance(1, 6) {
			x, y := float64(r.Range(-150, 150)), float64(r.Range(-150, 150))
			if r.Bool() {
				out = append(out, seg{letter: 'L', args: []num{decNum(r, x, 0), decNum(r, y, 0)}})
			} else {
				out = append(out, seg{letter: 'C', args: []num{decNum(r, float64(r.Range(-150, 150)), 0), decNum(r, float64(r.Range(-150, 150)), 0),
					decNum(r, float64(r.Range(-150, 150)), 0), decNum(r, float64(r.Range(-150, 150)), 0), decNum(r, x, 0), decNum(r, y, 0)}})
			}
			cx, cy = x, y
			continue
		}
		rel := r.Chance(1, 3)
		letter := byte('A')
		if rel {
			letter = 'a'
		}
		s := seg{letter: letter}
		groups := 1
		if r.Chance(1, 4) {
			groups = 2
		}
		for g := 0; g < groups; g++ {
			dec := r.Intn(3)
			// chord
			d := float64(r.Range(20, 1200)) / 10
			if r.Chance(1, 5) {
				d = float64(r.Range(2, 30)) / 10
			}
			ang := r.Float01() * 2 * math.Pi
			if r.Chance(1, 4) {
				ang = float64(r.Intn(8)) * math.Pi / 4
			}
			dx, dy := d*math.Cos(ang), d*math.Sin(ang)
			// radii relative to the half chord
			f := 1 + float64(r.Range(0, 300))/100 // large enough (mostly)
			if r.Bool() {
				f = float64(r.Range(8, 98)) / 100 // too small: F.6.6 scales them
			}
			if r.Chance(1, 10) {
				f = 1
			}
			rx := d / 2 * f
			ratio := 1.0
			if !r.Chance(1, 5) {
				ratio = float64(r.Range(17, 600)) / 100
			}
			ry := rx * ratio
			if r.Bool() {
				rx, ry = ry, rx
			}
			rxn, ryn := decNum(r, rx, dec+1), decNum(r, ry, dec+1)
			if rxn.v.Sign() == 0 || ryn.v.Sign() == 0 {
				rxn, ryn = decNum(r, 1, 0), decNum(r, 2, 0)
			}
			if r.Chance(1, 12) { // F.6.6 step 2: the sign of a radius is dropped
				neg := decNum(r, -ratF(rxn), dec+1)
				rxn = neg
			}
			rot := vlib.Pick(r, arcRots)
			if r.Bool() {
				rot = float64(r.Range(-4000, 4000)) / 10
			}
			var ex, ey num
			if rel {
				ex, ey = decNum(r, dx, dec), decNum(r, dy, dec)
				cx, cy = cx+ratF(ex), cy+ratF(ey)
			} else {
				ex, ey = decNum(r, cx+dx, dec), decNum(r, cy+dy, dec)
				cx, cy = ratF(ex), ratF(ey)
			}
			s.args = append(s.args, rxn, ryn, decNum(r, rot, 2), flagNum(r), flagNum(r), ex, ey)
		}
		out = append(out, s)
		if r.Chance(1, 8) {
			out = append(out, seg{letter: "Zz"[r.Intn(2)]})
			cx, cy = sx, sy
		}
	}
	return out
}

func ratF(n num) float64 { f, _ := n.v.Float64(); return f }

func spellPath(r *vlib.Rng, segs []seg) string {
	var sb strings.Builder
	sb.WriteString(genWsp(r, 0))
	for _, s := range segs {
		sb.WriteByte(s.letter)
		if len(s.args) > 0 {
			sb.WriteString(genWsp(r, 0))
			sb.WriteString(spellNums(r, s.args))
		}
		sb.WriteString(genWsp(r, 0))
	}
	return sb.String()
}

func coqSegs(segs []seg) string {
	var items []string
	for _, s := range segs {
		var qs []string
		for _, a := range s.args {
			qs = append(qs, ratQ(a.v))
		}
		items = append(items, fmt.Sprintf("ASeg %d %s", s.letter, vlib.List(qs)))
	}
	return vlib.List(items)
}

// cos / sin oracle for the x-axis-rotation of every arc of the segments: the
// binary32 value of the literal, then the expression of elements_path.go:431
// (float64(rot) * math.Pi / 180).  Check/C18.v validates the values (trig_ok).
func trigTable(segs []seg, seen map[float32]bool, items *[]string) {
	for _, s := range segs {
		if s.letter|0x20 != 'a' {
			continue
		}
		for i := 2; i < len(s.args); i += 7 {
			f, err := strconv.ParseFloat(s.args[i].s, 32)
			if err != nil {
				continue
			}
			rot := fl(f)
			if seen[rot] || !vlib.Finite32(rot) {
				continue
			}
			seen[rot] = true
			a := float64(rot) * math.Pi / 180
			*items = append(*items, fmt.Sprintf("TEnt %s %s %s", vlib.Q32(rot), vlib.Q64(math.Cos(a)), vlib.Q64(math.Sin(a))))
		}
	}
}

func coqTrig(segs []seg) string {
	var items []string
	trigTable(segs, map[float32]bool{}, &items)
	return vlib.List(items)
}

// distribution tags for the arcs of a path whose current point the generator
// knows (absolute coordinates after an absolute moveto): regime of F.6.6
// (radii scaled or not), shape, flags.  Informative only.
func arcTags(segs []seg, tags map[string]bool) {
	val := func(n num) float64 { f, _ := n.v.Float64(); return float64(fl(f)) }
	var cx, cy, sx, sy float64
	known := false
	for _, s := range segs {
		lower := s.letter | 0x20
		rel := s.letter == lower
		switch lower {
		case 'm', 'l':
			for i := 0; i+1 < len(s.args); i += 2 {
				x, y := val(s.args[i]), val(s.args[i+1])
				if rel {
					x, y = x+cx, y+cy
				} else if lower == 'm' {
					known = true
				}
				cx, cy = x, y
				if lower == 'm' && i == 0 {
					sx, sy = x, y
				}
			}
		case 'z':
			cx, cy = sx, sy
		case 'a':
			for i := 0; i+6 < len(s.args); i += 7 {
				rx, ry, rot := math.Abs(val(s.args[i])), math.Abs(val(s.args[i+1])), val(s.args[i+2])
				x, y := val(s.args[i+5]), val(s.args[i+6])
				if rel {
					x, y = x+cx, y+cy
				}
				if known && rx != 0 && ry != 0 && (x != cx || y != cy) {
					tags["arc"] = true
					c, sn := math.Cos(rot*math.Pi/180), math.Sin(rot*math.Pi/180)
					dx, dy := (cx-x)/2, (cy-y)/2
					x1, y1 := c*dx+sn*dy, -sn*dx+c*dy
					lam := x1*x1/(rx*rx) + y1*y1/(ry*ry)
					sc := 1.0
					if lam > 1 {
						sc = math.Sqrt(lam)
						tags["arc-radii-scaled"] = true
						if rx != ry {
							tags["arc-radii-scaled-rx!=ry"] = true
						}
					} else {
						tags["arc-radii-fit"] = true
					}
					mag := math.Max(math.Max(math.Abs(cx), math.Abs(cy)), math.Max(math.Abs(x), math.Abs(y))) + sc*math.Max(rx, ry)
					if mag <= 256*sc*math.Min(rx, ry) && lam >= 1.0/(1<<20) && sc*math.Min(rx, ry) >= 1.0/(1<<20) {
						tags["arc-geometry-checked"] = true
					}
					if rx != ry {
						tags["arc-rx!=ry"] = true
					}
					if math.Mod(rot, 90) != 0 {
						tags["arc-rotated"] = true
					}
					tags[fmt.Sprintf("arc-flags-%s%s", s.args[i+3].s, s.args[i+4].s)] = true
					if s.args[i].v.Sign() < 0 || s.args[i+1].v.Sign() < 0 {
						tags["arc-negative-radius"] = true
					}
				}
				cx, cy = x, y
			}
		default:
			known = false // the current point is not tracked through the other commands
		}
	}
}

func descSegs(segs []seg) []string {
	var out []string
	for _, s := range segs {
		t := string(s.letter)
		for _, a := range s.args {
			t += " " + a.s
		}
		out = append(out, t)
	}
	return out
}

func coqIop(k int, a [6]fl) string {
	if !vlib.Finite32(a[:]...) {
		return "IOp 9 0 0 0 0 0 0"
	}
	return fmt.Sprintf("IOp %d %s %s %s %s %s %s", k, vlib.Q32(a[0]), vlib.Q32(a[1]), vlib.Q32(a[2]), vlib.Q32(a[3]), vlib.Q32(a[4]), vlib.Q32(a[5]))
}

// runs the path parser; returns the Coq `ires`, a description and the status
func runPath(d string) (string, interface{}, string) {
	var ops []svg.VerifPathOp
	var err error
	o := render.Guard(func() { ops, err = svg.VerifParsePath(d) })
	if o.Status != "ok" {
		return "IPanic", map[string]string{"panic": o.Msg, "site": o.Site}, "panic"
	}
	if err != nil {
		return "IErr", map[string]string{"error": err.Error()}, "err"
	}
	var items, desc []string
	for _, op := range ops {
		items = append(items, coqIop(int(op.Kind), op.Args))
		desc = append(desc, fmt.Sprintf("%s%v", []string{"M", "L", "C", "Z"}[op.Kind], op.Args))
	}
	return "IOk " + vlib.List(items), desc, "ok"
}

func pathCase(segs []seg, d string, extraTags ...string) vlib.Case {
	ires, desc, st := runPath(d)
	tags := map[string]bool{"impl-" + st: true}
	for _, s := range segs {
		tags["cmd-"+string(s.letter)] = true
		if g := groupSize[s.letter|0x20]; g > 0 && len(s.args) > g {
			tags["implicit-repeat"] = true
		}
	}
	for _, t := range extraTags {
		tags[t] = true
	}
	arcTags(segs, tags)
	return vlib.Case{Kind: "path", Coq: fmt.Sprintf("CPath %s %s %s (%s)", coqSegs(segs), coqBytes(d), coqTrig(segs), ires),
		Desc: map[string]interface{}{"d": d, "cmds": descSegs(segs), "impl": desc}, Tags: tagList(tags), Nontrivial: len(segs) >= 2}
}

func tagList(m map[string]bool) []string {
	var l []string
	for k := range m {
		l = append(l, k)
	}
	sort.Strings(l)
	return l
}

func badCase(d string, origin string) vlib.Case {
	ires, desc, st := runPath(d)
	if st == "ok" { // the op list is not compared for malformed input
		ires = "IOk []"
	}
	return vlib.Case{Kind: "bad", Coq: fmt.Sprintf("CBad %s (%s)", coqBytes(d), ires),
		Desc: map[string]interface{}{"d": d, "impl": desc}, Tags: []string{"impl-" + st, origin}, Nontrivial: len(d) > 0}
}

const badAlphabet = "MmLlHhVvCcSsQqTtAaZz0123456789.-+eE, \t\nxX#%"

func mutate(r *vlib.Rng, d string) string {
	b := []byte(d)
	for k := r.Range(1, 3); k > 0; k-- {
		switch r.Intn(4) {
		case 0: // truncate
			if len(b) > 0 {
				b = b[:r.Intn(len(b))]
			}
		case 1: // delete
			if len(b) > 0 {
				i := r.Intn(len(b))
				b = append(b[:i:i], b[i+1:]...)
			}
		case 2: // insert
			i := r.Intn(len(b) + 1)
			c := badAlphabet[r.Intn(len(badAlphabet))]
			b = append(b[:i:i], append([]byte{c}, b[i:]...)...)
		default: // replace
			if len(b) > 0 {
				b[r.Intn(len(b))] = badAlphabet[r.Intn(len(badAlphabet))]
			}
		}
	}
	return string(b)
}

// ------------------------------------------------------------------ documents

type docJob struct {
	Svg  string
	W, H fl
	Full bool // also record Transform (after the root's own two) and SetLineWidth calls
}

type docOut struct {
	Status int // 0 ok, 1 parse error, 2 panic
	Msg    string
	Ops    [][7]fl // kind, six args
	Root   []fl    // the root <svg>'s second Transform (sx 0 0 sy tx ty), if any
}

var opKinds = map[string]int{"MoveTo": 0, "LineTo": 1, "CubicTo": 2, "ClosePath": 3, "Rectangle": 4}

func runDoc(in string) string {
	var job docJob
	json.Unmarshal([]byte(in), &job)
	var out docOut
	o := render.Guard(func() {
		img, err := svg.Parse(strings.NewReader(job.Svg), "", nil, nil)
		if err != nil {
			out.Status, out.Msg = 1, err.Error()
			return
		}
		rec := render.NewRecorder()
		pg := rec.AddPage(0, 0, job.W, job.H)
		img.Draw(pg, job.W, job.H, nil)
		nt, nAll := 0, 0
		for _, e := range rec.Events {
			if e.Op == "Transform" && e.Depth == 1 {
				nt++
				if nt == 2 {
					out.Root = append([]fl(nil), e.Args...)
				}
			}
			k, ok := opKinds[e.Op]
			if job.Full && e.Op == "Transform" && len(e.Args) == 6 {
				nAll++
				k, ok = 5, nAll > 2
			}
			if job.Full && e.Op == "SetLineWidth" {
				k, ok = 6, true
			}
			if !ok {
				continue
			}
			var a [7]fl
			a[0] = fl(k)
			copy(a[1:], e.Args)
			out.Ops = append(out.Ops, a)
		}
	})
	if o.Status != "ok" {
		out = docOut{Status: 2, Msg: o.Site + ": " + o.Msg}
	}
	b, err := json.Marshal(out)
	if err != nil { // non-finite coordinates
		b, _ = json.Marshal(docOut{Status: 2, Msg: "non-finite value: " + err.Error()})
	}
	return string(b)
}

type pending struct {
	kind  string
	job   docJob
	coqIn string // Coq arguments before the dres
	desc  map[string]interface{}
	tags  []string
	vb    *vbInfo
}

type vbInfo struct {
	par                string
	xi, yi             int
	none, slice        bool
	vx, vy, vw, vh     fl
	hasViewbox, noAttr bool
}

func attrNum(r *vlib.Rng, nonneg bool) (string, fl) {
	n := genNum(r, nonneg)
	f, _ := strconv.ParseFloat(n.s, 32)
	return n.s, fl(f)
}

var unitNames = []struct{ suffix, coq string }{
	{"px", "UPx"}, {"cm", "UCm"}, {"mm", "UMm"}, {"pt", "UPt"}, {"in", "UIn"}, {"Q", "UQ"}, {"pc", "UPc"},
	{"em", "UEm"}, {"ex", "UEx"}, {"%", "UPerc"},
}

// attrUnit: a number with, half of the time, a unit (perc: percentages allowed);
// returns the attribute text and the Coq `uval`
func attrUnit(r *vlib.Rng, nonneg, perc bool) (string, string) {
	s, v := attrNum(r, nonneg)
	if r.Bool() {
		return s, "(UV " + vlib.Q32(v) + " UPx)"
	}
	n := len(unitNames)
	if !perc {
		n--
	}
	u := unitNames[r.Intn(n)]
	if r.Chance(1, 3) {
		u = unitNames[len(unitNames)-1-r.Intn(3)] // em, ex, % more often
		if !perc && u.suffix == "%" {
			u = unitNames[7]
		}
	}
	return s + u.suffix, "(UV " + vlib.Q32(v) + " " + u.coq + ")"
}

func genShapesDoc(r *vlib.Rng) pending {
	var body strings.Builder
	var shapes, descs, trig []string
	trigSeen := map[float32]bool{}
	tags := map[string]bool{}
	n := r.Range(1, 4)
	for i := 0; i < n; i++ {
		units := r.Chance(2, 5)
		kind := r.Intn(8)
		if units && kind <= 4 {
			tags["units"] = true
			switch kind {
			case 0, 1:
				xs, x := attrUnit(r, false, true)
				ys, y := attrUnit(r, false, true)
				ws, w := attrUnit(r, r.Chance(5, 6), true)
				hs, h := attrUnit(r, r.Chance(5, 6), true)
				el := fmt.Sprintf(`<rect x="%s" y="%s" width="%s" height="%s"`, xs, ys, ws, hs)
				rxq, ryq := "NoUV", "NoUV"
				// a percentage rx without ry (or conversely) is not generated: SVG gives the
				// missing one the other's used value, /repo resolves it against the other axis
				both := r.Bool()
				if both || r.Bool() {
					s, v := attrUnit(r, true, both)
					el += fmt.Sprintf(` rx="%s"`, s)
					rxq = "(SomeUV " + v + ")"
					tags["rect-rx"] = true
				}
				if both || rxq == "NoUV" && r.Bool() {
					s, v := attrUnit(r, true, both)
					el += fmt.Sprintf(` ry="%s"`, s)
					ryq = "(SomeUV " + v + ")"
					tags["rect-ry"] = true
				}
				body.WriteString(el + "/>")
				shapes = append(shapes, fmt.Sprintf("URect %s %s %s %s %s %s", x, y, w, h, rxq, ryq))
				tags["rect"] = true
			case 2:
				cxs, cx := attrUnit(r, false, true)
				cys, cy := attrUnit(r, false, true)
				rs, rr := attrUnit(r, true, false) // r="..%" (normalised diagonal) is not modelled
				body.WriteString(fmt.Sprintf(`<circle cx="%s" cy="%s" r="%s"/>`, cxs, cys, rs))
				shapes = append(shapes, fmt.Sprintf("UCircle %s %s %s", cx, cy, rr))
				tags["circle"] = true
			case 3:
				cxs, cx := attrUnit(r, false, true)
				cys, cy := attrUnit(r, false, true)
				rxs, rx := attrUnit(r, true, true)
				rys, ry := attrUnit(r, true, true)
				body.WriteString(fmt.Sprintf(`<ellipse cx="%s" cy="%s" rx="%s" ry="%s"/>`, cxs, cys, rxs, rys))
				shapes = append(shapes, fmt.Sprintf("UEllipse %s %s %s %s", cx, cy, rx, ry))
				tags["ellipse"] = true
			default:
				x1s, x1 := attrUnit(r, false, true)
				y1s, y1 := attrUnit(r, false, true)
				x2s, x2 := attrUnit(r, false, true)
				y2s, y2 := attrUnit(r, false, true)
				body.WriteString(fmt.Sprintf(`<line x1="%s" y1="%s" x2="%s" y2="%s"/>`, x1s, y1s, x2s, y2s))
				shapes = append(shapes, fmt.Sprintf("ULine %s %s %s %s", x1, y1, x2, y2))
				tags["line"] = true
			}
			descs = append(descs, shapes[len(shapes)-1])
			continue
		}
		switch kind {
		case 0, 1: // rect
			xs, x := attrNum(r, false)
			ys, y := attrNum(r, false)
			ws, w := attrNum(r, r.Chance(5, 6))
			hs, h := attrNum(r, r.Chance(5, 6))
			el := fmt.Sprintf(`<rect x="%s" y="%s" width="%s" height="%s"`, xs, ys, ws, hs)
			rxq, ryq := "NoQ", "NoQ"
			if r.Chance(2, 3) {
				s, v := attrNum(r, true)
				if r.Chance(1, 8) {
					s, v = "0", 0
				}
				el += fmt.Sprintf(` rx="%s"`, s)
				rxq = "(SomeQ " + vlib.Q32(v) + ")"
				tags["rect-rx"] = true
			}
			if r.Chance(1, 2) {
				s, v := attrNum(r, true)
				el += fmt.Sprintf(` ry="%s"`, s)
				ryq = "(SomeQ " + vlib.Q32(v) + ")"
				tags["rect-ry"] = true
			}
			body.WriteString(el + "/>")
			shapes = append(shapes, fmt.Sprintf("ShRect %s %s %s %s %s %s", vlib.Q32(x), vlib.Q32(y), vlib.Q32(w), vlib.Q32(h), rxq, ryq))
			tags["rect"] = true
		case 2:
			cxs, cx := attrNum(r, false)
			cys, cy := attrNum(r, false)
			rs, rr := attrNum(r, true)
			body.WriteString(fmt.Sprintf(`<circle cx="%s" cy="%s" r="%s"/>`, cxs, cys, rs))
			shapes = append(shapes, fmt.Sprintf("ShCircle %s %s %s", vlib.Q32(cx), vlib.Q32(cy), vlib.Q32(rr)))
			tags["circle"] = true
		case 3:
			cxs, cx := attrNum(r, false)
			cys, cy := attrNum(r, false)
			rxs, rx := attrNum(r, true)
			rys, ry := attrNum(r, true)
			body.WriteString(fmt.Sprintf(`<ellipse cx="%s" cy="%s" rx="%s" ry="%s"/>`, cxs, cys, rxs, rys))
			shapes = append(shapes, fmt.Sprintf("ShEllipse %s %s %s %s", vlib.Q32(cx), vlib.Q32(cy), vlib.Q32(rx), vlib.Q32(ry)))
			tags["ellipse"] = true
		case 4:
			x1s, x1 := attrNum(r, false)
			y1s, y1 := attrNum(r, false)
			x2s, x2 := attrNum(r, false)
			y2s, y2 := attrNum(r, false)
			body.WriteString(fmt.Sprintf(`<line x1="%s" y1="%s" x2="%s" y2="%s"/>`, x1s, y1s, x2s, y2s))
			shapes = append(shapes, fmt.Sprintf("ShLine %s %s %s %s", vlib.Q32(x1), vlib.Q32(y1), vlib.Q32(x2), vlib.Q32(y2)))
			tags["line"] = true
		case 5, 6:
			closed := r.Bool()
			k := r.Range(0, 9)
			var ns []num
			for j := 0; j < k; j++ {
				ns = append(ns, genNum(r, false))
			}
			pts := genWsp(r, 0) + spellNums(r, ns) + genWsp(r, 0)
			tag := "polyline"
			if closed {
				tag = "polygon"
			}
			body.WriteString(fmt.Sprintf(`<%s points="%s"/>`, tag, pts))
			shapes = append(shapes, fmt.Sprintf("ShPoly %s %s", vlib.Bool(closed), coqBytes(pts)))
			tags[tag] = true
		default:
			var psegs []seg
			if r.Chance(1, 3) {
				psegs = genArcPath(r)
			} else {
				psegs = genPath(r, true)
			}
			trigTable(psegs, trigSeen, &trig)
			arcTags(psegs, tags)
			d := spellPath(r, psegs)
			body.WriteString(fmt.Sprintf(`<path d="%s"/>`, d))
			shapes = append(shapes, "ShPath "+coqBytes(d))
			tags["path"] = true
		}
		shapes[len(shapes)-1] = "UPlain (" + shapes[len(shapes)-1] + ")"
		descs = append(descs, shapes[len(shapes)-1])
	}
	// root element
	vb := &vbInfo{xi: 1, yi: 1}
	root := `<svg xmlns="http://www.w3.org/2000/svg"`
	if r.Chance(3, 4) {
		vxs, vx := attrNum(r, false)
		vys, vy := attrNum(r, false)
		vws, vw := attrNum(r, true)
		vhs, vh := attrNum(r, true)
		vb.vx, vb.vy, vb.vw, vb.vh, vb.hasViewbox = vx, vy, vw, vh, true
		root += fmt.Sprintf(` viewBox="%s"`, strings.Join([]string{vxs, vys, vws, vhs}, vlib.Pick(r, []string{" ", ",", ", "})))
		tags["viewBox"] = true
	}
	if r.Chance(2, 3) {
		pos := []string{"Min", "Mid", "Max"}
		vb.xi, vb.yi = r.Intn(3), r.Intn(3)
		vb.none = r.Chance(1, 5)
		vb.slice = r.Bool()
		par := "x" + pos[vb.xi] + "Y" + pos[vb.yi]
		if vb.none {
			par = "none"
			vb.xi, vb.yi = 0, 0
		}
		if vb.slice {
			par += " slice"
		} else if r.Bool() {
			par += " meet"
		}
		vb.par = par
		root += fmt.Sprintf(` preserveAspectRatio="%s"`, par)
	} else {
		vb.noAttr = true
	}
	fsq := "NoUV"
	if tags["units"] && r.Chance(1, 3) {
		s, v := attrNum(r, true)
		u := vlib.Pick(r, []struct{ suffix, coq string }{{"", "UPx"}, {"px", "UPx"}, {"em", "UEm"}, {"%", "UPerc"}, {"pt", "UPt"}})
		root += fmt.Sprintf(` font-size="%s%s"`, s, u.suffix)
		fsq = "(SomeUV (UV " + vlib.Q32(v) + " " + u.coq + "))"
		tags["root-font-size"] = true
	}
	root += ">"
	doc := root + body.String() + "</svg>"
	w, h := fl(r.Range(1, 800)), fl(r.Range(1, 800))
	if r.Chance(1, 3) {
		w, h = fl(r.Range(1, 4000))/8, fl(r.Range(1, 4000))/8
	}
	iw, ih := w, h
	if vb.hasViewbox {
		iw, ih = vb.vw, vb.vh
	}
	return pending{kind: "shapes", job: docJob{Svg: doc, W: w, H: h},
		coqIn: fmt.Sprintf("%s %s %s %s %s", fsq, vlib.Q32(iw), vlib.Q32(ih), vlib.List(shapes), vlib.List(trig)),
		desc: map[string]interface{}{"svg": doc, "width": w, "height": h}, tags: tagList(tags), vb: vb}
}

// <use> graphs: ids 1..k, every id is a <g> in <defs>; leaves are unit squares at x = n
func genUseDoc(r *vlib.Rng) pending {
	k := r.Range(1, 6)
	leaf := 0
	tags := map[string]bool{}
	genItems := func(self, max int) ([]string, string) {
		var items []string
		var xml strings.Builder
		n := r.Range(0, max)
		for i := 0; i < n; i++ {
			if r.Chance(2, 5) {
				leaf++
				items = append(items, fmt.Sprintf("Leaf %d", leaf))
				xml.WriteString(fmt.Sprintf(`<rect x="%d" width="1" height="1"/>`, leaf))
			} else {
				id := r.Range(1, k)
				if self < k && r.Chance(3, 4) { // mostly forward references: few cycles
					id = r.Range(self+1, k)
				}
				if r.Chance(1, 8) {
					id = k + r.Range(1, 3) // dangling
					tags["dangling"] = true
				}
				items = append(items, fmt.Sprintf("Ref %d", id))
				attr := "href"
				if r.Chance(1, 4) {
					attr = "xlink:href"
				}
				pos := ""
				if r.Chance(1, 3) {
					pos = fmt.Sprintf(` x="%d" y="%d"`, r.Range(-5, 5), r.Range(-5, 5))
				}
				xml.WriteString(fmt.Sprintf(`<use %s="#n%d"%s/>`, attr, id, pos))
			}
		}
		return items, xml.String()
	}
	var defs []string
	var xml strings.Builder
	xml.WriteString(`<svg xmlns="http://www.w3.org/2000/svg" xmlns:xlink="http://www.w3.org/1999/xlink" viewBox="0 0 100 100"><defs>`)
	for id := 1; id <= k; id++ {
		items, x := genItems(id, 3)
		defs = append(defs, fmt.Sprintf("(%d, %s)", id, vlib.List(items)))
		xml.WriteString(fmt.Sprintf(`<g id="n%d">%s</g>`, id, x))
	}
	xml.WriteString("</defs>")
	items, x := genItems(0, 4)
	xml.WriteString(x + "</svg>")
	return pending{kind: "use", job: docJob{Svg: xml.String(), W: 100, H: 100},
		coqIn: vlib.List(defs) + " " + vlib.List(items), desc: map[string]interface{}{"svg": xml.String()}, tags: tagList(tags)}
}

// a basic shape with plain-number attributes (no arcs in path data): the
// element text without the closing "/>" and the Coq `shape`
func genPlainShape(r *vlib.Rng) (string, string) {
	switch r.Intn(7) {
	case 0, 1:
		xs, x := attrNum(r, false)
		ys, y := attrNum(r, false)
		ws, w := attrNum(r, true)
		hs, h := attrNum(r, true)
		el := fmt.Sprintf(`<rect x="%s" y="%s" width="%s" height="%s"`, xs, ys, ws, hs)
		rxq := "NoQ"
		if r.Chance(1, 4) {
			s, v := attrNum(r, true)
			el += fmt.Sprintf(` rx="%s"`, s)
			rxq = "(SomeQ " + vlib.Q32(v) + ")"
		}
		return el, fmt.Sprintf("ShRect %s %s %s %s %s NoQ", vlib.Q32(x), vlib.Q32(y), vlib.Q32(w), vlib.Q32(h), rxq)
	case 2:
		cxs, cx := attrNum(r, false)
		cys, cy := attrNum(r, false)
		rs, rr := attrNum(r, true)
		return fmt.Sprintf(`<circle cx="%s" cy="%s" r="%s"`, cxs, cys, rs), fmt.Sprintf("ShCircle %s %s %s", vlib.Q32(cx), vlib.Q32(cy), vlib.Q32(rr))
	case 3, 4:
		x1s, x1 := attrNum(r, false)
		y1s, y1 := attrNum(r, false)
		x2s, x2 := attrNum(r, false)
		y2s, y2 := attrNum(r, false)
		return fmt.Sprintf(`<line x1="%s" y1="%s" x2="%s" y2="%s"`, x1s, y1s, x2s, y2s),
			fmt.Sprintf("ShLine %s %s %s %s", vlib.Q32(x1), vlib.Q32(y1), vlib.Q32(x2), vlib.Q32(y2))
	case 5:
		closed := r.Bool()
		var ns []num
		for j := 2 * r.Range(1, 4); j > 0; j-- {
			ns = append(ns, genNum(r, false))
		}
		pts := spellNums(r, ns)
		tag := "polyline"
		if closed {
			tag = "polygon"
		}
		return fmt.Sprintf(`<%s points="%s"`, tag, pts), fmt.Sprintf("ShPoly %s %s", vlib.Bool(closed), coqBytes(pts))
	default:
		d := spellPath(r, genPath(r, false))
		return fmt.Sprintf(`<path d="%s"`, d), "ShPath " + coqBytes(d)
	}
}

// documents with several <use> of the same definitions: nested <svg> /
// <symbol> (own x y width height, viewBox, preserveAspectRatio, overflow),
// <g>, basic shapes (own stroke / stroke-width); every <use> with its own x y,
// with or without width + height, with or without stroke / stroke-width.
// Expected: every instance is drawn from the definition as written
// (Geom/UseGraph.v draw_uses).
func genUsesDoc(r *vlib.Rng) pending {
	tags := map[string]bool{}
	k := r.Range(1, 3)
	var xml strings.Builder
	xml.WriteString(`<svg xmlns="http://www.w3.org/2000/svg" xmlns:xlink="http://www.w3.org/1999/xlink" viewBox="0 0 200 200"><defs>`)
	var defs []string
	isView := make([]bool, k+1)
	content := func() (string, string) {
		var x strings.Builder
		var items []string
		for j := r.Range(0, 2); j > 0; j-- {
			el, c := genPlainShape(r)
			x.WriteString(el + "/>")
			items = append(items, c)
		}
		return x.String(), vlib.List(items)
	}
	num0 := func(nonneg bool) (string, fl) { // small numbers, often integers
		if r.Bool() {
			v := r.Range(0, 60)
			if !nonneg && r.Chance(1, 4) {
				v = -v
			}
			return strconv.Itoa(v), fl(v)
		}
		return attrNum(r, nonneg)
	}
	for id := 1; id <= k; id++ {
		switch kind := r.Intn(6); {
		case kind < 3: // viewport element
			isView[id] = true
			tag := "svg"
			if r.Bool() {
				tag = "symbol"
			}
			tags["target-"+tag] = true
			el := fmt.Sprintf(`<%s id="t%d"`, tag, id)
			var x, y fl
			if r.Chance(1, 3) {
				var xs, ys string
				xs, x = num0(false)
				ys, y = num0(false)
				el += fmt.Sprintf(` x="%s" y="%s"`, xs, ys)
			}
			ws, w := num0(true)
			hs, h := num0(true)
			el += fmt.Sprintf(` width="%s" height="%s"`, ws, hs)
			vb := "NoVb"
			if r.Chance(3, 4) {
				vxs, vx := num0(false)
				vys, vy := num0(false)
				vws, vw := num0(true)
				vhs, vh := num0(true)
				el += fmt.Sprintf(` viewBox="%s %s %s %s"`, vxs, vys, vws, vhs)
				vb = fmt.Sprintf("(SomeVb %s %s %s %s)", vlib.Q32(vx), vlib.Q32(vy), vlib.Q32(vw), vlib.Q32(vh))
				tags["target-viewBox"] = true
			}
			xi, yi, none, slice := 1, 1, false, false
			if r.Bool() {
				pos := []string{"Min", "Mid", "Max"}
				xi, yi = r.Intn(3), r.Intn(3)
				none, slice = r.Chance(1, 5), r.Bool()
				par := "x" + pos[xi] + "Y" + pos[yi]
				if none {
					par, xi, yi = "none", 0, 0
				}
				if slice {
					par += " slice"
				}
				el += fmt.Sprintf(` preserveAspectRatio="%s"`, par)
			}
			clip := true
			if r.Chance(1, 3) {
				ov := vlib.Pick(r, []string{"hidden", "visible", "auto"})
				el += fmt.Sprintf(` overflow="%s"`, ov)
				clip = ov == "hidden"
			}
			cx, cc := content()
			xml.WriteString(el + ">" + cx + "</" + tag + ">")
			al := []string{"AMin", "AMid", "AMax"}
			defs = append(defs, fmt.Sprintf("UDef %d (TView %s %s %s %s %s {| xpos := %s; ypos := %s; par_none := %s; par_slice := %s |} %s %s)", id,
				vlib.Q32(x), vlib.Q32(y), vlib.Q32(w), vlib.Q32(h), vb, al[xi], al[yi], vlib.Bool(none), vlib.Bool(slice), vlib.Bool(clip), cc))
		case kind < 4:
			tags["target-g"] = true
			cx, cc := content()
			xml.WriteString(fmt.Sprintf(`<g id="t%d">%s</g>`, id, cx))
			defs = append(defs, fmt.Sprintf("UDef %d (TGroup %s)", id, cc))
		default:
			tags["target-shape"] = true
			el, c := genPlainShape(r)
			el = strings.Replace(el, " ", fmt.Sprintf(` id="t%d" `, id), 1)
			stroke, sw := r.Chance(1, 2), "NoQ"
			if stroke {
				el += ` stroke="black"`
			}
			if r.Chance(1, 3) {
				v := r.Range(0, 9)
				el += fmt.Sprintf(` stroke-width="%d"`, v)
				sw = fmt.Sprintf("(SomeQ %d)", v)
			}
			xml.WriteString(el + "/>")
			defs = append(defs, fmt.Sprintf("UDef %d (TShape %s %s (%s))", id, vlib.Bool(stroke), sw, c))
		}
	}
	xml.WriteString("</defs>")
	var uses, usesXML []string
	n := r.Range(2, 5)
	main := r.Range(1, k)
	seen := map[int]int{}
	for i := 0; i < n; i++ {
		id := main
		if r.Chance(1, 3) {
			id = r.Range(1, k)
		}
		if r.Chance(1, 14) {
			id = k + 1
			tags["dangling"] = true
		}
		attr := "href"
		if r.Chance(1, 5) {
			attr = "xlink:href"
		}
		el := fmt.Sprintf(`<use %s="#t%d"`, attr, id)
		var x, y fl
		if r.Chance(2, 3) {
			var xs, ys string
			xs, x = num0(false)
			ys, y = num0(false)
			el += fmt.Sprintf(` x="%s" y="%s"`, xs, ys)
		}
		size := "NoSize"
		if r.Bool() {
			ws, w := num0(true)
			hs, h := num0(true)
			el += fmt.Sprintf(` width="%s" height="%s"`, ws, hs)
			size = fmt.Sprintf("(Size %s %s)", vlib.Q32(w), vlib.Q32(h))
			if id <= k && isView[id] {
				tags["use-sized-viewport"] = true
			}
		}
		stroke, sw := r.Chance(1, 4), "NoQ"
		if stroke {
			el += ` stroke="black"`
			tags["use-stroke"] = true
		}
		if r.Chance(1, 3) {
			v := r.Range(0, 9)
			el += fmt.Sprintf(` stroke-width="%d"`, v)
			sw = fmt.Sprintf("(SomeQ %d)", v)
			tags["use-stroke-width"] = true
		}
		el += "/>"
		seen[id]++
		if seen[id] == 2 {
			tags["same-id-twice"] = true
		}
		xml.WriteString(el)
		usesXML = append(usesXML, el)
		uses = append(uses, fmt.Sprintf("UseI %d %s %s %s %s %s", id, vlib.Q32(x), vlib.Q32(y), size, vlib.Bool(stroke), sw))
	}
	xml.WriteString("</svg>")
	return pending{kind: "uses", job: docJob{Svg: xml.String(), W: 200, H: 200, Full: true},
		coqIn: vlib.List(defs) + " " + vlib.List(uses), desc: map[string]interface{}{"svg": xml.String(), "uses": usesXML}, tags: tagList(tags)}
}

// reference graphs among paint servers, markers, clip paths and masks
func genRefsDoc(r *vlib.Rng) pending {
	k := r.Range(1, 5)
	tags := map[string]bool{}
	ref := func() string {
		id := r.Range(1, k)
		if r.Chance(1, 8) {
			id = k + 1
			tags["dangling"] = true
		}
		return fmt.Sprintf("url(#r%d)", id)
	}
	refAttrs := func() string {
		var s string
		for _, a := range []string{"fill", "stroke", "clip-path", "mask", "marker-start", "marker-mid", "marker-end", "marker", "filter"} {
			if r.Chance(1, 4) {
				s += fmt.Sprintf(` %s="%s"`, a, ref())
			}
		}
		return s
	}
	shape := func() string {
		if r.Bool() {
			return fmt.Sprintf(`<rect x="%d" y="%d" width="%d" height="%d"%s/>`, r.Range(0, 9), r.Range(0, 9), r.Range(1, 9), r.Range(1, 9), refAttrs())
		}
		return fmt.Sprintf(`<path d="M%d %d L%d %d L%d %d" stroke="black"%s/>`, r.Range(0, 9), r.Range(0, 9), r.Range(0, 9), r.Range(0, 9), r.Range(0, 9), r.Range(0, 9), refAttrs())
	}
	var xml strings.Builder
	xml.WriteString(`<svg xmlns="http://www.w3.org/2000/svg" xmlns:xlink="http://www.w3.org/1999/xlink" viewBox="0 0 20 20"><defs>`)
	for id := 1; id <= k; id++ {
		href := ""
		if r.Chance(1, 2) {
			t := r.Range(1, k)
			if r.Chance(1, 8) {
				t = k + 1
			}
			href = fmt.Sprintf(` href="#r%d"`, t)
		}
		var kids string
		for j := r.Range(0, 2); j > 0; j-- {
			kids += shape()
		}
		switch r.Intn(6) {
		case 0:
			xml.WriteString(fmt.Sprintf(`<linearGradient id="r%d"%s><stop offset="0" stop-color="red"/><stop offset="1" stop-color="blue"/></linearGradient>`, id, href))
			tags["gradient"] = true
		case 1:
			xml.WriteString(fmt.Sprintf(`<radialGradient id="r%d"%s></radialGradient>`, id, href))
			tags["gradient"] = true
		case 2:
			xml.WriteString(fmt.Sprintf(`<pattern id="r%d" width="2" height="2" patternUnits="userSpaceOnUse"%s%s>%s</pattern>`, id, href, refAttrs(), kids))
			tags["pattern"] = true
		case 3:
			xml.WriteString(fmt.Sprintf(`<marker id="r%d" markerWidth="2" markerHeight="2"%s>%s</marker>`, id, refAttrs(), kids))
			tags["marker"] = true
		case 4:
			xml.WriteString(fmt.Sprintf(`<clipPath id="r%d"%s>%s</clipPath>`, id, refAttrs(), kids))
			tags["clipPath"] = true
		default:
			xml.WriteString(fmt.Sprintf(`<mask id="r%d"%s>%s</mask>`, id, refAttrs(), kids))
			tags["mask"] = true
		}
	}
	xml.WriteString("</defs>")
	for j := r.Range(1, 3); j > 0; j-- {
		xml.WriteString(shape())
	}
	xml.WriteString("</svg>")
	return pending{kind: "refs", job: docJob{Svg: xml.String(), W: 40, H: 40}, coqIn: "",
		desc: map[string]interface{}{"svg": xml.String()}, tags: tagList(tags)}
}

func coqDres(status int, out docOut) string {
	var items []string
	for _, o := range out.Ops {
		var a [6]fl
		copy(a[:], o[1:])
		items = append(items, coqIop(int(o[0]), a))
	}
	return fmt.Sprintf("(DRes %d %s)", status, vlib.List(items))
}

// ------------------------------------------------------------------ corpus

type corpusEntry struct {
	Kind string     `json:"kind"`
	D    string     `json:"d"`
	Cmds [][]string `json:"cmds"`
	Svg  string     `json:"svg"`
}

func readCorpus() []corpusEntry {
	var out []corpusEntry
	files, _ := filepath.Glob("/verif/corpus/C18/*.jsonl")
	sort.Strings(files)
	for _, f := range files {
		fd, err := os.Open(f)
		if err != nil {
			continue
		}
		sc := bufio.NewScanner(fd)
		sc.Buffer(make([]byte, 1<<20), 1<<20)
		for sc.Scan() {
			line := strings.TrimSpace(sc.Text())
			if line == "" || strings.HasPrefix(line, "#") {
				continue
			}
			var e corpusEntry
			if json.Unmarshal([]byte(line), &e) == nil {
				out = append(out, e)
			}
		}
		fd.Close()
	}
	return out
}

// ------------------------------------------------------------------ main

func main() {
	if vlib.IsWorker() {
		vlib.WorkerMain(runDoc)
	}
	out := flag.String("out", "cases.jsonl", "output file")
	n := flag.Int("n", 3000, "number of cases")
	flag.Parse()
	rng := vlib.NewRng(vlib.Seed())
	w := vlib.NewWriter(*out)
	defer w.Close()

	var docs []pending

	// corpus first
	for _, e := range readCorpus() {
		switch e.Kind {
		case "path":
			var segs []seg
			ok := true
			for _, c := range e.Cmds {
				s := seg{letter: c[0][0]}
				for i, a := range c[1:] {
					nm, good := parseSpelling(a)
					ok = ok && good
					if s.letter|0x20 == 'a' && (i%7 == 3 || i%7 == 4) {
						nm.flag = true
					}
					s.args = append(s.args, nm)
				}
				segs = append(segs, s)
			}
			if ok {
				w.Add(pathCase(segs, e.D, "corpus"))
			}
		case "bad":
			w.Add(badCase(e.D, "corpus"))
		case "refs":
			docs = append(docs, pending{kind: "refs", job: docJob{Svg: e.Svg, W: 40, H: 40}, desc: map[string]interface{}{"svg": e.Svg}, tags: []string{"corpus"}})
		}
	}

	nDocs := *n / 5
	for i := 0; i < nDocs; i++ {
		r := rng.Fork()
		switch k := r.Intn(11); {
		case k < 5:
			docs = append(docs, genShapesDoc(r))
		case k < 7:
			docs = append(docs, genUseDoc(r))
		case k < 9:
			docs = append(docs, genUsesDoc(r))
		default:
			docs = append(docs, genRefsDoc(r))
		}
	}
	inputs := make([]string, len(docs))
	for i, d := range docs {
		b, _ := json.Marshal(d.job)
		inputs[i] = string(b)
	}
	results := vlib.RunPool(inputs, 8, 90*time.Second, 4<<20)
	for i, d := range docs {
		res := results[i]
		var o docOut
		status := 0
		switch res.Status {
		case "ok":
			json.Unmarshal([]byte(res.Out), &o)
			status = o.Status
		case "fatal":
			status = 3
			o.Msg = vlib.FatalKind(res.Out)
		default:
			status = 4
		}
		d.desc["status"] = []string{"ok", "parse-error", "panic", "fatal", "hang"}[status]
		d.desc["msg"] = o.Msg
		d.desc["ops"] = o.Ops
		tags := append(d.tags, "status-"+d.desc["status"].(string))
		var coq string
		switch d.kind {
		case "shapes":
			coq = fmt.Sprintf("CShapes %s %s", d.coqIn, coqDres(status, o))
		case "use":
			coq = fmt.Sprintf("CUse %s %s", d.coqIn, coqDres(status, o))
		case "uses":
			coq = fmt.Sprintf("CUses %s %s", d.coqIn, coqDres(status, o))
		default:
			coq = fmt.Sprintf("CRefs %s", coqDres(status, docOut{}))
		}
		w.Add(vlib.Case{Kind: d.kind, Coq: coq, Desc: d.desc, Tags: tags, Nontrivial: true, Key: d.job.Svg})
		// the root viewBox transform as drawn
		if d.kind == "shapes" && status == 0 && d.vb != nil && d.vb.hasViewbox && len(o.Root) == 6 && vlib.Finite32(o.Root...) {
			vb := d.vb
			al := []string{"AMin", "AMid", "AMax"}
			w.Add(vlib.Case{Kind: "viewbox-doc", Coq: fmt.Sprintf("CViewbox {| xpos := %s; ypos := %s; par_none := %s; par_slice := %s |} %s %s %s %s %s %s %s %s %s %s",
				al[vb.xi], al[vb.yi], vlib.Bool(vb.none), vlib.Bool(vb.slice), vlib.Q32(d.job.W), vlib.Q32(d.job.H),
				vlib.Q32(vb.vx), vlib.Q32(vb.vy), vlib.Q32(vb.vw), vlib.Q32(vb.vh),
				vlib.Q32(o.Root[0]), vlib.Q32(o.Root[3]), vlib.Q32(o.Root[4]), vlib.Q32(o.Root[5])),
				Desc: map[string]interface{}{"svg": d.job.Svg, "width": d.job.W, "height": d.job.H, "root_transform": o.Root}, Nontrivial: true,
				Tags: []string{"par=" + vb.par}})
		}
	}

	for w.N() < *n {
		r := rng.Fork()
		switch k := r.Intn(20); {
		case k < 9:
			segs := genPath(r, true)
			w.Add(pathCase(segs, spellPath(r, segs)))
		case k < 12:
			segs := genArcPath(r)
			w.Add(pathCase(segs, spellPath(r, segs), "arc-stream"))
		case k < 16:
			var d, origin string
			if r.Chance(2, 3) {
				d, origin = mutate(r, spellPath(r, genPath(r, true))), "mutated"
			} else {
				b := make([]byte, r.Range(0, 24))
				for i := range b {
					b[i] = badAlphabet[r.Intn(len(badAlphabet))]
				}
				d, origin = string(b), "random"
			}
			w.Add(badCase(d, origin))
		case k < 18:
			arc := r.Chance(1, 3)
			extreme := r.Chance(1, 3)
			var ns []num
			m := r.Range(0, 9)
			if arc {
				m = 7 * r.Range(0, 2)
			}
			for j := 0; j < m; j++ {
				if arc && (j%7 == 3 || j%7 == 4) {
					ns = append(ns, flagNum(r))
				} else if extreme && r.Chance(1, 2) {
					ns = append(ns, genExtreme(r))
				} else {
					ns = append(ns, genNum(r, false))
				}
			}
			d := genWsp(r, 0) + spellNums(r, ns) + genWsp(r, 0)
			var vals []fl
			var err error
			o := render.Guard(func() { vals, err = svg.VerifParsePoints(d, arc) })
			if o.Status != "ok" {
				w.Add(badCase(d, "points-panic"))
				continue
			}
			var qs, outs []string
			for _, a := range ns {
				qs = append(qs, ratQ(a.v))
			}
			fin := true
			for _, v := range vals {
				if !vlib.Finite32(v) {
					fin = false
				}
			}
			if !fin && err == nil {
				continue
			}
			for _, v := range vals {
				outs = append(outs, q32l(v))
			}
			inRange := true
			for _, a := range ns {
				if new(big.Rat).Abs(a.v).Cmp(overflow32) >= 0 {
					inRange = false
				}
			}
			tags := []string{}
			if extreme {
				tags = append(tags, "extreme")
			}
			if !inRange {
				tags = append(tags, "out-of-range")
			}
			w.Add(vlib.Case{Kind: "points", Coq: fmt.Sprintf("CPoints %s %s %s %s %s %s", vlib.Bool(arc), vlib.Bool(inRange), vlib.List(qs), coqBytes(d), vlib.Bool(err == nil), vlib.List(outs)),
				Desc: map[string]interface{}{"s": d, "arc": arc, "out": vals, "err": fmt.Sprint(err)}, Nontrivial: m >= 2, Tags: tags})
		default: // viewBox / preserveAspectRatio through the hook (C17's VerifViewboxTransform)
			pos := []string{"Min", "Mid", "Max"}
			xi, yi := r.Intn(3), r.Intn(3)
			none := r.Chance(1, 5)
			slice := r.Bool()
			par := "x" + pos[xi] + "Y" + pos[yi]
			if none {
				par = "none"
				xi, yi = 0, 0
			}
			if slice {
				par += " slice"
			} else if r.Bool() {
				par += " meet"
			}
			width, height := fl(r.Range(1, 400)), fl(r.Range(1, 400))
			vb := svg.Rectangle{X: fl(r.Range(-50, 50)), Y: fl(r.Range(-50, 50)), Width: fl(r.Range(0, 300)), Height: fl(r.Range(0, 300))}
			if r.Chance(1, 2) {
				width, height = fl(r.Range(1, 8000))/8, fl(r.Range(1, 8000))/8
				vb.Width, vb.Height = fl(r.Range(1, 3000))/7, fl(r.Range(1, 3000))/7
			}
			sx, sy, tx, ty := svg.VerifViewboxTransform(par, width, height, true, vb)
			if !vlib.Finite32(sx, sy, tx, ty) {
				continue
			}
			al := []string{"AMin", "AMid", "AMax"}
			w.Add(vlib.Case{Kind: "viewbox", Coq: fmt.Sprintf("CViewbox {| xpos := %s; ypos := %s; par_none := %s; par_slice := %s |} %s %s %s %s %s %s %s %s %s %s",
				al[xi], al[yi], vlib.Bool(none), vlib.Bool(slice), vlib.Q32(width), vlib.Q32(height), vlib.Q32(vb.X), vlib.Q32(vb.Y), vlib.Q32(vb.Width), vlib.Q32(vb.Height),
				vlib.Q32(sx), vlib.Q32(sy), vlib.Q32(tx), vlib.Q32(ty)),
				Desc: map[string]interface{}{"par": par, "w": width, "h": height, "viewbox": vb, "out": []fl{sx, sy, tx, ty}}, Nontrivial: true})
		}
	}
}
