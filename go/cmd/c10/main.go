// Harness for C10: runs /repo's block layout (html/layout blocks.go,
// percentages.go, min_max.go) on generated documents of nested empty <div>s
// and on synthetic boxes through the verif hooks, and writes one case per run
// as a Coq term of type Check.C10.case (input + what the implementation
// returned, every float32 as an exact rational).
package main

import (
	"flag"
	"fmt"
	"math"
	"os"
	"path/filepath"
	"sort"
	"strconv"
	"strings"

	"verifharness/vlib"
	"verifharness/vlib/render"

	pr "github.com/benoitkugler/webrender/css/properties"
	bo "github.com/benoitkugler/webrender/html/boxes"
	"github.com/benoitkugler/webrender/html/layout"
	"github.com/benoitkugler/webrender/text"
)

type fl = pr.Float

const pageCSS = "@page { size: 10000px 100000px; margin: 0 }"

var fonts text.FontConfiguration

// ------------------------------------------------------------------ printers

func q(x fl) string { return vlib.Q32(float32(x)) }

func finite(xs ...fl) bool {
	for _, x := range xs {
		if math.IsNaN(float64(x)) || math.IsInf(float64(x), 0) {
			return false
		}
	}
	return true
}

// length | percentage | auto (computed value, as stored in box.Style)
func coqLen(v pr.DimOrS) (string, bool) {
	if v.S == "auto" {
		return "LAuto", true
	}
	if v.S != "" || !finite(v.Value) {
		return "", false
	}
	switch v.Unit {
	case pr.Px:
		return "(LPx " + q(v.Value) + ")", true
	case pr.Perc:
		return "(LPct " + q(v.Value) + ")", true
	}
	return "", false
}

// max-width / max-height: length | percentage | none (none is stored as +Inf px)
func coqMax(v pr.DimOrS) (string, bool) {
	if v.S != "" {
		return "", false
	}
	if v.Unit == pr.Px && math.IsInf(float64(v.Value), 1) {
		return "MNone", true
	}
	if !finite(v.Value) {
		return "", false
	}
	switch v.Unit {
	case pr.Px:
		return "(MPx " + q(v.Value) + ")", true
	case pr.Perc:
		return "(MPct " + q(v.Value) + ")", true
	}
	return "", false
}

func coqStyle(s pr.ElementStyle) (string, bool) {
	ok := true
	l := func(v pr.DimOrS) string {
		t, o := coqLen(v)
		ok = ok && o
		return t
	}
	m := func(v pr.DimOrS) string {
		t, o := coqMax(v)
		ok = ok && o
		return t
	}
	p := func(v pr.DimOrS) string { // paddings: never auto
		if v.S != "" || !finite(v.Value) {
			ok = false
			return ""
		}
		switch v.Unit {
		case pr.Px:
			return "(PPx " + q(v.Value) + ")"
		case pr.Perc:
			return "(PPct " + q(v.Value) + ")"
		}
		ok = false
		return ""
	}
	b := func(v pr.DimOrS) string {
		if v.S != "" || !finite(v.Value) { // used border width = Style value (unit Scalar), percentages.go:102
			ok = false
		}
		return q(v.Value)
	}
	var sizing string
	switch s.GetBoxSizing() {
	case "content-box":
		sizing = "ContentBox"
	case "padding-box":
		sizing = "PaddingBox"
	case "border-box":
		sizing = "BorderBox"
	default:
		ok = false
	}
	if s.GetBorderCollapse() == "collapse" {
		ok = false // the model takes used border widths = computed ones
	}
	parts := []string{
		l(s.GetMarginTop()), l(s.GetMarginRight()), l(s.GetMarginBottom()), l(s.GetMarginLeft()),
		p(s.GetPaddingTop()), p(s.GetPaddingRight()), p(s.GetPaddingBottom()), p(s.GetPaddingLeft()),
		b(s.GetBorderTopWidth()), b(s.GetBorderRightWidth()), b(s.GetBorderBottomWidth()), b(s.GetBorderLeftWidth()),
		l(s.GetWidth()), l(s.GetHeight()), l(s.GetMinWidth()), l(s.GetMinHeight()),
		m(s.GetMaxWidth()), m(s.GetMaxHeight()), sizing,
	}
	return "(mkStyle " + strings.Join(parts, " ") + ")", ok
}

func coqMf(v pr.MaybeFloat) (string, bool) {
	if v == nil {
		return "", false
	}
	if v == pr.AutoF {
		return "OAuto", true
	}
	f, isF := v.(pr.Float)
	if !isF || !finite(f) {
		return "", false
	}
	return "(OVal " + q(f) + ")", true
}

func coqExt(v pr.MaybeFloat) (string, bool) {
	f, isF := v.(pr.Float)
	if !isF || math.IsNaN(float64(f)) || math.IsInf(float64(f), -1) {
		return "", false
	}
	if math.IsInf(float64(f), 1) {
		return "PInf", true
	}
	return "(Fin " + q(f) + ")", true
}

// ------------------------------------------------------------------ generators

func num(x float64) string { return strconv.FormatFloat(x, 'f', -1, 64) }

// a non negative magnitude, from several distributions (float32 parsing of
// the decimal text is what the implementation uses; it is read back)
func mag(r *vlib.Rng, big bool) float64 {
	switch r.Intn(7) {
	case 0:
		return float64(r.Range(0, 5))
	case 1:
		return float64(r.Range(1, 60))
	case 2:
		return float64(r.Range(1, 400)) / 8
	case 3:
		return float64(r.Range(1, 999)) / 10
	case 4:
		return float64(r.Range(1, 9999)) / 100
	case 5:
		if big {
			return float64(r.Range(50, 1200))
		}
		return float64(r.Range(1, 30))
	default:
		return float64(r.Range(1, 20))
	}
}

func pct(r *vlib.Rng) float64 {
	switch r.Intn(4) {
	case 0:
		return vlib.Pick(r, []float64{0, 12.5, 25, 50, 75, 100})
	case 1:
		return float64(r.Range(0, 40))
	case 2:
		return float64(r.Range(1, 999)) / 10
	default:
		return float64(r.Range(1, 30)) / 3 // not exactly representable
	}
}

type genOpts struct {
	leaf     bool // leaf (hook) cases: more extreme values
	exact    bool // dyadic values only: the float32 computation stays exact, so the CSS equations can be evaluated on the output
	boundary bool // boundary values: zeros, equal sums, huge negative margins, min > max, 0% / 100%
	solid    bool // (documents) this box must not be collapsed through: give it a height
}

var boundaryLens = []float64{0, 0, 0, 1, 0.5, 2, 10, 100, 1000, 4000, 10000, 0.125}

func exactMag(r *vlib.Rng, big bool) float64 {
	switch r.Intn(5) {
	case 0:
		return float64(r.Range(0, 4))
	case 1:
		return float64(r.Range(1, 64))
	case 2:
		return float64(r.Range(1, 256)) / 4
	case 3:
		if big {
			return float64(r.Range(8, 300)) * 4
		}
		return float64(r.Range(1, 40)) / 2
	default:
		return float64(r.Range(1, 24))
	}
}

// one inline style
func genStyle(r *vlib.Rng, o genOpts) string {
	var sb strings.Builder
	add := func(k, v string) { sb.WriteString(k + ":" + v + ";") }
	mag := func(r *vlib.Rng, big bool) float64 {
		if o.boundary {
			return vlib.Pick(r, boundaryLens)
		}
		if o.exact {
			return exactMag(r, big)
		}
		return mag(r, big)
	}
	pct := func(r *vlib.Rng) float64 {
		if o.boundary {
			return vlib.Pick(r, []float64{0, 0, 100, 50, 200, 1})
		}
		if o.exact {
			return vlib.Pick(r, []float64{0, 25, 50, 50, 100, 12.5, 75})
		}
		return pct(r)
	}
	margin := func(side string, vertical bool) {
		switch k := r.Intn(20); {
		case k < 6: // initial (0)
		case k < 12:
			v := mag(r, false)
			if r.Chance(1, 3) {
				v = -v
			}
			add("margin-"+side, num(v)+"px")
		case k < 14:
			v := pct(r) / 10
			if r.Chance(1, 4) {
				v = -v
			}
			add("margin-"+side, num(v)+"%")
		case k < 17:
			add("margin-"+side, "auto")
		case k < 19:
			add("margin-"+side, num(float64(r.Range(1, 40)))+"px")
		default:
			add("margin-"+side, "0")
		}
	}
	for _, s := range []string{"top", "right", "bottom", "left"} {
		margin(s, s == "top" || s == "bottom")
	}
	padBorder := r.Intn(10)
	for _, s := range []string{"top", "right", "bottom", "left"} {
		// paddings/borders: mostly zero so that margins collapse through
		if padBorder >= 6 || r.Chance(1, 10) {
			switch r.Intn(6) {
			case 0:
				add("padding-"+s, num(mag(r, false))+"px")
			case 1:
				add("padding-"+s, num(pct(r)/20)+"%")
			case 2:
				add("padding-"+s, "0")
			}
			switch r.Intn(5) {
			case 0:
				add("border-"+s, num(mag(r, false))+"px solid")
			case 1:
				add("border-"+s, num(float64(r.Range(0, 3)))+"px solid")
			}
		}
	}
	switch k := r.Intn(10); {
	case k < 5: // auto
	case k < 8:
		add("width", num(mag(r, true))+"px")
	case k < 9:
		add("width", num(pct(r))+"%")
	default:
		add("width", "auto")
	}
	hk := r.Intn(12)
	if o.solid && (hk < 6 || hk == 8 || hk == 11) {
		hk = 10
	}
	switch k := hk; {
	case k < 6: // auto
	case k < 8:
		add("height", num(mag(r, false)+1)+"px")
	case k < 9:
		add("height", "0")
	case k < 10:
		add("height", num(pct(r))+"%")
	case k < 11:
		add("height", num(float64(r.Range(1, 300)))+"px")
	default:
		add("height", "auto")
	}
	if r.Chance(1, 5) {
		switch r.Intn(4) {
		case 0:
			add("min-width", num(mag(r, true))+"px")
		case 1:
			add("min-width", num(pct(r))+"%")
		case 2:
			add("min-width", "auto")
		default:
			add("min-width", "0")
		}
	}
	if r.Chance(1, 5) {
		switch r.Intn(4) {
		case 0:
			add("max-width", num(mag(r, true))+"px")
		case 1:
			add("max-width", num(pct(r))+"%")
		case 2:
			add("max-width", "none")
		default:
			add("max-width", num(float64(r.Range(0, 3)))+"px")
		}
	}
	if r.Chance(1, 5) {
		switch r.Intn(4) {
		case 0:
			add("min-height", num(mag(r, false))+"px")
		case 1:
			add("min-height", num(pct(r))+"%")
		case 2:
			add("min-height", "0")
		default:
			add("min-height", "auto")
		}
	}
	if r.Chance(1, 5) {
		switch r.Intn(4) {
		case 0:
			add("max-height", num(mag(r, false))+"px")
		case 1:
			add("max-height", num(pct(r))+"%")
		case 2:
			add("max-height", "none")
		default:
			add("max-height", "0")
		}
	}
	if r.Chance(3, 10) {
		add("box-sizing", vlib.Pick(r, []string{"border-box", "border-box", "padding-box", "content-box"}))
	}
	return sb.String()
}

// nested <div>s: at most `budget` boxes, depth <= 5 below <body>.
// The first child of a box is usually given a height: a first child whose margins
// collapse through it, under a parent without top border / padding, is the pattern of
// the known finding C10/through-first-child; it is still generated, less often.
func genDivs(r *vlib.Rng, depth int, budget *int, sb *strings.Builder, o genOpts) {
	n := r.Range(0, 4)
	if depth == 0 {
		n = r.Range(1, 5)
	}
	for i := 0; i < n && *budget > 0; i++ {
		*budget--
		oo := o
		oo.solid = i == 0 && r.Chance(3, 4)
		sb.WriteString(`<div style="` + genStyle(r, oo) + `">`)
		if depth < 4 && r.Chance(3, 5) {
			genDivs(r, depth+1, budget, sb, o)
		}
		sb.WriteString("</div>")
	}
}

func genDoc(r *vlib.Rng, o genOpts) string {
	var sb strings.Builder
	hs, bs := "", ""
	if r.Chance(1, 3) {
		hs = genStyle(r, o)
	}
	if r.Chance(1, 2) {
		bs = genStyle(r, o)
	}
	sb.WriteString(`<html style="` + hs + `"><body style="` + bs + `">`)
	budget := r.Range(1, 23)
	genDivs(r, 0, &budget, &sb, o)
	sb.WriteString("</body></html>")
	return sb.String()
}

// chains and ladders that exercise the adjoining-margins list specifically:
// deep first-child / last-child chains, runs of empty siblings, with small integer margins
func genChainDoc(r *vlib.Rng) string {
	var sb strings.Builder
	m := func() string {
		v := r.Range(-12, 24)
		if r.Chance(1, 4) {
			v = 0
		}
		return strconv.Itoa(v) + "px"
	}
	box := func(extra string) string {
		return `<div style="margin-top:` + m() + `;margin-bottom:` + m() + `;` + extra + `">`
	}
	extra := func(solid bool) string {
		switch k := r.Intn(12); {
		case solid || k < 3:
			return "height:" + strconv.Itoa(r.Range(1, 30)) + "px;"
		case k == 3:
			return "border-top:" + strconv.Itoa(r.Range(1, 3)) + "px solid;"
		case k == 4:
			return "padding-bottom:" + strconv.Itoa(r.Range(1, 5)) + "px;"
		case k == 5:
			return "border-bottom:1px solid;"
		case k == 6:
			return "min-height:" + strconv.Itoa(r.Range(0, 6)) + "px;"
		case k == 7:
			return "height:0;"
		case k == 8:
			return "padding-top:" + strconv.Itoa(r.Range(1, 5)) + "px;"
		default:
			return ""
		}
	}
	sb.WriteString("<html><body>")
	budget := r.Range(3, 22)
	var rec func(depth int)
	rec = func(depth int) {
		n := r.Range(1, 4)
		for i := 0; i < n && budget > 0; i++ {
			budget--
			sb.WriteString(box(extra(i == 0 && r.Chance(2, 3))))
			if depth < 4 && r.Chance(2, 3) {
				rec(depth + 1)
			}
			sb.WriteString("</div>")
		}
	}
	rec(0)
	sb.WriteString("</body></html>")
	return sb.String()
}

// ------------------------------------------------------------------ document cases

type boxDump struct {
	coqNode string
	obs     []string
	n       int
	depth   int
	ok      bool
	why     string
}

func dumpBox(b bo.Box, depth int, d *boxDump) string {
	if !bo.BlockT.IsInstance(b) {
		d.ok, d.why = false, "non-block box "+b.Type().String()
		return ""
	}
	f := b.Box()
	st, ok := coqStyle(f.Style)
	if !ok {
		d.ok, d.why = false, "style outside the modelled domain"
		return ""
	}
	if f.Style.GetFloat() != "none" || f.Style.GetPosition().String != "static" || f.Style.GetDirection() != "ltr" ||
		f.Style.GetOverflow() != "visible" || f.Style.GetClear() != "none" {
		d.ok, d.why = false, "float/position/direction/overflow outside the modelled domain"
		return ""
	}
	vals := []pr.MaybeFloat{
		f.PositionX, f.PositionY, f.Width, f.Height, f.MarginTop, f.MarginRight, f.MarginBottom, f.MarginLeft,
		f.PaddingTop, f.PaddingRight, f.PaddingBottom, f.PaddingLeft,
		f.BorderTopWidth, f.BorderRightWidth, f.BorderBottomWidth, f.BorderLeftWidth,
	}
	parts := make([]string, len(vals))
	for i, v := range vals {
		x, isF := v.(pr.Float)
		if !isF || !finite(x) {
			d.ok, d.why = false, fmt.Sprintf("used value %d is not a finite number: %v", i, v)
			return ""
		}
		parts[i] = q(x)
	}
	d.obs = append(d.obs, "(OB "+strings.Join(parts, " ")+")")
	d.n++
	if depth > d.depth {
		d.depth = depth
	}
	var kids []string
	for _, c := range f.Children {
		kids = append(kids, dumpBox(c, depth+1, d))
		if !d.ok {
			return ""
		}
	}
	return "(Node " + st + " " + vlib.List(kids) + ")"
}

func descBox(b bo.Box, depth int, out *[]string) {
	f := b.Box()
	*out = append(*out, fmt.Sprintf("%s<%s> x=%v y=%v w=%v h=%v m=[%v %v %v %v] p=[%v %v %v %v] b=[%v %v %v %v]",
		strings.Repeat("  ", depth), f.ElementTag(), f.PositionX, f.PositionY, f.Width, f.Height,
		f.MarginTop, f.MarginRight, f.MarginBottom, f.MarginLeft,
		f.PaddingTop, f.PaddingRight, f.PaddingBottom, f.PaddingLeft,
		f.BorderTopWidth, f.BorderRightWidth, f.BorderBottomWidth, f.BorderLeftWidth))
	for _, c := range f.Children {
		descBox(c, depth+1, out)
	}
}

func docTags(html string) []string {
	set := map[string]bool{}
	for _, k := range []string{"%", "auto", "min-width", "max-width", "min-height", "max-height", "border-box", "padding-box",
		"padding-", "border-", "height", "width", ":-"} {
		if strings.Contains(html, k) {
			set[strings.Trim(k, ":")] = true
		}
	}
	var out []string
	for k := range set {
		out = append(out, k)
	}
	sort.Strings(out)
	return out
}

func runDoc(w *vlib.Writer, html string, kind string) {
	var pages []*bo.PageBox
	var err error
	oc := render.Guard(func() { pages, err = render.Layout(html, []string{pageCSS}, false, true, fonts) })
	if oc.Status != "ok" || err != nil {
		// a crash on a document of plain block boxes contradicts the model (total on this domain)
		w.Add(vlib.Case{Kind: kind, Coq: "CCrash", Desc: map[string]interface{}{"html": html, "outcome": oc, "err": fmt.Sprint(err)},
			Tags: []string{"crash"}, Nontrivial: true})
		return
	}
	if len(pages) != 1 || len(pages[0].Children) == 0 {
		w.Add(vlib.Case{Kind: kind, Coq: "(CPages " + vlib.Z(len(pages)) + ")", Desc: map[string]interface{}{"html": html, "pages": len(pages)},
			Tags: []string{"pages"}, Nontrivial: true})
		return
	}
	page := pages[0]
	root := page.Children[0]
	d := boxDump{ok: true}
	node := dumpBox(root, 0, &d)
	if !d.ok {
		w.Add(vlib.Case{Kind: kind, Coq: "CSkip", Desc: map[string]interface{}{"html": html, "skipped": d.why}, Tags: []string{"skipped"}})
		return
	}
	var desc []string
	descBox(root, 0, &desc)
	coq := fmt.Sprintf("CDoc %s %s %s %s %s %s", q(page.ContentBoxX()), q(page.ContentBoxY()), q(page.Width.V()), q(page.Height.V()),
		node, vlib.List(d.obs))
	tags := docTags(html)
	tags = append(tags, fmt.Sprintf("boxes<=%d", (d.n+4)/5*5), fmt.Sprintf("depth=%d", d.depth))
	w.Add(vlib.Case{Kind: kind, Coq: coq, Desc: map[string]interface{}{"html": html, "page_css": pageCSS, "impl_boxes": desc},
		Tags: tags, Nontrivial: d.n > 3})
}

// ------------------------------------------------------------------ leaf cases (hooks)

func rfl(r *vlib.Rng, neg bool) fl {
	var v fl
	switch r.Intn(6) {
	case 0:
		v = fl(r.Range(0, 6))
	case 1:
		v = fl(r.Range(0, 800)) / 8
	case 2:
		v = fl(float32(r.Range(0, 9999)) / 10)
	case 3:
		v = fl(float32(r.Float01() * 500))
	case 4:
		v = fl(r.Range(0, 3000))
	default:
		v = fl(float32(r.Range(1, 999)) / 7)
	}
	if neg && r.Chance(1, 3) {
		v = -v
	}
	return v
}

func rmf(r *vlib.Rng, neg bool, autoNum int) pr.MaybeFloat {
	if r.Chance(autoNum, 10) {
		return pr.AutoF
	}
	return rfl(r, neg)
}

func leafWidth(w *vlib.Writer, r *vlib.Rng) {
	box := &bo.BlockBox{}
	f := box.Box()
	f.PositionX = rfl(r, true)
	f.MarginLeft, f.MarginRight = rmf(r, true, 4), rmf(r, true, 4)
	f.Width = rmf(r, false, 4)
	f.PaddingLeft, f.PaddingRight = fl(0), fl(0)
	f.BorderLeftWidth, f.BorderRightWidth = fl(0), fl(0)
	if r.Bool() {
		f.PaddingLeft, f.PaddingRight = rfl(r, false), rfl(r, false)
	}
	if r.Bool() {
		f.BorderLeftWidth, f.BorderRightWidth = rfl(r, false), rfl(r, false)
	}
	f.MinWidth = fl(0)
	f.MaxWidth = pr.Inf
	if r.Chance(1, 3) {
		f.MinWidth = rfl(r, false)
	}
	if r.Chance(1, 3) {
		f.MaxWidth = rfl(r, false)
	}
	cbw := rfl(r, false)
	if r.Chance(1, 2) {
		cbw = fl(r.Range(0, 2000))
	}
	if r.Chance(1, 5) { // boundary: the box exactly fills / just overflows the containing block
		sum := f.PaddingLeft.V() + f.PaddingRight.V() + f.BorderLeftWidth.V() + f.BorderRightWidth.V() + f.Width.V() + f.MarginLeft.V() + f.MarginRight.V()
		switch r.Intn(4) {
		case 0:
			cbw = sum
		case 1:
			cbw = fl(math.Nextafter32(float32(sum), float32(math.Inf(-1))))
		case 2:
			cbw = 0
		default:
			cbw = fl(math.Nextafter32(float32(sum), float32(math.Inf(1))))
		}
	}
	switch r.Intn(12) {
	case 0:
		f.MaxWidth = f.MinWidth
	case 1: // min > max
		f.MinWidth, f.MaxWidth = rfl(r, false)+100, rfl(r, false)/4
	case 2:
		f.MaxWidth = fl(0)
	}
	mf := func(v pr.MaybeFloat) string { s, _ := coqMf(v); return s }
	ex := func(v pr.MaybeFloat) string { s, _ := coqExt(v); return s }
	in := fmt.Sprintf("(WIn %s %s %s %s %s %s %s %s %s %s)", q(f.PositionX), mf(f.MarginLeft), mf(f.MarginRight), mf(f.Width),
		q(f.PaddingLeft.V()), q(f.PaddingRight.V()), q(f.BorderLeftWidth.V()), q(f.BorderRightWidth.V()), q(f.MinWidth.V()), ex(f.MaxWidth))
	desc := map[string]interface{}{"in": fmt.Sprintf("x=%v ml=%v mr=%v w=%v pl=%v pr=%v bl=%v br=%v min=%v max=%v cb=%v",
		f.PositionX, f.MarginLeft, f.MarginRight, f.Width, f.PaddingLeft, f.PaddingRight, f.BorderLeftWidth, f.BorderRightWidth, f.MinWidth, f.MaxWidth, cbw)}
	tags := []string{}
	if f.Width == pr.AutoF {
		tags = append(tags, "w-auto")
	}
	if f.MarginLeft == pr.AutoF {
		tags = append(tags, "ml-auto")
	}
	if f.MarginRight == pr.AutoF {
		tags = append(tags, "mr-auto")
	}
	oc := render.Guard(func() { layout.VerifBlockLevelWidth(box, cbw) })
	if oc.Status != "ok" {
		desc["outcome"] = oc
		w.Add(vlib.Case{Kind: "width", Coq: "CCrash", Desc: desc, Tags: []string{"crash"}, Nontrivial: true})
		return
	}
	o1, ok1 := coqMf(f.MarginLeft)
	o2, ok2 := coqMf(f.MarginRight)
	o3, ok3 := coqMf(f.Width)
	desc["out"] = fmt.Sprintf("x=%v ml=%v mr=%v w=%v", f.PositionX, f.MarginLeft, f.MarginRight, f.Width)
	if !(ok1 && ok2 && ok3 && finite(f.PositionX)) {
		w.Add(vlib.Case{Kind: "width", Coq: fmt.Sprintf("CNonFinite %s %s", in, q(cbw)), Desc: desc, Tags: []string{"nonfinite"}, Nontrivial: true})
		return
	}
	coq := fmt.Sprintf("CWidth %s %s (WOut %s %s %s %s)", in, q(cbw), q(f.PositionX), o1, o2, o3)
	w.Add(vlib.Case{Kind: "width", Coq: coq, Desc: desc, Tags: tags, Nontrivial: true})
}

func leafCollapse(w *vlib.Writer, r *vlib.Rng) {
	n := r.Range(0, 8)
	l := make([]fl, n)
	items := make([]string, n)
	for i := range l {
		l[i] = rfl(r, true)
		if r.Chance(1, 6) {
			l[i] = 0
		}
		items[i] = "(QV " + q(l[i]) + ")"
	}
	out := layout.VerifCollapseMargin(l)
	w.Add(vlib.Case{Kind: "collapse", Coq: fmt.Sprintf("CCollapse %s %s", vlib.List(items), q(out)),
		Desc: map[string]interface{}{"margins": fmt.Sprint(l), "out": out}, Nontrivial: n > 1})
}

// resolvePercentages on the boxes of a laid out document (their Style comes
// from the real parser / cascade), against random containing blocks.
func leafPercentages(w *vlib.Writer, r *vlib.Rng, n int, o genOpts) {
	var sb strings.Builder
	sb.WriteString("<html><body>")
	for i := 0; i < n; i++ {
		sb.WriteString(`<div style="` + genStyle(r, o) + `"></div>`)
	}
	sb.WriteString("</body></html>")
	pages, err := render.Layout(sb.String(), []string{pageCSS}, false, true, fonts)
	if err != nil || len(pages) != 1 {
		panic(fmt.Sprint("leafPercentages: layout failed ", err))
	}
	body := pages[0].Children[0].Box().Children[0]
	for _, c := range body.Box().Children {
		st, ok := coqStyle(c.Box().Style)
		if !ok {
			continue
		}
		box := bo.NewBlockBox(c.Box().Style, c.Box().Element, "", nil)
		cbw := rfl(r, false)
		var cbh pr.MaybeFloat = pr.AutoF
		if r.Bool() {
			cbh = rfl(r, false)
		}
		scbh, _ := coqMf(cbh)
		desc := map[string]interface{}{"style": c.Box().Element.Attr[0].Val, "cb_width": cbw, "cb_height": fmt.Sprint(cbh)}
		oc := render.Guard(func() { layout.VerifResolvePercentages(box, cbw, cbh) })
		if oc.Status != "ok" {
			desc["outcome"] = oc
			w.Add(vlib.Case{Kind: "percentages", Coq: "CCrash", Desc: desc, Tags: []string{"crash"}, Nontrivial: true})
			continue
		}
		f := box.Box()
		good := true
		mf := func(v pr.MaybeFloat) string {
			s, o := coqMf(v)
			good = good && o
			return s
		}
		qq := func(v pr.MaybeFloat) string {
			x, isF := v.(pr.Float)
			if !isF || !finite(x) {
				good = false
				return "0"
			}
			return q(x)
		}
		ex := func(v pr.MaybeFloat) string {
			s, o := coqExt(v)
			good = good && o
			return s
		}
		out := fmt.Sprintf("(POut %s %s %s %s %s %s %s %s %s %s %s %s %s %s %s %s %s %s)",
			mf(f.MarginTop), mf(f.MarginRight), mf(f.MarginBottom), mf(f.MarginLeft),
			qq(f.PaddingTop), qq(f.PaddingRight), qq(f.PaddingBottom), qq(f.PaddingLeft),
			qq(f.BorderTopWidth), qq(f.BorderRightWidth), qq(f.BorderBottomWidth), qq(f.BorderLeftWidth),
			mf(f.Width), mf(f.Height), qq(f.MinWidth), qq(f.MinHeight), ex(f.MaxWidth), ex(f.MaxHeight))
		desc["out"] = fmt.Sprintf("m=[%v %v %v %v] p=[%v %v %v %v] b=[%v %v %v %v] w=%v h=%v min=[%v %v] max=[%v %v]",
			f.MarginTop, f.MarginRight, f.MarginBottom, f.MarginLeft, f.PaddingTop, f.PaddingRight, f.PaddingBottom, f.PaddingLeft,
			f.BorderTopWidth, f.BorderRightWidth, f.BorderBottomWidth, f.BorderLeftWidth, f.Width, f.Height, f.MinWidth, f.MinHeight, f.MaxWidth, f.MaxHeight)
		tags := []string{"cbh-auto"}
		if cbh != pr.AutoF {
			tags = []string{"cbh-fixed"}
		}
		if !good {
			w.Add(vlib.Case{Kind: "percentages", Coq: fmt.Sprintf("CPctNonFinite %s %s %s", st, q(cbw), scbh), Desc: desc,
				Tags: append(tags, "nonfinite"), Nontrivial: true})
			continue
		}
		w.Add(vlib.Case{Kind: "percentages", Coq: fmt.Sprintf("CPct %s %s %s %s", st, q(cbw), scbh, out), Desc: desc, Tags: tags, Nontrivial: true})
	}
}

// ------------------------------------------------------------------ main

func main() {
	out := flag.String("out", "cases.jsonl", "output file")
	n := flag.Int("n", 2000, "number of cases")
	one := flag.String("html", "", "lay out this single document and print its case (debugging)")
	flag.Parse()
	fonts = render.NewPango()
	rng := vlib.NewRng(vlib.Seed())
	w := vlib.NewWriter(*out)
	defer w.Close()

	if *one != "" {
		runDoc(w, *one, "doc")
		return
	}

	// regression corpus first: one document per file
	files, _ := filepath.Glob("../corpus/C10/*.html")
	sort.Strings(files)
	for _, f := range files {
		b, err := os.ReadFile(f)
		if err == nil {
			runDoc(w, strings.TrimSpace(string(b)), "corpus")
		}
	}

	// documents (expensive on the model side): 1/15 of the cases, in four streams
	nDocs := *n / 15
	if nDocs < 40 {
		nDocs = *n / 4
	}
	for i := 0; i < nDocs; i++ {
		r := rng.Fork()
		switch i % 8 {
		case 0, 1, 2:
			runDoc(w, genDoc(r, genOpts{}), "doc")
		case 3, 4:
			runDoc(w, genDoc(r, genOpts{exact: true}), "doc-exact")
		case 5, 6:
			runDoc(w, genChainDoc(r), "doc-chain")
		default:
			runDoc(w, genDoc(r, genOpts{boundary: true}), "doc-boundary")
		}
	}
	// leaf cases through the hooks
	for w.N() < *n {
		r := rng.Fork()
		switch k := r.Intn(20); {
		case k < 11:
			leafWidth(w, r)
		case k < 14:
			leafCollapse(w, r)
		default:
			o := genOpts{leaf: true}
			if r.Chance(1, 4) {
				o.boundary = true
			}
			leafPercentages(w, r, 6, o)
		}
	}
}
