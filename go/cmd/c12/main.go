// Harness for C12: lays generated paginated documents out with /repo's
// layout.Layout and writes one case per document: the document as a Coq term
// (Layout/Paginate.v `doc`) and the implementation's pages (geometry, page
// type, content-unit ids with their vertical extent, margin-box text).
//
// Each document is laid out in a worker subprocess (watchdog: a hang or a
// fatal error is an observation, reported as a case the model cannot agree
// with).
package main

import (
	"encoding/json"
	"flag"
	"fmt"
	"os"
	"path/filepath"
	"sort"
	"strings"
	"time"

	"verifharness/pagedoc"
	"verifharness/vlib"
	"verifharness/vlib/render"
)

type job struct {
	Seed   uint64 `json:"seed,omitempty"`
	Corpus string `json:"corpus,omitempty"`
	Stream string `json:"stream"`
}

func docOf(j job) (*pagedoc.Doc, error) {
	if j.Corpus != "" {
		b, err := os.ReadFile(j.Corpus)
		if err != nil {
			return nil, err
		}
		var d pagedoc.Doc
		if err := json.Unmarshal(b, &d); err != nil {
			return nil, err
		}
		d.Number()
		if d.Tags == nil {
			d.Tags = map[string]bool{}
		}
		d.Tags["corpus"] = true
		return &d, nil
	}
	r := vlib.NewRng(j.Seed)
	var p pagedoc.Profile
	switch j.Stream {
	case "plain": // no avoid / forced values: the paginate_unique class mostly
		p = pagedoc.Profile{MaxUnits: r.Range(3, 22), Spacing: r.Bool(), Rules: r.Bool()}
	case "boundary":
		p = pagedoc.RandomProfile(r)
		p.Tall = true
		p.Exotic = true
		p.Rules = true
		p.MaxUnits = r.Range(1, 6)
	default:
		p = pagedoc.RandomProfile(r)
	}
	return pagedoc.Generate(r, p), nil
}

var fonts = render.NewFonts("pango")

// marginCase: the numbers every margin box of d.MBoxes shows on every page (Check/C12.v CMBox);
// a missing box / a text of another form is written as a value the model never computes
func marginCase(d *pagedoc.Doc, obs []pagedoc.PageObs, tags []string, html string) vlib.Case {
	var bs, pages []string
	for _, b := range d.MBoxes {
		bs = append(bs, b.Coq())
	}
	var shown []map[string]string
	for _, o := range obs {
		var boxes []string
		m := map[string]string{}
		for _, b := range d.MBoxes {
			txt, ok := o.Margins[b.At]
			m["@"+b.At] = txt
			vals := pagedoc.ParseMarginText(txt)
			if !ok || vals == nil {
				vals = [][]int{{-99999, -99999, -99999}}
			}
			var reads []string
			for _, l := range vals {
				var ns []string
				for _, v := range l {
					ns = append(ns, fmt.Sprintf("(%d)%%Z", v))
				}
				reads = append(reads, vlib.List(ns))
			}
			boxes = append(boxes, vlib.List(reads))
		}
		shown = append(shown, m)
		pages = append(pages, vlib.List(boxes))
	}
	var rules []string
	for _, b := range d.MBoxes {
		rules = append(rules, b.CSS())
	}
	return vlib.Case{Kind: "mbox", Nontrivial: len(obs) > 1, Tags: append(append([]string{}, tags...), "margin-box-counters"),
		Coq:  fmt.Sprintf("CMBox %s %s", vlib.List(bs), vlib.List(pages)),
		Desc: map[string]interface{}{"html": html, "margin_rules": rules, "margin_box_text_per_page": shown}}
}

// RunDoc lays one document out and builds its cases.
func RunDoc(d *pagedoc.Doc, stream string) []vlib.Case {
	c, obs := runDoc(d, stream)
	if c.Kind != "doc" || len(d.MBoxes) == 0 {
		return []vlib.Case{c}
	}
	return []vlib.Case{c, marginCase(d, obs, c.Tags, d.HTML())}
}

func runDoc(d *pagedoc.Doc, stream string) (vlib.Case, []pagedoc.PageObs) {
	html := d.HTML()
	var obs []pagedoc.PageObs
	out := render.GuardTimeout(20*time.Second, func() {
		pages, err := render.Layout(html, nil, false, true, fonts)
		if err != nil {
			panic(err)
		}
		obs = pagedoc.Observe(pages)
	})
	tags := d.TagList()
	tags = append(tags, "stream="+stream)
	desc := map[string]interface{}{"html": html, "doc": d}
	c := vlib.Case{Kind: "doc", Tags: tags, Nontrivial: true}
	if out.Status != "ok" {
		// a crash is C01's subject; here it is a document without pages
		tags = append(tags, "status="+out.Status)
		desc["status"] = out.Status
		desc["site"] = out.Site
		desc["msg"] = out.Msg
		c.Kind = "doc-crash"
		c.Tags = tags
		c.Coq = fmt.Sprintf("CCrash %s", d.Coq())
		c.Desc = desc
		return c, nil
	}
	desc["pages"] = pagedoc.Summary(obs)
	if d.PageTopPaddingOverflow(obs) {
		// structural trigger of the known deviation of code 13 (see pagedoc.PageTopPaddingOverflow)
		c.Tags = append(c.Tags, "pb-closes-page-top-block")
	}
	c.Nontrivial = len(obs) > 1
	c.Coq = fmt.Sprintf("CDoc %s %s", d.Coq(), pagedoc.CoqPages(obs))
	c.Desc = desc
	return c, obs
}

func handle(in string) string {
	var j job
	if err := json.Unmarshal([]byte(in), &j); err != nil {
		return ""
	}
	d, err := docOf(j)
	if err != nil {
		return ""
	}
	c := RunDoc(d, j.Stream)
	b, _ := json.Marshal(c)
	return string(b)
}

func main() {
	if vlib.IsWorker() {
		vlib.WorkerMain(handle)
	}
	out := flag.String("out", "cases.jsonl", "output file")
	n := flag.Int("n", 400, "number of cases")
	one := flag.String("doc", "", "lay out one document (JSON file of a pagedoc.Doc) and print its case")
	par := flag.Int("par", 16, "worker processes")
	corpusDir := flag.String("corpus", "../corpus/C12", "regression corpus directory")
	flag.Parse()
	if *one != "" {
		d, err := docOf(job{Corpus: *one})
		if err != nil {
			panic(err)
		}
		cs := RunDoc(d, "single")
		c := cs[0]
		fmt.Println(d.HTML())
		for _, l := range c.Desc.(map[string]interface{})["pages"].([]string) {
			fmt.Println(l)
		}
		for _, c := range cs {
			fmt.Println(c.Coq)
		}
		return
	}
	rng := vlib.NewRng(vlib.Seed())
	var jobs []job
	files, _ := filepath.Glob(filepath.Join(*corpusDir, "*.json"))
	sort.Strings(files)
	for _, f := range files {
		jobs = append(jobs, job{Corpus: f, Stream: "corpus"})
	}
	for len(jobs) < *n {
		s := "mixed"
		switch k := rng.Intn(10); {
		case k < 2:
			s = "plain"
		case k == 2:
			s = "boundary"
		}
		jobs = append(jobs, job{Seed: rng.U64(), Stream: s})
	}
	inputs := make([]string, len(jobs))
	for i, j := range jobs {
		b, _ := json.Marshal(j)
		inputs[i] = string(b)
	}
	res := vlib.RunPool(inputs, *par, 40*time.Second, 0)
	w := vlib.NewWriter(*out)
	defer w.Close()
	for i, r := range res {
		if r.Status == "ok" && r.Out != "" {
			var cs []vlib.Case
			if json.Unmarshal([]byte(r.Out), &cs) == nil {
				for _, c := range cs {
					w.Add(c)
				}
				continue
			}
		}
		// dead / silent worker: regenerate the document in this process to describe it
		d, err := docOf(jobs[i])
		if err != nil {
			continue
		}
		kind := r.Status
		if r.Status == "fatal" {
			kind = vlib.FatalKind(r.Out)
		}
		tail := r.Out
		if len(tail) > 1500 {
			tail = tail[:1500]
		}
		w.Add(vlib.Case{Kind: "doc-crash", Coq: fmt.Sprintf("CCrash %s", d.Coq()),
			Desc: map[string]interface{}{"html": d.HTML(), "doc": d, "status": kind, "stderr": tail},
			Tags: append(d.TagList(), "status="+kind, "stream="+jobs[i].Stream), Nontrivial: true})
	}
	_ = strings.TrimSpace
}
