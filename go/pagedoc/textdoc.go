package pagedoc

// Random text documents for C02: blocks whose inline content mixes the five
// white-space modes, nested spans, <br>, inline-blocks, floats, absolutely /
// relatively positioned boxes, blocks inside inlines, lists and tables, on
// small pages so that lines and pages break often.

import (
	"fmt"
	"sort"
	"strings"

	"verifharness/vlib"
)

var WsNames = []string{"normal", "nowrap", "pre", "pre-wrap", "pre-line"}
var WsCoq = []string{"WNormal", "WNowrap", "WPre", "WPreWrap", "WPreLine"}

const (
	TText = iota
	TSpan
	TBr
	TInlineBlock // nested paragraph, atomic inline
	TFloat       // nested paragraph, out of flow
	TAbs         // nested paragraph, out of flow
	TBlockIn     // block inside an inline: nested paragraph, in flow
	TPageCount   // <span class=pcK></span> whose ::before is text made of counter(pages): one unbreakable word whose length changes between pagination rounds
)

// forms of the generated text of a TPageCount item (Mode selects one); "0" in the first
// pagination round, the number of pages afterwards
var PageCountContent = []string{
	"counter(pages, upper-roman)",
	"counter(pages, upper-roman) counter(pages, lower-roman)",
	"counter(pages, lower-alpha) counter(pages, upper-roman) counter(pages)",
}

// PageCountMark stands for the generated text of a TPageCount item in the model and in the
// observed lines (the harness replaces the text of the ::before box by it)
const PageCountMark = "#"

type TItem struct {
	Kind   int
	Mode   int // white-space in effect for the text (TText) / set on the span (TSpan, -1 = not set)
	Text   string
	Kids   []*TItem
	Para   *TPara
	Hidden bool // visibility: hidden (TSpan)
	Vis    int  // visibility set on the span: 0 not set (or Hidden), 1 hidden, 2 visible, 3 collapse
	Rel    bool // position: relative (TSpan)
	// horizontal padding / border / margin of the inline box (TSpan): extra declarations, "" = none
	Edge string
}

var VisNames = []string{"", "hidden", "visible", "collapse"}

type TPara struct {
	ID      int
	Mode    int
	Items   []*TItem
	InFlow  bool   // takes part in the document-order check
	Repeat  bool   // table header / footer cell: repeated on every page of the table
	Style   string // extra declarations
	Vis     int    // visibility set on the paragraph's element (as TItem.Vis)
	Tag     string
	Covered bool     // inside a box with an explicit height (excluded by the quantifier)
	Ctx     []string // structural context: own kind and the kinds of the enclosing paragraphs
	// computed by (*TextDoc).Index from the tree (never read from a corpus file):
	Anc   []int  // ids of the enclosing paragraphs, outermost first
	Role  string // root li cell inline-block float abspos block-in-inline
	Block bool   // float / abspos that is a sibling of blocks (not part of a line)
	// Block only: the container (div / ul) it is a child of has break-inside: avoid / one of the
	// containers around that one has
	AvoidParent, AvoidAnc bool
	// Block only: that container is a child of the body and no box of the document has
	// break-before / break-after: avoid (no layout that kept the container is discarded by a
	// rewind to an earlier break or by the cancellation of a container around it)
	AvoidPlain bool
	// Block + AvoidParent only: the first in-flow paragraph that is a direct child of that
	// container and precedes the box (-1: none), and all the paragraphs inside the container
	ContFirst int
	ContParas []int
}

const (
	NPara = iota
	NDiv
	NTable
	NList
	NOof // a block-level out-of-flow box (float / position: absolute) between block-level siblings
)

type TNode struct {
	Kind  int
	Para  *TPara
	Kids  []*TNode
	Style string
	// table: Head / Foot rows (cells), body rows in Kids' Kids
	Head, Foot []*TPara
	Rows       [][]*TPara
}

type TextDoc struct {
	PageW, PageH int
	Margin       int
	FontSize     int
	Nodes        []*TNode
	Paras        []*TPara // all paragraphs by ID
	Tags         map[string]bool
	BodyMode     int
	// which PageCountContent the TPageCount items show
	PageCountForm int
}

type tgen struct {
	ctx  []string
	r    *vlib.Rng
	d    *TextDoc
	tags map[string]bool
	n    int // characters so far
	max  int
	// document profile
	avoidy bool // break-before / break-after: avoid on many blocks (the layout has to rewind to an earlier break)
	short  bool // many one-line blocks (cannot be broken inside: breaks fall between siblings)
	shortN int  // shortN in shortN+1 in-flow blocks are one-liners
	oof    int  // 1 in `oof` block-level children is an out-of-flow box (0 = none)
	vis    bool // visibility is set on many boxes, hidden ancestors with visible descendants
	decor  bool // containers of blocks carry bottom (and top) padding / borders of different widths
	pagec  bool // the flow contains generated text that depends on the number of pages
	edges  bool // inline boxes carry horizontal padding / borders / margins, often wider than a word
	// soft hyphens (U+00AD, `hyphens: manual` is the initial value) inside words; drawn from a
	// generator of its own so that the document is the one of the same job seed without them
	shy *vlib.Rng
}

// SoftHyphen is the conditional hyphen: invisible unless the line is broken there, in which
// case the hyphenate-character (initial value "-") is shown at the end of the line
const SoftHyphen = '\u00ad'

// withSoftHyphens inserts soft hyphens between the characters of a word (never before "-":
// a hyphen of the text after a soft hyphen at a line end could not be told from an inserted one)
func (g *tgen) withSoftHyphens(w string) string {
	if g.shy == nil {
		return w
	}
	rs := []rune(w)
	if len(rs) < 2 || !g.shy.Chance(1, 2) {
		return w
	}
	var out []rune
	for i, c := range rs {
		out = append(out, c)
		if i+1 < len(rs) && rs[i+1] != '-' && g.shy.Chance(1, 3) {
			out = append(out, SoftHyphen)
			g.tags["soft-hyphen"] = true
		}
	}
	return string(out)
}

// horizontal edges of an inline box: start and / or end padding, border, margin, from a few
// pixels to most of a line (the text before the end of the box can fit on the line while the
// text followed by the end spacing does not: splitInlineBox then splits the last child again)
func (g *tgen) spanEdge() string {
	r := g.r
	den := 10
	if g.edges {
		den = 2
	}
	if !r.Chance(1, den) {
		return ""
	}
	g.tags["span-edges"] = true
	amount := func() int {
		if r.Chance(1, 3) {
			return vlib.Pick(r, []int{2, 5, 10})
		}
		// up to most of the line
		return r.Range(1, 9) * g.d.PageW / 10
	}
	var st []string
	// the end side mostly (the side that makes the last child be split again)
	for _, side := range []string{"right", "left"} {
		p := 3
		if side == "left" {
			p = 1
		}
		if !r.Chance(p, 4) {
			continue
		}
		switch r.Intn(4) {
		case 0:
			st = append(st, fmt.Sprintf("margin-%s:%dpx", side, amount()))
		case 1:
			st = append(st, fmt.Sprintf("border-%s:%dpx solid", side, amount()))
		case 2:
			st = append(st, fmt.Sprintf("padding-%s:%dpx", side, amount()))
		default:
			st = append(st, fmt.Sprintf("border-%s:%dpx solid;margin-%s:%dpx", side, amount()/2+1, side, amount()/2+1))
		}
	}
	return strings.Join(st, ";")
}

// visibility for a box: mostly hidden on the way down, set back to visible below
func (g *tgen) visValue(den int) int {
	r := g.r
	if !g.vis {
		den *= 3
	}
	if !r.Chance(1, den) {
		return 0
	}
	g.tags["visibility"] = true
	return vlib.Pick(r, []int{1, 1, 1, 2, 2, 3})
}

var wordChars = []rune("abcdefghijklmnopqrstuvwxyzABCDEFGHIJKLMNOPQRSTUVWXYZ0123456789")

func (g *tgen) word() string {
	r := g.r
	n := r.Range(1, 6)
	if r.Chance(1, 15) {
		n = r.Range(7, 14)
		g.tags["long-word"] = true
	}
	var sb strings.Builder
	for i := 0; i < n; i++ {
		switch {
		case r.Chance(1, 30):
			sb.WriteRune(vlib.Pick(r, []rune{'é', 'ü', 'ß', 'Ω', '中'}))
			g.tags["non-ascii"] = true
		case r.Chance(1, 25):
			sb.WriteRune(vlib.Pick(r, []rune{'-', '.', ',', '!', '?', ';', '/'}))
		default:
			sb.WriteRune(wordChars[r.Intn(len(wordChars))])
		}
	}
	g.n += n
	return g.withSoftHyphens(sb.String())
}

func (g *tgen) space() string {
	r := g.r
	switch k := r.Intn(12); {
	case k < 6:
		return " "
	case k == 6:
		return "  "
	case k == 7:
		return "\n"
	case k == 8:
		return " \n  "
	case k == 9:
		g.tags["tab"] = true
		return "\t"
	case k == 10:
		g.tags["crlf"] = true
		return "\r\n"
	default:
		return "   \n\n "
	}
}

// text: words separated by white space, possibly starting / ending with it
func (g *tgen) text() string {
	r := g.r
	var sb strings.Builder
	if r.Chance(1, 3) {
		sb.WriteString(g.space())
	}
	for i, n := 0, r.Range(1, 6); i < n; i++ {
		if i > 0 {
			sb.WriteString(g.space())
		}
		sb.WriteString(g.word())
	}
	if r.Chance(1, 3) {
		sb.WriteString(g.space())
	}
	if r.Chance(1, 40) {
		return vlib.Pick(r, []string{" ", "\n", "  ", " \n "})
	}
	return sb.String()
}

func (g *tgen) mode(cur int) int {
	if g.r.Chance(1, 4) {
		m := g.r.Intn(5)
		g.tags["ws="+WsNames[m]] = true
		return m
	}
	return -1
}

func (g *tgen) newPara(mode int, inflow bool, depth int) *TPara {
	p := &TPara{ID: len(g.d.Paras), Mode: mode, InFlow: inflow, Tag: "div"}
	p.Ctx = append([]string{}, g.ctx...)
	g.d.Paras = append(g.d.Paras, p)
	p.Vis = g.visValue(3)
	p.Items = g.items(mode, depth, inflow)
	return p
}

func (g *tgen) items(mode, depth int, inflow bool) []*TItem {
	r := g.r
	var out []*TItem
	for i, n := 0, r.Range(1, 5); i < n && g.n < g.max; i++ {
		if g.pagec && r.Chance(1, 6) {
			out = append(out, &TItem{Kind: TPageCount, Mode: mode})
			g.n += 4
			g.tags["page-count-item"] = true
			continue
		}
		k := r.Intn(20)
		if g.pagec && (k == 16 || k == 17) {
			k = 0
		}
		if g.edges && k < 10 && depth < 3 && r.Chance(1, 3) {
			k = 10 // more inline boxes
		}
		switch {
		case k < 10 || depth >= 3:
			out = append(out, &TItem{Kind: TText, Mode: mode, Text: g.text()})
		case k < 14:
			it := &TItem{Kind: TSpan, Mode: g.mode(mode)}
			m := mode
			if it.Mode >= 0 {
				m = it.Mode
			}
			if it.Vis = g.visValue(3); it.Vis == 1 || it.Vis == 3 {
				g.tags["hidden"] = true
			}
			if r.Chance(1, 12) {
				it.Rel = true
				g.tags["relative"] = true
			}
			it.Edge = g.spanEdge()
			it.Kids = g.items(m, depth+1, inflow)
			out = append(out, it)
			g.tags["span"] = true
		case k == 14:
			out = append(out, &TItem{Kind: TBr})
			g.tags["br"] = true
		case k == 15:
			it := &TItem{Kind: TInlineBlock}
			g.ctx = append(g.ctx, "in-inline-block")
			it.Para = g.newPara(mode, false, depth+1)
			g.ctx = g.ctx[:len(g.ctx)-1]
			out = append(out, it)
			g.tags["inline-block"] = true
		case k == 16:
			it := &TItem{Kind: TFloat}
			g.ctx = append(g.ctx, "in-float")
			it.Para = g.newPara(mode, false, depth+1)
			g.ctx = g.ctx[:len(g.ctx)-1]
			it.Para.Style = "float:" + vlib.Pick(r, []string{"left", "right"}) + ";width:" + vlib.Pick(r, []string{"40%", "60px", "auto"})
			out = append(out, it)
			g.tags["float"] = true
		case k == 17:
			it := &TItem{Kind: TAbs}
			g.ctx = append(g.ctx, "in-abspos")
			it.Para = g.newPara(mode, false, depth+1)
			g.ctx = g.ctx[:len(g.ctx)-1]
			it.Para.Style = "position:absolute;" + vlib.Pick(r, []string{"top:0;left:0", "bottom:0;right:0", "", "top:10px"})
			out = append(out, it)
			g.tags["abspos"] = true
		default:
			it := &TItem{Kind: TBlockIn}
			// a block inside an inline box splits the paragraph around it: neither takes
			// part in the document-order check
			g.ctx = append(g.ctx, "in-block-in-inline")
			it.Para = g.newPara(mode, false, depth+1)
			g.ctx = g.ctx[:len(g.ctx)-1]
			out = append(out, it)
			g.tags["block-in-inline"] = true
		}
	}
	if len(out) == 0 {
		out = append(out, &TItem{Kind: TText, Mode: mode, Text: g.word()})
	}
	// adjacent texts are one text node in the DOM
	var merged []*TItem
	for _, it := range out {
		if n := len(merged); n > 0 && it.Kind == TText && merged[n-1].Kind == TText {
			merged[n-1].Text += it.Text
			continue
		}
		merged = append(merged, it)
	}
	return merged
}

func (g *tgen) blockStyle() string {
	r := g.r
	var st []string
	if r.Chance(1, 4) {
		st = append(st, fmt.Sprintf("margin:%dpx 0 %dpx 0", r.Range(0, 3)*5, r.Range(0, 3)*5))
	}
	if r.Chance(1, 6) {
		st = append(st, fmt.Sprintf("padding:%dpx %dpx", r.Range(0, 2)*5, r.Range(0, 2)*5))
	}
	// in the avoid profile forced breaks and named pages are rare: pages end because they are full
	den := 8
	if g.avoidy {
		den = 32
	}
	if r.Chance(1, den) {
		st = append(st, "break-before:"+vlib.Pick(r, []string{"page", "avoid", "left", "right", "always"}))
		g.tags["break"] = true
	} else if g.avoidy && r.Chance(1, 3) {
		st = append(st, "break-before:avoid")
		g.tags["break"] = true
	}
	if r.Chance(1, den) {
		st = append(st, "break-after:"+vlib.Pick(r, []string{"page", "avoid", "left", "right"}))
		g.tags["break"] = true
	} else if g.avoidy && r.Chance(1, 4) {
		st = append(st, "break-after:avoid")
		g.tags["break"] = true
	}
	if r.Chance(1, 8) {
		st = append(st, "break-inside:avoid")
		g.tags["break"] = true
	}
	if r.Chance(1, 5) {
		st = append(st, fmt.Sprintf("orphans:%d;widows:%d", r.Range(1, 4), r.Range(1, 4)))
		g.tags["orphans-widows"] = true
	}
	if r.Chance(1, 10) {
		st = append(st, "text-align:"+vlib.Pick(r, []string{"justify", "center", "right"}))
	}
	if r.Chance(1, 10) {
		st = append(st, "text-indent:"+vlib.Pick(r, []string{"20px", "-10px"}))
	}
	if r.Chance(1, 12) {
		st = append(st, "overflow-wrap:"+vlib.Pick(r, []string{"break-word", "anywhere"}))
		g.tags["overflow-wrap"] = true
	}
	if r.Chance(1, 14*den/8) {
		st = append(st, "page:"+vlib.Pick(r, []string{"n1", "n2"}))
		g.tags["named"] = true
	}
	return strings.Join(st, ";")
}

// style of a container of blocks (div / ul): blockStyle plus visibility and -- often in the
// decor profile -- top / bottom padding and borders drawn independently, from a few pixels to
// more than a line (the content of the container can end in the decoration-sized window above
// the page bottom: inFlowLayout then lays it out a second time)
func (g *tgen) containerStyle() string {
	r := g.r
	st := g.blockStyle()
	if v := g.visValue(3); v != 0 {
		st = joinStyle(st, "visibility:"+VisNames[v])
	}
	if (g.decor && r.Chance(4, 5)) || r.Chance(1, 12) {
		pt, pb := vlib.Pick(r, []int{0, 0, 3, 5, 10}), vlib.Pick(r, []int{0, 5, 10, 15, 20, 30})
		bt, bb := vlib.Pick(r, []int{0, 0, 2, 5, 10, 20}), vlib.Pick(r, []int{0, 2, 5, 10, 20, 30})
		st = joinStyle(st, fmt.Sprintf("padding-top:%dpx;padding-bottom:%dpx;border-style:solid;border-width:%dpx 0 %dpx 0", pt, pb, bt, bb))
		g.tags["container-decoration"] = true
	}
	return st
}

// a block-level out-of-flow box: a float or an absolutely positioned box that is a
// sibling of the blocks around it (not part of a line)
func (g *tgen) oofNode() *TNode {
	r := g.r
	kind, style := "in-float", "float:"+vlib.Pick(r, []string{"left", "right"})+";width:"+vlib.Pick(r, []string{"40%", "60px", "auto"})
	if r.Chance(1, 3) {
		kind, style = "in-abspos", "position:absolute;"+vlib.Pick(r, []string{"top:0;left:0", "bottom:0;right:0", "", "top:10px"})
		g.tags["abspos"] = true
	} else {
		g.tags["float"] = true
	}
	g.ctx = append(g.ctx, kind)
	var p *TPara
	if g.short && r.Chance(2, 3) {
		p = &TPara{ID: len(g.d.Paras), Mode: g.d.BodyMode, Tag: "div", Ctx: append([]string{}, g.ctx...)}
		g.d.Paras = append(g.d.Paras, p)
		p.Items = []*TItem{{Kind: TText, Mode: p.Mode, Text: g.word()}}
	} else {
		p = g.newPara(g.d.BodyMode, false, 2)
	}
	g.ctx = g.ctx[:len(g.ctx)-1]
	p.Style = style
	g.tags["oof-block"] = true
	return &TNode{Kind: NOof, Para: p}
}

// a container with break-inside: avoid that holds a block-level float (or absolutely
// positioned box) of several lines followed by in-flow blocks: when the page ends inside it
// (and it is not the first box of the page) the container is moved to the next page as a
// whole, together with the out-of-flow box that was broken by the same page end
func (g *tgen) avoidOofNode(depth int) *TNode {
	r := g.r
	n := &TNode{Kind: NDiv, Style: "break-inside:avoid"}
	if r.Chance(1, 4) {
		n.Style = joinStyle(n.Style, fmt.Sprintf("margin:%dpx 0 %dpx 0", r.Range(0, 2)*5, r.Range(0, 2)*5))
	}
	if r.Chance(2, 3) {
		n.Kids = append(n.Kids, g.shortPara())
	}
	kind, style := "in-float", "float:"+vlib.Pick(r, []string{"left", "right"})+";width:"+vlib.Pick(r, []string{"40%", "60px", "40px", "50%"})
	if r.Chance(1, 5) {
		kind, style = "in-abspos", "position:absolute;"+vlib.Pick(r, []string{"", "right:0", "left:0"})+";width:"+vlib.Pick(r, []string{"40%", "60px"})
		g.tags["abspos"] = true
	} else {
		g.tags["float"] = true
	}
	g.ctx = append(g.ctx, kind)
	p := &TPara{ID: len(g.d.Paras), Mode: 0, Tag: "div", Ctx: append([]string{}, g.ctx...)}
	g.d.Paras = append(g.d.Paras, p)
	var sb strings.Builder
	for i, m := 0, r.Range(3, 9); i < m; i++ {
		if i > 0 {
			sb.WriteString(" ")
		}
		sb.WriteString(g.word())
	}
	p.Items = []*TItem{{Kind: TText, Mode: 0, Text: sb.String()}}
	p.Style = joinStyle("white-space:normal", style)
	g.ctx = g.ctx[:len(g.ctx)-1]
	n.Kids = append(n.Kids, &TNode{Kind: NOof, Para: p})
	for i, m := 0, r.Range(1, 3); i < m; i++ {
		if r.Chance(1, 2) {
			n.Kids = append(n.Kids, g.shortPara())
		} else {
			q := g.newPara(g.d.BodyMode, true, 1)
			q.Tag = "div"
			n.Kids = append(n.Kids, &TNode{Kind: NPara, Para: q})
		}
	}
	g.tags["oof-block"] = true
	g.tags["avoid-with-oof"] = true
	return n
}

// a one-line block
func (g *tgen) shortPara() *TNode {
	p := &TPara{ID: len(g.d.Paras), Mode: g.d.BodyMode, InFlow: true, Tag: "div"}
	p.Ctx = append([]string{}, g.ctx...)
	g.d.Paras = append(g.d.Paras, p)
	p.Items = []*TItem{{Kind: TText, Mode: p.Mode, Text: g.word()}}
	p.Style = g.blockStyle()
	return &TNode{Kind: NPara, Para: p}
}

func (g *tgen) node(depth int) *TNode {
	r := g.r
	if g.oof != 0 && depth <= 1 && r.Chance(1, 3*g.oof) {
		return g.avoidOofNode(depth)
	}
	if g.oof != 0 && depth == 0 && !g.avoidy && r.Chance(1, g.oof) {
		// among the children of the body, in documents where nothing rewinds to an earlier break
		return g.avoidOofNode(depth)
	}
	if g.oof != 0 && r.Chance(1, g.oof) {
		return g.oofNode()
	}
	if g.short && r.Chance(g.shortN, g.shortN+1) {
		return g.shortPara()
	}
	k := r.Intn(20)
	if depth >= 2 && k >= 12 {
		k = r.Intn(12)
	}
	if g.decor && depth == 0 && r.Chance(1, 2) {
		k = 12 // a run of decorated containers with a few short blocks each
	}
	switch {
	case k < 12:
		m := g.d.BodyMode
		var extra string
		if mm := g.mode(m); mm >= 0 {
			m = mm
			extra = "white-space:" + WsNames[mm]
		}
		p := g.newPara(m, true, 0)
		p.Style = joinStyle(extra, g.blockStyle())
		p.Tag = "div" // <p>/<h2> would be closed by the parser at a nested <div>
		return &TNode{Kind: NPara, Para: p}
	case k < 15:
		n := &TNode{Kind: NDiv, Style: g.containerStyle()}
		for i, m := 0, r.Range(1, 3); i < m; i++ {
			n.Kids = append(n.Kids, g.node(depth+1))
		}
		g.tags["nested-div"] = true
		return n
	case k < 18:
		n := &TNode{Kind: NTable, Style: g.blockStyle()}
		cols := r.Range(1, 3)
		cell := func(rep bool) *TPara {
			first := len(g.d.Paras)
			g.ctx = append(g.ctx, "in-table")
			p := g.newPara(g.d.BodyMode, false, 2)
			g.ctx = g.ctx[:len(g.ctx)-1]
			p.Tag = "td"
			for _, q := range g.d.Paras[first:] { // the cell and everything nested in it
				q.Repeat = rep
			}
			return p
		}
		if r.Chance(1, 2) {
			for c := 0; c < cols; c++ {
				n.Head = append(n.Head, cell(true))
			}
			g.tags["thead"] = true
		}
		if r.Chance(1, 3) {
			for c := 0; c < cols; c++ {
				n.Foot = append(n.Foot, cell(true))
			}
			g.tags["tfoot"] = true
		}
		for i, m := 0, r.Range(1, 5); i < m; i++ {
			var row []*TPara
			for c := 0; c < cols; c++ {
				row = append(row, cell(false))
			}
			n.Rows = append(n.Rows, row)
		}
		g.tags["table"] = true
		return n
	default:
		n := &TNode{Kind: NList, Style: g.containerStyle()}
		for i, m := 0, r.Range(1, 4); i < m; i++ {
			p := g.newPara(g.d.BodyMode, true, 1)
			p.Tag = "li"
			n.Kids = append(n.Kids, &TNode{Kind: NPara, Para: p})
		}
		g.tags["list"] = true
		return n
	}
}

// a paragraph next to a stack of short floats of different widths, with an inline box taller
// than the strut and a wide float in its text: the line box is laid out at the position found
// for the strut height, turns out taller, collides with the next float of the stack and is
// laid out again somewhere else (getNextLinebox loops), while the float inside the line does
// not fit beside the text and waits for the end of the line
func (g *tgen) floatStackNode() *TNode {
	r := g.r
	n := &TNode{Kind: NDiv}
	plain := func(text string, inflow bool) *TPara {
		p := &TPara{ID: len(g.d.Paras), Mode: g.d.BodyMode, InFlow: inflow, Tag: "div", Ctx: append([]string{}, g.ctx...)}
		g.d.Paras = append(g.d.Paras, p)
		p.Items = []*TItem{{Kind: TText, Mode: p.Mode, Text: text}}
		return p
	}
	// mostly left floats (a line of a left-to-right block is laid out again only when its
	// position changes) of increasing widths, each below the previous one
	short := func() string {
		w := []rune(g.word())
		if len(w) > 2 {
			w = w[:2]
		}
		return string(w)
	}
	side := vlib.Pick(r, []string{"left", "left", "left", "left", "right"})
	m := r.Range(2, 4)
	var ws []int
	for i := 0; i < m; i++ {
		ws = append(ws, r.Range(1, 6))
	}
	if r.Chance(4, 5) {
		sort.Ints(ws)
	}
	g.ctx = append(g.ctx, "in-float")
	for i := 0; i < m; i++ {
		p := plain(short(), false)
		sd := side
		if r.Chance(1, 8) {
			sd = vlib.Pick(r, []string{"left", "right"})
		}
		p.Style = fmt.Sprintf("float:%s;width:%d%%", sd, ws[i]*10)
		if i > 0 && r.Chance(5, 6) {
			p.Style += ";clear:" + sd
		}
		n.Kids = append(n.Kids, &TNode{Kind: NOof, Para: p})
	}
	g.ctx = g.ctx[:len(g.ctx)-1]
	q := &TPara{ID: len(g.d.Paras), Mode: g.d.BodyMode, InFlow: true, Tag: "div", Ctx: append([]string{}, g.ctx...)}
	g.d.Paras = append(g.d.Paras, q)
	words := func(lo, hi int) string {
		var sb strings.Builder
		for i, m := 0, r.Range(lo, hi); i < m; i++ {
			if i > 0 {
				sb.WriteString(" ")
			}
			sb.WriteString(g.word())
		}
		return sb.String()
	}
	tall := &TItem{Kind: TSpan, Mode: -1, Kids: []*TItem{{Kind: TText, Mode: q.Mode, Text: short()}}}
	if r.Chance(2, 3) {
		tall.Edge = fmt.Sprintf("line-height:%dpx", g.d.FontSize*r.Range(2, 3))
	} else {
		tall.Edge = fmt.Sprintf("font-size:%dpx", g.d.FontSize*2)
	}
	fl := &TItem{Kind: TFloat}
	g.ctx = append(g.ctx, "in-float")
	fl.Para = plain(words(1, 3), false)
	g.ctx = g.ctx[:len(g.ctx)-1]
	fl.Para.Style = "float:" + vlib.Pick(r, []string{"left", "right"}) + ";width:" + vlib.Pick(r, []string{"50%", "70%", "90%", "auto", "60px"})
	text := func(lo, hi int) *TItem { return &TItem{Kind: TText, Mode: q.Mode, Text: " " + words(lo, hi) + " "} }
	// the tall box and the float mostly on the first line
	if r.Chance(1, 4) {
		q.Items = append(q.Items, &TItem{Kind: TText, Mode: q.Mode, Text: words(1, 2) + " "})
	} else {
		q.Items = append(q.Items, &TItem{Kind: TText, Mode: q.Mode, Text: short() + " "})
	}
	sep := &TItem{Kind: TText, Mode: q.Mode, Text: " " + short() + " "}
	if r.Chance(1, 2) {
		q.Items = append(q.Items, tall, sep, fl)
	} else {
		q.Items = append(q.Items, fl, sep, tall)
	}
	if r.Chance(2, 3) {
		q.Items = append(q.Items, text(1, 8))
	}
	n.Kids = append(n.Kids, &TNode{Kind: NPara, Para: q})
	g.tags["float"] = true
	g.tags["oof-block"] = true
	g.tags["float-stack"] = true
	return n
}

func joinStyle(a, b string) string {
	if a == "" {
		return b
	}
	if b == "" {
		return a
	}
	return a + ";" + b
}

// GenerateText draws a text document.
func GenerateText(r *vlib.Rng) *TextDoc { return GenerateTextShy(r, nil) }

// GenerateTextShy draws the same document as GenerateText(r), with soft hyphens inside its
// words drawn from shy (nil: none).
func GenerateTextShy(r *vlib.Rng, shy *vlib.Rng) *TextDoc {
	d := &TextDoc{Tags: map[string]bool{}}
	g := &tgen{r: r, d: d, tags: d.Tags, max: r.Range(30, 400), shy: shy}
	if shy != nil {
		g.tags["profile-soft-hyphens"] = true
	}
	d.FontSize = vlib.Pick(r, []int{20, 20, 10, 16})
	d.PageW = vlib.Pick(r, []int{100, 140, 200, 300})
	d.PageH = vlib.Pick(r, []int{60, 80, 100, 150, 220})
	d.Margin = vlib.Pick(r, []int{0, 5, 10})
	if r.Chance(1, 8) {
		d.BodyMode = r.Intn(5)
		g.tags["ws="+WsNames[d.BodyMode]] = true
	}
	cont := 6
	if r.Chance(1, 5) {
		// rewinds between siblings: one-line blocks, many `avoid` values, out-of-flow siblings
		g.avoidy, g.short, g.shortN, g.oof = true, true, 5, 3
		g.tags["profile-rewind"] = true
		// a handful of lines per page, many blocks
		d.FontSize, d.PageH = 20, vlib.Pick(r, []int{60, 80, 100})
		cont = 16
		g.max = r.Range(300, 800)
	} else {
		if r.Chance(1, 4) {
			g.avoidy = true
			g.tags["profile-avoid"] = true
		}
		if r.Chance(1, 4) {
			g.short, g.shortN = true, 1
			g.tags["profile-short"] = true
		}
		if r.Chance(1, 2) {
			g.oof = vlib.Pick(r, []int{4, 8})
		}
	}
	if r.Chance(1, 3) {
		g.vis = true
		g.tags["profile-visibility"] = true
	}
	if r.Chance(1, 4) {
		// decorated containers whose content ends near the page bottom: short lines of blocks,
		// pages of a few lines
		g.decor = true
		g.tags["profile-decor"] = true
		if !g.short {
			g.short, g.shortN = true, 2
		}
		d.FontSize, d.PageH = 20, vlib.Pick(r, []int{80, 100, 120, 150})
		cont = 12
		if g.max < 200 {
			g.max = r.Range(200, 500)
		}
	}
	if r.Chance(1, 5) {
		// inline boxes with wide horizontal edges: many spans of a few short words
		g.edges = true
		g.tags["profile-edges"] = true
	}
	if r.Chance(1, 5) {
		// generated text that depends on counter(pages): the layout is repeated until the
		// page count is stable, pages whose content did not change are reused
		g.pagec = true
		g.oof = 0 // in-flow content only: see notes/C02.md (remainders of broken out-of-flow boxes under repagination)
		d.PageCountForm = r.Intn(len(PageCountContent))
		g.tags["profile-page-count"] = true
		if g.max < 250 {
			g.max = r.Range(250, 600)
		}
		cont = 12
	}
	for len(d.Nodes) == 0 || (g.n < g.max && r.Chance(cont-1, cont)) {
		d.Nodes = append(d.Nodes, g.node(0))
	}
	// drawn last (everything above is unchanged for a job seed), appended at the end (the
	// paragraph ids stay in document order)
	if !g.pagec && r.Chance(1, 3) {
		for i, m := 0, r.Range(2, 4); i < m; i++ {
			d.Nodes = append(d.Nodes, g.floatStackNode())
		}
	}
	return d
}

// ---------------------------------------------------------------- rendering

func esc(s string) string {
	s = strings.ReplaceAll(s, "&", "&amp;")
	s = strings.ReplaceAll(s, "<", "&lt;")
	s = strings.ReplaceAll(s, ">", "&gt;")
	// a raw CR in the source would be normalised by the HTML parser: use a reference
	s = strings.ReplaceAll(s, "\r", "&#13;")
	return s
}

func itemsHTML(sb *strings.Builder, items []*TItem) {
	for _, it := range items {
		switch it.Kind {
		case TText:
			sb.WriteString(esc(it.Text))
		case TSpan:
			var st []string
			if it.Mode >= 0 {
				st = append(st, "white-space:"+WsNames[it.Mode])
			}
			if it.Hidden {
				st = append(st, "visibility:hidden")
			} else if it.Vis != 0 {
				st = append(st, "visibility:"+VisNames[it.Vis])
			}
			if it.Rel {
				st = append(st, "position:relative;top:2px")
			}
			if it.Edge != "" {
				st = append(st, it.Edge)
			}
			fmt.Fprintf(sb, `<span style="%s">`, strings.Join(st, ";"))
			itemsHTML(sb, it.Kids)
			sb.WriteString("</span>")
		case TBr:
			sb.WriteString("<br>")
		case TPageCount:
			sb.WriteString(`<span class="pc"></span>`)
		case TInlineBlock:
			paraHTML(sb, it.Para, "span", "display:inline-block")
		case TFloat, TAbs:
			paraHTML(sb, it.Para, "div", "")
		case TBlockIn:
			paraHTML(sb, it.Para, "div", "")
		}
	}
}

func paraHTML(sb *strings.Builder, p *TPara, tag, extra string) {
	if p.Vis != 0 {
		extra = joinStyle(extra, "visibility:"+VisNames[p.Vis])
	}
	fmt.Fprintf(sb, `<%s id="t%d" style="%s">`, tag, p.ID, joinStyle(extra, p.Style))
	itemsHTML(sb, p.Items)
	fmt.Fprintf(sb, "</%s>", tag)
}

func nodeHTML(sb *strings.Builder, n *TNode) {
	switch n.Kind {
	case NPara:
		paraHTML(sb, n.Para, n.Para.Tag, "")
	case NOof:
		paraHTML(sb, n.Para, "div", "")
	case NDiv:
		fmt.Fprintf(sb, `<div style="%s">`, n.Style)
		for _, k := range n.Kids {
			nodeHTML(sb, k)
		}
		sb.WriteString("</div>")
	case NList:
		fmt.Fprintf(sb, `<ul style="%s">`, n.Style)
		for _, k := range n.Kids {
			nodeHTML(sb, k)
		}
		sb.WriteString("</ul>")
	case NTable:
		fmt.Fprintf(sb, `<table style="%s">`, n.Style)
		row := func(cells []*TPara) {
			sb.WriteString("<tr>")
			for _, c := range cells {
				paraHTML(sb, c, "td", "")
			}
			sb.WriteString("</tr>")
		}
		if n.Head != nil {
			sb.WriteString("<thead>")
			row(n.Head)
			sb.WriteString("</thead>")
		}
		if n.Foot != nil {
			sb.WriteString("<tfoot>")
			row(n.Foot)
			sb.WriteString("</tfoot>")
		}
		sb.WriteString("<tbody>")
		for _, r := range n.Rows {
			row(r)
		}
		sb.WriteString("</tbody></table>")
	}
}

func (d *TextDoc) HTML() string {
	var sb strings.Builder
	fmt.Fprintf(&sb, "<html><head><style>\n@page { size: %dpx %dpx; margin: %dpx }\n", d.PageW+2*d.Margin, d.PageH+2*d.Margin, d.Margin)
	fmt.Fprintf(&sb, "html,body{margin:0;padding:0}\nbody{font:%dpx/%dpx Ahem;white-space:%s}\np,h2,ul{margin:0}\nh2{font-size:inherit;font-weight:inherit}\nul{padding-left:20px}\ntd{padding:0;vertical-align:top}\ntable{border-spacing:0}\n",
		d.FontSize, d.FontSize, WsNames[d.BodyMode])
	if d.hasPageCount() {
		// one word that is never broken (an emergency break would show the mark twice)
		fmt.Fprintf(&sb, ".pc::before{content:%s;white-space:nowrap;overflow-wrap:normal}\n", PageCountContent[d.PageCountForm%len(PageCountContent)])
	}
	sb.WriteString("</style></head><body>")
	for _, n := range d.Nodes {
		nodeHTML(&sb, n)
	}
	sb.WriteString("</body></html>")
	return sb.String()
}

func (d *TextDoc) hasPageCount() bool {
	var walk func(its []*TItem) bool
	walk = func(its []*TItem) bool {
		for _, it := range its {
			if it.Kind == TPageCount || walk(it.Kids) || (it.Para != nil && walk(it.Para.Items)) {
				return true
			}
		}
		return false
	}
	for _, p := range d.Paras {
		if walk(p.Items) {
			return true
		}
	}
	return false
}

// Coq term (Css/Whitespace.v `inl`) of the inline content of a paragraph
func itemsCoq(items []*TItem) []string {
	var out []string
	for _, it := range items {
		switch it.Kind {
		case TText:
			out = append(out, fmt.Sprintf("IText %s %s", WsCoq[it.Mode], vlib.Runes(it.Text)))
		case TSpan:
			out = append(out, "IBox "+vlib.List(itemsCoq(it.Kids)))
		case TBr:
			// br::before { content: '\A'; white-space: pre-line } (tests_ua.css)
			out = append(out, "IBox [IBox [IText WPreLine [10]]]")
		case TPageCount:
			// span > ::before > generated text: one word without white space, whatever its length
			out = append(out, fmt.Sprintf("IBox [IBox [IText WNowrap %s]]", vlib.Runes(PageCountMark)))
		case TInlineBlock, TBlockIn:
			out = append(out, "IAtom")
		case TFloat, TAbs:
			// out of normal flow: does not touch followingCollapsibleSpace (build.go:1680, 1685)
		}
	}
	return out
}

func (p *TPara) Coq() string { return "(IBox " + vlib.List(itemsCoq(p.Items)) + ")" }

func (d *TextDoc) TagList() []string {
	var out []string
	for k := range d.Tags {
		out = append(out, k)
	}
	for i := range out {
		for j := i + 1; j < len(out); j++ {
			if out[j] < out[i] {
				out[i], out[j] = out[j], out[i]
			}
		}
	}
	return out
}

// ---------------------------------------------------------------- structure

// Index recomputes, from the tree alone, the list of paragraphs by id, the
// enclosing paragraphs (Anc) and the role of every paragraph.
func (d *TextDoc) Index() {
	byID := map[int]*TPara{}
	var para func(p *TPara, anc []int, role string)
	var items func(its []*TItem, anc []int)
	items = func(its []*TItem, anc []int) {
		for _, it := range its {
			switch it.Kind {
			case TSpan:
				items(it.Kids, anc)
			case TInlineBlock:
				para(it.Para, anc, "inline-block")
			case TFloat:
				para(it.Para, anc, "float")
			case TAbs:
				para(it.Para, anc, "abspos")
			case TBlockIn:
				para(it.Para, anc, "block-in-inline")
			}
		}
	}
	para = func(p *TPara, anc []int, role string) {
		if p == nil {
			return
		}
		p.Anc = append([]int{}, anc...)
		p.Role = role
		p.Block, p.AvoidParent, p.AvoidAnc, p.AvoidPlain, p.ContFirst, p.ContParas = false, false, false, false, -1, nil
		byID[p.ID] = p
		items(p.Items, append(append([]int{}, anc...), p.ID))
	}
	hasAvoid := func(n *TNode) bool {
		for _, d := range strings.Split(n.Style, ";") {
			if kv := strings.SplitN(d, ":", 2); len(kv) == 2 && strings.TrimSpace(kv[0]) == "break-inside" && strings.HasPrefix(strings.TrimSpace(kv[1]), "avoid") {
				return true
			}
		}
		return false
	}
	avoidBetween := strings.Contains(d.HTML(), "break-before:avoid") || strings.Contains(d.HTML(), "break-after:avoid")
	var node func(n *TNode, parentAvoid, ancAvoid bool, depth int)
	node = func(n *TNode, parentAvoid, ancAvoid bool, depth int) {
		switch n.Kind {
		case NPara:
			role := "root"
			if n.Para.Tag == "li" {
				role = "li"
			}
			para(n.Para, nil, role)
		case NOof:
			role := "float"
			if strings.Contains(n.Para.Style, "position:absolute") {
				role = "abspos"
			}
			para(n.Para, nil, role)
			n.Para.Block = true
			n.Para.AvoidParent, n.Para.AvoidAnc = parentAvoid, ancAvoid
			n.Para.AvoidPlain = parentAvoid && depth == 1 && !avoidBetween
		case NDiv, NList:
			for _, k := range n.Kids {
				node(k, hasAvoid(n), parentAvoid || ancAvoid, depth+1)
			}
			if hasAvoid(n) {
				var inside []int
				var collect func(m *TNode)
				var collectP func(q *TPara)
				var collectI func(its []*TItem)
				collectI = func(its []*TItem) {
					for _, it := range its {
						collectI(it.Kids)
						collectP(it.Para)
					}
				}
				collectP = func(q *TPara) {
					if q != nil {
						inside = append(inside, q.ID)
						collectI(q.Items)
					}
				}
				collect = func(m *TNode) {
					collectP(m.Para)
					for _, k := range m.Kids {
						collect(k)
					}
					for _, c := range m.Head {
						collectP(c)
					}
					for _, c := range m.Foot {
						collectP(c)
					}
					for _, r := range m.Rows {
						for _, c := range r {
							collectP(c)
						}
					}
				}
				collect(n)
				first := -1
				for _, k := range n.Kids {
					if k.Kind == NPara && first < 0 {
						first = k.Para.ID
					}
					if k.Kind == NOof {
						k.Para.ContFirst, k.Para.ContParas = first, inside
					}
				}
			}
		case NTable:
			for _, c := range n.Head {
				para(c, nil, "cell")
			}
			for _, c := range n.Foot {
				para(c, nil, "cell")
			}
			for _, r := range n.Rows {
				for _, c := range r {
					para(c, nil, "cell")
				}
			}
		}
	}
	for _, n := range d.Nodes {
		node(n, false, false, 0)
	}
	// the list by id points into the tree (a document read from JSON has copies there)
	for i, p := range d.Paras {
		if q := byID[p.ID]; q != nil {
			d.Paras[i] = q
		}
	}
}

// ParaByID returns the paragraph with the given id (nil when absent).
func (d *TextDoc) ParaByID(id int) *TPara {
	for _, p := range d.Paras {
		if p.ID == id {
			return p
		}
	}
	return nil
}

// HasText: the paragraph's own inline content has at least one character (white space included)
func (p *TPara) HasText() bool {
	var walk func(its []*TItem) bool
	walk = func(its []*TItem) bool {
		for _, it := range its {
			if (it.Kind == TText && it.Text != "") || it.Kind == TPageCount || (it.Kind == TSpan && walk(it.Kids)) {
				return true
			}
		}
		return false
	}
	return walk(p.Items)
}

// OwnText is the text the paragraph's own inline formatting context carries,
// white space removed: the text items in document order (nested paragraphs excluded).
func (p *TPara) OwnText() []rune {
	var out []rune
	var walk func(its []*TItem)
	walk = func(its []*TItem) {
		for _, it := range its {
			switch it.Kind {
			case TText:
				for _, c := range it.Text {
					if c != ' ' && c != '\t' && c != '\n' && c != '\r' && c != SoftHyphen {
						out = append(out, c)
					}
				}
			case TPageCount:
				out = append(out, []rune(PageCountMark)...)
			case TSpan:
				walk(it.Kids)
			}
		}
	}
	walk(p.Items)
	return out
}
