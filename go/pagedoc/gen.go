package pagedoc

import (
	"fmt"

	"verifharness/vlib"
)

// Profile steers the generator.
type Profile struct {
	Breaks   bool // break-before/after/inside values
	Sides    bool // left/right/recto/verso
	Named    bool // named pages
	OW       bool // orphans / widows > 1
	Spacing  bool // margins / padding / borders on blocks
	Tall     bool // units taller than the page allowed
	Rules    bool // extra @page rules
	Exotic   bool // width/height/padding/min/max on @page, !important, :nth
	// Decor: most blocks carry top / bottom padding and borders with different top and bottom
	// values, from a few pixels to more than a line, and the flow is a run of small decorated
	// blocks: the content of a block then often ends inside the decoration-sized window above
	// the page bottom (the content fits, the padding / border does not: inFlowLayout lays the
	// block out again with a larger bottomSpace)
	Decor bool
	MaxUnits int
}

func RandomProfile(r *vlib.Rng) Profile {
	p := Profile{MaxUnits: r.Range(3, 22)}
	p.Breaks = r.Chance(3, 4)
	p.Sides = p.Breaks && r.Chance(1, 2)
	p.Named = r.Chance(1, 3)
	p.OW = r.Chance(1, 2)
	p.Spacing = r.Chance(2, 3)
	p.Tall = r.Chance(1, 8)
	p.Rules = r.Chance(2, 3)
	p.Exotic = p.Rules && r.Chance(1, 3)
	p.Decor = r.Chance(1, 3)
	if p.Decor {
		p.Spacing = true
		p.MaxUnits = r.Range(12, 36)
		// the page height is aimed at a block end: keep most documents free of what moves it
		// (other page sizes on the first page, orphans / widows that forbid the break)
		p.Rules = r.Chance(1, 3)
		p.Exotic = p.Rules && r.Chance(1, 3)
		p.OW = r.Chance(1, 4)
	}
	return p
}

type gen struct {
	r     *vlib.Rng
	p     Profile
	units int
	hc    int // nominal page content height
	tags  map[string]bool
}

func (g *gen) brk(before bool) int {
	r := g.r
	den := 5
	if g.p.Decor {
		den = 14 // pages end because they are full, not at forced breaks
	}
	if !g.p.Breaks || !r.Chance(1, den) {
		return 0
	}
	return g.brkValue()
}

// a break value other than auto
func (g *gen) brkValue() int {
	r := g.r
	// indices in BrkNames
	switch k := r.Intn(12); {
	case k < 4:
		g.tags["avoid"] = true
		return vlib.Pick(r, []int{1, 1, 1, 2})
	case k < 7:
		g.tags["forced"] = true
		return vlib.Pick(r, []int{4, 4, 10})
	case k < 11:
		if g.p.Sides {
			g.tags["forced"] = true
			g.tags["side"] = true
			return vlib.Pick(r, []int{6, 7, 8, 9})
		}
		g.tags["forced"] = true
		return 4
	default:
		g.tags["column-value"] = true
		return vlib.Pick(r, []int{3, 5})
	}
}

func (g *gen) node(depth int) *Node {
	r := g.r
	k := r.Intn(10)
	if depth >= 3 && k < 4 {
		k = 4 + r.Intn(6)
	}
	blockP := 4
	if g.p.Decor { // a run of small decorated blocks, little nesting
		blockP = []int{7, 2, 1, 0}[depth]
	}
	switch {
	case k < blockP: // block
		n := &Node{Kind: KBlk}
		if g.p.Decor {
			g.decorate(n)
		} else if g.p.Spacing {
			n.Mt = vlib.Pick(r, []int{0, 0, 0, 5, 10, 20})
			n.Mb = vlib.Pick(r, []int{0, 0, 0, 5, 10, 20})
			n.Pt = vlib.Pick(r, []int{0, 0, 0, 0, 5, 10})
			n.Pb = vlib.Pick(r, []int{0, 0, 0, 0, 5, 10})
			if r.Chance(1, 8) {
				n.Bt = vlib.Pick(r, []int{0, 2, 4})
				n.Bbw = vlib.Pick(r, []int{0, 2, 4})
			}
			if n.Mt != 0 || n.Mb != 0 {
				g.tags["margins"] = true
			}
			if n.Pt+n.Bt != 0 {
				g.tags["pad-top"] = true
			}
			if n.Pb+n.Bbw != 0 {
				g.tags["pad-bottom"] = true
			}
		}
		n.Bb = g.brk(true)
		n.Ba = g.brk(false)
		if g.p.Breaks && r.Chance(1, 6) && !(g.p.Decor && r.Chance(2, 3)) {
			n.Bi = vlib.Pick(r, []int{1, 1, 2, 3})
			if n.Bi == 3 {
				g.tags["column-value"] = true
			} else {
				g.tags["avoid-inside"] = true
			}
		}
		if g.p.Named && r.Chance(1, 4) {
			n.Page = r.Range(1, 2)
			g.tags["named"] = true
		}
		nk := r.Range(1, 4)
		if g.p.Decor {
			nk = r.Range(1, 3)
		}
		for i := 0; i < nk && g.units < g.p.MaxUnits; i++ {
			n.Kids = append(n.Kids, g.node(depth+1))
		}
		if len(n.Kids) == 0 {
			n.Kids = append(n.Kids, g.leaf())
		}
		// a break value on the first / last of several children: it belongs to the boundary
		// between this block and its sibling (the values of all boxes that start / end at a
		// boundary meet there)
		if g.p.Breaks && len(n.Kids) >= 2 && r.Chance(1, 2) && !(g.p.Decor && r.Chance(3, 4)) {
			wrap := func(i int) *Node {
				if n.Kids[i].Kind != KBlk {
					n.Kids[i] = &Node{Kind: KBlk, Kids: []*Node{n.Kids[i]}}
				}
				return n.Kids[i]
			}
			if r.Chance(2, 3) {
				wrap(len(n.Kids) - 1).Ba = g.brkValue()
			} else {
				wrap(0).Bb = g.brkValue()
			}
			g.tags["nested"] = true
		}
		if depth+1 > 1 {
			g.tags["nested"] = true
		}
		return n
	default:
		return g.leaf()
	}
}

// decorate gives a block paddings and borders whose top and bottom values are drawn
// independently (so they mostly differ), between a few pixels and more than a line; margins
// are rarer (a bottom margin enclosed by bottom padding is a known deviation of its own)
func (g *gen) decorate(n *Node) {
	r := g.r
	if r.Chance(1, 4) {
		n.Mt = vlib.Pick(r, []int{0, 5, 10, 20})
	}
	if r.Chance(1, 6) {
		n.Mb = vlib.Pick(r, []int{5, 10, 20})
	}
	if r.Chance(1, 2) {
		n.Pt = vlib.Pick(r, []int{5, 10, 15, 25})
	}
	if r.Chance(3, 5) {
		n.Pb = vlib.Pick(r, []int{5, 10, 15, 20, 30})
	}
	if r.Chance(2, 3) {
		n.Bt = vlib.Pick(r, []int{0, 0, 3, 5, 10, 20, 30})
		n.Bbw = vlib.Pick(r, []int{0, 2, 5, 10, 20, 30})
	}
	if n.Mt != 0 || n.Mb != 0 {
		g.tags["margins"] = true
	}
	if n.Pt+n.Bt != 0 {
		g.tags["pad-top"] = true
	}
	if n.Pb+n.Bbw != 0 {
		g.tags["pad-bottom"] = true
	}
	if n.Bt != n.Bbw {
		g.tags["border-asym"] = true
	}
	g.tags["decor"] = true
}

func (g *gen) leaf() *Node {
	r := g.r
	if r.Chance(2, 3) {
		n := &Node{Kind: KPara, N: r.Range(1, 8), Lh: vlib.Pick(r, []int{20, 20, 20, 25, 30}), Orphans: 1, Widow: 1}
		if r.Chance(1, 6) && !g.p.Decor {
			n.N = r.Range(8, 14)
		} else if g.p.Decor && r.Chance(3, 4) {
			n.N = r.Range(1, 3) // small blocks: many block ends per page
		}
		if g.p.OW {
			n.Orphans = vlib.Pick(r, []int{1, 2, 2, 3, 4})
			n.Widow = vlib.Pick(r, []int{1, 2, 2, 3, 4})
			if n.Orphans > 1 || n.Widow > 1 {
				g.tags["orphans-widows"] = true
			}
		}
		if n.Lh > g.hc {
			g.tags["tall-unit"] = true
		}
		g.units += n.N
		return n
	}
	n := &Node{Kind: KMono, H: vlib.Pick(r, []int{10, 20, 30, 40, 50})}
	if g.p.Tall && r.Chance(1, 3) {
		n.H = g.hc + r.Range(1, 60)
	}
	if n.H > g.hc {
		g.tags["tall-unit"] = true
	}
	g.tags["mono"] = true
	g.units++
	return n
}

func (g *gen) sel() Sel {
	r := g.r
	var s Sel
	for s == (Sel{}) {
		if g.p.Named && r.Chance(1, 3) {
			s.Name = r.Range(1, 2)
		}
		if r.Chance(1, 3) {
			s.Side = r.Range(1, 2)
		}
		if r.Chance(1, 4) {
			s.First = true
		}
		if r.Chance(1, 5) {
			s.Blank = true
		}
		if g.p.Exotic && r.Chance(1, 4) {
			s.Nth = true
			s.A = vlib.Pick(r, []int{0, 1, 2, 2, 3, -1})
			s.B = r.Range(-1, 3)
			g.tags["nth"] = true
		}
		if r.Chance(1, 12) {
			break // the universal selector
		}
	}
	return s
}

func (g *gen) decl() Decl {
	r := g.r
	px := func() float64 { return float64(r.Range(0, 8)) * 4 }
	val := func(allowAuto bool) Val {
		switch k := r.Intn(8); {
		case k == 0 && allowAuto:
			g.tags["page-auto"] = true
			return Val{Kind: 0}
		case k == 1:
			g.tags["page-pct"] = true
			return Val{Kind: 2, V: vlib.Pick(r, []float64{0, 12.5, 25, 50})}
		default:
			return Val{Kind: 1, V: px()}
		}
	}
	var d Decl
	if g.p.Exotic {
		d.Important = r.Chance(1, 6)
		if d.Important {
			g.tags["important"] = true
		}
		switch k := r.Intn(12); {
		case k < 5:
			d.Prop = r.Range(1, 4)
			d.V = val(true)
		case k == 5:
			d.Prop = 0
			d.W, d.H = float64(r.Range(20, 40))*8, float64(g.hc+r.Range(0, 10)*8)
		case k == 6:
			d.Prop = 5 // width
			d.V = vlib.Pick(r, []Val{{Kind: 0}, {Kind: 1, V: float64(r.Range(10, 40)) * 8}, {Kind: 2, V: 50}})
			g.tags["page-width"] = true
		case k == 7:
			d.Prop = 6 // height
			d.V = vlib.Pick(r, []Val{{Kind: 0}, {Kind: 1, V: float64(g.hc - 8*r.Range(0, 3))}, {Kind: 2, V: 50}})
			g.tags["page-height"] = true
		case k < 10:
			d.Prop = r.Range(7, 10)
			d.V = val(false)
			g.tags["page-padding"] = true
		default:
			d.Prop = r.Range(11, 14)
			d.V = Val{Kind: 1, V: float64(r.Range(5, 40)) * 8}
			g.tags["page-minmax"] = true
		}
		return d
	}
	if r.Chance(1, 6) {
		d.Prop = 0
		d.W, d.H = float64(r.Range(20, 40))*8, float64(g.hc+r.Range(0, 10)*8)
		return d
	}
	d.Prop = r.Range(1, 4)
	d.V = val(r.Chance(1, 4))
	return d
}

// Generate draws a document.
func Generate(r *vlib.Rng, p Profile) *Doc {
	g := &gen{r: r, p: p, tags: map[string]bool{}}
	g.hc = vlib.Pick(r, []int{60, 80, 100, 100, 120, 160, 200})
	if p.Decor {
		g.hc = vlib.Pick(r, []int{100, 120, 160, 200, 240})
	}
	d := &Doc{Tags: g.tags}
	if r.Chance(1, 4) {
		d.Rtl = true
		g.tags["rtl"] = true
	}
	if p.Sides && r.Chance(1, 4) {
		d.RootBb = vlib.Pick(r, []int{6, 7, 8, 9})
		g.tags["root-break"] = true
	}
	// base rule: the page content box is hc high
	mt, mb := r.Range(0, 5)*4, r.Range(0, 5)*4
	ml, mr := r.Range(0, 5)*4, r.Range(0, 5)*4
	base := Rule{Sels: []Sel{{}}, Decls: []Decl{
		{Prop: 0, W: float64(160 + ml + mr), H: float64(g.hc + mt + mb)},
		{Prop: 1, V: Val{1, float64(mt)}}, {Prop: 2, V: Val{1, float64(mr)}},
		{Prop: 3, V: Val{1, float64(mb)}}, {Prop: 4, V: Val{1, float64(ml)}},
	}}
	d.Rules = append(d.Rules, base)
	if p.Rules {
		for i, n := 0, r.Range(1, 4); i < n; i++ {
			var rule Rule
			for j, m := 0, vlib.Pick(r, []int{1, 1, 1, 2}); j < m; j++ {
				s := g.sel()
				if s == (Sel{}) { // the universal selector cannot be written in a list
					rule.Sels = []Sel{s}
					break
				}
				rule.Sels = append(rule.Sels, s)
			}
			for j, m := 0, r.Range(1, 3); j < m; j++ {
				rule.Decls = append(rule.Decls, g.decl())
			}
			d.Rules = append(d.Rules, rule)
		}
		g.tags["page-rules"] = true
	}
	cont := 5
	if p.Decor {
		cont = 12
	}
	for len(d.Flow) == 0 || (g.units < p.MaxUnits && r.Chance(cont-1, cont)) {
		d.Flow = append(d.Flow, g.node(0))
	}
	d.Number()
	if p.Decor && r.Chance(4, 5) {
		if hc := g.aimHeight(d); hc > 0 {
			g.hc = hc
			base := &d.Rules[0].Decls[0]
			base.H = float64(hc + mt + mb)
			g.tags["aimed"] = true
		}
	}
	g.tags[fmt.Sprintf("hc=%d", g.hc)] = true
	if r.Chance(1, 3) {
		d.MBoxes = g.marginBoxes()
		g.tags["margin-boxes"] = true
	}
	// drawn last so that everything above is unchanged for a job seed
	if p.Rules && r.Chance(1, 3) {
		d.Rules = append(d.Rules, g.axisRule())
		g.tags["page-axis-rule"] = true
		d.Number() // the structural tags of the known findings are computed from the rules too
	}
	return d
}

// axisRule is one @page rule that constrains one or both axes of the page box completely:
// an explicit width / height, the two margins of the axis in every auto / length combination
// (only the first auto, only the second, both, none: over-constrained) and, mostly, padding
// on that axis, so that every branch of the width / height equation (pageWidthOrHeight) is
// reached with a non-zero padding.  Independent declarations almost never combine that way.
func (g *gen) axisRule() Rule {
	r := g.r
	var rule Rule
	if r.Chance(1, 2) {
		rule.Sels = []Sel{{}}
	} else {
		s := g.sel()
		rule.Sels = []Sel{s}
	}
	axis := r.Intn(3) // 0 horizontal, 1 vertical, 2 both
	margin := func() Val {
		switch r.Intn(5) {
		case 0, 1:
			return Val{Kind: 0}
		case 2:
			return Val{Kind: 2, V: vlib.Pick(r, []float64{0, 12.5, 25})}
		}
		return Val{Kind: 1, V: float64(r.Range(0, 8)) * 4}
	}
	pad := func() Val {
		if r.Chance(1, 4) {
			return Val{Kind: 1, V: 0}
		}
		return Val{Kind: 1, V: float64(r.Range(1, 6)) * 4}
	}
	one := func(inner, inV, mA, mB, pA, pB int) {
		rule.Decls = append(rule.Decls, Decl{Prop: inner, V: Val{Kind: 1, V: float64(inV)}})
		rule.Decls = append(rule.Decls, Decl{Prop: mA, V: margin()}, Decl{Prop: mB, V: margin()})
		if r.Chance(3, 4) {
			rule.Decls = append(rule.Decls, Decl{Prop: pA, V: pad()}, Decl{Prop: pB, V: pad()})
			g.tags["page-axis-padding"] = true
		}
	}
	if axis != 1 {
		one(5, 8*r.Range(10, 24), 4, 2, 10, 8)
	}
	if axis != 0 {
		one(6, g.hc-8*r.Range(0, 3), 1, 3, 7, 9)
	}
	return rule
}

// MarginAts are the margin boxes the generator adds (@bottom-center always shows
// counter(page) "/" counter(pages)), in the order makeMarginBoxes generates them
var MarginAts = []string{"top-left", "top-center", "top-right", "bottom-left", "bottom-right",
	"left-top", "left-middle", "left-bottom", "right-top", "right-middle", "right-bottom",
	"top-left-corner", "top-right-corner", "bottom-right-corner", "bottom-left-corner"}

// marginBoxes draws 2-5 margin rules: some manipulate counters (page, author counters c / d,
// rarely pages, which a margin context ignores) in their own rule, all show counter values.
// One rule never has counter-set and counter-increment on the same counter (the implementation
// applies them in the order reset, set, increment: CSS Lists 3 says reset, increment, set)
func (g *gen) marginBoxes() []MBox {
	r := g.r
	n := r.Range(2, 5)
	perm := make([]int, len(MarginAts))
	for i := range perm {
		perm[i] = i
	}
	for i := len(perm) - 1; i > 0; i-- {
		j := r.Intn(i + 1)
		perm[i], perm[j] = perm[j], perm[i]
	}
	var out []MBox
	for i := 0; i < n; i++ {
		b := MBox{At: MarginAts[perm[i]]}
		names := []int{0, 0, 0, 2, 2, 3, 1}
		used := map[int]bool{}
		for k, m := 0, vlib.Pick(r, []int{0, 1, 1, 1, 2, 2, 3}); k < m; k++ {
			nm := vlib.Pick(r, names)
			if used[nm] {
				continue
			}
			used[nm] = true
			kind := r.Intn(5)
			if kind == 0 || kind == 3 || kind == 4 {
				b.Resets = append(b.Resets, MOp{nm, r.Range(0, 20)})
			}
			if kind == 1 || kind == 3 {
				b.Sets = append(b.Sets, MOp{nm, r.Range(0, 50)})
			}
			if kind == 2 || kind == 4 {
				v := r.Range(1, 100)
				if r.Chance(1, 6) {
					v = -r.Range(1, 9)
				}
				b.Incrs = append(b.Incrs, MOp{nm, v})
			}
		}
		for k, m := 0, r.Range(1, 3); k < m; k++ {
			b.Reads = append(b.Reads, MRead{Name: vlib.Pick(r, []int{0, 0, 0, 1, 2, 2, 3}), All: r.Chance(1, 4)})
		}
		out = append(out, b)
	}
	return out
}

// aimHeight chooses the height of the page content box so that, on the first page, the
// content of some block with bottom padding / border (not the first box of the page) ends
// at most its decoration above the page bottom or a few pixels around that window: the
// block's content fits, its bottom decoration does or does not.  Positions are the plain sums
// of heights (margins counted in full: exact when no margins collapse), so the aim is
// approximate; 0 when the flow has no such block.
func (g *gen) aimHeight(d *Doc) int {
	type cand struct{ end, win int }
	var cands []cand
	y := 0
	var walk func(n *Node, first bool)
	walk = func(n *Node, first bool) {
		switch n.Kind {
		case KBlk:
			y += n.Mt + n.Pt + n.Bt
			for i, k := range n.Kids {
				walk(k, first && i == 0)
			}
			if w := n.Pb + n.Bbw; w > 0 && !first && y >= 60 && y <= 420 {
				cands = append(cands, cand{y, w})
			}
			y += n.Pb + n.Bbw + n.Mb
		case KPara:
			y += n.N * n.Lh
		case KMono:
			y += n.H
		}
	}
	for i, n := range d.Flow {
		walk(n, i == 0)
	}
	if len(cands) == 0 {
		return 0
	}
	c := cands[g.r.Intn(len(cands))]
	hc := c.end + g.r.Range(-4, c.win+4)
	if hc < 40 {
		hc = 40
	}
	return hc
}
