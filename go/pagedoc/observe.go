package pagedoc

import (
	"fmt"
	"strconv"
	"strings"

	bo "github.com/benoitkugler/webrender/html/boxes"
	"verifharness/vlib"
	"verifharness/vlib/render"
)

type Fl = render.Fl

type UnitObs struct {
	ID          int // unit index, -1 when the text is not a unit text
	Top, Bottom Fl  // relative to the top of the page's content box
	Text        string
}

type PageObs struct {
	W, H                   Fl // content box
	Mt, Mr, Mb, Ml         Fl
	Side                   string
	Blank, First           bool
	Index                  int
	Name                   string
	Units                  []UnitObs
	MarginText             string            // text of the @bottom-center box
	Margins                map[string]string // text of every generated margin box by at-keyword (without the @)
	CounterPage, CounterOf int // parsed "a/b" (-1 when absent / unparsable)
	RootBottom             Fl // bottom border edge of the root element box, relative to the content box top
}

func elemID(b bo.Box) string {
	e := b.Box().Element
	if e == nil {
		return ""
	}
	for _, a := range e.Attr {
		if a.Key == "id" {
			return a.Val
		}
	}
	return ""
}

func textOf(b bo.Box) string {
	var sb strings.Builder
	render.Walk(b, func(c bo.Box, _ int) {
		if t, ok := c.(*bo.TextBox); ok {
			sb.WriteString(t.TextS())
		}
	})
	return sb.String()
}

// Observe projects laid-out pages to the observables of C12.
func Observe(pages []*bo.PageBox) []PageObs {
	var out []PageObs
	for _, p := range pages {
		o := PageObs{
			W: Fl(p.Width.V()), H: Fl(p.Height.V()),
			Mt: Fl(p.MarginTop.V()), Mr: Fl(p.MarginRight.V()), Mb: Fl(p.MarginBottom.V()), Ml: Fl(p.MarginLeft.V()),
			Side: p.PageType.Side, Blank: p.PageType.Blank, First: p.PageType.First, Index: p.PageType.Index, Name: p.PageType.Name,
			CounterPage: -1, CounterOf: -1,
		}
		top := Fl(p.ContentBoxY())
		for _, c := range p.Children {
			if m, isM := c.(*bo.MarginBox); isM {
				if m.AtKeyword == "@bottom-center" {
					o.MarginText += textOf(c)
				}
				if m.IsGenerated {
					if o.Margins == nil {
						o.Margins = map[string]string{}
					}
					o.Margins[strings.TrimPrefix(m.AtKeyword, "@")] += textOf(c)
				}
				continue
			}
			if !bo.BlockT.IsInstance(c) || c.Box().Element == nil {
				continue // footnote area
			}
			o.RootBottom = Fl(c.Box().BorderBoxY()+c.Box().BorderHeight()) - top
			render.Walk(c, func(b bo.Box, _ int) {
				if l, ok := b.(*bo.LineBox); ok {
					txt := strings.TrimSpace(textOf(l))
					y := Fl(l.PositionY) - top
					o.Units = append(o.Units, UnitObs{ID: ParseUnitText(txt), Top: y, Bottom: y + Fl(l.Height.V()), Text: txt})
				} else if id := elemID(b); strings.HasPrefix(id, "m") && bo.BlockT.IsInstance(b) {
					k, err := strconv.Atoi(id[1:])
					if err != nil {
						k = -1
					}
					y := Fl(b.Box().BorderBoxY()) - top
					o.Units = append(o.Units, UnitObs{ID: k, Top: y, Bottom: y + Fl(b.Box().BorderHeight()), Text: id})
				}
			})
		}
		if parts := strings.Split(o.MarginText, "/"); len(parts) == 2 {
			a, e1 := strconv.Atoi(parts[0])
			b, e2 := strconv.Atoi(parts[1])
			if e1 == nil && e2 == nil {
				o.CounterPage, o.CounterOf = a, b
			}
		}
		out = append(out, o)
	}
	return out
}

func sideN(s string) int {
	switch s {
	case "left":
		return 1
	case "right":
		return 2
	}
	return 0
}

func nameN(s string) int {
	if s == "" {
		return 0
	}
	if strings.HasPrefix(s, "n") {
		if k, err := strconv.Atoi(s[1:]); err == nil {
			return k
		}
	}
	return 999
}

func (o PageObs) Coq() string {
	var us []string
	for _, u := range o.Units {
		id := u.ID
		if id < 0 {
			id = 99999
		}
		us = append(us, fmt.Sprintf("IU %d %s %s", id, vlib.Q32(u.Top), vlib.Q32(u.Bottom)))
	}
	ctr := "None"
	if o.CounterPage >= 0 && o.CounterOf >= 0 {
		ctr = fmt.Sprintf("(Some (Ctr %d %d))", o.CounterPage, o.CounterOf)
	}
	return fmt.Sprintf("(mkIPage %s %s %s %s %s %s %d %s %s %s %d %s %s)",
		vlib.Q32(o.W), vlib.Q32(o.H), vlib.Q32(o.Mt), vlib.Q32(o.Mr), vlib.Q32(o.Mb), vlib.Q32(o.Ml),
		sideN(o.Side), vlib.Bool(o.Blank), vlib.Bool(o.First), vlib.Z(o.Index), nameN(o.Name), vlib.List(us), ctr)
}

func CoqPages(ps []PageObs) string {
	var l []string
	for _, p := range ps {
		l = append(l, p.Coq())
	}
	return vlib.List(l)
}

// Summary is the human-readable form used in Desc / replays
func Summary(ps []PageObs) []string {
	var out []string
	for i, p := range ps {
		var us []string
		for _, u := range p.Units {
			us = append(us, fmt.Sprintf("%d@%v-%v", u.ID, u.Top, u.Bottom))
		}
		bl := ""
		if p.Blank {
			bl = " blank"
		}
		fi := ""
		if p.First {
			fi = " first"
		}
		out = append(out, fmt.Sprintf("page %d: %s%s%s name=%q box=%vx%v margins=%v,%v,%v,%v units=[%s] margin-text=%q",
			i, p.Side, bl, fi, p.Name, p.W, p.H, p.Mt, p.Mr, p.Mb, p.Ml, strings.Join(us, " "), p.MarginText))
	}
	return out
}
