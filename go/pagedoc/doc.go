// Package pagedoc: generated paginated documents shared by the C12 and C02
// harnesses.  A Doc is a flow tree (blocks with margins / padding / break-*
// / named pages, paragraphs of Ahem lines, fixed-height boxes) plus @page
// rules; it renders to HTML for /repo and to a Coq term for the model
// (Layout/Paginate.v `doc`).
package pagedoc

import (
	"fmt"
	"strconv"
	"strings"

	"verifharness/vlib"
)

// ---------------------------------------------------------------- flow

const (
	KBlk = iota
	KPara
	KMono
)

// break values, numbered as the constructors of Paginate.brk
var BrkNames = []string{"auto", "avoid", "avoid-page", "avoid-column", "page", "column", "left", "right", "recto", "verso", "always"}
var BrkCoq = []string{"BAuto", "BAvoid", "BAvoidPage", "BAvoidColumn", "BPage", "BColumn", "BLeft", "BRight", "BRecto", "BVerso", "BPage"}

type Node struct {
	Kind           int
	ID             int // element number (id attribute b<ID> / p<ID> / m<ID>)
	Mt, Mb         int // margins (px)
	Pt, Pb         int // padding (px)
	Bt, Bbw        int // border-top / border-bottom width (px)
	Bb, Ba, Bi     int // index in BrkNames
	Page           int // 0 = none, k = name "n<k>"
	Kids           []*Node
	N, Lh          int // paragraph: lines, line height
	Orphans, Widow int
	H              int // mono
	FirstUnit      int // paragraph: index of its first line unit; mono: its unit
}

// ---------------------------------------------------------------- @page rules

type Sel struct {
	Name  int // 0 none
	Side  int // 0 none 1 left 2 right
	Blank bool
	First bool
	Nth   bool
	A, B  int
}

// value of a margin / width / height / padding: auto, px or %
type Val struct {
	Kind int // 0 auto 1 px 2 pct
	V    float64
}

func (v Val) CSS() string {
	switch v.Kind {
	case 0:
		return "auto"
	case 1:
		return trimf(v.V) + "px"
	default:
		return trimf(v.V) + "%"
	}
}

func (v Val) Coq() string {
	switch v.Kind {
	case 0:
		return "VAuto"
	case 1:
		return "(VPx " + vlib.Q64(v.V) + ")"
	default:
		return "(VPct " + vlib.Q64(v.V) + ")"
	}
}

func trimf(x float64) string {
	s := fmt.Sprintf("%.4f", x)
	s = strings.TrimRight(s, "0")
	return strings.TrimRight(s, ".")
}

// property numbers = constructors of Paginate.pprop
var PropNames = []string{"size", "margin-top", "margin-right", "margin-bottom", "margin-left", "width", "height",
	"padding-top", "padding-right", "padding-bottom", "padding-left",
	"min-width", "max-width", "min-height", "max-height"}
var PropCoq = []string{"PSize", "PMarginTop", "PMarginRight", "PMarginBottom", "PMarginLeft", "PWidth", "PHeight",
	"PPaddingTop", "PPaddingRight", "PPaddingBottom", "PPaddingLeft",
	"PMinWidth", "PMaxWidth", "PMinHeight", "PMaxHeight"}

type Decl struct {
	Prop      int
	V         Val     // all but size
	W, H      float64 // size
	Important bool
}

type Rule struct {
	Sels  []Sel
	Decls []Decl
}

type Doc struct {
	Rtl    bool
	RootBb int // break-before of the root element
	Rules  []Rule
	Flow   []*Node
	NUnits int
	Tags   map[string]bool
	// margin boxes of the base @page rule besides @bottom-center, each with counter-* declarations
	// of its own and a content made of counter() / counters() values
	MBoxes []MBox
}

// CounterNames are the counters margin rules manipulate / show (index = name in the Coq model)
var CounterNames = []string{"page", "pages", "c", "d"}

type MOp struct {
	Name int // index in CounterNames
	V    int
}

type MRead struct {
	Name int
	All  bool // counters(name, ".") instead of counter(name)
}

type MBox struct {
	At                  string // at-keyword without the @
	Resets, Sets, Incrs []MOp
	Reads               []MRead
}

func (b MBox) CSS() string {
	var ds []string
	ops := func(prop string, l []MOp) {
		if len(l) == 0 {
			return
		}
		var vs []string
		for _, o := range l {
			vs = append(vs, fmt.Sprintf("%s %d", CounterNames[o.Name], o.V))
		}
		ds = append(ds, prop+": "+strings.Join(vs, " "))
	}
	ops("counter-reset", b.Resets)
	ops("counter-set", b.Sets)
	ops("counter-increment", b.Incrs)
	var cs []string
	for _, r := range b.Reads {
		if r.All {
			cs = append(cs, fmt.Sprintf(`counters(%s, ".")`, CounterNames[r.Name]))
		} else {
			cs = append(cs, fmt.Sprintf("counter(%s)", CounterNames[r.Name]))
		}
	}
	ds = append(ds, "content: "+strings.Join(cs, ` "/" `), "font: 10px/10px Ahem")
	return fmt.Sprintf("@%s { %s }", b.At, strings.Join(ds, "; "))
}

func (b MBox) Coq() string {
	ops := func(l []MOp) string {
		var vs []string
		for _, o := range l {
			vs = append(vs, fmt.Sprintf("(%d%%N, (%d)%%Z)", o.Name, o.V))
		}
		return vlib.List(vs)
	}
	var rs []string
	for _, r := range b.Reads {
		if r.All {
			rs = append(rs, fmt.Sprintf("RCounters %d%%N", r.Name))
		} else {
			rs = append(rs, fmt.Sprintf("RCounter %d%%N", r.Name))
		}
	}
	return fmt.Sprintf("(mkMBox %s %s %s %s)", ops(b.Resets), ops(b.Sets), ops(b.Incrs), vlib.List(rs))
}

// ParseMarginText reads the text of a margin box made by MBox.CSS back: one list of numbers
// per counter() / counters() (nil when the text has another form)
func ParseMarginText(s string) [][]int {
	var out [][]int
	for _, part := range strings.Split(s, "/") {
		var l []int
		for _, f := range strings.Split(part, ".") {
			v, err := strconv.Atoi(f)
			if err != nil {
				return nil
			}
			l = append(l, v)
		}
		out = append(out, l)
	}
	return out
}

func (s Sel) CSS() string {
	var sb strings.Builder
	if s.Name != 0 {
		fmt.Fprintf(&sb, "n%d", s.Name)
	}
	// pseudo classes in a fixed order (the order does not matter to the parser)
	if s.First {
		sb.WriteString(":first")
	}
	if s.Blank {
		sb.WriteString(":blank")
	}
	if s.Side == 1 {
		sb.WriteString(":left")
	} else if s.Side == 2 {
		sb.WriteString(":right")
	}
	if s.Nth {
		fmt.Fprintf(&sb, ":nth(%dn%+d)", s.A, s.B)
	}
	return sb.String()
}

func (s Sel) Coq() string {
	nth := "None"
	if s.Nth {
		nth = fmt.Sprintf("(Some (NthAB %s %s))", vlib.Z(s.A), vlib.Z(s.B))
	}
	return fmt.Sprintf("(mkSel %d %d %s %s %s)", s.Name, s.Side, vlib.Bool(s.Blank), vlib.Bool(s.First), nth)
}

func (d Decl) CSS() string {
	imp := ""
	if d.Important {
		imp = " !important"
	}
	if d.Prop == 0 {
		return fmt.Sprintf("size: %spx %spx%s", trimf(d.W), trimf(d.H), imp)
	}
	return fmt.Sprintf("%s: %s%s", PropNames[d.Prop], d.V.CSS(), imp)
}

func (d Decl) Coq() string {
	v := d.V.Coq()
	if d.Prop == 0 {
		v = fmt.Sprintf("(VSize %s %s)", vlib.Q64(d.W), vlib.Q64(d.H))
	}
	return fmt.Sprintf("(mkDecl %s %s %s)", PropCoq[d.Prop], v, vlib.Bool(d.Important))
}

func (r Rule) CSS(marginBox bool, more ...MBox) string {
	var sels []string
	for _, s := range r.Sels {
		sels = append(sels, s.CSS())
	}
	var ds []string
	for _, d := range r.Decls {
		ds = append(ds, d.CSS())
	}
	mb := ""
	if marginBox {
		mb = `; @bottom-center { content: counter(page) "/" counter(pages); font: 10px/10px Ahem }`
		for _, b := range more {
			mb += " " + b.CSS()
		}
	}
	return fmt.Sprintf("@page %s { %s%s }", strings.Join(sels, ", "), strings.Join(ds, "; "), mb)
}

func (r Rule) Coq() string {
	var sels, ds []string
	for _, s := range r.Sels {
		sels = append(sels, s.Coq())
	}
	for _, d := range r.Decls {
		ds = append(ds, d.Coq())
	}
	return fmt.Sprintf("(mkRule %s %s)", vlib.List(sels), vlib.List(ds))
}

// ---------------------------------------------------------------- rendering

// UnitText returns the 4-character text of line unit u
func UnitText(u int) string {
	const digits = "0123456789abcdefghijklmnopqrstuvwxyz"
	b := []byte("u000")
	for i := 3; i >= 1; i-- {
		b[i] = digits[u%36]
		u /= 36
	}
	return string(b)
}

// ParseUnitText is the inverse of UnitText (-1 when s is not a unit text)
func ParseUnitText(s string) int {
	if len(s) != 4 || s[0] != 'u' {
		return -1
	}
	u := 0
	for i := 1; i < 4; i++ {
		c := s[i]
		switch {
		case c >= '0' && c <= '9':
			u = u*36 + int(c-'0')
		case c >= 'a' && c <= 'z':
			u = u*36 + int(c-'a') + 10
		default:
			return -1
		}
	}
	return u
}

func (n *Node) html(sb *strings.Builder) {
	switch n.Kind {
	case KBlk:
		var st []string
		add := func(k string, v int) {
			if v != 0 {
				st = append(st, fmt.Sprintf("%s:%dpx", k, v))
			}
		}
		add("margin-top", n.Mt)
		add("margin-bottom", n.Mb)
		add("padding-top", n.Pt)
		add("padding-bottom", n.Pb)
		if n.Bt != 0 || n.Bbw != 0 {
			st = append(st, fmt.Sprintf("border-style:solid;border-width:%dpx 0 %dpx 0", n.Bt, n.Bbw))
		}
		if n.Bb != 0 {
			st = append(st, "break-before:"+BrkNames[n.Bb])
		}
		if n.Ba != 0 {
			st = append(st, "break-after:"+BrkNames[n.Ba])
		}
		if n.Bi != 0 {
			st = append(st, "break-inside:"+BrkNames[n.Bi])
		}
		if n.Page != 0 {
			st = append(st, fmt.Sprintf("page:n%d", n.Page))
		}
		fmt.Fprintf(sb, `<div id="b%d" style="%s">`, n.ID, strings.Join(st, ";"))
		for _, k := range n.Kids {
			k.html(sb)
		}
		sb.WriteString("</div>")
	case KPara:
		fmt.Fprintf(sb, `<p id="p%d" style="line-height:%dpx;orphans:%d;widows:%d">`, n.ID, n.Lh, n.Orphans, n.Widow)
		for i := 0; i < n.N; i++ {
			if i > 0 {
				sb.WriteString(" ")
			}
			sb.WriteString(UnitText(n.FirstUnit + i))
		}
		sb.WriteString("</p>")
	case KMono:
		fmt.Fprintf(sb, `<div id="m%d" style="height:%dpx"></div>`, n.FirstUnit, n.H)
	}
}

func (n *Node) Coq() string {
	switch n.Kind {
	case KBlk:
		var ks []string
		for _, k := range n.Kids {
			ks = append(ks, k.Coq())
		}
		return fmt.Sprintf("(Blk %s %s %s %s %s %s %s %d %s)", vlib.Z(n.Mt), vlib.Z(n.Mb), vlib.Z(n.Pt+n.Bt), vlib.Z(n.Pb+n.Bbw),
			BrkCoq[n.Bb], BrkCoq[n.Ba], BrkCoq[n.Bi], n.Page, vlib.List(ks))
	case KPara:
		return fmt.Sprintf("(Para %d %s %d %d)", n.N, vlib.Z(n.Lh), n.Orphans, n.Widow)
	default:
		return fmt.Sprintf("(Mono %s)", vlib.Z(n.H))
	}
}

func (d *Doc) HTML() string {
	var sb strings.Builder
	sb.WriteString("<html")
	var st []string
	if d.Rtl {
		st = append(st, "direction:rtl")
	}
	if d.RootBb != 0 {
		st = append(st, "break-before:"+BrkNames[d.RootBb])
	}
	if len(st) != 0 {
		fmt.Fprintf(&sb, ` style="%s"`, strings.Join(st, ";"))
	}
	sb.WriteString("><head><style>\n")
	for i, r := range d.Rules {
		if i == 0 {
			sb.WriteString(r.CSS(true, d.MBoxes...))
		} else {
			sb.WriteString(r.CSS(false))
		}
		sb.WriteString("\n")
	}
	sb.WriteString("html,body{margin:0;padding:0}\nbody{font:20px/20px Ahem;width:100px}\np{margin:0}\n")
	sb.WriteString("</style></head><body>")
	for _, n := range d.Flow {
		n.html(&sb)
	}
	sb.WriteString("</body></html>")
	return sb.String()
}

func (d *Doc) Coq() string {
	var rs, fs []string
	for _, r := range d.Rules {
		rs = append(rs, r.Coq())
	}
	for _, n := range d.Flow {
		fs = append(fs, n.Coq())
	}
	return fmt.Sprintf("(mkDoc %s %s %s %s)", vlib.Bool(d.Rtl), BrkCoq[d.RootBb], vlib.List(rs), vlib.List(fs))
}

// Number assigns element ids and unit indices in flow order.
func (d *Doc) Number() {
	id, u := 0, 0
	var walk func(n *Node)
	walk = func(n *Node) {
		id++
		n.ID = id
		switch n.Kind {
		case KBlk:
			for _, k := range n.Kids {
				walk(k)
			}
		case KPara:
			n.FirstUnit = u
			u += n.N
		case KMono:
			n.FirstUnit = u
			u++
		}
	}
	for _, n := range d.Flow {
		walk(n)
	}
	d.NUnits = u
	// structural trigger: a bottom margin enclosed by the bottom padding / border of an ancestor
	// that ends with it
	var lastChainHasMb func(n *Node) bool
	lastChainHasMb = func(n *Node) bool {
		if n.Kind != KBlk || len(n.Kids) == 0 {
			return false
		}
		l := n.Kids[len(n.Kids)-1]
		return (l.Kind == KBlk && l.Mb > 0) || lastChainHasMb(l)
	}
	var scan func(n *Node)
	scan = func(n *Node) {
		if n.Kind == KBlk {
			if n.Pb+n.Bbw > 0 && lastChainHasMb(n) {
				if d.Tags == nil {
					d.Tags = map[string]bool{}
				}
				d.Tags["mb-inside-pb"] = true
			}
			for _, k := range n.Kids {
				scan(k)
			}
		}
	}
	for _, n := range d.Flow {
		scan(n)
	}
	// structural triggers of the known deviations (recomputed from the document, never read
	// from a corpus file)
	set := func(k string, v bool) {
		if d.Tags == nil {
			d.Tags = map[string]bool{}
		}
		delete(d.Tags, k)
		if v {
			d.Tags[k] = true
		}
	}
	// the used page name goes from a named page back to the unnamed one between two
	// consecutive content units
	var names []int
	var pn func(n *Node, inh int)
	pn = func(n *Node, inh int) {
		switch n.Kind {
		case KBlk:
			if n.Page != 0 {
				inh = n.Page
			}
			for _, k := range n.Kids {
				pn(k, inh)
			}
		case KPara:
			for i := 0; i < n.N; i++ {
				names = append(names, inh)
			}
		case KMono:
			names = append(names, inh)
		}
	}
	for _, n := range d.Flow {
		pn(n, 0)
	}
	back := false
	for i := 1; i < len(names); i++ {
		if names[i-1] != 0 && names[i] == 0 {
			back = true
		}
	}
	set("page-name-back-to-unnamed", back)
	nthZero := false
	for _, r := range d.Rules {
		for _, s := range r.Sels {
			if s.Nth && s.A == 0 && s.B == 0 {
				nthZero = true
			}
		}
	}
	set("nth-zero-selector", nthZero)
	// some block has bottom padding / border (the second layout of inFlowLayout can only be
	// triggered by such a block)
	dec := false
	var hd func(n *Node)
	hd = func(n *Node) {
		if n.Kind == KBlk {
			if n.Pb+n.Bbw > 0 {
				dec = true
			}
			for _, k := range n.Kids {
				hd(k)
			}
		}
	}
	for _, n := range d.Flow {
		hd(n)
	}
	set("bottom-decoration", dec)
	// break-before on the first child / break-after on the last child of a block with
	// several children: the value acts at the boundary of the parent (propagation)
	edge := false
	var ed func(n *Node)
	ed = func(n *Node) {
		if n.Kind != KBlk {
			return
		}
		if len(n.Kids) >= 2 {
			if f := n.Kids[0]; f.Kind == KBlk && f.Bb != 0 {
				edge = true
			}
			if l := n.Kids[len(n.Kids)-1]; l.Kind == KBlk && l.Ba != 0 {
				edge = true
			}
		}
		for _, k := range n.Kids {
			ed(k)
		}
	}
	for _, n := range d.Flow {
		ed(n)
	}
	set("edge-break", edge)
}

// UnitBlocks returns, for every content unit, the chain of blocks that contain it
// (outermost first).
func (d *Doc) UnitBlocks() [][]*Node {
	out := make([][]*Node, d.NUnits)
	var walk func(n *Node, chain []*Node)
	walk = func(n *Node, chain []*Node) {
		switch n.Kind {
		case KBlk:
			c := append(append([]*Node{}, chain...), n)
			for _, k := range n.Kids {
				walk(k, c)
			}
		case KPara:
			for i := 0; i < n.N; i++ {
				out[n.FirstUnit+i] = chain
			}
		case KMono:
			out[n.FirstUnit] = chain
		}
	}
	for _, n := range d.Flow {
		walk(n, nil)
	}
	return out
}

// PageTopPaddingOverflow: on some page a block with bottom padding / border that contains
// the first unit of the page (it starts or resumes at the top of the page) also ends with the
// last unit of the page: the structural trigger of the known deviation "bottom padding of a
// block at the top of a page is not taken into account" (inFlowLayout canBreak = false).
func (d *Doc) PageTopPaddingOverflow(pages []PageObs) bool {
	ub := d.UnitBlocks()
	last := func(n *Node) int { // last unit of a block
		for n.Kind == KBlk {
			n = n.Kids[len(n.Kids)-1]
		}
		if n.Kind == KPara {
			return n.FirstUnit + n.N - 1
		}
		return n.FirstUnit
	}
	for _, p := range pages {
		if len(p.Units) == 0 {
			continue
		}
		s, e := p.Units[0].ID, p.Units[len(p.Units)-1].ID
		if s < 0 || e < 0 || s >= len(ub) || e >= len(ub) {
			continue
		}
		for _, b := range ub[s] {
			if b.Pb+b.Bbw > 0 && last(b) == e {
				return true
			}
		}
	}
	return false
}

func (d *Doc) TagList() []string {
	var out []string
	for k := range d.Tags {
		out = append(out, k)
	}
	// deterministic order
	for i := range out {
		for j := i + 1; j < len(out); j++ {
			if out[j] < out[i] {
				out[i], out[j] = out[j], out[i]
			}
		}
	}
	return out
}
