// Package cssedge: deterministic boundary inputs for the hand-written scanners
// of /repo/css/parser (shared by the harnesses of C06 and C07).
//
// Two families, both independent of the random seed (they are part of the
// quick tier of both checks):
//
//   - Constructs: well-formed pieces of CSS, at least one per scanner and per
//     look-ahead of the tokenizer / rule / declaration / An+B parsers.  The
//     harnesses run EVERY PREFIX of each (Prefixes): the end of input arrives
//     after every byte of every construct, bare and inside an enclosing
//     block / function / declaration (Wrappers).
//   - Contexts: for each scanner a few heads that put the tokenizer inside it
//     ("u+", "1e", "url(", "'", "\\", "#", ...) followed by ALL strings of
//     bounded length over the handful of symbols that scanner distinguishes
//     (Ctx.Enumerate): exhaustive in the neighbourhood of every look-ahead.
package cssedge

import (
	"strings"
	"unicode/utf8"
)

// Construct is a well-formed piece of CSS text; Class names the entry point
// family it is meant for: "value" (component values), "decls" (declaration
// list), "rules" (rule list / stylesheet), "nth" (An+B).
type Construct struct {
	Text  string
	Class string
}

func cs(class string, texts ...string) []Construct {
	out := make([]Construct, len(texts))
	for i, t := range texts {
		out[i] = Construct{t, class}
	}
	return out
}

// Constructs: every token class of tokenizer.go with each of its optional
// parts present (so that a prefix stops right before / inside each part).
var Constructs = func() []Construct {
	var l []Construct
	// identifiers, functions
	l = append(l, cs("value", "abc", "-abc", "--x", "a-b_c1", "é€", "\\41 b", "a\\,b", "-\\41", "a\\\\", "\\000041x", "\\10ffff z", "-é",
		"f(a)", "f( a , b )", "f(g(a))", "-f(--a)", "\\66(a)")...)
	// url tokens (unquoted, quoted, escapes, bad urls)
	l = append(l, cs("value", "url(a.png)", "url( a )", "url()", "url(\"a\")", "url( 'a' )", "url(a\\)b)", "url(a\\41 )", "URL(a)", "u\\72l(a)",
		"url(a'b)c", "url(a b)c", "url(a\\\nb)c", "url(a(b)c", "url( \"a\" b)", "url(é)")...)
	// numbers, percentages, dimensions
	l = append(l, cs("value", "12", "+12", "-12", "1.5", ".5", "-.5", "+.5", "1e3", "1E+3", "1e-3", "-1.5e+3", "12px", "1.5em", "1e3px", "1e-3e", "50%", "1.5e3%",
		"1e-x", "1.e3", "1-a", "1--", "1\\41 ", "12n-3", "1e+", "0.0.0", "-1e-1e-1")...)
	// strings
	l = append(l, cs("value", "\"a\"", "'a'", "\"a\\\"b\"", "'a\\41 b'", "\"a\\\nb\"", "'\\\\'", "\"é\"", "'a\nb'", "\"\\10ffff\"")...)
	// hash, at-keyword
	l = append(l, cs("value", "#abc", "#-a", "#--", "#\\41 ", "#1a", "#é", "#-\\41", "#-1", "@media", "@-x", "@--x", "@\\41 ", "@é", "@-\\41", "@1")...)
	// unicode ranges (digits / wildcards / explicit end / over-long parts)
	l = append(l, cs("value", "U+26", "u+0-7F", "U+1F600-1F64F", "u+4??", "U+??????", "u+a-f", "U+123456-abcdef", "U+1?", "u+1234567", "U+12345?-1", "u+0-g",
		"U+0025-00FF, u+4-5", "u+1-2-3", "U+ffffff-fffffff", "u+?-1")...)
	// comments, CDO / CDC, match / column tokens, delimiters
	l = append(l, cs("value", "/* a */", "/**/", "/* * / */", "a/**/b", "<!--", "-->", "<!--a-->", "--->", "-->a", "~=", "|=", "^=", "$=", "*=", "||", "a||b", "|||",
		"<!a", "<-", "a.b", "a>b+c~d")...)
	// blocks, unmatched closers, whitespace
	l = append(l, cs("value", "{a:b}", "[a=b]", "(a)", "{[()]}", "a(b[c{d}])", ")", "]", "}", "(]", "a \n\tb", "a\r\nb", "a\fb", " a ")...)
	l = append(l, cs("value", "!important", "! important", "a!important")...)
	// declaration lists
	l = append(l, cs("decls", "a:b", "a:b;c:d", "a : b ! important", "a:b!important;c:d", "a:{}", "@x y;a:b", "a:b;@x{c:d}", "--a: {b}", "a:url(x) 1px 'q'",
		"a:b !important!", "a{b:c}d:e", "a:b!important !important", "a:b ! /**/ important", "a b:c", ";;a:b;;", "unicode-range:U+0025-00FF,u+4-5", "a:1e3;b:#-\\41",
		"a:{} x", "a:! {}", "a:{} !important", "a:!important {}", "a:{b}c;d:e", "a:x{b}c:d", "a:{}{}", "a: /**/{}/**/ ;b:c")...)
	// rule lists / stylesheets
	l = append(l, cs("rules", "a{b:c}", "a,b{c:d;e:f}", "@media x{a{b:c}}", "@import \"x\";", "@import url(x) print;", "<!--a{}-->", "a{b:c}@x;", "a{}b{}",
		"@page :first{margin:1px}", "@font-face{unicode-range:U+0-7F}", "a[b=\"c\"]:not(d)::e{f:g}", "/**/a/**/{/**/b/**/:/**/c/**/}", "a{b{c:d}e:f}")...)
	// An+B
	l = append(l, cs("nth", "2n+1", "-n- 1", "+ n", "odd", "even", "2n - 1", "-2n-3", "n", "+5", "3n", "n+ 2", "-n+3", "2N-1", "+n-1", "n-1")...)
	return l
}()

// Wrappers: texts that open an enclosing construct, so that the end of input
// is also met one recursion level down and inside a declaration / rule.
var Wrappers = []string{"{", "f(", "[", "(", "a:", "a{b:", "@x ", "url(", "'", "a{", "x "}

// Prefixes returns every proper prefix of s followed by s itself.  With
// bytesLevel the cut is made after every byte (possibly inside a UTF-8
// sequence), otherwise after every code point.  The empty prefix is omitted.
func Prefixes(s string, bytesLevel bool) []string {
	var out []string
	for i := 1; i <= len(s); i++ {
		if !bytesLevel && i < len(s) && !utf8.RuneStart(s[i]) {
			continue
		}
		out = append(out, s[:i])
	}
	return out
}

// Ctx is one scanner neighbourhood: every head followed by every string of at
// most MaxLen symbols of Alphabet.
type Ctx struct {
	Name     string
	Heads    []string
	Alphabet []string
	MaxLen   int
}

// Contexts lists the neighbourhoods of the tokenizer's hand scanners; extra is
// added to every MaxLen (0 in the quick tier).
func Contexts(extra int) []Ctx {
	l := []Ctx{
		// consumeUnicodeRange / tryConsumeUnicodeRune: hex digit, non-hex letter, wildcard, range dash
		{"urange", []string{"u+"}, []string{"1", "a", "F", "g", "?", "-", " "}, 3},
		{"urange", []string{"U+", "a u+", "u+12345", "u+1234?", "u+123456-12345", "u+1-", "(u+"}, []string{"1", "f", "g", "?", "-", ")"}, 2},
		// numberRe + unit / percentage look-ahead
		{"number", []string{""}, []string{"1", "e", "E", "+", "-", ".", "%", "a", "\\"}, 3},
		{"number", []string{"1e", "1.", "-.", "1e-", "1e+", "1.5", "(1", "1e1"}, []string{"1", "e", "+", "-", ".", "%", "x", "\\", "\n"}, 2},
		// consumeEscape behind every scanner that accepts an escape
		{"escape", []string{"\\", "a\\", "-\\", "'\\", "url(\\", "url(a\\", "#\\", "@\\", "1\\", "url(a'\\", "(\\", "#-\\", "@-\\"},
			[]string{"4", "1", "g", " ", "\n", "\\", ")", "'"}, 2},
		{"escape", []string{"\\41", "\\00004", "\\000041", "\\10fff", "\\d80", "\\0", "'\\41", "url(\\41"}, []string{"1", "f", "g", " ", "\n", "\t", "'"}, 2},
		// consumeUrl
		{"url", []string{"url(", "url( ", "url(a", "url(a ", "url('", "url( '", "url('a'", "url(a'", "url('a' ", "URL(", "url(a\\", "f(url("},
			[]string{"a", " ", ")", "'", "\"", "\\", "\n", "(", "\x01"}, 2},
		// consumeQuotedString
		{"string", []string{"'"}, []string{"a", "'", "\"", "\\", "\n", "4", " "}, 3},
		{"string", []string{"\"", "('", "a:'"}, []string{"a", "'", "\"", "\\", "\n", ")"}, 2},
		// CDO / CDC / comments / match and column tokens
		{"cdo-cdc", []string{""}, []string{"<", "!", "-", ">", "a"}, 4},
		{"comment", []string{"", "(", "a{"}, []string{"/", "*", "a", " "}, 4},
		{"match", []string{"", "a"}, []string{"|", "=", "~", "^", "$", "*"}, 2},
		// tryConsumeHash, at-keyword
		{"hash-at", []string{"#", "@", "a#", "(@"}, []string{"-", "a", "1", "\\", "\n", "_", "é", " "}, 2},
		// isIdentStart / consumeIdent / function look-ahead
		{"ident", []string{"-", "--", "a", "url", "ur", "-a", "(-"}, []string{"-", "a", "(", "\\", ">", "1", " ", ")"}, 2},
	}
	for i := range l {
		l[i].MaxLen += extra
	}
	return l
}

// Enumerate calls f on head+tail for every head and every tail of length <= MaxLen.
func (c Ctx) Enumerate(f func(string)) {
	var rec func(s string, k int)
	rec = func(s string, k int) {
		f(s)
		if k == 0 {
			return
		}
		for _, a := range c.Alphabet {
			rec(s+a, k-1)
		}
	}
	for _, h := range c.Heads {
		rec(h, c.MaxLen)
	}
}

// Count returns the number of strings Enumerate produces.
func (c Ctx) Count() int {
	n, p := 0, 1
	for k := 0; k <= c.MaxLen; k++ {
		n += p
		p *= len(c.Alphabet)
	}
	return n * len(c.Heads)
}

// ---------------------------------------------------------------- An+B grid

// NthForms: every production of the <an+b> grammar (and the spellings the
// implementation is known to accept), as the list of its tokens.
var NthForms = [][]string{
	{"even"}, {"odd"}, {"EVEN"}, {"Odd"},
	{"n"}, {"-n"}, {"+n"}, {"N"}, {"2n"}, {"-2n"}, {"+2n"}, {"5"}, {"+5"}, {"-5"}, {"0"},
	{"n", "+3"}, {"n", "-3"}, {"n-3"}, {"n-", "3"}, {"n", "+", "3"}, {"n", "-", "3"},
	{"-n", "+3"}, {"-n-3"}, {"-n-", "3"}, {"+n", "+", "3"}, {"+n-3"},
	{"2n", "+1"}, {"2n-1"}, {"2n-", "1"}, {"2n", "+", "1"}, {"2n", "-", "1"}, {"2n", "-1"}, {"-2n-3"},
	{"+", "n"}, {"+", "n", "+", "1"}, {"+", "n-1"}, {"+", "n-", "1"},
}

// NthExtras: one token of every kind the grammar never allows next to an
// <an+b> (identifier, keyword of the grammar itself, number, dimension,
// percentage, delimiters, blocks, function, string, hash, at-keyword) plus a
// comment (which it does allow).
var NthExtras = []string{"x", "n", "even", "of", "1", "+1", "-1", "1.5", "2n", "50%", ";", ",", "+", "-", "*", "!", ":", "()", "[]", "{}", "f()", "'a'", "#a", "@a", "/**/", "\\6e "}

// NthGrid emits, for EVERY form, the form itself and the form with one extra
// token placed at every token boundary (before, between, after), the tokens
// being joined by a space, by nothing, and (trailing position) by a comment.
// With full = false only the leading and trailing positions are produced.
func NthGrid(full bool, emit func(string)) {
	join := func(p []string, sep string) string {
		s := ""
		for i, x := range p {
			if i > 0 {
				s += sep
			}
			s += x
		}
		return s
	}
	for _, f := range NthForms {
		for _, sep := range []string{" ", ""} {
			emit(join(f, sep))
			emit(" " + join(f, sep) + " ")
		}
		for pos := 0; pos <= len(f); pos++ {
			if !full && pos != 0 && pos != len(f) {
				continue
			}
			for _, x := range NthExtras {
				p := append(append(append([]string{}, f[:pos]...), x), f[pos:]...)
				emit(join(p, " "))
				emit(join(p, ""))
				if pos == len(f) {
					emit(join(f, "") + "/**/" + x)
					emit(join(f, " ") + " " + x + " ")
				}
			}
		}
	}
}

// ---------------------------------------------------------------- control characters in selectors

// CtlChars: the characters a hand scanner treats specially or forgets: the
// three CSS newlines (and CR LF), NUL, tab, vertical tab, DEL, other C0 / C1
// controls.
var CtlChars = []string{"\f", "\r", "\n", "\r\n", "\x00", "\t", "\x0b", "\x7f", "\x01", "\x1f", "\u0080", " "}

// SelectorSlots: selector texts with one slot (\x1a) inside every lexical
// context of the selector parser: quoted strings (both quotes, attribute values
// and functional pseudo-class arguments, first / middle / last position, after a
// backslash), unquoted attribute values, identifiers (type, class, id,
// attribute name, pseudo-class name, pseudo-element), An+B, between compounds.
var SelectorSlots = []string{
	"a[title=\"x\x1ay\"]", "a[title='x\x1ay']", "a[title=\"\x1a\"]", "a[title='\x1ay']", "a[title=\"x\x1a\"]", "a[title=\"x\\\x1ay\"]", "a[title='x\\\x1a']",
	"a[title=\"x\x1ay\" i]", "[title~=\"x\x1ay\"]", "[title|='x\x1ay']", "[title^=\"\x1a\"]", "[title$='x\x1a']", "[title*=\"x\x1a\"]",
	":not([title=\"x\x1ay\"])", ":is(a, [t='\x1a'])", "p:has([t=\"x\x1a\"])", ":lang(\"x\x1ay\")", ":contains(\"x\x1ay\")", ":contains('x\x1ay')", ":containsOwn(\"\x1a\")",
	"a[title=\"x\x1a", "a[title='\x1a", "\"x\x1ay\"", "'\x1a'",
	"a[title=x\x1ay]", "a[title=\x1a]", "a[ti\x1atle=x]", "a[title\x1a=x]", "a[title=\x1a'x']", "a[title='x'\x1a]", "a[\x1atitle]",
	"a\x1ab", "x\x1a", "\x1aa", ".c\x1ad", "#i\x1aj", ".\x1a", "#\x1a", "a.\\\x1a", "a\\\x1ab",
	":fi\x1arst-child", ":\x1afirst-child", "::bef\x1aore", ":lang(f\x1ar)", ":lang(\x1a)", ":not(\x1aa)", ":not(a\x1a)", ":is(a\x1a,b)",
	":nth-child(2\x1an+1)", ":nth-child(\x1aodd)", ":nth-child(2n\x1a+1)", ":nth-child(2n+1\x1a)", ":nth-child(2n+\x1a1)", ":nth-child(2n+1 of\x1a.a)",
	"a\x1a>b", "a>\x1ab", "a\x1a,b", "a,\x1ab", "a \x1a b", "a/*\x1a*/b",
}

// SelectorCtl fills the slot of every SelectorSlots entry with every CtlChars entry.
func SelectorCtl() []string {
	var out []string
	for _, t := range SelectorSlots {
		for _, c := range CtlChars {
			s := strings.ReplaceAll(t, "\x1a", c)
			out = append(out, s)
		}
	}
	return out
}
