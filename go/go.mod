module verifharness

go 1.23.0

toolchain go1.23.5

require (
	github.com/benoitkugler/textprocessing v0.0.3
	github.com/benoitkugler/webrender v0.0.0
	github.com/go-text/typesetting v0.2.1
	golang.org/x/net v0.36.0
)

require (
	github.com/benoitkugler/pstokenizer v1.0.1 // indirect
	github.com/benoitkugler/textlayout v0.3.1 // indirect
	golang.org/x/image v0.23.0 // indirect
	golang.org/x/text v0.22.0 // indirect
)

replace github.com/benoitkugler/webrender => /repo
