// Package vlib: shared helpers of the correspondence harnesses.
// - SplitMix64 PRNG: every random choice of a harness derives from one state
//   seeded with VERIF_SEED, so a disagreement replays exactly.
// - printers of Go values as Coq terms (float32/float64 as exact rationals).
// - the JSONL case writer read by /verif/lib/corr.py.
package vlib

import (
	"bufio"
	"encoding/json"
	"fmt"
	"math"
	"math/big"
	"os"
	"strings"
)

// ---------------------------------------------------------------- PRNG

type Rng struct{ s uint64 }

func NewRng(seed uint64) *Rng { return &Rng{s: seed} }

func (r *Rng) U64() uint64 {
	r.s += 0x9e3779b97f4a7c15
	z := r.s
	z = (z ^ (z >> 30)) * 0xbf58476d1ce4e5b9
	z = (z ^ (z >> 27)) * 0x94d049bb133111eb
	return z ^ (z >> 31)
}

// Intn returns a value in [0, n)
func (r *Rng) Intn(n int) int {
	if n <= 0 {
		return 0
	}
	return int(r.U64() % uint64(n))
}

// Range returns a value in [lo, hi]
func (r *Rng) Range(lo, hi int) int { return lo + r.Intn(hi-lo+1) }
func (r *Rng) Bool() bool         { return r.U64()&1 == 1 }
func (r *Rng) Chance(num, den int) bool {
	return r.Intn(den) < num
}
func (r *Rng) Float01() float64 { return float64(r.U64()>>11) / (1 << 53) }

func Pick[T any](r *Rng, l []T) T { return l[r.Intn(len(l))] }

// Fork derives an independent generator (for per-case reproducibility)
func (r *Rng) Fork() *Rng { return NewRng(r.U64()) }

// ---------------------------------------------------------------- Coq terms

// Q prints a finite float64 as an exact Coq rational `(n # d)`.
func Q64(x float64) string {
	if math.IsNaN(x) || math.IsInf(x, 0) {
		panic("vlib.Q64: non finite value")
	}
	if x == 0 {
		return "0"
	}
	var r big.Rat
	r.SetFloat64(x)
	n, d := r.Num(), r.Denom()
	if d.IsInt64() && d.Int64() == 1 {
		if n.Sign() < 0 {
			return "(" + n.String() + ")"
		}
		return n.String()
	}
	return "(" + n.String() + " # " + d.String() + ")"
}

func Q32(x float32) string { return Q64(float64(x)) }

func Finite32(xs ...float32) bool {
	for _, x := range xs {
		if math.IsNaN(float64(x)) || math.IsInf(float64(x), 0) {
			return false
		}
	}
	return true
}

// Z prints an integer as a Coq Z numeral
func Z(i int) string {
	if i < 0 {
		return fmt.Sprintf("(%d)", i)
	}
	return fmt.Sprintf("%d", i)
}

func Bool(b bool) string {
	if b {
		return "true"
	}
	return "false"
}

// Bytes prints a byte string as a Coq `list N` literal
func Bytes(s string) string {
	var sb strings.Builder
	sb.WriteString("[")
	for i := 0; i < len(s); i++ {
		if i > 0 {
			sb.WriteString(";")
		}
		fmt.Fprintf(&sb, "%d", s[i])
	}
	sb.WriteString("]")
	return sb.String()
}

// Runes prints a string as the list of its code points (Coq `list N`)
func Runes(s string) string {
	var sb strings.Builder
	sb.WriteString("[")
	first := true
	for _, r := range s {
		if !first {
			sb.WriteString(";")
		}
		first = false
		fmt.Fprintf(&sb, "%d", r)
	}
	sb.WriteString("]")
	return sb.String()
}

func List(items []string) string { return "[" + strings.Join(items, "; ") + "]" }

func Option(s string, ok bool) string {
	if ok {
		return "(Some " + s + ")"
	}
	return "None"
}

// ---------------------------------------------------------------- case output

// Case is one line of the JSONL file consumed by lib/corr.py.
type Case struct {
	I          int         `json:"i"`
	Kind       string      `json:"kind"`           // generator stream / constructor
	Coq        string      `json:"coq"`            // Coq term of type <Check.Cxx.case>
	Desc       interface{} `json:"desc"`           // human readable input + impl observable (replay)
	Tags       []string    `json:"tags,omitempty"` // used by known-finding matchers
	Nontrivial bool        `json:"nontrivial"`
	Key        string      `json:"key,omitempty"` // identity for distinct counting (default: coq term)
}

type Writer struct {
	f *os.File
	w *bufio.Writer
	n int
}

func NewWriter(path string) *Writer {
	f, err := os.Create(path)
	if err != nil {
		panic(err)
	}
	return &Writer{f: f, w: bufio.NewWriterSize(f, 1<<20)}
}

func (w *Writer) Add(c Case) {
	c.I = w.n
	w.n++
	b, err := json.Marshal(c)
	if err != nil {
		panic(err)
	}
	w.w.Write(b)
	w.w.WriteByte('\n')
}

func (w *Writer) N() int { return w.n }

func (w *Writer) Close() {
	w.w.Flush()
	w.f.Close()
}

// Seed reads VERIF_SEED (default 1)
func Seed() uint64 {
	var s uint64 = 1
	if v := os.Getenv("VERIF_SEED"); v != "" {
		fmt.Sscanf(v, "%d", &s)
	}
	return s
}
