package vlib

// Worker pool for inputs that may kill or hang the process (stack overflow is
// a fatal error in Go, not a recoverable panic).  The harness binary re-executes
// itself with VERIF_WORKER=1; the child calls WorkerMain(handler).  The parent
// feeds one JSON-encoded input per line and waits for one JSON line back under
// a watchdog.  A dead worker => Status "fatal" for that input (stderr tail kept),
// a silent one => "hang" (killed); both are observations, not harness failures.

import (
	"bufio"
	"bytes"
	"encoding/json"
	"os"
	"os/exec"
	"strings"
	"sync"
	"time"
)

type WResult struct {
	Status string // "ok" | "fatal" | "hang"
	Out    string // handler output when ok; stderr tail when fatal
}

func IsWorker() bool { return os.Getenv("VERIF_WORKER") == "1" }

// WorkerMain never returns.
func WorkerMain(handle func(in string) string) {
	rd := bufio.NewReaderSize(os.Stdin, 1<<20)
	wr := bufio.NewWriter(os.Stdout)
	for {
		line, err := rd.ReadString('\n')
		if len(line) > 0 {
			var in string
			if json.Unmarshal([]byte(strings.TrimSpace(line)), &in) == nil {
				out := handle(in)
				b, _ := json.Marshal(out)
				wr.Write(b)
				wr.WriteByte('\n')
				wr.Flush()
			}
		}
		if err != nil {
			os.Exit(0)
		}
	}
}

type worker struct {
	cmd    *exec.Cmd
	in     *bufio.Writer
	out    *bufio.Reader
	stderr *tailBuf
}

type tailBuf struct {
	mu   sync.Mutex
	head []byte // first 2 KB
	b    []byte // last 6 KB
}

func (t *tailBuf) Write(p []byte) (int, error) {
	t.mu.Lock()
	if len(t.head) < 2048 {
		k := 2048 - len(t.head)
		if k > len(p) {
			k = len(p)
		}
		t.head = append(t.head, p[:k]...)
	}
	t.b = append(t.b, p...)
	if len(t.b) > 6144 {
		t.b = t.b[len(t.b)-6144:]
	}
	t.mu.Unlock()
	return len(p), nil
}
func (t *tailBuf) String() string {
	t.mu.Lock()
	defer t.mu.Unlock()
	return string(t.head) + "\n...\n" + string(t.b)
}

func startWorker(memLimitKB int) *worker {
	exe, _ := os.Executable()
	var cmd *exec.Cmd
	if memLimitKB > 0 {
		cmd = exec.Command("/bin/sh", "-c", "ulimit -v "+itoa(memLimitKB)+"; exec \"$0\" \"$@\"", exe)
	} else {
		cmd = exec.Command(exe)
	}
	cmd.Args = append(cmd.Args, os.Args[1:]...)
	cmd.Env = append(os.Environ(), "VERIF_WORKER=1")
	stdin, _ := cmd.StdinPipe()
	stdout, _ := cmd.StdoutPipe()
	tb := &tailBuf{}
	cmd.Stderr = tb
	if err := cmd.Start(); err != nil {
		panic(err)
	}
	return &worker{cmd: cmd, in: bufio.NewWriter(stdin), out: bufio.NewReaderSize(stdout, 1<<20), stderr: tb}
}

func itoa(i int) string {
	var b bytes.Buffer
	b.WriteString(strings.TrimSpace(strings.Replace(jsonInt(i), "\n", "", -1)))
	return b.String()
}
func jsonInt(i int) string { b, _ := json.Marshal(i); return string(b) }

func (w *worker) kill() {
	if w.cmd.Process != nil {
		w.cmd.Process.Kill()
	}
	w.cmd.Wait()
}

func (w *worker) call(input string, timeout time.Duration) WResult {
	b, _ := json.Marshal(input)
	w.in.Write(b)
	w.in.WriteByte('\n')
	if err := w.in.Flush(); err != nil {
		return WResult{Status: "fatal", Out: w.stderr.String()}
	}
	type rd struct {
		line string
		err  error
	}
	ch := make(chan rd, 1)
	go func() {
		l, err := w.out.ReadString('\n')
		ch <- rd{l, err}
	}()
	select {
	case r := <-ch:
		if r.err != nil {
			w.cmd.Wait()
			return WResult{Status: "fatal", Out: w.stderr.String()}
		}
		var out string
		json.Unmarshal([]byte(strings.TrimSpace(r.line)), &out)
		return WResult{Status: "ok", Out: out}
	case <-time.After(timeout):
		return WResult{Status: "hang"}
	}
}

// RunPool runs every input through a pool of `par` worker processes.
func RunPool(inputs []string, par int, timeout time.Duration, memLimitKB int) []WResult {
	res := make([]WResult, len(inputs))
	var next int
	var mu sync.Mutex
	var wg sync.WaitGroup
	for p := 0; p < par; p++ {
		wg.Add(1)
		go func() {
			defer wg.Done()
			var w *worker
			for {
				mu.Lock()
				i := next
				next++
				mu.Unlock()
				if i >= len(inputs) {
					break
				}
				if w == nil {
					w = startWorker(memLimitKB)
				}
				r := w.call(inputs[i], timeout)
				res[i] = r
				if r.Status != "ok" {
					w.kill()
					w = nil
				}
			}
			if w != nil {
				w.in.Flush()
				w.kill()
			}
		}()
	}
	wg.Wait()
	return res
}

// FatalKind extracts a short classification of a dead worker's stderr
func FatalKind(stderr string) string {
	switch {
	case strings.Contains(stderr, "stack overflow"):
		return "stack-overflow"
	case strings.Contains(stderr, "out of memory") || strings.Contains(stderr, "cannot allocate"):
		return "out-of-memory"
	case strings.Contains(stderr, "fatal error"):
		return "fatal-error"
	case strings.Contains(stderr, "panic:"):
		return "unrecovered-panic"
	default:
		return "died"
	}
}
