// Package render: run /repo's pipeline (tree.NewHTML -> layout.Layout /
// document.Render -> Write) fully offline on a recording backend.
// Fonts are scanned from /repo/resources_test (Ahem, weasyprint.otf).
package render

import (
	"fmt"
	"io"
	"os"
	"path/filepath"
	"runtime/debug"
	"strings"
	"sync"
	"time"

	fc "github.com/benoitkugler/textprocessing/fontconfig"
	"github.com/benoitkugler/textprocessing/pango/fcfonts"
	"github.com/benoitkugler/webrender/backend"
	"github.com/benoitkugler/webrender/css/parser"
	bo "github.com/benoitkugler/webrender/html/boxes"
	"github.com/benoitkugler/webrender/html/document"
	"github.com/benoitkugler/webrender/html/layout"
	"github.com/benoitkugler/webrender/html/tree"
	"github.com/benoitkugler/webrender/logger"
	"github.com/benoitkugler/webrender/matrix"
	"github.com/benoitkugler/webrender/text"
	"github.com/benoitkugler/webrender/utils"
	"github.com/go-text/typesetting/fontscan"
)

type Fl = utils.Fl

var FontDir = "/repo/resources_test"

func init() {
	logger.ProgressLogger.SetOutput(io.Discard)
	logger.WarningLogger.SetOutput(io.Discard)
}

var (
	fsOnce sync.Once
	fsSet  fc.Fontset
)

func fontset() fc.Fontset {
	fsOnce.Do(func() {
		var err error
		fsSet, err = fc.Standard.ScanFontDirectories(FontDir)
		if err != nil {
			panic(err)
		}
	})
	return fsSet
}

// NewPango returns a fresh pango-port font configuration
func NewPango() text.FontConfiguration {
	return text.NewFontConfigurationPango(fcfonts.NewFontMap(fc.Standard.Copy(), fontset()))
}

type nolog struct{}

func (nolog) Printf(format string, args ...interface{}) {}

// NewGotext returns a fresh go-text font configuration
func NewGotext() text.FontConfiguration {
	fm := fontscan.NewFontMap(nolog{})
	files, _ := filepath.Glob(filepath.Join(FontDir, "*.[tTo][tT][fF]"))
	for _, f := range files {
		fd, err := os.Open(f)
		if err != nil {
			continue
		}
		_ = fm.AddFont(fd, f, "")
		fd.Close()
	}
	return text.NewFontConfigurationGotext(fm)
}

func NewFonts(engine string) text.FontConfiguration {
	if engine == "gotext" {
		return NewGotext()
	}
	return NewPango()
}

// Outcome of a guarded run
type Outcome struct {
	Status string // "ok" | "panic" | "hang"
	Site   string // first frame inside /repo for a panic
	Msg    string
}

// Guard runs f, turning a panic into an Outcome (a fatal error such as a stack
// overflow still kills the process: callers that feed hostile input run in a
// worker subprocess).
func Guard(f func()) (out Outcome) {
	defer func() {
		if r := recover(); r != nil {
			out.Status = "panic"
			out.Msg = fmt.Sprint(r)
			out.Site = panicSite(string(debug.Stack()))
		}
	}()
	f()
	return Outcome{Status: "ok"}
}

// GuardTimeout is Guard with a wall clock limit; on timeout the goroutine is
// abandoned (Status "hang").
func GuardTimeout(d time.Duration, f func()) Outcome {
	ch := make(chan Outcome, 1)
	go func() { ch <- Guard(f) }()
	select {
	case o := <-ch:
		return o
	case <-time.After(d):
		return Outcome{Status: "hang"}
	}
}

func panicSite(stack string) string {
	lines := strings.Split(stack, "\n")
	seenPanic := false
	for _, l := range lines {
		l = strings.TrimSpace(l)
		if strings.HasPrefix(l, "panic(") {
			seenPanic = true
			continue
		}
		if !seenPanic {
			continue
		}
		if strings.HasPrefix(l, "/repo/") {
			if i := strings.Index(l, " "); i > 0 {
				l = l[:i]
			}
			return strings.TrimPrefix(l, "/repo/")
		}
	}
	return "?"
}

// ParseHTML builds the tree.HTML of a document given as a string, with the
// small test UA stylesheet (test=true) or the full HTML5 one.
func ParseHTML(html string, testUA bool, fetcher utils.UrlFetcher) (*tree.HTML, error) {
	doc, err := tree.NewHTML(utils.InputString(html), "http://verif.test/", fetcher, "")
	if err != nil {
		return nil, err
	}
	if testUA {
		doc.UAStyleSheet = tree.TestUAStylesheet
	}
	return doc, nil
}

func ParseCSS(css string) (tree.CSS, error) {
	return tree.NewCSSDefault(utils.InputString(css))
}

// Layout lays a document out and returns its pages.
func Layout(html string, userCSS []string, hints bool, testUA bool, fonts text.FontConfiguration) ([]*bo.PageBox, error) {
	doc, err := ParseHTML(html, testUA, nil)
	if err != nil {
		return nil, err
	}
	var sheets []tree.CSS
	for _, s := range userCSS {
		c, err := ParseCSS(s)
		if err != nil {
			return nil, err
		}
		sheets = append(sheets, c)
	}
	return layout.Layout(doc, sheets, hints, fonts), nil
}

// Render = document.Render
func Render(html string, userCSS []string, hints bool, testUA bool, fonts text.FontConfiguration) (*document.Document, error) {
	doc, err := ParseHTML(html, testUA, nil)
	if err != nil {
		return nil, err
	}
	var sheets []tree.CSS
	for _, s := range userCSS {
		c, err := ParseCSS(s)
		if err != nil {
			return nil, err
		}
		sheets = append(sheets, c)
	}
	d := document.Render(doc, sheets, hints, fonts)
	return &d, nil
}

// Walk visits a box tree in document order (pre-order).
func Walk(b bo.Box, f func(b bo.Box, depth int)) { walk(b, 0, f) }

func walk(b bo.Box, d int, f func(bo.Box, int)) {
	f(b, d)
	for _, c := range b.Box().Children {
		walk(c, d+1, f)
	}
}

// ------------------------------------------------------------------ recording backend

type Event struct {
	Op    string
	Args  []Fl
	S     string
	Depth int // OnNewStack nesting
	Page  int
}

func (e Event) String() string {
	return fmt.Sprintf("%d:%s%s %v %q", e.Page, strings.Repeat(">", e.Depth), e.Op, e.Args, e.S)
}

type Recorder struct {
	Events    []Event
	Pages     int
	Anchors   [][]backend.Anchor
	Bookmarks []backend.BookmarkNode
	Meta      map[string]string
	Attach    []backend.Attachment
	nextID    int
}

func NewRecorder() *Recorder { return &Recorder{Meta: map[string]string{}} }

func (r *Recorder) add(page, depth int, op string, s string, args ...Fl) {
	r.Events = append(r.Events, Event{Op: op, Args: args, S: s, Depth: depth, Page: page})
}

func (r *Recorder) AddPage(left, top, right, bottom Fl) backend.Page {
	p := &RecPage{canvas: canvas{rec: r, page: r.Pages, id: r.newID()}}
	r.add(r.Pages, 0, "AddPage", "", left, top, right, bottom)
	r.Pages++
	return p
}
func (r *Recorder) newID() int                              { r.nextID++; return r.nextID }
func (r *Recorder) CreateAnchors(anchors [][]backend.Anchor) { r.Anchors = anchors; r.add(-1, 0, "CreateAnchors", "") }
func (r *Recorder) SetAttachments(as []backend.Attachment)   { r.Attach = as }
func (r *Recorder) EmbedFile(fileID string, a backend.Attachment) {
	r.add(-1, 0, "EmbedFile", fileID)
}
func (r *Recorder) SetTitle(s string)               { r.Meta["title"] = s }
func (r *Recorder) SetDescription(s string)         { r.Meta["description"] = s }
func (r *Recorder) SetCreator(s string)             { r.Meta["creator"] = s }
func (r *Recorder) SetAuthors(s []string)           { r.Meta["authors"] = strings.Join(s, "\x1f") }
func (r *Recorder) SetKeywords(s []string)          { r.Meta["keywords"] = strings.Join(s, "\x1f") }
func (r *Recorder) SetProducer(s string)            { r.Meta["producer"] = s }
func (r *Recorder) SetDateCreation(d time.Time)     { r.Meta["created"] = d.UTC().Format(time.RFC3339) }
func (r *Recorder) SetDateModification(d time.Time) { r.Meta["modified"] = d.UTC().Format(time.RFC3339) }
func (r *Recorder) SetBookmarks(root []backend.BookmarkNode) {
	r.Bookmarks = root
	r.add(-1, 0, "SetBookmarks", "")
}

type canvas struct {
	rec   *Recorder
	page  int
	id    int
	depth int
	bbox  [4]Fl
	mat   matrix.Transform
	isSet bool
}

type RecPage struct{ canvas }

func (p *RecPage) AddInternalLink(xMin, yMin, xMax, yMax Fl, anchorName string) {
	p.rec.add(p.page, p.depth, "AddInternalLink", anchorName, xMin, yMin, xMax, yMax)
}
func (p *RecPage) AddExternalLink(xMin, yMin, xMax, yMax Fl, url string) {
	p.rec.add(p.page, p.depth, "AddExternalLink", url, xMin, yMin, xMax, yMax)
}
func (p *RecPage) AddFileAnnotation(xMin, yMin, xMax, yMax Fl, fileID string) {
	p.rec.add(p.page, p.depth, "AddFileAnnotation", fileID, xMin, yMin, xMax, yMax)
}
func (p *RecPage) SetMediaBox(l, t, r, b Fl) { p.rec.add(p.page, p.depth, "SetMediaBox", "", l, t, r, b) }
func (p *RecPage) SetTrimBox(l, t, r, b Fl)  { p.rec.add(p.page, p.depth, "SetTrimBox", "", l, t, r, b) }
func (p *RecPage) SetBleedBox(l, t, r, b Fl) { p.rec.add(p.page, p.depth, "SetBleedBox", "", l, t, r, b) }

func (c *canvas) ev(op, s string, args ...Fl) { c.rec.add(c.page, c.depth, fmt.Sprintf("%s", op), s, args...) }
func (c *canvas) cid() string                 { return fmt.Sprintf("c%d", c.id) }

func (c *canvas) GetBoundingBox() (l, t, r, b Fl) { return c.bbox[0], c.bbox[1], c.bbox[2], c.bbox[3] }
func (c *canvas) SetBoundingBox(l, t, r, b Fl) {
	c.bbox = [4]Fl{l, t, r, b}
	c.ev("SetBoundingBox", c.cid(), l, t, r, b)
}
func (c *canvas) OnNewStack(f func()) {
	c.ev("Push", c.cid())
	c.depth++
	saved := c.mat
	savedSet := c.isSet
	f()
	c.mat, c.isSet = saved, savedSet
	c.depth--
	c.ev("Pop", c.cid())
}
func (c *canvas) State() backend.GraphicState { return (*gstate)(c) }
func (c *canvas) NewGroup(x, y, width, height Fl) backend.Canvas {
	g := &canvas{rec: c.rec, page: c.page, id: c.rec.newID(), depth: c.depth}
	c.ev("NewGroup", g.cid(), x, y, width, height)
	return g
}
func (c *canvas) DrawWithOpacity(opacity Fl, group backend.Canvas) {
	c.ev("DrawWithOpacity", group.(*canvas).cid(), opacity)
}
func (c *canvas) Paint(op backend.PaintOp)        { c.ev("Paint", op.String(), Fl(op)) }
func (c *canvas) Rectangle(x, y, w, h Fl)         { c.ev("Rectangle", "", x, y, w, h) }
func (c *canvas) MoveTo(x, y Fl)                  { c.ev("MoveTo", "", x, y) }
func (c *canvas) LineTo(x, y Fl)                  { c.ev("LineTo", "", x, y) }
func (c *canvas) CubicTo(x1, y1, x2, y2, x3, y3 Fl) { c.ev("CubicTo", "", x1, y1, x2, y2, x3, y3) }
func (c *canvas) ClosePath()                      { c.ev("ClosePath", "") }
func (c *canvas) AddFont(font backend.Font, content []byte) *backend.FontChars {
	c.ev("AddFont", font.Origin().File)
	return &backend.FontChars{Cmap: map[backend.GID][]rune{}, Extents: map[backend.GID]backend.GlyphExtents{}}
}
func (c *canvas) DrawText(texts []backend.TextDrawing) {
	for _, t := range texts {
		c.ev("DrawText", string(t.Text), t.X, t.Y, t.FontSize, t.ScaleX, t.Angle)
	}
}
func (c *canvas) DrawRasterImage(image backend.RasterImage, width, height Fl) {
	c.ev("DrawRasterImage", image.MimeType, width, height)
}
func (c *canvas) DrawGradient(gradient backend.GradientLayout, width, height Fl) {
	args := []Fl{width, height, gradient.ScaleY}
	args = append(args, gradient.Coords[:]...)
	args = append(args, gradient.Positions...)
	c.ev("DrawGradient", gradient.Kind, args...)
}

type gstate canvas

func (g *gstate) c() *canvas { return (*canvas)(g) }
func (g *gstate) SetAlphaMask(mask backend.Canvas) {
	g.c().ev("SetAlphaMask", mask.(*canvas).cid())
}
func (g *gstate) Clip(evenOdd bool) {
	s := "nonzero"
	if evenOdd {
		s = "evenodd"
	}
	g.c().ev("Clip", s)
}
func (g *gstate) SetAlpha(alpha Fl, stroke bool) { g.c().ev("SetAlpha", fmt.Sprint(stroke), alpha) }
func (g *gstate) SetColorRgba(color parser.RGBA, stroke bool) {
	g.c().ev("SetColorRgba", fmt.Sprint(stroke), color.R, color.G, color.B, color.A)
}
func (g *gstate) SetColorPattern(pattern backend.Canvas, contentWidth, contentHeight Fl, mat matrix.Transform, stroke bool) {
	g.c().ev("SetColorPattern", pattern.(*canvas).cid(), contentWidth, contentHeight, mat.A, mat.B, mat.C, mat.D, mat.E, mat.F)
}
func (g *gstate) SetBlendingMode(mode string) { g.c().ev("SetBlendingMode", mode) }
func (g *gstate) SetLineWidth(width Fl)        { g.c().ev("SetLineWidth", "", width) }
func (g *gstate) SetDash(dashes []Fl, offset Fl) {
	g.c().ev("SetDash", "", append([]Fl{offset}, dashes...)...)
}
func (g *gstate) SetStrokeOptions(o backend.StrokeOptions) {
	g.c().ev("SetStrokeOptions", o.LineCap.String()+"/"+o.LineJoin.String(), o.MiterLimit)
}
func (g *gstate) GetTransform() matrix.Transform {
	if !g.isSet {
		return matrix.Identity()
	}
	return g.mat
}
func (g *gstate) Transform(mt matrix.Transform) {
	if !g.isSet {
		g.mat = matrix.Identity()
		g.isSet = true
	}
	g.mat.RightMultBy(mt)
	g.c().ev("Transform", "", mt.A, mt.B, mt.C, mt.D, mt.E, mt.F)
}
func (g *gstate) SetTextPaint(op backend.PaintOp) { g.c().ev("SetTextPaint", op.String()) }

// Draw writes a rendered document on a fresh recorder.
func Draw(d *document.Document, zoom Fl) *Recorder {
	rec := NewRecorder()
	d.Write(rec, zoom, nil)
	return rec
}
