// globalwrites: syntactic inventory of writes to package-level variables of
// /repo outside init() (property C15: "global tables are initialised once in
// init() and only read afterwards").
//
// Standard library only (go/parser, go/ast, go/token).  For every non-test
// .go file of the module it lists every package-level `var` and, outside
// `func init()`:
//
//	assign   g = .., g.f = .., g[i] = .., *g = .., g op= ..  (LHS rooted at g)
//	incdec   g++, g.f--
//	range    for g = range ..
//	builtin  append(g, ..) / delete(g, ..) / clear(g) / copy(g, ..)   (first argument rooted at g)
//	addr     &g, &g.f, &g[i]        (a pointer into the variable escapes)
//	call     g.M(..), g.f.M(..)     unless the static type of g is a type of
//	         this module declared in the var declaration and M has a value
//	         receiver there (pointer receivers, unknown and external types are
//	         listed: the callee may mutate)
//
// Function literals in var initialisers are analysed (they may run later).
// The analysis is syntactic: identifiers are resolved with go/parser's scope
// resolution (shadowing by locals is respected); aliasing (a global map/slice/
// pointer passed to or returned from a function and mutated there) is NOT seen.
//
// Output: Coq file (-coq) with the variables, the write sites and the reviewed
// allow-list (-allow), and a JSON report (-json) with the sites that no
// allow-list line covers.
package main

import (
	"encoding/json"
	"flag"
	"fmt"
	"go/ast"
	"go/parser"
	"go/token"
	"os"
	"path/filepath"
	"sort"
	"strings"
)

const modulePath = "github.com/benoitkugler/webrender"

type pkgInfo struct {
	dir      string // relative to the repo root ("" = root)
	name     string
	files    map[string]*ast.File // relative file name -> AST
	vars     map[string]*ast.ValueSpec
	varType  map[string]typeRef         // syntactic type of the variable when known
	ptrMeth  map[string]map[string]bool // type -> methods with pointer receiver
	valMeth  map[string]map[string]bool // type -> methods with value receiver
	topLevel map[*ast.ValueSpec]bool    // package-level var specs
	funcs    map[string]bool            // package-level functions (so that g.f() on a package is not confused)
	funcRes  map[string]ast.Expr        // package-level function -> type expression of its first result
	funcFile map[string]*ast.File       // ... and the file declaring it (to resolve its imports)
}

type typeRef struct {
	pkg  string // dir of the module package, "?" = external/unknown
	name string
}

type Write struct {
	File   string `json:"file"`
	Line   int    `json:"line"`
	Var    string `json:"var"`    // <pkg dir>.<name>
	Kind   string `json:"kind"`   // assign incdec range builtin addr call
	Detail string `json:"detail"` // operator / builtin / method name
	Func   string `json:"func"`   // enclosing function
}

// StackLit is a construction site of a tree.ResumeStack value
type StackLit struct {
	File string `json:"file"`
	Line int    `json:"line"`
	Keys int    `json:"keys"` // number of entries of the literal; -1 = make()/conversion (size unknown)
}

// TAllow is a reviewed line `tbaa <type> <op|*> <func|prefix*>`: writes through a
// reference into objects of that type by that function only ever hit objects
// the function (or its caller, per the justification) created for this render
type TAllow struct {
	Type, Op, Func, Why string
	Prefix              bool
	used                int
}

func (a *TAllow) matches(w TWrite) bool {
	if a.Type != w.Type || !(a.Op == "*" || a.Op == w.Op) {
		return false
	}
	if a.Prefix {
		return strings.HasPrefix(w.Func, a.Func)
	}
	return a.Func == w.Func
}

// MAllow is a reviewed line `maprange <func> <map type> <shape>`: the body of
// that range-over-map does not let the iteration order reach the output
type MAllow struct {
	Func, Type, Shape, Why string
	used                   int
}

func (a *MAllow) matches(r MapRange) bool {
	return a.Func == r.Func && a.Type == r.Type && a.Shape == r.Shape
}

type Allow struct {
	Var, Kind, Detail, Why string
	// optional condition `needs=<var>:<kind>:<detail>`: the line only covers a
	// site when the same function also contains such a site (e.g. the mutex
	// Lock that justifies a store)
	NeedVar, NeedKind, NeedDetail string
	used                          int
}

func main() {
	repo := flag.String("repo", "/repo", "module root")
	coq := flag.String("coq", "", "Coq output file")
	allowF := flag.String("allow", "", "allow-list file")
	jsonF := flag.String("json", "", "JSON report")
	gomod := flag.String("gomod", "/verif/go", "directory of the harness module (its go.mod replaces the module by -repo); used for `go list -export`")
	dump := flag.String("dump", "", "write the full typed inventory (escapes, alias writes, type-based writes) as JSON to this file")
	flag.Parse()

	pkgs := map[string]*pkgInfo{}
	fset := token.NewFileSet()
	err := filepath.Walk(*repo, func(path string, info os.FileInfo, err error) error {
		if err != nil {
			return err
		}
		if info.IsDir() {
			n := info.Name()
			if path != *repo && (strings.HasPrefix(n, ".") || n == "testdata" || n == "vendor") {
				return filepath.SkipDir
			}
			return nil
		}
		if !strings.HasSuffix(path, ".go") || strings.HasSuffix(path, "_test.go") {
			return nil
		}
		rel, _ := filepath.Rel(*repo, path)
		f, err := parser.ParseFile(fset, path, nil, parser.ParseComments)
		if err != nil {
			return fmt.Errorf("parse %s: %v", rel, err)
		}
		if ignored(f) {
			return nil
		}
		dir := filepath.Dir(rel)
		if dir == "." {
			dir = ""
		}
		key := dir + "#" + f.Name.Name
		p := pkgs[key]
		if p == nil {
			p = &pkgInfo{dir: dir, name: f.Name.Name, files: map[string]*ast.File{}, vars: map[string]*ast.ValueSpec{},
				varType: map[string]typeRef{}, ptrMeth: map[string]map[string]bool{}, valMeth: map[string]map[string]bool{},
				topLevel: map[*ast.ValueSpec]bool{}, funcs: map[string]bool{}, funcRes: map[string]ast.Expr{}, funcFile: map[string]*ast.File{}}
			pkgs[key] = p
		}
		p.files[rel] = f
		return nil
	})
	if err != nil {
		fmt.Fprintln(os.Stderr, err)
		os.Exit(2)
	}

	// dir -> package (non-main, non _test package of that directory) for imports
	byDir := map[string]*pkgInfo{}
	for _, p := range pkgs {
		if o := byDir[p.dir]; o == nil || len(p.files) > len(o.files) {
			byDir[p.dir] = p
		}
	}

	// pass 0: result types of package-level functions (for `var x = f(...)`)
	for _, p := range pkgs {
		for _, f := range p.files {
			for _, d := range f.Decls {
				if fd, ok := d.(*ast.FuncDecl); ok && fd.Recv == nil && fd.Type.Results != nil && len(fd.Type.Results.List) > 0 {
					p.funcRes[fd.Name.Name] = fd.Type.Results.List[0].Type
					p.funcFile[fd.Name.Name] = f
				}
			}
		}
	}

	// pass 1: declarations
	for _, p := range pkgs {
		for _, f := range p.files {
			imports := importMap(f, byDir)
			for _, d := range f.Decls {
				switch d := d.(type) {
				case *ast.GenDecl:
					if d.Tok != token.VAR {
						continue
					}
					for _, s := range d.Specs {
						vs := s.(*ast.ValueSpec)
						p.topLevel[vs] = true
						for i, n := range vs.Names {
							if n.Name == "_" {
								continue
							}
							p.vars[n.Name] = vs
							var e ast.Expr
							if vs.Type != nil {
								p.varType[n.Name] = typeOf(vs.Type, p, imports)
							} else if len(vs.Values) == len(vs.Names) {
								e = vs.Values[i]
								p.varType[n.Name] = typeOfValue(e, p, imports, byDir)
							} else {
								p.varType[n.Name] = typeRef{"?", ""}
							}
						}
					}
				case *ast.FuncDecl:
					if d.Recv == nil {
						p.funcs[d.Name.Name] = true
						continue
					}
					if len(d.Recv.List) != 1 {
						continue
					}
					t := d.Recv.List[0].Type
					ptr := false
					if st, ok := t.(*ast.StarExpr); ok {
						ptr = true
						t = st.X
					}
					if ix, ok := t.(*ast.IndexExpr); ok { // generic receiver
						t = ix.X
					}
					id, ok := t.(*ast.Ident)
					if !ok {
						continue
					}
					m := p.valMeth
					if ptr {
						m = p.ptrMeth
					}
					if m[id.Name] == nil {
						m[id.Name] = map[string]bool{}
					}
					m[id.Name][d.Name.Name] = true
				}
			}
		}
	}

	// pass 2: write sites
	var writes []Write
	var stacks []StackLit
	var globals []string
	for _, p := range pkgs {
		for n := range p.vars {
			globals = append(globals, qual(p, n))
		}
		for rel, f := range p.files {
			a := &analysis{fset: fset, p: p, file: rel, f: f, imports: importMap(f, byDir), byDir: byDir}
			a.run()
			writes = append(writes, a.out...)
			stacks = append(stacks, a.stacks...)
		}
	}
	sort.Strings(globals)
	sort.Slice(writes, func(i, j int) bool {
		a, b := writes[i], writes[j]
		if a.File != b.File {
			return a.File < b.File
		}
		if a.Line != b.Line {
			return a.Line < b.Line
		}
		if a.Var != b.Var {
			return a.Var < b.Var
		}
		if a.Kind != b.Kind {
			return a.Kind < b.Kind
		}
		return a.Detail < b.Detail
	})
	// dedupe identical entries (same line, same var/kind/detail)
	var w2 []Write
	for i, w := range writes {
		if i > 0 && w == writes[i-1] {
			continue
		}
		w2 = append(w2, w)
	}
	writes = w2

	sort.Slice(stacks, func(i, j int) bool {
		if stacks[i].File != stacks[j].File {
			return stacks[i].File < stacks[j].File
		}
		if stacks[i].Line != stacks[j].Line {
			return stacks[i].Line < stacks[j].Line
		}
		return stacks[i].Keys > stacks[j].Keys
	})
	var multi []StackLit
	for _, st := range stacks {
		if st.Keys > 1 || st.Keys < 0 {
			multi = append(multi, st)
		}
	}

	tres, terr := runTyped(*repo, *gomod)
	if terr != nil {
		fmt.Fprintln(os.Stderr, "typed analysis:", terr)
		os.Exit(2)
	}
	if *dump != "" {
		b, _ := json.MarshalIndent(tres, "", " ")
		os.WriteFile(*dump, b, 0o644)
	}
	allows, tallows, mallows := readAllow(*allowF)
	writes = append(writes, tres.AliasWrites...)
	var escapes []Write
	for _, e := range tres.Escapes {
		d := e.Detail
		if d == "" {
			d = "-"
		}
		escapes = append(escapes, Write{File: e.File, Line: e.Line, Var: e.Var, Kind: "escape-" + e.Kind, Detail: d, Func: e.Func})
	}
	var badEsc []Write
	for _, w := range escapes {
		ok := false
		for i := range allows {
			if allows[i].matches(w) && allows[i].needsOK(w, escapes) {
				allows[i].used++
				ok = true
			}
		}
		if !ok {
			badEsc = append(badEsc, w)
		}
	}
	var badM []MapRange
	for _, r := range tres.MapRanges {
		ok := false
		for i := range mallows {
			if mallows[i].matches(r) {
				mallows[i].used++
				ok = true
			}
		}
		if !ok {
			badM = append(badM, r)
		}
	}
	var badT []TWrite
	for _, w := range tres.TWrites {
		ok := false
		for i := range tallows {
			if tallows[i].matches(w) {
				tallows[i].used++
				ok = true
			}
		}
		if !ok {
			badT = append(badT, w)
		}
	}
	var bad []Write
	for _, w := range writes {
		ok := false
		for i := range allows {
			if allows[i].matches(w) && allows[i].needsOK(w, writes) {
				allows[i].used++
				ok = true
			}
		}
		if !ok {
			bad = append(bad, w)
		}
	}
	var unused []string
	for _, a := range allows {
		if a.used == 0 {
			unused = append(unused, a.Var+" "+a.Kind+" "+a.Detail)
		}
	}

	for _, a := range tallows {
		if a.used == 0 {
			unused = append(unused, "tbaa "+a.Type+" "+a.Op+" "+a.Func)
		}
	}
	for _, a := range mallows {
		if a.used == 0 {
			unused = append(unused, "maprange "+a.Func+" "+a.Type+" "+a.Shape)
		}
	}
	escVars := map[string]bool{}
	for _, e := range escapes {
		escVars[e.Var] = true
	}
	if *coq != "" {
		writeCoq(*coq, globals, writes, allows, stacks, escapes, tres, tallows, mallows)
	}
	rep := map[string]interface{}{"globals": len(globals), "writes": len(writes), "allow_lines": len(allows) + len(tallows) + len(mallows),
		"map_ranges": len(tres.MapRanges), "map_ranges_not_allowed": badM,
		"not_allowed": bad, "unused_allow_lines": unused,
		"ref_globals": len(tres.RefGlobals), "escaping_globals": len(escVars), "escape_sites": len(escapes), "escapes_not_allowed": badEsc,
		"alias_writes": len(tres.AliasWrites), "tbaa_writes": len(tres.TWrites), "tbaa_not_allowed": badT, "type_errors": tres.Errors, "resume_stack_constructions": len(stacks), "resume_stack_not_single_key": multi}
	b, _ := json.MarshalIndent(rep, "", " ")
	if *jsonF != "" {
		os.WriteFile(*jsonF, append(b, '\n'), 0o644)
	} else {
		fmt.Println(string(b))
	}
}

func ignored(f *ast.File) bool {
	for _, cg := range f.Comments {
		if cg.Pos() > f.Package {
			break
		}
		for _, c := range cg.List {
			t := strings.TrimSpace(c.Text)
			if strings.HasPrefix(t, "//go:build") && strings.Contains(t, "ignore") {
				return true
			}
		}
	}
	return false
}

func qual(p *pkgInfo, name string) string {
	d := p.dir
	if d == "" {
		d = "."
	}
	if p.name == "main" || strings.HasSuffix(p.name, "_test") {
		d += "(" + p.name + ")"
	}
	return d + "." + name
}

// local import name -> module package
func importMap(f *ast.File, byDir map[string]*pkgInfo) map[string]*pkgInfo {
	out := map[string]*pkgInfo{}
	for _, im := range f.Imports {
		path := strings.Trim(im.Path.Value, "\"`")
		if path != modulePath && !strings.HasPrefix(path, modulePath+"/") {
			continue
		}
		dir := strings.TrimPrefix(strings.TrimPrefix(path, modulePath), "/")
		p := byDir[dir]
		if p == nil {
			continue
		}
		name := p.name
		if im.Name != nil {
			name = im.Name.Name
		}
		if name == "_" || name == "." {
			continue
		}
		out[name] = p
	}
	return out
}

func typeOf(t ast.Expr, p *pkgInfo, imports map[string]*pkgInfo) typeRef {
	switch t := t.(type) {
	case *ast.Ident:
		return typeRef{p.dir, t.Name}
	case *ast.StarExpr:
		return typeOf(t.X, p, imports)
	case *ast.ParenExpr:
		return typeOf(t.X, p, imports)
	case *ast.IndexExpr:
		return typeOf(t.X, p, imports)
	case *ast.SelectorExpr:
		if id, ok := t.X.(*ast.Ident); ok {
			if q := imports[id.Name]; q != nil {
				return typeRef{q.dir, t.Sel.Name}
			}
		}
	}
	return typeRef{"?", ""}
}

func typeOfValue(e ast.Expr, p *pkgInfo, imports map[string]*pkgInfo, byDir map[string]*pkgInfo) typeRef {
	switch e := e.(type) {
	case *ast.CompositeLit:
		if e.Type != nil {
			return typeOf(e.Type, p, imports)
		}
	case *ast.UnaryExpr:
		if e.Op == token.AND {
			return typeOfValue(e.X, p, imports, byDir)
		}
	case *ast.CallExpr:
		// conversion T(x) or make(T) / new(T)
		if id, ok := e.Fun.(*ast.Ident); ok && (id.Name == "make" || id.Name == "new") && len(e.Args) > 0 {
			return typeOf(e.Args[0], p, imports)
		}
		// f(...) / pkg.f(...) with f a function of the module: its declared first result
		var fp *pkgInfo
		var fname string
		switch fn := e.Fun.(type) {
		case *ast.Ident:
			fp, fname = p, fn.Name
		case *ast.SelectorExpr:
			if id, ok := fn.X.(*ast.Ident); ok {
				fp, fname = imports[id.Name], fn.Sel.Name
			}
		}
		if fp != nil {
			if rt, ok := fp.funcRes[fname]; ok {
				return typeOf(rt, fp, importMap(fp.funcFile[fname], byDir))
			}
		}
	}
	return typeRef{"?", ""}
}

// ------------------------------------------------------------------ analysis

type analysis struct {
	fset    *token.FileSet
	p       *pkgInfo
	file    string
	f       *ast.File
	imports map[string]*pkgInfo
	byDir   map[string]*pkgInfo
	out     []Write
	stacks  []StackLit
	fn      string
}

// global returns the qualified name of the package-level variable an
// identifier / selector denotes, or "".
func (a *analysis) globalIdent(id *ast.Ident) (string, *pkgInfo, string) {
	if id.Name == "_" {
		return "", nil, ""
	}
	if id.Obj != nil {
		// resolved inside this file: package-level iff its declaration is a top-level var spec
		if vs, ok := id.Obj.Decl.(*ast.ValueSpec); ok && id.Obj.Kind == ast.Var && a.p.topLevel[vs] {
			return qual(a.p, id.Name), a.p, id.Name
		}
		return "", nil, ""
	}
	// unresolved in the file: declared in another file of the package?
	if _, ok := a.p.vars[id.Name]; ok {
		return qual(a.p, id.Name), a.p, id.Name
	}
	return "", nil, ""
}

// root strips selectors / indexes / derefs / slices and returns the variable
// at the base of an addressable expression; path = true when something was stripped
func (a *analysis) root(e ast.Expr) (q string, p *pkgInfo, name string, direct bool) {
	direct = true
	for {
		switch x := e.(type) {
		case *ast.ParenExpr:
			e = x.X
		case *ast.StarExpr:
			e, direct = x.X, false
		case *ast.IndexExpr:
			e, direct = x.X, false
		case *ast.SliceExpr:
			e, direct = x.X, false
		case *ast.TypeAssertExpr:
			e, direct = x.X, false
		case *ast.SelectorExpr:
			// pkg.Var ?
			if id, ok := x.X.(*ast.Ident); ok && id.Obj == nil {
				if ip := a.imports[id.Name]; ip != nil {
					if _, isVar := ip.vars[x.Sel.Name]; isVar {
						return qual(ip, x.Sel.Name), ip, x.Sel.Name, direct
					}
					return "", nil, "", false
				}
			}
			e, direct = x.X, false
		case *ast.Ident:
			q, p, name = a.globalIdent(x)
			return q, p, name, direct
		default:
			return "", nil, "", false
		}
	}
}

func (a *analysis) add(pos token.Pos, v, kind, detail string) {
	a.out = append(a.out, Write{File: a.file, Line: a.fset.Position(pos).Line, Var: v, Kind: kind, Detail: detail, Func: a.fn})
}

// isResumeStackType: `ResumeStack` inside html/tree, `<import of html/tree>.ResumeStack` elsewhere
func (a *analysis) isResumeStackType(t ast.Expr) bool {
	switch t := t.(type) {
	case *ast.Ident:
		return t.Name == "ResumeStack" && a.p.dir == "html/tree"
	case *ast.SelectorExpr:
		if id, ok := t.X.(*ast.Ident); ok && t.Sel.Name == "ResumeStack" {
			if ip := a.imports[id.Name]; ip != nil && ip.dir == "html/tree" {
				return true
			}
		}
	}
	return false
}

func (a *analysis) stackLit(cl *ast.CompositeLit) {
	a.stacks = append(a.stacks, StackLit{File: a.file, Line: a.fset.Position(cl.Pos()).Line, Keys: len(cl.Elts)})
	for _, e := range cl.Elts {
		if kv, ok := e.(*ast.KeyValueExpr); ok {
			if inner, ok := kv.Value.(*ast.CompositeLit); ok && inner.Type == nil {
				a.stackLit(inner) // elided type: a nested ResumeStack
			}
		}
	}
}

func (a *analysis) collectStacks() {
	ast.Inspect(a.f, func(n ast.Node) bool {
		switch x := n.(type) {
		case *ast.CompositeLit:
			if x.Type != nil && a.isResumeStackType(x.Type) {
				a.stackLit(x)
			}
		case *ast.CallExpr:
			if id, ok := x.Fun.(*ast.Ident); ok && id.Name == "make" && len(x.Args) > 0 && a.isResumeStackType(x.Args[0]) {
				a.stacks = append(a.stacks, StackLit{File: a.file, Line: a.fset.Position(x.Pos()).Line, Keys: -1})
			} else if a.isResumeStackType(x.Fun) { // conversion T(x)
				a.stacks = append(a.stacks, StackLit{File: a.file, Line: a.fset.Position(x.Pos()).Line, Keys: -1})
			}
		}
		return true
	})
}

func (a *analysis) run() {
	a.collectStacks()
	for _, d := range a.f.Decls {
		switch d := d.(type) {
		case *ast.FuncDecl:
			if d.Body == nil {
				continue
			}
			if d.Recv == nil && d.Name.Name == "init" {
				continue // initialisation: writes are the point
			}
			a.fn = d.Name.Name
			if d.Recv != nil && len(d.Recv.List) == 1 {
				a.fn = recvName(d.Recv.List[0].Type) + "." + d.Name.Name
			}
			a.walk(d.Body)
		case *ast.GenDecl:
			if d.Tok != token.VAR {
				continue
			}
			// function literals inside initialisers may run after init
			for _, s := range d.Specs {
				vs := s.(*ast.ValueSpec)
				for _, v := range vs.Values {
					ast.Inspect(v, func(n ast.Node) bool {
						if fl, ok := n.(*ast.FuncLit); ok {
							a.fn = "func literal in initialiser of " + vs.Names[0].Name
							a.walk(fl.Body)
							return false
						}
						return true
					})
				}
			}
		}
	}
}

func recvName(t ast.Expr) string {
	switch t := t.(type) {
	case *ast.StarExpr:
		return "(*" + recvName(t.X) + ")"
	case *ast.Ident:
		return t.Name
	case *ast.IndexExpr:
		return recvName(t.X)
	}
	return "?"
}

func (a *analysis) walk(body ast.Node) {
	ast.Inspect(body, func(n ast.Node) bool {
		switch s := n.(type) {
		case *ast.AssignStmt:
			if s.Tok == token.DEFINE {
				return true // := never (re)assigns a package-level variable
			}
			for _, l := range s.Lhs {
				if q, _, _, _ := a.root(l); q != "" {
					a.add(l.Pos(), q, "assign", s.Tok.String())
				}
			}
		case *ast.IncDecStmt:
			if q, _, _, _ := a.root(s.X); q != "" {
				a.add(s.Pos(), q, "incdec", s.Tok.String())
			}
		case *ast.RangeStmt:
			if s.Tok == token.ASSIGN {
				for _, l := range []ast.Expr{s.Key, s.Value} {
					if l == nil {
						continue
					}
					if q, _, _, _ := a.root(l); q != "" {
						a.add(l.Pos(), q, "range", "=")
					}
				}
			}
		case *ast.UnaryExpr:
			if s.Op == token.AND {
				if _, isLit := s.X.(*ast.CompositeLit); !isLit {
					if q, _, _, _ := a.root(s.X); q != "" {
						a.add(s.Pos(), q, "addr", "&")
					}
				}
			}
		case *ast.CallExpr:
			a.call(s)
		}
		return true
	})
}

func (a *analysis) call(c *ast.CallExpr) {
	switch f := c.Fun.(type) {
	case *ast.Ident:
		if f.Obj == nil && (f.Name == "append" || f.Name == "delete" || f.Name == "clear" || f.Name == "copy") && len(c.Args) > 0 {
			if _, shadow := a.p.funcs[f.Name]; shadow {
				return
			}
			if q, _, _, _ := a.root(c.Args[0]); q != "" {
				a.add(c.Pos(), q, "builtin", f.Name)
			}
		}
	case *ast.SelectorExpr:
		// pkg.Func(...) is not a method call
		if id, ok := f.X.(*ast.Ident); ok && id.Obj == nil {
			if ip := a.imports[id.Name]; ip != nil {
				if _, isVar := ip.vars[f.Sel.Name]; !isVar {
					return
				}
				// calling a package-level func-typed variable: a read
				return
			}
		}
		q, p, name, direct := a.root(f.X)
		if q == "" {
			return
		}
		m := f.Sel.Name
		if direct {
			t := p.varType[name]
			if t.pkg != "?" {
				if tp := a.byDir[t.pkg]; tp != nil {
					if tp.valMeth[t.name][m] && !tp.ptrMeth[t.name][m] {
						return // value receiver on a known module type: cannot mutate the variable itself
					}
					if tp.ptrMeth[t.name][m] {
						a.add(c.Pos(), q, "call", m)
						return
					}
					// a func-typed field / embedded method: fall through (listed)
				}
			}
		}
		a.add(c.Pos(), q, "call", m)
	}
}

// ------------------------------------------------------------------ allow list

func readAllow(path string) ([]Allow, []TAllow, []MAllow) {
	var out []Allow
	var tout []TAllow
	var mout []MAllow
	if path == "" {
		return out, tout, mout
	}
	b, err := os.ReadFile(path)
	if err != nil {
		fmt.Fprintln(os.Stderr, "allow list:", err)
		os.Exit(2)
	}
	for ln, line := range strings.Split(string(b), "\n") {
		why := ""
		if i := strings.Index(line, "#"); i >= 0 {
			why = strings.TrimSpace(line[i+1:])
			line = line[:i]
		}
		fs := strings.Fields(line)
		if len(fs) == 0 {
			continue
		}
		if fs[0] == "tbaa" {
			if len(fs) != 4 || why == "" {
				fmt.Fprintf(os.Stderr, "allow list line %d: want `tbaa <type> <op|*> <func|prefix*>  # justification`\n", ln+1)
				os.Exit(2)
			}
			ta := TAllow{Type: fs[1], Op: fs[2], Func: fs[3], Why: why}
			if strings.HasSuffix(ta.Func, "*") {
				ta.Prefix, ta.Func = true, strings.TrimSuffix(ta.Func, "*")
			}
			tout = append(tout, ta)
			continue
		}
		if fs[0] == "maprange" {
			if len(fs) != 4 || why == "" {
				fmt.Fprintf(os.Stderr, "allow list line %d: want `maprange <func> <map type> <shape>  # justification`\n", ln+1)
				os.Exit(2)
			}
			mout = append(mout, MAllow{Func: fs[1], Type: fs[2], Shape: fs[3], Why: why})
			continue
		}
		a := Allow{Why: why}
		if len(fs) == 4 && strings.HasPrefix(fs[3], "needs=") {
			nd := strings.Split(strings.TrimPrefix(fs[3], "needs="), ":")
			if len(nd) != 3 {
				fmt.Fprintf(os.Stderr, "allow list line %d: needs=<var>:<kind>:<detail>\n", ln+1)
				os.Exit(2)
			}
			a.NeedVar, a.NeedKind, a.NeedDetail = nd[0], nd[1], nd[2]
			fs = fs[:3]
		}
		if len(fs) != 3 || why == "" {
			fmt.Fprintf(os.Stderr, "allow list line %d: want `<var> <kind> <detail|*> [needs=<var>:<kind>:<detail>]  # justification`\n", ln+1)
			os.Exit(2)
		}
		a.Var, a.Kind, a.Detail = fs[0], fs[1], fs[2]
		out = append(out, a)
	}
	return out, tout, mout
}

func (a *Allow) matches(w Write) bool {
	return a.Var == w.Var && a.Kind == w.Kind && (a.Detail == "*" || a.Detail == w.Detail)
}

func (a *Allow) needsOK(w Write, all []Write) bool {
	if a.NeedVar == "" {
		return true
	}
	for _, o := range all {
		if o.File == w.File && o.Func == w.Func && o.Var == a.NeedVar && o.Kind == a.NeedKind && o.Detail == a.NeedDetail {
			return true
		}
	}
	return false
}

// ------------------------------------------------------------------ Coq

func coqStr(s string) string { return "\"" + strings.ReplaceAll(s, "\"", "\"\"") + "\"" }

func writeCoq(path string, globals []string, writes []Write, allows []Allow, stacks []StackLit, escapes []Write, tres *typedResult, tallows []TAllow, mallows []MAllow) {
	var sb strings.Builder
	sb.WriteString("(* GENERATED by /verif/tools/globalwrites from /repo's working tree -- do not edit.\n")
	sb.WriteString("   Package-level variables of the module (non-test files), every syntactic write site on them\n")
	sb.WriteString("   outside init(), and the reviewed allow-list (tools/globalwrites/allow.txt). *)\n")
	sb.WriteString("From Verif Require Import Draw.Determinism.\nFrom Coq Require Import List String NArith.\nImport ListNotations.\nOpen Scope string_scope.\nOpen Scope N_scope.\n\n")
	sb.WriteString("Definition globals : list string := [\n")
	for i, g := range globals {
		if i > 0 {
			sb.WriteString(";\n")
		}
		sb.WriteString("  " + coqStr(g))
	}
	sb.WriteString("\n].\n\nDefinition writes : list gwrite := [\n")
	for i, w := range writes {
		if i > 0 {
			sb.WriteString(";\n")
		}
		fmt.Fprintf(&sb, "  GW %s %d %s %s %s %s", coqStr(w.File), w.Line, coqStr(w.Var), coqStr(w.Kind), coqStr(w.Detail), coqStr(w.Func))
	}
	sb.WriteString("\n].\n\nDefinition allowed : list gallow := [\n")
	for i, a := range allows {
		if i > 0 {
			sb.WriteString(";\n")
		}
		fmt.Fprintf(&sb, "  GA %s %s %s %s %s %s", coqStr(a.Var), coqStr(a.Kind), coqStr(a.Detail), coqStr(a.NeedVar), coqStr(a.NeedKind), coqStr(a.NeedDetail))
	}
	sb.WriteString("\n].\n\n(* every construction of a tree.ResumeStack in the module: composite literals with their number\n   of entries (nested elided-type literals included); make()/conversions would appear with SKUnknown *)\n")
	sb.WriteString("Definition resume_stack_sites : list stack_site := [\n")
	for i, st := range stacks {
		if i > 0 {
			sb.WriteString(";\n")
		}
		if st.Keys < 0 {
			fmt.Fprintf(&sb, "  SS %s %d SKUnknown", coqStr(st.File), st.Line)
		} else {
			fmt.Fprintf(&sb, "  SS %s %d (SKeys %d)", coqStr(st.File), st.Line, st.Keys)
		}
	}
	sb.WriteString("\n].\n\n(* typed inventory (go/types): package-level variables of reference-carrying type *)\nDefinition ref_globals : list string := [\n")
	for i, g := range tres.RefGlobals {
		if i > 0 {
			sb.WriteString(";\n")
		}
		sb.WriteString("  " + coqStr(g))
	}
	sb.WriteString("\n].\n\n(* sites outside init() where reference-carrying data of a package-level variable leaves the\n   pure-read position (kind escape-local/field/global/elem/arg/return/lit/send/range/recv) *)\nDefinition escapes : list gwrite := [\n")
	for i, w := range escapes {
		if i > 0 {
			sb.WriteString(";\n")
		}
		fmt.Fprintf(&sb, "  GW %s %d %s %s %s %s", coqStr(w.File), w.Line, coqStr(w.Var), coqStr(w.Kind), coqStr(w.Detail), coqStr(w.Func))
	}
	sb.WriteString("\n].\n\n(* writes through a reference into an object whose static type is reachable from the type of a\n   package-level variable (type-based over-approximation of aliasing), provably fresh objects excluded *)\nDefinition twrites : list twrite := [\n")
	for i, w := range tres.TWrites {
		if i > 0 {
			sb.WriteString(";\n")
		}
		fmt.Fprintf(&sb, "  TW %s %d %s %s %s %s", coqStr(w.File), w.Line, coqStr(w.Type), coqStr(w.Op), coqStr(w.Func), coqStr(w.Via))
	}
	sb.WriteString("\n].\n\nDefinition tallowed : list tallow := [\n")
	for i, a := range tallows {
		if i > 0 {
			sb.WriteString(";\n")
		}
		pf := "false"
		if a.Prefix {
			pf = "true"
		}
		fmt.Fprintf(&sb, "  TA %s %s %s %s", coqStr(a.Type), coqStr(a.Op), coqStr(a.Func), pf)
	}
	sb.WriteString("\n].\n\n(* every range over a Go map outside init() *)\nDefinition map_ranges : list mrange := [\n")
	for i, r := range tres.MapRanges {
		if i > 0 {
			sb.WriteString(";\n")
		}
		fmt.Fprintf(&sb, "  MR %s %d %s %s %s", coqStr(r.File), r.Line, coqStr(r.Func), coqStr(r.Type), coqStr(r.Shape))
	}
	sb.WriteString("\n].\n\nDefinition mallowed : list mallow := [\n")
	for i, a := range mallows {
		if i > 0 {
			sb.WriteString(";\n")
		}
		fmt.Fprintf(&sb, "  MA %s %s %s", coqStr(a.Func), coqStr(a.Type), coqStr(a.Shape))
	}
	sb.WriteString("\n].\n")
	old, _ := os.ReadFile(path)
	if string(old) != sb.String() {
		os.MkdirAll(filepath.Dir(path), 0o755)
		if err := os.WriteFile(path, []byte(sb.String()), 0o644); err != nil {
			fmt.Fprintln(os.Stderr, err)
			os.Exit(2)
		}
	}
}
