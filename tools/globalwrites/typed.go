package main

// Typed part of the inventory (go/types; standard library only).
//
// The module's packages are type-checked from source (file lists, build tags
// and the export data of every non-module dependency come from one
// `go list -deps -export -json` run inside the harness module /verif/go, whose
// go.mod replaces the module by /repo: /repo's own go.mod is never touched).
//
// Three inventories, all outside init():
//
//  escape   a value of reference-carrying type (pointer, map, slice, chan, func,
//           interface, or a struct/array containing one) read from a
//           package-level variable leaves the pure-read position: it is stored
//           in a local / field / element, passed to a call, returned, put in a
//           composite literal, sent, ranged over with a reference-carrying
//           element variable, or is the receiver of a method call.  Whoever
//           holds it can write INTO the global's data.
//  alias-*  a write (assign / incdec / delete / clear / copy / append) whose
//           target is reached THROUGH a reference from a local variable that
//           was loaded (transitively, same function, flow-insensitively) from
//           a package-level variable:  x := g.Ptr; x.Field op= ..  /  *p = ..
//  tbaa     type-based over-approximation for what the two above cannot
//           follow (heap paths across calls): every write through a reference
//           (p.f = .., s[i] = .., m[k] = .., *p = .., delete, clear, copy)
//           into an object whose static type is reachable from the type of
//           some package-level variable -- unless the written object is
//           provably fresh (rooted at a local that is only ever bound to
//           composite literals / make / new / &T{} in that function).

import (
	"bytes"
	"encoding/json"
	"fmt"
	"go/ast"
	"go/importer"
	"go/parser"
	"go/token"
	"go/types"
	"io"
	"os"
	"os/exec"
	"path/filepath"
	"sort"
	"strings"
)

type listPkg struct {
	ImportPath string
	Dir        string
	GoFiles    []string
	CgoFiles   []string
	Export     string
	Standard   bool
	ImportMap  map[string]string
	Error      *struct{ Err string }
	DepsErrors []*struct{ Err string }
}

type tpkg struct {
	lp    *listPkg
	rel   string // dir relative to the module root
	files []*ast.File
	names []string // relative file names, parallel to files
	pkg   *types.Package
	info  *types.Info
	errs  []string
}

// Escape is one site where reference-carrying data of a global leaves the pure-read position
type Escape struct {
	File   string `json:"file"`
	Line   int    `json:"line"`
	Var    string `json:"var"`
	Kind   string `json:"kind"`   // local field global elem arg return lit send range recv closure other
	Detail string `json:"detail"` // callee / method / field name when there is one
	Func   string `json:"func"`
	Type   string `json:"type"` // static type of the escaping value
}

// TWrite is a write through a reference into an object of a type reachable from a global
type TWrite struct {
	File string `json:"file"`
	Line int    `json:"line"`
	Type string `json:"type"` // type of the written object (struct for a field store, map/slice for an element store, pointee for *p = ..)
	Op   string `json:"op"`   // field:<name> elem deref delete clear copy
	Func string `json:"func"`
	Via  string `json:"via"` // one global variable from whose type the written type is reachable
}

// MapRange is a `for .. range m` over a Go map (iteration order is random)
type MapRange struct {
	File  string `json:"file"`
	Line  int    `json:"line"`
	Func  string `json:"func"`
	Type  string `json:"type"`  // static type of the map
	Shape string `json:"shape"` // what the body does that can expose the order: exit (return/break/goto inside), append, call, write, pure-keyed
}

type typedResult struct {
	MapRanges   []MapRange
	Escapes     []Escape
	AliasWrites []Write
	TWrites     []TWrite
	RefGlobals  []string // package-level vars of reference-carrying type
	Errors      []string // type errors inside the module (the tree does not compile)
}

type loader struct {
	fset    *token.FileSet
	repo    string
	list    map[string]*listPkg
	mod     map[string]*tpkg // import path -> checked module package
	order   []*tpkg
	gc      types.Importer
	curMap  map[string]string
	errsOut []string
}

func (l *loader) Import(path string) (*types.Package, error) {
	if path == "unsafe" {
		return types.Unsafe, nil
	}
	if m, ok := l.curMap[path]; ok {
		path = m
	}
	if p, ok := l.mod[path]; ok {
		return p.pkg, nil
	}
	return l.gc.Import(path)
}

// runTyped loads and analyses the module.  gomodDir = directory of the harness
// module (its go.mod replaces modulePath by repo).
func runTyped(repo, gomodDir string) (*typedResult, error) {
	cmd := exec.Command("go", "list", "-e", "-tags", "verif", "-deps", "-export", "-json=ImportPath,Dir,GoFiles,CgoFiles,Export,Standard,ImportMap,Error,DepsErrors", modulePath+"/...")
	cmd.Dir = gomodDir
	cmd.Env = append(os.Environ(), "GOFLAGS=-mod=mod", "GOPROXY=off", "GOSUMDB=off", "GOTOOLCHAIN=local")
	var stderr bytes.Buffer
	cmd.Stderr = &stderr
	out, err := cmd.Output()
	if err != nil && len(out) == 0 {
		return nil, fmt.Errorf("go list: %v\n%s", err, stderr.String())
	}
	l := &loader{fset: token.NewFileSet(), repo: repo, list: map[string]*listPkg{}, mod: map[string]*tpkg{}}
	dec := json.NewDecoder(bytes.NewReader(out))
	var seq []*listPkg
	for {
		var p listPkg
		if err := dec.Decode(&p); err == io.EOF {
			break
		} else if err != nil {
			return nil, fmt.Errorf("go list output: %v", err)
		}
		pp := p
		l.list[p.ImportPath] = &pp
		seq = append(seq, &pp)
	}
	l.gc = importer.ForCompiler(l.fset, "gc", func(path string) (io.ReadCloser, error) {
		p := l.list[path]
		if p == nil || p.Export == "" {
			return nil, fmt.Errorf("no export data for %s", path)
		}
		return os.Open(p.Export)
	})
	res := &typedResult{}
	for _, lp := range seq { // go list -deps: dependencies first
		if lp.ImportPath != modulePath && !strings.HasPrefix(lp.ImportPath, modulePath+"/") {
			continue
		}
		rel, _ := filepath.Rel(repo, lp.Dir)
		if rel == "." {
			rel = ""
		}
		tp := &tpkg{lp: lp, rel: rel}
		for _, f := range lp.GoFiles {
			af, err := parser.ParseFile(l.fset, filepath.Join(lp.Dir, f), nil, parser.SkipObjectResolution)
			if err != nil {
				return nil, fmt.Errorf("parse %s: %v", filepath.Join(rel, f), err)
			}
			tp.files = append(tp.files, af)
			tp.names = append(tp.names, filepath.Join(rel, f))
		}
		if len(tp.files) == 0 {
			continue
		}
		tp.info = &types.Info{Types: map[ast.Expr]types.TypeAndValue{}, Defs: map[*ast.Ident]types.Object{}, Uses: map[*ast.Ident]types.Object{},
			Selections: map[*ast.SelectorExpr]*types.Selection{}, Implicits: map[ast.Node]types.Object{}}
		l.curMap = lp.ImportMap
		conf := types.Config{Importer: l, Error: func(e error) { tp.errs = append(tp.errs, e.Error()) }, FakeImportC: true}
		tp.pkg, _ = conf.Check(lp.ImportPath, l.fset, tp.files, tp.info)
		l.mod[lp.ImportPath] = tp
		l.order = append(l.order, tp)
		for i, e := range tp.errs {
			if i < 3 {
				res.Errors = append(res.Errors, strings.TrimPrefix(e, repo+"/"))
			}
		}
	}
	if len(l.order) == 0 {
		return nil, fmt.Errorf("go list returned no package of %s\n%s", modulePath, stderr.String())
	}
	t := &typed{l: l, res: res, refMemo: map[types.Type]int{}, globals: map[*types.Var]string{}}
	t.run()
	return res, nil
}

// ------------------------------------------------------------------ analysis

type typed struct {
	l       *loader
	res     *typedResult
	refMemo map[types.Type]int // 1 = in progress, 2 = false, 3 = true
	globals map[*types.Var]string
	reach   map[string]string // type key -> a global it is reachable from
	named   []*types.Named    // every named non-interface type of the module
}

func (t *typed) qual(p *tpkg, name string) string {
	d := p.rel
	if d == "" {
		d = "."
	}
	if p.pkg.Name() == "main" {
		d += "(main)"
	}
	return d + "." + name
}

// refCarrying: can a holder of a value of this type write into memory shared with the original?
func (t *typed) refCarrying(ty types.Type) bool {
	if ty == nil {
		return false
	}
	switch t.refMemo[ty] {
	case 1, 2:
		return false
	case 3:
		return true
	}
	t.refMemo[ty] = 1
	r := false
	switch u := ty.Underlying().(type) {
	case *types.Basic:
		r = u.Kind() == types.UnsafePointer
	case *types.Pointer, *types.Map, *types.Slice, *types.Chan, *types.Interface:
		r = true
	case *types.Signature:
		r = false // a func value gives no write access to the table that held it (state captured by closures: stated blind spot)
	case *types.Struct:
		for i := 0; i < u.NumFields(); i++ {
			if t.refCarrying(u.Field(i).Type()) {
				r = true
				break
			}
		}
	case *types.Array:
		r = t.refCarrying(u.Elem())
	case *types.Tuple:
		for i := 0; i < u.Len(); i++ {
			if t.refCarrying(u.At(i).Type()) {
				r = true
			}
		}
	default:
		r = true // type parameters, invalid types: unknown
	}
	if r {
		t.refMemo[ty] = 3
	} else {
		t.refMemo[ty] = 2
	}
	return r
}

func (t *typed) typeKey(ty types.Type) string {
	return strings.ReplaceAll(types.TypeString(ty, func(p *types.Package) string {
		if p == nil {
			return ""
		}
		return strings.TrimPrefix(strings.TrimPrefix(p.Path(), modulePath), "/")
	}), " ", "")
}

func (t *typed) run() {
	// package-level variables
	for _, p := range t.l.order {
		sc := p.pkg.Scope()
		for _, n := range sc.Names() {
			switch o := sc.Lookup(n).(type) {
			case *types.Var:
				t.globals[o] = t.qual(p, n)
			case *types.TypeName:
				if nt, ok := o.Type().(*types.Named); ok && nt.TypeParams().Len() == 0 {
					if _, isIface := nt.Underlying().(*types.Interface); !isIface {
						t.named = append(t.named, nt)
					}
				}
			}
		}
	}
	for v, q := range t.globals {
		if t.refCarrying(v.Type()) {
			t.res.RefGlobals = append(t.res.RefGlobals, q)
		}
	}
	sort.Strings(t.res.RefGlobals)
	t.computeReach()

	for _, p := range t.l.order {
		for i, f := range p.files {
			fa := &fileAn{t: t, p: p, file: p.names[i]}
			for _, d := range f.Decls {
				switch d := d.(type) {
				case *ast.FuncDecl:
					if d.Body == nil || (d.Recv == nil && d.Name.Name == "init") {
						continue
					}
					fa.fn = d.Name.Name
					if d.Recv != nil && len(d.Recv.List) == 1 {
						fa.fn = recvName(d.Recv.List[0].Type) + "." + d.Name.Name
					}
					fa.function(d.Body)
				case *ast.GenDecl:
					if d.Tok != token.VAR {
						continue
					}
					for _, s := range d.Specs {
						vs := s.(*ast.ValueSpec)
						for _, v := range vs.Values {
							ast.Inspect(v, func(n ast.Node) bool {
								if fl, ok := n.(*ast.FuncLit); ok {
									fa.fn = "func literal in initialiser of " + vs.Names[0].Name
									fa.function(fl.Body)
									return false
								}
								return true
							})
						}
					}
				}
			}
		}
	}
	sort.Slice(t.res.MapRanges, func(i, j int) bool {
		a, b := t.res.MapRanges[i], t.res.MapRanges[j]
		return fmt.Sprint(a.File, "\x00", 1000000+a.Line) < fmt.Sprint(b.File, "\x00", 1000000+b.Line)
	})
	sort.Slice(t.res.Escapes, func(i, j int) bool {
		a, b := t.res.Escapes[i], t.res.Escapes[j]
		return fmt.Sprint(a.File, "\x00", 1000000+a.Line, a.Var, a.Kind, a.Detail) < fmt.Sprint(b.File, "\x00", 1000000+b.Line, b.Var, b.Kind, b.Detail)
	})
	sort.Slice(t.res.TWrites, func(i, j int) bool {
		a, b := t.res.TWrites[i], t.res.TWrites[j]
		return fmt.Sprint(a.File, "\x00", 1000000+a.Line, a.Type, a.Op) < fmt.Sprint(b.File, "\x00", 1000000+b.Line, b.Type, b.Op)
	})
	dedupE := t.res.Escapes[:0]
	for i, e := range t.res.Escapes {
		if i == 0 || e != t.res.Escapes[i-1] {
			dedupE = append(dedupE, e)
		}
	}
	t.res.Escapes = dedupE
	dedupT := t.res.TWrites[:0]
	for i, e := range t.res.TWrites {
		if i == 0 || e != t.res.TWrites[i-1] {
			dedupT = append(dedupT, e)
		}
	}
	t.res.TWrites = dedupT
}

// computeReach: types of objects reachable from the package-level variables
// (fields, elements, pointees; through a module interface: every named module
// type, or pointer to it, that implements it).  Key = typeKey of the OBJECT
// type (pointers stripped).
func (t *typed) computeReach() {
	t.reach = map[string]string{}
	var visit func(ty types.Type, via string)
	visit = func(ty types.Type, via string) {
		if ty == nil {
			return
		}
		if p, ok := ty.(*types.Pointer); ok {
			visit(p.Elem(), via)
			return
		}
		k := t.typeKey(ty)
		if _, seen := t.reach[k]; seen {
			return
		}
		t.reach[k] = via
		switch u := ty.Underlying().(type) {
		case *types.Pointer:
			visit(u.Elem(), via)
		case *types.Map:
			visit(u.Key(), via)
			visit(u.Elem(), via)
		case *types.Slice:
			visit(u.Elem(), via)
		case *types.Array:
			visit(u.Elem(), via)
		case *types.Chan:
			visit(u.Elem(), via)
		case *types.Struct:
			for i := 0; i < u.NumFields(); i++ {
				visit(u.Field(i).Type(), via)
			}
		case *types.Interface:
			if u.NumMethods() == 0 {
				return // interface{} / any: dynamic type unknown (stated blind spot)
			}
			for _, nt := range t.named {
				if types.Implements(nt, u) {
					visit(nt, via)
				} else if types.Implements(types.NewPointer(nt), u) {
					visit(nt, via)
				}
			}
		}
	}
	names := make([]string, 0, len(t.globals))
	byName := map[string]*types.Var{}
	for v, q := range t.globals {
		names = append(names, q)
		byName[q] = v
	}
	sort.Strings(names)
	for _, q := range names {
		v := byName[q]
		if t.refCarrying(v.Type()) {
			visit(v.Type(), q)
		}
	}
}

type fileAn struct {
	t    *typed
	p    *tpkg
	file string
	fn   string
}

func (fa *fileAn) line(pos token.Pos) int { return fa.t.l.fset.Position(pos).Line }

func (fa *fileAn) typeOf(e ast.Expr) types.Type {
	if tv, ok := fa.p.info.Types[e]; ok {
		return tv.Type
	}
	if id, ok := e.(*ast.Ident); ok {
		if o := fa.p.info.Uses[id]; o != nil {
			return o.Type()
		}
		if o := fa.p.info.Defs[id]; o != nil {
			return o.Type()
		}
	}
	return nil
}

// globalOf: the package-level variable an identifier denotes
func (fa *fileAn) globalOf(id *ast.Ident) string {
	if v, ok := fa.p.info.Uses[id].(*types.Var); ok {
		return fa.t.globals[v]
	}
	return ""
}

func (fa *fileAn) localOf(id *ast.Ident) *types.Var {
	o := fa.p.info.Uses[id]
	if o == nil {
		o = fa.p.info.Defs[id]
	}
	if v, ok := o.(*types.Var); ok && !v.IsField() {
		if _, isGlobal := fa.t.globals[v]; !isGlobal && v.Pkg() == fa.p.pkg {
			return v
		}
	}
	return nil
}

// pathRoot walks an access path (selectors, indexes, derefs, slices, parens,
// type assertions) down to its root identifier; crosses = the path goes
// through a reference after the root (so a store to it writes shared memory
// even when the root is a local copy)
func (fa *fileAn) pathRoot(e ast.Expr) (root *ast.Ident, crosses bool) {
	for {
		switch x := e.(type) {
		case *ast.ParenExpr:
			e = x.X
		case *ast.StarExpr:
			crosses = true
			e = x.X
		case *ast.IndexExpr:
			if ty := fa.typeOf(x.X); ty != nil {
				switch u := ty.Underlying().(type) {
				case *types.Array:
				case *types.Pointer: // pointer to array
					_ = u
					crosses = true
				default:
					crosses = true
				}
			} else {
				crosses = true
			}
			e = x.X
		case *ast.SliceExpr:
			crosses = true
			e = x.X
		case *ast.TypeAssertExpr:
			e = x.X
		case *ast.SelectorExpr:
			if id, ok := x.X.(*ast.Ident); ok {
				if _, isPkg := fa.p.info.Uses[id].(*types.PkgName); isPkg {
					return x.Sel, crosses
				}
			}
			if sel := fa.p.info.Selections[x]; sel != nil {
				if sel.Indirect() {
					crosses = true
				} else if _, isPtr := fa.typeOfU(x.X).(*types.Pointer); isPtr {
					crosses = true
				}
			} else {
				crosses = true
			}
			e = x.X
		case *ast.Ident:
			return x, crosses
		default:
			return nil, crosses
		}
	}
}

func (fa *fileAn) typeOfU(e ast.Expr) types.Type {
	if ty := fa.typeOf(e); ty != nil {
		return ty.Underlying()
	}
	return nil
}

func calleeName(c *ast.CallExpr) string {
	switch f := c.Fun.(type) {
	case *ast.Ident:
		return f.Name
	case *ast.SelectorExpr:
		return f.Sel.Name
	}
	return "?"
}

// function analyses one function body (nested function literals included: they
// share the taint environment of the enclosing function)
func (fa *fileAn) function(body *ast.BlockStmt) {
	info := fa.p.info
	// ---- parents
	parent := map[ast.Node]ast.Node{}
	var stack []ast.Node
	ast.Inspect(body, func(n ast.Node) bool {
		if n == nil {
			stack = stack[:len(stack)-1]
			return true
		}
		if len(stack) > 0 {
			parent[n] = stack[len(stack)-1]
		}
		stack = append(stack, n)
		return true
	})

	taint := map[*types.Var]string{} // local -> global it was loaded from
	fresh := map[*types.Var]int{}    // local -> 1 only fresh bindings so far, 2 = some other binding

	isFreshExpr := func(e ast.Expr) bool {
		for {
			if p, ok := e.(*ast.ParenExpr); ok {
				e = p.X
				continue
			}
			break
		}
		switch x := e.(type) {
		case *ast.CompositeLit:
			return true
		case *ast.UnaryExpr:
			if x.Op == token.AND {
				_, ok := x.X.(*ast.CompositeLit)
				return ok
			}
		case *ast.CallExpr:
			if id, ok := x.Fun.(*ast.Ident); ok {
				if _, isB := info.Uses[id].(*types.Builtin); isB && (id.Name == "make" || id.Name == "new") {
					return true
				}
			}
		}
		return false
	}
	bind := func(lhs ast.Expr, rhs ast.Expr) {
		id, ok := lhs.(*ast.Ident)
		if !ok {
			return
		}
		v := fa.localOf(id)
		if v == nil {
			return
		}
		if rhs != nil && isFreshExpr(rhs) {
			if fresh[v] == 0 {
				fresh[v] = 1
			}
		} else {
			fresh[v] = 2
		}
	}

	// climb from a root identifier use to the maximal access path; returns the
	// path expression and, when the path ends as the receiver of a method
	// call, that method's name
	climb := func(start ast.Node) (ast.Expr, string, *ast.CallExpr) {
		cur := start.(ast.Expr)
		for {
			par := parent[cur]
			switch x := par.(type) {
			case *ast.ParenExpr:
				cur = x
				continue
			case *ast.StarExpr:
				cur = x
				continue
			case *ast.IndexExpr:
				if x.X == cur {
					cur = x
					continue
				}
			case *ast.SliceExpr:
				if x.X == cur {
					cur = x
					continue
				}
			case *ast.TypeAssertExpr:
				if x.X == cur && x.Type != nil {
					cur = x
					continue
				}
			case *ast.SelectorExpr:
				if x.Sel == cur { // pkg.Var
					cur = x
					continue
				}
				if x.X == cur {
					if sel := info.Selections[x]; sel != nil && sel.Kind() != types.FieldVal {
						call, _ := parent[x].(*ast.CallExpr)
						if call != nil && call.Fun == ast.Expr(x) {
							return cur, x.Sel.Name, call
						}
						return cur, x.Sel.Name, nil // method value
					}
					cur = x
					continue
				}
			case *ast.CallExpr:
				// conversion T(x): same reference
				if len(x.Args) == 1 && x.Args[0] == cur {
					if tv, ok := info.Types[x.Fun]; ok && tv.IsType() {
						cur = x
						continue
					}
				}
			}
			return cur, "", nil
		}
	}

	// classify where the value of path expression e goes; returns kind, detail
	// and, for bindings to locals, the bound identifiers
	classify := func(e ast.Expr) (kind, detail string, bound []*ast.Ident) {
		par := parent[e]
		switch x := par.(type) {
		case *ast.AssignStmt:
			for i, r := range x.Rhs {
				if r != e {
					continue
				}
				if len(x.Lhs) == len(x.Rhs) {
					l := x.Lhs[i]
					if id, ok := l.(*ast.Ident); ok {
						if id.Name == "_" {
							return "", "", nil
						}
						if fa.globalOf(id) != "" {
							return "global", id.Name, nil
						}
						return "local", id.Name, []*ast.Ident{id}
					}
					root, _ := fa.pathRoot(l)
					switch l.(type) {
					case *ast.SelectorExpr:
						return "field", l.(*ast.SelectorExpr).Sel.Name, nil
					case *ast.IndexExpr:
						n := "?"
						if root != nil {
							n = root.Name
						}
						return "elem", n, nil
					}
					return "store", "", nil
				}
				// v, ok := g[k] / g.(T)
				if id, ok := x.Lhs[0].(*ast.Ident); ok && id.Name != "_" {
					return "local", id.Name, []*ast.Ident{id}
				}
				if _, ok := x.Lhs[0].(*ast.Ident); ok {
					return "", "", nil
				}
				return "store", "", nil
			}
			return "", "", nil // on the left-hand side: a write, listed by the syntactic pass
		case *ast.ValueSpec:
			for i, r := range x.Values {
				if r == e && i < len(x.Names) {
					if x.Names[i].Name == "_" {
						return "", "", nil
					}
					return "local", x.Names[i].Name, []*ast.Ident{x.Names[i]}
				}
			}
			return "", "", nil
		case *ast.RangeStmt:
			if x.X != e {
				return "", "", nil
			}
			if x.Value == nil {
				// the key of a map may carry references too
				if x.Key != nil {
					if id, ok := x.Key.(*ast.Ident); ok && id.Name != "_" && fa.t.refCarrying(fa.typeOf(id)) {
						return "range", id.Name, []*ast.Ident{id}
					}
				}
				return "", "", nil
			}
			if id, ok := x.Value.(*ast.Ident); ok {
				if id.Name == "_" || !fa.t.refCarrying(fa.typeOf(id)) {
					return "", "", nil
				}
				return "range", id.Name, []*ast.Ident{id}
			}
			return "range", "", nil
		case *ast.CallExpr:
			if x.Fun == e {
				return "", "", nil // calling a func-typed variable: a read
			}
			if id, ok := x.Fun.(*ast.Ident); ok {
				if _, isB := info.Uses[id].(*types.Builtin); isB {
					switch id.Name {
					case "len", "cap", "print", "println", "panic", "delete", "clear", "min", "max":
						return "", "", nil // delete/clear: writes listed by the syntactic pass
					case "append":
						if len(x.Args) > 0 && x.Args[0] == e {
							return "", "", nil // write, syntactic pass
						}
						return "arg", "append", nil
					case "copy":
						if len(x.Args) > 0 && x.Args[0] == e {
							return "", "", nil
						}
						// copy(dst, g): the elements are copied; they escape when they carry references
						if s, ok := fa.typeOfU(e).(*types.Slice); ok && !fa.t.refCarrying(s.Elem()) {
							return "", "", nil
						}
						return "arg", "copy", nil
					}
				}
			}
			return "arg", calleeName(x), nil
		case *ast.ReturnStmt:
			return "return", "", nil
		case *ast.KeyValueExpr:
			if x.Value == e {
				if k, ok := x.Key.(*ast.Ident); ok {
					return "lit", k.Name, nil
				}
				return "lit", "", nil
			}
			return "", "", nil // used as a key
		case *ast.CompositeLit:
			return "lit", "", nil
		case *ast.SendStmt:
			if x.Value == e {
				return "send", "", nil
			}
		case *ast.UnaryExpr:
			if x.Op == token.AND {
				return "", "", nil // &g.f: listed by the syntactic pass (addr)
			}
			if x.Op == token.ARROW {
				return "", "", nil
			}
		case *ast.TypeSwitchStmt, *ast.ExprStmt:
			return "", "", nil
		case *ast.TypeAssertExpr:
			if x.Type == nil { // switch v := g.(type)
				if as, ok := parent[x].(*ast.AssignStmt); ok && len(as.Lhs) == 1 {
					if id, ok := as.Lhs[0].(*ast.Ident); ok {
						return "local", id.Name, []*ast.Ident{id}
					}
				}
				return "", "", nil
			}
		case *ast.BinaryExpr, *ast.IndexExpr, *ast.SwitchStmt, *ast.IfStmt, *ast.ForStmt, *ast.CaseClause, *ast.IncDecStmt:
			return "", "", nil // comparison, used as an index/key, condition
		}
		return "other", fmt.Sprintf("%T", par), nil
	}

	addEscape := func(pos token.Pos, g, kind, detail string, ty types.Type) {
		fa.t.res.Escapes = append(fa.t.res.Escapes, Escape{File: fa.file, Line: fa.line(pos), Var: g, Kind: kind, Detail: detail, Func: fa.fn, Type: fa.t.typeKey(ty)})
	}

	// ---- pass 1: bindings (fresh / not fresh) of locals
	ast.Inspect(body, func(n ast.Node) bool {
		switch s := n.(type) {
		case *ast.AssignStmt:
			if len(s.Lhs) == len(s.Rhs) {
				for i := range s.Lhs {
					bind(s.Lhs[i], s.Rhs[i])
				}
			} else {
				for _, l := range s.Lhs {
					bind(l, nil)
				}
			}
		case *ast.ValueSpec:
			for i, nme := range s.Names {
				if len(s.Values) == len(s.Names) {
					bind(nme, s.Values[i])
				} else if len(s.Values) == 0 {
					// var x T: zero value, own storage: fresh unless T is a reference type (then nil: fresh too)
					if v := fa.localOf(nme); v != nil && fresh[v] == 0 {
						fresh[v] = 1
					}
				} else {
					bind(nme, nil)
				}
			}
		case *ast.RangeStmt:
			if s.Key != nil {
				bind(s.Key, nil)
			}
			if s.Value != nil {
				bind(s.Value, nil)
			}
		case *ast.UnaryExpr:
			// &x escapes the local: it may be rebound through the pointer
			if s.Op == token.AND {
				if id, ok := s.X.(*ast.Ident); ok {
					if v := fa.localOf(id); v != nil {
						fresh[v] = 2
					}
				}
			}
		}
		return true
	})

	// ---- pass 2: escapes of globals, seeds of the taint
	type use struct {
		id *ast.Ident
		g  string
	}
	var uses []use
	ast.Inspect(body, func(n ast.Node) bool {
		if id, ok := n.(*ast.Ident); ok {
			if g := fa.globalOf(id); g != "" {
				uses = append(uses, use{id, g})
			}
		}
		return true
	})
	handle := func(start ast.Node, g string) (changed bool) {
		e, meth, call := climb(start)
		ty := fa.typeOf(e)
		if ty == nil || !fa.t.refCarrying(ty) {
			// a value without references: a copy.  A pointer-receiver method on
			// an addressable global is listed by the syntactic pass ("call").
			return false
		}
		if meth != "" {
			if g != "" {
				_ = call
				addEscape(e.Pos(), g, "recv", meth, ty)
			}
			return false
		}
		kind, detail, bound := classify(e)
		if kind == "" {
			return false
		}
		if g != "" {
			addEscape(e.Pos(), g, kind, detail, ty)
		}
		for _, b := range bound {
			if v := fa.localOf(b); v != nil {
				src := g
				if src == "" {
					if r, _ := fa.pathRoot(e); r != nil {
						if lv := fa.localOf(r); lv != nil {
							src = taint[lv]
						}
					}
				}
				if src != "" && taint[v] == "" {
					taint[v] = src
					changed = true
				}
			}
		}
		return changed
	}
	for _, u := range uses {
		handle(u.id, u.g)
	}
	// ---- pass 3: propagate the taint through local-to-local loads (fixpoint)
	for round := 0; round < 8; round++ {
		changed := false
		ast.Inspect(body, func(n ast.Node) bool {
			if id, ok := n.(*ast.Ident); ok && info.Uses[id] != nil {
				if v := fa.localOf(id); v != nil && taint[v] != "" {
					if handle(id, "") {
						changed = true
					}
				}
			}
			return true
		})
		if !changed {
			break
		}
	}

	// ---- map iteration sites
	ast.Inspect(body, func(n ast.Node) bool {
		rs, ok := n.(*ast.RangeStmt)
		if !ok {
			return true
		}
		if _, isMap := fa.typeOfU(rs.X).(*types.Map); !isMap {
			return true
		}
		fa.t.res.MapRanges = append(fa.t.res.MapRanges, MapRange{File: fa.file, Line: fa.line(rs.Pos()), Func: strings.ReplaceAll(fa.fn, " ", "_"),
			Type: fa.t.typeKey(fa.typeOf(rs.X)), Shape: fa.rangeShape(rs)})
		return true
	})

	// ---- pass 4: writes through references
	store := func(lhs ast.Expr, pos token.Pos, kind, detail string) {
		root, crosses := fa.pathRoot(lhs)
		if !crosses {
			return // the variable's own storage (a global root is listed by the syntactic pass)
		}
		var rv *types.Var
		if root != nil {
			if fa.globalOf(root) != "" {
				return // rooted at a global: syntactic pass
			}
			rv = fa.localOf(root)
		}
		if rv != nil && taint[rv] != "" {
			fa.t.res.AliasWrites = append(fa.t.res.AliasWrites, Write{File: fa.file, Line: fa.line(pos), Var: taint[rv], Kind: "alias-" + kind, Detail: detail, Func: fa.fn})
		}
		// type-based: the object written
		inner := lhs
		for {
			if p, ok := inner.(*ast.ParenExpr); ok {
				inner = p.X
				continue
			}
			break
		}
		var objT types.Type
		op := ""
		switch x := inner.(type) {
		case *ast.SelectorExpr:
			objT, op = fa.typeOf(x.X), "field:"+x.Sel.Name
		case *ast.IndexExpr:
			objT, op = fa.typeOf(x.X), "elem"
		case *ast.StarExpr:
			objT, op = fa.typeOf(x.X), "deref"
		default:
			return
		}
		fa.tbaa(objT, op, pos, rv != nil && fresh[rv] == 1 && taint[rv] == "" && fa.freshPath(lhs))
	}
	ast.Inspect(body, func(n ast.Node) bool {
		switch s := n.(type) {
		case *ast.AssignStmt:
			if s.Tok == token.DEFINE {
				return true
			}
			for _, l := range s.Lhs {
				store(l, l.Pos(), "assign", s.Tok.String())
			}
		case *ast.IncDecStmt:
			store(s.X, s.Pos(), "incdec", s.Tok.String())
		case *ast.RangeStmt:
			if s.Tok == token.ASSIGN {
				for _, l := range []ast.Expr{s.Key, s.Value} {
					if l != nil {
						store(l, l.Pos(), "range", "=")
					}
				}
			}
		case *ast.CallExpr:
			if id, ok := s.Fun.(*ast.Ident); ok && len(s.Args) > 0 {
				if _, isB := info.Uses[id].(*types.Builtin); isB {
					switch id.Name {
					case "delete", "clear", "copy", "append":
						// the first argument's elements are written (append: into the
						// spare capacity of the backing array the argument shares)
						arg := s.Args[0]
						root, _ := fa.pathRoot(arg)
						var rv *types.Var
						if root != nil {
							if fa.globalOf(root) != "" {
								return true // syntactic pass
							}
							rv = fa.localOf(root)
						}
						if rv != nil && taint[rv] != "" {
							fa.t.res.AliasWrites = append(fa.t.res.AliasWrites, Write{File: fa.file, Line: fa.line(s.Pos()), Var: taint[rv], Kind: "alias-builtin", Detail: id.Name, Func: fa.fn})
						}
						if id.Name != "append" { // append: too common to attribute by type; alias pass only
							_, isId := arg.(*ast.Ident)
							fa.tbaa(fa.typeOf(arg), id.Name, s.Pos(), isId && rv != nil && fresh[rv] == 1 && taint[rv] == "")
						}
					}
				}
			}
		}
		return true
	})
}

// tbaa records a write through a reference into an object of type objT when
// that type is reachable from a package-level variable
func (fa *fileAn) tbaa(objT types.Type, op string, pos token.Pos, isFresh bool) {
	if objT == nil || isFresh {
		return
	}
	if p, ok := objT.Underlying().(*types.Pointer); ok {
		objT = p.Elem()
	}
	if !fa.t.attributable(objT) {
		return
	}
	k := fa.t.typeKey(objT)
	via, ok := fa.t.reach[k]
	if !ok {
		return
	}
	fa.t.res.TWrites = append(fa.t.res.TWrites, TWrite{File: fa.file, Line: fa.line(pos), Type: k, Op: op, Func: strings.ReplaceAll(fa.fn, " ", "_"), Via: via})
}

// attributable: can a write into an object of this static type be attributed
// to a family of objects?  Named module types: yes.  Unnamed slices / maps /
// arrays: only when their element type is (recursively) attributable.  Basic
// types (and named basic types such as pr.Float), strings, external types: no
// -- []string, []byte, *float64, map[string]Float are written everywhere.
func (t *typed) attributable(ty types.Type) bool {
	switch x := ty.(type) {
	case *types.Named:
		if x.Obj().Pkg() == nil || !(x.Obj().Pkg().Path() == modulePath || strings.HasPrefix(x.Obj().Pkg().Path(), modulePath+"/")) {
			return false
		}
		_, isBasic := x.Underlying().(*types.Basic)
		return !isBasic
	case *types.Slice:
		return t.attributable(x.Elem())
	case *types.Array:
		return t.attributable(x.Elem())
	case *types.Map:
		return t.attributable(x.Elem())
	case *types.Pointer:
		return t.attributable(x.Elem())
	case *types.Struct:
		return true
	}
	return false
}

// freshPath: the store goes into the object the (fresh) root local itself
// denotes -- root.f = .., root[k] = .., *root = .., root.f.g = .. with
// struct-valued f -- and not through a further reference held by it
// (root.ptr.f = .., root.m[k] = .. : the inner reference may come from anywhere)
func (fa *fileAn) freshPath(lhs ast.Expr) bool {
	n, onRoot := 0, false
	isRoot := func(e ast.Expr) bool {
		for {
			if p, ok := e.(*ast.ParenExpr); ok {
				e = p.X
				continue
			}
			break
		}
		_, ok := e.(*ast.Ident)
		return ok
	}
	e := lhs
	for {
		switch x := e.(type) {
		case *ast.ParenExpr:
			e = x.X
		case *ast.StarExpr:
			n++
			onRoot = isRoot(x.X)
			e = x.X
		case *ast.IndexExpr:
			if _, isArr := fa.typeOfU(x.X).(*types.Array); !isArr {
				n++
				onRoot = isRoot(x.X)
			}
			e = x.X
		case *ast.SliceExpr:
			n++
			onRoot = isRoot(x.X)
			e = x.X
		case *ast.SelectorExpr:
			if _, isPtr := fa.typeOfU(x.X).(*types.Pointer); isPtr {
				n++
				onRoot = isRoot(x.X)
			} else if sel := fa.p.info.Selections[x]; sel != nil && sel.Indirect() {
				return false // through an embedded pointer
			}
			e = x.X
		case *ast.Ident:
			return n == 1 && onRoot
		default:
			return false
		}
	}
}

// rangeShape summarises syntactically how the body of a range-over-map could
// expose the iteration order:
//
//	exit     the body can leave the loop early (return / break / goto): WHICH entry is seen first matters
//	append   the body appends to a slice declared outside the loop (order of the result = iteration order)
//	call     the body calls something other than builtins / conversions with the key or value in scope
//	         (effects in iteration order)
//	write    only stores: m2[k] = v, x.f = v, counters
//	pure     nothing of the above (empty body, or only local computation)
//
// the strongest applicable shape is reported (exit > append > call > write > pure)
func (fa *fileAn) rangeShape(rs *ast.RangeStmt) string {
	exit, app, call, write := false, false, false, false
	depth := 0
	var visit func(n ast.Node) bool
	visit = func(n ast.Node) bool {
		switch x := n.(type) {
		case *ast.FuncLit:
			return false
		case *ast.ReturnStmt:
			exit = true
		case *ast.BranchStmt:
			if x.Tok == token.GOTO || (x.Tok == token.BREAK && (x.Label != nil || depth == 0)) {
				exit = true
			}
		case *ast.ForStmt, *ast.RangeStmt, *ast.SwitchStmt, *ast.TypeSwitchStmt, *ast.SelectStmt:
			if n != ast.Node(rs) {
				depth++
				switch y := x.(type) {
				case *ast.ForStmt:
					ast.Inspect(y.Body, visit)
				case *ast.RangeStmt:
					ast.Inspect(y.Body, visit)
				case *ast.SwitchStmt:
					ast.Inspect(y.Body, visit)
				case *ast.TypeSwitchStmt:
					ast.Inspect(y.Body, visit)
				case *ast.SelectStmt:
					ast.Inspect(y.Body, visit)
				}
				depth--
				return false
			}
		case *ast.AssignStmt:
			if x.Tok != token.DEFINE {
				write = true
			}
		case *ast.IncDecStmt:
			write = true
		case *ast.CallExpr:
			if id, ok := x.Fun.(*ast.Ident); ok {
				if _, isB := fa.p.info.Uses[id].(*types.Builtin); isB {
					if id.Name == "append" {
						app = true
					}
					if id.Name == "delete" {
						write = true
					}
					return true
				}
			}
			if tv, ok := fa.p.info.Types[x.Fun]; ok && tv.IsType() {
				return true
			}
			call = true
		}
		return true
	}
	ast.Inspect(rs.Body, visit)
	switch {
	case exit:
		return "exit"
	case app:
		return "append"
	case call:
		return "call"
	case write:
		return "write"
	}
	return "pure"
}
