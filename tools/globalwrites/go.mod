module globalwrites

go 1.23.0
