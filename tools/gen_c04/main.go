// gen_c04 regenerates /verif/coq/theories/Generated/PropTables.v from the
// *source text* of /repo (working tree):
//
//	css/properties/properties.go     the KnownProp const block, InitialValues
//	css/properties/datas.go          Unit const block, LengthsToPixels (exact constant
//	                                 expressions), FontSizeKeywords(+Order), Inherited,
//	                                 InitialNotComputed
//	css/properties/props_gen.go      propsNames
//	html/tree/computed_values.go     borderWidthKeywords, fontWeightRelative, the table of
//	                                 computer functions (`tmp`)
//
// Only the Go standard library is used (go/parser, go/ast, go/constant).  The
// accepted Go subset is tiny; anything outside it makes the program exit 1
// with a message naming the construct ("broken tie"), it never guesses.  The
// runtime values of the same tables are cross-checked by the correspondence
// harness (go/cmd/c04, cases CTab*), so a mistranslation shows up as a
// disagreement between the two ties.
//
// usage: gen_c04 -repo /repo -out <file>     (writes only when the text changed)
package main

import (
	"bytes"
	"flag"
	"fmt"
	"go/ast"
	"go/constant"
	"go/parser"
	"go/printer"
	"go/token"
	"math/big"
	"os"
	"path/filepath"
	"sort"
	"strings"
)

func die(format string, args ...interface{}) {
	fmt.Fprintf(os.Stderr, "gen_c04: "+format+"\n", args...)
	os.Exit(1)
}

var fset = token.NewFileSet()

func parse(path string) *ast.File {
	f, err := parser.ParseFile(fset, path, nil, 0)
	if err != nil {
		die("cannot parse %s: %v", path, err)
	}
	return f
}

func src(n ast.Node) string {
	var b bytes.Buffer
	printer.Fprint(&b, fset, n)
	return b.String()
}

// iotaBlock returns the names of the const block whose first spec has type `typ`
// and value `iota` (+ offset); result maps name -> value.
func iotaBlock(f *ast.File, typ string) (map[string]int, []string) {
	for _, d := range f.Decls {
		g, ok := d.(*ast.GenDecl)
		if !ok || g.Tok != token.CONST || len(g.Specs) == 0 {
			continue
		}
		first := g.Specs[0].(*ast.ValueSpec)
		id, ok := first.Type.(*ast.Ident)
		if !ok || id.Name != typ || len(first.Values) != 1 {
			continue
		}
		offset := 0
		switch v := first.Values[0].(type) {
		case *ast.Ident:
			if v.Name != "iota" {
				continue
			}
		case *ast.BinaryExpr:
			x, ok1 := v.X.(*ast.Ident)
			y, ok2 := v.Y.(*ast.BasicLit)
			if !ok1 || !ok2 || x.Name != "iota" || v.Op != token.ADD {
				continue
			}
			fmt.Sscanf(y.Value, "%d", &offset)
		default:
			continue
		}
		out := map[string]int{}
		var order []string
		for i, s := range g.Specs {
			vs := s.(*ast.ValueSpec)
			if len(vs.Names) != 1 {
				die("const block %s: several names in one spec", typ)
			}
			if i > 0 && (vs.Type != nil || len(vs.Values) != 0) {
				die("const block %s: explicit value/type at %s", typ, vs.Names[0].Name)
			}
			out[vs.Names[0].Name] = i + offset
			order = append(order, vs.Names[0].Name)
		}
		return out, order
	}
	die("const block of type %s not found", typ)
	return nil, nil
}

// findVar returns the initialiser expression of package-level variable `name`.
func findVar(f *ast.File, name string) ast.Expr {
	for _, d := range f.Decls {
		g, ok := d.(*ast.GenDecl)
		if !ok || g.Tok != token.VAR {
			continue
		}
		for _, s := range g.Specs {
			vs := s.(*ast.ValueSpec)
			for i, n := range vs.Names {
				if n.Name == name {
					if i >= len(vs.Values) {
						die("variable %s has no initialiser", name)
					}
					return vs.Values[i]
				}
			}
		}
	}
	die("variable %s not found", name)
	return nil
}

func identName(e ast.Expr) string {
	switch v := e.(type) {
	case *ast.Ident:
		return v.Name
	case *ast.SelectorExpr: // pr.PXxx
		return v.Sel.Name
	}
	die("expected identifier, got %s", src(e))
	return ""
}

func strLit(e ast.Expr) string {
	b, ok := e.(*ast.BasicLit)
	if !ok || b.Kind != token.STRING {
		die("expected string literal, got %s", src(e))
	}
	v := constant.MakeFromLiteral(b.Value, token.STRING, 0)
	return constant.StringVal(v)
}

// constExpr evaluates a numeric constant expression exactly.
func constExpr(e ast.Expr) constant.Value {
	switch v := e.(type) {
	case *ast.BasicLit:
		if v.Kind != token.INT && v.Kind != token.FLOAT {
			die("numeric literal expected: %s", src(e))
		}
		return constant.ToFloat(constant.MakeFromLiteral(v.Value, v.Kind, 0))
	case *ast.ParenExpr:
		return constExpr(v.X)
	case *ast.UnaryExpr:
		if v.Op == token.SUB {
			return constant.UnaryOp(token.SUB, constExpr(v.X), 0)
		}
	case *ast.BinaryExpr:
		switch v.Op {
		case token.ADD, token.SUB, token.MUL, token.QUO:
			return constant.BinaryOp(constExpr(v.X), v.Op, constExpr(v.Y))
		}
	}
	die("constant expression outside the accepted subset: %s", src(e))
	return nil
}

func ratOf(c constant.Value) *big.Rat {
	c = constant.ToFloat(c)
	switch x := constant.Val(c).(type) {
	case *big.Rat:
		return x
	case int64:
		return new(big.Rat).SetInt64(x)
	case *big.Int:
		return new(big.Rat).SetInt(x)
	case *big.Float:
		r, _ := x.Rat(nil)
		if r == nil {
			die("non rational constant")
		}
		return r
	}
	// small rationals are represented as ratVal internally: go through Num/Denom
	n, d := constant.Num(c), constant.Denom(c)
	if n.Kind() == constant.Int && d.Kind() == constant.Int {
		ni, _ := new(big.Int).SetString(n.ExactString(), 10)
		di, _ := new(big.Int).SetString(d.ExactString(), 10)
		return new(big.Rat).SetFrac(ni, di)
	}
	die("cannot convert constant %s", c.ExactString())
	return nil
}

func coqQ(r *big.Rat) string {
	if r.IsInt() {
		if r.Sign() < 0 {
			return fmt.Sprintf("(%s)%%Q", r.Num().String())
		}
		return r.Num().String() + "%Q"
	}
	return fmt.Sprintf("(%s # %s)%%Q", r.Num().String(), r.Denom().String())
}

func coqStr(s string) string {
	for i := 0; i < len(s); i++ {
		if s[i] < 0x20 || s[i] > 0x7e {
			die("non printable-ASCII string %q", s)
		}
	}
	return `"` + strings.ReplaceAll(s, `"`, `""`) + `"`
}

func kvs(e ast.Expr) []*ast.KeyValueExpr {
	cl, ok := e.(*ast.CompositeLit)
	if !ok {
		die("composite literal expected: %s", src(e))
	}
	var out []*ast.KeyValueExpr
	for _, el := range cl.Elts {
		kv, ok := el.(*ast.KeyValueExpr)
		if !ok {
			die("key: value expected in %s", src(e))
		}
		out = append(out, kv)
	}
	return out
}

func setArgs(e ast.Expr) []string {
	c, ok := e.(*ast.CallExpr)
	if !ok || identName(c.Fun) != "NewSetK" {
		die("NewSetK(...) expected: %s", src(e))
	}
	var out []string
	for _, a := range c.Args {
		out = append(out, identName(a))
	}
	return out
}

type gen struct {
	props map[string]int
	units map[string]int
	datas *ast.File
	ltp   map[int]*big.Rat // LengthsToPixels, exact
}

// f32Q is the exact rational value of float32(r)
func f32Q(x float32) *big.Rat { return new(big.Rat).SetFloat64(float64(x)) }

// toPixels evaluates `X.ToPixels()` for a package-level Point variable X, the way
// the Go runtime does at package initialisation: Value * LengthsToPixels[Unit] in
// float32 (utils.go Dimension.ToPixels).
func (g *gen) toPixels(name string) (string, bool) {
	cl, ok := findVar(g.datas, name).(*ast.CompositeLit)
	if !ok || len(cl.Elts) != 2 {
		return "", false
	}
	var parts []string
	for _, el := range cl.Elts {
		d, isLit := el.(*ast.CompositeLit)
		if !isLit {
			return "", false
		}
		var val *big.Rat
		unit := 0
		for _, kv := range kvs(d) {
			switch identName(kv.Key) {
			case "Value":
				val = ratOf(constExpr(kv.Value))
			case "Unit":
				unit = g.units[identName(kv.Value)]
			}
		}
		c, known := g.ltp[unit]
		if val == nil || !known {
			return "", false
		}
		v32, _ := val.Float32()
		c32, _ := c.Float32()
		parts = append(parts, fmt.Sprintf("%s %d", coqQ(f32Q(v32*c32)), g.units["Px"]))
	}
	return "VPoint " + strings.Join(parts, " "), true
}

// dimension evaluates Dimension{Value: c, Unit: U} / {Value..} / ZeroPixels
func (g *gen) dimension(e ast.Expr) (val string, unit int, inf bool, ok bool) {
	switch v := e.(type) {
	case *ast.Ident:
		if v.Name == "ZeroPixels" {
			return "0%Q", g.units["Px"], false, true
		}
		return "", 0, false, false
	case *ast.CompositeLit:
		if v.Type != nil && identName(v.Type) != "Dimension" {
			return "", 0, false, false
		}
		val, unit = "0%Q", 0
		for _, el := range v.Elts {
			kv, isKv := el.(*ast.KeyValueExpr)
			if !isKv {
				return "", 0, false, false
			}
			switch identName(kv.Key) {
			case "Value":
				if id, isId := kv.Value.(*ast.Ident); isId && id.Name == "Inf" {
					inf = true
				} else {
					val = coqQ(ratOf(constExpr(kv.Value)))
				}
			case "Unit":
				u, known := g.units[identName(kv.Value)]
				if !known {
					return "", 0, false, false
				}
				unit = u
			default:
				return "", 0, false, false
			}
		}
		return val, unit, inf, true
	}
	return "", 0, false, false
}

// value translates an InitialValues entry; anything outside the subset is the
// opaque initial value (VOpaque 0).
func (g *gen) value(e ast.Expr) string {
	const opaque = "VOpaque 0"
	switch v := e.(type) {
	case *ast.Ident:
		if v.Name == "zeroPixelsValue" {
			return fmt.Sprintf("VDim \"\" 0%%Q %d", g.units["Px"])
		}
	case *ast.CallExpr:
		if sel, isSel := v.Fun.(*ast.SelectorExpr); isSel && sel.Sel.Name == "ToPixels" && len(v.Args) == 0 {
			if x, isId := sel.X.(*ast.Ident); isId {
				if s, ok := g.toPixels(x.Name); ok {
					return s
				}
			}
			return opaque
		}
		fn, isId := v.Fun.(*ast.Ident)
		if !isId || len(v.Args) != 1 {
			return opaque
		}
		switch fn.Name {
		case "SToV":
			return fmt.Sprintf("VDim %s 0%%Q 0", coqStr(strLit(v.Args[0])))
		case "String", "Page":
			return fmt.Sprintf("VStr %s", coqStr(strLit(v.Args[0])))
		case "FToV":
			return fmt.Sprintf("VDim \"\" %s %d", coqQ(ratOf(constExpr(v.Args[0]))), g.units["Scalar"])
		case "PercToV":
			return fmt.Sprintf("VDim \"\" %s %d", coqQ(ratOf(constExpr(v.Args[0]))), g.units["Perc"])
		case "Int":
			r := ratOf(constExpr(v.Args[0]))
			if !r.IsInt() {
				die("Int(%s)", src(v.Args[0]))
			}
			return fmt.Sprintf("VInt (%s)%%Z", r.Num().String())
		case "Decorations":
			r := ratOf(constExpr(v.Args[0]))
			return fmt.Sprintf("VDecor %s", r.Num().String())
		}
	case *ast.CompositeLit:
		if v.Type == nil {
			return opaque
		}
		tn, isId := v.Type.(*ast.Ident)
		if !isId {
			return opaque
		}
		switch tn.Name {
		case "Display":
			parts := []string{`""`, `""`, `""`}
			if len(v.Elts) > 3 {
				die("Display literal with more than 3 elements")
			}
			for i, el := range v.Elts {
				parts[i] = coqStr(strLit(el))
			}
			return "VDisplay " + strings.Join(parts, " ")
		case "Marks":
			crop, cross := "false", "false"
			for _, kv := range kvs(v) {
				switch identName(kv.Key) {
				case "Crop":
					crop = identName(kv.Value)
				case "Cross":
					cross = identName(kv.Value)
				}
			}
			return fmt.Sprintf("VMarks %s %s", crop, cross)
		case "BoolString":
			b, s := "false", `""`
			for _, kv := range kvs(v) {
				switch identName(kv.Key) {
				case "String":
					s = coqStr(strLit(kv.Value))
				case "Bool":
					b = identName(kv.Value)
				}
			}
			return fmt.Sprintf("VBoolStr %s %s", b, s)
		case "IntString":
			i, s := "0", `""`
			for _, kv := range kvs(v) {
				switch identName(kv.Key) {
				case "String":
					s = coqStr(strLit(kv.Value))
				case "Int":
					i = ratOf(constExpr(kv.Value)).Num().String()
				}
			}
			return fmt.Sprintf("VIntStr %s (%s)%%Z", s, i)
		case "DimOrS":
			s, val, unit, inf := `""`, "0%Q", 0, false
			for _, kv := range kvs(v) {
				switch identName(kv.Key) {
				case "S":
					s = coqStr(strLit(kv.Value))
				case "Dimension":
					var ok bool
					val, unit, inf, ok = g.dimension(kv.Value)
					if !ok {
						die("DimOrS literal outside the subset: %s", src(e))
					}
				default:
					die("DimOrS literal outside the subset: %s", src(e))
				}
			}
			if inf {
				if unit != g.units["Px"] || s != `""` {
					die("infinite dimension that is not in px: %s", src(e))
				}
				return "VInfPx"
			}
			return fmt.Sprintf("VDim %s %s %d", s, val, unit)
		case "Point":
			if len(v.Elts) != 2 {
				return opaque
			}
			a, ua, infa, ok1 := g.dimension(v.Elts[0])
			b, ub, infb, ok2 := g.dimension(v.Elts[1])
			if !ok1 || !ok2 || infa || infb {
				return opaque
			}
			return fmt.Sprintf("VPoint %s %d %s %d", a, ua, b, ub)
		}
	}
	return opaque
}

func main() {
	repo := flag.String("repo", "/repo", "repository root")
	out := flag.String("out", "", "output .v file")
	flag.Parse()
	if *out == "" {
		die("-out required")
	}
	fprops := parse(filepath.Join(*repo, "css/properties/properties.go"))
	fdatas := parse(filepath.Join(*repo, "css/properties/datas.go"))
	fgen := parse(filepath.Join(*repo, "css/properties/props_gen.go"))
	fcomp := parse(filepath.Join(*repo, "html/tree/computed_values.go"))

	g := &gen{}
	var order []string
	g.props, order = iotaBlock(fprops, "KnownProp")
	g.units, _ = iotaBlock(fdatas, "Unit")
	g.datas = fdatas
	g.ltp = map[int]*big.Rat{}
	for _, kv := range kvs(findVar(fdatas, "LengthsToPixels")) {
		u, ok := g.units[identName(kv.Key)]
		if !ok {
			die("LengthsToPixels: unknown unit %s", src(kv.Key))
		}
		g.ltp[u] = ratOf(constExpr(kv.Value))
	}
	nb, ok := g.props["NbProperties"]
	if !ok || order[len(order)-1] != "NbProperties" {
		die("NbProperties must close the KnownProp block")
	}
	if nb > 255 {
		die("more than 255 properties: KnownProp is a uint8")
	}

	var w bytes.Buffer
	p := func(format string, args ...interface{}) { fmt.Fprintf(&w, format, args...) }
	p("(* GENERATED by /verif/tools/gen_c04 from the source text of /repo\n")
	p("   (css/properties/{properties,datas,props_gen}.go, html/tree/computed_values.go).\n")
	p("   DO NOT EDIT: regenerated by `python3 verif.py check C04` on every run. *)\n")
	p("From Coq Require Import QArith ZArith NArith List String.\n")
	p("From Verif Require Import Css.DefaultingValue.\n")
	p("Import ListNotations.\nOpen Scope string_scope.\nOpen Scope N_scope.\n\n")

	// units
	p("(* datas.go: const ( Scalar Unit = iota + 1 ... ) *)\n")
	for _, u := range []string{"Scalar", "Perc", "Ex", "Em", "Ch", "Rem", "Px", "Pt", "Pc", "In", "Cm", "Mm", "Q"} {
		v, ok := g.units[u]
		if !ok {
			die("unit %s missing from the Unit const block", u)
		}
		p("Definition U_%s : N := %d.\n", u, v)
	}
	p("\n")

	// properties
	p("Definition nb_properties : N := %d.\n", nb)
	names := map[string]string{}
	for _, kv := range kvs(findVar(fgen, "propsNames")) {
		names[identName(kv.Key)] = strLit(kv.Value)
	}
	p("(* properties.go KnownProp block (iota order) with props_gen.go propsNames *)\n")
	p("Definition prop_names : list (N * string) := [\n")
	first := true
	for _, name := range order {
		idx := g.props[name]
		if name == "_" || name == "NbProperties" {
			continue
		}
		css, ok := names[name]
		if !ok {
			die("property %s has no entry in propsNames", name)
		}
		if !first {
			p(";\n")
		}
		first = false
		p("  (%d, %s)", idx, coqStr(css))
	}
	p("\n].\n\n")

	propList := func(title, comment string, l []string) {
		p("(* %s *)\nDefinition %s : list N := [", comment, title)
		for i, n := range l {
			idx, ok := g.props[n]
			if !ok {
				die("%s: unknown property constant %s", title, n)
			}
			if i > 0 {
				p("; ")
			}
			p("%d", idx)
		}
		p("].\n\n")
	}
	propList("inherited_list", "datas.go Inherited = NewSetK(...)", setArgs(findVar(fdatas, "Inherited")))
	propList("initial_not_computed_list", "datas.go InitialNotComputed = NewSetK(...)", setArgs(findVar(fdatas, "InitialNotComputed")))

	// computers
	p("(* computed_values.go: tmp = [pr.NbProperties]computerFunc{...} (copied to computerFunctions by init) *)\n")
	p("Definition computer_list : list (N * string) := [\n")
	type pc struct {
		idx int
		fn  string
	}
	var comps []pc
	for _, kv := range kvs(findVar(fcomp, "tmp")) {
		idx, ok := g.props[identName(kv.Key)]
		if !ok {
			die("tmp: unknown property %s", src(kv.Key))
		}
		comps = append(comps, pc{idx, identName(kv.Value)})
	}
	sort.Slice(comps, func(i, j int) bool { return comps[i].idx < comps[j].idx })
	for i, c := range comps {
		if i > 0 {
			p(";\n")
		}
		p("  (%d, %s)", c.idx, coqStr(c.fn))
	}
	p("\n].\n\n")

	// initial values
	p("(* properties.go InitialValues; VOpaque 0 = a value of a type the model does not look into *)\n")
	p("Definition initial_list : list (N * value) := [\n")
	type pi struct {
		idx int
		v   string
	}
	var inits []pi
	for _, kv := range kvs(findVar(fprops, "InitialValues")) {
		idx, ok := g.props[identName(kv.Key)]
		if !ok {
			die("InitialValues: unknown property %s", src(kv.Key))
		}
		inits = append(inits, pi{idx, g.value(kv.Value)})
	}
	sort.Slice(inits, func(i, j int) bool { return inits[i].idx < inits[j].idx })
	for i, c := range inits {
		if i > 0 {
			p(";\n")
		}
		p("  (%d, %s)", c.idx, c.v)
	}
	p("\n].\n\n")

	// LengthsToPixels
	p("(* datas.go LengthsToPixels: the exact values of the Go constant expressions\n   (the float32 table entry is their rounding) *)\n")
	p("Definition lengths_to_pixels : list (N * Q) := [\n")
	type uq struct {
		idx int
		q   string
	}
	var ltp []uq
	for _, kv := range kvs(findVar(fdatas, "LengthsToPixels")) {
		u, ok := g.units[identName(kv.Key)]
		if !ok {
			die("LengthsToPixels: unknown unit %s", src(kv.Key))
		}
		ltp = append(ltp, uq{u, coqQ(ratOf(constExpr(kv.Value)))})
	}
	sort.Slice(ltp, func(i, j int) bool { return ltp[i].idx < ltp[j].idx })
	for i, c := range ltp {
		if i > 0 {
			p(";\n")
		}
		p("  (%d, %s)", c.idx, c.q)
	}
	p("\n].\n\n")

	// FontSizeKeywords: InitialValues.GetFontSize().Value * a / b
	p("(* datas.go FontSizeKeywords: name, a, b for `InitialValues.GetFontSize().Value * a / b`,\n   listed in the order of FontSizeKeywordsOrder *)\n")
	fsk := map[string][2]string{}
	for _, kv := range kvs(findVar(fdatas, "FontSizeKeywords")) {
		div, ok := kv.Value.(*ast.BinaryExpr)
		if !ok || div.Op != token.QUO {
			die("FontSizeKeywords entry outside the subset: %s", src(kv.Value))
		}
		mul, ok := div.X.(*ast.BinaryExpr)
		if !ok || mul.Op != token.MUL || src(mul.X) != "InitialValues.GetFontSize().Value" {
			die("FontSizeKeywords entry outside the subset: %s", src(kv.Value))
		}
		fsk[strLit(kv.Key)] = [2]string{coqQ(ratOf(constExpr(mul.Y))), coqQ(ratOf(constExpr(div.Y)))}
	}
	orderLit, ok := findVar(fdatas, "FontSizeKeywordsOrder").(*ast.CompositeLit)
	if !ok {
		die("FontSizeKeywordsOrder literal expected")
	}
	if len(orderLit.Elts) != len(fsk) {
		die("FontSizeKeywordsOrder and FontSizeKeywords have different sizes")
	}
	p("Definition font_size_keywords : list (string * (Q * Q)) := [\n")
	for i, el := range orderLit.Elts {
		k := strLit(el)
		ab, ok := fsk[k]
		if !ok {
			die("FontSizeKeywordsOrder names %q which is not a key of FontSizeKeywords", k)
		}
		if i > 0 {
			p(";\n")
		}
		p("  (%s, (%s, %s))", coqStr(k), ab[0], ab[1])
	}
	p("\n].\n\n")

	// borderWidthKeywords
	p("(* computed_values.go borderWidthKeywords *)\nDefinition border_width_keywords : list (string * Q) := [")
	type sq struct{ s, q string }
	var bw []sq
	for _, kv := range kvs(findVar(fcomp, "borderWidthKeywords")) {
		bw = append(bw, sq{strLit(kv.Key), coqQ(ratOf(constExpr(kv.Value)))})
	}
	sort.Slice(bw, func(i, j int) bool { return bw[i].s < bw[j].s })
	for i, c := range bw {
		if i > 0 {
			p("; ")
		}
		p("(%s, %s)", coqStr(c.s), c.q)
	}
	p("].\n\n")

	// fontWeightRelative
	for _, kv := range kvs(findVar(fcomp, "fontWeightRelative")) {
		name := identName(kv.Key)
		if name != "bolder" && name != "lighter" {
			die("fontWeightRelative: unexpected field %s", name)
		}
		p("(* computed_values.go fontWeightRelative.%s *)\nDefinition font_weight_%s : list (Z * Z) := [", name, name)
		type zz struct{ a, b int64 }
		var l []zz
		for _, e := range kvs(kv.Value) {
			a, b := ratOf(constExpr(e.Key)), ratOf(constExpr(e.Value))
			if !a.IsInt() || !b.IsInt() {
				die("fontWeightRelative: non integer entry")
			}
			l = append(l, zz{a.Num().Int64(), b.Num().Int64()})
		}
		sort.Slice(l, func(i, j int) bool { return l[i].a < l[j].a })
		for i, c := range l {
			if i > 0 {
				p("; ")
			}
			p("(%d, %d)%%Z", c.a, c.b)
		}
		p("].\n\n")
	}

	old, _ := os.ReadFile(*out)
	if !bytes.Equal(old, w.Bytes()) {
		if err := os.MkdirAll(filepath.Dir(*out), 0o755); err != nil {
			die("%v", err)
		}
		tmp := *out + ".tmp"
		if err := os.WriteFile(tmp, w.Bytes(), 0o644); err != nil {
			die("%v", err)
		}
		if err := os.Rename(tmp, *out); err != nil {
			die("%v", err)
		}
		fmt.Println("gen_c04: wrote", *out)
	} else {
		fmt.Println("gen_c04: unchanged", *out)
	}
}
