module gen_c04

go 1.21
