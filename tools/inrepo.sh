#!/bin/bash
# inrepo.sh <clone-dir> <command...>
# Runs <command> (cwd /verif) in a private mount namespace in which
#   /repo            is bind-mounted from <clone-dir>  (a `git clone /repo <clone-dir>`)
#   /verif/evidence  is bind-mounted from <clone-dir>.evidence   (so mutated runs never overwrite real evidence)
#   /verif/replays   is bind-mounted from <clone-dir>.replays
# so that seeded changes can be applied and checks run against them without touching
# the real /repo, and in parallel.  Nothing registered in MANIFEST.json uses this
# script: it is a development / seed-testing aid only.
set -e
clone="$1"; shift
mkdir -p "$clone.evidence" "$clone.replays"
exec unshare --mount bash -c 'mount --bind "$0" /repo && mount --bind "$0.evidence" /verif/evidence && mount --bind "$0.replays" /verif/replays && cd /verif && exec "$@"' "$clone" "$@"
