#!/bin/bash
# Runs /repo's own test suite with the `verif` build tag OFF, without dirtying
# /repo/go.mod (go -mod=mod inside /repo would rewrite it): a scratch copy of
# go.mod/go.sum is passed with -modfile.  Prints `go test -json` output.
export GOPROXY=off GOSUMDB=off GOTOOLCHAIN=local GOFLAGS=
mkdir -p /verif/.work
S=$(mktemp -d /verif/.work/baseline.XXXXXX)
cp /repo/go.mod "$S/go.mod"; cp /repo/go.sum "$S/go.sum"
cd /repo && go test -mod=mod -modfile="$S/go.mod" -json -vet=off -count=1 -timeout 25m ./...
rc=$?
rm -rf "$S"
exit $rc
