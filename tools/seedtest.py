#!/usr/bin/env python3
"""Seeded-change management.

  seedtest.py import <PID> <k> <seed-out-dir>     copy a seeding agent's output to /verif/seeded/<PID>-<k>/ (patch.diff, demo/, meta.json, demo.json)
  seedtest.py confirm <PID>-<k>                   in a scratch worktree of /repo's HEAD: demo passes without the patch, patch applies and
                                                  compiles, demo fails with it, baseline packages stay green; records the result in meta.json
  seedtest.py detect <PID>-<k> [--tier quick]     apply the patch to /repo, run the registered check, undo with `git apply -R`; records result
  seedtest.py table                               summary table (markdown) of all seeds
Never commits anything to /repo.
"""
import json
import os
import re
import shutil
import subprocess
import sys
import time

ROOT = os.path.dirname(os.path.dirname(os.path.abspath(__file__)))
SEEDED = os.path.join(ROOT, "seeded")
ENV = dict(os.environ, GOFLAGS="-mod=mod", GOPROXY="off", GOSUMDB="off", GOTOOLCHAIN="local")
BROKEN_PKGS = ("html/document", "html/layout", "/text\t", "webrender/text ")


def sh(cmd, cwd=None, timeout=3600):
    p = subprocess.run(cmd, cwd=cwd, shell=isinstance(cmd, str), env=ENV, timeout=timeout,
                       stdout=subprocess.PIPE, stderr=subprocess.STDOUT, text=True, errors="replace")
    return p.returncode, p.stdout


def cmd_import(pid, k, src):
    dst = os.path.join(SEEDED, "%s-%s" % (pid, k))
    if os.path.exists(dst):
        shutil.rmtree(dst)
    os.makedirs(dst)
    shutil.copy(os.path.join(src, "patch.diff"), dst)
    shutil.copytree(os.path.join(src, "demo"), os.path.join(dst, "demo"))
    meta = json.load(open(os.path.join(src, "meta.json")))
    meta["property"] = pid
    # normalised demo description
    demo = os.listdir(os.path.join(dst, "demo"))
    place, run = [], None
    tests = [f for f in demo if f.endswith("_test.go")]
    dirs = [f for f in demo if os.path.isdir(os.path.join(dst, "demo", f))]
    dc = meta.get("demo_cmd", "")
    if "helper.go" in demo and "rec.go" in demo:  # a whole test package
        for f in demo:
            if f.endswith(".go"):
                place.append([f, "zz_seed_demo/" + f])
        run = "go test -vet=off -count=1 ./zz_seed_demo/"
    elif dirs:
        d = dirs[0]
        for f in os.listdir(os.path.join(dst, "demo", d)):
            place.append([d + "/" + f, d + "/" + f])
        m = re.search(r"go run \./" + re.escape(d) + r"((?: +[A-Za-z0-9_-]+)*)", dc)
        extra = (m.group(1) if m else "").strip()
        extra = " ".join(w for w in extra.split() if w not in ("from", "with", "in", "at", "on", "and", "prints", "exit", "PASS", "FAIL"))
        run = ("go run ./" + d + " " + extra).strip()
        has_tests = any(f.endswith("_test.go") for f in os.listdir(os.path.join(dst, "demo", d)))
        if has_tests:
            run = "go test -vet=off -count=1 ./" + d + "/"
        for f in demo:
            if f.endswith(".html"):
                place.append([f, d + "/" + f])
        if "doc.html" in demo:
            run = "go run ./" + d + " " + d + "/doc.html"
    elif "main.go" in demo:
        for f in demo:
            if f.endswith(".go") and not f.endswith("_test.go"):
                place.append([f, "cmd_seed_demo/" + f])
        run = "go run ./cmd_seed_demo"
    elif tests:
        mr = re.search(r"-run[ =]+'?([A-Za-z0-9_$^|]+)'?", dc)
        mp = re.search(r"go test[^\n]*?\s(\./[A-Za-z0-9_/]+)", dc)
        pkg = mp.group(1).rstrip("/") if mp else None
        if pkg is None:   # guess the package from the test file's package clause
            src = open(os.path.join(dst, "demo", tests[0])).read()
            pk = re.search(r"^package\s+(\w+)", src, re.M).group(1).replace("_test", "")
            pkg = {"tree": "./html/tree", "boxes": "./html/boxes", "parser": "./css/parser", "selector": "./css/selector",
                   "validation": "./css/validation", "svg": "./svg", "utils": "./utils", "matrix": "./matrix"}.get(pk)
        for t in [f for f in demo if f.endswith(".go")]:
            place.append([t, pkg.lstrip("./") + "/" + t])
        run = "go test -vet=off -count=1 %s %s/" % (("-run " + mr.group(1)) if mr else "", pkg)
    meta["demo_norm"] = {"place": place, "run": run}
    json.dump(meta, open(os.path.join(dst, "meta.json"), "w"), indent=1)
    print("imported", dst, meta["demo_norm"])


def load(sid):
    d = os.path.join(SEEDED, sid)
    return d, json.load(open(os.path.join(d, "meta.json")))


def save(d, meta):
    json.dump(meta, open(os.path.join(d, "meta.json"), "w"), indent=1)


def place_demo(d, meta, wt):
    for src, dst in meta["demo_norm"]["place"]:
        os.makedirs(os.path.dirname(os.path.join(wt, dst)), exist_ok=True)
        shutil.copy(os.path.join(d, "demo", src), os.path.join(wt, dst))


def remove_demo(meta, wt):
    for src, dst in meta["demo_norm"]["place"]:
        p = os.path.join(wt, dst)
        if os.path.exists(p):
            os.remove(p)
        dd = os.path.dirname(p)
        if os.path.isdir(dd) and not os.listdir(dd):
            os.rmdir(dd)


def baseline_ok(wt):
    rc, out = sh("go test -vet=off -count=1 ./... 2>&1 | grep -E '^(ok|FAIL|---|panic)' ", cwd=wt, timeout=3000)
    bad = [l for l in out.splitlines() if l.startswith("FAIL") and l.strip() != "FAIL" and not any(b in l + " " for b in ("html/document", "html/layout", "webrender/text\t", "webrender/text "))]
    bad = [l for l in bad if not re.search(r"webrender/text(\s|$)", l)]
    fails = [l for l in out.splitlines() if l.startswith("--- FAIL")]
    return (not bad and not fails), out


def cmd_confirm(sid):
    d, meta = load(sid)
    wt = "/tmp/seedconfirm-%s-%d" % (sid, os.getpid())
    sh(["git", "-C", "/repo", "worktree", "add", "--detach", wt, "HEAD"])
    res = {}
    try:
        place_demo(d, meta, wt)
        rc0, out0 = sh(meta["demo_norm"]["run"], cwd=wt)
        res["demo_without_patch"] = "pass" if rc0 == 0 else "FAIL(rc=%d)" % rc0
        rca, outa = sh(["git", "apply", os.path.join(d, "patch.diff")], cwd=wt)
        res["patch_applies_to_head"] = rca == 0
        if rca == 0:
            rcb, outb = sh("go build ./... && go build -tags verif ./...", cwd=wt)
            res["compiles"] = rcb == 0
            rc1, out1 = sh(meta["demo_norm"]["run"], cwd=wt)
            res["demo_with_patch"] = "fail" if rc1 != 0 else "PASSES(unexpected)"
            res["demo_with_patch_tail"] = out1[-600:]
            remove_demo(meta, wt)
            ok, outt = baseline_ok(wt)
            res["baseline_with_patch"] = "green" if ok else "RED"
            if not ok:
                res["baseline_tail"] = outt[-1500:]
        else:
            res["apply_error"] = outa[-500:]
        res["head"] = sh(["git", "-C", "/repo", "rev-parse", "--short", "HEAD"])[1].strip()
    finally:
        sh(["git", "-C", "/repo", "worktree", "remove", "--force", wt])
    res["confirmed"] = bool(res.get("demo_without_patch") == "pass" and res.get("patch_applies_to_head") and res.get("compiles")
                            and res.get("demo_with_patch") == "fail" and res.get("baseline_with_patch") == "green")
    meta["confirm"] = res
    save(d, meta)
    print(sid, json.dumps({k: v for k, v in res.items() if "tail" not in k}))


def cmd_detect(sid, tier="quick", pid_override=None):
    """apply the seed in a private clone of /repo and run the registered check against it
    (mount namespace: tools/inrepo.sh); the real /repo and the real evidence are never touched."""
    d, meta = load(sid)
    pid = pid_override or meta["property"]
    patch = os.path.join(d, "patch.diff")
    clone = "/tmp/seeddetect-%s-%s-%d" % (sid, pid, os.getpid())
    sh(["rm", "-rf", clone, clone + ".evidence", clone + ".replays"])
    sh(["git", "clone", "-q", "/repo", clone])
    try:
        rc, out = sh(["git", "-C", clone, "apply", patch])
        if rc != 0:
            print(sid, "patch does not apply to /repo HEAD:", out[-300:])
            return
        t0 = time.time()
        rc, out = sh([os.path.join(ROOT, "tools", "inrepo.sh"), clone, "python3", "verif.py", "check", pid, "--tier", tier], cwd=ROOT, timeout=7200)
        viol = [l for l in out.splitlines() if l.startswith("VIOLATION")]
        first_replay = None
        m = re.search(r"replay=(\S+)", viol[0]) if viol else None
        if m:
            rp = os.path.join(clone + ".replays", os.path.basename(m.group(1)))
            if os.path.exists(rp):
                first_replay = open(rp).read()[:1500]
        meta.setdefault("detect", {})[pid + ":" + tier] = {
            "exit": rc, "violations": len(viol), "first": viol[:2], "wall_s": round(time.time() - t0, 1),
            "detected": rc != 0 and bool(viol), "no_failing_input_only": bool(viol) and all("no-failing-input-found" in v for v in viol),
            "first_replay_excerpt": first_replay, "repo_head": sh(["git", "-C", "/repo", "rev-parse", "--short", "HEAD"])[1].strip()}
        save(d, meta)
        print(sid, pid, tier, "exit", rc, "violations", len(viol), viol[:1])
    finally:
        sh(["rm", "-rf", clone, clone + ".evidence", clone + ".replays"])


def cmd_table():
    rows = []
    for sid in sorted(os.listdir(SEEDED)):
        p = os.path.join(SEEDED, sid, "meta.json")
        if not os.path.exists(p):
            continue
        m = json.load(open(p))
        det = m.get("detect", {})
        dets = "; ".join("%s=%s" % (k, "DETECTED" if v["detected"] else "missed") for k, v in det.items()) or "-"
        rows.append("| %s | %s | %s | %s | %s |" % (sid, ", ".join(m.get("files_changed", [])), (m.get("what_breaks") or m.get("title") or "")[:110].replace("|", "/"),
                                                 "yes" if m.get("confirm", {}).get("confirmed") else "no", dets))
    print("| seed | files | what breaks | confirmed | checks |\n|---|---|---|---|---|")
    print("\n".join(rows))


if __name__ == "__main__":
    a = sys.argv[1:]
    if a[0] == "import":
        cmd_import(a[1], a[2], a[3])
    elif a[0] == "confirm":
        cmd_confirm(a[1])
    elif a[0] == "detect":
        tier = "quick"
        if "--tier" in a:
            tier = a[a.index("--tier") + 1]
        po = a[a.index("--pid") + 1] if "--pid" in a else None
        cmd_detect(a[1], tier, po)
    elif a[0] == "table":
        cmd_table()
