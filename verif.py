#!/usr/bin/env python3
"""Orchestrator of the /verif checks.

  verif.py setup                      build everything from files on disk (offline)
  verif.py check Cxx [--tier quick|thorough] [--replay file]
  verif.py manifest                   regenerate MANIFEST.json from checks/*.py
  verif.py make [targets]             locked `make -j16` in coq/ (e.g. theories/Properties/C17.vo)
"""
import argparse
import importlib.util
import json
import os
import sys

ROOT = os.path.dirname(os.path.abspath(__file__))
sys.path.insert(0, ROOT)
from lib import corr  # noqa: E402


def load_check(pid):
    path = os.path.join(ROOT, "checks", pid + ".py")
    spec = importlib.util.spec_from_file_location("check_" + pid, path)
    mod = importlib.util.module_from_spec(spec)
    spec.loader.exec_module(mod)
    return mod


def all_checks():
    out = []
    for f in sorted(os.listdir(os.path.join(ROOT, "checks"))):
        if f.endswith(".py") and f[0] == "C":
            out.append(f[:-3])
    return out


def cmd_setup(args):
    os.makedirs(corr.WORK, exist_ok=True)
    rc, out = corr.coq_make(["-k"], timeout=7000)
    print(out[-3000:])
    if rc != 0:
        print("setup: coq build failed (checks will report it per property)")
    for pid in all_checks():
        mod = load_check(pid)
        h = mod.SPEC.get("harness")
        if h:
            rc2, out2 = corr.go_build("./cmd/" + h, os.path.join(corr.WORK, "bin", pid.lower()))
            print("go build %s: %s" % (h, "ok" if rc2 == 0 else out2[-2000:]))
    return 0


def cmd_make(args):
    rc, out = corr.coq_make(args.targets)
    print(out[-6000:])
    return rc


def cmd_check(args):
    mod = load_check(args.pid)
    tier = args.tier or os.environ.get("VERIF_TIER") or "quick"
    if hasattr(mod, "run"):
        return mod.run(tier, args.replay)
    return corr.run_check(mod.SPEC, tier, args.replay)


def cmd_manifest(args):
    checks = []
    for pid in all_checks():
        mod = load_check(pid)
        m = mod.MANIFEST
        checks.append({
            "property_id": pid,
            "quick_cmd": "python3 verif.py check %s --tier quick" % pid,
            "thorough_cmd": "python3 verif.py check %s --tier thorough" % pid,
            "evidence_file": "/verif/evidence/%s.json" % pid,
            "replay_cmd_template": "python3 verif.py check %s --replay {path}" % pid,
            "engine": "coq-corr",
            "level_claimed": {"category": "proof", "text": m["text"], "design_ref": m.get("design_ref", "DESIGN.md section 5 (%s)" % pid)},
            "level_note": m["note"],
            "technique": m["technique"],
        })
    na_path = os.path.join(ROOT, "checks", "not_applicable.json")
    na = json.load(open(na_path)) if os.path.exists(na_path) else []
    claimed = {c["property_id"] for c in checks}
    na = [x for x in na if x["property_id"] not in claimed]
    listed = {x["property_id"] for x in na}
    for line in open(os.path.join(ROOT, "properties.jsonl")):
        pid = json.loads(line)["id"]
        if pid not in claimed and pid not in listed:
            na.append({"property_id": pid, "reason": "not claimed yet: the Coq model / correspondence check for this property is still under construction (no technical obstacle; see DESIGN.md section 5)"})
    hooks = json.load(open(os.path.join(ROOT, "checks", "hooks.json")))
    man = {
        "version": 1,
        "setup_cmd": "python3 verif.py setup",
        "hooks": hooks,
        "engines": [{"name": "coq-corr", "path": "/verif/lib/corr.py",
                     "serves_properties": sorted(claimed),
                     "kind_free_text": "Coq 8.16 theorems over executable Gallina models (coq/theories) + correspondence: Go harness (go/) runs /repo, the same cases are evaluated by the model inside Coq (vm_compute) and compared"}],
        "checks": checks,
        "not_applicable": na,
        "notes": "See DESIGN.md. Every check re-compiles its Properties/Cxx.v (Print Assumptions captured), rebuilds the Go harness against /repo's working tree with -tags verif, and evaluates the Coq model on the cases the implementation just ran.",
    }
    with open(os.path.join(ROOT, "MANIFEST.json"), "w") as f:
        json.dump(man, f, indent=1)
        f.write("\n")
    print("MANIFEST.json: %d checks, %d not_applicable" % (len(checks), len(na)))
    return 0


def main():
    ap = argparse.ArgumentParser()
    sub = ap.add_subparsers(dest="cmd", required=True)
    sub.add_parser("setup")
    c = sub.add_parser("check")
    c.add_argument("pid")
    c.add_argument("--tier", choices=["quick", "thorough"])
    c.add_argument("--replay")
    sub.add_parser("manifest")
    m = sub.add_parser("make")
    m.add_argument("targets", nargs="*")
    args = ap.parse_args()
    os.chdir(ROOT)
    rc = {"setup": cmd_setup, "check": cmd_check, "manifest": cmd_manifest, "make": cmd_make}[args.cmd](args)
    sys.exit(rc)


if __name__ == "__main__":
    main()
