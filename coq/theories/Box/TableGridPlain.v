(* Box/TableGridPlain.v -- the grid of a whole table computed from the table
   STRUCTURE alone: row groups (in document order, with the display type that
   decides header / footer) x rows x cells, each cell with its colspan /
   rowspan attribute.  Ports of

     NewTableCellBox, clamping of the span attributes   html/boxes/boxes_tree.go:400-424
     wrapTable, header / footer extraction and order     html/boxes/build.go:1212-1240
     wrapTable, grid loop over the row groups            html/boxes/build.go:1248-1294
       (Box/TableGrid.v instantiated on plain records: the occupancy sets
        of build.go:1253-1257 are created afresh for every group)
     grid width used by the auto table layout            html/layout/preferred.go:465-475

   Used by Check/C13.v: the implementation's GridX / Colspan / Rowspan of every
   cell are compared with this assignment, which never reads anything back
   from the implementation.  Model only: proofs in Box/TableGridPlainProofs.v. *)
From Verif Require Export Base.GoSem Box.TableGrid.
Open Scope Z_scope.

(* a cell: before the assignment pc_gridx is 0 and the spans are the clamped
   attributes; after it, the assigned column and the clipped rowspan *)
Record pcell := mkPC { pc_gridx : Z; pc_colspan : Z; pc_rowspan : Z }.
Definition pplace (c : pcell) (x r : Z) : pcell := mkPC x (pc_colspan c) r.
Definition prow := list pcell.

(* boxes_tree.go:400-410 on an attribute holding an integer, then 423-424 *)
Definition integer_attribute (v minimum : Z) : Z := if v <? minimum then minimum else v.
Definition colspan_of_attr (v : Z) : Z := Z.min (integer_attribute v 1) 1000.
Definition rowspan_of_attr (v : Z) : Z := Z.min (integer_attribute v 0) 65534.
Definition cell_of_attrs (colspan rowspan : Z) : pcell :=
  mkPC 0 (colspan_of_attr colspan) (rowspan_of_attr rowspan).

(* build.go:1249-1294 for one group *)
Definition assign_pgroup (rows : list prow) : res (list prow) :=
  assign_group pcell prow pc_colspan pc_rowspan pplace (fun r => r) (fun _ cs => cs) rows.

(* display of a row group box *)
Inductive gkind := GBody | GHeader | GFooter.
Record pgroup := mkPG { pg_kind : gkind; pg_rows : list prow }.

(* build.go:1219-1231: the first table-header-group is the header, the first
   table-footer-group the footer, everything else a body, in document order *)
Fixpoint split_groups (gs : list pgroup) (header footer : option pgroup) (bodies_rev : list pgroup)
  : option pgroup * list pgroup * option pgroup :=
  match gs with
  | [] => (header, rev bodies_rev, footer)
  | g :: r =>
      match pg_kind g, header, footer with
      | GHeader, None, _ => split_groups r (Some g) footer bodies_rev
      | GFooter, _, None => split_groups r header (Some g) bodies_rev
      | _, _, _ => split_groups r header footer (g :: bodies_rev)
      end
  end.

Definition opt_list {A} (o : option A) : list A := match o with Some a => [a] | None => [] end.

(* build.go:1233-1240 *)
Definition order_groups (gs : list pgroup) : list pgroup :=
  let '(h, bodies, f) := split_groups gs None None [] in
  opt_list h ++ bodies ++ opt_list f.

(* build.go:1249: every group on its own *)
Fixpoint assign_groups (gs : list pgroup) : res (list (list prow)) :=
  match gs with
  | [] => Ok []
  | g :: r =>
      let* g' := assign_pgroup (pg_rows g) in
      let* r' := assign_groups r in
      Ok (g' :: r')
  end.

Definition table_grid (gs : list pgroup) : res (list (list prow)) :=
  assign_groups (order_groups gs).

(* preferred.go:465-475 (also build.go:1290 without the columns): the number
   of columns the cells need *)
Definition grid_width (groups : list (list prow)) : Z :=
  fold_left (fun m g =>
    fold_left (fun m r =>
      fold_left (fun m c => Z.max m (pc_gridx c + pc_colspan c)) r m) g m) groups 0.

(* a row of cells laid side by side from column x, no cell spanning rows *)
Fixpoint pack (x : Z) (cs : list pcell) : list pcell :=
  match cs with
  | [] => []
  | c :: r => pplace c x 1 :: pack (x + pc_colspan c) r
  end.
