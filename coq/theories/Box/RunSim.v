(* Box/RunSim.v -- cokR (Box/RunInv.v) only depends on the children up to
   Box/BoxSim.sim, running children being returned unchanged by the passes. *)
From Verif Require Import Box.BoxGen Box.BoxWf Box.BoxBasics Box.BoxInv Box.TableFixupProofs Box.BoxSim Box.RunInv.
From Coq Require Import Lia.
Open Scope Z_scope.

Lemma sim_running c c' : sim c c' -> running c' = running c.
Proof. intros H. unfold running. rewrite (sim_at _ _ H). reflexivity. Qed.
Lemma sim_rtab c c' : sim c c' -> rtab c' = rtab c.
Proof. intros H. unfold rtab. rewrite (sim_running _ _ H), (sim_ty _ _ H). reflexivity. Qed.

(* what a pass does to a child: same shape, and identical if running *)
Definition simR (c c' : box) : Prop := sim c c' /\ (running c = true -> c' = c).

Lemma simR_refl c : simR c c.
Proof. split; [apply sim_refl|auto]. Qed.

Lemma Forall2_simR_sim l l' : Forall2 simR l l' -> Forall2 sim l l'.
Proof. induction 1; constructor; auto. destruct H; assumption. Qed.

Lemma sim_nonrun l l' : Forall2 sim l l' -> Forall2 sim (nonrun l) (nonrun l').
Proof.
  induction 1 as [|c c' l l' Hc Hl IH]; simpl; [constructor|].
  rewrite (sim_running _ _ Hc). destruct (negb (running c)); [constructor|]; assumption.
Qed.
Lemma sim_wrapper_okR tt l l' : Forall2 sim l l' -> wrapper_okR tt l' = wrapper_okR tt l.
Proof.
  intros H. unfold wrapper_okR.
  rewrite (sim_wrapper_children _ _ _ H), (sim_wrapper_children _ _ _ (sim_nonrun _ _ H)). reflexivity.
Qed.

Lemma cokR_sim st b l' :
  running b = false ->
  Forall2 simR (ch b) l' ->
  Forall (fun g => is RowGroupT g = true -> running g = false -> Forall (fun r => is RowT r = true) (ch g)) (ch b) ->
  cokR st (set_ch b l') = cokR st b.
Proof.
  intros Er HR Hg. pose proof (Forall2_simR_sim _ _ HR) as H. unfold cokR, run_sp. rewrite sp_set_ch. autorewrite with box.
  replace (mut_ok (set_ch b l')) with (mut_ok b) by (unfold mut_ok, is; autorewrite with box; reflexivity).
  replace (running (set_ch b l')) with (running b) by (unfold running; autorewrite with box; reflexivity).
  assert (Enk : no_kids l' = no_kids (ch b)) by (inversion H; reflexivity).
  assert (Ekf : kids_flowR l' = kids_flowR (ch b)).
  { unfold kids_flowR. apply (Forall2_forallb sim _ _ _ H). intros c c' Hc.
    rewrite (sim_ty _ _ Hc), (sim_rtab _ _ Hc). reflexivity. }
  assert (Ekb : kids_blockR l' = kids_blockR (ch b)).
  { unfold kids_blockR. apply (Forall2_forallb sim _ _ _ H). intros c c' Hc.
    rewrite (sim_ty _ _ Hc), (sim_rtab _ _ Hc). reflexivity. }
  assert (Eki : kids_inlineR l' = kids_inlineR (ch b)).
  { unfold kids_inlineR. apply (Forall2_forallb sim _ _ _ H). intros c c' Hc.
    rewrite (sim_ty _ _ Hc), (sim_in_flow _ _ Hc), (sim_rtab _ _ Hc). reflexivity. }
  assert (Esl : single_lineR l' = single_lineR (ch b)).
  { unfold single_lineR. inversion H as [|c c' l l2 Hc Hl]; subst; [reflexivity|].
    inversion Hl; subst; [|reflexivity]. rewrite (sim_is _ _ _ Hc), (sim_running _ _ Hc). reflexivity. }
  assert (Egg : forallb group_grid_ok (filter (is RowGroupT) l') = forallb group_grid_ok (filter (is RowGroupT) (ch b))).
  { clear -HR Hg. induction HR as [|c c' l l2 Hc Hl IH]; simpl; [reflexivity|].
    inversion Hg; subst. destruct Hc as [Hc Hrun]. rewrite (sim_is _ _ _ Hc).
    destruct (is RowGroupT c) eqn:E; [|apply IH; assumption].
    simpl. rewrite IH by assumption. f_equal.
    destruct (running c) eqn:Er; [rewrite Hrun by reflexivity; reflexivity|].
    apply sim_group_grid; [assumption|apply is_true_iff; assumption|auto]. }
  rewrite Er. cbn [negb orb].
  rewrite Enk, Ekf, Ekb, Eki, Esl, Egg, (sim_wrapper_okR _ _ _ H), (sim_wrapper_okR _ _ _ H),
    (sim_table_children _ _ H),
    (Forall2_forallb sim (is RowT) _ _ H (sim_is RowT)),
    (Forall2_forallb sim (is CellT) _ _ H (sim_is CellT)),
    (Forall2_forallb sim (is ColT) _ _ H (sim_is ColT)).
  reflexivity.
Qed.

Lemma cokR_rowgroup st g : cokR st g = true -> running g = false -> ty g = RowGroupT ->
  Forall (fun r => is RowT r = true) (ch g).
Proof.
  unfold cokR. intros H Hr E. rewrite Hr, E in H. simpl in H. bsplit. apply forallb_Forall. assumption.
Qed.

Lemma kids_groups_have_rowsR st l :
  Forall (fun c => treeR (cokR st) c = true) l ->
  Forall (fun g => is RowGroupT g = true -> running g = false -> Forall (fun r => is RowT r = true) (ch g)) l.
Proof.
  intros H. eapply Forall_impl; [|exact H]. intros g Ht Hg Hr.
  apply treeR_root in Ht. apply is_true_iff in Hg. eapply cokR_rowgroup; eassumption.
Qed.
