(* Box/RunFlexGrid.v -- FlexBoxes and GridBoxes on documents with running
   elements (stages 2 and 3 of Box/RunInv.v): Box/FlexGridProofs.v generalised. *)
From Verif Require Import Box.BoxGen Box.BoxWf Box.BoxBasics Box.BoxInv Box.TableFixupProofs Box.BoxSim
  Box.FlexGridProofs Box.RunInv Box.RunSim.
From Coq Require Import Lia.
Open Scope Z_scope.

Lemma cokR_stage_12 b : flex_container_t (ty b) = false -> cokR 2 b = cokR 1 b.
Proof. intros H. unfold cokR. destruct (ty b); try discriminate; reflexivity. Qed.
Lemma cokR_stage_23 b : grid_container_t (ty b) = false -> cokR 3 b = cokR 2 b.
Proof. intros H. unfold cokR. destruct (ty b); try discriminate; reflexivity. Qed.

Lemma treeR_leaf_stage st st' b : parent_t (ty b) = false -> treeR (cokR st) b = true -> treeR (cokR st') b = true.
Proof.
  intros Hp Ht. destruct (running b) eqn:Er; [eapply treeR_running_stage; eassumption|].
  apply treeR_inv in Ht; [|assumption]. destruct Ht as [Hk _].
  assert (Hnk : ch b = []).
  { unfold cokR in Hk. rewrite Er in Hk. destruct (ty b); try discriminate; bsplit; destruct (ch b); try discriminate; reflexivity. }
  apply treeR_intro; [|rewrite Hnk; constructor].
  unfold cokR in *. destruct (ty b); try discriminate; assumption.
Qed.

Lemma cokR_ext st b b' :
  ty b' = ty b -> at_ b' = at_ b -> ch b' = ch b -> is_wrap (mu b') = is_wrap (mu b) ->
  mut_ok b' = mut_ok b -> sp b' = sp b -> cokR st b' = cokR st b.
Proof. intros H1 H2 H3 H4 H5 H6. unfold cokR, run_sp, running, is. rewrite H1, H2, H3, H4, H5, H6. reflexivity. Qed.
Lemma treeR_ext st b b' :
  ty b' = ty b -> at_ b' = at_ b -> ch b' = ch b -> is_wrap (mu b') = is_wrap (mu b) ->
  mut_ok b' = mut_ok b -> sp b' = sp b -> treeR (cokR st) b' = treeR (cokR st) b.
Proof.
  intros H1 H2 H3 H4 H5 H6. rewrite !treeR_unfold, H3. replace (running b') with (running b) by (unfold running; rewrite H2; reflexivity). f_equal. apply cokR_ext; assumption.
Qed.
Lemma treeR_set_flexitem st c v : treeR (cokR st) (set_flexitem c v) = treeR (cokR st) c.
Proof. destruct c as [t a m l]. apply treeR_ext; reflexivity. Qed.
Lemma treeR_set_griditem st c v : treeR (cokR st) (set_griditem c v) = treeR (cokR st) c.
Proof. destruct c as [t a m l]. apply treeR_ext; reflexivity. Qed.

Lemma tree_sp_set_griditem c v : tree sp (set_griditem c v) = tree sp c.
Proof. destruct c; reflexivity. Qed.
Lemma tree_sp_set_flexitem c v : tree sp (set_flexitem c v) = tree sp c.
Proof. destruct c; reflexivity. Qed.

Lemma attrs_okR_anon a : attrs_okR a = true -> attrs_okR (anon_attrs a) = true.
Proof. unfold attrs_okR. simpl. auto. Qed.

Lemma treeR_anon_block st p c :
  (st < 4)%nat -> attrs_okR (at_ p) = true -> treeR (cokR st) c = true -> flow_t (ty c) = true ->
  treeR (cokR st) (set_flexitem (anon_from BlockT p [c]) true) = true.
Proof.
  intros Hst Ha Hc Hf. rewrite treeR_set_flexitem. apply treeR_intro.
  - unfold cokR, anon_from. cbn [ty at_ mu ch new_mut mut0 is_wrap]. cbv zeta.
    rewrite (attrs_okR_anon _ Ha). rewrite mut_ok_noncell by discriminate.
    replace (4 <=? st)%nat with false by (symmetry; apply Nat.leb_gt; lia).
    unfold kids_flowR. simpl. rewrite Hf. reflexivity.
  - simpl. constructor; [assumption|constructor].
Qed.

Lemma rtab_not_inline c : rtab c = true -> inline_level_t (ty c) = false.
Proof. unfold rtab. intros H. bsplit. destruct (ty c); try discriminate; reflexivity. Qed.
Lemma rtab_not_text c : rtab c = true -> is TextT c = false.
Proof. unfold rtab, is. intros H. bsplit. destruct (ty c); try discriminate; reflexivity. Qed.

Lemma flex_children_specR b l l1 :
  flex_container_t (ty b) = true -> attrs_okR (at_ b) = true ->
  Forall (fun c => treeR (cokR 2) c = true) l1 -> Forall2 sim l l1 -> kids_flowR l = true ->
  Forall (fun c => treeR (cokR 2) c = true /\ (block_flow_t (ty c) || rtab c) = true) (flex_children b l1).
Proof.
  intros Hb Ha Ht Hs Hk. unfold flex_children. rewrite Hb.
  unfold kids_flowR in Hk. apply forallb_Forall in Hk.
  revert Ht Hk. induction Hs as [|c c1 l l1 Hc Hl IH]; intros Ht Hk; simpl; [constructor|].
  inversion Ht; subst. inversion Hk; subst. apply Forall_app. split; [|apply IH; assumption].
  set (c2 := if negb (abspos c1) then set_flexitem c1 true else c1).
  assert (E2 : ty c2 = ty c1 /\ treeR (cokR 2) c2 = true /\ at_ c2 = at_ c1).
  { unfold c2. destruct (negb (abspos c1)); [|auto].
    rewrite ty_set_flexitem, treeR_set_flexitem, at_set_flexitem. auto. }
  destruct E2 as (E2a & E2b & E2c).
  assert (Hrt : rtab c2 = rtab c).
  { unfold rtab, running. rewrite E2a, E2c, (sim_ty _ _ Hc), (sim_at _ _ Hc). reflexivity. }
  match goal with H : (flow_t (ty c) || rtab c) = true |- _ => apply Bool.orb_true_iff in H; destruct H as [Hfl|Hfl] end.
  - assert (Hfl2 : flow_t (ty c2) = true) by (rewrite E2a, (sim_ty _ _ Hc); assumption).
    destruct (is TextT c2 && only_spaces c2); [constructor|].
    destruct (inline_level_t (ty c2)) eqn:Ei.
    + constructor; [|constructor]. split; [|reflexivity]. apply treeR_anon_block; auto.
    + constructor; [|constructor]. split; [assumption|]. rewrite (flow_split _ Hfl2 Ei). reflexivity.
  - rewrite <- Hrt in Hfl. rewrite (rtab_not_text _ Hfl), (rtab_not_inline _ Hfl). simpl.
    constructor; [|constructor]. split; [assumption|]. rewrite Hfl. apply Bool.orb_true_r.
Qed.

Lemma mut_ok_set_ch b l : mut_ok (set_ch b l) = mut_ok b.
Proof. unfold mut_ok, is. autorewrite with box. reflexivity. Qed.
Lemma running_set_ch b l : running (set_ch b l) = running b.
Proof. unfold running. autorewrite with box. reflexivity. Qed.

Theorem flex_typedR : forall b,
  treeR (cokR 1) b = true -> treeR (cokR 2) (flex_boxes b) = true /\ simR b (flex_boxes b).
Proof.
  induction b as [t a m l IH] using box_ind'. intros Ht.
  assert (Hfb : flex_boxes (Box t a m l) =
                if negb (parent_t t) || running (Box t a m l) then Box t a m l
                else set_ch (Box t a m l) (flex_children (Box t a m l) (map flex_boxes l))) by reflexivity.
  rewrite Hfb. destruct (running (Box t a m l)) eqn:Er.
  { rewrite Bool.orb_true_r. split; [eapply treeR_running_stage; eassumption|apply simR_refl]. }
  rewrite Bool.orb_false_r.
  destruct (parent_t t) eqn:Epar; simpl negb; cbv iota.
  2:{ split; [|apply simR_refl]. apply (treeR_leaf_stage 1); assumption. }
  apply treeR_inv in Ht; [|assumption]. destruct Ht as [Hk Hkids]. simpl ch in Hkids.
  assert (H1 : Forall (fun c => treeR (cokR 2) (flex_boxes c) = true /\ simR c (flex_boxes c)) l).
  { rewrite Forall_forall in *. intros c Hc. apply IH; auto. }
  assert (Ht1 : Forall (fun c => treeR (cokR 2) c = true) (map flex_boxes l)).
  { apply Forall_forall. intros c Hc. apply in_map_iff in Hc. destruct Hc as (c0 & <- & Hc0).
    rewrite Forall_forall in H1. apply H1. assumption. }
  assert (Hs1 : Forall2 simR l (map flex_boxes l)).
  { apply map_Forall2. eapply Forall_impl; [|exact H1]. intros c [_ E]; exact E. }
  pose proof (cokR_attrs _ _ Hk) as [Ha Hm]. simpl in Ha.
  assert (Hsim : forall l', sim (Box t a m l) (set_ch (Box t a m l) l') \/ True) by (intros; right; exact I).
  destruct (flex_container_t t) eqn:Efl.
  - assert (Hkf : kids_flowR l = true).
    { unfold cokR in Hk. rewrite Er in Hk. simpl in Hk. destruct t; try discriminate; simpl in Hk; bsplit; assumption. }
    pose proof (flex_children_specR (Box t a m l) l (map flex_boxes l) Efl Ha Ht1 (Forall2_simR_sim _ _ Hs1) Hkf) as Hfc.
    split.
    + apply treeR_intro; autorewrite with box.
      * unfold cokR. rewrite sp_set_ch, (proj1 (cokR_sp _ _ Hk)). rewrite run_sp_nonrun by (rewrite running_set_ch; assumption). rewrite running_set_ch, Er, mut_ok_set_ch. autorewrite with box. simpl ty. simpl at_. simpl mu.
        rewrite Ha, Hm.
        assert (Hkb : kids_blockR (flex_children (Box t a m l) (map flex_boxes l)) = true).
        { apply forallb_Forall. eapply Forall_impl; [|exact Hfc]. intros c [_ E]; exact E. }
        rewrite Hkb. unfold cokR in Hk. rewrite Er in Hk. simpl in Hk.
        destruct t; try discriminate; simpl in *; bsplit; brw; reflexivity.
      * eapply Forall_impl; [|exact Hfc]. intros c [E _]; exact E.
    + split; [|rewrite Er; discriminate]. apply sim_intro; autorewrite with box; try reflexivity.
      * unfold core_eq. tauto.
      * simpl. destruct t; try discriminate; intros; discriminate.
  - unfold flex_children. simpl ty. rewrite Efl.
    split.
    + apply treeR_intro; autorewrite with box; [|assumption].
      rewrite cokR_sim; [| assumption | simpl; assumption | simpl; eapply kids_groups_have_rowsR; eassumption].
      rewrite cokR_stage_12; assumption.
    + split; [|rewrite Er; discriminate]. apply sim_intro; autorewrite with box; try reflexivity.
      * unfold core_eq. tauto.
      * intros _. apply Forall2_simR_sim. assumption.
Qed.

(* ------------------------------------------------------------------ grid *)
Lemma grid_children_specR b l l1 :
  grid_container_t (ty b) = true ->
  Forall (fun c => treeR (cokR 3) c = true) l1 -> Forall2 sim l l1 -> kids_flowR l = true ->
  Forall (fun c => treeR (cokR 3) c = true /\ (block_flow_t (ty c) || rtab c) = true) (grid_children b l1).
Proof.
  intros Hb Ht Hs Hk. unfold grid_children. rewrite Hb.
  unfold kids_flowR in Hk. apply forallb_Forall in Hk.
  revert Ht Hk. induction Hs as [|c c1 l l1 Hc Hl IH]; intros Ht Hk; simpl; [constructor|].
  inversion Ht; subst. inversion Hk; subst. apply Forall_app. split; [|apply IH; assumption].
  set (c2 := if negb (abspos c1) then set_griditem c1 true else c1).
  assert (E2 : ty c2 = ty c1 /\ treeR (cokR 3) c2 = true /\ at_ c2 = at_ c1).
  { unfold c2. destruct (negb (abspos c1)); [|auto].
    rewrite ty_set_griditem, treeR_set_griditem, at_set_griditem. auto. }
  destruct E2 as (E2a & E2b & E2c).
  assert (Hrt : rtab c2 = rtab c).
  { unfold rtab, running. rewrite E2a, E2c, (sim_ty _ _ Hc), (sim_at _ _ Hc). reflexivity. }
  match goal with H : (flow_t (ty c) || rtab c) = true |- _ => apply Bool.orb_true_iff in H; destruct H as [Hfl|Hfl] end.
  - assert (Hfl2 : flow_t (ty c2) = true) by (rewrite E2a, (sim_ty _ _ Hc); assumption).
    destruct (is TextT c2 && only_spaces c2); [constructor|].
    destruct (inline_level_t (ty c2)) eqn:Ei.
    + constructor; [|constructor]. split; [|reflexivity].
      pose proof (treeR_root _ _ E2b) as Hk2. pose proof Hk2 as Hk2'. apply cokR_attrs in Hk2. destruct Hk2 as [Ha2 _].
      rewrite treeR_unfold. apply Bool.andb_true_iff. split.
      * unfold cokR.
        match goal with |- sp ?W && run_sp ?W && _ && _ && _ = true =>
          assert (Hs : sp W = true) by reflexivity; assert (Hr : run_sp W = true) end.
        { unfold run_sp, running. cbn [at_ ch a_run forallb]. destruct (a_run (at_ c2)) eqn:Erun; [|reflexivity]. simpl.
          rewrite tree_sp_set_griditem, (cokR_running_tree_sp 3 c2 Erun Hk2'). reflexivity. }
        rewrite Hs, Hr. cbn [andb].
        cbn [ty at_ mu ch mut0 is_wrap]. cbv zeta.
        rewrite mut_ok_noncell by (simpl; discriminate).
        assert (Ha' : attrs_okR (mkA (a_el (at_ c2)) (a_pseudo (at_ c2)) (a_anon (at_ c2)) (a_float (at_ c2))
                              (a_abs (at_ c2)) (a_run (at_ c2)) (a_wsc (at_ c2)) (a_disp (at_ c2)) (a_cap (at_ c2))
                              (a_colspan (at_ c2)) (a_rowspan (at_ c2)) (a_span (at_ c2)) []) = true) by exact Ha2.
        rewrite Ha'. unfold kids_flowR. simpl. rewrite ty_set_griditem, Hfl2. simpl. apply Bool.orb_true_r.
      * apply Bool.orb_true_iff. right. simpl. rewrite treeR_set_griditem, E2b. reflexivity.
    + constructor; [|constructor]. split; [assumption|]. rewrite (flow_split _ Hfl2 Ei). reflexivity.
  - rewrite <- Hrt in Hfl. rewrite (rtab_not_text _ Hfl), (rtab_not_inline _ Hfl). simpl.
    constructor; [|constructor]. split; [assumption|]. rewrite Hfl. apply Bool.orb_true_r.
Qed.

Theorem grid_typedR : forall b,
  treeR (cokR 2) b = true -> treeR (cokR 3) (grid_boxes b) = true /\ simR b (grid_boxes b).
Proof.
  induction b as [t a m l IH] using box_ind'. intros Ht.
  assert (Hfb : grid_boxes (Box t a m l) =
                if negb (parent_t t) || running (Box t a m l) then Box t a m l
                else set_ch (Box t a m l) (grid_children (Box t a m l) (map grid_boxes l))) by reflexivity.
  rewrite Hfb. destruct (running (Box t a m l)) eqn:Er.
  { rewrite Bool.orb_true_r. split; [eapply treeR_running_stage; eassumption|apply simR_refl]. }
  rewrite Bool.orb_false_r.
  destruct (parent_t t) eqn:Epar; simpl negb; cbv iota.
  2:{ split; [|apply simR_refl]. apply (treeR_leaf_stage 2); assumption. }
  apply treeR_inv in Ht; [|assumption]. destruct Ht as [Hk Hkids]. simpl ch in Hkids.
  assert (H1 : Forall (fun c => treeR (cokR 3) (grid_boxes c) = true /\ simR c (grid_boxes c)) l).
  { rewrite Forall_forall in *. intros c Hc. apply IH; auto. }
  assert (Ht1 : Forall (fun c => treeR (cokR 3) c = true) (map grid_boxes l)).
  { apply Forall_forall. intros c Hc. apply in_map_iff in Hc. destruct Hc as (c0 & <- & Hc0).
    rewrite Forall_forall in H1. apply H1. assumption. }
  assert (Hs1 : Forall2 simR l (map grid_boxes l)).
  { apply map_Forall2. eapply Forall_impl; [|exact H1]. intros c [_ E]; exact E. }
  pose proof (cokR_attrs _ _ Hk) as [Ha Hm]. simpl in Ha.
  destruct (grid_container_t t) eqn:Efl.
  - assert (Hkf : kids_flowR l = true).
    { unfold cokR in Hk. rewrite Er in Hk. simpl in Hk. destruct t; try discriminate; simpl in Hk; bsplit; assumption. }
    pose proof (grid_children_specR (Box t a m l) l (map grid_boxes l) Efl Ht1 (Forall2_simR_sim _ _ Hs1) Hkf) as Hfc.
    split.
    + apply treeR_intro; autorewrite with box.
      * unfold cokR. rewrite sp_set_ch, (proj1 (cokR_sp _ _ Hk)). rewrite run_sp_nonrun by (rewrite running_set_ch; assumption). rewrite running_set_ch, Er, mut_ok_set_ch. autorewrite with box. simpl ty. simpl at_. simpl mu.
        rewrite Ha, Hm.
        assert (Hkb : kids_blockR (grid_children (Box t a m l) (map grid_boxes l)) = true).
        { apply forallb_Forall. eapply Forall_impl; [|exact Hfc]. intros c [_ E]; exact E. }
        rewrite Hkb. unfold cokR in Hk. rewrite Er in Hk. simpl in Hk.
        destruct t; try discriminate; simpl in *; bsplit; brw; reflexivity.
      * eapply Forall_impl; [|exact Hfc]. intros c [E _]; exact E.
    + split; [|rewrite Er; discriminate]. apply sim_intro; autorewrite with box; try reflexivity.
      * unfold core_eq. tauto.
      * simpl. destruct t; try discriminate; intros; discriminate.
  - unfold grid_children. simpl ty. rewrite Efl.
    split.
    + apply treeR_intro; autorewrite with box; [|assumption].
      rewrite cokR_sim; [| assumption | simpl; assumption | simpl; eapply kids_groups_have_rowsR; eassumption].
      rewrite cokR_stage_23; assumption.
    + split; [|rewrite Er; discriminate]. apply sim_intro; autorewrite with box; try reflexivity.
      * unfold core_eq. tauto.
      * intros _. apply Forall2_simR_sim. assumption.
Qed.

(* flex and grid containers hold only blockified items (running bare tables
   apart, which wf does not count), also in documents with running elements *)
Theorem flex_grid_items_blockifiedR : forall b,
  treeR (cokR 1) b = true -> treeR (cokR 3) (grid_boxes (flex_boxes b)) = true.
Proof. intros b H. apply grid_typedR. apply flex_typedR. assumption. Qed.
