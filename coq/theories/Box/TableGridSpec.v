(* Box/TableGridSpec.v -- SPECIFICATION vocabulary for the table grid
   (CSS 2.1 17.5, HTML table model): a cell occupies the rectangle of grid
   slots [x, x+w) x [y, y+h), y counted from the first row of its row group. *)
From Coq Require Import ZArith List Bool.
Import ListNotations.
Open Scope Z_scope.

Record slot := mkSlot { sx : Z; sy : Z; sw : Z; sh : Z }.

Definition covers (s : slot) (x y : Z) : Prop :=
  sx s <= x < sx s + sw s /\ sy s <= y < sy s + sh s.

(* two cells share a grid position *)
Definition overlap (s1 s2 : slot) : Prop := exists x y, covers s1 x y /\ covers s2 x y.

Definition slots_overlap (s1 s2 : slot) : bool :=
  (sx s1 <? sx s2 + sw s2) && (sx s2 <? sx s1 + sw s1) &&
  (sy s1 <? sy s2 + sh s2) && (sy s2 <? sy s1 + sh s1).

Fixpoint pairwise_disjoint (l : list slot) : bool :=
  match l with
  | [] => true
  | s :: r => forallb (fun s' => negb (slots_overlap s s')) r && pairwise_disjoint r
  end.

(* s1 covers a slot of the first column of s2 (the column on which s2 was
   anchored) *)
Definition anchor_hit (s1 s2 : slot) : bool :=
  (sx s1 <=? sx s2) && (sx s2 <? sx s1 + sw s1) &&
  (sy s1 <? sy s2 + sh s2) && (sy s2 <? sy s1 + sh s1).

(* document order: no cell covers the anchor column of a later cell *)
Fixpoint anchors_free (l : list slot) : bool :=
  match l with
  | [] => true
  | s :: r => forallb (fun s' => negb (anchor_hit s s')) r && anchors_free r
  end.

(* every cell lies in the grid of its group: 0 <= x, at least one row, and
   the rows it spans exist (rowspan clipped to the group) *)
Definition slot_in_group (nrows : Z) (s : slot) : bool :=
  (0 <=? sx s) && (1 <=? sh s) && (sy s + sh s <=? nrows).
