(* Box/RunBII.v -- BlockInInline on documents with running elements (stage 5
   of Box/RunInv.v): Box/BlockInInlineProofs.v generalised (partial
   correctness for every fuel). *)
From Verif Require Import Box.BoxGen Box.BoxWf Box.BoxBasics Box.BoxInv Box.TableFixupProofs Box.BoxSim
  Box.FlexGridProofs Box.InlineInBlockProofs Box.BlockInInlineProofs Box.RunInv Box.RunSim Box.RunFlexGrid Box.RunWf Box.RunIIB.
From Coq Require Import Lia.
Open Scope Z_scope.

Definition item5R (c : box) : Prop :=
  treeR (cokR 5) c = true /\
  (inline_flow_t (ty c) || (block_flow_t (ty c) && negb (in_flow c)) || rtab c) = true.
Definition blk5R (c : box) : Prop := treeR (cokR 5) c = true /\ (block_flow_t (ty c) || rtab c) = true.

(* a box BlockInInline is called on: running (returned as it is) or neither inline nor line *)
Definition bii_arg (c : box) : Prop := running c = true \/ (ty c <> InlineT /\ ty c <> LineT).

Definition bii_okR (f : nat) : Prop :=
  forall c c', treeR (cokR 4) c = true -> bii_arg c ->
               block_in_inline f c = Ok c' -> treeR (cokR 5) c' = true /\ simR c c'.

Definition inner_okR (inner : box -> stack -> res (box * option box * stack)) : Prop :=
  forall x st nb blk st',
    treeR (cokR 4) x = true -> running x = false -> ty x = InlineT \/ ty x = LineT ->
    inner x st = Ok (nb, blk, st') ->
    treeR (cokR 5) nb = true /\ ty nb = ty x /\ at_ nb = at_ x /\
    (forall k, blk = Some k -> treeR (cokR 4) k = true /\ block_flow_t (ty k) = true).

Lemma cokR5_line_like x kids :
  cokR 4 x = true -> running x = false -> ty x = InlineT \/ ty x = LineT -> Forall item5R kids ->
  treeR (cokR 5) (set_ch x kids) = true.
Proof.
  intros Hk Er Ht Hkids. apply treeR_intro; autorewrite with box.
  - pose proof (cokR_attrs _ _ Hk) as [Ha Hm].
    assert (Hki : kids_inlineR kids = true).
    { apply forallb_Forall. eapply Forall_impl; [|exact Hkids]. intros c [_ E]; exact E. }
    pose proof (cokR_sp _ _ Hk) as [Hsp _].
    unfold cokR in *. rewrite running_set_ch, mut_ok_set_ch, sp_set_ch. autorewrite with box.
    rewrite (run_sp_nonrun (set_ch x kids)) by (rewrite running_set_ch; assumption). rewrite Er in *.
    rewrite Ha, Hm, Hki, Hsp.
    destruct Ht as [Et|Et]; rewrite Et in *; simpl in *; bsplit; brw; reflexivity.
  - eapply Forall_impl; [|exact Hkids]. intros c [E _]; exact E.
Qed.

Lemma line_like_kids_flowR x :
  cokR 4 x = true -> running x = false -> ty x = InlineT \/ ty x = LineT ->
  Forall (fun c => (flow_t (ty c) || rtab c) = true) (ch x).
Proof.
  intros Hk Er [Et|Et]; unfold cokR in Hk; rewrite Er, Et in Hk; simpl in Hk; bsplit.
  - apply forallb_Forall. assumption.
  - match goal with H : kids_inlineR _ = true |- _ => apply forallb_Forall in H; rename H into Hi end.
    eapply Forall_impl; [|exact Hi]. intros c Hc. unfold flow_t. cbv beta in Hc. revert Hc.
    destruct (rtab c); [intros _; apply Bool.orb_true_r|]. rewrite !Bool.orb_false_r.
    destruct (inline_flow_t (ty c)); intros Hc; [apply Bool.orb_true_r|].
    rewrite Bool.orb_false_l in Hc. apply andb_true_split in Hc. destruct Hc as [Hc _]. rewrite Hc. reflexivity.
Qed.

Lemma in_flow_not_running c : in_flow c = true -> running c = false.
Proof.
  unfold in_flow, running. intros H. apply Bool.negb_true_iff in H.
  apply Bool.orb_false_iff in H. destruct H as [_ H]. exact H.
Qed.
Lemma running_not_in_flow c : running c = true -> in_flow c = false.
Proof. unfold in_flow, running. intros ->. rewrite Bool.orb_true_r. reflexivity. Qed.

Section InnerLoopR.
  Variable f : nat.
  Variable inner : box -> stack -> res (box * option box * stack).
  Hypothesis Hbii : bii_okR f.
  Hypothesis Hinner : inner_okR inner.

  Lemma inner_loop_specR x : forall children index skip resume new_rev nb blk st',
    Forall (fun c => treeR (cokR 4) c = true /\ (flow_t (ty c) || rtab c) = true) children ->
    Forall item5R new_rev ->
    inner_loop (block_in_inline f) inner x children index skip resume new_rev = Ok (nb, blk, st') ->
    (exists kids, nb = set_ch x kids /\ Forall item5R kids) /\
    (forall k, blk = Some k -> treeR (cokR 4) k = true /\ block_flow_t (ty k) = true).
  Proof.
    induction children as [|c children IH]; intros index skip resume new_rev nb blk st' Hc Hn H; simpl in H.
    - injection H as <- <- <-. split; [|intros k E; discriminate].
      exists (rev new_rev). split; [reflexivity|apply Forall_rev; assumption].
    - inversion Hc as [|? ? [Hct Hcf] Hc']; subst.
      destruct (flowR_facts c Hcf) as (Enl & Hout & Hinl & Hblk).
      destruct (block_level_t (ty c) && in_flow c) eqn:Eb.
      + destruct (negb (is_snil skip)); [discriminate|].
        injection H as <- <- <-. split.
        * exists (rev new_rev). split; [reflexivity|apply Forall_rev; assumption].
        * intros k E. injection E as <-. split; [assumption|].
          apply andb_true_split in Eb. destruct Eb as [Eb Ef].
          rewrite (rtab_nonrun _ (in_flow_not_running _ Ef)), Bool.orb_false_r in Hcf.
          rewrite <- (flow_block_level _ Hcf). assumption.
      + assert (Hoof : forall nc, ty nc = ty c -> at_ nc = at_ c ->
                  (inline_flow_t (ty nc) || (block_flow_t (ty nc) && negb (in_flow nc)) || rtab nc) = true).
        { intros nc E1 E2.
          assert (E3 : rtab nc = rtab c) by (unfold rtab, running; rewrite E1, E2; reflexivity).
          rewrite E1, E3. unfold in_flow. rewrite E2. fold (in_flow c).
          destruct (rtab c) eqn:Ert; [apply Bool.orb_true_r|]. rewrite Bool.orb_false_r in *.
          unfold flow_t in Hcf. destruct (inline_flow_t (ty c)) eqn:Ei; [reflexivity|].
          rewrite Bool.orb_false_r in Hcf. rewrite Hcf. simpl.
          rewrite (flow_block_level (ty c)) in Eb by (unfold flow_t; rewrite Hcf; reflexivity).
          rewrite Hcf in Eb. simpl in Eb. rewrite Eb. reflexivity. }
        apply bind_ok in H. destruct H as ([[[nc blk0] resume'] skip'] & Hstep & H).
        assert (Hnc : item5R nc /\ (forall k, blk0 = Some k -> treeR (cokR 4) k = true /\ block_flow_t (ty k) = true)).
        { destruct (is InlineT c && negb (running c)) eqn:Einl.
          - apply andb_true_split in Einl. destruct Einl as [Einl Enr]. apply is_true_iff in Einl.
            apply Bool.negb_true_iff in Enr.
            apply bind_ok in Hstep. destruct Hstep as ([[nc1 blk1] rs1] & Hin & Hstep).
            injection Hstep as <- <- <- <-.
            destruct (Hinner c skip nc1 blk1 rs1 Hct Enr (or_introl Einl) Hin) as (T1 & T2 & T3 & T4).
            split; [|assumption]. split; [assumption|]. apply Hoof; assumption.
          - destruct (negb (is_snil skip)); [discriminate|].
            apply bind_ok in Hstep. destruct Hstep as (nc1 & Hb & Hstep).
            injection Hstep as <- <- <- <-.
            assert (Harg : bii_arg c).
            { destruct (running c) eqn:Er; [left; exact Er|right].
              simpl in Einl. rewrite Bool.andb_true_r in Einl.
              split; apply is_false_iff; assumption. }
            destruct (Hbii c nc1 Hct Harg Hb) as [T1 [T2 _]].
            split; [|intros k E; discriminate]. split; [assumption|].
            apply Hoof; [apply (sim_ty _ _ T2)|apply (sim_at _ _ T2)]. }
        destruct Hnc as [Hnc Hblk0].
        destruct blk0 as [k0|].
        * injection H as <- <- <-. split; [|assumption].
          exists (rev (nc :: new_rev)). split; [reflexivity|]. apply Forall_rev. constructor; assumption.
        * eapply IH; [assumption| |exact H]. constructor; assumption.
  Qed.

  Lemma inner_body_specR : inner_okR (inner_body (block_in_inline f) inner).
  Proof.
    intros x st nb blk st' Ht Er Hty H.
    apply treeR_inv in Ht; [|assumption]. destruct Ht as [Hk Hkids].
    unfold inner_body in H.
    destruct (match st with SNil => (0, SNil) | SCons i r => (i, r) end) as [skip st0].
    apply bind_ok in H. destruct H as (tl & Hsl & H).
    assert (Htl : Forall (fun c => treeR (cokR 4) c = true /\ (flow_t (ty c) || rtab c) = true) tl).
    { unfold slice_from in Hsl. destruct ((skip <? 0) || (Z.of_nat (length (ch x)) <? skip)); [discriminate|].
      injection Hsl as <-.
      pose proof (line_like_kids_flowR x Hk Er Hty) as Hf.
      assert (Hall : Forall (fun c => treeR (cokR 4) c = true /\ (flow_t (ty c) || rtab c) = true) (ch x)) by (apply Forall_and; assumption).
      apply Forall_forall. intros c Hc. rewrite Forall_forall in Hall. apply Hall.
      rewrite <- (firstn_skipn (Z.to_nat skip) (ch x)). apply in_or_app. right. assumption. }
    destruct (inner_loop_specR x tl skip st0 SNil [] nb blk st' Htl (Forall_nil _) H) as [(kids & -> & Hkids5) Hb].
    split; [apply cokR5_line_like; assumption|]. autorewrite with box. auto.
  Qed.
End InnerLoopR.

Lemma inner_f_specR f : bii_okR f -> forall n, inner_okR (inner_f f n).
Proof.
  intros Hb. induction n as [|n IH].
  - intros x st nb blk st' _ _ _ H. discriminate.
  - simpl. apply inner_body_specR; assumption.
Qed.

Lemma blk5R_anon_line b nl :
  attrs_okR (at_ b) = true -> treeR (cokR 5) nl = true -> ty nl = LineT -> running nl = false ->
  blk5R (anon_from BlockT b [nl]).
Proof.
  intros Ha Hnl Et Er. split; [|reflexivity]. apply treeR_intro.
  - unfold cokR, anon_from. cbn [ty at_ mu ch new_mut mut0 is_wrap]. cbv zeta.
    rewrite (attrs_okR_anon _ Ha). rewrite mut_ok_noncell by discriminate. simpl.
    unfold is. rewrite Et, Er. simpl. rewrite ?Bool.orb_true_r. reflexivity.
  - simpl. constructor; [assumption|constructor].
Qed.

Lemma line_loop_specR f b : bii_okR f -> attrs_okR (at_ b) = true ->
  forall n line st acc out,
    treeR (cokR 4) line = true -> running line = false -> ty line = LineT -> Forall blk5R acc ->
    line_loop_f f b n line st acc = Ok out ->
    Forall (fun c => treeR (cokR 5) c = true) out /\ (kids_blockR out || single_lineR out) = true.
Proof.
  intros Hb Ha. induction n as [|n IH]; intros line st acc out Hl Er Et Hacc H; [discriminate|].
  simpl in H. apply bind_ok in H. destruct H as ([[nl blk] st'] & Hin & H).
  destruct (inner_f_specR f Hb f line st nl blk st' Hl Er (or_intror Et) Hin) as (T1 & T2 & T3 & T4).
  rewrite Et in T2.
  assert (Ernl : running nl = false) by (unfold running in *; rewrite T3; assumption).
  destruct blk as [k|].
  - apply bind_ok in H. destruct H as (k' & Hk & H).
    destruct (T4 k eq_refl) as [Hk4 Hkb].
    assert (Hk5 : blk5R k').
    { destruct (Hb k k' Hk4) as [U1 [U2 _]]; auto.
      - right. split; intros E; rewrite E in Hkb; discriminate.
      - split; [assumption|]. rewrite (sim_ty _ _ U2), Hkb. reflexivity. }
    eapply IH; [exact Hl|exact Er|exact Et| |exact H].
    constructor; [assumption|]. constructor; [|assumption]. apply blk5R_anon_line; assumption.
  - destruct acc as [|a0 acc].
    + injection H as <-. split; [constructor; [assumption|constructor]|].
      simpl. unfold is. rewrite T2, Ernl. simpl. rewrite ?Bool.orb_true_r. reflexivity.
    + injection H as <-.
      assert (Hall : Forall blk5R (anon_from BlockT b [nl] :: a0 :: acc)).
      { constructor; [apply blk5R_anon_line; assumption|assumption]. }
      apply Forall_rev in Hall. split.
      * eapply Forall_impl; [|exact Hall]. intros c [E _]; exact E.
      * apply Bool.orb_true_iff. left. apply forallb_Forall.
        eapply Forall_impl; [|exact Hall]. intros c [_ E]; exact E.
Qed.

(* a child that is handed to BlockInInline itself *)
Definition plain_kid (c : box) : Prop := bii_arg c /\ ty c <> LineT.

Lemma plain_of_type c : ty c <> InlineT -> ty c <> LineT -> plain_kid c.
Proof. intros H1 H2. split; [right; auto|assumption]. Qed.
Lemma plain_of_rtab c : rtab c = true -> plain_kid c.
Proof.
  unfold rtab. intros H. bsplit. split; [left; assumption|].
  intros E. match goal with H : table_t (ty c) = true |- _ => rewrite E in H; discriminate end.
Qed.

Lemma cokR4_kids b :
  cokR 4 b = true -> running b = false -> ty b <> InlineT -> ty b <> LineT ->
  (exists line, ch b = [line] /\ ty line = LineT /\ running line = false /\
                block_container_t (ty b) = true /\ is_wrap (mu b) = false) \/
  Forall plain_kid (ch b).
Proof.
  intros Hk Er Hi Hl.
  assert (Hblock : forall l, kids_blockR l = true -> Forall plain_kid l).
  { intros l H. apply forallb_Forall in H. eapply Forall_impl; [|exact H].
    intros c Hc. cbv beta in Hc. apply Bool.orb_true_iff in Hc. destruct Hc as [Hc|Hc]; [|apply plain_of_rtab; assumption].
    apply plain_of_type; intros E; rewrite E in Hc; discriminate. }
  assert (His : forall t l, t <> InlineT -> t <> LineT -> forallb (is t) l = true -> Forall plain_kid l).
  { intros t l H1 H2 H. apply forallb_Forall in H. eapply Forall_impl; [|exact H].
    intros c Hc. apply is_true_iff in Hc. apply plain_of_type; rewrite Hc; assumption. }
  assert (Hbc : forall l, (kids_blockR l || single_lineR l) = true ->
                 (exists line, l = [line] /\ ty line = LineT /\ running line = false) \/ Forall plain_kid l).
  { intros l H. apply Bool.orb_true_iff in H. destruct H as [H|H]; [right; auto|left].
    destruct l as [|x [|y l]]; try discriminate. simpl in H. bsplit. exists x.
    split; [reflexivity|]. split; [apply is_true_iff; assumption|apply Bool.negb_true_iff; assumption]. }
  assert (Hwr : forall tt l, tt = TableT \/ tt = InlineTableT -> wrapper_okR tt l = true -> Forall plain_kid l).
  { intros tt l Htt H0. unfold wrapper_okR in H0. apply andb_true_split in H0. destruct H0 as [H0 _]. revert H0.
    induction l as [|c l IHl]; simpl; [constructor|].
    destruct (is CaptionT c) eqn:Ec.
    - intros H. constructor; [|auto]. apply is_true_iff in Ec. apply plain_of_type; rewrite Ec; discriminate.
    - intros H. apply andb_true_split in H. destruct H as [H1 H2]. constructor.
      + apply is_true_iff in H1. apply plain_of_type; rewrite H1; destruct Htt as [-> | ->]; discriminate.
      + eapply His; [| |exact H2]; discriminate. }
  assert (Htc : forall l, table_children_ok l = true -> Forall plain_kid l).
  { induction l as [|c l IHl]; simpl; [constructor|].
    destruct (is ColGroupT c) eqn:Ec.
    - intros H. constructor; [|auto]. apply is_true_iff in Ec. apply plain_of_type; rewrite Ec; discriminate.
    - intros H. apply andb_true_split in H. destruct H as [H1 H2]. constructor.
      + apply is_true_iff in H1. apply plain_of_type; rewrite H1; discriminate.
      + eapply His; [| |exact H2]; discriminate. }
  unfold cokR in Hk. rewrite Er in Hk. simpl in Hk. destruct (ty b) eqn:Et; try congruence; simpl in Hk; bsplit;
    try (right; destruct (ch b); [constructor|discriminate]);
    try (right; eapply His; [| |eassumption]; discriminate);
    try (right; apply Hblock; assumption);
    try (right; apply Htc; assumption).
  - destruct (is_wrap (mu b)) eqn:Ew.
    + right. eapply Hwr; [|eassumption]. auto.
    + match goal with H : _ || _ = true |- _ => destruct (Hbc _ H) as [(line & E1 & E2 & E3)|Hf] end; [left|right; assumption].
      exists line. auto.
  - destruct (is_wrap (mu b)) eqn:Ew.
    + right. eapply Hwr; [|eassumption]. auto.
    + match goal with H : _ || _ = true |- _ => destruct (Hbc _ H) as [(line & E1 & E2 & E3)|Hf] end; [left|right; assumption].
      exists line. auto.
  - match goal with H : _ || _ = true |- _ => destruct (Hbc _ H) as [(line & E1 & E2 & E3)|Hf] end; [left|right; assumption].
    exists line. repeat split; auto.
    match goal with H : negb ?x = true |- ?x = false => apply Bool.negb_true_iff in H; exact H end.
  - match goal with H : _ || _ = true |- _ => destruct (Hbc _ H) as [(line & E1 & E2 & E3)|Hf] end; [left|right; assumption].
    exists line. repeat split; auto.
    match goal with H : negb ?x = true |- ?x = false => apply Bool.negb_true_iff in H; exact H end.
Qed.

Lemma go_f_plainR f b l : bii_okR f ->
  Forall (fun c => treeR (cokR 4) c = true /\ plain_kid c) l ->
  forall out, go_f f b l = Ok out ->
  Forall2 (fun c c' => treeR (cokR 5) c' = true /\ simR c c') l out.
Proof.
  intros Hb. induction 1 as [|c l (Hc1 & Hc2 & Hc3) Hl IH]; intros out H; simpl in H.
  - injection H as <-. constructor.
  - assert (E : is LineT c = false) by (apply is_false_iff; assumption). rewrite E in H.
    apply bind_ok in H. destruct H as (cs & Hcs & H).
    apply bind_ok in Hcs. destruct Hcs as (c' & Hc' & Hcs). injection Hcs as <-.
    apply bind_ok in H. destruct H as (r' & Hr & H). injection H as <-.
    simpl. constructor; [apply Hb; assumption|apply IH; assumption].
Qed.

Lemma cokR_stage_45 b : ty b <> InlineT -> cokR 5 b = cokR 4 b.
Proof. intros H. unfold cokR. destruct (ty b); try reflexivity. congruence. Qed.

Lemma bii_running f b b' : running b = true -> block_in_inline f b = Ok b' -> b' = b.
Proof.
  intros Er H. destruct f; [discriminate|]. rewrite bii_unfold in H.
  destruct (ch b); [congruence|]. rewrite Er in H. congruence.
Qed.

Theorem bii_typedR : forall f, bii_okR f.
Proof.
  induction f as [|f IHf]; intros b b' Ht Harg H; [discriminate|].
  destruct (running b) eqn:Er.
  { apply bii_running in H; [|assumption]. subst b'.
    split; [eapply treeR_running_stage; eassumption|apply simR_refl]. }
  destruct Harg as [Harg|[Hni Hnl]]; [congruence|].
  assert (HsR : forall x, sim b x -> simR b x) by (intros x Hx; split; [assumption|rewrite Er; discriminate]).
  rewrite bii_unfold in H.
  apply treeR_inv in Ht; [|assumption]. destruct Ht as [Hk Hkids].
  destruct (ch b) as [|c0 l0] eqn:Ech.
  { injection H as <-. split; [|apply simR_refl].
    apply treeR_intro; [|rewrite Ech; constructor]. rewrite cokR_stage_45; assumption. }
  rewrite <- Ech in *.
  rewrite Er in H.
  apply bind_ok in H. destruct H as (children & Hgo & H). injection H as <-.
  pose proof (cokR_attrs _ _ Hk) as [Ha Hm].
  destruct (cokR4_kids b Hk Er Hni Hnl) as [(line & El & Etl & Erl & Ebc & Ew)|Hplain].
  - rewrite El in Hgo. simpl in Hgo.
    assert (E : is LineT line = true) by (apply is_true_iff; assumption). rewrite E in Hgo.
    rewrite El in Hgo. simpl in Hgo.
    apply bind_ok in Hgo. destruct Hgo as (cs & Hcs & Hgo). injection Hgo as <-. rewrite app_nil_r.
    assert (Hline : treeR (cokR 4) line = true).
    { rewrite El in Hkids. inversion Hkids; assumption. }
    destruct (line_loop_specR f b IHf Ha f line SNil [] cs Hline Erl Etl (Forall_nil _) Hcs) as [T1 T2].
    split.
    + apply treeR_intro; autorewrite with box; [|assumption].
      unfold cokR. rewrite running_set_ch, mut_ok_set_ch, sp_set_ch. autorewrite with box.
      rewrite (proj1 (cokR_sp _ _ Hk)), (run_sp_nonrun (set_ch b cs)) by (rewrite running_set_ch; assumption).
      rewrite Ha, Hm, Ew, Er. simpl. rewrite T2.
      destruct (ty b); try discriminate; reflexivity.
    + apply HsR. apply sim_intro; autorewrite with box; try reflexivity; [unfold core_eq; tauto|].
      intros Hs. destruct (ty b); discriminate.
  - assert (Hall : Forall (fun c => treeR (cokR 4) c = true /\ plain_kid c) (ch b)).
    { apply Forall_and; assumption. }
    pose proof (go_f_plainR f b (ch b) IHf Hall children Hgo) as Hres.
    assert (HsimR : Forall2 simR (ch b) children) by (clear -Hres; induction Hres; constructor; tauto).
    assert (Htree : Forall (fun c => treeR (cokR 5) c = true) children) by (clear -Hres; induction Hres; constructor; tauto).
    split.
    + apply treeR_intro; autorewrite with box; [|assumption].
      rewrite cokR_sim; [|assumption|assumption|eapply kids_groups_have_rowsR; eassumption].
      rewrite cokR_stage_45; assumption.
    + apply HsR. apply sim_intro; autorewrite with box; try reflexivity; [unfold core_eq; tauto|].
      intros _. apply Forall2_simR_sim. assumption.
Qed.
