(* Box/ElementGen.v -- model of WHICH elements get boxes in elementToBox
   (/repo/html/boxes/build.go:193-344) and of where those boxes go: into the
   box tree or into the footnote list.  The boxes themselves (types, pseudo
   elements, text) are not modelled here: a box is represented by the element
   it belongs to.

     203-206  display == none: return nil        -- FIRST, before anything else
     208-214  float: footnote: the display is overwritten by footnote-display
              (so a footnote never has display none at makeBox)
     281-307  children in document order; a child whose first box has float:
              footnote is appended to the footnote list (after the footnotes
              generated inside it) and replaced in the tree by a
              ::footnote-call box of the PARENT element
     102-113  BuildFormattingStructure: a root element without box is given a
              block box anyway (rootStyleFor), every other element none

   Model only: proofs in Box/ElementGenProofs.v. *)
From Coq Require Export List ZArith Bool.
Export ListNotations.
Open Scope Z_scope.

(* an element: its identity, whether its computed display is none, whether its
   computed float is footnote, its child elements in document order *)
Inductive elem := El (id : Z) (none fnote : bool) (kids : list elem).
Definition e_id (e : elem) : Z := let 'El i _ _ _ := e in i.
Definition e_none (e : elem) : bool := let 'El _ n _ _ := e in n.
Definition e_fnote (e : elem) : bool := let 'El _ _ f _ := e in f.
Definition e_kids (e : elem) : list elem := let 'El _ _ _ k := e in k.

(* what elementToBox returns for an element: the elements of the boxes that stay
   in the tree under it (itself first), and the footnote list it appended: one
   entry per footnote box = the elements of the boxes of that footnote, its
   own element first *)
Definition gen := (list Z * list (list Z))%type.

(* 281-307: the loop over the children *)
Fixpoint merge (ks : list (bool * gen)) : gen :=
  match ks with
  | [] => ([], [])
  | (fn, (tk, nk)) :: r =>
      let '(tr, nr) := merge r in
      if fn then (tr, nk ++ match tk with [] => [] | _ => [tk] end ++ nr)     (* 291-306 *)
      else (tk ++ tr, nk ++ nr)
  end.

Fixpoint e2b (e : elem) : gen :=
  let 'El id none _ kids := e in
  if none then ([], [])                                                        (* 203-206 *)
  else let '(t, n) := merge (map (fun k => (e_fnote k, e2b k)) kids) in (id :: t, n).

(* 102-113 *)
Definition build (root : elem) : gen :=
  match e2b root with
  | ([], _) => ([e_id root], [])
  | r => r
  end.

(* every element for which some box exists *)
Definition gen_ids (g : gen) : list Z := fst g ++ concat (snd g).
(* the elements at the head of the footnote list entries *)
Definition note_roots (g : gen) : list Z := map (fun n => hd (-1) n) (snd g).

(* ---- specification, independent of the traversal above *)
Fixpoint all_ids (e : elem) : list Z := e_id e :: flat_map all_ids (e_kids e).
(* the display:none subtrees *)
Fixpoint hidden_ids (e : elem) : list Z :=
  if e_none e then all_ids e else flat_map hidden_ids (e_kids e).
(* the elements none of whose ancestors-or-self is display:none *)
Fixpoint visible_ids (e : elem) : list Z :=
  if e_none e then [] else e_id e :: flat_map visible_ids (e_kids e).
(* the visible float: footnote elements that are not the root, in document order
   of their END tags (a footnote is appended when its element is finished) *)
Fixpoint footnote_ids (top : bool) (e : elem) : list Z :=
  if e_none e then []
  else flat_map (footnote_ids false) (e_kids e) ++ (if e_fnote e && negb top then [e_id e] else []).
