(* Box/ElementGenProofs.v -- the boxes elementToBox generates (in the tree and in
   the footnote list) belong exactly to the elements outside the display:none
   subtrees; the footnote list holds the visible float: footnote elements in
   the order in which they end. *)
From Verif Require Import Box.ElementGen.
From Coq Require Import Lia.
Open Scope Z_scope.

Lemma elem_ind2 (P : elem -> Prop) :
  (forall id none fn kids, Forall P kids -> P (El id none fn kids)) -> forall e, P e.
Proof.
  intros H. fix IH 1. intros [id none fn kids]. apply H.
  induction kids as [|k r IHr]; constructor; [apply IH|exact IHr].
Qed.

Lemma in_gen_ids x (g : gen) : In x (gen_ids g) <-> In x (fst g) \/ exists n, In n (snd g) /\ In x n.
Proof.
  unfold gen_ids. rewrite in_app_iff, in_concat. split; intros [H|H]; auto;
    right; destruct H as (n & H1 & H2); exists n; auto.
Qed.

(* the loop over the children neither loses nor invents an element *)
Lemma merge_ids ks x :
  In x (gen_ids (merge ks)) <-> exists k, In k ks /\ In x (gen_ids (snd k)).
Proof.
  induction ks as [|[fn [tk nk]] r IH].
  - simpl. split; [intros []|intros (k & [] & _)].
  - cbn [merge]. destruct (merge r) as [tr nr] eqn:Er.
    assert (Hk : forall P : Prop, (In x tk \/ (exists n, In n nk /\ In x n)) \/ P <->
                                  In x (gen_ids (tk, nk)) \/ P).
    { intros P. rewrite (in_gen_ids x (tk, nk)). reflexivity. }
    assert (Hr : In x tr \/ (exists n, In n nr /\ In x n) <-> exists k, In k r /\ In x (gen_ids (snd k))).
    { rewrite <- IH. rewrite (in_gen_ids x (tr, nr)). reflexivity. }
    assert (Hgoal : In x (gen_ids (tk, nk)) \/ (exists k, In k r /\ In x (gen_ids (snd k))) <->
                    exists k, In k ((fn, (tk, nk)) :: r) /\ In x (gen_ids (snd k))).
    { split.
      - intros [H|(k & H1 & H2)]; [exists (fn, (tk, nk)); split; [left; reflexivity|exact H]|exists k; split; [right; exact H1|exact H2]].
      - intros (k & [<-|H1] & H2); [left; exact H2|right; exists k; auto]. }
    rewrite <- Hgoal, <- Hr, <- Hk.
    destruct fn.
    + rewrite in_gen_ids. cbn [fst snd]. split.
      * intros [H|(n & Hn & Hx)]; [right; left; exact H|].
        rewrite !in_app_iff in Hn. destruct Hn as [Hn|[Hn|Hn]].
        -- left. right. exists n. auto.
        -- destruct tk as [|a tk']; [destruct Hn|]. destruct Hn as [<-|[]]. left. left. exact Hx.
        -- right. right. exists n. auto.
      * intros [[H|(n & Hn & Hx)]|[H|(n & Hn & Hx)]].
        -- right. exists tk. split; [|exact H]. rewrite !in_app_iff. right. left.
           destruct tk; [destruct H|left; reflexivity].
        -- right. exists n. split; [|exact Hx]. rewrite !in_app_iff. left. exact Hn.
        -- left. exact H.
        -- right. exists n. split; [|exact Hx]. rewrite !in_app_iff. right. right. exact Hn.
    + rewrite in_gen_ids. cbn [fst snd]. rewrite in_app_iff. split.
      * intros [[H|H]|(n & Hn & Hx)]; [left; left; exact H|right; left; exact H|].
        rewrite in_app_iff in Hn. destruct Hn as [Hn|Hn]; [left; right|right; right]; exists n; auto.
      * intros [[H|(n & Hn & Hx)]|[H|(n & Hn & Hx)]].
        -- left. left. exact H.
        -- right. exists n. rewrite in_app_iff. auto.
        -- left. right. exact H.
        -- right. exists n. rewrite in_app_iff. auto.
Qed.

(* generated = visible *)
Theorem e2b_ids_visible : forall e x, In x (gen_ids (e2b e)) <-> In x (visible_ids e).
Proof.
  induction e as [id none fn kids IH] using elem_ind2. intros x.
  cbn [e2b visible_ids e_none e_id e_kids]. destruct none; [reflexivity|].
  destruct (merge (map (fun k => (e_fnote k, e2b k)) kids)) as [t n] eqn:Em.
  assert (Hm := merge_ids (map (fun k => (e_fnote k, e2b k)) kids) x). rewrite Em in Hm.
  rewrite in_gen_ids in Hm. rewrite in_gen_ids. cbn [fst snd] in *. cbn [In].
  rewrite in_flat_map.
  assert (Hk : (exists k, In k (map (fun k => (e_fnote k, e2b k)) kids) /\ In x (gen_ids (snd k))) <->
               exists k, In k kids /\ In x (visible_ids k)).
  { split.
    - intros (k & Hin & Hx). apply in_map_iff in Hin. destruct Hin as (k0 & <- & Hk0). exists k0. split; [exact Hk0|].
      rewrite Forall_forall in IH. apply IH; assumption.
    - intros (k & Hin & Hx). exists (e_fnote k, e2b k). split; [apply in_map_iff; exists k; auto|].
      rewrite Forall_forall in IH. apply IH; assumption. }
  rewrite <- Hk, <- Hm. tauto.
Qed.

Lemma visible_in_all e : forall x, In x (visible_ids e) -> In x (all_ids e).
Proof.
  induction e as [id none fn kids IH] using elem_ind2. intros x.
  cbn [visible_ids all_ids e_none e_id e_kids]. destruct none; [intros []|].
  intros [H|H]; [left; exact H|right]. rewrite in_flat_map in *. destruct H as (k & Hk & Hx).
  exists k. split; [exact Hk|]. rewrite Forall_forall in IH. apply IH; assumption.
Qed.

Lemma hidden_in_all e : forall x, In x (hidden_ids e) -> In x (all_ids e).
Proof.
  induction e as [id none fn kids IH] using elem_ind2. intros x.
  cbn [hidden_ids e_none e_kids]. destruct none; [tauto|].
  cbn [all_ids e_id e_kids]. intros H. right. rewrite in_flat_map in *. destruct H as (k & Hk & Hx).
  exists k. split; [exact Hk|]. rewrite Forall_forall in IH. apply IH; assumption.
Qed.

Lemma nodup_app_l (l1 l2 : list Z) : NoDup (l1 ++ l2) -> NoDup l1.
Proof.
  induction l1 as [|a r IH]; intros H; [constructor|]. cbn [app] in H. inversion H as [|? ? Hn Hd]; subst.
  constructor; [intros Hin; apply Hn; apply in_app_iff; left; exact Hin|apply IH; exact Hd].
Qed.
Lemma nodup_app_r (l1 l2 : list Z) : NoDup (l1 ++ l2) -> NoDup l2.
Proof. induction l1 as [|a r IH]; intros H; [exact H|]. cbn [app] in H. inversion H; subst. apply IH. assumption. Qed.

Lemma nodup_flat_map_in {A} (f : A -> list Z) (l : list A) :
  NoDup (flat_map f l) -> forall a b x, In a l -> In b l -> In x (f a) -> In x (f b) -> a = b.
Proof.
  induction l as [|c r IH]; intros Hnd a b x Ha Hb Hxa Hxb; [destruct Ha|].
  cbn [flat_map] in Hnd. pose proof (nodup_app_r _ _ Hnd) as Hr.
  assert (Hdis : forall y, In y (f c) -> ~ In y (flat_map f r)).
  { clear - Hnd. induction (f c) as [|z zs IHz]; intros y Hy; [destruct Hy|].
    cbn [app] in Hnd. inversion Hnd as [|? ? Hnz Hnd']; subst. destruct Hy as [<-|Hy].
    - intros Hin. apply Hnz. apply in_app_iff. right. exact Hin.
    - apply IHz; assumption. }
  destruct Ha as [<-|Ha], Hb as [<-|Hb]; [reflexivity| | |apply (IH Hr a b x); assumption].
  - exfalso. apply (Hdis x Hxa). apply in_flat_map. exists b. auto.
  - exfalso. apply (Hdis x Hxb). apply in_flat_map. exists a. auto.
Qed.

(* with distinct element identities no element is both visible and hidden *)
Theorem visible_hidden_disjoint : forall e, NoDup (all_ids e) ->
  forall x, In x (visible_ids e) -> In x (hidden_ids e) -> False.
Proof.
  induction e as [id none fn kids IH] using elem_ind2. intros Hnd x.
  cbn [visible_ids hidden_ids e_none e_id e_kids]. destruct none; [intros []|].
  cbn [all_ids e_id e_kids] in Hnd. inversion Hnd as [|? ? Hid Hnd']; subst.
  intros [<-|Hv] Hh.
  - apply Hid. apply in_flat_map in Hh. destruct Hh as (k & Hk & Hx). apply in_flat_map. exists k.
    split; [exact Hk|apply hidden_in_all; exact Hx].
  - apply in_flat_map in Hv, Hh. destruct Hv as (k1 & Hk1 & Hx1), Hh as (k2 & Hk2 & Hx2).
    assert (k1 = k2).
    { apply (nodup_flat_map_in all_ids kids Hnd' k1 k2 x Hk1 Hk2);
        [apply visible_in_all; exact Hx1|apply hidden_in_all; exact Hx2]. }
    subst k2. rewrite Forall_forall in IH. refine (IH k1 Hk1 _ x Hx1 Hx2).
    clear - Hnd' Hk1. induction kids as [|c r IHr]; [destruct Hk1|]. cbn [flat_map] in Hnd'.
    destruct Hk1 as [<-|Hk1]; [eapply nodup_app_l; exact Hnd'|apply IHr; [eapply nodup_app_r; exact Hnd'|exact Hk1]].
Qed.

(* "display:none subtrees generate no box": neither in the tree nor in the
   footnote list, whatever float / footnote-display say *)
Theorem e2b_display_none_no_box : forall e, NoDup (all_ids e) ->
  forall x, In x (hidden_ids e) -> ~ In x (fst (e2b e)) /\ Forall (fun n => ~ In x n) (snd (e2b e)).
Proof.
  intros e Hnd x Hh.
  assert (Hno : ~ In x (gen_ids (e2b e))).
  { intros Hg. apply e2b_ids_visible in Hg. exact (visible_hidden_disjoint e Hnd x Hg Hh). }
  rewrite in_gen_ids in Hno. split; [tauto|]. apply Forall_forall. intros n Hn Hx. apply Hno. right. exists n. auto.
Qed.

(* ---- the footnote list *)
Lemma e2b_fst_nil e : fst (e2b e) = [] <-> e_none e = true.
Proof.
  destruct e as [id none fn kids]. cbn [e2b e_none]. destruct none; [tauto|].
  destruct (merge _) as [t n]. cbn. split; discriminate.
Qed.

Lemma e2b_fst_hd e : e_none e = false -> hd (-1) (fst (e2b e)) = e_id e.
Proof.
  destruct e as [id none fn kids]. cbn [e2b e_none e_id]. intros ->. destruct (merge _) as [t n]. reflexivity.
Qed.

Lemma footnote_ids_top e :
  footnote_ids false e = footnote_ids true e ++ (if e_fnote e && negb (e_none e) then [e_id e] else []).
Proof.
  destruct e as [id none fn kids]. cbn [footnote_ids e_none e_fnote e_id e_kids]. destruct none; [rewrite andb_false_r; reflexivity|].
  rewrite !andb_true_r, andb_false_r, app_nil_r. reflexivity.
Qed.

Theorem e2b_note_roots : forall e, note_roots (e2b e) = footnote_ids true e.
Proof.
  induction e as [id none fn kids IH] using elem_ind2.
  cbn [e2b footnote_ids e_none e_fnote e_id e_kids]. destruct none; [reflexivity|].
  rewrite andb_false_r, app_nil_r.
  assert (Hm : note_roots (merge (map (fun k => (e_fnote k, e2b k)) kids)) = flat_map (footnote_ids false) kids).
  { induction kids as [|k r IHr]; [reflexivity|]. inversion IH as [|? ? Hk Hr]; subst.
    cbn [map merge flat_map]. destruct (e2b k) as [tk nk] eqn:Ek.
    destruct (merge (map (fun k0 => (e_fnote k0, e2b k0)) r)) as [tr nr] eqn:Er.
    specialize (IHr Hr). unfold note_roots in IHr, Hk |- *. cbn [snd] in IHr, Hk.
    rewrite footnote_ids_top, <- Hk.
    pose proof (e2b_fst_nil k) as Hnil. pose proof (e2b_fst_hd k) as Hhd. rewrite Ek in Hnil, Hhd. cbn [fst] in Hnil, Hhd.
    destruct (e_fnote k); cbn [snd andb].
    - rewrite !map_app, IHr. destruct (e_none k) eqn:En.
      + destruct Hnil as [_ Hnil]. rewrite (Hnil eq_refl). cbn. rewrite app_nil_r. reflexivity.
      + destruct tk as [|a tk']; [destruct Hnil as [Hnil _]; specialize (Hnil eq_refl); discriminate|].
        cbn [negb map hd]. specialize (Hhd eq_refl). cbn in Hhd. rewrite Hhd, <- app_assoc. reflexivity.
    - rewrite map_app, IHr, app_nil_r. reflexivity. }
  destruct (merge (map (fun k => (e_fnote k, e2b k)) kids)) as [t n]. exact Hm.
Qed.
