(* Box/RunningProofs.v -- CreateAnonymousBox on documents WITH position:
   running() elements (invariants: Box/RunInv.v; passes: Box/RunTableA/B.v,
   RunTableTotal.v, RunFlexGrid.v, RunIIB.v, RunBII.v, RunBIITotal.v; last
   step: RunWf.v).
   * "for every tree as elementToBox builds it, running elements included,
     CreateAnonymousBox returns a well-formed tree" is FALSE of the model:
     (1) with `mut_ok` (Colspan/Rowspan fields >= 0 on cells only) the grid
     assignment of wrapTable, which also runs on the unprocessed children of a
     running row / row group whatever their type, panics (build.go:1267) on a
     negative Rowspan field -- never the case on /repo (0 on non-cells);
     (2) a running root with display: table is returned as it is, a bare table
     (finding C09/running-root-element).
   * under `tree sp` (fields >= 0 everywhere) and `rtab t = false` (the root is
     not a running table) it holds: create_anonymous_wf_running. *)
From Verif Require Import Base.GoSem Box.BoxGen Box.BoxWf Box.BoxBasics Box.BoxInv Box.TableFixupProofs
  Box.BoxSim Box.BlockInInlineProofs Box.BlockInInlineTotal
  Box.RunInv Box.RunSim Box.RunFlexGrid Box.RunWf Box.RunIIB Box.RunBII Box.RunBIITotal Box.RunTableA Box.RunTableB Box.RunTableTotal.
From Coq Require Import ZArith List Bool.
Import ListNotations.
Open Scope Z_scope.

(* = Properties/C09.v iok_running *)
Definition iok_run (b : box) : bool :=
  (0 <=? a_colspan (at_ b)) && (0 <=? a_rowspan (at_ b)) && mut_ok b && negb (is_wrap (mu b)) &&
  negb (is LineT b) && (parent_t (ty b) || no_kids (ch b)).

Definition rbox (t : bty) (run : bool) (m : mut) (l : list box) : box :=
  Box t (mkA 0 0 false false false run true 0 0 1 1 1 []) m l.
(* a block with Rowspan field -1 inside a running row of a table *)
Definition running_witness : box :=
  rbox BlockT false mut0 [rbox TableT false mut0 [rbox RowGroupT false mut0 [rbox RowT true mut0
    [rbox BlockT false (mkM 0 0 (-1) false false false false false) []]]]].

Theorem create_anonymous_running_refuted :
  exists t, tree iok_run t = true /\ block_flow_t (result_ty (ty t)) = true /\
            create_anonymous t = Panic 1267%N.
Proof. exists running_witness. vm_compute. repeat split. Qed.

(* the same tree with Rowspan field 0 (what /repo has) is fixed up *)
Definition running_witness0 : box :=
  rbox BlockT false mut0 [rbox TableT false mut0 [rbox RowGroupT false mut0 [rbox RowT true mut0
    [rbox BlockT false mut0 []]]]].
Example create_anonymous_running_ok :
  tree iok_run running_witness0 = true /\ tree sp running_witness0 = true /\
  exists t', create_anonymous running_witness0 = Ok t' /\ wf_root t' = true.
Proof. split; [reflexivity|split; [reflexivity|]]. eexists. split; [vm_compute; reflexivity|reflexivity]. Qed.

(* a second counter-example, this one real (finding C09/running-root-element):
   position: running() on a root element with display: table -- every pass
   returns the root as it is, a bare table that is not in a wrapper *)
Definition running_root_table : box := rbox TableT true mut0 [].
Theorem create_anonymous_running_root_refuted :
  exists t, tree iok_run t = true /\ tree sp t = true /\ block_flow_t (result_ty (ty t)) = true /\
            create_anonymous t = Ok t /\ wf_root t = false.
Proof. exists running_root_table. vm_compute. repeat split. Qed.

Lemma tree_iokS_intro t : tree iok_run t = true -> tree sp t = true -> tree iokS t = true.
Proof.
  induction t as [ty0 a m l IH] using box_ind'. intros H1 H2.
  apply tree_inv in H1. destruct H1 as [Hi Hk]. apply tree_inv in H2. destruct H2 as [Hs Hks].
  apply tree_intro.
  - unfold iokS. rewrite Hs. change (iokR (Box ty0 a m l)) with (iok_run (Box ty0 a m l)). rewrite Hi. reflexivity.
  - simpl ch in *. rewrite Forall_forall in *. intros c Hc. apply IH; auto.
Qed.

(* CreateAnonymousBox with running elements: for every tree as elementToBox
   builds it (Colspan/Rowspan fields >= 0 everywhere) whose root generates a
   block-level box and is not a running table, it returns a well-formed tree *)
Theorem create_anonymous_wf_running : forall t,
  tree iok_run t = true -> tree sp t = true -> rtab t = false ->
  block_flow_t (result_ty (ty t)) = true ->
  exists t', create_anonymous t = Ok t' /\ wf_root t' = true.
Proof.
  intros t H1 H2 Hrt Hbf. pose proof (tree_iokS_intro t H1 H2) as Hin.
  destruct (atb_totalR t Hin) as [b1 E1].
  destruct (atb_typedR t b1 Hin E1) as [F1 Ty1].
  pose proof (fixed_treeR _ _ F1) as T1.
  destruct (flex_typedR b1 T1) as [T2 S2].
  destruct (grid_typedR _ T2) as [T3 S3].
  destruct (iib_totalR _ T3) as [b4 E4].
  destruct (iib_typedR _ b4 T3 E4) as [T4 S4].
  assert (Ety : ty b4 = ty b1).
  { rewrite (sim_ty _ _ (proj1 S4)), (sim_ty _ _ (proj1 S3)), (sim_ty _ _ (proj1 S2)). reflexivity. }
  assert (Hb1 : block_flow_t (ty b1) = true).
  { rewrite Ty1. unfold rtab in Hrt. destruct (running t); [|assumption].
    simpl in Hrt. destruct (ty t); simpl in *; try discriminate; reflexivity. }
  assert (Harg : bii_arg b4).
  { right. rewrite Ety. split; intros E; rewrite E in Hb1; discriminate. }
  destruct (bii_totalR (S (size b4)) b4 T4 Harg ltac:(lia)) as [t' E5].
  destruct (bii_typedR (S (size b4)) b4 t' T4 Harg E5) as [T5 S5].
  exists t'. split.
  - unfold create_anonymous. rewrite E1. cbn [bind]. rewrite E4. cbn [bind]. exact E5.
  - unfold wf_root. rewrite (sim_ty _ _ (proj1 S5)), Ety, Hb1. simpl. apply treeR_cok5_wf. assumption.
Qed.
