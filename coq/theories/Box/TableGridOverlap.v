(* Box/TableGridOverlap.v -- which cells of a row group can share a grid slot.
   Box/TableGridProofs.v shows that the slot assignment of wrapTable keeps
   every cell off the anchor column of the later cells, and that this is full
   disjointness when no cell spans columns.  Here the remaining case is pinned
   down: the ONLY way two cells of the assignment overlap is a cell with
   colspan > 1 whose columns run into a cell spanning down from a row above
   (it starts strictly left of that cell).  Check/C09.v evaluates the same
   predicate on /repo's tree, so that any other overlap is reported under a
   code of its own. *)
From Verif Require Import Base.GoSem Box.TableGrid Box.TableGridSpec Box.TableGridProofs.
From Coq Require Import ZArith List Bool Lia.
Import ListNotations.
Open Scope Z_scope.

(* a before b in document order: b, spanning columns, starts left of a which
   comes from a row above and spans rows *)
Definition colspan_over_rowspan (a b : slot) : bool :=
  (sy a <? sy b) && (1 <? sh a) && (1 <? sw b) && (sx b <? sx a).

Fixpoint overlaps_explained (l : list slot) : bool :=
  match l with
  | [] => true
  | a :: r => forallb (fun b => negb (slots_overlap a b) || colspan_over_rowspan a b) r && overlaps_explained r
  end.

(* document order of the slots of a group *)
Definition before (a b : slot) : Prop := sy a < sy b \/ (sy a = sy b /\ sx a + sw a <= sx b).
Fixpoint doc_ordered (l : list slot) : Prop :=
  match l with
  | [] => True
  | a :: r => Forall (before a) r /\ doc_ordered r
  end.

Lemma doc_ordered_app l1 l2 :
  doc_ordered l1 -> doc_ordered l2 -> Forall (fun a => Forall (before a) l2) l1 -> doc_ordered (l1 ++ l2).
Proof.
  induction l1 as [|a l1 IH]; simpl; intros H1 H2 H3; [assumption|].
  destruct H1 as [Ha H1]. inversion H3 as [|? ? Ha2 H3']; subst.
  split; [apply Forall_app; split; assumption|apply IH; assumption].
Qed.

Lemma explained_of_order l :
  doc_ordered l -> anchors_free l = true -> Forall (fun s => 0 <= sw s) l -> overlaps_explained l = true.
Proof.
  induction l as [|a l IH]; simpl; intros Hord Hfree Hw; [reflexivity|].
  destruct Hord as [Ha Hord]. apply andb_prop in Hfree. destruct Hfree as [Hfa Hfree].
  inversion Hw as [|? ? Hwa Hwl]; subst.
  rewrite (IH Hord Hfree Hwl), andb_true_r.
  apply forallb_forall. intros b Hb.
  rewrite Forall_forall in Ha. specialize (Ha b Hb).
  rewrite forallb_forall in Hfa. specialize (Hfa b Hb).
  destruct (slots_overlap a b) eqn:E; [|reflexivity]. simpl.
  unfold slots_overlap in E. unfold anchor_hit in Hfa. unfold colspan_over_rowspan. unfold before in Ha.
  lia.
Qed.

Section Overlap.
  Variables (cell row : Type).
  Variable colspan_of rowspan_of gridx_of : cell -> Z.
  Variable place : cell -> Z -> Z -> cell.
  Variable cells_of : row -> list cell.
  Variable set_cells : row -> list cell -> row.
  Hypothesis gridx_place : forall c x r, gridx_of (place c x r) = x.
  Hypothesis rowspan_place : forall c x r, rowspan_of (place c x r) = r.
  Hypothesis colspan_place : forall c x r, colspan_of (place c x r) = colspan_of c.
  Hypothesis cells_set : forall r cs, cells_of (set_cells r cs) = cs.

  Notation slot_of := (slot_of cell colspan_of rowspan_of gridx_of).
  Notation rows_slots := (rows_slots cell row colspan_of rowspan_of gridx_of cells_of).
  Notation row_placed := (row_placed cell colspan_of rowspan_of place).
  Notation rows_placed := (rows_placed cell row colspan_of rowspan_of gridx_of place cells_of set_cells).
  Notation spans_ok := (spans_ok cell colspan_of rowspan_of).
  Notation rows_spans_ok := (rows_spans_ok cell row colspan_of rowspan_of cells_of).

  (* the cells of one row: on row y, from x on, left to right without overlap *)
  Lemma row_placed_sorted P y below x cs out :
    row_placed P y below x cs out -> spans_ok cs ->
    let new := map (slot_of y) out in
    Forall (fun s => sy s = y /\ x <= sx s /\ 0 <= sw s) new /\ doc_ordered new.
  Proof.
    intros H. induction H as [x|x c cs gx out Hge Hfree Hocc Hclip Hrp IH]; intros Hsp; simpl.
    - split; constructor.
    - inversion Hsp as [|? ? [Hcs Hrs] Hsp']; subst.
      destruct (IH Hsp') as [Hall Hord].
      unfold TableGridProofs.slot_of at 1 3. rewrite gridx_place, colspan_place, rowspan_place.
      split.
      + constructor; [simpl; lia|].
        eapply Forall_impl; [|exact Hall]. simpl. intros s (H1 & H2 & H3). lia.
      + split; [|exact Hord].
        eapply Forall_impl; [|exact Hall]. intros s (H1 & H2 & H3). unfold before. simpl. right. lia.
  Qed.

  Lemma rows_placed_sorted P y n rows rows' :
    rows_placed P y n rows rows' -> rows_spans_ok rows ->
    Forall (fun s => y <= sy s /\ 0 <= sw s) (rows_slots y rows') /\ doc_ordered (rows_slots y rows').
  Proof.
    intros H. induction H as [P y n|P y n r rows cs rows' Hrow Hrest IH]; intros Hsp; simpl.
    - split; constructor.
    - inversion Hsp as [|? ? Hsp1 Hsp2]; subst.
      destruct (IH Hsp2) as [Hall Hord].
      destruct (row_placed_sorted _ _ _ _ _ _ Hrow Hsp1) as [Hrall Hrord].
      rewrite cells_set.
      split.
      + apply Forall_app. split.
        * eapply Forall_impl; [|exact Hrall]. simpl. intros s (H1 & H2 & H3). lia.
        * eapply Forall_impl; [|exact Hall]. simpl. intros s (H1 & H2). lia.
      + apply doc_ordered_app; [assumption|assumption|].
        apply Forall_forall. intros a Ha. rewrite Forall_forall in Hrall. destruct (Hrall a Ha) as (Hy & _ & _).
        eapply Forall_impl; [|exact Hall]. simpl. intros b (Hb & _). unfold before. left. lia.
  Qed.

  (* the only overlaps of the assignment: colspan over a row-spanning cell *)
  Theorem assign_group_overlaps rows rows' :
    rows_spans_ok rows ->
    assign_group cell row colspan_of rowspan_of place cells_of set_cells rows = Ok rows' ->
    overlaps_explained (rows_slots 0 rows') = true.
  Proof.
    intros Hsp H.
    destruct (assign_group_spec cell row colspan_of rowspan_of gridx_of place cells_of set_cells
                gridx_place rowspan_place colspan_place cells_set rows Hsp)
      as (out & Hout & Hrp & Hfree & _).
    rewrite H in Hout. inversion Hout; subst out. clear Hout.
    destruct (rows_placed_sorted _ _ _ _ _ Hrp Hsp) as [Hall Hord].
    apply explained_of_order; [assumption|assumption|].
    eapply Forall_impl; [|exact Hall]. simpl. intros s (_ & Hw). exact Hw.
  Qed.
End Overlap.
