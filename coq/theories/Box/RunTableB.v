(* Box/RunTableB.v -- AnonymousTableBoxes on documents with running elements,
   part 2 (wrapTable, tableBoxesChildren, the pass): Box/TableFixupProofs.v
   generalised to the invariants of Box/RunInv.v. *)
From Verif Require Import Box.BoxGen Box.BoxWf Box.BoxBasics Box.BoxInv Box.TableGridProofs Box.TableFixupProofs
  Box.BoxSim Box.RunInv Box.RunSim Box.RunFlexGrid Box.RunWf Box.RunTableA.
From Coq Require Import Lia.
Open Scope Z_scope.

Notation F1R := (fun c => fixedR 1 c = true).

Section WrapTable.
  Variable rec : box -> list box -> res box.
  Variable b : box.
  Hypothesis Hrec : forall wty l w', wrap_ty wty = true -> Forall F1R l ->
    rec (anon_from wty b []) l = Ok w' -> fixedR 1 w' = true /\ ty w' = result_ty wty.
  Hypothesis Hshell : shellR b = true.

  Lemma wrap_table_typedR children w :
    table_t (ty b) = true -> Forall (fun c => fixedR 1 c = true) children ->
    wrap_table rec b children = Ok w -> fixedR 1 w = true /\ ty w = result_ty (ty b).
  Proof.
    intros Htab Hch H. unfold wrap_table in H.
    apply bind_ok in H. destruct H as ([[cols rows] caps] & Hcl & H).
    destruct (classify_spec _ _ _ _ _ Hcl Hch) as (Hcols & Hrows & Hcaps).
    apply bind_ok in H. destruct H as (groups0 & Hg0 & H).
    apply bind_ok in H. destruct H as (groups & Hg & H).
    apply bind_ok in H. destruct H as (rgs0 & Hr0 & H).
    apply bind_ok in H. destruct H as (rgs & Hr & H).
    injection H as <-.
    (* column groups *)
    assert (Hgroups0 : Forall (fun g => fixedR 1 g = true /\ ty g = ColGroupT) groups0).
    { eapply (wrap_improper_out rec b ColGroupT (is ColGroupT) F1R
                (fun w => fixedR 1 w = true /\ ty w = ColGroupT)) in Hg0.
      - eapply Forall_impl; [|exact Hg0]. intros c [[H1 H2]|H1]; [|assumption].
        split; [assumption|apply is_true_iff; assumption].
      - intros l w' Hl Hw. apply (Hrec ColGroupT l w'); auto.
      - eapply Forall_impl; [|exact Hcols]. intros c [H1 _]. exact H1. }
    pose proof (number_groups_typedR 1 _ _ _ Hgroups0 Hg) as Hgroups.
    (* row groups *)
    assert (Hrgs0 : Forall (fun g => fixedR 1 g = true /\ ty g = RowGroupT) rgs0).
    { eapply (wrap_improper_out rec b RowGroupT (is RowGroupT) F1R
                (fun w => fixedR 1 w = true /\ ty w = RowGroupT)) in Hr0.
      - eapply Forall_impl; [|exact Hr0]. intros c [[H1 H2]|H1]; [|assumption].
        split; [assumption|apply is_true_iff; assumption].
      - intros l w' Hl Hw. apply (Hrec RowGroupT l w'); auto.
      - eapply Forall_impl; [|exact Hrows]. intros c [H1 _]. exact H1. }
    assert (Hrgs1 : Forall (fun g => fixedR 1 g = true /\ ty g = RowGroupT) (reorder_groups rgs0)).
    { apply reorder_groups_forall; [|assumption].
      intros g [H1 H2]. rewrite fixed_set_hdrR, fixed_set_ftrR. destruct g; auto. }
    apply mapM_ok in Hr.
    assert (Hrgs : Forall (fun g => treeR (cokR 1) g = true /\ ty g = RowGroupT /\ group_grid_ok g = true) rgs).
    { clear Hr0 Hrgs0. induction Hr as [|g g' l l' Hgg Hll IH]; [constructor|].
      inversion Hrgs1; subst. destruct H1 as [Hf Et]. constructor; [|apply IH; assumption].
      assert (Eis : is RowGroupT g = true) by (apply is_true_iff; assumption).
      destruct (box_assign_group_typedR 1 g g' (fixed_treeR _ _ Hf) Eis Hgg) as (T1 & T2 & T3 & _).
      apply is_true_iff in T2. auto. }
    (* assembly *)
    unfold shellR in Hshell. bsplit.
    match goal with H : negb (is_wrap (mu b)) = true |- _ => apply Bool.negb_true_iff in H; rename H into Hw end.
    match goal with H : attrs_okR (at_ b) = true |- _ => rename H into Ha end.
    match goal with H : sp b = true |- _ => rename H into Hsb end.
    match goal with H : negb (running b) = true |- _ => apply Bool.negb_true_iff in H; rename H into Hnr end.
    assert (Ha' : attrs_okR (table_attrs (at_ b)) = true /\ attrs_okR (wrapper_attrs (at_ b)) = true).
    { unfold attrs_okR in *. simpl. bsplit. brw. split; reflexivity. }
    destruct Ha' as [Hat Haw].
    set (table := Box (ty b) (table_attrs (at_ b)) (mu b) (groups ++ rgs)).
    assert (Ert : running table = false) by reflexivity.
    assert (Htable : treeR (cokR 1) table = true).
    { apply treeR_intro.
      - assert (Hg1 : Forall (fun c => ty c = ColGroupT) groups) by (eapply Forall_impl; [|exact Hgroups]; intros c [_ E]; exact E).
        assert (Hg2 : Forall (fun c => ty c = RowGroupT) rgs) by (eapply Forall_impl; [|exact Hrgs]; intros c (_ & E & _); exact E).
        assert (Hgg : forallb group_grid_ok rgs = true).
        { apply forallb_Forall. eapply Forall_impl; [|exact Hrgs]. intros c (_ & _ & E); exact E. }
        assert (Esp : sp table = true) by exact Hsb.
        unfold cokR. rewrite Esp, (run_sp_nonrun _ Ert), Ert. unfold table. cbn [ty at_ mu ch]. cbv zeta.
        rewrite mut_ok_noncell by (simpl; destruct (ty b); discriminate).
        rewrite Hat, Hw, (table_children_ok_intro _ _ Hg1 Hg2), (filter_rowgroups _ _ Hg1 Hg2), Hgg.
        destruct (ty b); try discriminate; reflexivity.
      - simpl. apply Forall_app. split.
        + eapply Forall_impl; [|exact Hgroups]. intros c [E _]. apply fixed_treeR. exact E.
        + eapply Forall_impl; [|exact Hrgs]. intros c (E & _). exact E. }
    assert (Hcap : forall f, Forall (fun c => treeR (cokR 1) c = true /\ ty c = CaptionT) (filter f caps)).
    { intros f. apply Forall_forall. intros c Hc. apply filter_In in Hc. destruct Hc as [Hc _].
      rewrite Forall_forall in Hcaps. destruct (Hcaps c Hc) as [Hx1 Hx2]. split; [apply fixed_treeR|]; assumption. }
    set (wty := if is InlineTableT b then InlineBlockT else BlockT).
    assert (Hwty : wty = result_ty (ty b) /\ (wty = BlockT \/ wty = InlineBlockT)).
    { unfold wty, is. destruct (ty b); try discriminate; simpl; auto. }
    destruct Hwty as [Hwty1 Hwty2].
    split; [|unfold set_wrap; simpl; assumption].
    set (c1 := filter (fun c => a_cap (at_ c) =? 0) caps) in *.
    set (c2 := filter (fun c => a_cap (at_ c) =? 1) caps) in *.
    unfold fixedR. simpl ty. replace (table_t wty) with false by (destruct Hwty2 as [-> | ->]; reflexivity).
    simpl negb. rewrite Bool.orb_true_r, Bool.andb_true_r. apply treeR_intro.
    - assert (Hcapty : forall l, Forall (fun c => treeR (cokR 1) c = true /\ ty c = CaptionT) l -> Forall (fun c => ty c = CaptionT) (nonrun l)).
      { intros l Hl. unfold nonrun. apply Forall_forall. intros c Hc. apply filter_In in Hc. destruct Hc as [Hc _].
        rewrite Forall_forall in Hl. apply (Hl c Hc). }
      assert (Hwok : wrapper_okR (ty b) (c1 ++ table :: c2) = true).
      { unfold wrapper_okR. apply andb_true_intro. split.
        - apply wrapper_children_ok_intro.
          + eapply Forall_impl; [|apply Hcap]. intros c [_ E]; exact E.
          + reflexivity.
          + destruct (ty b); discriminate.
          + eapply Forall_impl; [|apply Hcap]. intros c [_ E]; exact E.
        - unfold nonrun. rewrite filter_app. cbn [filter]. rewrite Ert. cbn [negb].
          apply wrapper_children_ok_intro.
          + apply (Hcapty c1). apply Hcap.
          + reflexivity.
          + destruct (ty b); discriminate.
          + apply (Hcapty c2). apply Hcap. }
      unfold cokR, set_wrap, run_sp, running, sp. cbn [ty at_ mu ch set_mu is_wrap wrapper_attrs a_run].
      fold (running b). rewrite Hnr. cbv zeta. cbn [negb orb].
      rewrite mut_ok_noncell by (simpl; destruct Hwty2 as [-> | ->]; discriminate).
      rewrite Haw. unfold wty in *. unfold is in *.
      destruct (ty b); try discriminate; simpl in *; assumption.
    - simpl. apply Forall_app. split; [eapply Forall_impl; [|apply Hcap]; intros c [E _]; exact E|].
      constructor; [assumption|]. eapply Forall_impl; [|apply Hcap]. intros c [E _]; exact E.
  Qed.
End WrapTable.

(* ------------------------------------------------------------------ tableBoxesChildren *)

Lemma tbc_unfoldR f b children :
  table_boxes_children (S f) b children =
  let rec := table_boxes_children f in
  let c2 := rule_1_4 None (rule_1_3 b (tbc_c0 b children)) in
  let* c3 := stage3 rec b c2 in
  let* c4 := stage4 rec b c3 in
  let* c5 := stage5 rec b c4 in
  if table_t (ty b) then wrap_table rec b c5 else Ok (set_ch b c5).
Proof. reflexivity. Qed.

Lemma tbc_c0_fixedR b children :
  attrs_okR (at_ b) = true -> Forall F1R children -> Forall F1R (tbc_c0 b children).
Proof.
  intros Ha H. unfold tbc_c0. destruct (is ColT b); [constructor|].
  destruct (is ColGroupT b); [|assumption].
  destruct (filter (is ColT) children) as [|c l] eqn:E.
  - apply Forall_forall. intros x Hx. apply repeat_spec in Hx. subst. apply fixed_anon_colR. assumption.
  - rewrite <- E. apply Forall_forall. intros x Hx. apply filter_In in Hx. destruct Hx as [Hx _].
    rewrite Forall_forall in H. auto.
Qed.

Lemma tbc_c0_colsR b children :
  is ColGroupT b = true -> Forall (fun c => is ColT c = true) (tbc_c0 b children).
Proof.
  intros Hb. unfold tbc_c0.
  assert (E : is ColT b = false).
  { apply is_true_iff in Hb. apply is_false_iff. congruence. }
  rewrite E, Hb.
  destruct (filter (is ColT) children) as [|c l] eqn:Ef.
  - apply Forall_forall. intros x Hx. apply repeat_spec in Hx. subst. reflexivity.
  - rewrite <- Ef. apply Forall_forall. intros x Hx. apply filter_In in Hx. tauto.
Qed.

Lemma ipp_otherR t c :
  table_t t = false -> t <> RowGroupT -> t <> ColGroupT -> in_proper_parents t c = false.
Proof. destruct t, c; simpl; intros; try reflexivity; try discriminate; congruence. Qed.

Section Stages.
  Variable rec : box -> list box -> res box.
  Variable b : box.
  Hypothesis Hrec : forall wty l w', wrap_ty wty = true -> Forall F1R l ->
    rec (anon_from wty b []) l = Ok w' -> fixedR 1 w' = true /\ ty w' = result_ty wty.

  Lemma stage_outR wty test l out :
    wrap_ty wty = true -> Forall F1R l -> wrap_improper rec b wty test l = Ok out ->
    Forall (fun c => fixedR 1 c = true /\ ((In c l /\ test c = true) \/ ty c = result_ty wty)) out.
  Proof.
    intros Hw Hl H.
    eapply (wrap_improper_out rec b wty test (fun c => fixedR 1 c = true /\ In c l)
              (fun w => fixedR 1 w = true /\ ty w = result_ty wty)) in H.
    - eapply Forall_impl; [|exact H]. intros c [[[H1 H2] H3]|[H1 H2]]; auto.
    - intros l' w' Hl' Hw'. apply (Hrec wty l' w'); auto.
      eapply Forall_impl; [|exact Hl']. intros c [H1 _]; exact H1.
    - apply Forall_forall. intros c Hc. rewrite Forall_forall in Hl. auto.
  Qed.
End Stages.

Lemma Forall_andR {A} (P Q : A -> Prop) l : Forall P l -> Forall Q l -> Forall (fun x => P x /\ Q x) l.
Proof. intros H1 H2. rewrite Forall_forall in *. auto. Qed.

Lemma tbc_typedR fuel : forall b children b',
  shellR b = true -> Forall F1R children -> table_boxes_children fuel b children = Ok b' ->
  fixedR 1 b' = true /\ ty b' = result_ty (ty b).
Proof.
  induction fuel as [|f IH]; intros b children b' Hsh Hch H; [discriminate|].
  rewrite tbc_unfoldR in H. cbv zeta in H.
  set (rec := table_boxes_children f) in *.
  pose proof Hsh as Hsh'. unfold shellR in Hsh'. bsplit.
  match goal with H : attrs_okR (at_ b) = true |- _ => rename H into Ha end.
  match goal with H : mut_ok b = true |- _ => rename H into Hm end.
  match goal with H : negb (is_wrap (mu b)) = true |- _ => apply Bool.negb_true_iff in H; rename H into Hw end.
  match goal with H : negb (is LineT b) = true |- _ => apply Bool.negb_true_iff in H; rename H into Hnl end.
  match goal with H : parent_t (ty b) = true |- _ => rename H into Hpar end.
  match goal with H : sp b = true |- _ => rename H into Hsb end.
  match goal with H : negb (running b) = true |- _ => apply Bool.negb_true_iff in H; rename H into Hnr end.
  assert (Hrec : forall wty l w', wrap_ty wty = true -> Forall F1R l ->
            rec (anon_from wty b []) l = Ok w' -> fixedR 1 w' = true /\ ty w' = result_ty wty).
  { intros wty l w' Hwt Hl Hr. apply (IH (anon_from wty b []) l w'); auto. apply shell_anonR; assumption. }
  pose proof (tbc_c0_fixedR b children Ha Hch) as Hc0.
  set (c2 := rule_1_4 None (rule_1_3 b (tbc_c0 b children))) in *.
  assert (Hinc : incl c2 (tbc_c0 b children)).
  { unfold c2. eapply incl_tran; [apply rule_1_4_incl|apply rule_1_3_incl]. }
  assert (Hc2 : Forall F1R c2) by (eapply Forall_incl; eassumption).
  apply bind_ok in H. destruct H as (c3 & H3 & H).
  apply bind_ok in H. destruct H as (c4 & H4 & H).
  apply bind_ok in H. destruct H as (c5 & H5 & H).
  (* the shape of the result for a box that is not a table *)
  assert (Hfin : forall l, table_t (ty b) = false -> Forall F1R l ->
             (cokR 1 (set_ch b l) = true) -> fixedR 1 (set_ch b l) = true /\ ty (set_ch b l) = result_ty (ty b)).
  { intros l Ht Hl Hk. unfold fixedR. rewrite running_set_ch, Hnr. autorewrite with box. rewrite Ht. simpl.
    split; [|destruct (ty b); try reflexivity; discriminate].
    rewrite Bool.andb_true_r. apply treeR_intro; [assumption|]. autorewrite with box.
    eapply Forall_impl; [|exact Hl]. intros c. apply fixed_treeR. }
  assert (Hcokk : forall l, cokR 1 (set_ch b l) =
                            (let w := false in
                             let bc := kids_flowR l in
                             match ty b with
                             | TextT | BlockReplacedT | InlineReplacedT | ColT => no_kids l && negb w
                             | LineT => false
                             | InlineT => kids_flowR l && negb w
                             | BlockT | InlineBlockT => bc
                             | CellT | CaptionT => bc && negb w
                             | TableT | InlineTableT =>
                                 table_children_ok l && forallb group_grid_ok (filter (is RowGroupT) l) && negb w
                             | RowGroupT => forallb (is RowT) l && negb w
                             | RowT => forallb (is CellT) l && negb w
                             | ColGroupT => forallb (is ColT) l && negb w
                             | _ => kids_flowR l && negb w
                             end)).
  { intros l. unfold cokR. rewrite sp_set_ch, Hsb, (run_sp_nonrun (set_ch b l)) by (rewrite running_set_ch; assumption).
    rewrite running_set_ch, Hnr. autorewrite with box.
    replace (mut_ok (set_ch b l)) with (mut_ok b) by (unfold mut_ok, is; autorewrite with box; reflexivity).
    rewrite Ha, Hm, Hw. destruct (ty b); reflexivity. }
  unfold stage3, stage4, stage5 in *.
  destruct (table_t (ty b)) eqn:Etab.
  - (* tables: rule 2.1, then everything is a proper table child *)
    pose proof (stage_outR rec b Hrec RowT ptc c2 c3 eq_refl Hc2 H3) as Hs3.
    assert (Hptc : Forall (fun c => ptc c = true) c3).
    { eapply Forall_impl; [|exact Hs3]. intros c [_ [[_ E]|E]]; [assumption|]. unfold ptc. rewrite E. reflexivity. }
    assert (E1 : is RowT b = false) by (unfold is; destruct (ty b); try discriminate; reflexivity).
    assert (E2 : is InlineT b = false) by (unfold is; destruct (ty b); try discriminate; reflexivity).
    rewrite E1 in H4. rewrite E2 in H5.
    rewrite wrap_improper_id in H4.
    2:{ eapply Forall_impl; [|exact Hptc]. intros c Hc. unfold ptc, is in *. destruct (ty c); try discriminate; reflexivity. }
    injection H4 as <-.
    rewrite wrap_improper_id in H5.
    2:{ eapply Forall_impl; [|exact Hptc]. intros c Hc. unfold ptc in *.
        destruct (ty b); try discriminate; destruct (ty c); try discriminate; reflexivity. }
    injection H5 as <-.
    apply (wrap_table_typedR rec b Hrec Hsh c3 b' Etab); [|exact H].
    eapply Forall_impl; [|exact Hs3]. intros c [E _]; exact E.
  - destruct (is RowGroupT b) eqn:Erg.
    + (* row groups: rule 2.2 *)
      pose proof (stage_outR rec b Hrec RowT (is RowT) c2 c3 eq_refl Hc2 H3) as Hs3.
      assert (Hrows : Forall (fun c => is RowT c = true) c3).
      { eapply Forall_impl; [|exact Hs3]. intros c [_ [[_ E]|E]]; [assumption|]. apply is_true_iff. exact E. }
      apply is_true_iff in Erg.
      assert (E1 : is RowT b = false) by (apply is_false_iff; congruence).
      assert (E2 : is InlineT b = false) by (apply is_false_iff; congruence).
      rewrite E1 in H4. rewrite E2 in H5.
      rewrite wrap_improper_id in H4.
      2:{ eapply Forall_impl; [|exact Hrows]. intros c Hc. apply is_true_iff in Hc. unfold is. rewrite Hc. reflexivity. }
      injection H4 as <-.
      rewrite wrap_improper_id in H5.
      2:{ eapply Forall_impl; [|exact Hrows]. intros c Hc. apply is_true_iff in Hc. rewrite Erg, Hc. simpl. apply Bool.orb_true_r. }
      injection H5 as <-. injection H as <-.
      apply Hfin; [first [assumption|reflexivity]| |].
      * eapply Forall_impl; [|exact Hs3]. intros c [E _]; exact E.
      * rewrite Hcokk, Erg. simpl. rewrite Bool.andb_true_r. apply forallb_Forall. assumption.
    + injection H3 as <-.
      destruct (is RowT b) eqn:Erow.
      * (* rows: rule 2.3 *)
        pose proof (stage_outR rec b Hrec CellT (is CellT) c2 c4 eq_refl Hc2 H4) as Hs4.
        assert (Hcells : Forall (fun c => is CellT c = true) c4).
        { eapply Forall_impl; [|exact Hs4]. intros c [_ [[_ E]|E]]; [assumption|]. apply is_true_iff. exact E. }
        apply is_true_iff in Erow.
        assert (E2 : is InlineT b = false) by (apply is_false_iff; congruence).
        rewrite E2 in H5.
        rewrite wrap_improper_id in H5.
        2:{ eapply Forall_impl; [|exact Hcells]. intros c Hc. apply is_true_iff in Hc. unfold ptc. rewrite Hc. reflexivity. }
        injection H5 as <-. injection H as <-.
        apply Hfin; [first [assumption|reflexivity]| |].
        -- eapply Forall_impl; [|exact Hs4]. intros c [E _]; exact E.
        -- rewrite Hcokk, Erow. simpl. rewrite Bool.andb_true_r. apply forallb_Forall. assumption.
      * (* everything else: rule 3.1 then 3.2 *)
        pose proof (stage_outR rec b Hrec RowT (fun c => negb (is CellT c)) c2 c4 eq_refl Hc2 H4) as Hs4.
        assert (Hnc : Forall (fun c => fixedR 1 c = true /\ is CellT c = false) c4).
        { eapply Forall_impl; [|exact Hs4]. intros c [Hf [[_ E]|E]]; split; auto.
          - apply Bool.negb_true_iff in E. exact E.
          - apply is_false_iff. simpl in E. congruence. }
        assert (Hf4 : Forall F1R c4) by (eapply Forall_impl; [|exact Hnc]; intros c [E _]; exact E).
        destruct (is ColT b) eqn:Ecol.
        { (* columns have no children *)
          assert (Ec2 : c2 = []).
          { assert (E0 : tbc_c0 b children = []) by (unfold tbc_c0; rewrite Ecol; reflexivity).
            rewrite E0 in Hinc. destruct c2 as [|x r]; [reflexivity|]. exfalso. apply (Hinc x). left; reflexivity. }
          rewrite Ec2 in H4. injection H4 as <-.
          apply is_true_iff in Ecol.
          assert (E2 : is InlineT b = false) by (apply is_false_iff; congruence).
          rewrite E2 in H5. injection H5 as <-. injection H as <-.
          apply Hfin; [first [assumption|reflexivity]|constructor|]. rewrite Hcokk, Ecol. reflexivity. }
        destruct (is ColGroupT b) eqn:Ecg.
        { (* column groups: only columns survive rule 1.2 *)
          pose proof (tbc_c0_colsR b children Ecg) as Hcols0.
          assert (Hcols : Forall (fun c => is ColT c = true) c2) by (eapply Forall_incl; eassumption).
          apply is_true_iff in Ecg.
          assert (E2 : is InlineT b = false) by (apply is_false_iff; congruence).
          rewrite E2 in H5.
          rewrite wrap_improper_id in H4.
          2:{ eapply Forall_impl; [|exact Hcols]. intros c Hc. apply is_true_iff in Hc. unfold is. rewrite Hc. reflexivity. }
          injection H4 as <-.
          rewrite wrap_improper_id in H5.
          2:{ eapply Forall_impl; [|exact Hcols]. intros c Hc. apply is_true_iff in Hc. rewrite Ecg, Hc. simpl. apply Bool.orb_true_r. }
          injection H5 as <-. injection H as <-.
          apply Hfin; [first [assumption|reflexivity]|assumption|].
          rewrite Hcokk, Ecg. simpl. rewrite Bool.andb_true_r. apply forallb_Forall. assumption. }
        (* generic parent: children end up flow boxes *)
        assert (Hflow : Forall (fun c => fixedR 1 c = true /\ (flow_t (ty c) || rtab c) = true) c5).
        { destruct (is InlineT b) eqn:Einl.
          - pose proof (stage_outR rec b Hrec InlineTableT (fun c => negb (ptc c)) c4 c5 eq_refl Hf4 H5) as Hs5.
            eapply Forall_impl; [|exact Hs5]. intros c [Hf [[Hin E]|E]]; split; auto.
            + rewrite Forall_forall in Hnc. destruct (Hnc c Hin) as [_ Hncc].
              apply fixed_flowR; auto. apply Bool.negb_true_iff in E. exact E.
            + simpl in E. rewrite E. reflexivity.
          - pose proof (stage_outR rec b Hrec TableT _ c4 c5 eq_refl Hf4 H5) as Hs5.
            eapply Forall_impl; [|exact Hs5]. intros c [Hf [[Hin E]|E]]; split; auto.
            + rewrite Forall_forall in Hnc. destruct (Hnc c Hin) as [_ Hncc].
              apply fixed_flowR; auto.
              rewrite ipp_otherR in E; auto.
              * rewrite Bool.orb_false_r in E. apply Bool.negb_true_iff in E. exact E.
              * apply is_false_iff. assumption.
              * apply is_false_iff. assumption.
            + simpl in E. rewrite E. reflexivity. }
        injection H as <-.
        apply Hfin; [first [assumption|reflexivity]| |].
        -- eapply Forall_impl; [|exact Hflow]. intros c [E _]; exact E.
        -- rewrite Hcokk.
           assert (Hkf : kids_flowR c5 = true).
           { apply forallb_Forall. eapply Forall_impl; [|exact Hflow]. intros c [_ E]; exact E. }
           rewrite Hkf. unfold is in *.
           destruct (ty b); try reflexivity; discriminate.
Qed.

(* ------------------------------------------------------------------ AnonymousTableBoxes *)

Lemma atb_unfoldR b :
  anonymous_table_boxes b =
  if negb (parent_t (ty b)) || running b then Ok b
  else let* children := atb_list (ch b) in table_boxes_children tbc_fuel b children.
Proof. destruct b; reflexivity. Qed.

Lemma atb_list_specR (P : box -> box -> Prop) l : forall l',
  Forall (fun c => forall c', anonymous_table_boxes c = Ok c' -> P c c') l ->
  atb_list l = Ok l' -> Forall2 P l l'.
Proof.
  induction l as [|c l IH]; intros l' H E; simpl in E.
  - injection E as <-. constructor.
  - inversion H; subst.
    apply bind_ok in E. destruct E as (c' & Hc & E).
    apply bind_ok in E. destruct E as (r' & Hr & E). injection E as <-.
    constructor; auto.
Qed.

(* what elementToBox delivers, running elements included, with Colspan /
   Rowspan fields >= 0 on every box (they are 0 on non-cells in /repo) *)
Definition iokS (b : box) : bool := iokR b && sp b.

Lemma tree_iokS_sp b : tree iokS b = true -> tree sp b = true.
Proof.
  induction b as [t a m l IH] using box_ind'. intros H. apply tree_inv in H. destruct H as [Hi Hk].
  apply tree_intro; [unfold iokS in Hi; bsplit; assumption|].
  simpl ch in *. rewrite Forall_forall in *. auto.
Qed.

Lemma iokS_running_fixed b : tree iokS b = true -> running b = true -> fixedR 1 b = true.
Proof.
  intros Ht Er. pose proof (tree_iokS_sp _ Ht) as Hs. rewrite tree_unfold in Hs.
  apply tree_inv in Ht. destruct Ht as [Hi _]. unfold iokS, iokR in Hi. bsplit.
  unfold fixedR. rewrite Er. simpl. rewrite Bool.andb_true_r.
  apply treeR_running; [assumption|]. unfold cokR, run_sp. rewrite Er. simpl. brw. reflexivity.
Qed.

Theorem atb_typedR : forall b b',
  tree iokS b = true -> anonymous_table_boxes b = Ok b' ->
  fixedR 1 b' = true /\ ty b' = (if running b then ty b else result_ty (ty b)).
Proof.
  induction b as [t a m l IH] using box_ind'. intros b' Ht H.
  rewrite atb_unfoldR in H.
  destruct (running (Box t a m l)) eqn:Er.
  { rewrite Bool.orb_true_r in H. injection H as <-. split; [apply iokS_running_fixed; assumption|reflexivity]. }
  rewrite Bool.orb_false_r in H.
  apply tree_inv in Ht. destruct Ht as [Hi Hkids]. simpl ch in Hkids.
  pose proof Hi as Hi'. unfold iokS, iokR in Hi'. bsplit.
  destruct (parent_t (ty (Box t a m l))) eqn:Epar; simpl negb in H; cbv iota in H.
  - apply bind_ok in H. destruct H as (children & Hc & H).
    apply (tbc_typedR tbc_fuel _ children b'); [|  |exact H].
    + unfold shellR. rewrite Er. brw. reflexivity.
    + eapply (atb_list_specR (fun c c' => fixedR 1 c' = true)) in Hc.
      * clear -Hc. induction Hc; constructor; auto.
      * simpl ch. rewrite Forall_forall in *. intros c Hin c' Hc'.
        apply (IH c Hin c'); auto.
  - injection H as <-. simpl in *.
    match goal with H : no_kids l = true |- _ => rename H into Hnk end.
    destruct l; [|discriminate].
    split; [|destruct t; try discriminate; reflexivity].
    unfold fixedR, cokR, run_sp. rewrite Er. simpl. unfold is in *. simpl in *. brw.
    destruct t; try discriminate; simpl; try reflexivity; rewrite ?Er; reflexivity.
Qed.
