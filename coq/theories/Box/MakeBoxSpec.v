(* Box/MakeBoxSpec.v -- SPECIFICATION of the box a display value generates
   (css-display-3 2, CSS 2.1 9.2, 17.2): the outer display type decides
   block-level / inline-level, the inner display type decides the kind of
   container; table-internal display values generate the table part of the
   same name; anything else (none, contents, unknown keywords, ill-formed
   pairs) generates no box through makeBox. *)
From Verif Require Import Box.BoxGen.

Definition outer_ok (d0 : dword) (t : bty) : bool :=
  match d0 with
  | DBlock => block_level_t t && negb (bty_eqb t InlineTableT)
  | DInline => inline_level_t t || bty_eqb t InlineTableT      (* the inline-table box sits in an inline-block wrapper *)
  | _ => false
  end.

Definition inner_ok (d1 : dword) (t : bty) : bool :=
  match d1 with
  | DFlow => bty_eqb t BlockT || bty_eqb t InlineT
  | DFlowRoot => bty_eqb t BlockT || bty_eqb t InlineBlockT   (* a block container establishing a BFC *)
  | DTable => table_t t
  | DFlex => flex_container_t t
  | DGrid => grid_container_t t
  | _ => false
  end.

Definition part_ok (d0 : dword) (t : bty) : bool :=
  match d0, t with
  | DTableRow, RowT | DTableRowGroup, RowGroupT | DTableHeaderGroup, RowGroupT
  | DTableFooterGroup, RowGroupT | DTableColumn, ColT | DTableColumnGroup, ColGroupT
  | DTableCell, CellT | DTableCaption, CaptionT => true
  | _, _ => false
  end.

(* the display value is one makeBox must support *)
Definition supported (d0 d1 : dword) : bool :=
  match d0, d1 with
  | (DBlock | DInline), (DFlow | DFlowRoot | DTable | DFlex | DGrid) => true
  | (DTableRow | DTableRowGroup | DTableHeaderGroup | DTableFooterGroup | DTableColumn
     | DTableColumnGroup | DTableCell | DTableCaption), DEmpty => true
  | _, _ => false
  end.

Definition box_type_ok (d0 d1 : dword) (t : bty) : bool :=
  match d1 with
  | DEmpty => part_ok d0 t
  | _ => outer_ok d0 t && inner_ok d1 t
  end.

Theorem make_box_total d0 d1 d2 :
  (supported d0 d1 = true -> exists t, make_box_type d0 d1 d2 = Some t /\ box_type_ok d0 d1 t = true) /\
  (supported d0 d1 = false -> make_box_type d0 d1 d2 = None).
Proof.
  split; intros H; destruct d0, d1; try discriminate; try reflexivity;
    eexists; (split; [reflexivity|reflexivity]).
Qed.

(* the box type is determined: two box types acceptable for the same display coincide *)
Theorem box_type_unique d0 d1 t t' :
  box_type_ok d0 d1 t = true -> box_type_ok d0 d1 t' = true -> t = t'.
Proof. destruct d0, d1, t; try discriminate; destruct t'; try discriminate; reflexivity. Qed.
