(* Box/BoxBasics.v -- induction principle and elementary facts about the box
   model of Box/BoxGen.v (used by all Box/*Proofs.v). *)
From Verif Require Import Box.BoxGen.
From Coq Require Import Lia.
Open Scope Z_scope.

(* induction over the nested list of children *)
Lemma box_ind' (P : box -> Prop) :
  (forall t a m l, Forall P l -> P (Box t a m l)) -> forall b, P b.
Proof.
  intros H. fix IH 1. intros [t a m l]. apply H.
  induction l as [|c l IHl]; constructor; [apply IH|exact IHl].
Qed.

Lemma ty_set_ch b l : ty (set_ch b l) = ty b. Proof. destruct b; reflexivity. Qed.
Lemma at_set_ch b l : at_ (set_ch b l) = at_ b. Proof. destruct b; reflexivity. Qed.
Lemma mu_set_ch b l : mu (set_ch b l) = mu b. Proof. destruct b; reflexivity. Qed.
Lemma ch_set_ch b l : ch (set_ch b l) = l. Proof. destruct b; reflexivity. Qed.
Lemma ty_set_mu b m : ty (set_mu b m) = ty b. Proof. destruct b; reflexivity. Qed.
Lemma at_set_mu b m : at_ (set_mu b m) = at_ b. Proof. destruct b; reflexivity. Qed.
Lemma mu_set_mu b m : mu (set_mu b m) = m. Proof. destruct b; reflexivity. Qed.
Lemma ch_set_mu b m : ch (set_mu b m) = ch b. Proof. destruct b; reflexivity. Qed.
Lemma box_eta b : Box (ty b) (at_ b) (mu b) (ch b) = b. Proof. destruct b; reflexivity. Qed.

Lemma ty_anon_from t p l : ty (anon_from t p l) = t. Proof. reflexivity. Qed.
Lemma ch_anon_from t p l : ch (anon_from t p l) = l. Proof. reflexivity. Qed.

Lemma bty_eqb_eq a b : bty_eqb a b = true <-> a = b.
Proof. split; [destruct a, b; simpl; intros H; try reflexivity; discriminate|intros ->; destruct b; reflexivity]. Qed.
Lemma bty_eqb_refl a : bty_eqb a a = true. Proof. destruct a; reflexivity. Qed.
Lemma is_true_iff t b : is t b = true <-> ty b = t.
Proof. unfold is. apply bty_eqb_eq. Qed.
Lemma is_false_iff t b : is t b = false <-> ty b <> t.
Proof.
  unfold is. split.
  - intros H E. rewrite E, bty_eqb_refl in H. discriminate.
  - intros H. destruct (bty_eqb (ty b) t) eqn:E; [apply bty_eqb_eq in E; contradiction|reflexivity].
Qed.

Global Hint Rewrite ty_set_ch at_set_ch mu_set_ch ch_set_ch ty_set_mu at_set_mu mu_set_mu ch_set_mu : box.

(* the res monad *)
Lemma bind_ok {A B} (r : res A) (f : A -> res B) b :
  bind r f = Ok b -> exists a, r = Ok a /\ f a = Ok b.
Proof. apply bind_ok_inv. Qed.

Lemma mapM_ok {A B} (f : A -> res B) l out :
  mapM f l = Ok out -> Forall2 (fun a b => f a = Ok b) l out.
Proof.
  revert out. induction l as [|a l IH]; simpl; intros out H.
  - injection H as <-. constructor.
  - apply bind_ok in H. destruct H as (b & Hb & H).
    apply bind_ok in H. destruct H as (r & Hr & H). injection H as <-.
    constructor; auto.
Qed.

Lemma forallb_Forall {A} (f : A -> bool) l : forallb f l = true <-> Forall (fun x => f x = true) l.
Proof. rewrite forallb_forall, Forall_forall. tauto. Qed.

Lemma Forall2_len {A B} (R : A -> B -> Prop) l1 l2 : Forall2 R l1 l2 -> length l1 = length l2.
Proof. induction 1; simpl; auto. Qed.
