(* Box/TableGridProofs.v -- the grid-slot assignment of wrapTable
   (Box/TableGrid.v) meets the table-grid specification (Box/TableGridSpec.v):
   totality (no panic, the first-free-column loop terminates), rowspans
   clipped to the group, every cell anchored on the least free column at or
   after the previous cell, no cell covering the anchor column of a later
   cell; full disjointness when no colspan exceeds 1. *)
From Verif Require Import Box.TableGrid Box.TableGridSpec.
From Coq Require Import Lia ZifyBool ZifyNat.
Open Scope Z_scope.

(* ------------------------------------------------------------------ sets of columns *)
Lemma omem_true_iff x o : omem x o = true <-> In x o.
Proof.
  unfold omem. rewrite existsb_exists. split.
  - intros [y [Hy He]]. apply Z.eqb_eq in He. now subst.
  - intros H. exists x. split; [assumption|apply Z.eqb_refl].
Qed.

Lemma omem_app x a b : omem x (a ++ b) = omem x a || omem x b.
Proof. unfold omem. apply existsb_app. Qed.

Lemma zrange_spec x x0 x1 : omem x (zrange x0 x1) = true <-> x0 <= x < x1.
Proof.
  rewrite omem_true_iff. unfold zrange. rewrite in_map_iff. split.
  - intros [i [Hi Hin]]. apply in_seq in Hin. lia.
  - intros H. exists (Z.to_nat (x - x0)). split; [lia|]. apply in_seq. lia.
Qed.

(* ------------------------------------------------------------------ first_free *)
Lemma first_free_go_spec n o x r :
  first_free_go n o x = Ok r ->
  x <= r /\ omem r o = false /\ forall x', x <= x' < r -> omem x' o = true.
Proof.
  revert x. induction n as [|n IH]; intros x; simpl.
  - destruct (omem x o) eqn:E; [discriminate|]. intros H; injection H as <-.
    repeat split; [lia|assumption|intros; lia].
  - destruct (omem x o) eqn:E.
    + intros H. apply IH in H. destruct H as (H1 & H2 & H3).
      repeat split; [lia|assumption|]. intros x' Hx'.
      destruct (Z.eq_dec x' x) as [->|Hne]; [assumption|apply H3; lia].
    + intros H; injection H as <-. repeat split; [lia|assumption|intros; lia].
Qed.

Definition ge_count (x : Z) (o : occ) : nat := length (filter (fun y => x <=? y) o).

Lemma filter_ge_mono x (o : occ) : (ge_count (x + 1) o <= ge_count x o)%nat.
Proof.
  unfold ge_count. induction o as [|a o IH]; simpl; [lia|].
  destruct (x + 1 <=? a) eqn:E1; destruct (x <=? a) eqn:E2; simpl; lia.
Qed.

Lemma filter_ge_lt x (o : occ) : In x o -> (ge_count (x + 1) o < ge_count x o)%nat.
Proof.
  unfold ge_count. induction o as [|a o IH]; simpl; [tauto|].
  intros [->|Hin].
  - pose proof (filter_ge_mono x o) as Hm. unfold ge_count in Hm.
    destruct (x + 1 <=? x) eqn:E1; [lia|]. destruct (x <=? x) eqn:E2; [simpl; lia|lia].
  - specialize (IH Hin).
    destruct (x + 1 <=? a) eqn:E1; destruct (x <=? a) eqn:E2; simpl; lia.
Qed.

Lemma first_free_go_total n o x :
  (ge_count x o <= n)%nat -> exists r, first_free_go n o x = Ok r.
Proof.
  revert x. induction n as [|n IH]; intros x Hlen; simpl; unfold ge_count in Hlen.
  - destruct (omem x o) eqn:E; [|eauto].
    apply omem_true_iff in E. exfalso.
    assert (Hin : In x (filter (fun y => x <=? y) o)) by (apply filter_In; split; [assumption|lia]).
    destruct (filter (fun y => x <=? y) o); [inversion Hin|simpl in Hlen; lia].
  - destruct (omem x o) eqn:E; [|eauto].
    apply omem_true_iff in E. apply IH. pose proof (filter_ge_lt x o E) as Hl. unfold ge_count in *. lia.
Qed.

Lemma first_free_total o x : exists r, first_free o x = Ok r.
Proof.
  apply first_free_go_total. unfold ge_count.
  induction o as [|a o IH]; simpl; [lia|]. destruct (x <=? a); simpl; lia.
Qed.

Lemma first_free_spec o x r :
  first_free o x = Ok r ->
  x <= r /\ omem r o = false /\ forall x', x <= x' < r -> omem x' o = true.
Proof. apply first_free_go_spec. Qed.

(* ------------------------------------------------------------------ mark_rows *)
Lemma mark_rows_length k x0 x1 rest : length (mark_rows k x0 x1 rest) = length rest.
Proof. revert rest; induction k; intros [|o r]; simpl; auto. Qed.

Lemma mark_rows_nth k x0 x1 rest (i : nat) x :
  omem x (nth i (mark_rows k x0 x1 rest) []) =
  (if (i <? k)%nat && (i <? length rest)%nat then omem x (zrange x0 x1) else false) || omem x (nth i rest []).
Proof.
  revert rest i. induction k as [|k IH]; intros rest i.
  - simpl. destruct rest; reflexivity.
  - destruct rest as [|o r].
    + simpl. destruct i; simpl; rewrite ?Bool.andb_false_r; reflexivity.
    + destruct i as [|i]; simpl.
      * rewrite omem_app. reflexivity.
      * rewrite IH. reflexivity.
Qed.

(* ------------------------------------------------------------------ the assignment *)
Section GridProofs.
  Variables (cell row : Type).
  Variable colspan_of rowspan_of gridx_of : cell -> Z.
  Variable place : cell -> Z -> Z -> cell.
  Variable cells_of : row -> list cell.
  Variable set_cells : row -> list cell -> row.
  Hypothesis gridx_place : forall c x r, gridx_of (place c x r) = x.
  Hypothesis rowspan_place : forall c x r, rowspan_of (place c x r) = r.
  Hypothesis colspan_place : forall c x r, colspan_of (place c x r) = colspan_of c.
  Hypothesis cells_set : forall r cs, cells_of (set_cells r cs) = cs.

  Notation assign_cells := (assign_cells cell colspan_of rowspan_of place).
  Notation assign_rows := (assign_rows cell row colspan_of rowspan_of place cells_of set_cells).
  Notation assign_group := (assign_group cell row colspan_of rowspan_of place cells_of set_cells).

  Definition slot_of (y : Z) (c : cell) : slot := mkSlot (gridx_of c) y (colspan_of c) (rowspan_of c).
  Fixpoint rows_slots (y : Z) (rows : list row) : list slot :=
    match rows with
    | [] => []
    | r :: rs => map (slot_of y) (cells_of r) ++ rows_slots (y + 1) rs
    end.

  (* rowspan after clipping to a group with `below` rows after the current one *)
  Definition clip (rs below : Z) : Z := if rs =? 0 then below + 1 else Z.min rs (below + 1).

  Definition spans_ok (cs : list cell) : Prop :=
    Forall (fun c => 0 <= colspan_of c /\ 0 <= rowspan_of c) cs.

  (* no pair (earlier, later) of the list has the earlier cover the anchor column of the later *)
  Fixpoint ord_free (l : list slot) : Prop :=
    match l with
    | [] => True
    | a :: r => Forall (fun b => anchor_hit a b = false) r /\ ord_free r
    end.

  Lemma ord_free_app l1 l2 :
    ord_free (l1 ++ l2) <->
    ord_free l1 /\ ord_free l2 /\ Forall (fun a => Forall (fun b => anchor_hit a b = false) l2) l1.
  Proof.
    induction l1 as [|a l1 IH]; simpl.
    - split; [intros H; repeat split; auto|tauto].
    - rewrite Forall_app, IH. split.
      + intros [[H1 H2] (H3 & H4 & H5)]. repeat split; auto.
      + intros ([H1 H3] & H4 & H5). inversion H5; subst. repeat split; auto.
  Qed.

  Lemma ord_free_anchors_free l : ord_free l <-> anchors_free l = true.
  Proof.
    induction l as [|a l IH]; simpl; [tauto|].
    rewrite Bool.andb_true_iff, forallb_forall, <- IH, Forall_forall.
    split; intros [H1 H2]; split; auto; intros b Hb; specialize (H1 b Hb);
      destruct (anchor_hit a b); simpl in *; congruence.
  Qed.

  (* occupancy invariant: `o` for the current row y, `rest` for the rows
     below, with respect to the slots P placed so far *)
  Record inv (P : list slot) (y : Z) (x : Z) (o : occ) (rest : list occ) : Prop := {
    inv_c0 : forall s x', In s P -> sy s < y -> covers s x' y -> omem x' o = true;
    inv_s0 : forall x', omem x' o = true -> exists s, In s P /\ sy s < y /\ covers s x' y;
    inv_c1 : forall s (k : nat) x', In s P -> covers s x' (y + 1 + Z.of_nat k) -> omem x' (nth k rest []) = true;
    inv_s1 : forall (k : nat) x', omem x' (nth k rest []) = true ->
                                  exists s, In s P /\ sy s <= y /\ covers s x' (y + 1 + Z.of_nat k);
    inv_r : forall s, In s P -> sy s = y -> sx s + sw s <= x;
    inv_w : forall s, In s P -> sy s <= y;
  }.

  (* what is established for the cells of one row *)
  Inductive row_placed (P : list slot) (y below : Z) : Z -> list cell -> list cell -> Prop :=
  | rp_nil x : row_placed P y below x [] []
  | rp_cons x c cs gx out :
      x <= gx ->
      (forall s, In s P -> sy s < y -> ~ covers s gx y) ->
      (forall x', x <= x' < gx -> exists s, In s P /\ sy s < y /\ covers s x' y) ->
      1 <= clip (rowspan_of c) below ->
      row_placed P y below (gx + colspan_of c) cs out ->
      row_placed P y below x (c :: cs) (place c gx (clip (rowspan_of c) below) :: out).

  Lemma row_placed_weaken P P' y below x cs out :
    (forall s, sy s < y -> (In s P <-> In s P')) ->
    row_placed P y below x cs out -> row_placed P' y below x cs out.
  Proof.
    intros HP H. induction H as [x|x c cs gx out Hge Hfree Hocc Hclip Hrp IH]; [constructor|].
    constructor; [assumption| | |assumption|assumption].
    - intros s Hs Hlt. apply Hfree; [apply HP|]; assumption.
    - intros x' Hx'. destruct (Hocc x' Hx') as (s & Hs & Hlt & Hc).
      exists s. split; [apply HP; assumption|split; assumption].
  Qed.

  Lemma assign_cells_spec cs : forall P y x o rest,
    spans_ok cs -> inv P y x o rest -> 0 <= x ->
    exists out rest',
      assign_cells o rest x cs = Ok (out, rest') /\
      length rest' = length rest /\
      row_placed P y (Z.of_nat (length rest)) x cs out /\
      (let new := map (slot_of y) out in
       ord_free new /\
       Forall (fun a => Forall (fun b => anchor_hit a b = false) new) P /\
       Forall (fun s => slot_in_group (y + 1 + Z.of_nat (length rest)) s = true) new /\
       (forall s (k : nat) x', In s (P ++ new) -> covers s x' (y + 1 + Z.of_nat k) -> omem x' (nth k rest' []) = true) /\
       (forall (k : nat) x', omem x' (nth k rest' []) = true ->
                             exists s, In s (P ++ new) /\ sy s <= y /\ covers s x' (y + 1 + Z.of_nat k)) /\
       (forall s, In s new -> sy s = y)).
  Proof.
    induction cs as [|c cs IH]; intros P y x o rest Hsp Hinv Hx.
    - exists [], rest. simpl. rewrite app_nil_r.
      repeat split; auto; try constructor.
      + apply Forall_forall. intros; constructor.
      + apply (inv_c1 _ _ _ _ _ Hinv).
      + apply (inv_s1 _ _ _ _ _ Hinv).
      + intros s [].
    - inversion Hsp as [|? ? [Hcs Hrs] Hsp']; subst.
      simpl.
      destruct (first_free_total o x) as [gx Hgx]. rewrite Hgx. simpl.
      apply first_free_spec in Hgx. destruct Hgx as (Hge & Hfree & Hocc).
      set (below := Z.of_nat (length rest)).
      set (h := clip (rowspan_of c) below).
      set (nx := gx + colspan_of c).
      (* the clipped rowspan and the marked rows *)
      assert (Hstep : exists rest1,
                 (if rowspan_of c =? 1 then Ok (rowspan_of c, rest)
                  else if rowspan_of c =? 0
                       then Ok (below + 1, mark_rows (length rest) gx nx rest)
                       else if Z.min (rowspan_of c) (below + 1) - 1 <? 0 then Panic 1267
                            else Ok (Z.min (rowspan_of c) (below + 1),
                                     mark_rows (Z.to_nat (Z.min (rowspan_of c) (below + 1) - 1)) gx nx rest))
                 = Ok (h, rest1) /\
                 length rest1 = length rest /\ 1 <= h <= below + 1 /\
                 forall (k : nat) x',
                   omem x' (nth k rest1 []) =
                   ((Z.of_nat k <? h - 1) && (gx <=? x') && (x' <? nx)) || omem x' (nth k rest [])).
      { unfold h, clip.
        destruct (rowspan_of c =? 1) eqn:E1.
        - assert (Hr1 : rowspan_of c = 1) by lia. rewrite Hr1. simpl (1 =? 0).
          cbv iota.
          exists rest. split; [f_equal; f_equal; lia|].
          repeat split; try lia.
        - destruct (rowspan_of c =? 0) eqn:E0.
          + eexists. split; [reflexivity|]. rewrite mark_rows_length.
            repeat split; try lia.
            intros k x'. rewrite mark_rows_nth.
            destruct (Nat.ltb_spec k (length rest)); simpl.
            * replace (Z.of_nat k <? below + 1 - 1) with true by lia. simpl.
              destruct (omem x' (zrange gx nx)) eqn:Ez.
              -- apply zrange_spec in Ez. replace (gx <=? x') with true by lia.
                 replace (x' <? nx) with true by lia. reflexivity.
              -- destruct ((gx <=? x') && (x' <? nx)) eqn:Eb; [|reflexivity].
                 assert (omem x' (zrange gx nx) = true) by (apply zrange_spec; lia). congruence.
            * replace (Z.of_nat k <? below + 1 - 1) with false by lia. reflexivity.
          + destruct (Z.min (rowspan_of c) (below + 1) - 1 <? 0) eqn:Eneg; [lia|].
            eexists. split; [reflexivity|]. rewrite mark_rows_length.
            repeat split; try lia.
            intros k x'. rewrite mark_rows_nth.
            set (m := Z.min (rowspan_of c) (below + 1)).
            destruct (Nat.ltb_spec k (Z.to_nat (m - 1))); simpl.
            * destruct (Nat.ltb_spec k (length rest)); [|lia]. simpl.
              replace (Z.of_nat k <? m - 1) with true by lia. simpl.
              destruct (omem x' (zrange gx nx)) eqn:Ez.
              -- apply zrange_spec in Ez. replace (gx <=? x') with true by lia.
                 replace (x' <? nx) with true by lia. reflexivity.
              -- destruct ((gx <=? x') && (x' <? nx)) eqn:Eb; [|reflexivity].
                 assert (omem x' (zrange gx nx) = true) by (apply zrange_spec; lia). congruence.
            * replace (Z.of_nat k <? m - 1) with false by lia. reflexivity. }
      destruct Hstep as (rest1 & Hstep & Hlen1 & Hh & Hnth).
      fold below nx. rewrite Hstep. simpl.
      set (s2 := mkSlot gx y (colspan_of c) h).
      (* invariant for the rest of the row *)
      assert (Hinv' : inv (P ++ [s2]) y nx o rest1).
      { constructor.
        - intros s x' Hin Hlt Hc. apply in_app_or in Hin. destruct Hin as [Hin|[<-|[]]].
          + eapply (inv_c0 _ _ _ _ _ Hinv); eauto.
          + simpl in Hlt. lia.
        - intros x' Ho. destruct (inv_s0 _ _ _ _ _ Hinv x' Ho) as (s & Hs & Hlt & Hc).
          exists s. split; [apply in_or_app; auto|auto].
        - intros s k x' Hin Hc. rewrite Hnth. apply in_app_or in Hin. destruct Hin as [Hin|[<-|[]]].
          + rewrite (inv_c1 _ _ _ _ _ Hinv s k x' Hin Hc). apply Bool.orb_true_r.
          + destruct Hc as [Hc1 Hc2]. simpl in Hc1, Hc2. unfold nx.
            replace (Z.of_nat k <? h - 1) with true by lia.
            replace (gx <=? x') with true by lia. replace (x' <? gx + colspan_of c) with true by lia.
            reflexivity.
        - intros k x' Ho. rewrite Hnth in Ho. apply Bool.orb_true_iff in Ho. destruct Ho as [Ho|Ho].
          + exists s2. split; [apply in_or_app; right; left; reflexivity|].
            unfold covers, s2; simpl. unfold nx in Ho. lia.
          + destruct (inv_s1 _ _ _ _ _ Hinv k x' Ho) as (s & Hs & Hle & Hc).
            exists s. split; [apply in_or_app; auto|auto].
        - intros s Hin Hy. apply in_app_or in Hin. destruct Hin as [Hin|[<-|[]]].
          + pose proof (inv_r _ _ _ _ _ Hinv s Hin Hy). unfold nx. lia.
          + simpl. unfold nx. lia.
        - intros s Hin. apply in_app_or in Hin. destruct Hin as [Hin|[<-|[]]].
          + apply (inv_w _ _ _ _ _ Hinv s Hin).
          + simpl. lia. }
      assert (Hnx : 0 <= nx) by (unfold nx; lia).
      destruct (IH (P ++ [s2]) y nx o rest1 Hsp' Hinv' Hnx)
        as (out & rest' & Hrec & Hlen' & Hrp & Hord & Hcross & Hgrp & Hc1 & Hs1 & Hsy).
      rewrite Hrec. simpl.
      exists (place c gx h :: out), rest'. split; [reflexivity|].
      split; [lia|].
      split.
      { constructor; auto.
        - intros s Hs Hlt Hc. pose proof (inv_c0 _ _ _ _ _ Hinv s gx Hs Hlt Hc). congruence.
        - intros x' Hx'. apply (inv_s0 _ _ _ _ _ Hinv). apply Hocc. assumption.
        - fold below h. lia.
        - fold nx. rewrite Hlen1 in Hrp.
          eapply row_placed_weaken; [|exact Hrp].
          intros s Hlt. rewrite in_app_iff. simpl. split; [|tauto].
          intros [H|[<-|[]]]; [assumption|simpl in Hlt; lia]. }
      simpl.
      assert (Es2 : slot_of y (place c gx h) = s2).
      { unfold slot_of, s2. rewrite gridx_place, rowspan_place, colspan_place. reflexivity. }
      rewrite Es2.
      rewrite Forall_app in Hcross. destruct Hcross as [HcrossP Hcross2].
      inversion Hcross2 as [|? ? Hs2new _]; subst.
      split; [split; assumption|].
      split.
      { (* old slots do not hit the new ones *)
        apply Forall_forall. intros a Ha. constructor.
        - (* a vs s2 *)
          pose proof (inv_w _ _ _ _ _ Hinv a Ha) as Hw.
          destruct (Z.eq_dec (sy a) y) as [Hey|Hney].
          + pose proof (inv_r _ _ _ _ _ Hinv a Ha Hey). unfold anchor_hit, s2; simpl. lia.
          + destruct (anchor_hit a s2) eqn:Ehit; [|reflexivity]. exfalso.
            unfold anchor_hit, s2 in Ehit; simpl in Ehit.
            assert (Hc : covers a gx y) by (unfold covers; lia).
            assert (Hlt : sy a < y) by lia.
            pose proof (inv_c0 _ _ _ _ _ Hinv a gx Ha Hlt Hc). congruence.
        - rewrite Forall_forall in HcrossP. apply HcrossP. assumption. }
      split.
      { constructor; [|rewrite Hlen1 in Hgrp; assumption].
        unfold slot_in_group, s2; simpl. fold below. lia. }
      split.
      { intros s k x' Hin Hc. apply (Hc1 s k x'); [|assumption].
        rewrite <- app_assoc in *. simpl. assumption. }
      split.
      { intros k x' Ho. destruct (Hs1 k x' Ho) as (s & Hs & Hle & Hc).
        exists s. rewrite <- app_assoc in Hs. simpl in Hs. auto. }
      intros s [<-|Hs]; [reflexivity|auto].
  Qed.

  (* all rows of a group *)
  Definition rows_spans_ok (rows : list row) : Prop := Forall (fun r => spans_ok (cells_of r)) rows.

  Inductive rows_placed (P : list slot) : Z -> Z -> list row -> list row -> Prop :=
  | rsp_nil y n : rows_placed P y n [] []
  | rsp_cons y n r rows cs rows' :
      row_placed P y (n - y - 1) 0 (cells_of r) cs ->
      rows_placed (P ++ map (slot_of y) cs) (y + 1) n rows rows' ->
      rows_placed P y n (r :: rows) (set_cells r cs :: rows').

  Lemma assign_rows_spec rows : forall P y occs,
    rows_spans_ok rows -> length occs = length rows ->
    (forall s, In s P -> sy s < y) ->
    (forall s (k : nat) x', In s P -> covers s x' (y + Z.of_nat k) -> omem x' (nth k occs []) = true) ->
    (forall (k : nat) x', omem x' (nth k occs []) = true ->
                          exists s, In s P /\ covers s x' (y + Z.of_nat k)) ->
    exists rows',
      assign_rows occs rows = Ok rows' /\
      rows_placed P y (y + Z.of_nat (length rows)) rows rows' /\
      ord_free (rows_slots y rows') /\
      Forall (fun a => Forall (fun b => anchor_hit a b = false) (rows_slots y rows')) P /\
      Forall (fun s => slot_in_group (y + Z.of_nat (length rows)) s = true) (rows_slots y rows').
  Proof.
    induction rows as [|r rows IH]; intros P y occs Hsp Hlen HP Hc Hs.
    - exists []. simpl. repeat split; try constructor.
      apply Forall_forall; intros; constructor.
    - destruct occs as [|o rest]; [simpl in Hlen; lia|].
      inversion Hsp as [|? ? Hsp1 Hsp2]; subst.
      simpl in Hlen.
      assert (Hinv : inv P y 0 o rest).
      { constructor.
        - intros s x' Hin _ Hcov. specialize (Hc s 0%nat x' Hin). simpl in Hc.
          rewrite Z.add_0_r in Hc. auto.
        - intros x' Ho. destruct (Hs 0%nat x') as (s & Hin & Hcov); [exact Ho|].
          simpl in Hcov. rewrite Z.add_0_r in Hcov. exists s. auto.
        - intros s k x' Hin Hcov. specialize (Hc s (S k) x' Hin). simpl nth in Hc.
          apply Hc. replace (y + Z.of_nat (S k)) with (y + 1 + Z.of_nat k) by lia. assumption.
        - intros k x' Ho. destruct (Hs (S k) x') as (s & Hin & Hcov); [exact Ho|].
          exists s. split; [assumption|]. split; [specialize (HP s Hin); lia|].
          replace (y + 1 + Z.of_nat k) with (y + Z.of_nat (S k)) by lia. assumption.
        - intros s Hin Hy. specialize (HP s Hin). lia.
        - intros s Hin. specialize (HP s Hin). lia. }
      destruct (assign_cells_spec (cells_of r) P y 0 o rest Hsp1 Hinv (Z.le_refl 0))
        as (out & rest' & Hac & Hlen' & Hrp & Hord & Hcross & Hgrp & Hc1 & Hs1 & Hsy).
      simpl. rewrite Hac. simpl.
      set (new := map (slot_of y) out) in *.
      destruct (IH (P ++ new) (y + 1) rest') as (rows' & Har & Hrsp & Hord' & Hcross' & Hgrp').
      + assumption.
      + unfold occ in *; lia.
      + intros s Hin. apply in_app_or in Hin. destruct Hin as [Hin|Hin].
        * specialize (HP s Hin). lia.
        * specialize (Hsy s Hin). lia.
      + intros s k x' Hin Hcov. apply (Hc1 s k x'); assumption.
      + intros k x' Ho. destruct (Hs1 k x' Ho) as (s & Hin & _ & Hcov). eauto.
      + rewrite Har. simpl. exists (set_cells r out :: rows'). split; [reflexivity|].
        simpl. rewrite cells_set. fold new.
        rewrite Forall_app in Hcross'. destruct Hcross' as [HcrP HcrN].
        split.
        { constructor.
          - replace (y + Z.pos (Pos.of_succ_nat (length rows)) - y - 1) with (Z.of_nat (length rest)) by lia.
            assumption.
          - replace (y + Z.pos (Pos.of_succ_nat (length rows))) with (y + 1 + Z.of_nat (length rows)) by lia.
            assumption. }
        split.
        { apply ord_free_app. repeat split; assumption. }
        split.
        { apply Forall_forall. intros a Ha. apply Forall_app. split.
          - rewrite Forall_forall in Hcross. apply Hcross. assumption.
          - rewrite Forall_forall in HcrP. apply HcrP. assumption. }
        apply Forall_app. split.
        * eapply Forall_impl; [|exact Hgrp]. intros s Hs0. simpl in Hs0.
          replace (y + Z.pos (Pos.of_succ_nat (length rows))) with (y + 1 + Z.of_nat (length rest)) by lia.
          assumption.
        * eapply Forall_impl; [|exact Hgrp']. intros s Hs0. simpl in Hs0.
          replace (y + Z.pos (Pos.of_succ_nat (length rows))) with (y + 1 + Z.of_nat (length rows)) by lia.
          assumption.
  Qed.

  (* ---------------------------------------------------------------- the group *)
  Theorem assign_group_spec rows :
    rows_spans_ok rows ->
    exists rows',
      assign_group rows = Ok rows' /\
      rows_placed [] 0 (Z.of_nat (length rows)) rows rows' /\
      anchors_free (rows_slots 0 rows') = true /\
      forallb (slot_in_group (Z.of_nat (length rows))) (rows_slots 0 rows') = true.
  Proof.
    intros Hsp. unfold assign_group.
    destruct (assign_rows_spec rows [] 0 (repeat [] (length rows))) as (rows' & Har & Hrp & Hord & _ & Hgrp).
    - assumption.
    - apply repeat_length.
    - intros s [].
    - intros s k x' [].
    - intros k x' Ho. exfalso.
      assert (Hnil : forall n k, nth k (repeat (@nil Z) n) [] = []).
      { induction n; intros [|k0]; simpl; auto. }
      rewrite Hnil in Ho. discriminate.
    - exists rows'. split; [assumption|]. split; [assumption|]. split.
      + apply ord_free_anchors_free. assumption.
      + apply forallb_forall. rewrite Forall_forall in Hgrp. intros s Hs. simpl in Hgrp. auto.
  Qed.

  Lemma rows_placed_length P y n rows rows' :
    rows_placed P y n rows rows' -> length rows' = length rows.
  Proof. induction 1; simpl; auto. Qed.

  (* ---------------------------------------------------------------- disjointness *)
  (* two slots overlap only if the earlier covers the anchor column of the
     later, or the later has a second column reaching into the earlier *)
  Lemma overlap_cases a b :
    slots_overlap a b = true -> anchor_hit a b = true \/ (sx b < sx a /\ 1 < sw b).
  Proof. unfold slots_overlap, anchor_hit. lia. Qed.

  Lemma ord_free_disjoint l :
    ord_free l -> Forall (fun s => sw s <= 1) l -> pairwise_disjoint l = true.
  Proof.
    induction l as [|a l IH]; simpl; [reflexivity|].
    intros [H1 H2] Hw. inversion Hw; subst.
    rewrite IH by assumption. rewrite Bool.andb_true_r.
    apply forallb_forall. intros b Hb.
    rewrite Forall_forall in H1. specialize (H1 b Hb).
    rewrite Forall_forall in H4. specialize (H4 b Hb).
    destruct (slots_overlap a b) eqn:E; [|reflexivity].
    apply overlap_cases in E. destruct E as [E|E]; [congruence|lia].
  Qed.
End GridProofs.
