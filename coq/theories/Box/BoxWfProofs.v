(* Box/BoxWfProofs.v -- composition: the tree returned by create_anonymous
   (the five passes of CreateAnonymousBox in their order) satisfies the
   specification Box/BoxWf.wf_root. *)
From Verif Require Import Box.BoxGen Box.BoxWf Box.BoxBasics Box.BoxInv Box.TableFixupProofs Box.BoxSim
  Box.FlexGridProofs Box.InlineInBlockProofs Box.BlockInInlineProofs.
From Coq Require Import Lia.
Open Scope Z_scope.

Lemma filter_true_id {A} (f : A -> bool) l : Forall (fun x => f x = true) l -> filter f l = l.
Proof. induction 1 as [|x l Hx Hl IH]; simpl; [reflexivity|]. rewrite Hx, IH. reflexivity. Qed.

(* the stage-5 invariant is the specification (on trees without running elements) *)
Lemma cok5_children_ok b :
  cok 5 b = true -> Forall (fun c => running c = false) (ch b) -> children_ok b = true.
Proof.
  intros Hk Hr. unfold children_ok.
  rewrite filter_true_id by (eapply Forall_impl; [|exact Hr]; intros c Hc; rewrite Hc; reflexivity).
  unfold cok in Hk. apply andb_true_split in Hk. destruct Hk as [_ Hk]. cbv zeta in Hk.
  unfold kids_inline, kids_block, single_line, no_kids in Hk. unfold is in *.
  destruct (ty b) eqn:Et; simpl in *; bsplit; brw; simpl;
    try reflexivity; try assumption;
    try (destruct (ch b); [reflexivity|discriminate]);
    try (destruct (is_wrap (mu b)); assumption).
Qed.

Theorem tree_cok5_wf b : tree (cok 5) b = true -> wf b = true.
Proof.
  induction b as [t a m l IH] using box_ind'. intros Ht.
  apply tree_inv in Ht. destruct Ht as [Hk Hkids]. simpl ch in *.
  simpl. apply Bool.orb_true_iff. right. apply andb_true_intro. split.
  - apply cok5_children_ok; [assumption|]. simpl.
    eapply Forall_impl; [|exact Hkids]. intros c Hc. apply tree_inv in Hc. destruct Hc as [Hc _].
    apply (cok_not_running _ _ Hc).
  - apply forallb_Forall. rewrite Forall_forall in *. intros c Hc. apply IH; auto.
Qed.

(* what the passes need of the tree built by elementToBox: see Box/BoxInv.iok *)
Definition input_ok (b : box) : bool := tree iok b.

Theorem create_anonymous_wf_root : forall t t',
  input_ok t = true -> block_flow_t (result_ty (ty t)) = true ->
  create_anonymous t = Ok t' -> wf_root t' = true.
Proof.
  intros t t' Hin Hroot H. unfold create_anonymous in H.
  apply bind_ok in H. destruct H as (b1 & H1 & H).
  apply bind_ok in H. destruct H as (b4 & H4 & H5).
  destruct (atb_typed t b1 Hin H1) as [F1 T1].
  pose proof (fixed_tree _ _ F1) as Tr1.
  destruct (flex_typed b1 Tr1) as [Tr2 S2].
  destruct (grid_typed _ Tr2) as [Tr3 S3].
  destruct (iib_typed _ b4 Tr3 H4) as [Tr4 S4].
  assert (Ety : ty b4 = result_ty (ty t)).
  { rewrite (sim_ty _ _ S4), (sim_ty _ _ S3), (sim_ty _ _ S2). assumption. }
  destruct (bii_typed (S (size b4)) b4 t' Tr4) as [Tr5 S5]; auto.
  - intros E. rewrite Ety in E. rewrite E in Hroot. discriminate.
  - intros E. rewrite Ety in E. rewrite E in Hroot. discriminate.
  - unfold wf_root. rewrite (sim_ty _ _ S5), Ety, Hroot. simpl. apply tree_cok5_wf. assumption.
Qed.
