(* Box/BoxGen.v -- model of the anonymous-box fix-up of
   /repo/html/boxes/build.go (CreateAnonymousBox, 91-99) over abstract boxes:

     AnonymousTableBoxes / tableBoxesChildren / wrapImproper   1028-1144, 955-1021
     wrapTable (grouping, header/footer, grid slots, wrapper)   1154-1308
     FlexBoxes / flexChildren, GridBoxes / gridChildren         1535-1618
     InlineInBlock                                              1769-1849
     BlockInInline / innerBlockInInline                         1909-2026
     makeBox's display -> box type switch                       125-169

   A box is its concrete Go type, the style / element derived flags the passes
   read, the fields they write, and its children.  Go's partial operations
   (the byType[...] nil dereference of wrapTable, type assertions, explicit
   panics, slice bounds, recursion that is not structural) are explicit in
   the `res` monad of Base/GoSem.v.

   Conventions:
   * the column groups of a table (Go: TableBox.ColumnGroups, not in
     Children) are kept as the first children of the table box, before its
     row groups (the same flattening as boxes.Serialize in /repo's tests);
   * LeadingCollapsibleSpace / TrailingCollapsibleSpace bookkeeping of
     InlineInBlock and collapseTableBorders are not modelled (they do not
     change the shape of the tree).
   Model only: no proofs in this file. *)
From Verif Require Export Base.GoSem Box.TableGrid.
Open Scope Z_scope.

(* ------------------------------------------------------------------ types *)

(* the concrete box types of html/boxes (stubs.go); Page, Margin and
   FootnoteArea boxes never occur before layout *)
Inductive bty :=
| BlockT | LineT | InlineT | TextT | InlineBlockT | BlockReplacedT | InlineReplacedT
| TableT | InlineTableT | RowGroupT | RowT | ColGroupT | ColT | CellT | CaptionT
| FlexT | InlineFlexT | GridT | InlineGridT.

Definition bty_code (t : bty) : N :=
  match t with
  | BlockT => 0 | LineT => 1 | InlineT => 2 | TextT => 3 | InlineBlockT => 4
  | BlockReplacedT => 5 | InlineReplacedT => 6 | TableT => 7 | InlineTableT => 8
  | RowGroupT => 9 | RowT => 10 | ColGroupT => 11 | ColT => 12 | CellT => 13
  | CaptionT => 14 | FlexT => 15 | InlineFlexT => 16 | GridT => 17 | InlineGridT => 18
  end%N.
Definition bty_eqb (a b : bty) : bool := N.eqb (bty_code a) (bty_code b).

(* what the passes read: derived from the style and the element, never written
   (except by the table wrapper, which takes float/position from its table) *)
Record attrs := mkA {
  a_el : Z;            (* identity of Box().Element (harness numbering) *)
  a_pseudo : N;        (* Box().PseudoType: 0 "", 1 before, 2 after, 3 marker, 9 other *)
  a_anon : bool;       (* Style is a *tree.AnonymousStyle *)
  a_float : bool;      (* IsFloated() *)
  a_abs : bool;        (* IsAbsolutelyPositioned() *)
  a_run : bool;        (* IsRunning() *)
  a_wsc : bool;        (* white-space in {normal, nowrap, pre-line} *)
  a_disp : Z;          (* 1 table-header-group, 2 table-footer-group, 0 other *)
  a_cap : Z;           (* caption-side: 0 top, 1 bottom, 2 other *)
  a_colspan : Z;       (* integerAttribute(Element colspan, 1) *)
  a_rowspan : Z;       (* integerAttribute(Element rowspan, 0) *)
  a_span : Z;          (* integerAttribute(Element span, 1) *)
  a_text : list N      (* TextBox.Text *)
}.

(* what the passes write *)
Record mut := mkM {
  gridx : Z; colspan : Z; rowspan : Z;
  is_hdr : bool; is_ftr : bool; is_wrap : bool; is_flexitem : bool; is_griditem : bool
}.

Inductive box := Box (t : bty) (a : attrs) (m : mut) (ch : list box).

Definition ty (b : box) := let 'Box t _ _ _ := b in t.
Definition at_ (b : box) := let 'Box _ a _ _ := b in a.
Definition mu (b : box) := let 'Box _ _ m _ := b in m.
Definition ch (b : box) := let 'Box _ _ _ c := b in c.
Definition set_ch (b : box) (c : list box) := let 'Box t a m _ := b in Box t a m c.
Definition set_mu (b : box) (m : mut) := let 'Box t a _ c := b in Box t a m c.

Definition is (t : bty) (b : box) : bool := bty_eqb (ty b) t.

(* ------------------------------------------------------------------ classes
   the interface hierarchy of stubs.go, as predicates on the concrete type *)
Definition parent_t (t : bty) : bool :=          (* ParentBoxITF *)
  match t with TextT | BlockReplacedT | InlineReplacedT => false | _ => true end.
Definition block_level_t (t : bty) : bool :=     (* BlockLevelBoxITF; note InlineTableT *)
  match t with BlockT | BlockReplacedT | FlexT | GridT | TableT | InlineTableT | CaptionT => true | _ => false end.
Definition inline_level_t (t : bty) : bool :=    (* InlineLevelBoxITF *)
  match t with InlineT | TextT | InlineBlockT | InlineReplacedT | InlineFlexT | InlineGridT => true | _ => false end.
Definition block_container_t (t : bty) : bool := (* BlockContainerBoxITF *)
  match t with BlockT | InlineBlockT | CellT | CaptionT => true | _ => false end.
Definition flex_container_t (t : bty) : bool :=
  match t with FlexT | InlineFlexT => true | _ => false end.
Definition grid_container_t (t : bty) : bool :=
  match t with GridT | InlineGridT => true | _ => false end.
Definition table_t (t : bty) : bool :=           (* TableBoxITF *)
  match t with TableT | InlineTableT => true | _ => false end.
Definition replaced_t (t : bty) : bool :=
  match t with BlockReplacedT | InlineReplacedT => true | _ => false end.
Definition atomic_inline_t (t : bty) : bool :=   (* AtomicInlineLevelBoxITF *)
  match t with InlineBlockT | InlineReplacedT => true | _ => false end.
Definition block_box_t (t : bty) : bool :=       (* BlockBoxITF *)
  match t with BlockT | CaptionT => true | _ => false end.
(* boxes_tree.go constructors: the three table-model flags *)
Definition proper_table_child_t (t : bty) : bool :=
  match t with RowGroupT | RowT | ColGroupT | ColT | CaptionT => true | _ => false end.
Definition internal_table_or_caption_t (t : bty) : bool :=
  match t with RowGroupT | RowT | ColGroupT | ColT | CaptionT | CellT => true | _ => false end.
Definition tabular_container_t (t : bty) : bool :=
  match t with TableT | InlineTableT | RowGroupT | RowT => true | _ => false end.

(* boxes.go:642-653 IsInProperParents: parent type p, child type c *)
Definition in_proper_parents (p c : bty) : bool :=
  match c with
  | RowGroupT | ColGroupT | CaptionT => table_t p
  | RowT => table_t p || bty_eqb p RowGroupT
  | ColT => table_t p || bty_eqb p ColGroupT
  | _ => false
  end.

Definition ptc (b : box) := proper_table_child_t (ty b).
Definition itc (b : box) := internal_table_or_caption_t (ty b).
Definition running (b : box) := a_run (at_ b).
Definition abspos (b : box) := a_abs (at_ b).
(* boxes.go:539 IsInNormalFlow (IsFootnote implies IsFloated) *)
Definition in_flow (b : box) := negb (a_float (at_ b) || a_abs (at_ b) || a_run (at_ b)).

(* ------------------------------------------------------------------ makeBox
   build.go:125-169.  A display value is its (up to) three keywords. *)
Inductive dword :=
| DEmpty | DBlock | DInline | DFlow | DFlowRoot | DTable | DFlex | DGrid | DListItem
| DTableRow | DTableRowGroup | DTableHeaderGroup | DTableFooterGroup | DTableColumn
| DTableColumnGroup | DTableCell | DTableCaption | DNone | DOther.

Definition make_box_type (d0 d1 d2 : dword) : option bty :=   (* d2 (list-item) is not looked at: 127 *)
  match d0, d1 with
  | DBlock, DFlow => Some BlockT
  | DInline, DFlow => Some InlineT
  | DBlock, DFlowRoot => Some BlockT
  | DInline, DFlowRoot => Some InlineBlockT
  | DBlock, DTable => Some TableT
  | DInline, DTable => Some InlineTableT
  | DBlock, DFlex => Some FlexT
  | DInline, DFlex => Some InlineFlexT
  | DBlock, DGrid => Some GridT
  | DInline, DGrid => Some InlineGridT
  | DTableRow, DEmpty => Some RowT
  | DTableRowGroup, DEmpty => Some RowGroupT
  | DTableHeaderGroup, DEmpty => Some RowGroupT
  | DTableFooterGroup, DEmpty => Some RowGroupT
  | DTableColumn, DEmpty => Some ColT
  | DTableColumnGroup, DEmpty => Some ColGroupT
  | DTableCell, DEmpty => Some CellT
  | DTableCaption, DEmpty => Some CaptionT
  | _, _ => None
  end.

(* ------------------------------------------------------------------ anonymous boxes
   stubs.go XxxAnonymousFrom(parent, children): element and pseudo type of the
   parent, an AnonymousStyle inheriting from the parent's style (float,
   position, display take their initial values; caption-side and white-space
   are inherited); boxes_tree.go:410-421: a cell reads colspan / rowspan from
   the element's attributes. *)
Definition mut0 : mut := mkM 0 0 0 false false false false false.
Definition new_mut (t : bty) (a : attrs) : mut :=
  match t with
  | CellT => mkM 0 (a_colspan a) (a_rowspan a) false false false false false
  | _ => mut0
  end.
Definition anon_attrs (p : attrs) : attrs :=
  mkA (a_el p) (a_pseudo p) true false false false (a_wsc p) 0 (a_cap p)
      (a_colspan p) (a_rowspan p) (a_span p) [].
Definition anon_from (t : bty) (parent : box) (children : list box) : box :=
  let a := anon_attrs (at_ parent) in Box t a (new_mut t a) children.

(* ------------------------------------------------------------------ text predicates *)
(* build.go:942-953 isWhitespace: a TextBox without any \S (RE2: \s = [\t\n\f\r ]) *)
Definition ws_char (c : N) : bool :=
  (N.eqb c 9 || N.eqb c 10 || N.eqb c 12 || N.eqb c 13 || N.eqb c 32)%N.
Definition is_whitespace (b : box) : bool := is TextT b && forallb ws_char (a_text (at_ b)).
(* strings.Trim(text, " ") == "" *)
Definition only_spaces (b : box) : bool := forallb (N.eqb 32) (a_text (at_ b)).

(* ------------------------------------------------------------------ wrapImproper
   build.go:955-1021.  rec = tableBoxesChildren (applied to the new wrapper) *)
Section WrapImproper.
  Variable rec : box -> list box -> res box.
  Variable b : box.
  Variable wty : bty.
  Variable test : box -> bool.

  Definition flush (improper_rev : list box) : res (list box) :=
    match improper_rev with
    | [] => Ok []
    | _ => let* w := rec (anon_from wty b []) (rev improper_rev) in Ok [w]   (* 979-981, 1001-1003 *)
    end.

  Fixpoint wi_go (children improper_rev : list box) : res (list box) :=
    match children with
    | [] => flush improper_rev                                   (* 1000-1006 *)
    | c :: rest =>
        if test c then                                           (* 977 *)
          let* w := flush improper_rev in
          let* r := wi_go rest [] in
          Ok (w ++ c :: r)
        else if flex_container_t (ty b) then wi_go rest improper_rev   (* 991-993: dropped *)
        else wi_go rest (c :: improper_rev)                      (* 995 *)
    end.
  Definition wrap_improper (children : list box) : res (list box) := wi_go children [].
End WrapImproper.

(* ------------------------------------------------------------------ wrapTable *)
Definition span_of (b : box) : Z :=          (* boxes_tree.go:368-373 TableColumnGroupBox.span *)
  match ch b with [] => a_span (at_ b) | l => Z.of_nat (length l) end.

Definition set_gridx (b : box) (x : Z) : box :=
  let m := mu b in set_mu b (mkM x (colspan m) (rowspan m) (is_hdr m) (is_ftr m) (is_wrap m) (is_flexitem m) (is_griditem m)).
Definition place_cell (b : box) (x rs : Z) : box :=
  let m := mu b in set_mu b (mkM x (colspan m) rs (is_hdr m) (is_ftr m) (is_wrap m) (is_flexitem m) (is_griditem m)).
Definition set_hdr (b : box) : box :=
  let m := mu b in set_mu b (mkM (gridx m) (colspan m) (rowspan m) true (is_ftr m) (is_wrap m) (is_flexitem m) (is_griditem m)).
Definition set_ftr (b : box) : box :=
  let m := mu b in set_mu b (mkM (gridx m) (colspan m) (rowspan m) (is_hdr m) true (is_wrap m) (is_flexitem m) (is_griditem m)).
Definition set_wrap (b : box) : box :=
  let m := mu b in set_mu b (mkM (gridx m) (colspan m) (rowspan m) (is_hdr m) (is_ftr m) true (is_flexitem m) (is_griditem m)).
Definition set_flexitem (b : box) (v : bool) : box :=
  let m := mu b in set_mu b (mkM (gridx m) (colspan m) (rowspan m) (is_hdr m) (is_ftr m) (is_wrap m) v (is_griditem m)).
Definition set_griditem (b : box) (v : bool) : box :=
  let m := mu b in set_mu b (mkM (gridx m) (colspan m) (rowspan m) (is_hdr m) (is_ftr m) (is_wrap m) (is_flexitem m) v).

(* 1165-1168: group by type; byType[child.Type()] is a nil pointer for any other type *)
Fixpoint classify (children : list box) : res (list box * list box * list box) :=
  match children with
  | [] => Ok ([], [], [])
  | c :: r =>
      let* (cols, rows, caps) := classify r in
      match ty c with
      | ColT | ColGroupT => Ok (c :: cols, rows, caps)
      | RowT | RowGroupT => Ok (cols, c :: rows, caps)
      | CaptionT => Ok (cols, rows, c :: caps)
      | _ => Panic 1167
      end
  end.

(* 1182-1195: X positions of column groups and columns *)
Fixpoint number_columns (x : Z) (cols : list box) : list box * Z :=
  match cols with
  | [] => ([], x)
  | c :: r => let (r', x') := number_columns (x + 1) r in (set_gridx c x :: r', x')
  end.
Fixpoint number_groups (x : Z) (groups : list box) : res (list box) :=
  match groups with
  | [] => Ok []
  | g :: r =>
      if negb (is ColGroupT g) then Panic 1181       (* collectTableColumnGroupBoxs type assertion, iters.go:35 *)
      else
        let g1 := set_gridx g x in
        let '(g2, x') :=
          match ch g with
          | [] => (g1, x + span_of g)
          | cols => let (cols', x') := number_columns x cols in (set_ch g1 cols', x')
          end in
        let* r' := number_groups x' r in Ok (g2 :: r')
  end.

(* 1205-1226: the first table-header-group / table-footer-group are moved *)
Fixpoint split_groups (groups : list box) (hdr ftr : option box) (body_rev : list box)
  : option box * option box * list box :=
  match groups with
  | [] => (hdr, ftr, rev body_rev)
  | g :: r =>
      if (a_disp (at_ g) =? 1) && (match hdr with None => true | _ => false end)
      then split_groups r (Some (set_hdr g)) ftr body_rev
      else if (a_disp (at_ g) =? 2) && (match ftr with None => true | _ => false end)
      then split_groups r hdr (Some (set_ftr g)) body_rev
      else split_groups r hdr ftr (g :: body_rev)
  end.
Definition reorder_groups (groups : list box) : list box :=
  let '(hdr, ftr, body) := split_groups groups None None [] in
  (match hdr with Some h => [h] | None => [] end) ++ body ++
  (match ftr with Some f => [f] | None => [] end).

(* 1234-1280 on boxes: cells are the children of the rows of the group *)
Definition box_assign_group (g : box) : res box :=
  let* rows := assign_group box box (fun c => colspan (mu c)) (fun c => rowspan (mu c))
                            place_cell ch set_ch (ch g) in
  Ok (set_ch g rows).
Fixpoint mapM {A B} (f : A -> res B) (l : list A) : res (list B) :=
  match l with
  | [] => Ok []
  | a :: r => let* b := f a in let* r' := mapM f r in Ok (b :: r')
  end.

(* the table keeps its style but for the properties of
   pr.TableWrapperBoxProperties (float, position, ...), which go to the
   wrapper: 1296-1305 *)
Definition table_attrs (a : attrs) : attrs :=
  mkA (a_el a) (a_pseudo a) (a_anon a) false false false (a_wsc a) (a_disp a) (a_cap a)
      (a_colspan a) (a_rowspan a) (a_span a) (a_text a).
Definition wrapper_attrs (a : attrs) : attrs :=
  mkA (a_el a) (a_pseudo a) true (a_float a) (a_abs a) (a_run a) (a_wsc a) 0 (a_cap a)
      (a_colspan a) (a_rowspan a) (a_span a) [].

Definition wrap_table (rec : box -> list box -> res box) (b : box) (children : list box) : res box :=
  let* (cols, rows, caps) := classify children in
  let cap_top := filter (fun c => a_cap (at_ c) =? 0) caps in            (* 1171-1179 *)
  let cap_bottom := filter (fun c => a_cap (at_ c) =? 1) caps in
  let* groups0 := wrap_improper rec b ColGroupT (is ColGroupT) cols in   (* 1181 *)
  let* groups := number_groups 0 groups0 in
  let* rgs0 := wrap_improper rec b RowGroupT (is RowGroupT) rows in      (* 1198 *)
  let rgs1 := reorder_groups rgs0 in
  let* rgs := mapM box_assign_group rgs1 in                              (* 1235-1280 *)
  let table := Box (ty b) (table_attrs (at_ b)) (mu b) (groups ++ rgs) in (* 1281-1284 *)
  let wty := if is InlineTableT b then InlineBlockT else BlockT in       (* 1288-1293 *)
  let wa := wrapper_attrs (at_ b) in
  Ok (set_wrap (Box wty wa (new_mut wty wa) (cap_top ++ table :: cap_bottom))).   (* 1294-1297 *)

(* ------------------------------------------------------------------ tableBoxesChildren
   build.go:1043-1144.  b still carries its original children (span() of a
   column group looks at them, 1060); children are the already processed ones.
   The recursion on the fresh wrappers is not structural: fuel
   (table_boxes_children_total in the proofs: 8 always suffices). *)
Definition rule_1_3 (b : box) (children : list box) : list box :=
  if tabular_container_t (ty b) && (2 <=? length children)%nat then
    let c1 :=
      match rev children with
      | text :: internal :: _ =>
          if itc internal && is_whitespace text then removelast children else children
      | _ => children
      end in
    match c1 with
    | text :: internal :: r =>
        if itc internal && is_whitespace text then internal :: r else c1
    | _ => c1
    end
  else children.

(* 1090-1104, rule 1.4 *)
Fixpoint rule_1_4 (prev : option box) (children : list box) : list box :=
  match children with
  | [] => []
  | c :: r =>
      let drop :=
        match prev, r with
        | Some p, n :: _ => itc p && itc n && is_whitespace c
        | _, _ => false
        end in
      if drop then rule_1_4 (Some c) r else c :: rule_1_4 (Some c) r
  end.

Fixpoint table_boxes_children (fuel : nat) (b : box) (children : list box) : res box :=
  match fuel with
  | O => OutOfFuel
  | S f =>
      let rec := table_boxes_children f in
      let c0 :=
        if is ColT b then []                                             (* rule 1.1 *)
        else if is ColGroupT b then                                      (* rule 1.2 *)
          match filter (is ColT) children with
          | [] => repeat (anon_from ColT b []) (Z.to_nat (Z.max 1 (span_of b)))   (* 1059-1067 *)
          | l => l
          end
        else children in
      let c1 := rule_1_3 b c0 in
      let c2 := rule_1_4 None c1 in
      let* c3 :=
        if table_t (ty b) then wrap_improper rec b RowT ptc c2           (* rule 2.1 *)
        else if is RowGroupT b then wrap_improper rec b RowT (is RowT) c2     (* rule 2.2 *)
        else Ok c2 in
      let* c4 :=
        if is RowT b then wrap_improper rec b CellT (is CellT) c3        (* rule 2.3 *)
        else wrap_improper rec b RowT (fun c => negb (is CellT c)) c3 in (* rule 3.1 *)
      let* c5 :=
        if is InlineT b then                                             (* rule 3.2 *)
          wrap_improper rec b InlineTableT (fun c => negb (ptc c)) c4
        else
          wrap_improper rec b TableT
            (fun c => negb (ptc c) || in_proper_parents (ty b) (ty c)) c4 in
      if table_t (ty b) then wrap_table rec b c5                         (* 1139-1141 *)
      else Ok (set_ch b c5)
  end.

Definition tbc_fuel : nat := 8.

(* build.go:1028-1040 *)
Fixpoint anonymous_table_boxes (b : box) : res box :=
  if negb (parent_t (ty b)) || running b then Ok b
  else
    let* children :=
      (fix go (l : list box) : res (list box) :=
         match l with
         | [] => Ok []
         | c :: r => let* c' := anonymous_table_boxes c in let* r' := go r in Ok (c' :: r')
         end) (ch b) in
    table_boxes_children tbc_fuel b children.

(* ------------------------------------------------------------------ flex / grid
   build.go:1535-1618 *)
Definition flex_children (b : box) (children : list box) : list box :=
  if flex_container_t (ty b) then
    flat_map (fun c =>
      let c1 := if negb (abspos c) then set_flexitem c true else c in    (* 1553-1555 *)
      if is TextT c1 && only_spaces c1 then []                            (* 1557-1562 *)
      else if inline_level_t (ty c1) then
        [set_flexitem (anon_from BlockT b [c1]) true]                     (* 1564-1567 *)
      else [c1]) children
  else children.

Fixpoint flex_boxes (b : box) : box :=
  if negb (parent_t (ty b)) || running b then b
  else set_ch b (flex_children b (map flex_boxes (ch b))).

Definition grid_children (b : box) (children : list box) : list box :=
  if grid_container_t (ty b) then
    flat_map (fun c =>
      let c1 := if negb (abspos c) then set_griditem c true else c in    (* 1596-1598 *)
      if is TextT c1 && only_spaces c1 then []                            (* 1599-1604 *)
      else if inline_level_t (ty c1) then
        (* 1606-1609: anonymous block from the child, with the child's own style *)
        let a := at_ c1 in
        let a' := mkA (a_el a) (a_pseudo a) (a_anon a) (a_float a) (a_abs a) (a_run a) (a_wsc a)
                      (a_disp a) (a_cap a) (a_colspan a) (a_rowspan a) (a_span a) [] in
        [set_griditem (Box BlockT a' mut0 [set_griditem c1 false]) true]
      else [c1]) children
  else children.

Fixpoint grid_boxes (b : box) : box :=
  if negb (parent_t (ty b)) || running b then b
  else set_ch b (grid_children b (map grid_boxes (ch b))).

(* ------------------------------------------------------------------ InlineInBlock
   build.go:1769-1849 *)
Definition empty_text (b : box) : bool :=
  is TextT b && match a_text (at_ b) with [] => true | _ => false end.
(* 1820: a single collapsible space at the start of a line *)
Definition lone_space (b : box) : bool :=
  is TextT b && match a_text (at_ b) with [32%N] => true | _ => false end && a_wsc (at_ b).

Definition line_of (b : box) (line_rev : list box) : box := anon_from LineT b (rev line_rev).

Fixpoint iib_lines (b : box) (children line_rev out_rev : list box) : res (list box) :=
  match children with
  | [] =>
      match line_rev, out_rev with                                        (* 1835-1845 *)
      | [], _ => Ok (rev out_rev)
      | _, [] => Ok [line_of b line_rev]
      | _, _ => Ok (rev (anon_from BlockT b [line_of b line_rev] :: out_rev))
      end
  | c :: r =>
      if is LineT c then Panic 1810
      else
        let in_line := match line_rev with [] => false | _ => true end in
        if in_line && abspos c then iib_lines b r (c :: line_rev) out_rev          (* 1812-1813 *)
        else if inline_level_t (ty c) || (in_line && negb (in_flow c)) then        (* 1814 *)
          if in_line || negb (lone_space c) then iib_lines b r (c :: line_rev) out_rev   (* 1820-1822 *)
          else iib_lines b r line_rev out_rev
        else
          let out1 :=
            if in_line then anon_from BlockT b [line_of b line_rev] :: out_rev     (* 1824-1831 *)
            else out_rev in
          iib_lines b r [] (c :: out1)                                              (* 1832 *)
  end.

Fixpoint inline_in_block (b : box) : res box :=
  match ch b with
  | [] => Ok b                                                             (* 1770 *)
  | _ =>
    if running b then Ok b
    else
      let* children :=
        (fix go (l : list box) : res (list box) :=
           match l with
           | [] => Ok []
           | c :: r =>
               if empty_text c then go r                                   (* 1791-1792 *)
               else let* c' := inline_in_block c in let* r' := go r in Ok (c' :: r')
           end) (ch b) in
      if negb (block_container_t (ty b)) then Ok (set_ch b children)       (* 1802-1805 *)
      else let* l := iib_lines b children [] [] in Ok (set_ch b l)
  end.

(* ------------------------------------------------------------------ BlockInInline
   build.go:1909-2026.  tree.ResumeStack (a map with one key) *)
Inductive stack := SNil | SCons (i : Z) (rest : stack).
Definition is_snil (s : stack) := match s with SNil => true | _ => false end.

(* s[i:] *)
Definition slice_from {A} (site : N) (l : list A) (i : Z) : res (list A) :=
  if (i <? 0) || (Z.of_nat (length l) <? i) then Panic site else Ok (skipn (Z.to_nat i) l).

Section Inner.
  Variable bii : box -> res box.                      (* BlockInInline on non inline children *)
  Variable inner : box -> stack -> res (box * option box * stack).   (* recursive call *)

  (* the loop 1985-2018 over box.Children[skip:] *)
  Fixpoint inner_loop (b : box) (children : list box) (index : Z) (skip_stack resume : stack)
           (new_rev : list box) : res (box * option box * stack) :=
    match children with
    | [] => Ok (set_ch b (rev new_rev), None, resume)                      (* 2019-2025 *)
    | c :: r =>
        if block_level_t (ty c) && in_flow c then                          (* 1987 *)
          if negb (is_snil skip_stack) then Panic 1989
          else Ok (set_ch b (rev new_rev), Some c, SCons (index + 1) resume)   (* 1991-1992, 2012-2016 *)
        else
          let* (nc, blk, resume', skip') :=
            if is InlineT c && negb (running c) then                        (* 1995-1997 *)
              let* (nc, blk, rs) := inner c skip_stack in Ok (nc, blk, rs, SNil)
            else if negb (is_snil skip_stack) then Panic 2000
            else let* nc := bii c in Ok (nc, None, resume, skip_stack)     (* 2002 *)
          in
          match blk with
          | Some _ => Ok (set_ch b (rev (nc :: new_rev)), blk, SCons index resume')   (* 2012-2016 *)
          | None => inner_loop b r (index + 1) skip' resume' (nc :: new_rev)
          end
    end.

  Definition inner_body (b : box) (st : stack) : res (box * option box * stack) :=
    let '(skip, st') := match st with SNil => (0, SNil) | SCons i r => (i, r) end in   (* 1976-1982 *)
    let* tl := slice_from 1985 (ch b) skip in
    inner_loop b tl skip st' SNil [].
End Inner.

Fixpoint block_in_inline (fuel : nat) (b : box) : res box :=
  match fuel with
  | O => OutOfFuel
  | S f =>
    match ch b with
    | [] => Ok b                                                           (* 1910 *)
    | _ =>
      if running b then Ok b
      else
        let inner :=
          (fix inner (n : nat) (x : box) (st : stack) : res (box * option box * stack) :=
             match n with
             | O => OutOfFuel
             | S n' => inner_body (block_in_inline f) (inner n') x st
             end) f in
        (* 1928-1937: resume in the same line box until no block is found *)
        let line_loop :=
          (fix line_loop (n : nat) (line : box) (st : stack) (acc_rev : list box) : res (list box) :=
             match n with
             | O => OutOfFuel
             | S n' =>
                 let* (new_line, blk, st') := inner line st in
                 match blk with
                 | None =>
                     match acc_rev with
                     | [] => Ok [new_line]                                              (* 1945 *)
                     | _ => Ok (rev (anon_from BlockT b [new_line] :: acc_rev))         (* 1942 *)
                     end
                 | Some blk =>
                     let* blk' := block_in_inline f blk in
                     line_loop n' line st' (blk' :: anon_from BlockT b [new_line] :: acc_rev)   (* 1933-1935 *)
                 end
             end) f in
        let* children :=
          (fix go (l : list box) : res (list box) :=
             match l with
             | [] => Ok []
             | c :: r =>
                 let* cs :=
                   if is LineT c then
                     if negb (length (ch b) =? 1)%nat then Panic 1921
                     else line_loop c SNil []
                   else let* c' := block_in_inline f c in Ok [c'] in
                 let* r' := go r in Ok (cs ++ r')
             end) (ch b) in
        Ok (set_ch b children)
    end
  end.

(* ------------------------------------------------------------------ CreateAnonymousBox
   build.go:91-99 *)
Fixpoint size (b : box) : nat :=
  S (fold_right (fun c n => size c + n)%nat O (ch b)).

Definition create_anonymous (b : box) : res box :=
  let* b1 := anonymous_table_boxes b in
  let b2 := flex_boxes b1 in
  let b3 := grid_boxes b2 in
  let* b4 := inline_in_block b3 in
  block_in_inline (S (size b4)) b4.
