(* Box/RunIIB.v -- InlineInBlock on documents with running elements (stage 4
   of Box/RunInv.v): Box/InlineInBlockProofs.v generalised. *)
From Verif Require Import Box.BoxGen Box.BoxWf Box.BoxBasics Box.BoxInv Box.TableFixupProofs Box.BoxSim
  Box.FlexGridProofs Box.InlineInBlockProofs Box.RunInv Box.RunSim Box.RunFlexGrid.
From Coq Require Import Lia.
Open Scope Z_scope.

Lemma rtab_keep c : rtab c = true -> keep c = true.
Proof. intros H. apply keep_nontext. apply rtab_not_text. assumption. Qed.

Lemma wrapper_okR_nontext tt l : tt <> TextT -> wrapper_okR tt l = true -> Forall (fun c => is TextT c = false) l.
Proof. unfold wrapper_okR. intros Ht H. bsplit. eapply wrapper_children_nontext; eassumption. Qed.

Lemma cokR_drop_empty b : cokR 3 b = true -> cokR 3 (set_ch b (filter keep (ch b))) = true.
Proof.
  intros H. destruct (running b) eqn:Er.
  { unfold cokR, run_sp in *. rewrite running_set_ch, mut_ok_set_ch, sp_set_ch. autorewrite with box. rewrite Er in *.
    simpl in *. bsplit. unfold is in *. autorewrite with box. brw. rewrite forallb_filter by assumption. reflexivity. }
  assert (Hcases : filter keep (ch b) = ch b \/
                   (match ty b with
                    | InlineT | CellT | CaptionT | FlexT | InlineFlexT | GridT | InlineGridT => true
                    | BlockT | InlineBlockT => negb (is_wrap (mu b))
                    | _ => false end = true)).
  { unfold cokR in H. rewrite Er in H. simpl in H. destruct (ty b) eqn:Et; bsplit; try (right; reflexivity);
      try (left; apply filter_keep_id; eapply forallb_is_nontext; [|eassumption]; discriminate);
      try (left; destruct (ch b); [reflexivity|discriminate]);
      try discriminate.
    - destruct (is_wrap (mu b)) eqn:Ew; [left|right; reflexivity].
      apply filter_keep_id. eapply wrapper_okR_nontext; [|eassumption]. discriminate.
    - destruct (is_wrap (mu b)) eqn:Ew; [left|right; reflexivity].
      apply filter_keep_id. eapply wrapper_okR_nontext; [|eassumption]. discriminate.
    - left. apply filter_keep_id. apply table_children_nontext. assumption.
    - left. apply filter_keep_id. apply table_children_nontext. assumption. }
  destruct Hcases as [E|E].
  - rewrite E. destruct b; assumption.
  - unfold cokR in *. rewrite running_set_ch, mut_ok_set_ch, sp_set_ch. autorewrite with box.
    rewrite (run_sp_nonrun (set_ch b (filter keep (ch b)))) by (rewrite running_set_ch; assumption).
    rewrite Er in *.
    unfold kids_flowR, kids_blockR in *.
    destruct (ty b); try discriminate; simpl in *;
      try (destruct (is_wrap (mu b)); try discriminate);
      bsplit; brw; simpl; rewrite ?forallb_filter by assumption; reflexivity.
Qed.

Lemma cokR_stage_34 b : block_container_t (ty b) = false -> ty b <> LineT -> cokR 4 b = cokR 3 b.
Proof. intros H Hl. unfold cokR. destruct (ty b); try discriminate; try reflexivity. congruence. Qed.
Lemma cokR_stage_34_wrapper b : is_wrap (mu b) = true -> ty b <> LineT -> cokR 4 b = cokR 3 b.
Proof. intros H Hl. unfold cokR. rewrite H. destruct (ty b); simpl; rewrite ?Bool.andb_false_r; try reflexivity; congruence. Qed.

Definition line_itemR (c : box) : Prop :=
  treeR (cokR 4) c = true /\
  (inline_flow_t (ty c) || (block_flow_t (ty c) && negb (in_flow c)) || rtab c) = true.
Definition block_itemR (c : box) : Prop := treeR (cokR 4) c = true /\ (block_flow_t (ty c) || rtab c) = true.

Lemma treeR_line b line_rev :
  attrs_okR (at_ b) = true -> Forall line_itemR line_rev -> treeR (cokR 4) (line_of b line_rev) = true.
Proof.
  intros Ha Hl. unfold line_of. apply treeR_intro.
  - unfold cokR, anon_from. cbn [ty at_ mu ch new_mut mut0 is_wrap]. cbv zeta.
    rewrite (attrs_okR_anon _ Ha). rewrite mut_ok_noncell by discriminate. simpl.
    rewrite Bool.andb_true_r. unfold kids_inlineR. apply forallb_Forall. apply Forall_rev.
    eapply Forall_impl; [|exact Hl]. intros c [_ E]; exact E.
  - simpl. apply Forall_rev. eapply Forall_impl; [|exact Hl]. intros c [E _]; exact E.
Qed.

Lemma treeR_anon_line_block b line_rev :
  attrs_okR (at_ b) = true -> Forall line_itemR line_rev ->
  block_itemR (anon_from BlockT b [line_of b line_rev]).
Proof.
  intros Ha Hl. split; [|reflexivity]. apply treeR_intro.
  - unfold cokR, anon_from. cbn [ty at_ mu ch new_mut mut0 is_wrap]. cbv zeta.
    rewrite (attrs_okR_anon _ Ha). rewrite mut_ok_noncell by discriminate. simpl.
    reflexivity.
  - simpl. constructor; [|constructor]. apply treeR_line; assumption.
Qed.

Lemma flowR_facts c : (flow_t (ty c) || rtab c) = true ->
  is LineT c = false /\
  (in_flow c = false -> (inline_flow_t (ty c) || (block_flow_t (ty c) && negb (in_flow c)) || rtab c) = true) /\
  (inline_level_t (ty c) = true -> (inline_flow_t (ty c) || (block_flow_t (ty c) && negb (in_flow c)) || rtab c) = true) /\
  (inline_level_t (ty c) = false -> (block_flow_t (ty c) || rtab c) = true).
Proof.
  intros H. apply Bool.orb_true_iff in H. destruct H as [H|H].
  - split; [apply is_false_iff; intros E; rewrite E in H; discriminate|]. split; [|split].
    + intros E. rewrite E. simpl. unfold flow_t in H. destruct (inline_flow_t (ty c)); [reflexivity|].
      rewrite Bool.orb_false_r in H. rewrite H. reflexivity.
    + intros E. rewrite (flow_inline _ H E). reflexivity.
    + intros E. rewrite (flow_split _ H E). reflexivity.
  - split; [|split; [|split]]; intros; rewrite ?H, ?Bool.orb_true_r; try reflexivity.
    + unfold rtab in H. bsplit. apply is_false_iff. intros E.
      match goal with H : table_t (ty c) = true |- _ => rewrite E in H; discriminate end.
Qed.

Lemma iib_lines_specR b : attrs_okR (at_ b) = true -> forall children line_rev out_rev out,
  Forall (fun c => treeR (cokR 4) c = true /\ (flow_t (ty c) || rtab c) = true) children ->
  Forall line_itemR line_rev -> Forall block_itemR out_rev ->
  iib_lines b children line_rev out_rev = Ok out ->
  Forall (fun c => treeR (cokR 4) c = true) out /\ (kids_blockR out || single_lineR out) = true.
Proof.
  intros Ha. induction children as [|c children IH]; intros line_rev out_rev out Hc Hl Ho H.
  - cbn [iib_lines] in H. destruct line_rev as [|x line_rev].
    + injection H as <-. split.
      * apply Forall_rev. eapply Forall_impl; [|exact Ho]. intros c [E _]; exact E.
      * apply Bool.orb_true_iff. left. apply forallb_Forall. apply Forall_rev.
        eapply Forall_impl; [|exact Ho]. intros c [_ E]; exact E.
    + destruct out_rev as [|y out_rev].
      * injection H as <-. split.
        -- constructor; [|constructor]. apply treeR_line; assumption.
        -- apply Bool.orb_true_iff. right. reflexivity.
      * injection H as <-.
        assert (Hall : Forall block_itemR (anon_from BlockT b [line_of b (x :: line_rev)] :: y :: out_rev)).
        { constructor; [apply treeR_anon_line_block; assumption|assumption]. }
        apply Forall_rev in Hall.
        split.
        -- eapply Forall_impl; [|exact Hall]. intros c [E _]; exact E.
        -- apply Bool.orb_true_iff. left. apply forallb_Forall.
           eapply Forall_impl; [|exact Hall]. intros c [_ E]; exact E.
  - inversion Hc as [|? ? [Hct Hcf] Hc']; subst. simpl in H.
    destruct (flowR_facts c Hcf) as (Enl & Hout & Hinl & Hblk).
    rewrite Enl in H.
    set (in_line := match line_rev with [] => false | _ => true end) in *.
    destruct (in_line && abspos c) eqn:E1.
    + apply andb_true_split in E1. destruct E1 as [_ Eabs].
      eapply IH; [assumption| |exact Ho|exact H].
      constructor; [|assumption]. split; [assumption|].
      apply Hout. apply abspos_not_in_flow. assumption.
    + destruct (inline_level_t (ty c) || (in_line && negb (in_flow c))) eqn:E2.
      * assert (Hitem : line_itemR c).
        { split; [assumption|]. apply Bool.orb_true_iff in E2. destruct E2 as [E2|E2].
          - apply Hinl. assumption.
          - apply andb_true_split in E2. destruct E2 as [_ E2]. apply Hout.
            apply Bool.negb_true_iff. assumption. }
        destruct (in_line || negb (lone_space c)).
        -- eapply IH; [assumption| |exact Ho|exact H]. constructor; assumption.
        -- eapply IH; [assumption|exact Hl|exact Ho|exact H].
      * apply Bool.orb_false_iff in E2. destruct E2 as [E2 _].
        assert (Hblock : block_itemR c) by (split; [assumption|apply Hblk; assumption]).
        eapply IH; [assumption|constructor| |exact H].
        constructor; [assumption|].
        destruct in_line; [|assumption].
        constructor; [apply treeR_anon_line_block; assumption|assumption].
Qed.

Lemma cokR3_not_line b : running b = false -> cokR 3 b = true -> ty b <> LineT.
Proof.
  intros Er Hk E. unfold cokR in Hk. rewrite Er, E in Hk. simpl in Hk. rewrite !Bool.andb_false_r in Hk. discriminate.
Qed.

Theorem iib_typedR : forall b b',
  treeR (cokR 3) b = true -> inline_in_block b = Ok b' ->
  treeR (cokR 4) b' = true /\ simR b b'.
Proof.
  induction b as [t a m l IH] using box_ind'. intros b' Ht H.
  rewrite iib_unfold in H. simpl ch in H.
  destruct (running (Box t a m l)) eqn:Er.
  { assert (b' = Box t a m l) as -> by (destruct l; congruence).
    split; [eapply treeR_running_stage; eassumption|apply simR_refl]. }
  apply treeR_inv in Ht; [|assumption]. destruct Ht as [Hk Hkids]. simpl ch in Hkids.
  assert (Hnl : t <> LineT) by (apply (cokR3_not_line _ Er Hk)).
  assert (HsR : forall x, sim (Box t a m l) x -> simR (Box t a m l) x).
  { intros x Hx. split; [assumption|rewrite Er; discriminate]. }
  destruct l as [|c0 l0] eqn:El.
  { injection H as <-. split; [|apply simR_refl].
    apply treeR_intro; [|constructor].
    unfold cokR in *. rewrite Er in *. simpl in *. destruct t; try assumption; try congruence;
      destruct (is_wrap m); assumption. }
  rewrite <- El in *. clear El c0 l0.
  apply bind_ok in H. destruct H as (children & Hc & H).
  pose proof (cokR_attrs _ _ Hk) as [Ha Hm]. simpl in Ha.
  eapply (iib_list_spec (fun c c' => treeR (cokR 4) c' = true /\ simR c c')) in Hc.
  2:{ rewrite Forall_forall in *. intros c Hin c' Hc'. apply (IH c Hin c'); auto. }
  assert (HsimR : Forall2 simR (filter keep l) children).
  { clear -Hc. induction Hc; constructor; tauto. }
  pose proof (Forall2_simR_sim _ _ HsimR) as Hsim.
  assert (Htree : Forall (fun c => treeR (cokR 4) c = true) children).
  { clear -Hc. induction Hc; constructor; tauto. }
  set (b0 := set_ch (Box t a m l) (filter keep l)).
  assert (Hk0 : cokR 3 b0 = true) by (apply (cokR_drop_empty (Box t a m l)); assumption).
  assert (Hgr : Forall (fun g => is RowGroupT g = true -> running g = false -> Forall (fun r => is RowT r = true) (ch g)) (ch b0)).
  { unfold b0. autorewrite with box. eapply kids_groups_have_rowsR. apply filter_Forall. eassumption. }
  assert (Hcs : forall l', Forall2 simR (filter keep l) l' -> cokR 4 (Box t a m l') = cokR 4 b0).
  { intros l' Hl'. change (Box t a m l') with (set_ch b0 l').
    apply cokR_sim; [unfold b0; rewrite running_set_ch; assumption|unfold b0; autorewrite with box; assumption|assumption]. }
  assert (Hsimb : forall l', (skeleton_t t = true -> Forall2 sim l l') -> simR (Box t a m l) (set_ch (Box t a m l) l')).
  { intros l' Hl'. apply HsR. apply sim_intro; autorewrite with box; try reflexivity; [unfold core_eq; tauto|assumption]. }
  assert (Hskel : skeleton_t t = true -> filter keep l = l).
  { intros Hs. apply filter_keep_id. unfold cokR in Hk. rewrite Er in Hk. simpl in Hk.
    destruct t; try discriminate; bsplit; eapply forallb_is_nontext; try eassumption; discriminate. }
  simpl ty in H. destruct (block_container_t t) eqn:Ebc; rewrite ?Ebc in H; simpl negb in H; cbv iota in H.
  - apply bind_ok in H. destruct H as (lines & Hlines & H). injection H as <-.
    assert (Hnsk : skeleton_t t = true -> Forall2 sim l lines).
    { intros Hs. destruct t; discriminate. }
    destruct (is_wrap m) eqn:Ew.
    + assert (Hwc : exists tt, (tt = TableT \/ tt = InlineTableT) /\ wrapper_children_ok tt l = true).
      { unfold cokR in Hk. rewrite Er in Hk. simpl in Hk. rewrite Ew in Hk. unfold wrapper_okR in Hk.
        destruct t; try discriminate; simpl in Hk; rewrite ?Bool.andb_false_r in Hk; try discriminate;
          bsplit; [exists TableT|exists InlineTableT]; auto. }
      destruct Hwc as (tt & Htt & Hwc).
      assert (Hnt : Forall (fun c => is TextT c = false) l).
      { eapply wrapper_children_nontext; [|exact Hwc]. destruct Htt as [-> | ->]; discriminate. }
      rewrite (filter_keep_id _ Hnt) in Hsim.
      assert (Hty : Forall (fun c => inline_level_t (ty c) = false /\ is LineT c = false) children).
      { pose proof (wrapper_children_types tt l Htt Hwc) as Hl.
        clear -Hsim Hl. induction Hsim as [|c c' l l' Hc Hll IHs]; [constructor|].
        inversion Hl; subst. constructor; [|auto].
        unfold is. rewrite (sim_ty _ _ Hc). assumption. }
      rewrite (iib_lines_blocks _ _ [] Hty) in Hlines. simpl in Hlines. injection Hlines as <-.
      split; [|apply Hsimb; assumption].
      apply treeR_intro; autorewrite with box; [|assumption].
      cbn [set_ch]. rewrite Hcs by assumption.
      rewrite cokR_stage_34_wrapper; [assumption| |]; unfold b0; autorewrite with box; auto.
    + assert (Hkf : kids_flowR l = true).
      { unfold cokR in Hk. rewrite Er in Hk. simpl in Hk. rewrite Ew in Hk.
        destruct t; try discriminate; simpl in Hk; bsplit; assumption. }
      assert (Hch : Forall (fun c => treeR (cokR 4) c = true /\ (flow_t (ty c) || rtab c) = true) children).
      { unfold kids_flowR in Hkf. apply forallb_Forall in Hkf.
        pose proof (filter_Forall _ keep _ Hkf) as Hkf'.
        clear -Hc Hkf'. induction Hc as [|c c' l1 l2 [H1 [H2 _]] Hll IHs]; [constructor|].
        inversion Hkf'; subst. constructor; [|auto]. split; [assumption|].
        rewrite (sim_ty _ _ H2), (sim_rtab _ _ H2). assumption. }
      destruct (iib_lines_specR (Box t a m l) Ha children [] [] lines Hch) as [Hlt Hlk]; auto.
      split; [|apply Hsimb; assumption].
      apply treeR_intro; autorewrite with box; [|assumption].
      unfold cokR. cbn [set_ch ty at_ mu ch].
      replace (mut_ok (Box t a m lines)) with (mut_ok (Box t a m l)) by reflexivity.
      replace (running (Box t a m lines)) with (running (Box t a m l)) by reflexivity.
      replace (sp (Box t a m lines)) with (sp (Box t a m l)) by reflexivity.
      rewrite (proj1 (cokR_sp _ _ Hk)), (run_sp_nonrun (Box t a m lines)) by exact Er.
      rewrite Ha, Hm, Ew, Er. simpl. rewrite Hlk.
      destruct t; try discriminate; reflexivity.
  - injection H as <-.
    split.
    + apply treeR_intro; autorewrite with box; [|assumption].
      cbn [set_ch]. rewrite Hcs by assumption.
      rewrite cokR_stage_34; [assumption| |]; unfold b0; autorewrite with box; auto.
    + apply Hsimb. intros Hs. rewrite <- (Hskel Hs) at 1. assumption.
Qed.

(* the children of a block container that is not running: no line box *)
Lemma block_container_kids_not_line b :
  running b = false -> cokR 3 b = true -> block_container_t (ty b) = true ->
  Forall (fun c => is LineT c = false) (ch b).
Proof.
  intros Er Hk Hb. unfold cokR in Hk. rewrite Er in Hk. simpl in Hk.
  apply andb_true_split in Hk. destruct Hk as [_ Hk].
  assert (Hw : forall tt, tt = TableT \/ tt = InlineTableT -> wrapper_okR tt (ch b) = true ->
               Forall (fun c => is LineT c = false) (ch b)).
  { intros tt Htt H. unfold wrapper_okR in H. bsplit.
    eapply Forall_impl; [|eapply wrapper_children_types; eassumption]. intros c [_ E]; exact E. }
  assert (Hf : kids_flowR (ch b) = true -> Forall (fun c => is LineT c = false) (ch b)).
  { intros H. apply forallb_Forall in H. eapply Forall_impl; [|exact H]. intros c Hc. apply (flowR_facts c Hc). }
  destruct (ty b); try discriminate; simpl in Hk;
    try (destruct (is_wrap (mu b)); [eapply Hw; [|eassumption]; auto|apply Hf; assumption]);
    bsplit; apply Hf; assumption.
Qed.

Lemma iib_unfold_run b : running b = true -> inline_in_block b = Ok b.
Proof. intros H. rewrite iib_unfold. destruct (ch b); [reflexivity|]. rewrite H. reflexivity. Qed.
Lemma iib_unfold_nonempty b : ch b <> [] -> running b = false ->
  inline_in_block b =
  let* children := iib_list (ch b) in
  if negb (block_container_t (ty b)) then Ok (set_ch b children)
  else let* l := iib_lines b children [] [] in Ok (set_ch b l).
Proof. intros H0 H. rewrite iib_unfold. destruct (ch b); [congruence|]. rewrite H. reflexivity. Qed.

Theorem iib_totalR : forall b, treeR (cokR 3) b = true -> exists b', inline_in_block b = Ok b'.
Proof.
  induction b as [t a m l IH] using box_ind'. intros Ht.
  destruct (running (Box t a m l)) eqn:Er.
  { rewrite iib_unfold_run by assumption. eauto. }
  assert (Hl : l = [] \/ l <> []) by (destruct l; [left; reflexivity|right; discriminate]).
  destruct Hl as [Hl|E]; [subst l; eexists; reflexivity|].
  rewrite iib_unfold_nonempty; [|exact E|assumption].
  pose proof Ht as Ht0. apply treeR_inv in Ht; [|assumption]. destruct Ht as [Hk Hkids]. simpl ch in *.
  destruct (iib_list_total l) as [children Hc].
  { rewrite Forall_forall in *. intros c Hin. apply IH; auto. }
  rewrite Hc. cbn [bind]. simpl ty.
  destruct (block_container_t t) eqn:Ebc; simpl negb; cbv iota; [|eauto].
  assert (Hnl : Forall (fun c => is LineT c = false) children).
  { eapply (iib_list_spec (fun c c' => treeR (cokR 4) c' = true /\ simR c c')) in Hc.
    2:{ rewrite Forall_forall in *. intros c Hin c' Hc'. apply (iib_typedR c c'); auto. }
    assert (Hsrc : Forall (fun c => is LineT c = false) (filter keep l)).
    { apply filter_Forall. apply (block_container_kids_not_line (Box t a m l) Er Hk Ebc). }
    clear -Hc Hsrc. induction Hc as [|c c' l1 l2 [_ [Hs _]] Hll IHs]; [constructor|].
    inversion Hsrc; subst. constructor; [|auto]. rewrite (sim_is _ _ _ Hs). assumption. }
  destruct (iib_lines_total (Box t a m l) children [] [] Hnl) as [out Ho]. rewrite Ho. simpl. eauto.
Qed.
