(* Box/RunWf.v -- the stage-5 invariant of Box/RunInv.v (documents with
   running elements) implies the specification Box/BoxWf.wf. *)
From Verif Require Import Box.BoxGen Box.BoxWf Box.BoxBasics Box.BoxInv Box.TableFixupProofs Box.RunInv.
From Coq Require Import Lia.
Open Scope Z_scope.

Lemma forallb_nonrun (q p : box -> bool) l :
  forallb q l = true -> (forall c, q c = true -> running c = false -> p c = true) ->
  forallb p (nonrun l) = true.
Proof.
  intros H Hqp. unfold nonrun. induction l as [|c l IH]; simpl in *; [reflexivity|].
  bsplit. destruct (running c) eqn:Er; simpl; [auto|]. rewrite (Hqp c) by assumption. auto.
Qed.

Lemma rtab_nonrun c : running c = false -> rtab c = false.
Proof. unfold rtab. intros ->. reflexivity. Qed.

Lemma nonrun_block l : kids_blockR l = true -> forallb (fun c => block_flow_t (ty c)) (nonrun l) = true.
Proof.
  intros H. eapply forallb_nonrun; [exact H|]. intros c Hc Hr. simpl in Hc.
  rewrite (rtab_nonrun _ Hr), Bool.orb_false_r in Hc. assumption.
Qed.
Lemma nonrun_inline l : kids_inlineR l = true ->
  forallb (fun c => inline_flow_t (ty c) || (block_flow_t (ty c) && negb (in_flow c))) (nonrun l) = true.
Proof.
  intros H. eapply forallb_nonrun; [exact H|]. intros c Hc Hr. simpl in Hc.
  rewrite (rtab_nonrun _ Hr), Bool.orb_false_r in Hc. assumption.
Qed.
Lemma nonrun_is t l : forallb (is t) l = true -> forallb (is t) (nonrun l) = true.
Proof. intros H. eapply forallb_nonrun; [exact H|]. auto. Qed.
Lemma nonrun_no_kids l : no_kids l = true -> nonrun l = [].
Proof. destruct l; [reflexivity|discriminate]. Qed.

Lemma nonrun_block_or_line l : kids_blockR l || single_lineR l = true ->
  forallb (fun c => block_flow_t (ty c)) (nonrun l) || match nonrun l with [c] => is LineT c | _ => false end = true.
Proof.
  intros H. apply Bool.orb_true_iff in H. destruct H as [H|H].
  - rewrite (nonrun_block _ H). reflexivity.
  - unfold single_lineR in H. destruct l as [|c [|d l]]; try discriminate. unfold nonrun. simpl.
    destruct (running c); simpl; [reflexivity|]. rewrite Bool.andb_true_r in H. rewrite H. apply Bool.orb_true_r.
Qed.

Lemma nonrun_table_children l : table_children_ok l = true -> table_children_ok (nonrun l) = true.
Proof.
  induction l as [|c l IH]; [reflexivity|]. intros H.
  change (table_children_ok (c :: l)) with (if is ColGroupT c then table_children_ok l else forallb (is RowGroupT) (c :: l)) in H.
  destruct (is ColGroupT c) eqn:Ec.
  - unfold nonrun in *. simpl. destruct (running c); simpl; [auto|]. rewrite Ec. auto.
  - apply nonrun_is in H. destruct (nonrun (c :: l)) as [|d r] eqn:E; [reflexivity|].
    change (table_children_ok (d :: r)) with (if is ColGroupT d then table_children_ok r else forallb (is RowGroupT) (d :: r)).
    destruct (is ColGroupT d) eqn:Ed; [|exact H].
    simpl in H. bsplit. apply is_true_iff in Ed.
    match goal with H : is RowGroupT d = true |- _ => apply is_true_iff in H; rewrite H in Ed; discriminate end.
Qed.

Lemma nonrun_groups l :
  forallb group_grid_ok (filter (is RowGroupT) l) = true ->
  forallb group_grid_ok (filter (is RowGroupT) (nonrun l)) = true.
Proof.
  unfold nonrun. induction l as [|c l IH]; simpl; [auto|]. intros H.
  destruct (running c); simpl.
  - destruct (is RowGroupT c); simpl in H; bsplit; auto.
  - destruct (is RowGroupT c); simpl in *; bsplit; brw; auto.
Qed.

Lemma cokR5_children_ok b : running b = false -> cokR 5 b = true -> children_ok b = true.
Proof.
  intros Hr Hk. unfold children_ok. fold (nonrun (ch b)).
  unfold cokR in Hk. rewrite Hr in Hk. apply andb_true_split in Hk. destruct Hk as [_ Hk]. simpl in Hk. cbv zeta in Hk.
  destruct (ty b) eqn:Et; unfold is; rewrite ?Et; simpl bty_eqb; cbv iota;
    try (destruct (is_wrap (mu b)) eqn:Ew; [unfold wrapper_okR in Hk; bsplit; assumption|]);
    bsplit;
    try (rewrite (nonrun_no_kids (ch b)) by assumption; reflexivity);
    try (apply nonrun_inline; assumption);
    try (apply nonrun_block_or_line; assumption);
    try (apply nonrun_block; assumption);
    try (apply (nonrun_is RowT); assumption);
    try (apply (nonrun_is CellT); assumption);
    try (apply (nonrun_is ColT); assumption);
    try (brw; simpl; apply nonrun_block_or_line; assumption);
    try (rewrite nonrun_table_children, nonrun_groups by assumption; reflexivity).
Qed.

Theorem treeR_cok5_wf b : treeR (cokR 5) b = true -> wf b = true.
Proof.
  induction b as [t a m l IH] using box_ind'. intros Ht.
  simpl. destruct (running (Box t a m l)) eqn:Er; [reflexivity|]. simpl.
  apply treeR_inv in Ht; [|assumption]. destruct Ht as [Hk Hkids]. simpl ch in *.
  apply andb_true_intro. split.
  - apply cokR5_children_ok; assumption.
  - apply forallb_Forall. rewrite Forall_forall in *. intros c Hc. apply IH; auto.
Qed.
