(* Box/RunBIITotal.v -- BlockInInline terminates without panic on documents
   with running elements: Box/BlockInInlineTotal.v generalised.  A resume
   stack only ever points into inline boxes that are NOT running (a running
   inline box is not entered: build.go:1995). *)
From Verif Require Import Box.BoxGen Box.BoxWf Box.BoxBasics Box.BoxInv Box.TableFixupProofs Box.BoxSim
  Box.FlexGridProofs Box.InlineInBlockProofs Box.BlockInInlineProofs Box.BlockInInlineTotal
  Box.RunInv Box.RunSim Box.RunFlexGrid Box.RunWf Box.RunIIB Box.RunBII.
From Coq Require Import Lia.
Open Scope Z_scope.

Fixpoint validR (x : box) (st : stack) : Prop :=
  match st with
  | SNil => True
  | SCons i rest =>
      (0 <= i <= Z.of_nat (length (ch x))) /\
      (rest = SNil \/
       exists c, nth_error (ch x) (Z.to_nat i) = Some c /\ is InlineT c = true /\ running c = false /\ validR c rest)
  end.

Lemma validR_valid st : forall x, validR x st -> valid x st.
Proof.
  induction st as [|i rest IH]; intros x H; [exact I|].
  destruct H as [Hi Hr]. split; [assumption|].
  destruct Hr as [->|(c & H1 & H2 & H3 & H4)]; [left; reflexivity|right]. exists c. auto.
Qed.

Definition bii_totR (f : nat) : Prop :=
  forall c, treeR (cokR 4) c = true -> bii_arg c -> (S (size c) <= f)%nat ->
            exists c', block_in_inline f c = Ok c'.

Definition inner_goodR (inner : box -> stack -> res (box * option box * stack)) (x : box) : Prop :=
  forall st, validR x st ->
    exists nb blk st', inner x st = Ok (nb, blk, st') /\
      (blk = None -> st' = SNil) /\
      (forall k, blk = Some k ->
         validR x st' /\ st' <> SNil /\ (pos x st < pos x st')%nat /\ (size k < size x)%nat).

Section LoopR.
  Variable f : nat.
  Variable inner : box -> stack -> res (box * option box * stack).
  Variable x : box.
  Hypothesis Hbt : bii_totR f.
  Hypothesis Hsz : (size x <= f)%nat.
  Hypothesis Hkids : Forall (fun c => treeR (cokR 4) c = true /\ (flow_t (ty c) || rtab c) = true) (ch x).
  Hypothesis Hinner : forall c, In c (ch x) -> is InlineT c = true -> running c = false -> inner_goodR inner c.

  Lemma inner_loop_totalR : forall children (idx : nat) sk new_rev,
    children = skipn idx (ch x) -> (idx <= length (ch x))%nat ->
    (sk = SNil \/ exists c, nth_error (ch x) idx = Some c /\ is InlineT c = true /\ running c = false /\ validR c sk) ->
    exists nb blk st',
      inner_loop (block_in_inline f) inner x children (Z.of_nat idx) sk SNil new_rev = Ok (nb, blk, st') /\
      (blk = None -> st' = SNil) /\
      (forall k, blk = Some k ->
         validR x st' /\ st' <> SNil /\ (pos x (SCons (Z.of_nat idx) sk) < pos x st')%nat /\ (size k < size x)%nat).
  Proof.
    induction children as [|c children IH]; intros idx sk new_rev Hch Hidx Hsk.
    - simpl. do 3 eexists. split; [reflexivity|]. split; [reflexivity|]. intros k E; discriminate.
    - assert (Hc : nth_error (ch x) idx = Some c).
      { rewrite <- (firstn_skipn idx (ch x)), <- Hch. rewrite nth_error_app2 by (rewrite firstn_length; lia).
        rewrite firstn_length. replace (idx - Nat.min idx (length (ch x)))%nat with O by lia. reflexivity. }
      assert (Hin : In c (ch x)) by (eapply nth_error_In; eassumption).
      assert (Hlt : (idx < length (ch x))%nat) by (apply nth_error_Some; congruence).
      assert (Hch' : children = skipn (S idx) (ch x)).
      { rewrite (skipn_S_tail (ch x) idx), <- Hch. reflexivity. }
      rewrite Forall_forall in Hkids. destruct (Hkids c Hin) as [Hct Hcf].
      destruct (flowR_facts c Hcf) as (Enl & _ & _ & _).
      assert (Hsizec : (size c < size x)%nat).
      { rewrite (size_eq x). pose proof (In_size_lt c (ch x) Hin). lia. }
      pose proof (sizes_firstn_S _ _ _ Hc) as Hfs.
      simpl inner_loop.
      destruct (block_level_t (ty c) && in_flow c) eqn:Eb.
      + (* an in-flow block: found *)
        assert (Esk : sk = SNil).
        { destruct Hsk as [E|(c0 & Hc0 & Hi0 & Hr0 & _)]; [assumption|].
          rewrite Hc in Hc0. injection Hc0 as <-. apply is_true_iff in Hi0. rewrite Hi0 in Eb. discriminate. }
        subst sk. simpl is_snil. simpl negb. cbv iota.
        do 3 eexists. split; [reflexivity|]. split; [intros E; discriminate|].
        intros k E. injection E as <-.
        replace (Z.of_nat idx + 1) with (Z.of_nat (S idx)) by lia.
        split; [simpl; split; [lia|left; reflexivity]|]. split; [discriminate|]. split; [|assumption].
        rewrite !pos_cons_nil, Hfs. pose proof (size_pos c). lia.
      + destruct (is InlineT c && negb (running c)) eqn:Einl.
        * (* a nested inline box *)
          apply andb_true_split in Einl. destruct Einl as [Einl Hnr]. apply Bool.negb_true_iff in Hnr.
          assert (Hvsk : validR c sk).
          { destruct Hsk as [->|(c0 & Hc0 & _ & _ & Hv0)]; [exact I|]. rewrite Hc in Hc0. injection Hc0 as <-. assumption. }
          destruct (Hinner c Hin Einl Hnr sk Hvsk) as (nc & blk & rs & Hcall & Hnone & Hsome).
          rewrite Hcall. cbn [bind].
          destruct blk as [k|].
          -- destruct (Hsome k eq_refl) as (V1 & V2 & V3 & V4).
             do 3 eexists. split; [reflexivity|]. split; [intros E; discriminate|].
             intros k0 E. injection E as <-.
             split.
             { simpl. rewrite Nat2Z.id. split; [lia|]. right. exists c. auto. }
             split; [discriminate|]. split; [|lia].
             rewrite (pos_cons_some x idx rs c Hc V2).
             destruct sk as [|j r]; [rewrite pos_cons_nil; lia|].
             rewrite (pos_cons_some x idx _ c Hc) by discriminate. lia.
          -- rewrite (Hnone eq_refl).
             destruct (IH (S idx) SNil (nc :: new_rev) Hch' ltac:(lia) (or_introl eq_refl)) as (nb & blk & st' & Hl & Hn & Hs).
             replace (Z.of_nat idx + 1) with (Z.of_nat (S idx)) by lia.
             do 3 eexists. split; [exact Hl|]. split; [exact Hn|].
             intros k E. destruct (Hs k E) as (V1 & V2 & V3 & V4). split; [assumption|]. split; [assumption|]. split; [|assumption].
             eapply Nat.le_lt_trans; [|exact V3].
             rewrite pos_cons_nil. apply (pos_le_next x idx sk c); [assumption|apply validR_valid; assumption].
        * (* any other box: BlockInInline on it *)
          assert (Esk : sk = SNil).
          { destruct Hsk as [E|(c0 & Hc0 & Hi0 & Hr0 & _)]; [assumption|].
            rewrite Hc in Hc0. injection Hc0 as <-. rewrite Hi0, Hr0 in Einl. discriminate. }
          subst sk. simpl is_snil. simpl negb. cbv iota.
          assert (Harg : bii_arg c).
          { destruct (running c) eqn:Er; [left; exact Er|right].
            simpl in Einl. rewrite Bool.andb_true_r in Einl. split; apply is_false_iff; assumption. }
          destruct (Hbt c Hct Harg ltac:(lia)) as [c' Hc'].
          rewrite Hc'. cbn [bind].
          destruct (IH (S idx) SNil (c' :: new_rev) Hch' ltac:(lia) (or_introl eq_refl)) as (nb & blk & st' & Hl & Hn & Hs).
          replace (Z.of_nat idx + 1) with (Z.of_nat (S idx)) by lia.
          do 3 eexists. split; [exact Hl|]. split; [exact Hn|].
          intros k E. destruct (Hs k E) as (V1 & V2 & V3 & V4). split; [assumption|]. split; [assumption|]. split; [|assumption].
          eapply Nat.le_lt_trans; [|exact V3]. rewrite !pos_cons_nil, Hfs. lia.
  Qed.

  Lemma inner_body_goodR : inner_goodR (inner_body (block_in_inline f) inner) x.
  Proof.
    intros st Hv. unfold inner_body.
    destruct st as [|i rest].
    - unfold slice_from. simpl. destruct (Z.of_nat (length (ch x)) <? 0) eqn:E; [lia|]. cbn [bind].
      destruct (inner_loop_totalR (ch x) O SNil [] eq_refl ltac:(lia) (or_introl eq_refl)) as (nb & blk & st' & Hl & Hn & Hs).
      do 3 eexists. split; [exact Hl|]. split; [exact Hn|].
      intros k E0. destruct (Hs k E0) as (V1 & V2 & V3 & V4).
      split; [exact V1|]. split; [exact V2|]. split; [|exact V4].
      rewrite pos_cons_nil in V3. simpl in V3. simpl pos at 1. exact V3.
    - destruct Hv as [Hi Hr]. unfold slice_from.
      destruct ((i <? 0) || (Z.of_nat (length (ch x)) <? i)) eqn:E; [lia|]. cbn [bind].
      destruct (inner_loop_totalR (skipn (Z.to_nat i) (ch x)) (Z.to_nat i) rest [] eq_refl ltac:(lia)) as (nb & blk & st' & Hl & Hn & Hs).
      { destruct Hr as [->|H]; [left; reflexivity|right; exact H]. }
      rewrite Z2Nat.id in Hl by lia.
      do 3 eexists. split; [exact Hl|]. split; [exact Hn|].
      intros k E0. destruct (Hs k E0) as (V1 & V2 & V3 & V4).
      split; [exact V1|]. split; [exact V2|]. split; [|exact V4].
      rewrite Z2Nat.id in V3 by lia. exact V3.
  Qed.
End LoopR.

Lemma line_like_kidsR x :
  treeR (cokR 4) x = true -> running x = false -> ty x = InlineT \/ ty x = LineT ->
  Forall (fun c => treeR (cokR 4) c = true /\ (flow_t (ty c) || rtab c) = true) (ch x).
Proof.
  intros Ht Er Hty. apply treeR_inv in Ht; [|assumption]. destruct Ht as [Hk Hkids].
  apply Forall_and; [assumption|]. apply line_like_kids_flowR; assumption.
Qed.

Lemma inner_f_goodR f : bii_totR f -> forall n x,
  (size x <= n)%nat -> (size x <= f)%nat -> treeR (cokR 4) x = true -> running x = false ->
  ty x = InlineT \/ ty x = LineT -> inner_goodR (inner_f f n) x.
Proof.
  intros Hbt. induction n as [|n IH]; intros x Hn Hf Ht Er Hty.
  - pose proof (size_pos x). lia.
  - simpl. apply inner_body_goodR; auto.
    + apply line_like_kidsR; assumption.
    + intros c Hin Hinl Hnr. pose proof (In_size_lt c (ch x) Hin). rewrite (size_eq x) in Hn, Hf.
      apply IH; try lia; try assumption.
      * pose proof (line_like_kidsR x Ht Er Hty) as Hk. rewrite Forall_forall in Hk. apply Hk. assumption.
      * left. apply is_true_iff. assumption.
Qed.

Lemma line_loop_totalR f b : bii_totR f -> forall m n line st acc,
  treeR (cokR 4) line = true -> running line = false -> ty line = LineT -> (size line <= f)%nat -> validR line st ->
  (sizes (ch line) - pos line st < m)%nat -> (m <= n)%nat ->
  exists out, line_loop_f f b n line st acc = Ok out.
Proof.
  intros Hbt. induction m as [|m IH]; intros n line st acc Ht Er Hty Hf Hv Hm Hn; [lia|].
  destruct n as [|n]; [lia|]. simpl.
  destruct (inner_f_goodR f Hbt f line ltac:(lia) Hf Ht Er (or_intror Hty) st Hv) as (nl & blk & st' & Hcall & Hnone & Hsome).
  rewrite Hcall. cbn [bind].
  destruct blk as [k|].
  - destruct (Hsome k eq_refl) as (V1 & V2 & V3 & V4).
    destruct (inner_f_specR f (bii_typedR f) f line st nl (Some k) st' Ht Er (or_intror Hty) Hcall) as (_ & _ & _ & T4).
    destruct (T4 k eq_refl) as [Hk4 Hkb].
    destruct (Hbt k Hk4) as [k' Hk'].
    + right. split; intros E; rewrite E in Hkb; discriminate.
    + lia.
    + rewrite Hk'. cbn [bind]. apply IH; auto.
      * pose proof (pos_bound st' line (validR_valid _ _ V1)). lia.
      * lia.
  - destruct acc; eauto.
Qed.

Lemma bii_running_ok f b : running b = true -> block_in_inline (S f) b = Ok b.
Proof. intros Er. rewrite bii_unfold. destruct (ch b); [reflexivity|]. rewrite Er. reflexivity. Qed.

Theorem bii_totalR : forall f, bii_totR f.
Proof.
  induction f as [|f IHf]; intros b Ht Harg Hsz; [lia|].
  destruct (running b) eqn:Er; [rewrite bii_running_ok by assumption; eauto|].
  destruct Harg as [Harg|[Hni Hnl]]; [congruence|].
  rewrite bii_unfold.
  pose proof Ht as Ht0. apply treeR_inv in Ht; [|assumption]. destruct Ht as [Hk Hkids].
  destruct (ch b) as [|c0 l0] eqn:Ech; [eauto|]. rewrite <- Ech in *.
  rewrite Er.
  assert (Hkid_size : forall c, In c (ch b) -> (S (size c) <= f)%nat).
  { intros c Hin. pose proof (In_size_lt c (ch b) Hin). rewrite (size_eq b) in Hsz. lia. }
  destruct (cokR4_kids b Hk Er Hni Hnl) as [(line & El & Etl & Erl & Ebc & Ew)|Hplain].
  - rewrite El. simpl.
    assert (E : is LineT line = true) by (apply is_true_iff; assumption). rewrite E.
    rewrite El. simpl.
    assert (Hline : treeR (cokR 4) line = true) by (rewrite El in Hkids; inversion Hkids; assumption).
    assert (Hin : In line (ch b)) by (rewrite El; left; reflexivity).
    specialize (Hkid_size line Hin).
    destruct (line_loop_totalR f b IHf (size line) f line SNil [] Hline Erl Etl ltac:(lia) I) as [cs Hcs].
    { simpl. rewrite (size_eq line). lia. }
    { lia. }
    rewrite Hcs. simpl. eauto.
  - assert (Hgo : forall l, (forall c, In c l -> In c (ch b)) -> exists out, go_f f b l = Ok out).
    { induction l as [|c l IHl]; intros Hsub; simpl; [eauto|].
      assert (Hin : In c (ch b)) by (apply Hsub; left; reflexivity).
      rewrite Forall_forall in Hplain, Hkids. destruct (Hplain c Hin) as [N1 N2].
      assert (E : is LineT c = false) by (apply is_false_iff; assumption). rewrite E.
      destruct (IHf c (Hkids c Hin) N1 (Hkid_size c Hin)) as [c' Hc']. rewrite Hc'. cbn [bind].
      destruct IHl as [r Hr]; [intros c1 H1; apply Hsub; right; assumption|].
      rewrite Hr. simpl. eauto. }
    destruct (Hgo (ch b) (fun c H => H)) as [out Ho]. rewrite Ho. simpl. eauto.
Qed.
