(* Box/RunTableA.v -- AnonymousTableBoxes on documents with running elements,
   part 1 (helper lemmas): Box/TableFixupProofs.v generalised to Box/RunInv.v. *)
From Verif Require Import Box.BoxGen Box.BoxWf Box.BoxBasics Box.BoxInv Box.TableGridProofs Box.TableFixupProofs
  Box.BoxSim Box.RunInv Box.RunSim Box.RunFlexGrid.
From Coq Require Import Lia.
Open Scope Z_scope.

Notation F1R := (fun c => fixedR 1 c = true).


(* what tableBoxesChildren needs of the box it is applied to *)
Definition shellR (b : box) : bool :=
  attrs_okR (at_ b) && mut_ok b && negb (is_wrap (mu b)) && negb (is LineT b) && parent_t (ty b) &&
  sp b && negb (running b).

Lemma andb_true_splitR a b : a && b = true -> a = true /\ b = true.
Proof. apply Bool.andb_true_iff. Qed.

Ltac bsplit :=
  repeat match goal with
         | H : _ && _ = true |- _ => apply andb_true_splitR in H; destruct H
         end.

Ltac brw := repeat match goal with H : ?x = true |- context[?x] => rewrite H end.

Lemma shell_anonR wty b : attrs_okR (at_ b) = true -> wrap_ty wty = true -> shellR (anon_from wty b []) = true.
Proof.
  intros Ha Hw. unfold attrs_okR in Ha. bsplit.
  unfold shellR, anon_from, attrs_okR, mut_ok, is, sp, running; simpl.
  destruct wty; try discriminate; simpl; brw; reflexivity.
Qed.

Lemma fixed_anon_colR b : attrs_okR (at_ b) = true -> fixedR 1 (anon_from ColT b []) = true.
Proof.
  intros Ha. unfold attrs_okR in Ha. bsplit.
  unfold fixedR, anon_from; simpl. unfold cokR, attrs_okR, mut_ok, is; simpl. brw. reflexivity.
Qed.

Lemma fixed_treeR st c : fixedR st c = true -> treeR (cokR st) c = true.
Proof. unfold fixedR. intros H. bsplit. assumption. Qed.

Lemma fixed_cokR st c : fixedR st c = true -> cokR st c = true.
Proof. intros H. apply fixed_treeR in H. rewrite treeR_unfold in H. bsplit. assumption. Qed.

Lemma cok_attrsR st c : cokR st c = true -> attrs_okR (at_ c) = true /\ mut_ok c = true.
Proof. unfold cokR. intros H. bsplit. auto. Qed.

Lemma cok1_not_lineR c : cokR 1 c = true -> is LineT c = false.
Proof.
  intros H. unfold cokR in H. bsplit. destruct (running c).
  - match goal with H : negb _ = true |- _ => apply Bool.negb_true_iff in H; exact H end.
  - apply is_false_iff. intros E. rewrite E in *. simpl in *. discriminate.
Qed.

(* a fixed box that is neither a cell nor a proper table child is a flow box (or a running bare table) *)
Lemma fixed_flowR c : fixedR 1 c = true -> is CellT c = false -> ptc c = false -> (flow_t (ty c) || rtab c) = true.
Proof.
  intros Hf Hc Hp. pose proof (cok1_not_lineR c (fixed_cokR _ _ Hf)) as Hl.
  unfold fixedR in Hf. bsplit. unfold is, ptc, rtab in *.
  destruct (running c); destruct (ty c); simpl in *; try reflexivity; discriminate.
Qed.

Lemma forallb_tree_of_fixedR st l : Forall (fun c => fixedR st c = true) l -> forallb (treeR (cokR st)) l = true.
Proof. intros H. apply forallb_Forall. eapply Forall_impl; [|exact H]. intros c. apply fixed_treeR. Qed.

(* cok only looks at the type, attributes, wrapper flag, cell spans and children *)
Lemma cok_extR st b b' :
  ty b' = ty b -> at_ b' = at_ b -> ch b' = ch b -> is_wrap (mu b') = is_wrap (mu b) ->
  mut_ok b' = mut_ok b -> sp b' = sp b -> cokR st b' = cokR st b.
Proof. apply cokR_ext. Qed.

Lemma mut_ok_extR b b' :
  ty b' = ty b -> colspan (mu b') = colspan (mu b) -> rowspan (mu b') = rowspan (mu b) -> mut_ok b' = mut_ok b.
Proof. intros H1 H2 H3. unfold mut_ok, is. rewrite H1, H2, H3. reflexivity. Qed.

Lemma tree_extR st b b' :
  ty b' = ty b -> at_ b' = at_ b -> ch b' = ch b -> is_wrap (mu b') = is_wrap (mu b) ->
  mut_ok b' = mut_ok b -> sp b' = sp b -> treeR (cokR st) b' = treeR (cokR st) b.
Proof. apply treeR_ext. Qed.

Lemma fixed_extR st b b' :
  ty b' = ty b -> at_ b' = at_ b -> ch b' = ch b -> is_wrap (mu b') = is_wrap (mu b) ->
  mut_ok b' = mut_ok b -> sp b' = sp b -> fixedR st b' = fixedR st b.
Proof.
  intros H1 H2 H3 H4 H5 H6. unfold fixedR, running. rewrite H1, H2. f_equal. apply tree_extR; assumption.
Qed.

Lemma fixed_set_gridxR st c x : fixedR st (set_gridx c x) = fixedR st c.
Proof. destruct c as [t a m l]. apply fixed_extR; try reflexivity. Qed.
Lemma fixed_set_hdrR st c : fixedR st (set_hdr c) = fixedR st c.
Proof. destruct c as [t a m l]. apply fixed_extR; try reflexivity. Qed.
Lemma fixed_set_ftrR st c : fixedR st (set_ftr c) = fixedR st c.
Proof. destruct c as [t a m l]. apply fixed_extR; try reflexivity. Qed.

(* ------------------------------------------------------------------ the grid on boxes *)

Lemma bgridx_placeR c x r : bgridx (place_cell c x r) = x. Proof. destruct c; reflexivity. Qed.
Lemma browspan_placeR c x r : browspan (place_cell c x r) = r. Proof. destruct c; reflexivity. Qed.
Lemma bcolspan_placeR c x r : bcolspan (place_cell c x r) = bcolspan c. Proof. destruct c; reflexivity. Qed.

Lemma group_slots_from_eqR y rows :
  group_slots_from y rows = rows_slots box box bcolspan browspan bgridx ch y rows.
Proof. revert y. induction rows as [|r rows IH]; intros y; simpl; [reflexivity|]. rewrite IH. reflexivity. Qed.

(* what the assignment preserves of a cell / of a row *)

Lemma row_placed_relR P y below x cs out :
  row_placed box bcolspan browspan place_cell P y below x cs out -> Forall2 cell_rel cs out.
Proof.
  induction 1; constructor; [|assumption].
  destruct c as [t a m l]. unfold cell_rel; simpl. repeat split; auto.
Qed.

Lemma rows_placed_relR P y n rows rows' :
  rows_placed box box bcolspan browspan bgridx place_cell ch set_ch P y n rows rows' ->
  Forall2 row_rel rows rows'.
Proof.
  induction 1; constructor; [|assumption].
  unfold row_rel. autorewrite with box. repeat split; auto.
  eapply row_placed_relR; eassumption.
Qed.

Lemma cok_rowgroupR st g : cokR st g = true -> running g = false -> ty g = RowGroupT -> Forall (fun r => is RowT r = true) (ch g).
Proof. apply cokR_rowgroup. Qed.
Lemma cok_rowR st r : cokR st r = true -> running r = false -> ty r = RowT -> Forall (fun c => is CellT c = true) (ch r).
Proof. unfold cokR. intros H Er E. rewrite Er, E in H. bsplit. apply forallb_Forall. assumption. Qed.
Lemma cok_colgroupR st r : cokR st r = true -> running r = false -> ty r = ColGroupT -> Forall (fun c => is ColT c = true) (ch r).
Proof. unfold cokR. intros H Er E. rewrite Er, E in H. bsplit. apply forallb_Forall. assumption. Qed.

(* cok of a table part whose children have the right types *)
Lemma cok_part_introR st b (t : bty) :
  sp b = true -> running b = false ->
  attrs_okR (at_ b) = true -> is_wrap (mu b) = false -> ty b = t ->
  match t with
  | RowGroupT => Forall (fun r => is RowT r = true) (ch b)
  | RowT => Forall (fun r => is CellT r = true) (ch b)
  | ColGroupT => Forall (fun r => is ColT r = true) (ch b)
  | _ => False
  end -> cokR st b = true.
Proof.
  intros Hs Er Ha Hw Et H. unfold cokR. rewrite Hs, (run_sp_nonrun _ Er), Er, Ha. unfold mut_ok, is. rewrite Et, Hw.
  destruct t; try contradiction; simpl; rewrite Bool.andb_true_r; apply forallb_Forall; assumption.
Qed.

Lemma cok_wrap_falseR st b : cokR st b = true -> running b = false ->
  ty b = RowGroupT \/ ty b = RowT \/ ty b = ColGroupT -> is_wrap (mu b) = false.
Proof.
  unfold cokR. intros H Er [E|[E|E]]; rewrite Er, E in H; bsplit;
    match goal with H : negb ?x = true |- _ => destruct x; [discriminate|reflexivity] end.
Qed.

Lemma cell_rel_sp c c' : cell_rel c c' -> sp c = true -> sp c' = true.
Proof.
  intros (H1 & H2 & H3 & H4 & H5 & H6) H. unfold sp in *. bsplit. rewrite H5.
  apply andb_true_intro. split; [assumption|]. apply Z.leb_le. lia.
Qed.
Lemma cell_rel_tree_sp c c' : cell_rel c c' -> tree sp c = true -> tree sp c' = true.
Proof.
  intros Hr H. rewrite tree_unfold in *. bsplit. rewrite (cell_rel_sp _ _ Hr) by assumption.
  destruct Hr as (_ & _ & -> & _). assumption.
Qed.
Lemma cell_rel_mut_ok c c' : cell_rel c c' -> sp c = true -> mut_ok c = true -> mut_ok c' = true.
Proof.
  intros Hr Hs Hm. pose proof (cell_rel_sp _ _ Hr Hs) as Hs'. unfold mut_ok, sp in *.
  destruct (is CellT c'); [assumption|reflexivity].
Qed.

Lemma cell_rel_treeR st c c' :
  cell_rel c c' -> treeR (cokR st) c = true -> treeR (cokR st) c' = true.
Proof.
  intros Hr Ht. pose proof (treeR_root _ _ Ht) as Hk.
  destruct (cokR_sp _ _ Hk) as [Hs _]. destruct (cokR_attrs _ _ Hk) as [_ Hm].
  pose proof (cell_rel_sp _ _ Hr Hs) as Hs'. pose proof (cell_rel_mut_ok _ _ Hr Hs Hm) as Hm'.
  destruct Hr as (H1 & H2 & H3 & H4 & H5 & H6).
  rewrite <- Ht. apply tree_extR; auto; congruence.
Qed.

Lemma Forall2_cell_rel_tree_sp l l' : Forall2 cell_rel l l' -> forallb (tree sp) l = true -> forallb (tree sp) l' = true.
Proof.
  induction 1 as [|c c' l l' Hc Hl IH]; simpl; intros H; [reflexivity|]. bsplit.
  rewrite (cell_rel_tree_sp _ _ Hc), IH by assumption. reflexivity.
Qed.

Lemma row_rel_tree_sp r r' : row_rel r r' -> tree sp r = true -> tree sp r' = true.
Proof.
  intros (H1 & H2 & H3 & H4) H. rewrite tree_unfold in *. bsplit.
  apply andb_true_intro. split; [unfold sp in *; rewrite H3; assumption|].
  eapply Forall2_cell_rel_tree_sp; eassumption.
Qed.

Lemma row_rel_treeR st r r' :
  row_rel r r' -> is RowT r = true -> treeR (cokR st) r = true ->
  treeR (cokR st) r' = true /\ is RowT r' = true.
Proof.
  intros (H1 & H2 & H3 & H4) Hr Ht.
  apply is_true_iff in Hr.
  split; [|apply is_true_iff; congruence].
  pose proof (treeR_root _ _ Ht) as Hk.
  destruct (cokR_sp _ _ Hk) as [Hs Hrs]. destruct (cokR_attrs _ _ Hk) as [Ha Hm].
  assert (Er' : running r' = running r) by (unfold running; rewrite H2; reflexivity).
  assert (Hs' : sp r' = true) by (unfold sp in *; rewrite H3; assumption).
  destruct (running r) eqn:Er.
  - (* a running row: its children, whatever they are, keep fields >= 0 *)
    apply treeR_running; [congruence|].
    unfold cokR. rewrite Hs', Er', H2, Ha. unfold run_sp. rewrite Er'. simpl.
    unfold run_sp in Hrs. rewrite Er in Hrs. simpl in Hrs.
    rewrite (Forall2_cell_rel_tree_sp _ _ H4 Hrs).
    unfold mut_ok, is. rewrite H1, Hr. reflexivity.
  - apply treeR_inv in Ht; [|assumption]. destruct Ht as [_ Hkids].
    pose proof (cok_rowR _ _ Hk Er Hr) as Hcells.
    assert (Hk2 : Forall (fun c => is CellT c = true) (ch r') /\ Forall (fun c => treeR (cokR st) c = true) (ch r')).
    { clear Hk Hrs. induction H4 as [|c c' l l' Hcc Hll IH]; [split; constructor|].
      inversion Hcells; subst. inversion Hkids; subst. destruct IH as [IH1 IH2]; auto.
      split; constructor; auto.
      - destruct Hcc as (E & _). unfold is in *. rewrite E. assumption.
      - eapply cell_rel_treeR; eauto. }
    destruct Hk2 as [Hk1 Hk2]. apply treeR_intro; [|assumption].
    apply (cok_part_introR st r' RowT); try congruence.
    rewrite H3. apply (cok_wrap_falseR st r Hk Er). auto.
Qed.

(* the children of the children of a box that satisfies the invariant have fields >= 0 *)
Lemma treeR_sp st c : treeR (cokR st) c = true -> sp c = true.
Proof. intros H. apply treeR_root in H. apply (cokR_sp _ _ H). Qed.
Lemma tree_sp_root c : tree sp c = true -> sp c = true.
Proof. rewrite tree_unfold. intros H. bsplit. assumption. Qed.
Lemma treeR_kids_sp st r : treeR (cokR st) r = true -> Forall (fun c => sp c = true) (ch r).
Proof.
  intros H. destruct (running r) eqn:Er.
  - apply treeR_root in H. apply cokR_sp in H. destruct H as [_ H]. unfold run_sp in H. rewrite Er in H. simpl in H.
    apply forallb_Forall in H. eapply Forall_impl; [|exact H]. intros c. apply tree_sp_root.
  - apply treeR_inv in H; [|assumption]. destruct H as [_ H].
    eapply Forall_impl; [|exact H]. intros c. apply treeR_sp.
Qed.
Lemma treeR_grandkids_sp st g : treeR (cokR st) g = true ->
  Forall (fun r => Forall (fun c => sp c = true) (ch r)) (ch g).
Proof.
  intros H. destruct (running g) eqn:Er.
  - apply treeR_root in H. apply cokR_sp in H. destruct H as [_ H]. unfold run_sp in H. rewrite Er in H. simpl in H.
    apply forallb_Forall in H. eapply Forall_impl; [|exact H]. intros r Hr. cbv beta in Hr. rewrite tree_unfold in Hr. bsplit.
    match goal with H : forallb (tree sp) (ch r) = true |- _ => apply forallb_Forall in H; eapply Forall_impl; [|exact H] end.
    intros c. apply tree_sp_root.
  - apply treeR_inv in H; [|assumption]. destruct H as [_ H].
    eapply Forall_impl; [|exact H]. intros r. apply treeR_kids_sp.
Qed.

Lemma sp_bounds c : sp c = true -> 0 <= bcolspan c /\ 0 <= browspan c.
Proof. unfold sp, bcolspan, browspan. intros H. bsplit. lia. Qed.

Lemma box_assign_group_typedR st g g' :
  treeR (cokR st) g = true -> is RowGroupT g = true -> box_assign_group g = Ok g' ->
  treeR (cokR st) g' = true /\ is RowGroupT g' = true /\ group_grid_ok g' = true /\
  at_ g' = at_ g /\ mu g' = mu g.
Proof.
  intros Ht Hg H. unfold box_assign_group in H.
  apply bind_ok in H. destruct H as (rows' & Hrows & H). injection H as <-.
  pose proof Hg as Hg'. apply is_true_iff in Hg'.
  pose proof (treeR_root _ _ Ht) as Hcok.
  assert (Hsp : rows_spans_ok box box bcolspan browspan ch (ch g)).
  { unfold rows_spans_ok, spans_ok. eapply Forall_impl; [|exact (treeR_grandkids_sp _ _ Ht)].
    intros r Hr. eapply Forall_impl; [|exact Hr]. intros c. apply sp_bounds. }
  destruct (assign_group_spec box box bcolspan browspan bgridx place_cell ch set_ch
              bgridx_place browspan_place bcolspan_place ch_set_ch (ch g) Hsp)
    as (rows2 & Hag & Hrp & Haf & Hig).
  unfold bcolspan, browspan in Hag. rewrite Hrows in Hag. injection Hag as <-.
  apply rows_placed_rel in Hrp.
  assert (Hlen : length rows' = length (ch g)) by (symmetry; eapply Forall2_len; eassumption).
  destruct (cokR_sp _ _ Hcok) as [Hs Hrs]. destruct (cokR_attrs _ _ Hcok) as [Ha Hm].
  assert (Hgrid : group_grid_ok (set_ch g rows') = true).
  { unfold group_grid_ok, group_slots. autorewrite with box. rewrite group_slots_from_eq.
    rewrite Haf. rewrite Hlen. assumption. }
  split; [|split; [unfold is; autorewrite with box; assumption|split; [assumption|split; autorewrite with box; reflexivity]]].
  destruct (running g) eqn:Er.
  - apply treeR_running; [rewrite running_set_ch; assumption|].
    unfold cokR. rewrite sp_set_ch, running_set_ch, mut_ok_set_ch, Hs, Er, Hm. autorewrite with box. rewrite Ha.
    unfold run_sp in *. rewrite running_set_ch, Er in *. simpl in *. autorewrite with box.
    assert (Hts : forallb (tree sp) rows' = true).
    { clear -Hrp Hrs. induction Hrp as [|r r' l l' Hr Hl IH]; simpl in *; [reflexivity|]. bsplit.
      rewrite (row_rel_tree_sp _ _ Hr), IH by assumption. reflexivity. }
    rewrite Hts. unfold is. autorewrite with box. rewrite Hg'. reflexivity.
  - apply treeR_inv in Ht; [|assumption]. destruct Ht as [_ Hkids].
    pose proof (cok_rowgroupR _ _ Hcok Er Hg') as Hrows_t.
    assert (Hk : Forall (fun r => is RowT r = true) rows' /\ Forall (fun r => treeR (cokR st) r = true) rows').
    { clear Haf Hig Hlen Hrows Hsp Hcok Hgrid Hrs. induction Hrp as [|r r' l l' Hrr Hll IH]; [split; constructor|].
      inversion Hkids; subst. inversion Hrows_t; subst. destruct IH as [IH1 IH2]; auto.
      destruct (row_rel_treeR st r r' Hrr H3 H1) as [E1 E2].
      split; constructor; auto. }
    destruct Hk as [Hk1 Hk2].
    apply treeR_intro; autorewrite with box; [|assumption].
    apply (cok_part_introR st _ RowGroupT); autorewrite with box; auto.
    + rewrite sp_set_ch. assumption.
    + rewrite running_set_ch. assumption.
    + apply (cok_wrap_falseR st g Hcok Er). auto.
Qed.

Lemma tree_sp_set_gridx c x : tree sp (set_gridx c x) = tree sp c.
Proof. destruct c; reflexivity. Qed.

Lemma number_columns_sp cols : forall x,
  forallb (tree sp) cols = true -> forallb (tree sp) (fst (number_columns x cols)) = true.
Proof.
  induction cols as [|c cols IH]; intros x H; simpl; [reflexivity|]. simpl in H. bsplit.
  specialize (IH (x + 1) ltac:(assumption)).
  destruct (number_columns (x + 1) cols) as [r' x']. simpl in *. rewrite tree_sp_set_gridx. brw. reflexivity.
Qed.

Lemma number_columns_typedR st x cols :
  Forall (fun c => fixedR st c = true /\ is ColT c = true) cols ->
  Forall (fun c => fixedR st c = true /\ is ColT c = true) (fst (number_columns x cols)).
Proof.
  revert x. induction cols as [|c cols IH]; intros x H; simpl; [constructor|].
  inversion H; subst. specialize (IH (x + 1) H3).
  destruct (number_columns (x + 1) cols) as [r' x']. simpl in *.
  constructor; [|assumption]. destruct H2 as [H1 H2]. split.
  - rewrite fixed_set_gridxR. assumption.
  - destruct c; assumption.
Qed.

Lemma fixed_colgroup_introR st g l :
  fixedR st g = true -> running g = false -> ty g = ColGroupT ->
  Forall (fun c => fixedR st c = true /\ is ColT c = true) l ->
  fixedR st (set_ch g l) = true.
Proof.
  intros Hf Er Et Hl. unfold fixedR. autorewrite with box. rewrite Et. simpl. rewrite Bool.orb_true_r, Bool.andb_true_r.
  apply fixed_cokR in Hf. apply cok_attrsR in Hf as Ha. destruct Ha as [Ha _].
  apply treeR_intro; autorewrite with box.
  - apply (cok_part_introR st _ ColGroupT); autorewrite with box; auto.
    + rewrite sp_set_ch. apply (cokR_sp _ _ Hf).
    + rewrite running_set_ch. assumption.
    + apply (cok_wrap_falseR st g Hf Er). auto.
    + eapply Forall_impl; [|exact Hl]. intros c [_ H]. exact H.
  - eapply Forall_impl; [|exact Hl]. intros c [H _]. apply fixed_treeR. exact H.
Qed.

(* a running box keeps its invariant when its children are replaced by boxes with fields >= 0 *)
Lemma fixedR_running_set_ch st g l :
  fixedR st g = true -> running g = true -> forallb (tree sp) l = true -> fixedR st (set_ch g l) = true.
Proof.
  intros Hf Er Hl. unfold fixedR. rewrite running_set_ch, Er. simpl. rewrite Bool.andb_true_r.
  apply fixed_cokR in Hf. apply treeR_running; [rewrite running_set_ch; assumption|].
  unfold cokR, run_sp in *. rewrite sp_set_ch, running_set_ch, mut_ok_set_ch. autorewrite with box.
  rewrite Er in *. simpl in *. bsplit. unfold is in *. autorewrite with box. brw. reflexivity.
Qed.

Local Arguments number_columns : simpl never.

Lemma number_groups_typedR st groups : forall x out,
  Forall (fun g => fixedR st g = true /\ ty g = ColGroupT) groups ->
  number_groups x groups = Ok out ->
  Forall (fun g => fixedR st g = true /\ ty g = ColGroupT) out.
Proof.
  induction groups as [|g groups IH]; intros x out H; simpl.
  - intros E; injection E as <-. constructor.
  - inversion H; subst. destruct H2 as [Hf Et].
    assert (Eis : is ColGroupT g = true) by (apply is_true_iff; assumption).
    rewrite Eis. simpl.
    destruct (ch g) as [|c0 cols0] eqn:Ech.
    + intros E. apply bind_ok in E. destruct E as (r' & Hr & E). injection E as <-.
      constructor; [|eapply IH; eassumption].
      split; [rewrite fixed_set_gridxR; assumption|destruct g; assumption].
    + pose proof (number_columns_typedR st x (c0 :: cols0)) as Hnc.
      pose proof (number_columns_sp (c0 :: cols0) x) as Hns.
      destruct (number_columns x (c0 :: cols0)) as [cols' x'] eqn:Enc.
      intros E. apply bind_ok in E. destruct E as (r' & Hr & E). injection E as <-.
      constructor; [|eapply IH; eassumption].
      split; [|autorewrite with box; destruct g; assumption].
      assert (Erg : running (set_gridx g x) = running g) by (destruct g; reflexivity).
      destruct (running g) eqn:Er.
      * apply fixedR_running_set_ch; [rewrite fixed_set_gridxR; assumption|assumption|].
        apply Hns. rewrite <- Ech.
        apply fixed_cokR in Hf. apply cokR_sp in Hf. destruct Hf as [_ Hf]. unfold run_sp in Hf. rewrite Er in Hf. exact Hf.
      * apply fixed_colgroup_introR.
        -- rewrite fixed_set_gridxR. assumption.
        -- assumption.
        -- destruct g; assumption.
        -- apply Hnc. rewrite <- Ech.
           pose proof (fixed_treeR _ _ Hf) as Ht. pose proof (treeR_root _ _ Ht) as Hk.
           apply treeR_inv in Ht; [|assumption]. destruct Ht as [_ Hkids].
           pose proof (cok_colgroupR _ _ Hk Er Et) as Hcols.
           rewrite Forall_forall in *. intros c Hc. split; [|auto].
           unfold fixedR. rewrite (Hkids c Hc). specialize (Hcols c Hc). apply is_true_iff in Hcols.
           rewrite Hcols. simpl. apply Bool.orb_true_r.
Qed.
