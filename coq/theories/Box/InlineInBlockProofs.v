(* Box/InlineInBlockProofs.v -- InlineInBlock: after it every block container
   holds either only block-level boxes or exactly one line box, and line
   boxes hold only inline-level (or out-of-flow) boxes: stage 4 of BoxInv. *)
From Verif Require Import Box.BoxGen Box.BoxWf Box.BoxBasics Box.BoxInv Box.TableFixupProofs Box.BoxSim Box.FlexGridProofs.
From Coq Require Import Lia.
Open Scope Z_scope.

Definition keep (c : box) : bool := negb (empty_text c).

Definition iib_list : list box -> res (list box) :=
  fix go (l : list box) : res (list box) :=
    match l with
    | [] => Ok []
    | c :: r =>
        if empty_text c then go r
        else let* c' := inline_in_block c in let* r' := go r in Ok (c' :: r')
    end.

Lemma iib_unfold b :
  inline_in_block b =
  match ch b with
  | [] => Ok b
  | _ =>
    if running b then Ok b
    else
      let* children := iib_list (ch b) in
      if negb (block_container_t (ty b)) then Ok (set_ch b children)
      else let* l := iib_lines b children [] [] in Ok (set_ch b l)
  end.
Proof. destruct b as [t a m [|c l]]; reflexivity. Qed.

Lemma iib_list_spec (P : box -> box -> Prop) l : forall l',
  Forall (fun c => forall c', inline_in_block c = Ok c' -> P c c') l ->
  iib_list l = Ok l' -> Forall2 P (filter keep l) l'.
Proof.
  induction l as [|c l IH]; intros l' H E; simpl in E.
  - injection E as <-. constructor.
  - inversion H; subst. simpl. unfold keep at 1. destruct (empty_text c); simpl; [auto|].
    apply bind_ok in E. destruct E as (c' & Hc & E).
    apply bind_ok in E. destruct E as (r' & Hr & E). injection E as <-.
    constructor; auto.
Qed.

(* ------------------------------------------------------------------ dropping empty text boxes *)
Lemma keep_nontext c : is TextT c = false -> keep c = true.
Proof. intros H. unfold keep, empty_text. rewrite H. reflexivity. Qed.

Lemma filter_keep_id l : Forall (fun c => is TextT c = false) l -> filter keep l = l.
Proof.
  induction 1 as [|c l Hc Hl IH]; simpl; [reflexivity|]. rewrite (keep_nontext _ Hc), IH. reflexivity.
Qed.

Lemma forallb_filter {A} (f g : A -> bool) l : forallb f l = true -> forallb f (filter g l) = true.
Proof.
  intros H. apply forallb_Forall. apply forallb_Forall in H. apply Forall_forall.
  intros x Hx. apply filter_In in Hx. rewrite Forall_forall in H. apply H. tauto.
Qed.

Lemma forallb_is_nontext t l : t <> TextT -> forallb (is t) l = true -> Forall (fun c => is TextT c = false) l.
Proof.
  intros Ht H. apply forallb_Forall in H. eapply Forall_impl; [|exact H].
  intros c Hc. apply is_true_iff in Hc. apply is_false_iff. congruence.
Qed.

Lemma wrapper_children_nontext tt l : tt <> TextT -> wrapper_children_ok tt l = true -> Forall (fun c => is TextT c = false) l.
Proof.
  intros Ht. induction l as [|c l IH]; simpl; [discriminate|].
  destruct (is CaptionT c) eqn:Ec.
  - intros H. constructor; [|auto]. apply is_true_iff in Ec. apply is_false_iff. congruence.
  - intros H. apply andb_true_split in H. destruct H as [H1 H2]. constructor.
    + apply is_true_iff in H1. apply is_false_iff. congruence.
    + eapply forallb_is_nontext; [|exact H2]. discriminate.
Qed.

Lemma table_children_nontext l : table_children_ok l = true -> Forall (fun c => is TextT c = false) l.
Proof.
  induction l as [|c l IH]; simpl; [constructor|].
  destruct (is ColGroupT c) eqn:Ec.
  - intros H. constructor; [|auto]. apply is_true_iff in Ec. apply is_false_iff. congruence.
  - intros H. apply andb_true_split in H. destruct H as [H1 H2]. constructor.
    + apply is_true_iff in H1. apply is_false_iff. congruence.
    + eapply forallb_is_nontext; [|exact H2]. discriminate.
Qed.

(* before stage 4, dropping the empty text boxes of a box keeps its invariant *)
Lemma cok_drop_empty b : cok 3 b = true -> cok 3 (set_ch b (filter keep (ch b))) = true.
Proof.
  intros H.
  assert (Hcases : filter keep (ch b) = ch b \/
                   (match ty b with
                    | InlineT | CellT | CaptionT | FlexT | InlineFlexT | GridT | InlineGridT => true
                    | BlockT | InlineBlockT => negb (is_wrap (mu b))
                    | _ => false end = true)).
  { unfold cok in H. destruct (ty b) eqn:Et; bsplit; try (right; reflexivity);
      try (left; apply filter_keep_id; eapply forallb_is_nontext; [|eassumption]; discriminate);
      try (left; destruct (ch b); [reflexivity|discriminate]);
      try discriminate.
    - destruct (is_wrap (mu b)) eqn:Ew; [left|right; reflexivity].
      apply filter_keep_id. eapply wrapper_children_nontext; [|eassumption]. discriminate.
    - destruct (is_wrap (mu b)) eqn:Ew; [left|right; reflexivity].
      apply filter_keep_id. eapply wrapper_children_nontext; [|eassumption]. discriminate.
    - left. apply filter_keep_id. apply table_children_nontext. assumption.
    - left. apply filter_keep_id. apply table_children_nontext. assumption. }
  destruct Hcases as [E|E].
  - rewrite E. destruct b; assumption.
  - unfold cok in *. autorewrite with box.
    replace (mut_ok (set_ch b (filter keep (ch b)))) with (mut_ok b) by (unfold mut_ok, is; autorewrite with box; reflexivity).
    unfold kids_flow, kids_block in *.
    destruct (ty b); try discriminate; simpl in *;
      try (destruct (is_wrap (mu b)); try discriminate);
      bsplit; brw; simpl; rewrite ?forallb_filter by assumption; reflexivity.
Qed.

Lemma cok_stage_34 b : block_container_t (ty b) = false -> ty b <> LineT -> cok 4 b = cok 3 b.
Proof. intros H Hl. unfold cok. destruct (ty b); try discriminate; try reflexivity. congruence. Qed.

Lemma cok_stage_34_wrapper b : is_wrap (mu b) = true -> ty b <> LineT -> cok 4 b = cok 3 b.
Proof. intros H Hl. unfold cok. rewrite H. destruct (ty b); simpl; rewrite ?Bool.andb_false_r; try reflexivity; congruence. Qed.

(* ------------------------------------------------------------------ the line-building loop *)
Definition line_item (c : box) : Prop :=
  tree (cok 4) c = true /\
  (inline_flow_t (ty c) || (block_flow_t (ty c) && negb (in_flow c))) = true.
Definition block_item (c : box) : Prop := tree (cok 4) c = true /\ block_flow_t (ty c) = true.

Lemma abspos_not_in_flow c : abspos c = true -> in_flow c = false.
Proof. unfold abspos, in_flow. intros H. rewrite H. rewrite Bool.orb_true_r. reflexivity. Qed.

Lemma tree_line b line_rev :
  attrs_ok (at_ b) = true -> Forall line_item line_rev -> tree (cok 4) (line_of b line_rev) = true.
Proof.
  intros Ha Hl. unfold line_of. apply tree_intro.
  - unfold cok, anon_from. cbn [ty at_ mu ch new_mut mut0 is_wrap]. cbv zeta.
    rewrite (attrs_ok_anon _ Ha). rewrite mut_ok_noncell by discriminate. simpl.
    rewrite Bool.andb_true_r. unfold kids_inline. apply forallb_Forall. apply Forall_rev.
    eapply Forall_impl; [|exact Hl]. intros c [_ E]; exact E.
  - simpl. apply Forall_rev. eapply Forall_impl; [|exact Hl]. intros c [E _]; exact E.
Qed.

Lemma tree_anon_line_block b line_rev :
  attrs_ok (at_ b) = true -> Forall line_item line_rev ->
  block_item (anon_from BlockT b [line_of b line_rev]).
Proof.
  intros Ha Hl. split; [|reflexivity]. apply tree_intro.
  - unfold cok, anon_from. cbn [ty at_ mu ch new_mut mut0 is_wrap]. cbv zeta.
    rewrite (attrs_ok_anon _ Ha). rewrite mut_ok_noncell by discriminate. simpl.
    reflexivity.
  - simpl. constructor; [|constructor]. apply tree_line; assumption.
Qed.

Lemma iib_lines_spec b : attrs_ok (at_ b) = true -> forall children line_rev out_rev out,
  Forall (fun c => tree (cok 4) c = true /\ flow_t (ty c) = true) children ->
  Forall line_item line_rev -> Forall block_item out_rev ->
  iib_lines b children line_rev out_rev = Ok out ->
  Forall (fun c => tree (cok 4) c = true) out /\ (kids_block out || single_line out) = true.
Proof.
  intros Ha. induction children as [|c children IH]; intros line_rev out_rev out Hc Hl Ho H.
  - cbn [iib_lines] in H. destruct line_rev as [|x line_rev].
    + injection H as <-. split.
      * apply Forall_rev. eapply Forall_impl; [|exact Ho]. intros c [E _]; exact E.
      * apply Bool.orb_true_iff. left. apply forallb_Forall. apply Forall_rev.
        eapply Forall_impl; [|exact Ho]. intros c [_ E]; exact E.
    + destruct out_rev as [|y out_rev].
      * injection H as <-. split.
        -- constructor; [|constructor]. apply tree_line; assumption.
        -- apply Bool.orb_true_iff. right. reflexivity.
      * injection H as <-.
        assert (Hall : Forall block_item (anon_from BlockT b [line_of b (x :: line_rev)] :: y :: out_rev)).
        { constructor; [apply tree_anon_line_block; assumption|assumption]. }
        apply Forall_rev in Hall.
        split.
        -- eapply Forall_impl; [|exact Hall]. intros c [E _]; exact E.
        -- apply Bool.orb_true_iff. left. apply forallb_Forall.
           eapply Forall_impl; [|exact Hall]. intros c [_ E]; exact E.
  - inversion Hc as [|? ? [Hct Hcf] Hc']; subst. simpl in H.
    assert (Enl : is LineT c = false).
    { apply is_false_iff. intros E. rewrite E in Hcf. discriminate. }
    rewrite Enl in H.
    set (in_line := match line_rev with [] => false | _ => true end) in *.
    destruct (in_line && abspos c) eqn:E1.
    + apply andb_true_split in E1. destruct E1 as [_ Eabs].
      eapply IH; [assumption| |exact Ho|exact H].
      constructor; [|assumption]. split; [assumption|].
      rewrite (abspos_not_in_flow _ Eabs). simpl.
      unfold flow_t in Hcf. destruct (inline_flow_t (ty c)); [reflexivity|].
      rewrite Bool.orb_false_r in Hcf. rewrite Hcf. reflexivity.
    + destruct (inline_level_t (ty c) || (in_line && negb (in_flow c))) eqn:E2.
      * assert (Hitem : line_item c).
        { split; [assumption|]. apply Bool.orb_true_iff in E2. destruct E2 as [E2|E2].
          - rewrite (flow_inline _ Hcf E2). reflexivity.
          - apply andb_true_split in E2. destruct E2 as [_ E2]. rewrite E2.
            unfold flow_t in Hcf. destruct (inline_flow_t (ty c)); [reflexivity|].
            rewrite Bool.orb_false_r in Hcf. rewrite Hcf. reflexivity. }
        destruct (in_line || negb (lone_space c)).
        -- eapply IH; [assumption| |exact Ho|exact H]. constructor; assumption.
        -- eapply IH; [assumption|exact Hl|exact Ho|exact H].
      * apply Bool.orb_false_iff in E2. destruct E2 as [E2 _].
        assert (Hblock : block_item c) by (split; [assumption|apply flow_split; assumption]).
        eapply IH; [assumption|constructor| |exact H].
        constructor; [assumption|].
        destruct in_line; [|assumption].
        constructor; [apply tree_anon_line_block; assumption|assumption].
Qed.

(* children that are neither inline-level nor line boxes are left alone *)
Lemma iib_lines_blocks b children : forall out_rev,
  Forall (fun c => inline_level_t (ty c) = false /\ is LineT c = false) children ->
  iib_lines b children [] out_rev = Ok (rev out_rev ++ children).
Proof.
  induction children as [|c children IH]; intros out_rev H; simpl.
  - rewrite app_nil_r. reflexivity.
  - inversion H as [|? ? [H1 H2] H']; subst. rewrite H2, H1. simpl.
    rewrite IH by assumption. simpl. rewrite <- app_assoc. reflexivity.
Qed.

Lemma wrapper_children_types tt l :
  tt = TableT \/ tt = InlineTableT -> wrapper_children_ok tt l = true ->
  Forall (fun c => inline_level_t (ty c) = false /\ is LineT c = false) l.
Proof.
  intros Htt. induction l as [|c l IH]; simpl; [constructor|].
  destruct (is CaptionT c) eqn:Ec.
  - intros H. constructor; [|auto]. apply is_true_iff in Ec. unfold is. rewrite Ec. split; reflexivity.
  - intros H. apply andb_true_split in H. destruct H as [H1 H2]. constructor.
    + apply is_true_iff in H1. unfold is. rewrite H1. destruct Htt as [-> | ->]; split; reflexivity.
    + apply forallb_Forall in H2. eapply Forall_impl; [|exact H2].
      intros x Hx. apply is_true_iff in Hx. unfold is. rewrite Hx. split; reflexivity.
Qed.

(* ------------------------------------------------------------------ the pass *)
Lemma filter_Forall {A} (P : A -> Prop) f l : Forall P l -> Forall P (filter f l).
Proof. intros H. apply Forall_forall. intros x Hx. apply filter_In in Hx. rewrite Forall_forall in H. apply H; tauto. Qed.

Theorem iib_typed : forall b b',
  tree (cok 3) b = true -> inline_in_block b = Ok b' ->
  tree (cok 4) b' = true /\ sim b b'.
Proof.
  induction b as [t a m l IH] using box_ind'. intros b' Ht H.
  apply tree_inv in Ht. destruct Ht as [Hk Hkids]. simpl ch in Hkids.
  rewrite iib_unfold in H. simpl ch in H.
  assert (Hnl : t <> LineT).
  { intros ->. unfold cok in Hk. simpl in Hk. rewrite !Bool.andb_false_r in Hk. discriminate. }
  destruct l as [|c0 l0] eqn:El.
  { injection H as <-. split; [|apply sim_refl].
    apply tree_intro; [|constructor].
    unfold cok in *. simpl in *. destruct t; try assumption; try congruence;
      destruct (is_wrap m); assumption. }
  rewrite <- El in *. clear El c0 l0.
  rewrite (cok_not_running _ _ Hk) in H.
  apply bind_ok in H. destruct H as (children & Hc & H).
  pose proof (cok_attrs _ _ Hk) as [Ha Hm]. simpl in Ha.
  (* the children after recursion *)
  eapply (iib_list_spec (fun c c' => tree (cok 4) c' = true /\ sim c c')) in Hc.
  2:{ rewrite Forall_forall in *. intros c Hin c' Hc'. apply (IH c Hin c'); auto. }
  assert (Hsim : Forall2 sim (filter keep l) children).
  { clear -Hc. induction Hc; constructor; tauto. }
  assert (Htree : Forall (fun c => tree (cok 4) c = true) children).
  { clear -Hc. induction Hc; constructor; tauto. }
  set (b0 := set_ch (Box t a m l) (filter keep l)).
  assert (Hk0 : cok 3 b0 = true) by (apply (cok_drop_empty (Box t a m l)); assumption).
  assert (Hgr : Forall (fun g => is RowGroupT g = true -> Forall (fun r => is RowT r = true) (ch g)) (ch b0)).
  { unfold b0. autorewrite with box. eapply kids_groups_have_rows. apply filter_Forall. eassumption. }
  assert (Hcs : forall l', Forall2 sim (filter keep l) l' -> cok 4 (Box t a m l') = cok 4 b0).
  { intros l' Hl'. change (Box t a m l') with (set_ch b0 l').
    apply cok_sim; [unfold b0; autorewrite with box; assumption|assumption]. }
  assert (Hsimb : forall l', (skeleton_t t = true -> Forall2 sim l l') -> sim (Box t a m l) (set_ch (Box t a m l) l')).
  { intros l' Hl'. apply sim_intro; autorewrite with box; try reflexivity; [unfold core_eq; tauto|assumption]. }
  assert (Hskel : skeleton_t t = true -> filter keep l = l).
  { intros Hs. apply filter_keep_id. unfold cok in Hk. simpl in Hk.
    destruct t; try discriminate; bsplit; eapply forallb_is_nontext; try eassumption; discriminate. }
  simpl ty in H. destruct (block_container_t t) eqn:Ebc; rewrite ?Ebc in H; simpl negb in H; cbv iota in H.
  - apply bind_ok in H. destruct H as (lines & Hlines & H). injection H as <-.
    assert (Hnsk : skeleton_t t = true -> Forall2 sim l lines).
    { intros Hs. destruct t; discriminate. }
    destruct (is_wrap m) eqn:Ew.
    + (* a table wrapper: captions and the table are not inline-level *)
      assert (Hwc : exists tt, (tt = TableT \/ tt = InlineTableT) /\ wrapper_children_ok tt l = true).
      { unfold cok in Hk. simpl in Hk. rewrite Ew in Hk.
        destruct t; try discriminate; simpl in Hk; rewrite ?Bool.andb_false_r in Hk; try discriminate;
          bsplit; [exists TableT|exists InlineTableT]; auto. }
      destruct Hwc as (tt & Htt & Hwc).
      assert (Hnt : Forall (fun c => is TextT c = false) l).
      { eapply wrapper_children_nontext; [|exact Hwc]. destruct Htt as [-> | ->]; discriminate. }
      rewrite (filter_keep_id _ Hnt) in Hsim.
      assert (Hty : Forall (fun c => inline_level_t (ty c) = false /\ is LineT c = false) children).
      { pose proof (wrapper_children_types tt l Htt Hwc) as Hl.
        clear -Hsim Hl. induction Hsim as [|c c' l l' Hc Hll IHs]; [constructor|].
        inversion Hl; subst. constructor; [|auto].
        unfold is. rewrite (sim_ty _ _ Hc). assumption. }
      rewrite (iib_lines_blocks _ _ [] Hty) in Hlines. simpl in Hlines. injection Hlines as <-.
      split; [|apply Hsimb; assumption].
      apply tree_intro; autorewrite with box; [|assumption].
      cbn [set_ch]. rewrite Hcs by (rewrite (filter_keep_id _ Hnt); assumption).
      rewrite cok_stage_34_wrapper; [assumption| |]; unfold b0; autorewrite with box; auto.
    + (* a block container: line boxes are built *)
      assert (Hkf : kids_flow l = true).
      { unfold cok in Hk. simpl in Hk. rewrite Ew in Hk.
        destruct t; try discriminate; simpl in Hk; bsplit; assumption. }
      assert (Hch : Forall (fun c => tree (cok 4) c = true /\ flow_t (ty c) = true) children).
      { unfold kids_flow in Hkf. apply forallb_Forall in Hkf.
        pose proof (filter_Forall _ keep _ Hkf) as Hkf'.
        clear -Hc Hkf'. induction Hc as [|c c' l1 l2 [H1 H2] Hll IHs]; [constructor|].
        inversion Hkf'; subst. constructor; [|auto]. split; [assumption|].
        rewrite (sim_ty _ _ H2). assumption. }
      destruct (iib_lines_spec (Box t a m l) Ha children [] [] lines Hch) as [Hlt Hlk]; auto.
      split; [|apply Hsimb; assumption].
      apply tree_intro; autorewrite with box; [|assumption].
      unfold cok. cbn [set_ch ty at_ mu ch].
      replace (mut_ok (Box t a m lines)) with (mut_ok (Box t a m l)) by reflexivity.
      rewrite Ha, Hm, Ew. simpl. rewrite Hlk.
      destruct t; try discriminate; reflexivity.
  - injection H as <-.
    split.
    + apply tree_intro; autorewrite with box; [|assumption].
      cbn [set_ch]. rewrite Hcs by assumption.
      rewrite cok_stage_34; [assumption| |]; unfold b0; autorewrite with box; auto.
    + apply Hsimb. intros Hs. rewrite <- (Hskel Hs) at 1. assumption.
Qed.

(* ------------------------------------------------------------------ totality *)
Lemma iib_lines_total b children : forall line_rev out_rev,
  Forall (fun c => is LineT c = false) children -> exists out, iib_lines b children line_rev out_rev = Ok out.
Proof.
  induction children as [|c children IH]; intros line_rev out_rev H; simpl.
  - destruct line_rev; [eauto|]. destruct out_rev; eauto.
  - inversion H; subst. rewrite H2.
    destruct ((match line_rev with [] => false | _ :: _ => true end) && abspos c); [apply IH; assumption|].
    destruct (inline_level_t (ty c) || (match line_rev with [] => false | _ :: _ => true end) && negb (in_flow c)).
    + destruct ((match line_rev with [] => false | _ :: _ => true end) || negb (lone_space c)); apply IH; assumption.
    + apply IH; assumption.
Qed.

Lemma iib_list_total l :
  Forall (fun c => exists c', inline_in_block c = Ok c') l -> exists l', iib_list l = Ok l'.
Proof.
  induction 1 as [|c l [c' Hc] Hl [l' IH]]; simpl; [eauto|].
  destruct (empty_text c); [eauto|]. rewrite Hc. simpl. rewrite IH. simpl. eauto.
Qed.

(* InlineInBlock never panics on a tree the first three passes produced *)
Theorem iib_total : forall b, tree (cok 3) b = true -> exists b', inline_in_block b = Ok b'.
Proof.
  induction b as [t a m l IH] using box_ind'. intros Ht.
  pose proof Ht as Ht0. apply tree_inv in Ht. destruct Ht as [Hk Hkids]. simpl ch in Hkids.
  rewrite iib_unfold. simpl ch.
  destruct l as [|c0 l0] eqn:El; [eauto|]. rewrite <- El in *. clear El c0 l0.
  rewrite (cok_not_running _ _ Hk).
  destruct (iib_list_total l) as [children Hc].
  { rewrite Forall_forall in *. intros c Hin. apply IH; auto. }
  rewrite Hc. cbn [bind]. simpl ty.
  destruct (block_container_t t) eqn:Ebc; simpl negb; cbv iota; [|eauto].
  (* no child is a line box: children are sim to boxes that are not *)
  assert (Hnl : Forall (fun c => is LineT c = false) children).
  { eapply (iib_list_spec (fun c c' => tree (cok 4) c' = true /\ sim c c')) in Hc.
    2:{ rewrite Forall_forall in *. intros c Hin c' Hc'. apply (iib_typed c c'); auto. }
    assert (Hsrc : Forall (fun c => is LineT c = false) (filter keep l)).
    { apply filter_Forall. eapply Forall_impl; [|exact Hkids]. intros c Hc0.
      apply tree_inv in Hc0. destruct Hc0 as [Hc0 _]. apply is_false_iff. intros E.
      unfold cok in Hc0. rewrite E in Hc0. simpl in Hc0. rewrite !Bool.andb_false_r in Hc0. discriminate. }
    clear -Hc Hsrc. induction Hc as [|c c' l1 l2 [_ Hs] Hll IHs]; [constructor|].
    inversion Hsrc; subst. constructor; [|auto]. rewrite (sim_is _ _ _ Hs). assumption. }
  destruct (iib_lines_total (Box t a m l) children [] [] Hnl) as [out Ho]. rewrite Ho. simpl. eauto.
Qed.
