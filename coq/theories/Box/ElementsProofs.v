(* Box/ElementsProofs.v -- the anonymous-box fix-up invents no element: every
   box of the result belongs to the element of some box of the input tree
   (anonymous boxes take the element of the box they are created from).  So a
   display:none element, for which elementToBox generates no box, has no box
   in the formatting structure either. *)
From Verif Require Import Box.BoxGen Box.BoxWf Box.BoxBasics Box.BoxInv Box.TableFixupProofs
  Box.InlineInBlockProofs Box.BlockInInlineProofs.
From Coq Require Import Lia.
Open Scope Z_scope.

Section Els.
  Variable p : Z -> bool.
  Definition elp (b : box) : bool := p (a_el (at_ b)).
  Notation EL := (fun c => tree elp c = true).

  Lemma el_intro b l : elp b = true -> Forall EL l -> tree elp (set_ch b l) = true.
  Proof.
    intros H1 H2. apply tree_intro; autorewrite with box; [|assumption].
    unfold elp in *. autorewrite with box. assumption.
  Qed.

  Lemma el_anon t b l : elp b = true -> Forall EL l -> tree elp (anon_from t b l) = true.
  Proof. intros H1 H2. apply tree_intro; [exact H1|exact H2]. Qed.

  Lemma el_root b : tree elp b = true -> elp b = true.
  Proof. intros H. apply tree_inv in H. tauto. Qed.
  Lemma el_kids b : tree elp b = true -> Forall EL (ch b).
  Proof. intros H. apply tree_inv in H. tauto. Qed.

  Lemma el_ext b b' : a_el (at_ b') = a_el (at_ b) -> ch b' = ch b -> tree elp b' = tree elp b.
  Proof. intros H1 H2. rewrite !tree_unfold, H2. unfold elp. rewrite H1. reflexivity. Qed.

  (* ---------------------------------------------------------------- grid assignment *)
  Lemma assign_cells_el cs : forall o rest x out rest',
    assign_cells box (fun c => colspan (mu c)) (fun c => rowspan (mu c)) place_cell o rest x cs = Ok (out, rest') ->
    Forall EL cs -> Forall EL out.
  Proof.
    induction cs as [|c cs IH]; intros o rest x out rest' H Hc; simpl in H.
    - injection H as <- _. constructor.
    - inversion Hc as [|? ? Hc1 Hc2]; subst.
      apply bind_ok in H. destruct H as (gx & _ & H).
      apply bind_ok in H. destruct H as ([rs' rest1] & _ & H).
      apply bind_ok in H. destruct H as ([out1 rest2] & Hrec & H). injection H as <- _.
      constructor; [|eapply IH; eassumption].
      rewrite <- Hc1. destruct c; apply el_ext; reflexivity.
  Qed.

  Lemma assign_rows_el rows : forall occs out,
    assign_rows box box (fun c => colspan (mu c)) (fun c => rowspan (mu c)) place_cell ch set_ch occs rows = Ok out ->
    Forall EL rows -> Forall EL out.
  Proof.
    induction rows as [|r rows IH]; intros occs out H Hr; simpl in H.
    - injection H as <-. constructor.
    - inversion Hr as [|? ? Hr1 Hr2]; subst. destruct occs as [|o rest]; [discriminate|].
      apply bind_ok in H. destruct H as ([cs rest'] & Hc & H).
      apply bind_ok in H. destruct H as (out1 & Hrec & H). injection H as <-.
      constructor; [|eapply IH; eassumption].
      apply el_intro; [apply el_root; exact Hr1|].
      eapply assign_cells_el; [eassumption|apply el_kids; exact Hr1].
  Qed.

  Lemma box_assign_group_el g g' : box_assign_group g = Ok g' -> tree elp g = true -> tree elp g' = true.
  Proof.
    unfold box_assign_group, assign_group. intros H Hg.
    apply bind_ok in H. destruct H as (rows & Hr & H). injection H as <-.
    apply el_intro; [apply el_root; assumption|].
    eapply assign_rows_el; [eassumption|apply el_kids; assumption].
  Qed.

  (* ---------------------------------------------------------------- table fix-up *)
  Lemma el_set_gridx c x : tree elp (set_gridx c x) = tree elp c.
  Proof. destruct c; apply el_ext; reflexivity. Qed.
  Lemma el_set_hdr c : tree elp (set_hdr c) = tree elp c.
  Proof. destruct c; apply el_ext; reflexivity. Qed.
  Lemma el_set_ftr c : tree elp (set_ftr c) = tree elp c.
  Proof. destruct c; apply el_ext; reflexivity. Qed.

  Lemma number_columns_el x cols : Forall EL cols -> Forall EL (fst (number_columns x cols)).
  Proof.
    revert x. induction cols as [|c cols IH]; intros x H; simpl; [constructor|].
    inversion H as [|? ? Hh1 Hh2]; subst. specialize (IH (x + 1) Hh2). destruct (number_columns (x + 1) cols). simpl in *.
    constructor; [rewrite el_set_gridx; assumption|assumption].
  Qed.

  Local Arguments number_columns : simpl never.

  Lemma number_groups_el groups : forall x out,
    number_groups x groups = Ok out -> Forall EL groups -> Forall EL out.
  Proof.
    induction groups as [|g groups IH]; intros x out H Hg; simpl in H.
    - injection H as <-. constructor.
    - inversion Hg as [|? ? Hg1 Hg2]; subst. destruct (negb (is ColGroupT g)); [discriminate|].
      destruct (ch g) as [|c0 cols0] eqn:Ech.
      + apply bind_ok in H. destruct H as (r' & Hr & H). injection H as <-.
        constructor; [rewrite el_set_gridx; assumption|eapply IH; eassumption].
      + pose proof (number_columns_el x (c0 :: cols0)) as Hnc.
        destruct (number_columns x (c0 :: cols0)) as [cols' x'].
        apply bind_ok in H. destruct H as (r' & Hr & H). injection H as <-.
        constructor; [|eapply IH; eassumption].
        apply el_intro.
        * pose proof (el_root _ Hg1) as Hr0. unfold elp in *. destruct g; exact Hr0.
        * apply Hnc. rewrite <- Ech. apply el_kids. assumption.
  Qed.

  Lemma classify_el l cols rows caps :
    classify l = Ok (cols, rows, caps) -> Forall EL l -> Forall EL cols /\ Forall EL rows /\ Forall EL caps.
  Proof.
    intros H Hl. destruct (classify_spec _ _ _ _ _ H Hl) as (H1 & H2 & H3).
    repeat split; eapply Forall_impl; try eassumption; intros c [E _]; exact E.
  Qed.

  Lemma wrap_improper_el rec b wty test children out :
    (forall l w, Forall EL l -> rec (anon_from wty b []) l = Ok w -> tree elp w = true) ->
    Forall EL children -> wrap_improper rec b wty test children = Ok out -> Forall EL out.
  Proof.
    intros Hrec Hc H.
    eapply (wrap_improper_out rec b wty test EL EL) in H; [|exact Hrec|exact Hc].
    eapply Forall_impl; [|exact H]. intros c [[E _]|E]; exact E.
  Qed.

  Lemma wrap_table_el rec b children w :
    (forall wty l w, Forall EL l -> rec (anon_from wty b []) l = Ok w -> tree elp w = true) ->
    elp b = true -> Forall EL children -> wrap_table rec b children = Ok w -> tree elp w = true.
  Proof.
    intros Hrec Hb Hch H. unfold wrap_table in H.
    apply bind_ok in H. destruct H as ([[cols rows] caps] & Hcl & H).
    destruct (classify_el _ _ _ _ Hcl Hch) as (Hcols & Hrows & Hcaps).
    apply bind_ok in H. destruct H as (groups0 & Hg0 & H).
    apply bind_ok in H. destruct H as (groups & Hg & H).
    apply bind_ok in H. destruct H as (rgs0 & Hr0 & H).
    apply bind_ok in H. destruct H as (rgs & Hr & H). injection H as <-.
    pose proof (wrap_improper_el _ _ _ _ _ _ (Hrec ColGroupT) Hcols Hg0) as Hgroups0.
    pose proof (number_groups_el _ _ _ Hg Hgroups0) as Hgroups.
    pose proof (wrap_improper_el _ _ _ _ _ _ (Hrec RowGroupT) Hrows Hr0) as Hrgs0.
    assert (Hrgs1 : Forall EL (reorder_groups rgs0)).
    { apply reorder_groups_forall; [|assumption]. intros g Hg1. rewrite el_set_hdr, el_set_ftr. auto. }
    apply mapM_ok in Hr.
    assert (Hrgs : Forall EL rgs).
    { clear -Hr Hrgs1. induction Hr as [|g g' l l' Hgg Hll IH]; [constructor|].
      inversion Hrgs1 as [|? ? Hx1 Hx2]; subst. constructor; [eapply box_assign_group_el; eassumption|auto]. }
    apply tree_intro; [exact Hb|]. simpl.
    apply Forall_app. split; [apply filter_Forall; assumption|].
    constructor; [|apply filter_Forall; assumption].
    apply tree_intro; [exact Hb|]. simpl. apply Forall_app. split; assumption.
  Qed.

  Lemma tbc_el fuel : forall b children b',
    elp b = true -> Forall EL children -> table_boxes_children fuel b children = Ok b' -> tree elp b' = true.
  Proof.
    induction fuel as [|f IH]; intros b children b' Hb Hch H; [discriminate|].
    rewrite tbc_unfold in H. cbv zeta in H.
    set (rec := table_boxes_children f) in *.
    assert (Hrec : forall wty l w, Forall EL l -> rec (anon_from wty b []) l = Ok w -> tree elp w = true).
    { intros wty l w Hl Hw. apply (IH (anon_from wty b []) l w); auto. }
    assert (Hc0 : Forall EL (tbc_c0 b children)).
    { unfold tbc_c0. destruct (is ColT b); [constructor|]. destruct (is ColGroupT b); [|assumption].
      destruct (filter (is ColT) children) as [|c l] eqn:E.
      - apply Forall_forall. intros x Hx. apply repeat_spec in Hx. subst. apply el_anon; [assumption|constructor].
      - rewrite <- E. apply filter_Forall. assumption. }
    assert (Hc2 : Forall EL (rule_1_4 None (rule_1_3 b (tbc_c0 b children)))).
    { eapply Forall_incl; [|exact Hc0]. eapply incl_tran; [apply rule_1_4_incl|apply rule_1_3_incl]. }
    apply bind_ok in H. destruct H as (c3 & H3 & H).
    apply bind_ok in H. destruct H as (c4 & H4 & H).
    apply bind_ok in H. destruct H as (c5 & H5 & H).
    assert (E3 : Forall EL c3).
    { unfold stage3 in H3. destruct (table_t (ty b)); [eapply wrap_improper_el; [apply Hrec| |exact H3]; assumption|].
      destruct (is RowGroupT b); [eapply wrap_improper_el; [apply Hrec| |exact H3]; assumption|].
      injection H3 as <-. assumption. }
    assert (E4 : Forall EL c4).
    { unfold stage4 in H4. destruct (is RowT b); eapply wrap_improper_el; try exact H4; try apply Hrec; assumption. }
    assert (E5 : Forall EL c5).
    { unfold stage5 in H5. destruct (is InlineT b); eapply wrap_improper_el; try exact H5; try apply Hrec; assumption. }
    destruct (table_t (ty b)).
    - eapply wrap_table_el; eauto.
    - injection H as <-. apply el_intro; assumption.
  Qed.

  Theorem atb_el : forall b b', tree elp b = true -> anonymous_table_boxes b = Ok b' -> tree elp b' = true.
  Proof.
    induction b as [t a m l IH] using box_ind'. intros b' Ht H.
    rewrite atb_unfold in H. destruct (negb (parent_t (ty (Box t a m l))) || running (Box t a m l)).
    - injection H as <-. assumption.
    - apply bind_ok in H. destruct H as (children & Hc & H).
      apply (tbc_el tbc_fuel (Box t a m l) children b'); [apply el_root; assumption| |exact H].
      eapply (atb_list_spec (fun c c' => tree elp c' = true)) in Hc.
      + clear -Hc. induction Hc; constructor; auto.
      + pose proof (el_kids _ Ht) as Hk. simpl ch in *. rewrite Forall_forall in *.
        intros c Hin c' Hc'. apply (IH c Hin c'); auto.
  Qed.

  (* ---------------------------------------------------------------- flex / grid *)
  Lemma el_set_flexitem c v : tree elp (set_flexitem c v) = tree elp c.
  Proof. destruct c; apply el_ext; reflexivity. Qed.
  Lemma el_set_griditem c v : tree elp (set_griditem c v) = tree elp c.
  Proof. destruct c; apply el_ext; reflexivity. Qed.

  Theorem flex_el : forall b, tree elp b = true -> tree elp (flex_boxes b) = true.
  Proof.
    induction b as [t a m l IH] using box_ind'. intros Ht.
    assert (Hfb : flex_boxes (Box t a m l) =
                  if negb (parent_t t) || running (Box t a m l) then Box t a m l
                  else set_ch (Box t a m l) (flex_children (Box t a m l) (map flex_boxes l))) by reflexivity.
    rewrite Hfb. destruct (negb (parent_t t) || running (Box t a m l)); [assumption|].
    pose proof (el_root _ Ht) as Hr. pose proof (el_kids _ Ht) as Hk. simpl ch in Hk.
    assert (H1 : Forall EL (map flex_boxes l)).
    { apply Forall_forall. intros c Hc. apply in_map_iff in Hc. destruct Hc as (c0 & <- & Hc0).
      rewrite Forall_forall in IH, Hk. apply IH; auto. }
    apply el_intro; [assumption|].
    unfold flex_children. destruct (flex_container_t (ty (Box t a m l))); [|assumption].
    revert H1. generalize (map flex_boxes l). intros l1 H1.
    induction H1 as [|c l1 Hc Hl IHl]; simpl; [constructor|].
    apply Forall_app. split; [|exact IHl].
    set (c2 := if negb (abspos c) then set_flexitem c true else c).
    assert (E2 : tree elp c2 = true) by (unfold c2; destruct (negb (abspos c)); [rewrite el_set_flexitem|]; assumption).
    destruct (is TextT c2 && only_spaces c2); [constructor|].
    destruct (inline_level_t (ty c2)).
    - constructor; [|constructor]. apply tree_intro; [exact Hr|]. simpl. constructor; [exact E2|constructor].
    - constructor; [exact E2|constructor].
  Qed.

  Theorem grid_el : forall b, tree elp b = true -> tree elp (grid_boxes b) = true.
  Proof.
    induction b as [t a m l IH] using box_ind'. intros Ht.
    assert (Hfb : grid_boxes (Box t a m l) =
                  if negb (parent_t t) || running (Box t a m l) then Box t a m l
                  else set_ch (Box t a m l) (grid_children (Box t a m l) (map grid_boxes l))) by reflexivity.
    rewrite Hfb. destruct (negb (parent_t t) || running (Box t a m l)); [assumption|].
    pose proof (el_root _ Ht) as Hr. pose proof (el_kids _ Ht) as Hk. simpl ch in Hk.
    assert (H1 : Forall EL (map grid_boxes l)).
    { apply Forall_forall. intros c Hc. apply in_map_iff in Hc. destruct Hc as (c0 & <- & Hc0).
      rewrite Forall_forall in IH, Hk. apply IH; auto. }
    apply el_intro; [assumption|].
    unfold grid_children. destruct (grid_container_t (ty (Box t a m l))); [|assumption].
    revert H1. generalize (map grid_boxes l). intros l1 H1.
    induction H1 as [|c l1 Hc Hl IHl]; simpl; [constructor|].
    apply Forall_app. split; [|exact IHl].
    set (c2 := if negb (abspos c) then set_griditem c true else c).
    assert (E2 : tree elp c2 = true) by (unfold c2; destruct (negb (abspos c)); [rewrite el_set_griditem|]; assumption).
    destruct (is TextT c2 && only_spaces c2); [constructor|].
    destruct (inline_level_t (ty c2)).
    - constructor; [|constructor]. apply tree_intro.
      + pose proof (el_root _ E2) as Hr2. unfold elp in *. simpl. exact Hr2.
      + simpl. constructor; [rewrite el_set_griditem; exact E2|constructor].
    - constructor; [exact E2|constructor].
  Qed.

  (* ---------------------------------------------------------------- InlineInBlock *)
  Lemma iib_lines_el b : elp b = true -> forall children line_rev out_rev out,
    Forall EL children -> Forall EL line_rev -> Forall EL out_rev ->
    iib_lines b children line_rev out_rev = Ok out -> Forall EL out.
  Proof.
    intros Hb. induction children as [|c children IH]; intros line_rev out_rev out Hc Hl Ho H.
    - cbn [iib_lines] in H. destruct line_rev as [|x line_rev].
      + injection H as <-. apply Forall_rev. assumption.
      + assert (Hline : tree elp (line_of b (x :: line_rev)) = true).
        { unfold line_of. apply el_anon; [assumption|apply Forall_rev; assumption]. }
        destruct out_rev as [|y out_rev].
        * injection H as <-. constructor; [assumption|constructor].
        * injection H as <-.
          assert (Hall : Forall EL (anon_from BlockT b [line_of b (x :: line_rev)] :: y :: out_rev)).
          { constructor; [|assumption]. apply el_anon; [assumption|constructor; [assumption|constructor]]. }
          apply Forall_rev in Hall. exact Hall.
    - inversion Hc as [|? ? Hc1 Hc2]; subst. simpl in H. destruct (is LineT c); [discriminate|].
      destruct ((match line_rev with [] => false | _ => true end) && abspos c).
      + eapply IH; [assumption| |exact Ho|exact H]. constructor; assumption.
      + destruct (inline_level_t (ty c) || (match line_rev with [] => false | _ => true end) && negb (in_flow c)).
        * destruct ((match line_rev with [] => false | _ => true end) || negb (lone_space c)).
          -- eapply IH; [assumption| |exact Ho|exact H]. constructor; assumption.
          -- eapply IH; [assumption|exact Hl|exact Ho|exact H].
        * eapply IH; [assumption|constructor| |exact H].
          constructor; [assumption|].
          destruct line_rev as [|x line_rev]; [assumption|].
          constructor; [|assumption].
          apply el_anon; [assumption|constructor; [|constructor]].
          unfold line_of. apply el_anon; [assumption|apply Forall_rev; assumption].
  Qed.

  Theorem iib_el : forall b b', tree elp b = true -> inline_in_block b = Ok b' -> tree elp b' = true.
  Proof.
    induction b as [t a m l IH] using box_ind'. intros b' Ht H.
    rewrite iib_unfold in H. simpl ch in H.
    destruct l as [|c0 l0] eqn:El; [injection H as <-; assumption|]. rewrite <- El in *. clear El c0 l0.
    destruct (running (Box t a m l)); [injection H as <-; assumption|].
    apply bind_ok in H. destruct H as (children & Hc & H).
    pose proof (el_root _ Ht) as Hr. pose proof (el_kids _ Ht) as Hk. simpl ch in Hk.
    eapply (iib_list_spec (fun c c' => tree elp c' = true)) in Hc.
    2:{ rewrite Forall_forall in *. intros c Hin c' Hc'. apply (IH c Hin c'); auto. }
    assert (Hch : Forall EL children) by (clear -Hc; induction Hc; constructor; auto).
    destruct (negb (block_container_t (ty (Box t a m l)))).
    - injection H as <-. apply (el_intro (Box t a m l)); assumption.
    - apply bind_ok in H. destruct H as (lines & Hl & H). injection H as <-.
      apply (el_intro (Box t a m l)); [assumption|].
      eapply (iib_lines_el (Box t a m l) Hr children [] []); eauto.
  Qed.

  (* ---------------------------------------------------------------- BlockInInline *)
  Definition bii_el_ok (f : nat) : Prop :=
    forall c c', tree elp c = true -> block_in_inline f c = Ok c' -> tree elp c' = true.
  Definition inner_el_ok (inner : box -> stack -> res (box * option box * stack)) : Prop :=
    forall x st nb blk st', tree elp x = true -> inner x st = Ok (nb, blk, st') ->
      tree elp nb = true /\ (forall k, blk = Some k -> tree elp k = true).

  Lemma inner_loop_el f inner x : bii_el_ok f -> inner_el_ok inner -> elp x = true ->
    forall children index skip resume new_rev nb blk st',
      Forall EL children -> Forall EL new_rev ->
      inner_loop (block_in_inline f) inner x children index skip resume new_rev = Ok (nb, blk, st') ->
      tree elp nb = true /\ (forall k, blk = Some k -> tree elp k = true).
  Proof.
    intros Hb Hi Hx. induction children as [|c children IH]; intros index skip resume new_rev nb blk st' Hc Hn H; simpl in H.
    - injection H as <- <- <-. split; [apply el_intro; [assumption|apply Forall_rev; assumption]|intros k E; discriminate].
    - inversion Hc as [|? ? Hc1 Hc2]; subst.
      destruct (block_level_t (ty c) && in_flow c).
      + destruct (negb (is_snil skip)); [discriminate|]. injection H as <- <- <-.
        split; [apply el_intro; [assumption|apply Forall_rev; assumption]|]. intros k E. injection E as <-. assumption.
      + apply bind_ok in H. destruct H as ([[[nc blk0] resume'] skip'] & Hstep & H).
        assert (Hnc : tree elp nc = true /\ (forall k, blk0 = Some k -> tree elp k = true)).
        { destruct (is InlineT c && negb (running c)).
          - apply bind_ok in Hstep. destruct Hstep as ([[nc1 blk1] rs1] & Hin & Hstep).
            injection Hstep as <- <- <- <-. apply (Hi c skip nc1 blk1 rs1); assumption.
          - destruct (negb (is_snil skip)); [discriminate|].
            apply bind_ok in Hstep. destruct Hstep as (nc1 & Hb1 & Hstep).
            injection Hstep as <- <- <- <-. split; [apply (Hb c nc1); assumption|intros k E; discriminate]. }
        destruct Hnc as [Hnc Hblk0].
        destruct blk0 as [k0|].
        * injection H as <- <- <-. split; [|assumption].
          apply el_intro; [assumption|]. apply Forall_app. split; [apply Forall_rev; assumption|constructor; [assumption|constructor]].
        * eapply IH; [assumption| |exact H]. constructor; assumption.
  Qed.

  Lemma inner_f_el f : bii_el_ok f -> forall n, inner_el_ok (inner_f f n).
  Proof.
    intros Hb. induction n as [|n IH]; intros x st nb blk st' Hx H; [discriminate|].
    simpl in H. unfold inner_body in H.
    destruct (match st with SNil => (0, SNil) | SCons i r => (i, r) end) as [skip st0].
    apply bind_ok in H. destruct H as (tl & Hsl & H).
    assert (Htl : Forall EL tl).
    { unfold slice_from in Hsl. destruct ((skip <? 0) || (Z.of_nat (length (ch x)) <? skip)); [discriminate|].
      injection Hsl as <-. pose proof (el_kids _ Hx) as Hk.
      apply Forall_forall. intros c Hc. rewrite Forall_forall in Hk. apply Hk.
      rewrite <- (firstn_skipn (Z.to_nat skip) (ch x)). apply in_or_app. right. assumption. }
    eapply (inner_loop_el f (inner_f f n) x Hb IH (el_root _ Hx)); [exact Htl|constructor|exact H].
  Qed.

  Lemma line_loop_el f b : bii_el_ok f -> elp b = true -> forall n line st acc out,
    tree elp line = true -> Forall EL acc -> line_loop_f f b n line st acc = Ok out -> Forall EL out.
  Proof.
    intros Hb Hbe. induction n as [|n IH]; intros line st acc out Hl Hacc H; [discriminate|].
    simpl in H. apply bind_ok in H. destruct H as ([[nl blk] st'] & Hin & H).
    destruct (inner_f_el f Hb f line st nl blk st' Hl Hin) as [T1 T2].
    assert (Hanon : tree elp (anon_from BlockT b [nl]) = true).
    { apply el_anon; [assumption|constructor; [assumption|constructor]]. }
    destruct blk as [k|].
    - apply bind_ok in H. destruct H as (k' & Hk & H).
      eapply IH; [exact Hl| |exact H].
      constructor; [apply (Hb k k' (T2 k eq_refl) Hk)|]. constructor; assumption.
    - destruct acc as [|a0 acc].
      + injection H as <-. constructor; [assumption|constructor].
      + injection H as <-.
        assert (Hall : Forall EL (anon_from BlockT b [nl] :: a0 :: acc)) by (constructor; assumption).
        apply Forall_rev in Hall. exact Hall.
  Qed.

  Lemma go_f_el f b : bii_el_ok f -> elp b = true -> forall l out,
    Forall EL l -> go_f f b l = Ok out -> Forall EL out.
  Proof.
    intros IHf Hr. induction l as [|c l IHl]; intros out Hkl Hgo; simpl in Hgo.
    - injection Hgo as <-. constructor.
    - inversion Hkl as [|? ? Hk1 Hk2]; subst.
      apply bind_ok in Hgo. destruct Hgo as (cs & Hcs & Hgo).
      apply bind_ok in Hgo. destruct Hgo as (r' & Hr' & Hgo). injection Hgo as <-.
      apply Forall_app. split; [|apply IHl; assumption].
      destruct (is LineT c).
      + destruct (negb (length (ch b) =? 1)%nat); [discriminate|].
        eapply (line_loop_el f b IHf Hr); [exact Hk1|constructor|exact Hcs].
      + apply bind_ok in Hcs. destruct Hcs as (c' & Hc' & Hcs). injection Hcs as <-.
        constructor; [apply (IHf c c'); assumption|constructor].
  Qed.

  Theorem bii_el : forall f, bii_el_ok f.
  Proof.
    induction f as [|f IHf]; intros b b' Ht H; [discriminate|].
    rewrite bii_unfold in H.
    destruct (ch b) as [|c0 l0] eqn:Ech; [injection H as <-; assumption|]. rewrite <- Ech in *.
    destruct (running b); [injection H as <-; assumption|].
    apply bind_ok in H. destruct H as (children & Hgo & H). injection H as <-.
    pose proof (el_root _ Ht) as Hr. pose proof (el_kids _ Ht) as Hk.
    apply el_intro; [assumption|].
    eapply go_f_el; eassumption.
  Qed.

  (* ---------------------------------------------------------------- composition *)
  Theorem create_anonymous_el : forall t t',
    tree elp t = true -> create_anonymous t = Ok t' -> tree elp t' = true.
  Proof.
    intros t t' Ht H. unfold create_anonymous in H.
    apply bind_ok in H. destruct H as (b1 & H1 & H).
    apply bind_ok in H. destruct H as (b4 & H4 & H5).
    apply (bii_el (S (size b4)) b4 t'); [|exact H5].
    apply (iib_el (grid_boxes (flex_boxes b1)) b4); [|exact H4].
    apply grid_el. apply flex_el. apply (atb_el t b1); assumption.
  Qed.
End Els.

(* in terms of the specification predicate no_box_for *)
Lemma no_box_for_tree hidden b :
  no_box_for hidden b = tree (elp (fun e => negb (existsb (Z.eqb e) hidden))) b.
Proof.
  induction b as [t a m l IH] using box_ind'. rewrite tree_unfold. simpl.
  unfold elp at 1. simpl. f_equal.
  induction IH as [|c l Hc Hl IHl]; simpl; [reflexivity|]. rewrite Hc, IHl. reflexivity.
Qed.

Theorem fixup_no_box_for : forall hidden t t',
  no_box_for hidden t = true -> create_anonymous t = Ok t' -> no_box_for hidden t' = true.
Proof.
  intros hidden t t' H E. rewrite no_box_for_tree in *. eapply create_anonymous_el; eassumption.
Qed.
