(* Box/BoxInv.v -- the staged invariants used to prove that the five passes of
   CreateAnonymousBox establish Box/BoxWf.wf.  Stage k holds after pass k
   (1 table fix-up, 2 flex, 3 grid, 4 inline-in-block, 5 block-in-inline);
   `input_ok` is what the passes need of the tree built by elementToBox.
   Definitions only (proof infrastructure, not part of the specification). *)
From Verif Require Import Box.BoxGen Box.BoxWf Box.BoxBasics.
From Coq Require Import Lia.
Open Scope Z_scope.

Definition flow_t (t : bty) : bool := block_flow_t t || inline_flow_t t.

(* attributes as integerAttribute produces them; no running element (the
   theorems are stated for documents without position: running()) *)
Definition attrs_ok (a : attrs) : bool :=
  (0 <=? a_colspan a) && (0 <=? a_rowspan a) && negb (a_run a).
Definition mut_ok (b : box) : bool :=
  if is CellT b then (0 <=? colspan (mu b)) && (0 <=? rowspan (mu b)) else true.

Definition no_kids (l : list box) : bool := match l with [] => true | _ => false end.
Definition kids_flow (l : list box) : bool := forallb (fun c => flow_t (ty c)) l.
Definition kids_block (l : list box) : bool := forallb (fun c => block_flow_t (ty c)) l.
Definition single_line (l : list box) : bool := match l with [c] => is LineT c | _ => false end.
Definition kids_inline (l : list box) : bool :=
  forallb (fun c => inline_flow_t (ty c) || (block_flow_t (ty c) && negb (in_flow c))) l.

(* what elementToBox delivers *)
Definition iok (b : box) : bool :=
  attrs_ok (at_ b) && mut_ok b && negb (is_wrap (mu b)) && negb (is LineT b) &&
  (parent_t (ty b) || no_kids (ch b)).

(* local invariant after pass st (1..5) *)
Definition cok (st : nat) (b : box) : bool :=
  attrs_ok (at_ b) && mut_ok b &&
  let l := ch b in
  let w := is_wrap (mu b) in
  let bc := if (4 <=? st)%nat then kids_block l || single_line l else kids_flow l in
  match ty b with
  | TextT | BlockReplacedT | InlineReplacedT | ColT => no_kids l && negb w
  | LineT => (4 <=? st)%nat && kids_inline l && negb w
  | InlineT => (if (5 <=? st)%nat then kids_inline l else kids_flow l) && negb w
  | BlockT => if w then wrapper_children_ok TableT l else bc
  | InlineBlockT => if w then wrapper_children_ok InlineTableT l else bc
  | CellT | CaptionT => bc && negb w
  | TableT | InlineTableT =>
      table_children_ok l && forallb group_grid_ok (filter (is RowGroupT) l) && negb w
  | RowGroupT => forallb (is RowT) l && negb w
  | RowT => forallb (is CellT) l && negb w
  | ColGroupT => forallb (is ColT) l && negb w
  | FlexT | InlineFlexT => (if (2 <=? st)%nat then kids_block l else kids_flow l) && negb w
  | GridT | InlineGridT => (if (3 <=? st)%nat then kids_block l else kids_flow l) && negb w
  end.

Fixpoint tree (P : box -> bool) (b : box) : bool := P b && forallb (tree P) (ch b).

(* a child as the passes leave it: a tree satisfying the stage invariant whose
   root is not a bare table (tables sit in their wrapper) *)
Definition fixed (st : nat) (c : box) : bool := tree (cok st) c && negb (table_t (ty c)).

(* type of the box a table fix-up returns for a box of type t *)
Definition result_ty (t : bty) : bty :=
  match t with TableT => BlockT | InlineTableT => InlineBlockT | t => t end.
