(* Box/BlockInInlineProofs.v -- BlockInInline / innerBlockInInline: whatever
   the resume stacks and the fuel, a result that is returned has no in-flow
   block-level box left inside an inline box or a line box, and the parents
   of split lines hold only block-level boxes: stage 5 of Box/BoxInv.v
   (partial correctness: for every fuel; see Properties/C09.v for what is
   stated about termination). *)
From Verif Require Import Box.BoxGen Box.BoxWf Box.BoxBasics Box.BoxInv Box.TableFixupProofs Box.BoxSim
  Box.FlexGridProofs Box.InlineInBlockProofs.
From Coq Require Import Lia.
Open Scope Z_scope.

(* the local functions of block_in_inline, named *)
Section Named.
  Variable f : nat.
  Fixpoint inner_f (n : nat) (x : box) (st : stack) : res (box * option box * stack) :=
    match n with
    | O => OutOfFuel
    | S n' => inner_body (block_in_inline f) (inner_f n') x st
    end.
  Variable b : box.
  Fixpoint line_loop_f (n : nat) (line : box) (st : stack) (acc_rev : list box) : res (list box) :=
    match n with
    | O => OutOfFuel
    | S n' =>
        let* (new_line, blk, st') := inner_f f line st in
        match blk with
        | None =>
            match acc_rev with
            | [] => Ok [new_line]
            | _ => Ok (rev (anon_from BlockT b [new_line] :: acc_rev))
            end
        | Some blk =>
            let* blk' := block_in_inline f blk in
            line_loop_f n' line st' (blk' :: anon_from BlockT b [new_line] :: acc_rev)
        end
    end.
  Fixpoint go_f (l : list box) : res (list box) :=
    match l with
    | [] => Ok []
    | c :: r =>
        let* cs :=
          if is LineT c then
            if negb (length (ch b) =? 1)%nat then Panic 1921
            else line_loop_f f c SNil []
          else let* c' := block_in_inline f c in Ok [c'] in
        let* r' := go_f r in Ok (cs ++ r')
    end.
End Named.

Lemma bii_unfold f b :
  block_in_inline (S f) b =
  match ch b with
  | [] => Ok b
  | _ => if running b then Ok b
         else let* children := go_f f b (ch b) in Ok (set_ch b children)
  end.
Proof. destruct b as [t a m [|c l]]; reflexivity. Qed.

Definition item5 (c : box) : Prop :=
  tree (cok 5) c = true /\
  (inline_flow_t (ty c) || (block_flow_t (ty c) && negb (in_flow c))) = true.
Definition blk5 (c : box) : Prop := tree (cok 5) c = true /\ block_flow_t (ty c) = true.

(* what is assumed of the recursive calls with less fuel *)
Definition bii_ok (f : nat) : Prop :=
  forall c c', tree (cok 4) c = true -> ty c <> InlineT -> ty c <> LineT ->
               block_in_inline f c = Ok c' -> tree (cok 5) c' = true /\ sim c c'.

Definition inner_ok (inner : box -> stack -> res (box * option box * stack)) : Prop :=
  forall x st nb blk st',
    tree (cok 4) x = true -> ty x = InlineT \/ ty x = LineT ->
    inner x st = Ok (nb, blk, st') ->
    tree (cok 5) nb = true /\ ty nb = ty x /\ at_ nb = at_ x /\
    (forall k, blk = Some k -> tree (cok 4) k = true /\ block_flow_t (ty k) = true).

Lemma flow_block_level t : flow_t t = true -> block_level_t t = block_flow_t t.
Proof. destruct t; simpl; intros; try reflexivity; discriminate. Qed.

Lemma cok5_line_like x kids :
  cok 4 x = true -> ty x = InlineT \/ ty x = LineT -> Forall item5 kids ->
  tree (cok 5) (set_ch x kids) = true.
Proof.
  intros Hk Ht Hkids. apply tree_intro; autorewrite with box.
  - pose proof (cok_attrs _ _ Hk) as [Ha Hm].
    assert (Hki : kids_inline kids = true).
    { apply forallb_Forall. eapply Forall_impl; [|exact Hkids]. intros c [_ E]; exact E. }
    unfold cok in *. autorewrite with box.
    replace (mut_ok (set_ch x kids)) with (mut_ok x) by (unfold mut_ok, is; autorewrite with box; reflexivity).
    rewrite Ha, Hm, Hki.
    destruct Ht as [Et|Et]; rewrite Et in *; simpl in *; bsplit; brw; reflexivity.
  - eapply Forall_impl; [|exact Hkids]. intros c [E _]; exact E.
Qed.

Lemma line_like_kids_flow x :
  cok 4 x = true -> ty x = InlineT \/ ty x = LineT ->
  Forall (fun c => flow_t (ty c) = true) (ch x).
Proof.
  intros Hk [Et|Et]; unfold cok in Hk; rewrite Et in Hk; simpl in Hk; bsplit.
  - apply forallb_Forall. assumption.
  - match goal with H : kids_inline _ = true |- _ => apply forallb_Forall in H; rename H into Hi end.
    eapply Forall_impl; [|exact Hi]. intros c Hc. unfold flow_t. cbv beta in Hc. revert Hc.
    destruct (inline_flow_t (ty c)); intros Hc; [apply Bool.orb_true_r|].
    rewrite Bool.orb_false_l in Hc. apply andb_true_split in Hc. destruct Hc as [Hc _]. rewrite Hc. reflexivity.
Qed.

Section InnerLoop.
  Variable f : nat.
  Variable inner : box -> stack -> res (box * option box * stack).
  Hypothesis Hbii : bii_ok f.
  Hypothesis Hinner : inner_ok inner.

  Lemma inner_loop_spec x : forall children index skip resume new_rev nb blk st',
    Forall (fun c => tree (cok 4) c = true /\ flow_t (ty c) = true) children ->
    Forall item5 new_rev ->
    inner_loop (block_in_inline f) inner x children index skip resume new_rev = Ok (nb, blk, st') ->
    (exists kids, nb = set_ch x kids /\ Forall item5 kids) /\
    (forall k, blk = Some k -> tree (cok 4) k = true /\ block_flow_t (ty k) = true).
  Proof.
    induction children as [|c children IH]; intros index skip resume new_rev nb blk st' Hc Hn H; simpl in H.
    - injection H as <- <- <-. split; [|intros k E; discriminate].
      exists (rev new_rev). split; [reflexivity|apply Forall_rev; assumption].
    - inversion Hc as [|? ? [Hct Hcf] Hc']; subst.
      destruct (block_level_t (ty c) && in_flow c) eqn:Eb.
      + destruct (negb (is_snil skip)); [discriminate|].
        injection H as <- <- <-. split.
        * exists (rev new_rev). split; [reflexivity|apply Forall_rev; assumption].
        * intros k E. injection E as <-. split; [assumption|].
          apply andb_true_split in Eb. destruct Eb as [Eb _].
          rewrite <- (flow_block_level _ Hcf). assumption.
      + (* c stays in the inline box *)
        assert (Hoof : forall nc, ty nc = ty c -> at_ nc = at_ c ->
                  (inline_flow_t (ty nc) || (block_flow_t (ty nc) && negb (in_flow nc))) = true).
        { intros nc E1 E2. rewrite E1. unfold in_flow. rewrite E2. fold (in_flow c).
          unfold flow_t in Hcf. destruct (inline_flow_t (ty c)) eqn:Ei; [reflexivity|].
          rewrite Bool.orb_false_r in Hcf. rewrite Hcf. simpl.
          rewrite (flow_block_level (ty c)) in Eb by (unfold flow_t; rewrite Hcf; reflexivity).
          rewrite Hcf in Eb. simpl in Eb. rewrite Eb. reflexivity. }
        apply bind_ok in H. destruct H as ([[[nc blk0] resume'] skip'] & Hstep & H).
        assert (Hnc : item5 nc /\ (forall k, blk0 = Some k -> tree (cok 4) k = true /\ block_flow_t (ty k) = true)).
        { destruct (is InlineT c && negb (running c)) eqn:Einl.
          - apply andb_true_split in Einl. destruct Einl as [Einl _]. apply is_true_iff in Einl.
            apply bind_ok in Hstep. destruct Hstep as ([[nc1 blk1] rs1] & Hin & Hstep).
            injection Hstep as <- <- <- <-.
            destruct (Hinner c skip nc1 blk1 rs1 Hct (or_introl Einl) Hin) as (T1 & T2 & T3 & T4).
            split; [|assumption]. split; [assumption|]. apply Hoof; assumption.
          - destruct (negb (is_snil skip)); [discriminate|].
            apply bind_ok in Hstep. destruct Hstep as (nc1 & Hb & Hstep).
            injection Hstep as <- <- <- <-.
            assert (Hnr : running c = false).
            { apply tree_inv in Hct. destruct Hct as [Hk _]. apply (cok_not_running _ _ Hk). }
            rewrite Hnr in Einl. simpl in Einl. rewrite Bool.andb_true_r in Einl.
            apply is_false_iff in Einl.
            assert (Hnl : ty c <> LineT) by (intros E; rewrite E in Hcf; discriminate).
            destruct (Hbii c nc1 Hct Einl Hnl Hb) as [T1 T2].
            split; [|intros k E; discriminate]. split; [assumption|].
            apply Hoof; [apply (sim_ty _ _ T2)|apply (sim_at _ _ T2)]. }
        destruct Hnc as [Hnc Hblk0].
        destruct blk0 as [k0|].
        * injection H as <- <- <-. split; [|assumption].
          exists (rev (nc :: new_rev)). split; [reflexivity|]. apply Forall_rev. constructor; assumption.
        * eapply IH; [assumption| |exact H]. constructor; assumption.
  Qed.

  Lemma inner_body_spec : inner_ok (inner_body (block_in_inline f) inner).
  Proof.
    intros x st nb blk st' Ht Hty H.
    apply tree_inv in Ht. destruct Ht as [Hk Hkids].
    unfold inner_body in H.
    destruct (match st with SNil => (0, SNil) | SCons i r => (i, r) end) as [skip st0].
    apply bind_ok in H. destruct H as (tl & Hsl & H).
    assert (Htl : Forall (fun c => tree (cok 4) c = true /\ flow_t (ty c) = true) tl).
    { unfold slice_from in Hsl. destruct ((skip <? 0) || (Z.of_nat (length (ch x)) <? skip)); [discriminate|].
      injection Hsl as <-.
      pose proof (line_like_kids_flow x Hk Hty) as Hf.
      assert (Hall : Forall (fun c => tree (cok 4) c = true /\ flow_t (ty c) = true) (ch x)) by (apply Forall_and; assumption).
      apply Forall_forall. intros c Hc. rewrite Forall_forall in Hall. apply Hall.
      rewrite <- (firstn_skipn (Z.to_nat skip) (ch x)). apply in_or_app. right. assumption. }
    destruct (inner_loop_spec x tl skip st0 SNil [] nb blk st' Htl (Forall_nil _) H) as [(kids & -> & Hkids5) Hb].
    split; [apply cok5_line_like; assumption|]. autorewrite with box. auto.
  Qed.
End InnerLoop.

Lemma inner_f_spec f : bii_ok f -> forall n, inner_ok (inner_f f n).
Proof.
  intros Hb. induction n as [|n IH].
  - intros x st nb blk st' _ _ H. discriminate.
  - simpl. apply inner_body_spec; assumption.
Qed.

(* ------------------------------------------------------------------ the loop over one line box *)
Lemma blk5_anon_line b nl :
  attrs_ok (at_ b) = true -> tree (cok 5) nl = true -> ty nl = LineT ->
  blk5 (anon_from BlockT b [nl]).
Proof.
  intros Ha Hnl Et. split; [|reflexivity]. apply tree_intro.
  - unfold cok, anon_from. cbn [ty at_ mu ch new_mut mut0 is_wrap]. cbv zeta.
    rewrite (attrs_ok_anon _ Ha). rewrite mut_ok_noncell by discriminate. simpl.
    unfold is. rewrite Et. simpl. rewrite ?Bool.orb_true_r. reflexivity.
  - simpl. constructor; [assumption|constructor].
Qed.

Lemma line_loop_spec f b : bii_ok f -> attrs_ok (at_ b) = true ->
  forall n line st acc out,
    tree (cok 4) line = true -> ty line = LineT -> Forall blk5 acc ->
    line_loop_f f b n line st acc = Ok out ->
    Forall (fun c => tree (cok 5) c = true) out /\ (kids_block out || single_line out) = true.
Proof.
  intros Hb Ha. induction n as [|n IH]; intros line st acc out Hl Et Hacc H; [discriminate|].
  simpl in H. apply bind_ok in H. destruct H as ([[nl blk] st'] & Hin & H).
  destruct (inner_f_spec f Hb f line st nl blk st' Hl (or_intror Et) Hin) as (T1 & T2 & T3 & T4).
  rewrite Et in T2.
  destruct blk as [k|].
  - apply bind_ok in H. destruct H as (k' & Hk & H).
    destruct (T4 k eq_refl) as [Hk4 Hkb].
    assert (Hk5 : blk5 k').
    { destruct (Hb k k' Hk4) as [U1 U2]; auto.
      - intros E. rewrite E in Hkb. discriminate.
      - intros E. rewrite E in Hkb. discriminate.
      - split; [assumption|]. rewrite (sim_ty _ _ U2). assumption. }
    eapply IH; [exact Hl|exact Et| |exact H].
    constructor; [assumption|]. constructor; [|assumption]. apply blk5_anon_line; assumption.
  - destruct acc as [|a0 acc].
    + injection H as <-. split; [constructor; [assumption|constructor]|].
      simpl. unfold is. rewrite T2. simpl. rewrite ?Bool.orb_true_r. reflexivity.
    + injection H as <-.
      assert (Hall : Forall blk5 (anon_from BlockT b [nl] :: a0 :: acc)).
      { constructor; [apply blk5_anon_line; assumption|assumption]. }
      apply Forall_rev in Hall. split.
      * eapply Forall_impl; [|exact Hall]. intros c [E _]; exact E.
      * apply Bool.orb_true_iff. left. apply forallb_Forall.
        eapply Forall_impl; [|exact Hall]. intros c [_ E]; exact E.
Qed.

(* ------------------------------------------------------------------ the pass *)
(* children of a box that is neither a line nor an inline box *)
Lemma cok4_kids b :
  cok 4 b = true -> ty b <> InlineT -> ty b <> LineT ->
  (exists line, ch b = [line] /\ ty line = LineT /\ block_container_t (ty b) = true /\ is_wrap (mu b) = false) \/
  Forall (fun c => ty c <> InlineT /\ ty c <> LineT) (ch b).
Proof.
  intros Hk Hi Hl.
  assert (Hblock : forall l, kids_block l = true -> Forall (fun c => ty c <> InlineT /\ ty c <> LineT) l).
  { intros l H. apply forallb_Forall in H. eapply Forall_impl; [|exact H].
    intros c Hc. cbv beta in Hc. split; intros E; rewrite E in Hc; discriminate. }
  assert (His : forall t l, t <> InlineT -> t <> LineT -> forallb (is t) l = true ->
                            Forall (fun c => ty c <> InlineT /\ ty c <> LineT) l).
  { intros t l H1 H2 H. apply forallb_Forall in H. eapply Forall_impl; [|exact H].
    intros c Hc. apply is_true_iff in Hc. rewrite Hc. auto. }
  assert (Hbc : forall l, (kids_block l || single_line l) = true ->
                 (exists line, l = [line] /\ ty line = LineT) \/ Forall (fun c => ty c <> InlineT /\ ty c <> LineT) l).
  { intros l H. apply Bool.orb_true_iff in H. destruct H as [H|H]; [right; auto|left].
    destruct l as [|x [|y l]]; try discriminate. exists x. split; [reflexivity|apply is_true_iff; assumption]. }
  assert (Hwr : forall tt l, tt = TableT \/ tt = InlineTableT -> wrapper_children_ok tt l = true ->
                             Forall (fun c => ty c <> InlineT /\ ty c <> LineT) l).
  { intros tt l Htt. induction l as [|c l IHl]; simpl; [constructor|].
    destruct (is CaptionT c) eqn:Ec.
    - intros H. constructor; [|auto]. apply is_true_iff in Ec. rewrite Ec. split; discriminate.
    - intros H. apply andb_true_split in H. destruct H as [H1 H2]. constructor.
      + apply is_true_iff in H1. rewrite H1. destruct Htt as [-> | ->]; split; discriminate.
      + eapply His; [| |exact H2]; discriminate. }
  assert (Htc : forall l, table_children_ok l = true -> Forall (fun c => ty c <> InlineT /\ ty c <> LineT) l).
  { induction l as [|c l IHl]; simpl; [constructor|].
    destruct (is ColGroupT c) eqn:Ec.
    - intros H. constructor; [|auto]. apply is_true_iff in Ec. rewrite Ec. split; discriminate.
    - intros H. apply andb_true_split in H. destruct H as [H1 H2]. constructor.
      + apply is_true_iff in H1. rewrite H1. split; discriminate.
      + eapply His; [| |exact H2]; discriminate. }
  unfold cok in Hk. destruct (ty b) eqn:Et; try congruence; simpl in Hk; bsplit;
    try (right; destruct (ch b); [constructor|discriminate]);
    try (right; eapply His; [| |eassumption]; discriminate);
    try (right; apply Hblock; assumption);
    try (right; apply Htc; assumption).
  - destruct (is_wrap (mu b)) eqn:Ew.
    + right. eapply Hwr; [|eassumption]. auto.
    + match goal with H : _ || _ = true |- _ => destruct (Hbc _ H) as [(line & E1 & E2)|Hf] end; [left|right; assumption].
      exists line. auto.
  - destruct (is_wrap (mu b)) eqn:Ew.
    + right. eapply Hwr; [|eassumption]. auto.
    + match goal with H : _ || _ = true |- _ => destruct (Hbc _ H) as [(line & E1 & E2)|Hf] end; [left|right; assumption].
      exists line. auto.
  - match goal with H : _ || _ = true |- _ => destruct (Hbc _ H) as [(line & E1 & E2)|Hf] end; [left|right; assumption].
    exists line. repeat split; auto.
    match goal with H : negb ?x = true |- ?x = false => apply Bool.negb_true_iff in H; exact H end.
  - match goal with H : _ || _ = true |- _ => destruct (Hbc _ H) as [(line & E1 & E2)|Hf] end; [left|right; assumption].
    exists line. repeat split; auto.
    match goal with H : negb ?x = true |- ?x = false => apply Bool.negb_true_iff in H; exact H end.
Qed.

Lemma go_f_plain f b l : bii_ok f ->
  Forall (fun c => tree (cok 4) c = true /\ ty c <> InlineT /\ ty c <> LineT) l ->
  forall out, go_f f b l = Ok out ->
  Forall2 (fun c c' => tree (cok 5) c' = true /\ sim c c') l out.
Proof.
  intros Hb. induction 1 as [|c l (Hc1 & Hc2 & Hc3) Hl IH]; intros out H; simpl in H.
  - injection H as <-. constructor.
  - assert (E : is LineT c = false) by (apply is_false_iff; assumption). rewrite E in H.
    apply bind_ok in H. destruct H as (cs & Hcs & H).
    apply bind_ok in Hcs. destruct Hcs as (c' & Hc' & Hcs). injection Hcs as <-.
    apply bind_ok in H. destruct H as (r' & Hr & H). injection H as <-.
    simpl. constructor; [apply Hb; assumption|apply IH; assumption].
Qed.

Lemma cok_stage_45 b : ty b <> InlineT -> cok 5 b = cok 4 b.
Proof. intros H. unfold cok. destruct (ty b); try reflexivity. congruence. Qed.

Theorem bii_typed : forall f, bii_ok f.
Proof.
  induction f as [|f IHf]; intros b b' Ht Hni Hnl H; [discriminate|].
  rewrite bii_unfold in H.
  apply tree_inv in Ht. destruct Ht as [Hk Hkids].
  destruct (ch b) as [|c0 l0] eqn:Ech.
  { injection H as <-. split; [|apply sim_refl].
    apply tree_intro; [|rewrite Ech; constructor]. rewrite cok_stage_45; assumption. }
  rewrite <- Ech in *.
  rewrite (cok_not_running _ _ Hk) in H.
  apply bind_ok in H. destruct H as (children & Hgo & H). injection H as <-.
  pose proof (cok_attrs _ _ Hk) as [Ha Hm].
  destruct (cok4_kids b Hk Hni Hnl) as [(line & El & Etl & Ebc & Ew)|Hplain].
  - (* the single line box of a block container *)
    rewrite El in Hgo. simpl in Hgo.
    assert (E : is LineT line = true) by (apply is_true_iff; assumption). rewrite E in Hgo.
    rewrite El in Hgo. simpl in Hgo.
    apply bind_ok in Hgo. destruct Hgo as (cs & Hcs & Hgo). injection Hgo as <-. rewrite app_nil_r.
    assert (Hline : tree (cok 4) line = true).
    { rewrite El in Hkids. inversion Hkids; assumption. }
    destruct (line_loop_spec f b IHf Ha f line SNil [] cs Hline Etl (Forall_nil _) Hcs) as [T1 T2].
    split.
    + apply tree_intro; autorewrite with box; [|assumption].
      unfold cok. autorewrite with box.
      replace (mut_ok (set_ch b cs)) with (mut_ok b) by (unfold mut_ok, is; autorewrite with box; reflexivity).
      rewrite Ha, Hm, Ew. simpl. rewrite T2.
      destruct (ty b); try discriminate; reflexivity.
    + apply sim_intro; autorewrite with box; try reflexivity; [unfold core_eq; tauto|].
      intros Hs. destruct (ty b); discriminate.
  - assert (Hall : Forall (fun c => tree (cok 4) c = true /\ ty c <> InlineT /\ ty c <> LineT) (ch b)).
    { apply Forall_and; assumption. }
    pose proof (go_f_plain f b (ch b) IHf Hall children Hgo) as Hres.
    assert (Hsim : Forall2 sim (ch b) children) by (clear -Hres; induction Hres; constructor; tauto).
    assert (Htree : Forall (fun c => tree (cok 5) c = true) children) by (clear -Hres; induction Hres; constructor; tauto).
    split.
    + apply tree_intro; autorewrite with box; [|assumption].
      rewrite cok_sim; [|assumption|eapply kids_groups_have_rows; eassumption].
      rewrite cok_stage_45; assumption.
    + apply sim_intro; autorewrite with box; try reflexivity; [unfold core_eq; tauto|auto].
Qed.
