(* Box/BoxGenMore.v -- frame lemmas for the first three fix-up passes of
   CreateAnonymousBox (Box/BoxGen.v): what the passes leave untouched.
   Unbounded (any tree, any depth); no side condition on well-formedness. *)
From Verif Require Import Base.GoSem Box.BoxGen Box.BoxInv.
From Coq Require Import List Bool.
Import ListNotations.

(* a box that is not a parent box (text, replaced) is returned unchanged by
   AnonymousTableBoxes, FlexBoxes and GridBoxes *)
Lemma leaf_untouched : forall b,
  parent_t (ty b) = false ->
  anonymous_table_boxes b = Ok b /\ flex_boxes b = b /\ grid_boxes b = b.
Proof.
  intros b Hp. destruct b as [t a m c].
  cbn [anonymous_table_boxes flex_boxes grid_boxes].
  rewrite Hp. cbn [negb orb]. repeat split; reflexivity.
Qed.

(* a position:running() subtree is returned unchanged by the same passes *)
Lemma running_untouched : forall b,
  running b = true ->
  anonymous_table_boxes b = Ok b /\ flex_boxes b = b /\ grid_boxes b = b.
Proof.
  intros b Hr. destruct b as [t a m c].
  cbn [anonymous_table_boxes flex_boxes grid_boxes].
  rewrite Hr, orb_true_r. repeat split; reflexivity.
Qed.

(* FlexBoxes and GridBoxes keep the root box itself (type, attributes, mutable
   state): they only replace its list of children *)
Lemma flex_grid_root_kept : forall b,
  ty (flex_boxes b) = ty b /\ at_ (flex_boxes b) = at_ b /\ mu (flex_boxes b) = mu b /\
  ty (grid_boxes b) = ty b /\ at_ (grid_boxes b) = at_ b /\ mu (grid_boxes b) = mu b.
Proof.
  intros b. destruct b as [t a m c].
  cbn [flex_boxes grid_boxes].
  destruct (negb (parent_t (ty (Box t a m c))) || running (Box t a m c));
    repeat split; reflexivity.
Qed.

(* consequently the passes are idempotent on leaves and running subtrees *)
Lemma flex_grid_idem_untouched : forall b,
  parent_t (ty b) = false \/ running b = true ->
  flex_boxes (flex_boxes b) = flex_boxes b /\ grid_boxes (grid_boxes b) = grid_boxes b.
Proof.
  intros b [H|H].
  - destruct (leaf_untouched b H) as [_ [F G]]. rewrite !F, !G. split; reflexivity.
  - destruct (running_untouched b H) as [_ [F G]]. rewrite !F, !G. split; reflexivity.
Qed.

(* FlexBoxes is the identity on every tree (any depth) that contains no flex
   container; GridBoxes on every tree that contains no grid container.  In
   particular both passes are idempotent on such trees. *)
Lemma flex_boxes_id_no_flex : forall b,
  tree (fun x => negb (flex_container_t (ty x))) b = true -> flex_boxes b = b.
Proof.
  fix IH 1. intros [t a m c] H.
  cbn [tree ty ch] in H. apply andb_true_iff in H. destruct H as [Hn Hc].
  cbn [flex_boxes].
  destruct (negb (parent_t (ty (Box t a m c))) || running (Box t a m c)); [reflexivity|].
  unfold flex_children. cbn [ty] in *. apply negb_true_iff in Hn. rewrite Hn.
  cbn [ch set_ch]. f_equal.
  induction c as [|x r IHr]; [reflexivity|].
  cbn [map forallb] in *. apply andb_true_iff in Hc. destruct Hc as [Hx Hr].
  rewrite (IH x Hx), (IHr Hr). reflexivity.
Qed.

Lemma grid_boxes_id_no_grid : forall b,
  tree (fun x => negb (grid_container_t (ty x))) b = true -> grid_boxes b = b.
Proof.
  fix IH 1. intros [t a m c] H.
  cbn [tree ty ch] in H. apply andb_true_iff in H. destruct H as [Hn Hc].
  cbn [grid_boxes].
  destruct (negb (parent_t (ty (Box t a m c))) || running (Box t a m c)); [reflexivity|].
  unfold grid_children. cbn [ty] in *. apply negb_true_iff in Hn. rewrite Hn.
  cbn [ch set_ch]. f_equal.
  induction c as [|x r IHr]; [reflexivity|].
  cbn [map forallb] in *. apply andb_true_iff in Hc. destruct Hc as [Hx Hr].
  rewrite (IH x Hx), (IHr Hr). reflexivity.
Qed.
