(* Box/TableGridOverlapBox.v -- Box/TableGridOverlap.v on the boxes of
   Box/BoxGen.v: the only cells of a row group of wrapTable's result that
   share a grid slot are a column-spanning cell and a cell spanning down from
   a row above into its columns. *)
From Verif Require Import Base.GoSem Box.BoxGen Box.BoxWf Box.BoxBasics Box.TableGrid Box.TableGridSpec
  Box.TableGridProofs Box.TableFixupProofs Box.TableGridOverlap.
From Coq Require Import ZArith List Bool Lia.
Import ListNotations.
Open Scope Z_scope.

Definition group_overlaps_explained (g : box) : bool := overlaps_explained (group_slots g).

Theorem box_group_overlaps g g' :
  group_spans_ok g -> box_assign_group g = Ok g' -> group_overlaps_explained g' = true.
Proof.
  intros Hsp H. unfold box_assign_group in H.
  apply bind_ok_inv in H. destruct H as (rows' & Hag & H). injection H as <-.
  unfold group_overlaps_explained, group_slots. autorewrite with box. rewrite group_slots_from_eq.
  eapply (assign_group_overlaps box box bcolspan browspan bgridx place_cell ch set_ch
            bgridx_place browspan_place bcolspan_place ch_set_ch (ch g) rows' Hsp).
  exact Hag.
Qed.
