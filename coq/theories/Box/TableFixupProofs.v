(* Box/TableFixupProofs.v -- AnonymousTableBoxes (rules 1.1-3.2 + wrapTable)
   establishes the stage-1 invariant of Box/BoxInv.v: every table-internal
   box has a proper parent, every table sits in a wrapper with its captions,
   column groups and row groups, grid slots assigned per Box/TableGridSpec. *)
From Verif Require Import Box.BoxGen Box.BoxWf Box.BoxBasics Box.BoxInv Box.TableGridProofs.
From Coq Require Import Lia.
Open Scope Z_scope.

Lemma tree_unfold P b : tree P b = P b && forallb (tree P) (ch b).
Proof. destruct b; reflexivity. Qed.

(* ------------------------------------------------------------------ wrapImproper *)
Section WI.
  Variables (rec : box -> list box -> res box) (b : box) (wty : bty) (test : box -> bool).
  Variables (Pc Pw : box -> Prop).
  Hypothesis Hrec : forall l w', Forall Pc l -> rec (anon_from wty b []) l = Ok w' -> Pw w'.

  Lemma flush_out imp out : Forall Pc imp -> flush rec b wty imp = Ok out -> Forall Pw out.
  Proof.
    intros Himp. unfold flush. destruct imp as [|c imp].
    - intros H; injection H as <-. constructor.
    - intros H. apply bind_ok in H. destruct H as (w & Hw & H). injection H as <-.
      constructor; [|constructor]. eapply Hrec; [|exact Hw]. apply Forall_rev. assumption.
  Qed.

  Lemma wi_go_out : forall children imp out,
    Forall Pc children -> Forall Pc imp -> wi_go rec b wty test children imp = Ok out ->
    Forall (fun c => (Pc c /\ test c = true) \/ Pw c) out.
  Proof.
    induction children as [|c children IH]; intros imp out Hc Hi; simpl.
    - intros H. apply flush_out in H; [|assumption].
      eapply Forall_impl; [|exact H]. auto.
    - inversion Hc; subst. destruct (test c) eqn:Et.
      + intros H. apply bind_ok in H. destruct H as (w & Hw & H).
        apply bind_ok in H. destruct H as (r & Hr & H). injection H as <-.
        apply Forall_app. split.
        * apply flush_out in Hw; [|assumption]. eapply Forall_impl; [|exact Hw]. auto.
        * constructor; [left; auto|]. eapply IH; [assumption|constructor|exact Hr].
      + destruct (flex_container_t (ty b)).
        * apply IH; assumption.
        * apply IH; [assumption|constructor; assumption].
  Qed.

  Lemma wrap_improper_out children out :
    Forall Pc children -> wrap_improper rec b wty test children = Ok out ->
    Forall (fun c => (Pc c /\ test c = true) \/ Pw c) out.
  Proof. intros H. apply wi_go_out; [assumption|constructor]. Qed.

  Lemma wrap_improper_id children :
    Forall (fun c => test c = true) children -> wrap_improper rec b wty test children = Ok children.
  Proof.
    unfold wrap_improper. induction children as [|c children IH]; intros H; simpl; [reflexivity|].
    inversion H; subst. rewrite H2. simpl. rewrite IH by assumption. reflexivity.
  Qed.
End WI.

(* ------------------------------------------------------------------ rules 1.3 / 1.4 *)
Lemma removelast_incl {A} (l : list A) : incl (removelast l) l.
Proof.
  induction l as [|a l IH]; simpl; [apply incl_refl|].
  destruct l; [intros x []|]. apply incl_cons; [left; reflexivity|]. apply incl_tl. assumption.
Qed.

Lemma rule_1_3_incl b l : incl (rule_1_3 b l) l.
Proof.
  unfold rule_1_3. destruct (tabular_container_t (ty b) && (2 <=? length l)%nat); [|apply incl_refl].
  assert (H1 : incl (match rev l with
                     | text :: internal :: _ => if itc internal && is_whitespace text then removelast l else l
                     | _ => l end) l).
  { destruct (rev l) as [|t [|i r]]; try apply incl_refl.
    destruct (itc i && is_whitespace t); [apply removelast_incl|apply incl_refl]. }
  set (c1 := match rev l with
             | text :: internal :: _ => if itc internal && is_whitespace text then removelast l else l
             | _ => l end) in *.
  destruct c1 as [|t [|i r]]; try assumption.
  destruct (itc i && is_whitespace t); [|assumption].
  intros x Hx. apply H1. right. assumption.
Qed.

Lemma rule_1_4_incl l : forall p, incl (rule_1_4 p l) l.
Proof.
  induction l as [|c l IH]; intros p; simpl; [apply incl_refl|].
  destruct (match p with Some p0 => match l with [] => false | n :: _ => itc p0 && itc n && is_whitespace c end | None => false end).
  - apply incl_tl. apply IH.
  - apply incl_cons; [left; reflexivity|]. apply incl_tl. apply IH.
Qed.

Lemma Forall_incl {A} (P : A -> Prop) l1 l2 : incl l1 l2 -> Forall P l2 -> Forall P l1.
Proof. intros Hi H. rewrite Forall_forall in *. auto. Qed.

(* ------------------------------------------------------------------ the invariant on pieces *)
Notation F1 := (fun c => fixed 1 c = true).

Definition wrap_ty (t : bty) : bool :=
  match t with RowT | CellT | TableT | InlineTableT | ColGroupT | RowGroupT => true | _ => false end.

(* what tableBoxesChildren needs of the box it is applied to *)
Definition shell (b : box) : bool :=
  attrs_ok (at_ b) && mut_ok b && negb (is_wrap (mu b)) && negb (is LineT b) && parent_t (ty b).

Lemma andb_true_split a b : a && b = true -> a = true /\ b = true.
Proof. apply Bool.andb_true_iff. Qed.

Ltac bsplit :=
  repeat match goal with
         | H : _ && _ = true |- _ => apply andb_true_split in H; destruct H
         end.

Ltac brw := repeat match goal with H : ?x = true |- context[?x] => rewrite H end.

Lemma shell_anon wty b : attrs_ok (at_ b) = true -> wrap_ty wty = true -> shell (anon_from wty b []) = true.
Proof.
  intros Ha Hw. unfold attrs_ok in Ha. bsplit.
  unfold shell, anon_from, attrs_ok, mut_ok, is; simpl.
  destruct wty; try discriminate; simpl; brw; reflexivity.
Qed.

Lemma fixed_anon_col b : attrs_ok (at_ b) = true -> fixed 1 (anon_from ColT b []) = true.
Proof.
  intros Ha. unfold attrs_ok in Ha. bsplit.
  unfold fixed, anon_from; simpl. unfold cok, attrs_ok, mut_ok, is; simpl. brw. reflexivity.
Qed.

Lemma fixed_tree st c : fixed st c = true -> tree (cok st) c = true.
Proof. unfold fixed. intros H. bsplit. assumption. Qed.

Lemma fixed_cok st c : fixed st c = true -> cok st c = true.
Proof. intros H. apply fixed_tree in H. rewrite tree_unfold in H. bsplit. assumption. Qed.

Lemma cok_attrs st c : cok st c = true -> attrs_ok (at_ c) = true /\ mut_ok c = true.
Proof. unfold cok. intros H. bsplit. auto. Qed.

Lemma cok1_not_line c : cok 1 c = true -> is LineT c = false.
Proof.
  intros H. apply is_false_iff. intros E. unfold cok in H. rewrite E in H. simpl in H.
  rewrite !Bool.andb_false_r in H. discriminate.
Qed.

(* a fixed box that is neither a cell nor a proper table child is a flow box *)
Lemma fixed_flow c : fixed 1 c = true -> is CellT c = false -> ptc c = false -> flow_t (ty c) = true.
Proof.
  intros Hf Hc Hp. pose proof (cok1_not_line c (fixed_cok _ _ Hf)) as Hl.
  unfold fixed in Hf. bsplit. unfold is, ptc in *.
  destruct (ty c); simpl in *; try reflexivity; discriminate.
Qed.

Lemma forallb_tree_of_fixed st l : Forall (fun c => fixed st c = true) l -> forallb (tree (cok st)) l = true.
Proof. intros H. apply forallb_Forall. eapply Forall_impl; [|exact H]. intros c. apply fixed_tree. Qed.

(* cok only looks at the type, attributes, wrapper flag, cell spans and children *)
Lemma cok_ext st b b' :
  ty b' = ty b -> at_ b' = at_ b -> ch b' = ch b -> is_wrap (mu b') = is_wrap (mu b) ->
  mut_ok b' = mut_ok b -> cok st b' = cok st b.
Proof. intros H1 H2 H3 H4 H5. unfold cok. rewrite H1, H2, H3, H4, H5. reflexivity. Qed.

Lemma mut_ok_ext b b' :
  ty b' = ty b -> colspan (mu b') = colspan (mu b) -> rowspan (mu b') = rowspan (mu b) -> mut_ok b' = mut_ok b.
Proof. intros H1 H2 H3. unfold mut_ok, is. rewrite H1, H2, H3. reflexivity. Qed.

Lemma tree_ext st b b' :
  ty b' = ty b -> at_ b' = at_ b -> ch b' = ch b -> is_wrap (mu b') = is_wrap (mu b) ->
  mut_ok b' = mut_ok b -> tree (cok st) b' = tree (cok st) b.
Proof.
  intros H1 H2 H3 H4 H5. rewrite !tree_unfold, H3. f_equal. apply cok_ext; assumption.
Qed.

Lemma fixed_ext st b b' :
  ty b' = ty b -> at_ b' = at_ b -> ch b' = ch b -> is_wrap (mu b') = is_wrap (mu b) ->
  mut_ok b' = mut_ok b -> fixed st b' = fixed st b.
Proof. intros H1 H2 H3 H4 H5. unfold fixed. rewrite H1. f_equal. apply tree_ext; assumption. Qed.

Lemma fixed_set_gridx st c x : fixed st (set_gridx c x) = fixed st c.
Proof. destruct c as [t a m l]. apply fixed_ext; try reflexivity. Qed.
Lemma fixed_set_hdr st c : fixed st (set_hdr c) = fixed st c.
Proof. destruct c as [t a m l]. apply fixed_ext; try reflexivity. Qed.
Lemma fixed_set_ftr st c : fixed st (set_ftr c) = fixed st c.
Proof. destruct c as [t a m l]. apply fixed_ext; try reflexivity. Qed.

(* ------------------------------------------------------------------ the grid on boxes *)
Definition bcolspan (c : box) := colspan (mu c).
Definition browspan (c : box) := rowspan (mu c).
Definition bgridx (c : box) := gridx (mu c).

Lemma bgridx_place c x r : bgridx (place_cell c x r) = x. Proof. destruct c; reflexivity. Qed.
Lemma browspan_place c x r : browspan (place_cell c x r) = r. Proof. destruct c; reflexivity. Qed.
Lemma bcolspan_place c x r : bcolspan (place_cell c x r) = bcolspan c. Proof. destruct c; reflexivity. Qed.

Lemma group_slots_from_eq y rows :
  group_slots_from y rows = rows_slots box box bcolspan browspan bgridx ch y rows.
Proof. revert y. induction rows as [|r rows IH]; intros y; simpl; [reflexivity|]. rewrite IH. reflexivity. Qed.

(* what the assignment preserves of a cell / of a row *)
Definition cell_rel (c c' : box) : Prop :=
  ty c' = ty c /\ at_ c' = at_ c /\ ch c' = ch c /\ is_wrap (mu c') = is_wrap (mu c) /\
  colspan (mu c') = colspan (mu c) /\ 1 <= rowspan (mu c').
Definition row_rel (r r' : box) : Prop :=
  ty r' = ty r /\ at_ r' = at_ r /\ mu r' = mu r /\ Forall2 cell_rel (ch r) (ch r').

Lemma row_placed_rel P y below x cs out :
  row_placed box bcolspan browspan place_cell P y below x cs out -> Forall2 cell_rel cs out.
Proof.
  induction 1; constructor; [|assumption].
  destruct c as [t a m l]. unfold cell_rel; simpl. repeat split; auto.
Qed.

Lemma rows_placed_rel P y n rows rows' :
  rows_placed box box bcolspan browspan bgridx place_cell ch set_ch P y n rows rows' ->
  Forall2 row_rel rows rows'.
Proof.
  induction 1; constructor; [|assumption].
  unfold row_rel. autorewrite with box. repeat split; auto.
  eapply row_placed_rel; eassumption.
Qed.

Lemma cok_cell_bounds st c : cok st c = true -> is CellT c = true -> 0 <= colspan (mu c) /\ 0 <= rowspan (mu c).
Proof.
  intros H Hc. apply cok_attrs in H. destruct H as [_ H]. unfold mut_ok in H. rewrite Hc in H.
  bsplit. lia.
Qed.

Lemma tree_inv P b : tree P b = true -> P b = true /\ Forall (fun c => tree P c = true) (ch b).
Proof. rewrite tree_unfold. intros H. apply andb_true_split in H. destruct H as [H1 H2]. split; [assumption|apply forallb_Forall; assumption]. Qed.

Lemma tree_intro P b : P b = true -> Forall (fun c => tree P c = true) (ch b) -> tree P b = true.
Proof. intros H1 H2. rewrite tree_unfold, H1. apply forallb_Forall. assumption. Qed.

Lemma cok_rowgroup st g : cok st g = true -> ty g = RowGroupT -> Forall (fun r => is RowT r = true) (ch g).
Proof. unfold cok. intros H E. rewrite E in H. bsplit. apply forallb_Forall. assumption. Qed.
Lemma cok_row st r : cok st r = true -> ty r = RowT -> Forall (fun c => is CellT c = true) (ch r).
Proof. unfold cok. intros H E. rewrite E in H. bsplit. apply forallb_Forall. assumption. Qed.
Lemma cok_colgroup st r : cok st r = true -> ty r = ColGroupT -> Forall (fun c => is ColT c = true) (ch r).
Proof. unfold cok. intros H E. rewrite E in H. bsplit. apply forallb_Forall. assumption. Qed.

(* cok of a table part whose children have the right types *)
Lemma cok_part_intro st b (t : bty) :
  attrs_ok (at_ b) = true -> is_wrap (mu b) = false -> ty b = t ->
  match t with
  | RowGroupT => Forall (fun r => is RowT r = true) (ch b)
  | RowT => Forall (fun r => is CellT r = true) (ch b)
  | ColGroupT => Forall (fun r => is ColT r = true) (ch b)
  | _ => False
  end -> cok st b = true.
Proof.
  intros Ha Hw Et H. unfold cok, mut_ok, is. rewrite Et, Ha, Hw.
  destruct t; try contradiction; simpl; rewrite Bool.andb_true_r; apply forallb_Forall; assumption.
Qed.

Lemma cok_wrap_false st b : cok st b = true -> ty b = RowGroupT \/ ty b = RowT \/ ty b = ColGroupT -> is_wrap (mu b) = false.
Proof.
  unfold cok. intros H [E|[E|E]]; rewrite E in H; bsplit;
    match goal with H : negb ?x = true |- _ => destruct x; [discriminate|reflexivity] end.
Qed.

Lemma cell_rel_tree st c c' :
  cell_rel c c' -> is CellT c = true -> tree (cok st) c = true -> tree (cok st) c' = true.
Proof.
  intros (H1 & H2 & H3 & H4 & H5 & H6) Hc Ht.
  rewrite <- Ht. apply tree_ext; auto.
  apply tree_inv in Ht. destruct Ht as [Hk _].
  destruct (cok_cell_bounds _ _ Hk Hc) as [Hb1 Hb2].
  unfold mut_ok, is. rewrite H1. unfold is in Hc. rewrite Hc. rewrite H5. lia.
Qed.

Lemma row_rel_tree st r r' :
  row_rel r r' -> is RowT r = true -> tree (cok st) r = true ->
  tree (cok st) r' = true /\ is RowT r' = true.
Proof.
  intros (H1 & H2 & H3 & H4) Hr Ht.
  apply is_true_iff in Hr.
  split; [|apply is_true_iff; congruence].
  apply tree_inv in Ht. destruct Ht as [Hk Hkids].
  pose proof (cok_row _ _ Hk Hr) as Hcells.
  assert (Hk2 : Forall (fun c => is CellT c = true) (ch r') /\ Forall (fun c => tree (cok st) c = true) (ch r')).
  { clear Hk. induction H4 as [|c c' l l' Hcc Hll IH]; [split; constructor|].
    inversion Hcells; subst. inversion Hkids; subst. destruct IH as [IH1 IH2]; auto.
    split; constructor; auto.
    - destruct Hcc as (E & _). unfold is in *. rewrite E. assumption.
    - eapply cell_rel_tree; eauto. }
  destruct Hk2 as [Hk1 Hk2]. apply tree_intro; [|assumption].
  apply cok_attrs in Hk as Ha. destruct Ha as [Ha _].
  apply (cok_part_intro st r' RowT); try congruence.
  rewrite H3. apply (cok_wrap_false st r Hk). auto.
Qed.

Lemma box_assign_group_typed st g g' :
  tree (cok st) g = true -> is RowGroupT g = true -> box_assign_group g = Ok g' ->
  tree (cok st) g' = true /\ is RowGroupT g' = true /\ group_grid_ok g' = true /\
  at_ g' = at_ g /\ mu g' = mu g.
Proof.
  intros Ht Hg H. unfold box_assign_group in H.
  apply bind_ok in H. destruct H as (rows' & Hrows & H). injection H as <-.
  pose proof Hg as Hg'. apply is_true_iff in Hg'.
  apply tree_inv in Ht. destruct Ht as [Hcok Hkids].
  pose proof (cok_rowgroup _ _ Hcok Hg') as Hrows_t.
  (* the spans of all cells are non negative *)
  assert (Hsp : rows_spans_ok box box bcolspan browspan ch (ch g)).
  { unfold rows_spans_ok, spans_ok. apply Forall_forall. intros r Hr.
    rewrite Forall_forall in Hkids, Hrows_t. specialize (Hkids r Hr). specialize (Hrows_t r Hr).
    apply tree_inv in Hkids. destruct Hkids as [Hkr Hkc].
    apply is_true_iff in Hrows_t. pose proof (cok_row _ _ Hkr Hrows_t) as Hcs.
    apply Forall_forall. intros c Hc.
    rewrite Forall_forall in Hcs, Hkc. specialize (Hcs c Hc). specialize (Hkc c Hc).
    apply tree_inv in Hkc. destruct Hkc as [Hkc _].
    apply (cok_cell_bounds _ _ Hkc Hcs). }
  destruct (assign_group_spec box box bcolspan browspan bgridx place_cell ch set_ch
              bgridx_place browspan_place bcolspan_place ch_set_ch (ch g) Hsp)
    as (rows2 & Hag & Hrp & Haf & Hig).
  unfold bcolspan, browspan in Hag. rewrite Hrows in Hag. injection Hag as <-.
  apply rows_placed_rel in Hrp.
  assert (Hlen : length rows' = length (ch g)) by (symmetry; eapply Forall2_len; eassumption).
  assert (Hk : Forall (fun r => is RowT r = true) rows' /\ Forall (fun r => tree (cok st) r = true) rows').
  { clear Haf Hig Hlen Hrows Hsp Hcok. induction Hrp as [|r r' l l' Hrr Hll IH]; [split; constructor|].
    inversion Hkids; subst. inversion Hrows_t; subst. destruct IH as [IH1 IH2]; auto.
    destruct (row_rel_tree st r r' Hrr H3 H1) as [E1 E2].
    split; constructor; auto. }
  destruct Hk as [Hk1 Hk2].
  apply cok_attrs in Hcok as Ha. destruct Ha as [Ha _].
  repeat split.
  - apply tree_intro; autorewrite with box; [|assumption].
    apply (cok_part_intro st _ RowGroupT); autorewrite with box; auto.
    apply (cok_wrap_false st g Hcok). auto.
  - unfold is. autorewrite with box. assumption.
  - unfold group_grid_ok, group_slots. autorewrite with box. rewrite group_slots_from_eq.
    rewrite Haf. rewrite Hlen. assumption.
  - autorewrite with box. reflexivity.
  - autorewrite with box. reflexivity.
Qed.

(* ------------------------------------------------------------------ wrapTable *)
Lemma classify_spec (P : box -> Prop) l cols rows caps :
  classify l = Ok (cols, rows, caps) -> Forall P l ->
  Forall (fun c => P c /\ (ty c = ColT \/ ty c = ColGroupT)) cols /\
  Forall (fun c => P c /\ (ty c = RowT \/ ty c = RowGroupT)) rows /\
  Forall (fun c => P c /\ ty c = CaptionT) caps.
Proof.
  revert cols rows caps. induction l as [|c l IH]; simpl; intros cols rows caps H HP.
  - injection H as <- <- <-. repeat split; constructor.
  - inversion HP; subst.
    apply bind_ok in H. destruct H as ([[cols0 rows0] caps0] & Hc & H).
    destruct (IH _ _ _ Hc H3) as (I1 & I2 & I3).
    destruct (ty c) eqn:Et; try discriminate; injection H as <- <- <-; repeat split; auto.
Qed.

Lemma number_columns_typed st x cols :
  Forall (fun c => fixed st c = true /\ is ColT c = true) cols ->
  Forall (fun c => fixed st c = true /\ is ColT c = true) (fst (number_columns x cols)).
Proof.
  revert x. induction cols as [|c cols IH]; intros x H; simpl; [constructor|].
  inversion H; subst. specialize (IH (x + 1) H3).
  destruct (number_columns (x + 1) cols) as [r' x']. simpl in *.
  constructor; [|assumption]. destruct H2 as [H1 H2]. split.
  - rewrite fixed_set_gridx. assumption.
  - destruct c; assumption.
Qed.

Lemma fixed_colgroup_intro st g l :
  fixed st g = true -> ty g = ColGroupT ->
  Forall (fun c => fixed st c = true /\ is ColT c = true) l ->
  fixed st (set_ch g l) = true.
Proof.
  intros Hf Et Hl. unfold fixed. autorewrite with box. rewrite Et. simpl. rewrite Bool.andb_true_r.
  apply fixed_cok in Hf. apply cok_attrs in Hf as Ha. destruct Ha as [Ha _].
  apply tree_intro; autorewrite with box.
  - apply (cok_part_intro st _ ColGroupT); autorewrite with box; auto.
    + apply (cok_wrap_false st g Hf). auto.
    + eapply Forall_impl; [|exact Hl]. intros c [_ H]. exact H.
  - eapply Forall_impl; [|exact Hl]. intros c [H _]. apply fixed_tree. exact H.
Qed.

Local Arguments number_columns : simpl never.

Lemma number_groups_typed st groups : forall x out,
  Forall (fun g => fixed st g = true /\ ty g = ColGroupT) groups ->
  number_groups x groups = Ok out ->
  Forall (fun g => fixed st g = true /\ ty g = ColGroupT) out.
Proof.
  induction groups as [|g groups IH]; intros x out H; simpl.
  - intros E; injection E as <-. constructor.
  - inversion H; subst. destruct H2 as [Hf Et].
    assert (Eis : is ColGroupT g = true) by (apply is_true_iff; assumption).
    rewrite Eis. simpl.
    destruct (ch g) as [|c0 cols0] eqn:Ech.
    + intros E. apply bind_ok in E. destruct E as (r' & Hr & E). injection E as <-.
      constructor; [|eapply IH; eassumption].
      split; [rewrite fixed_set_gridx; assumption|destruct g; assumption].
    + pose proof (number_columns_typed st x (c0 :: cols0)) as Hnc.
      destruct (number_columns x (c0 :: cols0)) as [cols' x'] eqn:Enc.
      intros E. apply bind_ok in E. destruct E as (r' & Hr & E). injection E as <-.
      constructor; [|eapply IH; eassumption].
      split; [|autorewrite with box; destruct g; assumption].
      apply fixed_colgroup_intro.
      * rewrite fixed_set_gridx. assumption.
      * destruct g; assumption.
      * apply Hnc. rewrite <- Ech.
        pose proof (fixed_tree _ _ Hf) as Ht. apply tree_inv in Ht. destruct Ht as [Hk Hkids].
        pose proof (cok_colgroup _ _ Hk Et) as Hcols.
        rewrite Forall_forall in *. intros c Hc. split; [|auto].
        unfold fixed. rewrite (Hkids c Hc). specialize (Hcols c Hc). apply is_true_iff in Hcols.
        rewrite Hcols. reflexivity.
Qed.

Lemma split_groups_forall (P : box -> Prop) groups : forall hdr ftr body h f bd,
  (forall g, P g -> P (set_hdr g) /\ P (set_ftr g)) ->
  Forall P groups -> Forall P body ->
  (forall h0, hdr = Some h0 -> P h0) -> (forall f0, ftr = Some f0 -> P f0) ->
  split_groups groups hdr ftr body = (h, f, bd) ->
  Forall P bd /\ (forall h0, h = Some h0 -> P h0) /\ (forall f0, f = Some f0 -> P f0).
Proof.
  induction groups as [|g groups IH]; intros hdr ftr body h f bd Hset Hg Hb Hh Hf; simpl.
  - intros E; injection E as <- <- <-. repeat split; auto. apply Forall_rev. assumption.
  - inversion Hg; subst.
    destruct ((a_disp (at_ g) =? 1) && match hdr with None => true | _ => false end).
    + apply IH; auto. intros h0 E; injection E as <-. apply Hset. assumption.
    + destruct ((a_disp (at_ g) =? 2) && match ftr with None => true | _ => false end).
      * apply IH; auto. intros f0 E; injection E as <-. apply Hset. assumption.
      * apply IH; auto.
Qed.

Lemma reorder_groups_forall (P : box -> Prop) groups :
  (forall g, P g -> P (set_hdr g) /\ P (set_ftr g)) ->
  Forall P groups -> Forall P (reorder_groups groups).
Proof.
  intros Hset Hg. unfold reorder_groups.
  destruct (split_groups groups None None []) as [[h f] bd] eqn:E.
  destruct (split_groups_forall P groups None None [] h f bd Hset Hg) as (H1 & H2 & H3); auto; try discriminate.
  apply Forall_app. split; [destruct h; constructor; auto|].
  apply Forall_app. split; [assumption|destruct f; constructor; auto].
Qed.

Lemma wrapper_children_ok_intro tt caps1 t caps2 :
  Forall (fun c => ty c = CaptionT) caps1 -> ty t = tt -> tt <> CaptionT ->
  Forall (fun c => ty c = CaptionT) caps2 ->
  wrapper_children_ok tt (caps1 ++ t :: caps2) = true.
Proof.
  intros H1 Ht Hne H2. induction H1 as [|c l Hc Hl IH]; simpl.
  - assert (E : is CaptionT t = false) by (apply is_false_iff; congruence).
    rewrite E. assert (E2 : is tt t = true) by (apply is_true_iff; assumption). rewrite E2. simpl.
    apply forallb_Forall. eapply Forall_impl; [|exact H2]. intros c Hc. apply is_true_iff. assumption.
  - assert (E : is CaptionT c = true) by (apply is_true_iff; assumption). rewrite E. assumption.
Qed.

Lemma table_children_ok_intro groups rgs :
  Forall (fun c => ty c = ColGroupT) groups -> Forall (fun c => ty c = RowGroupT) rgs ->
  table_children_ok (groups ++ rgs) = true.
Proof.
  intros H1 H2. induction H1 as [|c l Hc Hl IH]; simpl.
  - destruct rgs as [|r rgs]; [reflexivity|]. simpl. inversion H2 as [|? ? Hr Hrs]; subst.
    assert (E : is ColGroupT r = false) by (apply is_false_iff; congruence). rewrite E.
    assert (E2 : is RowGroupT r = true) by (apply is_true_iff; assumption). rewrite E2. simpl.
    apply forallb_Forall. eapply Forall_impl; [|exact Hrs]. intros c Hc. apply is_true_iff. assumption.
  - assert (E : is ColGroupT c = true) by (apply is_true_iff; assumption). rewrite E. assumption.
Qed.

Lemma filter_rowgroups groups rgs :
  Forall (fun c => ty c = ColGroupT) groups -> Forall (fun c => ty c = RowGroupT) rgs ->
  filter (is RowGroupT) (groups ++ rgs) = rgs.
Proof.
  intros H1 H2. rewrite filter_app.
  assert (E1 : filter (is RowGroupT) groups = []).
  { induction H1 as [|c l Hc Hl IH]; simpl; [reflexivity|].
    assert (E : is RowGroupT c = false) by (apply is_false_iff; congruence). rewrite E. assumption. }
  rewrite E1. simpl.
  induction H2 as [|c l Hc Hl IH]; simpl; [reflexivity|].
  assert (E : is RowGroupT c = true) by (apply is_true_iff; assumption). rewrite E. f_equal. assumption.
Qed.

Lemma mut_ok_noncell b : ty b <> CellT -> mut_ok b = true.
Proof. intros H. unfold mut_ok. apply is_false_iff in H. rewrite H. reflexivity. Qed.

Section WrapTable.
  Variable rec : box -> list box -> res box.
  Variable b : box.
  Hypothesis Hrec : forall wty l w', wrap_ty wty = true -> Forall F1 l ->
    rec (anon_from wty b []) l = Ok w' -> fixed 1 w' = true /\ ty w' = result_ty wty.
  Hypothesis Hshell : shell b = true.

  Lemma wrap_table_typed children w :
    table_t (ty b) = true -> Forall (fun c => fixed 1 c = true) children ->
    wrap_table rec b children = Ok w -> fixed 1 w = true /\ ty w = result_ty (ty b).
  Proof.
    intros Htab Hch H. unfold wrap_table in H.
    apply bind_ok in H. destruct H as ([[cols rows] caps] & Hcl & H).
    destruct (classify_spec _ _ _ _ _ Hcl Hch) as (Hcols & Hrows & Hcaps).
    apply bind_ok in H. destruct H as (groups0 & Hg0 & H).
    apply bind_ok in H. destruct H as (groups & Hg & H).
    apply bind_ok in H. destruct H as (rgs0 & Hr0 & H).
    apply bind_ok in H. destruct H as (rgs & Hr & H).
    injection H as <-.
    (* column groups *)
    assert (Hgroups0 : Forall (fun g => fixed 1 g = true /\ ty g = ColGroupT) groups0).
    { eapply (wrap_improper_out rec b ColGroupT (is ColGroupT) F1
                (fun w => fixed 1 w = true /\ ty w = ColGroupT)) in Hg0.
      - eapply Forall_impl; [|exact Hg0]. intros c [[H1 H2]|H1]; [|assumption].
        split; [assumption|apply is_true_iff; assumption].
      - intros l w' Hl Hw. apply (Hrec ColGroupT l w'); auto.
      - eapply Forall_impl; [|exact Hcols]. intros c [H1 _]. exact H1. }
    pose proof (number_groups_typed 1 _ _ _ Hgroups0 Hg) as Hgroups.
    (* row groups *)
    assert (Hrgs0 : Forall (fun g => fixed 1 g = true /\ ty g = RowGroupT) rgs0).
    { eapply (wrap_improper_out rec b RowGroupT (is RowGroupT) F1
                (fun w => fixed 1 w = true /\ ty w = RowGroupT)) in Hr0.
      - eapply Forall_impl; [|exact Hr0]. intros c [[H1 H2]|H1]; [|assumption].
        split; [assumption|apply is_true_iff; assumption].
      - intros l w' Hl Hw. apply (Hrec RowGroupT l w'); auto.
      - eapply Forall_impl; [|exact Hrows]. intros c [H1 _]. exact H1. }
    assert (Hrgs1 : Forall (fun g => fixed 1 g = true /\ ty g = RowGroupT) (reorder_groups rgs0)).
    { apply reorder_groups_forall; [|assumption].
      intros g [H1 H2]. rewrite fixed_set_hdr, fixed_set_ftr. destruct g; auto. }
    apply mapM_ok in Hr.
    assert (Hrgs : Forall (fun g => tree (cok 1) g = true /\ ty g = RowGroupT /\ group_grid_ok g = true) rgs).
    { clear Hr0 Hrgs0. induction Hr as [|g g' l l' Hgg Hll IH]; [constructor|].
      inversion Hrgs1; subst. destruct H1 as [Hf Et]. constructor; [|apply IH; assumption].
      assert (Eis : is RowGroupT g = true) by (apply is_true_iff; assumption).
      destruct (box_assign_group_typed 1 g g' (fixed_tree _ _ Hf) Eis Hgg) as (T1 & T2 & T3 & _).
      apply is_true_iff in T2. auto. }
    (* assembly *)
    unfold shell in Hshell. bsplit.
    match goal with H : negb (is_wrap (mu b)) = true |- _ => apply Bool.negb_true_iff in H; rename H into Hw end.
    match goal with H : attrs_ok (at_ b) = true |- _ => rename H into Ha end.
    assert (Ha' : attrs_ok (table_attrs (at_ b)) = true /\ attrs_ok (wrapper_attrs (at_ b)) = true).
    { unfold attrs_ok in *. simpl. bsplit. brw. split; reflexivity. }
    destruct Ha' as [Hat Haw].
    set (table := Box (ty b) (table_attrs (at_ b)) (mu b) (groups ++ rgs)).
    assert (Htable : tree (cok 1) table = true).
    { apply tree_intro.
      - assert (Hg1 : Forall (fun c => ty c = ColGroupT) groups) by (eapply Forall_impl; [|exact Hgroups]; intros c [_ E]; exact E).
        assert (Hg2 : Forall (fun c => ty c = RowGroupT) rgs) by (eapply Forall_impl; [|exact Hrgs]; intros c (_ & E & _); exact E).
        assert (Hgg : forallb group_grid_ok rgs = true).
        { apply forallb_Forall. eapply Forall_impl; [|exact Hrgs]. intros c (_ & _ & E); exact E. }
        unfold cok, table. cbn [ty at_ mu ch]. cbv zeta.
        rewrite mut_ok_noncell by (simpl; destruct (ty b); discriminate).
        rewrite Hat, Hw, (table_children_ok_intro _ _ Hg1 Hg2), (filter_rowgroups _ _ Hg1 Hg2), Hgg.
        destruct (ty b); try discriminate; reflexivity.
      - simpl. apply Forall_app. split.
        + eapply Forall_impl; [|exact Hgroups]. intros c [E _]. apply fixed_tree. exact E.
        + eapply Forall_impl; [|exact Hrgs]. intros c (E & _). exact E. }
    assert (Hcap : forall f, Forall (fun c => tree (cok 1) c = true /\ ty c = CaptionT) (filter f caps)).
    { intros f. apply Forall_forall. intros c Hc. apply filter_In in Hc. destruct Hc as [Hc _].
      rewrite Forall_forall in Hcaps. destruct (Hcaps c Hc) as [Hx1 Hx2]. split; [apply fixed_tree|]; assumption. }
    set (wty := if is InlineTableT b then InlineBlockT else BlockT).
    assert (Hwty : wty = result_ty (ty b) /\ (wty = BlockT \/ wty = InlineBlockT)).
    { unfold wty, is. destruct (ty b); try discriminate; simpl; auto. }
    destruct Hwty as [Hwty1 Hwty2].
    split; [|unfold set_wrap; simpl; assumption].
    unfold fixed. simpl ty. replace (table_t wty) with false by (destruct Hwty2 as [-> | ->]; reflexivity).
    rewrite Bool.andb_true_r. apply tree_intro.
    - assert (Hwok : wrapper_children_ok (ty b) (filter (fun c => a_cap (at_ c) =? 0) caps ++ table :: filter (fun c => a_cap (at_ c) =? 1) caps) = true).
      { apply wrapper_children_ok_intro.
        - eapply Forall_impl; [|apply Hcap]. intros c [_ E]; exact E.
        - reflexivity.
        - destruct (ty b); discriminate.
        - eapply Forall_impl; [|apply Hcap]. intros c [_ E]; exact E. }
      unfold cok, set_wrap. cbn [ty at_ mu ch set_mu is_wrap]. cbv zeta.
      rewrite mut_ok_noncell by (simpl; destruct Hwty2 as [-> | ->]; discriminate).
      rewrite Haw. unfold wty in *. unfold is in *.
      destruct (ty b); try discriminate; simpl in *; assumption.
    - simpl. apply Forall_app. split; [eapply Forall_impl; [|apply Hcap]; intros c [E _]; exact E|].
      constructor; [assumption|]. eapply Forall_impl; [|apply Hcap]. intros c [E _]; exact E.
  Qed.
End WrapTable.

(* ------------------------------------------------------------------ tableBoxesChildren *)
Definition tbc_c0 (b : box) (children : list box) : list box :=
  if is ColT b then []
  else if is ColGroupT b then
    match filter (is ColT) children with
    | [] => repeat (anon_from ColT b []) (Z.to_nat (Z.max 1 (span_of b)))
    | l => l
    end
  else children.
Definition stage3 rec (b : box) (c2 : list box) : res (list box) :=
  if table_t (ty b) then wrap_improper rec b RowT ptc c2
  else if is RowGroupT b then wrap_improper rec b RowT (is RowT) c2
  else Ok c2.
Definition stage4 rec (b : box) (c3 : list box) : res (list box) :=
  if is RowT b then wrap_improper rec b CellT (is CellT) c3
  else wrap_improper rec b RowT (fun c => negb (is CellT c)) c3.
Definition stage5 rec (b : box) (c4 : list box) : res (list box) :=
  if is InlineT b then wrap_improper rec b InlineTableT (fun c => negb (ptc c)) c4
  else wrap_improper rec b TableT (fun c => negb (ptc c) || in_proper_parents (ty b) (ty c)) c4.

Lemma tbc_unfold f b children :
  table_boxes_children (S f) b children =
  let rec := table_boxes_children f in
  let c2 := rule_1_4 None (rule_1_3 b (tbc_c0 b children)) in
  let* c3 := stage3 rec b c2 in
  let* c4 := stage4 rec b c3 in
  let* c5 := stage5 rec b c4 in
  if table_t (ty b) then wrap_table rec b c5 else Ok (set_ch b c5).
Proof. reflexivity. Qed.

Lemma tbc_c0_fixed b children :
  attrs_ok (at_ b) = true -> Forall F1 children -> Forall F1 (tbc_c0 b children).
Proof.
  intros Ha H. unfold tbc_c0. destruct (is ColT b); [constructor|].
  destruct (is ColGroupT b); [|assumption].
  destruct (filter (is ColT) children) as [|c l] eqn:E.
  - apply Forall_forall. intros x Hx. apply repeat_spec in Hx. subst. apply fixed_anon_col. assumption.
  - rewrite <- E. apply Forall_forall. intros x Hx. apply filter_In in Hx. destruct Hx as [Hx _].
    rewrite Forall_forall in H. auto.
Qed.

Lemma tbc_c0_cols b children :
  is ColGroupT b = true -> Forall (fun c => is ColT c = true) (tbc_c0 b children).
Proof.
  intros Hb. unfold tbc_c0.
  assert (E : is ColT b = false).
  { apply is_true_iff in Hb. apply is_false_iff. congruence. }
  rewrite E, Hb.
  destruct (filter (is ColT) children) as [|c l] eqn:Ef.
  - apply Forall_forall. intros x Hx. apply repeat_spec in Hx. subst. reflexivity.
  - rewrite <- Ef. apply Forall_forall. intros x Hx. apply filter_In in Hx. tauto.
Qed.

Lemma ipp_other t c :
  table_t t = false -> t <> RowGroupT -> t <> ColGroupT -> in_proper_parents t c = false.
Proof. destruct t, c; simpl; intros; try reflexivity; try discriminate; congruence. Qed.

Section Stages.
  Variable rec : box -> list box -> res box.
  Variable b : box.
  Hypothesis Hrec : forall wty l w', wrap_ty wty = true -> Forall F1 l ->
    rec (anon_from wty b []) l = Ok w' -> fixed 1 w' = true /\ ty w' = result_ty wty.

  Lemma stage_out wty test l out :
    wrap_ty wty = true -> Forall F1 l -> wrap_improper rec b wty test l = Ok out ->
    Forall (fun c => fixed 1 c = true /\ ((In c l /\ test c = true) \/ ty c = result_ty wty)) out.
  Proof.
    intros Hw Hl H.
    eapply (wrap_improper_out rec b wty test (fun c => fixed 1 c = true /\ In c l)
              (fun w => fixed 1 w = true /\ ty w = result_ty wty)) in H.
    - eapply Forall_impl; [|exact H]. intros c [[[H1 H2] H3]|[H1 H2]]; auto.
    - intros l' w' Hl' Hw'. apply (Hrec wty l' w'); auto.
      eapply Forall_impl; [|exact Hl']. intros c [H1 _]; exact H1.
    - apply Forall_forall. intros c Hc. rewrite Forall_forall in Hl. auto.
  Qed.
End Stages.

Lemma Forall_and {A} (P Q : A -> Prop) l : Forall P l -> Forall Q l -> Forall (fun x => P x /\ Q x) l.
Proof. intros H1 H2. rewrite Forall_forall in *. auto. Qed.

Lemma tbc_typed fuel : forall b children b',
  shell b = true -> Forall F1 children -> table_boxes_children fuel b children = Ok b' ->
  fixed 1 b' = true /\ ty b' = result_ty (ty b).
Proof.
  induction fuel as [|f IH]; intros b children b' Hsh Hch H; [discriminate|].
  rewrite tbc_unfold in H. cbv zeta in H.
  set (rec := table_boxes_children f) in *.
  pose proof Hsh as Hsh'. unfold shell in Hsh'. bsplit.
  match goal with H : attrs_ok (at_ b) = true |- _ => rename H into Ha end.
  match goal with H : mut_ok b = true |- _ => rename H into Hm end.
  match goal with H : negb (is_wrap (mu b)) = true |- _ => apply Bool.negb_true_iff in H; rename H into Hw end.
  match goal with H : negb (is LineT b) = true |- _ => apply Bool.negb_true_iff in H; rename H into Hnl end.
  match goal with H : parent_t (ty b) = true |- _ => rename H into Hpar end.
  assert (Hrec : forall wty l w', wrap_ty wty = true -> Forall F1 l ->
            rec (anon_from wty b []) l = Ok w' -> fixed 1 w' = true /\ ty w' = result_ty wty).
  { intros wty l w' Hwt Hl Hr. apply (IH (anon_from wty b []) l w'); auto. apply shell_anon; assumption. }
  pose proof (tbc_c0_fixed b children Ha Hch) as Hc0.
  set (c2 := rule_1_4 None (rule_1_3 b (tbc_c0 b children))) in *.
  assert (Hinc : incl c2 (tbc_c0 b children)).
  { unfold c2. eapply incl_tran; [apply rule_1_4_incl|apply rule_1_3_incl]. }
  assert (Hc2 : Forall F1 c2) by (eapply Forall_incl; eassumption).
  apply bind_ok in H. destruct H as (c3 & H3 & H).
  apply bind_ok in H. destruct H as (c4 & H4 & H).
  apply bind_ok in H. destruct H as (c5 & H5 & H).
  (* the shape of the result for a box that is not a table *)
  assert (Hfin : forall l, table_t (ty b) = false -> Forall F1 l ->
             (cok 1 (set_ch b l) = true) -> fixed 1 (set_ch b l) = true /\ ty (set_ch b l) = result_ty (ty b)).
  { intros l Ht Hl Hk. unfold fixed. autorewrite with box. rewrite Ht. simpl.
    split; [|destruct (ty b); try reflexivity; discriminate].
    rewrite Bool.andb_true_r. apply tree_intro; [assumption|]. autorewrite with box.
    eapply Forall_impl; [|exact Hl]. intros c. apply fixed_tree. }
  assert (Hcokk : forall l, cok 1 (set_ch b l) =
                            (let w := false in
                             let bc := kids_flow l in
                             match ty b with
                             | TextT | BlockReplacedT | InlineReplacedT | ColT => no_kids l && negb w
                             | LineT => false
                             | InlineT => kids_flow l && negb w
                             | BlockT | InlineBlockT => bc
                             | CellT | CaptionT => bc && negb w
                             | TableT | InlineTableT =>
                                 table_children_ok l && forallb group_grid_ok (filter (is RowGroupT) l) && negb w
                             | RowGroupT => forallb (is RowT) l && negb w
                             | RowT => forallb (is CellT) l && negb w
                             | ColGroupT => forallb (is ColT) l && negb w
                             | _ => kids_flow l && negb w
                             end)).
  { intros l. unfold cok. autorewrite with box.
    replace (mut_ok (set_ch b l)) with (mut_ok b) by (unfold mut_ok, is; autorewrite with box; reflexivity).
    rewrite Ha, Hm, Hw. destruct (ty b); reflexivity. }
  unfold stage3, stage4, stage5 in *.
  destruct (table_t (ty b)) eqn:Etab.
  - (* tables: rule 2.1, then everything is a proper table child *)
    pose proof (stage_out rec b Hrec RowT ptc c2 c3 eq_refl Hc2 H3) as Hs3.
    assert (Hptc : Forall (fun c => ptc c = true) c3).
    { eapply Forall_impl; [|exact Hs3]. intros c [_ [[_ E]|E]]; [assumption|]. unfold ptc. rewrite E. reflexivity. }
    assert (E1 : is RowT b = false) by (unfold is; destruct (ty b); try discriminate; reflexivity).
    assert (E2 : is InlineT b = false) by (unfold is; destruct (ty b); try discriminate; reflexivity).
    rewrite E1 in H4. rewrite E2 in H5.
    rewrite wrap_improper_id in H4.
    2:{ eapply Forall_impl; [|exact Hptc]. intros c Hc. unfold ptc, is in *. destruct (ty c); try discriminate; reflexivity. }
    injection H4 as <-.
    rewrite wrap_improper_id in H5.
    2:{ eapply Forall_impl; [|exact Hptc]. intros c Hc. unfold ptc in *.
        destruct (ty b); try discriminate; destruct (ty c); try discriminate; reflexivity. }
    injection H5 as <-.
    apply (wrap_table_typed rec b Hrec Hsh c3 b' Etab); [|exact H].
    eapply Forall_impl; [|exact Hs3]. intros c [E _]; exact E.
  - destruct (is RowGroupT b) eqn:Erg.
    + (* row groups: rule 2.2 *)
      pose proof (stage_out rec b Hrec RowT (is RowT) c2 c3 eq_refl Hc2 H3) as Hs3.
      assert (Hrows : Forall (fun c => is RowT c = true) c3).
      { eapply Forall_impl; [|exact Hs3]. intros c [_ [[_ E]|E]]; [assumption|]. apply is_true_iff. exact E. }
      apply is_true_iff in Erg.
      assert (E1 : is RowT b = false) by (apply is_false_iff; congruence).
      assert (E2 : is InlineT b = false) by (apply is_false_iff; congruence).
      rewrite E1 in H4. rewrite E2 in H5.
      rewrite wrap_improper_id in H4.
      2:{ eapply Forall_impl; [|exact Hrows]. intros c Hc. apply is_true_iff in Hc. unfold is. rewrite Hc. reflexivity. }
      injection H4 as <-.
      rewrite wrap_improper_id in H5.
      2:{ eapply Forall_impl; [|exact Hrows]. intros c Hc. apply is_true_iff in Hc. rewrite Erg, Hc. simpl. apply Bool.orb_true_r. }
      injection H5 as <-. injection H as <-.
      apply Hfin; [first [assumption|reflexivity]| |].
      * eapply Forall_impl; [|exact Hs3]. intros c [E _]; exact E.
      * rewrite Hcokk, Erg. simpl. rewrite Bool.andb_true_r. apply forallb_Forall. assumption.
    + injection H3 as <-.
      destruct (is RowT b) eqn:Erow.
      * (* rows: rule 2.3 *)
        pose proof (stage_out rec b Hrec CellT (is CellT) c2 c4 eq_refl Hc2 H4) as Hs4.
        assert (Hcells : Forall (fun c => is CellT c = true) c4).
        { eapply Forall_impl; [|exact Hs4]. intros c [_ [[_ E]|E]]; [assumption|]. apply is_true_iff. exact E. }
        apply is_true_iff in Erow.
        assert (E2 : is InlineT b = false) by (apply is_false_iff; congruence).
        rewrite E2 in H5.
        rewrite wrap_improper_id in H5.
        2:{ eapply Forall_impl; [|exact Hcells]. intros c Hc. apply is_true_iff in Hc. unfold ptc. rewrite Hc. reflexivity. }
        injection H5 as <-. injection H as <-.
        apply Hfin; [first [assumption|reflexivity]| |].
        -- eapply Forall_impl; [|exact Hs4]. intros c [E _]; exact E.
        -- rewrite Hcokk, Erow. simpl. rewrite Bool.andb_true_r. apply forallb_Forall. assumption.
      * (* everything else: rule 3.1 then 3.2 *)
        pose proof (stage_out rec b Hrec RowT (fun c => negb (is CellT c)) c2 c4 eq_refl Hc2 H4) as Hs4.
        assert (Hnc : Forall (fun c => fixed 1 c = true /\ is CellT c = false) c4).
        { eapply Forall_impl; [|exact Hs4]. intros c [Hf [[_ E]|E]]; split; auto.
          - apply Bool.negb_true_iff in E. exact E.
          - apply is_false_iff. simpl in E. congruence. }
        assert (Hf4 : Forall F1 c4) by (eapply Forall_impl; [|exact Hnc]; intros c [E _]; exact E).
        destruct (is ColT b) eqn:Ecol.
        { (* columns have no children *)
          assert (Ec2 : c2 = []).
          { assert (E0 : tbc_c0 b children = []) by (unfold tbc_c0; rewrite Ecol; reflexivity).
            rewrite E0 in Hinc. destruct c2 as [|x r]; [reflexivity|]. exfalso. apply (Hinc x). left; reflexivity. }
          rewrite Ec2 in H4. injection H4 as <-.
          apply is_true_iff in Ecol.
          assert (E2 : is InlineT b = false) by (apply is_false_iff; congruence).
          rewrite E2 in H5. injection H5 as <-. injection H as <-.
          apply Hfin; [first [assumption|reflexivity]|constructor|]. rewrite Hcokk, Ecol. reflexivity. }
        destruct (is ColGroupT b) eqn:Ecg.
        { (* column groups: only columns survive rule 1.2 *)
          pose proof (tbc_c0_cols b children Ecg) as Hcols0.
          assert (Hcols : Forall (fun c => is ColT c = true) c2) by (eapply Forall_incl; eassumption).
          apply is_true_iff in Ecg.
          assert (E2 : is InlineT b = false) by (apply is_false_iff; congruence).
          rewrite E2 in H5.
          rewrite wrap_improper_id in H4.
          2:{ eapply Forall_impl; [|exact Hcols]. intros c Hc. apply is_true_iff in Hc. unfold is. rewrite Hc. reflexivity. }
          injection H4 as <-.
          rewrite wrap_improper_id in H5.
          2:{ eapply Forall_impl; [|exact Hcols]. intros c Hc. apply is_true_iff in Hc. rewrite Ecg, Hc. simpl. apply Bool.orb_true_r. }
          injection H5 as <-. injection H as <-.
          apply Hfin; [first [assumption|reflexivity]|assumption|].
          rewrite Hcokk, Ecg. simpl. rewrite Bool.andb_true_r. apply forallb_Forall. assumption. }
        (* generic parent: children end up flow boxes *)
        assert (Hflow : Forall (fun c => fixed 1 c = true /\ flow_t (ty c) = true) c5).
        { destruct (is InlineT b) eqn:Einl.
          - pose proof (stage_out rec b Hrec InlineTableT (fun c => negb (ptc c)) c4 c5 eq_refl Hf4 H5) as Hs5.
            eapply Forall_impl; [|exact Hs5]. intros c [Hf [[Hin E]|E]]; split; auto.
            + rewrite Forall_forall in Hnc. destruct (Hnc c Hin) as [_ Hncc].
              apply fixed_flow; auto. apply Bool.negb_true_iff in E. exact E.
            + simpl in E. rewrite E. reflexivity.
          - pose proof (stage_out rec b Hrec TableT _ c4 c5 eq_refl Hf4 H5) as Hs5.
            eapply Forall_impl; [|exact Hs5]. intros c [Hf [[Hin E]|E]]; split; auto.
            + rewrite Forall_forall in Hnc. destruct (Hnc c Hin) as [_ Hncc].
              apply fixed_flow; auto.
              rewrite ipp_other in E; auto.
              * rewrite Bool.orb_false_r in E. apply Bool.negb_true_iff in E. exact E.
              * apply is_false_iff. assumption.
              * apply is_false_iff. assumption.
            + simpl in E. rewrite E. reflexivity. }
        injection H as <-.
        apply Hfin; [first [assumption|reflexivity]| |].
        -- eapply Forall_impl; [|exact Hflow]. intros c [E _]; exact E.
        -- rewrite Hcokk.
           assert (Hkf : kids_flow c5 = true).
           { apply forallb_Forall. eapply Forall_impl; [|exact Hflow]. intros c [_ E]; exact E. }
           rewrite Hkf. unfold is in *.
           destruct (ty b); try reflexivity; discriminate.
Qed.

(* ------------------------------------------------------------------ AnonymousTableBoxes *)
Definition atb_list : list box -> res (list box) :=
  fix go (l : list box) : res (list box) :=
    match l with
    | [] => Ok []
    | c :: r => let* c' := anonymous_table_boxes c in let* r' := go r in Ok (c' :: r')
    end.

Lemma atb_unfold b :
  anonymous_table_boxes b =
  if negb (parent_t (ty b)) || running b then Ok b
  else let* children := atb_list (ch b) in table_boxes_children tbc_fuel b children.
Proof. destruct b; reflexivity. Qed.

Lemma atb_list_spec (P : box -> box -> Prop) l : forall l',
  Forall (fun c => forall c', anonymous_table_boxes c = Ok c' -> P c c') l ->
  atb_list l = Ok l' -> Forall2 P l l'.
Proof.
  induction l as [|c l IH]; intros l' H E; simpl in E.
  - injection E as <-. constructor.
  - inversion H; subst.
    apply bind_ok in E. destruct E as (c' & Hc & E).
    apply bind_ok in E. destruct E as (r' & Hr & E). injection E as <-.
    constructor; auto.
Qed.

Lemma iok_not_running b : iok b = true -> running b = false.
Proof.
  unfold iok, attrs_ok, running. intros H. bsplit.
  match goal with H : negb ?x = true |- ?x = false => apply Bool.negb_true_iff in H; exact H end.
Qed.

Theorem atb_typed : forall b b',
  tree iok b = true -> anonymous_table_boxes b = Ok b' ->
  fixed 1 b' = true /\ ty b' = result_ty (ty b).
Proof.
  induction b as [t a m l IH] using box_ind'. intros b' Ht H.
  apply tree_inv in Ht. destruct Ht as [Hi Hkids]. simpl ch in Hkids.
  rewrite atb_unfold in H. rewrite (iok_not_running _ Hi), Bool.orb_false_r in H.
  pose proof Hi as Hi'. unfold iok in Hi'. bsplit.
  destruct (parent_t (ty (Box t a m l))) eqn:Epar; simpl negb in H; cbv iota in H.
  - apply bind_ok in H. destruct H as (children & Hc & H).
    apply (tbc_typed tbc_fuel _ children b'); [|  |exact H].
    + unfold shell. brw. reflexivity.
    + eapply (atb_list_spec (fun c c' => fixed 1 c' = true)) in Hc.
      * clear -Hc. induction Hc; constructor; auto.
      * simpl ch. rewrite Forall_forall in *. intros c Hin c' Hc'.
        apply (IH c Hin c'); auto.
  - injection H as <-. simpl in *.
    match goal with H : no_kids l = true |- _ => rename H into Hnk end.
    destruct l; [|discriminate].
    split; [|destruct t; try discriminate; reflexivity].
    unfold fixed, cok; simpl. unfold is in *. simpl in *. brw.
    destruct t; try discriminate; simpl; try reflexivity.
Qed.

(* ------------------------------------------------------------------ the grid of one row group, on boxes *)
Definition group_spans_ok (g : box) : Prop :=
  Forall (fun r => Forall (fun c => 0 <= colspan (mu c) /\ 0 <= rowspan (mu c)) (ch r)) (ch g).

Theorem box_group_grid g :
  group_spans_ok g ->
  exists g',
    box_assign_group g = Ok g' /\
    group_grid_ok g' = true /\
    rows_placed box box bcolspan browspan bgridx place_cell ch set_ch [] 0 (Z.of_nat (length (ch g))) (ch g) (ch g') /\
    ((forall r c, In r (ch g) -> In c (ch r) -> colspan (mu c) <= 1) -> group_disjoint g' = true).
Proof.
  intros Hsp.
  destruct (assign_group_spec box box bcolspan browspan bgridx place_cell ch set_ch
              bgridx_place browspan_place bcolspan_place ch_set_ch (ch g) Hsp)
    as (rows' & Hag & Hrp & Haf & Hig).
  exists (set_ch g rows'). unfold box_assign_group.
  unfold bcolspan, browspan in Hag. rewrite Hag. simpl. autorewrite with box.
  assert (Hlen : length rows' = length (ch g)).
  { symmetry. eapply Forall2_len. eapply rows_placed_rel. eassumption. }
  split; [reflexivity|]. split; [|split; [assumption|]].
  - unfold group_grid_ok, group_slots. autorewrite with box. rewrite group_slots_from_eq, Haf, Hlen. assumption.
  - intros Hw. unfold group_disjoint, group_slots. autorewrite with box. rewrite group_slots_from_eq.
    apply ord_free_disjoint; [apply ord_free_anchors_free; assumption|].
    (* every slot keeps the colspan of its cell *)
    apply rows_placed_rel in Hrp.
    assert (Hgen : forall y rows rows2,
               Forall2 row_rel rows rows2 ->
               (forall r c, In r rows -> In c (ch r) -> colspan (mu c) <= 1) ->
               Forall (fun s => sw s <= 1) (rows_slots box box bcolspan browspan bgridx ch y rows2)).
    { intros y rows rows2 Hrel. revert y. induction Hrel as [|r r' l l' Hr Hl IH]; intros y Hc; simpl; [constructor|].
      apply Forall_app. split.
      - destruct Hr as (_ & _ & _ & Hcells).
        assert (Hcr : forall c, In c (ch r) -> colspan (mu c) <= 1) by (intros c Hin; apply (Hc r c); [left; reflexivity|assumption]).
        clear -Hcells Hcr. induction Hcells as [|c c' k k' Hcc Hkk IHk]; simpl; [constructor|].
        constructor.
        + simpl. unfold bcolspan. destruct Hcc as (_ & _ & _ & _ & E & _). rewrite E. apply Hcr. left; reflexivity.
        + apply IHk. intros c0 Hin. apply Hcr. right; assumption.
      - apply IH. intros r0 c0 Hr0 Hc0. apply (Hc r0 c0); [right; assumption|assumption]. }
    apply (Hgen 0 (ch g) rows' Hrp Hw).
Qed.
