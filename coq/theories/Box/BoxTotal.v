(* Box/BoxTotal.v -- CreateAnonymousBox as a whole: total and well formed. *)
From Verif Require Import Box.BoxGen Box.BoxWf Box.BoxBasics Box.BoxInv Box.TableFixupProofs Box.TableFixupTotal
  Box.BoxSim Box.FlexGridProofs Box.InlineInBlockProofs Box.BlockInInlineProofs Box.BlockInInlineTotal Box.BoxWfProofs.
From Coq Require Import Lia.

Theorem block_in_inline_total_wf : forall t,
  tree (cok 4) t = true -> ty t <> InlineT -> ty t <> LineT ->
  exists t', block_in_inline (S (size t)) t = Ok t' /\ tree (cok 5) t' = true.
Proof.
  intros t Ht H1 H2.
  destruct (bii_total (S (size t)) t Ht H1 H2 (le_n _)) as [t' E].
  exists t'. split; [assumption|]. apply (bii_typed _ t t' Ht H1 H2 E).
Qed.

Theorem create_anonymous_total_wf : forall t,
  input_ok t = true -> block_flow_t (result_ty (ty t)) = true ->
  exists t', create_anonymous t = Ok t' /\ wf_root t' = true.
Proof.
  intros t Hin Hroot.
  destruct (atb_total t Hin) as [b1 H1].
  destruct (atb_typed t b1 Hin H1) as [F1 T1].
  pose proof (fixed_tree _ _ F1) as Tr1.
  destruct (flex_typed b1 Tr1) as [Tr2 S2].
  destruct (grid_typed _ Tr2) as [Tr3 S3].
  destruct (iib_total _ Tr3) as [b4 H4].
  destruct (iib_typed _ b4 Tr3 H4) as [Tr4 S4].
  assert (Ety : ty b4 = result_ty (ty t)).
  { rewrite (sim_ty _ _ S4), (sim_ty _ _ S3), (sim_ty _ _ S2). assumption. }
  destruct (block_in_inline_total_wf b4 Tr4) as (t' & H5 & _).
  - intros E. rewrite Ety in E. rewrite E in Hroot. discriminate.
  - intros E. rewrite Ety in E. rewrite E in Hroot. discriminate.
  - assert (Hc : create_anonymous t = Ok t').
    { unfold create_anonymous. rewrite H1. cbn [bind]. rewrite H4. cbn [bind]. exact H5. }
    exists t'. split; [exact Hc|]. apply (create_anonymous_wf_root t t' Hin Hroot Hc).
Qed.
