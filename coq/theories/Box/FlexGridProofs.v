(* Box/FlexGridProofs.v -- FlexBoxes and GridBoxes: after them every child of
   a flex / grid container is a blockified item (stages 2 and 3 of
   Box/BoxInv.v), and nothing else changes. *)
From Verif Require Import Box.BoxGen Box.BoxWf Box.BoxBasics Box.BoxInv Box.TableFixupProofs Box.BoxSim.
From Coq Require Import Lia.
Open Scope Z_scope.

Lemma cok_stage_12 b : flex_container_t (ty b) = false -> cok 2 b = cok 1 b.
Proof. intros H. unfold cok. destruct (ty b); try discriminate; reflexivity. Qed.
Lemma cok_stage_23 b : grid_container_t (ty b) = false -> cok 3 b = cok 2 b.
Proof. intros H. unfold cok. destruct (ty b); try discriminate; reflexivity. Qed.

Lemma tree_leaf_stage st st' b : parent_t (ty b) = false -> tree (cok st) b = true -> tree (cok st') b = true.
Proof.
  intros Hp Ht. apply tree_inv in Ht. destruct Ht as [Hk _].
  assert (Hnk : ch b = []).
  { unfold cok in Hk. destruct (ty b); try discriminate; bsplit; destruct (ch b); try discriminate; reflexivity. }
  apply tree_intro; [|rewrite Hnk; constructor].
  unfold cok in *. destruct (ty b); try discriminate; assumption.
Qed.

Lemma cok_not_running st b : cok st b = true -> running b = false.
Proof.
  intros H. apply cok_attrs in H. destruct H as [H _]. unfold attrs_ok in H. bsplit. unfold running.
  match goal with H : negb ?x = true |- ?x = false => apply Bool.negb_true_iff in H; exact H end.
Qed.

Lemma flow_split t : flow_t t = true -> inline_level_t t = false -> block_flow_t t = true.
Proof. destruct t; simpl; intros; try reflexivity; discriminate. Qed.
Lemma flow_inline t : flow_t t = true -> inline_level_t t = true -> inline_flow_t t = true.
Proof. destruct t; simpl; intros; try reflexivity; discriminate. Qed.

(* changing only the flex / grid item flags does not change what is checked *)
Lemma tree_set_flexitem st c v : tree (cok st) (set_flexitem c v) = tree (cok st) c.
Proof. destruct c as [t a m l]. apply tree_ext; reflexivity. Qed.
Lemma tree_set_griditem st c v : tree (cok st) (set_griditem c v) = tree (cok st) c.
Proof. destruct c as [t a m l]. apply tree_ext; reflexivity. Qed.
Lemma ty_set_flexitem c v : ty (set_flexitem c v) = ty c. Proof. destruct c; reflexivity. Qed.
Lemma ty_set_griditem c v : ty (set_griditem c v) = ty c. Proof. destruct c; reflexivity. Qed.
Lemma at_set_flexitem c v : at_ (set_flexitem c v) = at_ c. Proof. destruct c; reflexivity. Qed.
Lemma at_set_griditem c v : at_ (set_griditem c v) = at_ c. Proof. destruct c; reflexivity. Qed.

Lemma attrs_ok_anon a : attrs_ok a = true -> attrs_ok (anon_attrs a) = true.
Proof. unfold attrs_ok. simpl. intros H. bsplit. brw. reflexivity. Qed.

(* a fresh anonymous block around one inline-level flow box *)
Lemma tree_anon_block st p c :
  (st < 4)%nat -> attrs_ok (at_ p) = true -> tree (cok st) c = true -> flow_t (ty c) = true ->
  tree (cok st) (set_flexitem (anon_from BlockT p [c]) true) = true.
Proof.
  intros Hst Ha Hc Hf. rewrite tree_set_flexitem. apply tree_intro.
  - unfold cok, anon_from. cbn [ty at_ mu ch new_mut mut0 is_wrap]. cbv zeta.
    rewrite (attrs_ok_anon _ Ha). rewrite mut_ok_noncell by discriminate.
    replace (4 <=? st)%nat with false by (symmetry; apply Nat.leb_gt; lia).
    unfold kids_flow. simpl. rewrite Hf. reflexivity.
  - simpl. constructor; [assumption|constructor].
Qed.

Section Flex.
  Lemma flex_children_spec b l l1 :
    flex_container_t (ty b) = true -> attrs_ok (at_ b) = true ->
    Forall (fun c => tree (cok 2) c = true) l1 -> Forall2 sim l l1 -> kids_flow l = true ->
    Forall (fun c => tree (cok 2) c = true /\ block_flow_t (ty c) = true) (flex_children b l1).
  Proof.
    intros Hb Ha Ht Hs Hk. unfold flex_children. rewrite Hb.
    unfold kids_flow in Hk. apply forallb_Forall in Hk.
    revert Ht Hk. induction Hs as [|c c1 l l1 Hc Hl IH]; intros Ht Hk; simpl; [constructor|].
    inversion Ht; subst. inversion Hk; subst. apply Forall_app. split; [|apply IH; assumption].
    set (c2 := if negb (abspos c1) then set_flexitem c1 true else c1).
    assert (E2 : ty c2 = ty c1 /\ tree (cok 2) c2 = true /\ at_ c2 = at_ c1).
    { unfold c2. destruct (negb (abspos c1)); [|auto].
      rewrite ty_set_flexitem, tree_set_flexitem, at_set_flexitem. auto. }
    destruct E2 as (E2a & E2b & E2c).
    assert (Hfl : flow_t (ty c2) = true) by (rewrite E2a, (sim_ty _ _ Hc); assumption).
    destruct (is TextT c2 && only_spaces c2); [constructor|].
    destruct (inline_level_t (ty c2)) eqn:Ei.
    - constructor; [|constructor]. split; [|reflexivity].
      apply tree_anon_block; auto.
    - constructor; [|constructor]. split; [assumption|]. apply flow_split; assumption.
  Qed.
End Flex.

Lemma map_Forall2 {A B} (f : A -> B) (R : A -> B -> Prop) l :
  Forall (fun a => R a (f a)) l -> Forall2 R l (map f l).
Proof. induction 1; simpl; constructor; auto. Qed.

Theorem flex_typed : forall b,
  tree (cok 1) b = true -> tree (cok 2) (flex_boxes b) = true /\ sim b (flex_boxes b).
Proof.
  induction b as [t a m l IH] using box_ind'. intros Ht.
  apply tree_inv in Ht. destruct Ht as [Hk Hkids]. simpl ch in Hkids.
  assert (Hfb : flex_boxes (Box t a m l) =
                if negb (parent_t t) || running (Box t a m l) then Box t a m l
                else set_ch (Box t a m l) (flex_children (Box t a m l) (map flex_boxes l))) by reflexivity.
  rewrite Hfb. rewrite (cok_not_running _ _ Hk), Bool.orb_false_r.
  destruct (parent_t t) eqn:Epar; simpl negb; cbv iota.
  2:{ split; [|apply sim_refl]. apply (tree_leaf_stage 1); [assumption|]. apply tree_intro; assumption. }
  assert (H1 : Forall (fun c => tree (cok 2) (flex_boxes c) = true /\ sim c (flex_boxes c)) l).
  { rewrite Forall_forall in *. intros c Hc. apply IH; auto. }
  assert (Ht1 : Forall (fun c => tree (cok 2) c = true) (map flex_boxes l)).
  { apply Forall_forall. intros c Hc. apply in_map_iff in Hc. destruct Hc as (c0 & <- & Hc0).
    rewrite Forall_forall in H1. apply H1. assumption. }
  assert (Hs1 : Forall2 sim l (map flex_boxes l)).
  { apply map_Forall2. eapply Forall_impl; [|exact H1]. intros c [_ E]; exact E. }
  pose proof (cok_attrs _ _ Hk) as [Ha Hm]. simpl in Ha.
  destruct (flex_container_t t) eqn:Efl.
  - (* a flex container: children are blockified *)
    assert (Hkf : kids_flow l = true).
    { unfold cok in Hk. simpl in Hk. destruct t; try discriminate; simpl in Hk; bsplit; assumption. }
    pose proof (flex_children_spec (Box t a m l) l (map flex_boxes l) Efl Ha Ht1 Hs1 Hkf) as Hfc.
    split.
    + apply tree_intro; autorewrite with box.
      * unfold cok. autorewrite with box. simpl ty. simpl at_. simpl mu.
        replace (mut_ok (set_ch (Box t a m l) _)) with (mut_ok (Box t a m l)) by (unfold mut_ok, is; autorewrite with box; reflexivity).
        rewrite Ha, Hm.
        assert (Hkb : kids_block (flex_children (Box t a m l) (map flex_boxes l)) = true).
        { apply forallb_Forall. eapply Forall_impl; [|exact Hfc]. intros c [_ E]; exact E. }
        rewrite Hkb. unfold cok in Hk. simpl in Hk.
        destruct t; try discriminate; simpl in *; bsplit; brw; reflexivity.
      * eapply Forall_impl; [|exact Hfc]. intros c [E _]; exact E.
    + apply sim_intro; autorewrite with box; try reflexivity.
      * unfold core_eq. tauto.
      * simpl. destruct t; try discriminate; intros; discriminate.
  - unfold flex_children. simpl ty. rewrite Efl.
    split.
    + apply tree_intro; autorewrite with box; [|assumption].
      rewrite cok_sim; [| simpl; assumption | simpl; eapply kids_groups_have_rows; eassumption].
      rewrite cok_stage_12; assumption.
    + apply sim_intro; autorewrite with box; try reflexivity.
      * unfold core_eq. tauto.
      * intros _. assumption.
Qed.

(* ------------------------------------------------------------------ grid *)
Lemma grid_children_spec b l l1 :
  grid_container_t (ty b) = true ->
  Forall (fun c => tree (cok 3) c = true) l1 -> Forall2 sim l l1 -> kids_flow l = true ->
  Forall (fun c => tree (cok 3) c = true /\ block_flow_t (ty c) = true) (grid_children b l1).
Proof.
  intros Hb Ht Hs Hk. unfold grid_children. rewrite Hb.
  unfold kids_flow in Hk. apply forallb_Forall in Hk.
  revert Ht Hk. induction Hs as [|c c1 l l1 Hc Hl IH]; intros Ht Hk; simpl; [constructor|].
  inversion Ht; subst. inversion Hk; subst. apply Forall_app. split; [|apply IH; assumption].
  set (c2 := if negb (abspos c1) then set_griditem c1 true else c1).
  assert (E2 : ty c2 = ty c1 /\ tree (cok 3) c2 = true /\ at_ c2 = at_ c1).
  { unfold c2. destruct (negb (abspos c1)); [|auto].
    rewrite ty_set_griditem, tree_set_griditem, at_set_griditem. auto. }
  destruct E2 as (E2a & E2b & E2c).
  assert (Hfl : flow_t (ty c2) = true) by (rewrite E2a, (sim_ty _ _ Hc); assumption).
  destruct (is TextT c2 && only_spaces c2); [constructor|].
  destruct (inline_level_t (ty c2)) eqn:Ei.
  - constructor; [|constructor]. split; [|reflexivity].
    apply tree_intro.
    + pose proof (tree_inv _ _ E2b) as [Hk2 _]. apply cok_attrs in Hk2. destruct Hk2 as [Ha2 _].
      unfold cok. cbn [ty at_ mu ch mut0 is_wrap set_griditem set_mu]. cbv zeta.
      rewrite mut_ok_noncell by discriminate.
      assert (Ha' : attrs_ok (mkA (a_el (at_ c2)) (a_pseudo (at_ c2)) (a_anon (at_ c2)) (a_float (at_ c2))
                              (a_abs (at_ c2)) (a_run (at_ c2)) (a_wsc (at_ c2)) (a_disp (at_ c2)) (a_cap (at_ c2))
                              (a_colspan (at_ c2)) (a_rowspan (at_ c2)) (a_span (at_ c2)) []) = true) by exact Ha2.
      rewrite Ha'. unfold kids_flow. simpl. rewrite ty_set_griditem, Hfl. reflexivity.
    + simpl. constructor; [|constructor]. rewrite tree_set_griditem. assumption.
  - constructor; [|constructor]. split; [assumption|]. apply flow_split; assumption.
Qed.

Theorem grid_typed : forall b,
  tree (cok 2) b = true -> tree (cok 3) (grid_boxes b) = true /\ sim b (grid_boxes b).
Proof.
  induction b as [t a m l IH] using box_ind'. intros Ht.
  apply tree_inv in Ht. destruct Ht as [Hk Hkids]. simpl ch in Hkids.
  assert (Hfb : grid_boxes (Box t a m l) =
                if negb (parent_t t) || running (Box t a m l) then Box t a m l
                else set_ch (Box t a m l) (grid_children (Box t a m l) (map grid_boxes l))) by reflexivity.
  rewrite Hfb. rewrite (cok_not_running _ _ Hk), Bool.orb_false_r.
  destruct (parent_t t) eqn:Epar; simpl negb; cbv iota.
  2:{ split; [|apply sim_refl]. apply (tree_leaf_stage 2); [assumption|]. apply tree_intro; assumption. }
  assert (H1 : Forall (fun c => tree (cok 3) (grid_boxes c) = true /\ sim c (grid_boxes c)) l).
  { rewrite Forall_forall in *. intros c Hc. apply IH; auto. }
  assert (Ht1 : Forall (fun c => tree (cok 3) c = true) (map grid_boxes l)).
  { apply Forall_forall. intros c Hc. apply in_map_iff in Hc. destruct Hc as (c0 & <- & Hc0).
    rewrite Forall_forall in H1. apply H1. assumption. }
  assert (Hs1 : Forall2 sim l (map grid_boxes l)).
  { apply map_Forall2. eapply Forall_impl; [|exact H1]. intros c [_ E]; exact E. }
  pose proof (cok_attrs _ _ Hk) as [Ha Hm]. simpl in Ha.
  destruct (grid_container_t t) eqn:Efl.
  - assert (Hkf : kids_flow l = true).
    { unfold cok in Hk. simpl in Hk. destruct t; try discriminate; simpl in Hk; bsplit; assumption. }
    pose proof (grid_children_spec (Box t a m l) l (map grid_boxes l) Efl Ht1 Hs1 Hkf) as Hfc.
    split.
    + apply tree_intro; autorewrite with box.
      * unfold cok. autorewrite with box. simpl ty. simpl at_. simpl mu.
        replace (mut_ok (set_ch (Box t a m l) _)) with (mut_ok (Box t a m l)) by (unfold mut_ok, is; autorewrite with box; reflexivity).
        rewrite Ha, Hm.
        assert (Hkb : kids_block (grid_children (Box t a m l) (map grid_boxes l)) = true).
        { apply forallb_Forall. eapply Forall_impl; [|exact Hfc]. intros c [_ E]; exact E. }
        rewrite Hkb. unfold cok in Hk. simpl in Hk.
        destruct t; try discriminate; simpl in *; bsplit; brw; reflexivity.
      * eapply Forall_impl; [|exact Hfc]. intros c [E _]; exact E.
    + apply sim_intro; autorewrite with box; try reflexivity.
      * unfold core_eq. tauto.
      * simpl. destruct t; try discriminate; intros; discriminate.
  - unfold grid_children. simpl ty. rewrite Efl.
    split.
    + apply tree_intro; autorewrite with box; [|assumption].
      rewrite cok_sim; [| simpl; assumption | simpl; eapply kids_groups_have_rows; eassumption].
      rewrite cok_stage_23; assumption.
    + apply sim_intro; autorewrite with box; try reflexivity.
      * unfold core_eq. tauto.
      * intros _. assumption.
Qed.

(* the statement of the property: flex and grid containers hold only blockified items *)
Theorem flex_grid_items_blockified : forall b,
  tree (cok 1) b = true ->
  tree (cok 3) (grid_boxes (flex_boxes b)) = true.
Proof. intros b H. apply grid_typed. apply flex_typed. assumption. Qed.
