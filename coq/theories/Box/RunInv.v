(* Box/RunInv.v -- the staged invariants of Box/BoxInv.v generalised to
   documents WITH position: running() elements.  A running box is opaque: the
   passes return it unchanged and Box/BoxWf.wf does not look inside it; its
   parent treats it by its type like any other child, except that a running
   bare table is never wrapped (AnonymousTableBoxes returns it as it is), so
   a running table may stay among flow children (`rtab`).
   Definitions + elementary lemmas (proof infrastructure). *)
From Verif Require Import Box.BoxGen Box.BoxWf Box.BoxBasics Box.BoxInv Box.TableFixupProofs.
From Coq Require Import Lia.
Open Scope Z_scope.

Definition attrs_okR (a : attrs) : bool := (0 <=? a_colspan a) && (0 <=? a_rowspan a).
(* every box has non-negative Colspan / Rowspan fields (0 for non-cells in /repo) *)
Definition sp (b : box) : bool := (0 <=? colspan (mu b)) && (0 <=? rowspan (mu b)).

(* a running bare table *)
Definition rtab (c : box) : bool := running c && table_t (ty c).

(* the children wf counts *)
Definition nonrun (l : list box) : list box := filter (fun c => negb (running c)) l.
(* a table wrapper: captions, the table, captions -- and the table is not running *)
Definition wrapper_okR (tt : bty) (l : list box) : bool :=
  wrapper_children_ok tt l && wrapper_children_ok tt (nonrun l).

(* the only child is a line box (line boxes are anonymous: never running) *)
Definition single_lineR (l : list box) : bool :=
  match l with [c] => is LineT c && negb (running c) | _ => false end.

Definition kids_flowR (l : list box) : bool := forallb (fun c => flow_t (ty c) || rtab c) l.
Definition kids_blockR (l : list box) : bool := forallb (fun c => block_flow_t (ty c) || rtab c) l.
Definition kids_inlineR (l : list box) : bool :=
  forallb (fun c => inline_flow_t (ty c) || (block_flow_t (ty c) && negb (in_flow c)) || rtab c) l.

(* what elementToBox delivers, running elements included *)
Definition iokR (b : box) : bool :=
  attrs_okR (at_ b) && mut_ok b && negb (is_wrap (mu b)) && negb (is LineT b) &&
  (parent_t (ty b) || no_kids (ch b)).

(* local invariant after pass st (1..5) at a box that is not running *)
(* a running box keeps Colspan / Rowspan fields >= 0 below it (the grid
   assignment of wrapTable visits the children of running rows / row groups) *)
Definition run_sp (b : box) : bool := negb (running b) || forallb (tree sp) (ch b).

Definition cokR (st : nat) (b : box) : bool :=
  sp b && run_sp b && attrs_okR (at_ b) && mut_ok b &&
  (if running b then negb (is LineT b) else
  let l := ch b in
  let w := is_wrap (mu b) in
  let bc := if (4 <=? st)%nat then kids_blockR l || single_lineR l else kids_flowR l in
  match ty b with
  | TextT | BlockReplacedT | InlineReplacedT | ColT => no_kids l && negb w
  | LineT => (4 <=? st)%nat && kids_inlineR l && negb w
  | InlineT => (if (5 <=? st)%nat then kids_inlineR l else kids_flowR l) && negb w
  | BlockT => if w then wrapper_okR TableT l else bc
  | InlineBlockT => if w then wrapper_okR InlineTableT l else bc
  | CellT | CaptionT => bc && negb w
  | TableT | InlineTableT =>
      table_children_ok l && forallb group_grid_ok (filter (is RowGroupT) l) && negb w
  | RowGroupT => forallb (is RowT) l && negb w
  | RowT => forallb (is CellT) l && negb w
  | ColGroupT => forallb (is ColT) l && negb w
  | FlexT | InlineFlexT => (if (2 <=? st)%nat then kids_blockR l else kids_flowR l) && negb w
  | GridT | InlineGridT => (if (3 <=? st)%nat then kids_blockR l else kids_flowR l) && negb w
  end).

(* P at every box that is not inside a running box; running boxes are opaque *)
Fixpoint treeR (P : box -> bool) (b : box) : bool :=
  P b && (running b || forallb (treeR P) (ch b)).

Definition fixedR (st : nat) (c : box) : bool :=
  treeR (cokR st) c && (running c || negb (table_t (ty c))).

Lemma run_sp_nonrun b : running b = false -> run_sp b = true.
Proof. unfold run_sp. intros ->. reflexivity. Qed.

Lemma sp_set_ch b l : sp (set_ch b l) = sp b.
Proof. destruct b; reflexivity. Qed.
Lemma cokR_sp st c : cokR st c = true -> sp c = true /\ run_sp c = true.
Proof. unfold cokR. intros H. bsplit. auto. Qed.
(* below a running box everything has fields >= 0 *)
Lemma cokR_running_tree_sp st c : running c = true -> cokR st c = true -> tree sp c = true.
Proof.
  intros Er H. apply cokR_sp in H. destruct H as [H1 H2]. unfold run_sp in H2. rewrite Er in H2. simpl in H2.
  destruct c; simpl in *. rewrite H1, H2. reflexivity.
Qed.

Lemma treeR_unfold P b : treeR P b = P b && (running b || forallb (treeR P) (ch b)).
Proof. destruct b; reflexivity. Qed.

Lemma treeR_inv P b : running b = false -> treeR P b = true ->
  P b = true /\ Forall (fun c => treeR P c = true) (ch b).
Proof.
  intros Hr H. rewrite treeR_unfold, Hr in H. simpl in H. bsplit. split; [assumption|].
  apply forallb_Forall. assumption.
Qed.
Lemma treeR_root P b : treeR P b = true -> P b = true.
Proof. rewrite treeR_unfold. intros H. bsplit. assumption. Qed.
Lemma treeR_intro P b : P b = true -> Forall (fun c => treeR P c = true) (ch b) -> treeR P b = true.
Proof.
  intros H1 H2. rewrite treeR_unfold, H1. simpl. apply Bool.orb_true_iff. right.
  apply forallb_Forall. assumption.
Qed.
Lemma treeR_running P b : running b = true -> P b = true -> treeR P b = true.
Proof. intros Hr H. rewrite treeR_unfold, H, Hr. reflexivity. Qed.

Lemma cokR_attrs st c : cokR st c = true -> attrs_okR (at_ c) = true /\ mut_ok c = true.
Proof. unfold cokR. intros H. bsplit. auto. Qed.
(* the invariant of a running box does not depend on the stage *)
Lemma cokR_running st st' c : running c = true -> cokR st c = true -> cokR st' c = true.
Proof. unfold cokR. intros Hr H. rewrite Hr in *. bsplit. brw. reflexivity. Qed.
Lemma treeR_running_stage st st' c : running c = true -> treeR (cokR st) c = true -> treeR (cokR st') c = true.
Proof.
  intros Hr H. apply treeR_running; [assumption|]. eapply cokR_running; [assumption|]. eapply treeR_root. eassumption.
Qed.
