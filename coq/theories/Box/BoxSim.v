(* Box/BoxSim.v -- "the same box as far as a parent can tell": passes 2-5 keep
   the type, the style-derived attributes and the grid fields of every box
   they do not create, and keep the row/cell skeleton of row groups.  The
   stage invariant of a parent only depends on its children up to this
   relation. *)
From Verif Require Import Box.BoxGen Box.BoxWf Box.BoxBasics Box.BoxInv Box.TableFixupProofs.
From Coq Require Import Lia.
Open Scope Z_scope.

Definition core_eq (m m' : mut) : Prop :=
  gridx m' = gridx m /\ colspan m' = colspan m /\ rowspan m' = rowspan m /\ is_wrap m' = is_wrap m.

Definition skeleton_t (t : bty) : bool := match t with RowGroupT | RowT => true | _ => false end.

Fixpoint sim (b b' : box) : Prop :=
  ty b' = ty b /\ at_ b' = at_ b /\ core_eq (mu b) (mu b') /\
  (if skeleton_t (ty b) then
     (fix go (l l' : list box) : Prop :=
        match l, l' with
        | [], [] => True
        | c :: r, c' :: r' => sim c c' /\ go r r'
        | _, _ => False
        end) (ch b) (ch b')
   else True).

Definition sim_list : list box -> list box -> Prop :=
  fix go (l l' : list box) : Prop :=
    match l, l' with
    | [], [] => True
    | c :: r, c' :: r' => sim c c' /\ go r r'
    | _, _ => False
    end.

Lemma sim_unfold b b' :
  sim b b' <->
  ty b' = ty b /\ at_ b' = at_ b /\ core_eq (mu b) (mu b') /\
  (skeleton_t (ty b) = true -> sim_list (ch b) (ch b')).
Proof.
  destruct b as [t a m l], b' as [t' a' m' l']. simpl.
  destruct (skeleton_t t); intuition auto. discriminate.
Qed.

Lemma sim_list_Forall2 l l' : sim_list l l' <-> Forall2 sim l l'.
Proof.
  revert l'. induction l as [|c l IH]; intros [|c' l']; simpl; split; intros H.
  - constructor.
  - exact I.
  - contradiction.
  - inversion H.
  - contradiction.
  - inversion H.
  - destruct H as [H1 H2]. constructor; [assumption|apply IH; assumption].
  - inversion H; subst. split; [assumption|apply IH; assumption].
Qed.

Lemma sim_ty b b' : sim b b' -> ty b' = ty b.
Proof. intros H. apply sim_unfold in H. tauto. Qed.
Lemma sim_at b b' : sim b b' -> at_ b' = at_ b.
Proof. intros H. apply sim_unfold in H. tauto. Qed.
Lemma sim_core b b' : sim b b' -> core_eq (mu b) (mu b').
Proof. intros H. apply sim_unfold in H. tauto. Qed.
Lemma sim_kids b b' : sim b b' -> skeleton_t (ty b) = true -> Forall2 sim (ch b) (ch b').
Proof. intros H Hs. apply sim_unfold in H. apply sim_list_Forall2. tauto. Qed.

Lemma sim_intro b b' :
  ty b' = ty b -> at_ b' = at_ b -> core_eq (mu b) (mu b') ->
  (skeleton_t (ty b) = true -> Forall2 sim (ch b) (ch b')) -> sim b b'.
Proof. intros H1 H2 H3 H4. apply sim_unfold. split; [|split; [|split]]; auto. intros Hs. apply sim_list_Forall2. auto. Qed.

Lemma sim_refl b : sim b b.
Proof.
  induction b as [t a m l IH] using box_ind'. apply sim_intro; try reflexivity.
  - unfold core_eq. tauto.
  - intros _. simpl. induction IH; constructor; auto.
Qed.

(* ------------------------------------------------------------------ what a parent sees *)
Lemma sim_is t c c' : sim c c' -> is t c' = is t c.
Proof. intros H. unfold is. rewrite (sim_ty _ _ H). reflexivity. Qed.

Lemma sim_in_flow c c' : sim c c' -> in_flow c' = in_flow c.
Proof. intros H. unfold in_flow. rewrite (sim_at _ _ H). reflexivity. Qed.

Lemma Forall2_forallb {A} (R : A -> A -> Prop) (f : A -> bool) l l' :
  Forall2 R l l' -> (forall a a', R a a' -> f a' = f a) -> forallb f l' = forallb f l.
Proof. intros H Hf. induction H; simpl; [reflexivity|]. rewrite (Hf _ _ H), IHForall2. reflexivity. Qed.

Lemma sim_row_slots y r r' : sim r r' -> ty r = RowT -> row_slots y r' = row_slots y r.
Proof.
  intros H Et. assert (Hk : Forall2 sim (ch r) (ch r')) by (apply sim_kids; [assumption|rewrite Et; reflexivity]).
  unfold row_slots. induction Hk as [|c c' l l' Hc Hl IH]; simpl; [reflexivity|].
  rewrite IH. f_equal. destruct (sim_core _ _ Hc) as (E1 & E2 & E3 & _). rewrite E1, E2, E3. reflexivity.
Qed.

Lemma sim_group_grid g g' :
  sim g g' -> ty g = RowGroupT -> Forall (fun r => is RowT r = true) (ch g) ->
  group_grid_ok g' = group_grid_ok g.
Proof.
  intros H Et Hrows.
  assert (Hk : Forall2 sim (ch g) (ch g')) by (apply sim_kids; [assumption|rewrite Et; reflexivity]).
  unfold group_grid_ok, group_slots. rewrite <- (Forall2_len _ _ _ Hk).
  assert (E : forall y, group_slots_from y (ch g') = group_slots_from y (ch g)).
  { clear H Et. induction Hk as [|r r' l l' Hr Hl IH]; intros y; simpl; [reflexivity|].
    inversion Hrows; subst. rewrite IH by assumption. f_equal.
    apply sim_row_slots; [assumption|apply is_true_iff; assumption]. }
  rewrite E. reflexivity.
Qed.

Lemma sim_wrapper_children tt l l' : Forall2 sim l l' -> wrapper_children_ok tt l' = wrapper_children_ok tt l.
Proof.
  intros H. induction H as [|c c' l l' Hc Hl IH]; simpl; [reflexivity|].
  rewrite (sim_is _ _ _ Hc), (sim_is _ _ _ Hc), IH.
  rewrite (Forall2_forallb sim (is CaptionT) l l' Hl (sim_is CaptionT)). reflexivity.
Qed.

Lemma sim_table_children l l' : Forall2 sim l l' -> table_children_ok l' = table_children_ok l.
Proof.
  intros H. induction H as [|c c' l l' Hc Hl IH]; simpl; [reflexivity|].
  rewrite (sim_is _ _ _ Hc), (sim_is _ _ _ Hc), IH.
  rewrite (Forall2_forallb sim (is RowGroupT) l l' Hl (sim_is RowGroupT)). reflexivity.
Qed.

Lemma sim_filter_groups l l' :
  Forall2 sim l l' -> Forall2 sim (filter (is RowGroupT) l) (filter (is RowGroupT) l').
Proof.
  intros H. induction H as [|c c' l l' Hc Hl IH]; simpl; [constructor|].
  rewrite (sim_is _ _ _ Hc). destruct (is RowGroupT c); [constructor|]; assumption.
Qed.

(* the local invariant of a box only depends on its children up to sim,
   provided the row groups among them have rows as children *)
Lemma cok_sim st b l' :
  Forall2 sim (ch b) l' ->
  Forall (fun g => is RowGroupT g = true -> Forall (fun r => is RowT r = true) (ch g)) (ch b) ->
  cok st (set_ch b l') = cok st b.
Proof.
  intros H Hg. unfold cok. autorewrite with box.
  replace (mut_ok (set_ch b l')) with (mut_ok b) by (unfold mut_ok, is; autorewrite with box; reflexivity).
  assert (Enk : no_kids l' = no_kids (ch b)) by (inversion H; reflexivity).
  assert (Ekf : kids_flow l' = kids_flow (ch b)).
  { unfold kids_flow. apply (Forall2_forallb sim _ _ _ H). intros c c' Hc. rewrite (sim_ty _ _ Hc). reflexivity. }
  assert (Ekb : kids_block l' = kids_block (ch b)).
  { unfold kids_block. apply (Forall2_forallb sim _ _ _ H). intros c c' Hc. rewrite (sim_ty _ _ Hc). reflexivity. }
  assert (Eki : kids_inline l' = kids_inline (ch b)).
  { unfold kids_inline. apply (Forall2_forallb sim _ _ _ H). intros c c' Hc.
    rewrite (sim_ty _ _ Hc), (sim_in_flow _ _ Hc). reflexivity. }
  assert (Esl : single_line l' = single_line (ch b)).
  { unfold single_line. inversion H as [|c c' l l2 Hc Hl]; subst; [reflexivity|].
    inversion Hl; subst; [|reflexivity]. apply sim_is. assumption. }
  assert (Egg : forallb group_grid_ok (filter (is RowGroupT) l') = forallb group_grid_ok (filter (is RowGroupT) (ch b))).
  { clear -H Hg. induction H as [|c c' l l2 Hc Hl IH]; simpl; [reflexivity|].
    inversion Hg; subst. rewrite (sim_is _ _ _ Hc). destruct (is RowGroupT c) eqn:E; [|apply IH; assumption].
    simpl. rewrite IH by assumption. f_equal.
    apply sim_group_grid; [assumption|apply is_true_iff; assumption|auto]. }
  rewrite Enk, Ekf, Ekb, Eki, Esl, Egg, (sim_wrapper_children _ _ _ H), (sim_wrapper_children _ _ _ H),
    (sim_table_children _ _ H),
    (Forall2_forallb sim (is RowT) _ _ H (sim_is RowT)),
    (Forall2_forallb sim (is CellT) _ _ H (sim_is CellT)),
    (Forall2_forallb sim (is ColT) _ _ H (sim_is ColT)).
  reflexivity.
Qed.

(* every row group child of a box whose subtrees satisfy the invariant has rows *)
Lemma kids_groups_have_rows st l :
  Forall (fun c => tree (cok st) c = true) l ->
  Forall (fun g => is RowGroupT g = true -> Forall (fun r => is RowT r = true) (ch g)) l.
Proof.
  intros H. eapply Forall_impl; [|exact H]. intros g Ht Hg.
  apply tree_inv in Ht. destruct Ht as [Hk _]. apply is_true_iff in Hg.
  eapply cok_rowgroup; eassumption.
Qed.
