(* Box/BlockInInlineTotal.v -- BlockInInline terminates without panic on the
   trees InlineInBlock produces: the resume stacks it builds are valid
   positions ("Should not skip here" and the slice Children[skip:] are
   unreachable), every resumption is strictly further in the line than the
   previous one, and the fuel S (size t) given by create_anonymous suffices. *)
From Verif Require Import Box.BoxGen Box.BoxWf Box.BoxBasics Box.BoxInv Box.TableFixupProofs Box.BoxSim
  Box.FlexGridProofs Box.InlineInBlockProofs Box.BlockInInlineProofs.
From Coq Require Import Lia.
Open Scope Z_scope.

Definition sizes (l : list box) : nat := fold_right (fun c n => (size c + n)%nat) O l.

Lemma size_eq b : size b = S (sizes (ch b)).
Proof. destruct b; reflexivity. Qed.

Lemma sizes_app l1 l2 : sizes (l1 ++ l2) = (sizes l1 + sizes l2)%nat.
Proof. induction l1; simpl; lia. Qed.

Lemma size_pos b : (1 <= size b)%nat. Proof. rewrite size_eq. lia. Qed.

Lemma sizes_firstn_le l i : (sizes (firstn i l) <= sizes l)%nat.
Proof. rewrite <- (firstn_skipn i l) at 2. rewrite sizes_app. lia. Qed.

Lemma sizes_firstn_S l i c :
  nth_error l i = Some c -> sizes (firstn (S i) l) = (sizes (firstn i l) + size c)%nat.
Proof.
  revert i. induction l as [|a l IH]; intros [|i] H; simpl in *; try discriminate.
  - injection H as ->. lia.
  - rewrite (IH i H). lia.
Qed.

Lemma In_size_lt c l : In c l -> (size c <= sizes l)%nat.
Proof. induction l as [|a l IH]; simpl; [tauto|]. intros [->|H]; [lia|specialize (IH H); lia]. Qed.

Lemma skipn_S_tail {A} (l : list A) i : skipn (S i) l = tl (skipn i l).
Proof.
  revert l. induction i as [|i IH]; intros l.
  - destruct l; reflexivity.
  - destruct l as [|a l]; [reflexivity|].
    change (skipn (S (S i)) (a :: l)) with (skipn (S i) l).
    change (skipn (S i) (a :: l)) with (skipn i l). apply IH.
Qed.

(* a resume stack is a position inside the inline boxes of x *)
Fixpoint valid (x : box) (st : stack) : Prop :=
  match st with
  | SNil => True
  | SCons i rest =>
      (0 <= i <= Z.of_nat (length (ch x))) /\
      (rest = SNil \/
       exists c, nth_error (ch x) (Z.to_nat i) = Some c /\ is InlineT c = true /\ valid c rest)
  end.

(* how far a position is, in boxes *)
Fixpoint pos (x : box) (st : stack) : nat :=
  match st with
  | SNil => O
  | SCons i rest =>
      (sizes (firstn (Z.to_nat i) (ch x)) +
       match rest with
       | SNil => O
       | _ => match nth_error (ch x) (Z.to_nat i) with Some c => S (pos c rest) | None => O end
       end)%nat
  end.

Lemma pos_bound st : forall x, valid x st -> (pos x st <= sizes (ch x))%nat.
Proof.
  induction st as [|i rest IH]; intros x Hv; simpl; [lia|].
  destruct Hv as [Hi Hr]. destruct rest as [|j rest'].
  - pose proof (sizes_firstn_le (ch x) (Z.to_nat i)). lia.
  - destruct Hr as [Hr|(c & Hc & _ & Hvc)]; [discriminate|].
    rewrite Hc. specialize (IH c Hvc).
    pose proof (sizes_firstn_S _ _ _ Hc). pose proof (sizes_firstn_le (ch x) (S (Z.to_nat i))).
    rewrite size_eq in H. lia.
Qed.

Lemma pos_cons_nil x idx : pos x (SCons (Z.of_nat idx) SNil) = sizes (firstn idx (ch x)).
Proof. cbn [pos]. rewrite Nat2Z.id. lia. Qed.

Lemma pos_cons_some x idx sk c :
  nth_error (ch x) idx = Some c -> sk <> SNil ->
  pos x (SCons (Z.of_nat idx) sk) = (sizes (firstn idx (ch x)) + S (pos c sk))%nat.
Proof. intros Hc Hs. cbn [pos]. rewrite Nat2Z.id, Hc. destruct sk; [contradiction|reflexivity]. Qed.

(* a position inside child idx is before the position just after it *)
Lemma pos_le_next x idx sk c :
  nth_error (ch x) idx = Some c -> valid c sk ->
  (pos x (SCons (Z.of_nat idx) sk) <= sizes (firstn (S idx) (ch x)))%nat.
Proof.
  intros Hc Hv. rewrite (sizes_firstn_S _ _ _ Hc).
  destruct sk as [|j r].
  - rewrite pos_cons_nil. lia.
  - rewrite (pos_cons_some x idx _ c Hc) by discriminate.
    pose proof (pos_bound _ c Hv). rewrite (size_eq c). lia.
Qed.

(* what is assumed of recursive calls of block_in_inline with fuel f *)
Definition bii_tot (f : nat) : Prop :=
  forall c, tree (cok 4) c = true -> ty c <> InlineT -> ty c <> LineT -> (S (size c) <= f)%nat ->
            exists c', block_in_inline f c = Ok c'.

(* what is established of innerBlockInInline on an inline / line box x *)
Definition inner_good (inner : box -> stack -> res (box * option box * stack)) (x : box) : Prop :=
  forall st, valid x st ->
    exists nb blk st', inner x st = Ok (nb, blk, st') /\
      (blk = None -> st' = SNil) /\
      (forall k, blk = Some k ->
         valid x st' /\ st' <> SNil /\ (pos x st < pos x st')%nat /\ (size k < size x)%nat).

Lemma flow_not_inline_or_line c :
  flow_t (ty c) = true -> is InlineT c = false -> ty c <> InlineT /\ ty c <> LineT.
Proof.
  intros Hf Hi. apply is_false_iff in Hi. split; [assumption|]. intros E. rewrite E in Hf. discriminate.
Qed.

Section Loop.
  Variable f : nat.
  Variable inner : box -> stack -> res (box * option box * stack).
  Variable x : box.
  Hypothesis Hbt : bii_tot f.
  Hypothesis Hsz : (size x <= f)%nat.
  Hypothesis Hkids : Forall (fun c => tree (cok 4) c = true /\ flow_t (ty c) = true) (ch x).
  Hypothesis Hinner : forall c, In c (ch x) -> is InlineT c = true -> inner_good inner c.

  Lemma inner_loop_total : forall children (idx : nat) sk new_rev,
    children = skipn idx (ch x) -> (idx <= length (ch x))%nat ->
    (sk = SNil \/ exists c, nth_error (ch x) idx = Some c /\ is InlineT c = true /\ valid c sk) ->
    exists nb blk st',
      inner_loop (block_in_inline f) inner x children (Z.of_nat idx) sk SNil new_rev = Ok (nb, blk, st') /\
      (blk = None -> st' = SNil) /\
      (forall k, blk = Some k ->
         valid x st' /\ st' <> SNil /\ (pos x (SCons (Z.of_nat idx) sk) < pos x st')%nat /\ (size k < size x)%nat).
  Proof.
    induction children as [|c children IH]; intros idx sk new_rev Hch Hidx Hsk.
    - simpl. do 3 eexists. split; [reflexivity|]. split; [reflexivity|]. intros k E; discriminate.
    - assert (Hc : nth_error (ch x) idx = Some c).
      { rewrite <- (firstn_skipn idx (ch x)), <- Hch. rewrite nth_error_app2 by (rewrite firstn_length; lia).
        rewrite firstn_length. replace (idx - Nat.min idx (length (ch x)))%nat with O by lia. reflexivity. }
      assert (Hin : In c (ch x)) by (eapply nth_error_In; eassumption).
      assert (Hlt : (idx < length (ch x))%nat) by (apply nth_error_Some; congruence).
      assert (Hch' : children = skipn (S idx) (ch x)).
      { rewrite (skipn_S_tail (ch x) idx), <- Hch. reflexivity. }
      rewrite Forall_forall in Hkids. destruct (Hkids c Hin) as [Hct Hcf].
      assert (Hnr : running c = false).
      { apply tree_inv in Hct. destruct Hct as [Hk _]. apply (cok_not_running _ _ Hk). }
      assert (Hsizec : (size c < size x)%nat).
      { rewrite (size_eq x). pose proof (In_size_lt c (ch x) Hin). lia. }
      pose proof (sizes_firstn_S _ _ _ Hc) as Hfs.
      simpl inner_loop.
      destruct (block_level_t (ty c) && in_flow c) eqn:Eb.
      + (* an in-flow block: found *)
        assert (Esk : sk = SNil).
        { destruct Hsk as [E|(c0 & Hc0 & Hi0 & _)]; [assumption|].
          rewrite Hc in Hc0. injection Hc0 as <-. apply is_true_iff in Hi0. rewrite Hi0 in Eb. discriminate. }
        subst sk. simpl is_snil. simpl negb. cbv iota.
        do 3 eexists. split; [reflexivity|]. split; [intros E; discriminate|].
        intros k E. injection E as <-.
        replace (Z.of_nat idx + 1) with (Z.of_nat (S idx)) by lia.
        split; [simpl; split; [lia|left; reflexivity]|]. split; [discriminate|]. split; [|assumption].
        rewrite !pos_cons_nil, Hfs. pose proof (size_pos c). lia.
      + destruct (is InlineT c) eqn:Einl.
        * (* a nested inline box *)
          rewrite Hnr. simpl negb. simpl andb. cbv iota.
          assert (Hvsk : valid c sk).
          { destruct Hsk as [->|(c0 & Hc0 & _ & Hv0)]; [exact I|]. rewrite Hc in Hc0. injection Hc0 as <-. assumption. }
          destruct (Hinner c Hin Einl sk Hvsk) as (nc & blk & rs & Hcall & Hnone & Hsome).
          rewrite Hcall. cbn [bind].
          destruct blk as [k|].
          -- destruct (Hsome k eq_refl) as (V1 & V2 & V3 & V4).
             do 3 eexists. split; [reflexivity|]. split; [intros E; discriminate|].
             intros k0 E. injection E as <-.
             split.
             { simpl. rewrite Nat2Z.id. split; [lia|]. right. exists c. auto. }
             split; [discriminate|]. split; [|lia].
             rewrite (pos_cons_some x idx rs c Hc V2).
             destruct sk as [|j r]; [rewrite pos_cons_nil; lia|].
             rewrite (pos_cons_some x idx _ c Hc) by discriminate. lia.
          -- rewrite (Hnone eq_refl).
             destruct (IH (S idx) SNil (nc :: new_rev) Hch' ltac:(lia) (or_introl eq_refl)) as (nb & blk & st' & Hl & Hn & Hs).
             replace (Z.of_nat idx + 1) with (Z.of_nat (S idx)) by lia.
             do 3 eexists. split; [exact Hl|]. split; [exact Hn|].
             intros k E. destruct (Hs k E) as (V1 & V2 & V3 & V4). split; [assumption|]. split; [assumption|]. split; [|assumption].
             eapply Nat.le_lt_trans; [|exact V3].
             rewrite pos_cons_nil. apply (pos_le_next x idx sk c); assumption.
        * (* any other box: BlockInInline on it *)
          simpl andb. cbv iota.
          assert (Esk : sk = SNil).
          { destruct Hsk as [E|(c0 & Hc0 & Hi0 & _)]; [assumption|].
            rewrite Hc in Hc0. injection Hc0 as <-. congruence. }
          subst sk. simpl is_snil. simpl negb. cbv iota.
          destruct (flow_not_inline_or_line c Hcf Einl) as [N1 N2].
          destruct (Hbt c Hct N1 N2 ltac:(lia)) as [c' Hc'].
          rewrite Hc'. cbn [bind].
          destruct (IH (S idx) SNil (c' :: new_rev) Hch' ltac:(lia) (or_introl eq_refl)) as (nb & blk & st' & Hl & Hn & Hs).
          replace (Z.of_nat idx + 1) with (Z.of_nat (S idx)) by lia.
          do 3 eexists. split; [exact Hl|]. split; [exact Hn|].
          intros k E. destruct (Hs k E) as (V1 & V2 & V3 & V4). split; [assumption|]. split; [assumption|]. split; [|assumption].
          eapply Nat.le_lt_trans; [|exact V3]. rewrite !pos_cons_nil, Hfs. lia.
  Qed.

  Lemma inner_body_good : inner_good (inner_body (block_in_inline f) inner) x.
  Proof.
    intros st Hv. unfold inner_body.
    destruct st as [|i rest].
    - unfold slice_from. simpl. destruct (Z.of_nat (length (ch x)) <? 0) eqn:E; [lia|]. cbn [bind].
      destruct (inner_loop_total (ch x) O SNil [] eq_refl ltac:(lia) (or_introl eq_refl)) as (nb & blk & st' & Hl & Hn & Hs).
      do 3 eexists. split; [exact Hl|]. split; [exact Hn|].
      intros k E0. destruct (Hs k E0) as (V1 & V2 & V3 & V4).
      split; [exact V1|]. split; [exact V2|]. split; [|exact V4].
      rewrite pos_cons_nil in V3. simpl in V3. simpl pos at 1. exact V3.
    - destruct Hv as [Hi Hr]. unfold slice_from.
      destruct ((i <? 0) || (Z.of_nat (length (ch x)) <? i)) eqn:E; [lia|]. cbn [bind].
      destruct (inner_loop_total (skipn (Z.to_nat i) (ch x)) (Z.to_nat i) rest [] eq_refl ltac:(lia)) as (nb & blk & st' & Hl & Hn & Hs).
      { destruct Hr as [->|H]; [left; reflexivity|right; exact H]. }
      rewrite Z2Nat.id in Hl by lia.
      do 3 eexists. split; [exact Hl|]. split; [exact Hn|].
      intros k E0. destruct (Hs k E0) as (V1 & V2 & V3 & V4).
      split; [exact V1|]. split; [exact V2|]. split; [|exact V4].
      rewrite Z2Nat.id in V3 by lia. exact V3.
  Qed.
End Loop.

Lemma line_like_kids x :
  tree (cok 4) x = true -> ty x = InlineT \/ ty x = LineT ->
  Forall (fun c => tree (cok 4) c = true /\ flow_t (ty c) = true) (ch x).
Proof.
  intros Ht Hty. apply tree_inv in Ht. destruct Ht as [Hk Hkids].
  apply Forall_and; [assumption|]. apply line_like_kids_flow; assumption.
Qed.

Lemma inner_f_good f : bii_tot f -> forall n x,
  (size x <= n)%nat -> (size x <= f)%nat -> tree (cok 4) x = true -> ty x = InlineT \/ ty x = LineT ->
  inner_good (inner_f f n) x.
Proof.
  intros Hbt. induction n as [|n IH]; intros x Hn Hf Ht Hty.
  - pose proof (size_pos x). lia.
  - simpl. apply inner_body_good; auto.
    + apply line_like_kids; assumption.
    + intros c Hin Hinl. pose proof (In_size_lt c (ch x) Hin). rewrite (size_eq x) in Hn, Hf.
      apply IH; try lia.
      * pose proof (line_like_kids x Ht Hty) as Hk. rewrite Forall_forall in Hk. apply Hk. assumption.
      * left. apply is_true_iff. assumption.
Qed.

Lemma line_loop_total f b : bii_tot f -> forall m n line st acc,
  tree (cok 4) line = true -> ty line = LineT -> (size line <= f)%nat -> valid line st ->
  (sizes (ch line) - pos line st < m)%nat -> (m <= n)%nat ->
  exists out, line_loop_f f b n line st acc = Ok out.
Proof.
  intros Hbt. induction m as [|m IH]; intros n line st acc Ht Hty Hf Hv Hm Hn; [lia|].
  destruct n as [|n]; [lia|]. simpl.
  destruct (inner_f_good f Hbt f line ltac:(lia) Hf Ht (or_intror Hty) st Hv) as (nl & blk & st' & Hcall & Hnone & Hsome).
  rewrite Hcall. cbn [bind].
  destruct blk as [k|].
  - destruct (Hsome k eq_refl) as (V1 & V2 & V3 & V4).
    destruct (inner_f_spec f (bii_typed f) f line st nl (Some k) st' Ht (or_intror Hty) Hcall) as (_ & _ & _ & T4).
    destruct (T4 k eq_refl) as [Hk4 Hkb].
    destruct (Hbt k Hk4) as [k' Hk'].
    + intros E. rewrite E in Hkb. discriminate.
    + intros E. rewrite E in Hkb. discriminate.
    + lia.
    + rewrite Hk'. cbn [bind]. apply IH; auto.
      * pose proof (pos_bound st' line V1). lia.
      * lia.
  - destruct acc; eauto.
Qed.

Theorem bii_total : forall f, bii_tot f.
Proof.
  induction f as [|f IHf]; intros b Ht Hni Hnl Hsz; [lia|].
  rewrite bii_unfold.
  pose proof Ht as Ht0. apply tree_inv in Ht. destruct Ht as [Hk Hkids].
  destruct (ch b) as [|c0 l0] eqn:Ech; [eauto|]. rewrite <- Ech in *.
  rewrite (cok_not_running _ _ Hk).
  assert (Hkid_size : forall c, In c (ch b) -> (S (size c) <= f)%nat).
  { intros c Hin. pose proof (In_size_lt c (ch b) Hin). rewrite (size_eq b) in Hsz. lia. }
  destruct (cok4_kids b Hk Hni Hnl) as [(line & El & Etl & Ebc & Ew)|Hplain].
  - rewrite El. simpl.
    assert (E : is LineT line = true) by (apply is_true_iff; assumption). rewrite E.
    rewrite El. simpl.
    assert (Hline : tree (cok 4) line = true) by (rewrite El in Hkids; inversion Hkids; assumption).
    assert (Hin : In line (ch b)) by (rewrite El; left; reflexivity).
    specialize (Hkid_size line Hin).
    destruct (line_loop_total f b IHf (size line) f line SNil [] Hline Etl ltac:(lia) I) as [cs Hcs].
    { simpl. rewrite (size_eq line). lia. }
    { lia. }
    rewrite Hcs. simpl. eauto.
  - assert (Hgo : forall l, (forall c, In c l -> In c (ch b)) -> exists out, go_f f b l = Ok out).
    { induction l as [|c l IHl]; intros Hsub; simpl; [eauto|].
      assert (Hin : In c (ch b)) by (apply Hsub; left; reflexivity).
      rewrite Forall_forall in Hplain, Hkids. destruct (Hplain c Hin) as [N1 N2].
      assert (E : is LineT c = false) by (apply is_false_iff; assumption). rewrite E.
      destruct (IHf c (Hkids c Hin) N1 N2 (Hkid_size c Hin)) as [c' Hc']. rewrite Hc'. cbn [bind].
      destruct IHl as [r Hr]; [intros c1 H1; apply Hsub; right; assumption|].
      rewrite Hr. simpl. eauto. }
    destruct (Hgo (ch b) (fun c H => H)) as [out Ho]. rewrite Ho. simpl. eauto.
Qed.
