(* Box/TableGridPlainProofs.v -- facts about the whole-table grid of
   Box/TableGridPlain.v: the clamped span attributes are always in the domain
   of the slot theorems, the assignment is total, every row group is assigned
   on its own (nothing leaks from one group into the next), header / footer
   extraction only permutes the groups, and a group in which no cell spans
   rows is laid out side by side from column 0. *)
From Verif Require Import Base.GoSem Box.TableGrid Box.TableGridSpec Box.TableGridProofs Box.TableGridPlain.
From Coq Require Import ZArith List Bool Lia Permutation.
Import ListNotations.
Open Scope Z_scope.

(* ------------------------------------------------------------------ span attributes *)
Lemma colspan_of_attr_range v : 1 <= colspan_of_attr v <= 1000.
Proof. unfold colspan_of_attr, integer_attribute. destruct (Z.ltb_spec v 1); lia. Qed.

Lemma rowspan_of_attr_range v : 0 <= rowspan_of_attr v <= 65534.
Proof. unfold rowspan_of_attr, integer_attribute. destruct (Z.ltb_spec v 0); lia. Qed.

Definition pspans_ok (rows : list prow) : Prop :=
  rows_spans_ok pcell prow pc_colspan pc_rowspan (fun r => r) rows.

Lemma cells_of_attrs_spans_ok (rows : list (list (Z * Z))) :
  pspans_ok (map (map (fun a => cell_of_attrs (fst a) (snd a))) rows).
Proof.
  unfold pspans_ok, rows_spans_ok, spans_ok. apply Forall_forall. intros r Hr.
  apply in_map_iff in Hr. destruct Hr as (r0 & <- & _).
  apply Forall_forall. intros c Hc. apply in_map_iff in Hc. destruct Hc as (a & <- & _).
  unfold cell_of_attrs; simpl.
  pose proof (colspan_of_attr_range (fst a)). pose proof (rowspan_of_attr_range (snd a)). lia.
Qed.

(* ------------------------------------------------------------------ one group *)
Definition pslots := rows_slots pcell prow pc_colspan pc_rowspan pc_gridx (fun r : prow => r).

Theorem assign_pgroup_spec rows :
  pspans_ok rows ->
  exists rows',
    assign_pgroup rows = Ok rows' /\
    rows_placed pcell prow pc_colspan pc_rowspan pc_gridx pplace (fun r => r) (fun _ cs => cs)
                [] 0 (Z.of_nat (length rows)) rows rows' /\
    anchors_free (pslots 0 rows') = true /\
    forallb (slot_in_group (Z.of_nat (length rows))) (pslots 0 rows') = true.
Proof.
  intros H. unfold assign_pgroup, pslots.
  apply (assign_group_spec pcell prow pc_colspan pc_rowspan pc_gridx pplace (fun r => r) (fun _ cs => cs));
    try reflexivity; assumption.
Qed.

(* ------------------------------------------------------------------ header / footer order *)
Lemma split_groups_perm gs : forall h f brev h' bodies f',
  split_groups gs h f brev = (h', bodies, f') ->
  Permutation (opt_list h ++ rev brev ++ gs ++ opt_list f) (opt_list h' ++ bodies ++ opt_list f').
Proof.
  induction gs as [|g gs IH]; intros h f brev h' bodies f' H; simpl in H.
  - inversion H; subst. simpl. apply Permutation_refl.
  - assert (Hbody : split_groups gs h f (g :: brev) = (h', bodies, f') ->
                    Permutation (opt_list h ++ rev brev ++ (g :: gs) ++ opt_list f)
                                (opt_list h' ++ bodies ++ opt_list f')).
    { intros Hb. apply IH in Hb. simpl in Hb. rewrite <- app_assoc in Hb. simpl in Hb. exact Hb. }
    destruct (pg_kind g); [auto| |].
    + destruct h as [h0|]; [auto|].
      apply IH in H. simpl in *.
      eapply Permutation_trans; [|exact H].
      apply Permutation_sym.
      apply (Permutation_middle (rev brev) (gs ++ opt_list f) g).
    + destruct f as [f0|]; [destruct h; auto|].
      assert (Hf : split_groups gs h (Some g) brev = (h', bodies, f')) by (destruct h; exact H).
      apply IH in Hf. simpl in *.
      eapply Permutation_trans; [|exact Hf].
      apply Permutation_app_head. apply Permutation_app_head.
      rewrite app_nil_r.
      change (g :: gs) with ([g] ++ gs). apply Permutation_app_comm.
Qed.

Theorem order_groups_perm gs : Permutation gs (order_groups gs).
Proof.
  unfold order_groups. destruct (split_groups gs None None []) as [[h bodies] f] eqn:E.
  apply split_groups_perm in E. simpl in E. rewrite app_nil_r in E. exact E.
Qed.

(* ------------------------------------------------------------------ the whole table *)
Definition table_spans_ok (gs : list pgroup) : Prop := Forall (fun g => pspans_ok (pg_rows g)) gs.

Lemma assign_groups_spec gs :
  table_spans_ok gs ->
  exists out, assign_groups gs = Ok out /\
              Forall2 (fun g o => assign_pgroup (pg_rows g) = Ok o) gs out.
Proof.
  induction gs as [|g gs IH]; intros H.
  - exists []. split; [reflexivity|constructor].
  - inversion H as [|? ? Hg Hgs]; subst.
    destruct (assign_pgroup_spec _ Hg) as (g' & Hg' & _).
    destruct (IH Hgs) as (out & Hout & Hall).
    exists (g' :: out). simpl. rewrite Hg'. simpl. rewrite Hout. simpl.
    split; [reflexivity|constructor; assumption].
Qed.

(* total, and every row group is assigned exactly as if it were the only one
   of the table: the result for a group does not depend on the groups
   processed before it *)
Theorem table_grid_spec gs :
  table_spans_ok gs ->
  exists out, table_grid gs = Ok out /\
              Forall2 (fun g o => assign_pgroup (pg_rows g) = Ok o) (order_groups gs) out.
Proof.
  intros H. unfold table_grid. apply assign_groups_spec.
  unfold table_spans_ok in *. rewrite Forall_forall in *. intros g Hg. apply H.
  eapply Permutation_in; [apply Permutation_sym, order_groups_perm|exact Hg].
Qed.

(* ------------------------------------------------------------------ groups without row-spanning cell *)
Lemma assign_cells_packed cs : forall rest x,
  Forall (fun c => pc_rowspan c = 1) cs ->
  assign_cells pcell pc_colspan pc_rowspan pplace [] rest x cs = Ok (pack x cs, rest).
Proof.
  induction cs as [|c cs IH]; intros rest x H; [reflexivity|].
  inversion H as [|? ? Hc Hcs]; subst.
  simpl. unfold first_free. simpl. rewrite Hc. simpl.
  rewrite (IH rest (x + pc_colspan c) Hcs). reflexivity.
Qed.

Lemma assign_rows_packed rows :
  Forall (Forall (fun c => pc_rowspan c = 1)) rows ->
  assign_rows pcell prow pc_colspan pc_rowspan pplace (fun r => r) (fun _ cs => cs)
              (repeat [] (length rows)) rows = Ok (map (pack 0) rows).
Proof.
  induction rows as [|r rows IH]; intros H; [reflexivity|].
  inversion H as [|? ? Hr Hrows]; subst.
  simpl. rewrite (assign_cells_packed r _ 0 Hr). simpl. rewrite (IH Hrows). reflexivity.
Qed.

(* in a row group none of whose cells spans rows, every row is laid side by
   side from column 0: GridX = sum of the colspans before the cell *)
Theorem group_without_rowspan_packed rows :
  Forall (Forall (fun c => pc_rowspan c = 1)) rows ->
  assign_pgroup rows = Ok (map (pack 0) rows).
Proof. intros H. unfold assign_pgroup, assign_group. apply assign_rows_packed. exact H. Qed.

(* the first row of every group is laid side by side from column 0 whatever
   the spans: nothing can reach it from above *)
Lemma row_placed_nil_packed y below x cells out :
  row_placed pcell pc_colspan pc_rowspan pplace [] y below x cells out ->
  map pc_gridx out = map pc_gridx (pack x cells).
Proof.
  intros H. induction H as [x|x c cs gx out Hge Hfree Hocc Hclip Hrp IH]; [reflexivity|].
  assert (Hgx : gx = x).
  { destruct (Z.eq_dec gx x) as [|Hne]; [assumption|].
    destruct (Hocc x) as (s & [] & _). lia. }
  subst gx. simpl. f_equal. exact IH.
Qed.

Theorem group_first_row_packed r rows rows' :
  pspans_ok (r :: rows) ->
  assign_pgroup (r :: rows) = Ok rows' ->
  exists r' rest, rows' = r' :: rest /\ map pc_gridx r' = map pc_gridx (pack 0 r).
Proof.
  intros Hsp H.
  destruct (assign_pgroup_spec _ Hsp) as (out & Hout & Hrp & _).
  rewrite H in Hout. inversion Hout; subst out. clear Hout.
  inversion Hrp as [|? ? ? ? cs rows2 Hrow Hrest]; subst.
  exists cs, rows2. split; [reflexivity|].
  eapply row_placed_nil_packed. exact Hrow.
Qed.
