(* Box/TableGrid.v -- model of the grid-slot assignment of wrapTable
   (/repo/html/boxes/build.go:1228-1280): for every row group, cells are
   placed left to right on the first free column of their row; a cell with
   rowspan != 1 marks its columns as occupied in the following rows of the
   group (rowspan 0 = until the end of the group; rowspans are clipped to the
   group).

   The model is generic in the cell / row representation (Section variables)
   so that Box/BoxGen.v runs it on boxes and Layout/TableGeom.v on plain
   records.  Model only: proofs are in Box/TableGridProofs.v. *)
From Verif Require Export Base.GoSem.
Open Scope Z_scope.

(* occupancy of one row: the Go map[int]bool as the list of its true keys *)
Definition occ := list Z.
Definition omem (x : Z) (o : occ) : bool := existsb (Z.eqb x) o.

(* build.go:1252  for occupiedCellsInThisRow[gridX] { gridX += 1 }
   fuel: the set is finite, so |o|+1 iterations always suffice
   (first_free_total in TableGridProofs.v) *)
Fixpoint first_free_go (n : nat) (o : occ) (x : Z) : res Z :=
  if omem x o then
    match n with
    | O => OutOfFuel
    | S n' => first_free_go n' o (x + 1)
    end
  else Ok x.
Definition first_free (o : occ) (x : Z) : res Z := first_free_go (length o) o x.

(* columns x0 .. x1-1 *)
Definition zrange (x0 x1 : Z) : list Z :=
  map (fun i => x0 + Z.of_nat i) (seq 0 (Z.to_nat (x1 - x0))).

(* build.go:1269-1273: mark [x0,x1) in the first k following rows *)
Fixpoint mark_rows (k : nat) (x0 x1 : Z) (rest : list occ) : list occ :=
  match k, rest with
  | S k', o :: r => (zrange x0 x1 ++ o) :: mark_rows k' x0 x1 r
  | _, _ => rest
  end.

Section Grid.
  Variables (cell row : Type).
  Variable colspan_of rowspan_of : cell -> Z.
  Variable place : cell -> Z -> Z -> cell.        (* set GridX and (clipped) Rowspan *)
  Variable cells_of : row -> list cell.
  Variable set_cells : row -> list cell -> row.

  (* build.go:1249-1277, one row.  o: occupancy of this row, rest: of the
     following rows of the group, x: current gridX *)
  Fixpoint assign_cells (o : occ) (rest : list occ) (x : Z) (cs : list cell)
    : res (list cell * list occ) :=
    match cs with
    | [] => Ok ([], rest)
    | c :: cs' =>
        let* gx := first_free o x in                                 (* 1252-1254 *)
        let nx := gx + colspan_of c in                               (* 1256 *)
        let rs := rowspan_of c in
        let* (rs', rest') :=
          if rs =? 1 then Ok (rs, rest)                              (* 1258 *)
          else
            let maxrs := Z.of_nat (length rest) + 1 in               (* 1259 *)
            if rs =? 0 then                                          (* 1261-1264 *)
              Ok (maxrs, mark_rows (length rest) gx nx rest)
            else
              let r := Z.min rs maxrs in                             (* 1266 *)
              if r - 1 <? 0 then Panic 1267                          (* slice bound [:r-1] *)
              else Ok (r, mark_rows (Z.to_nat (r - 1)) gx nx rest)   (* 1267-1273 *)
        in
        let* (out, rest'') := assign_cells o rest' nx cs' in        (* 1275 *)
        Ok (place c gx rs' :: out, rest'')
    end.

  (* build.go:1244-1278: the rows of one group; occs has one entry per
     remaining row (1245 indexes [0]) *)
  Fixpoint assign_rows (occs : list occ) (rows : list row) : res (list row) :=
    match rows with
    | [] => Ok []
    | r :: rows' =>
        match occs with
        | [] => Panic 1245
        | o :: rest =>
            let* (cs, rest') := assign_cells o rest 0 (cells_of r) in
            let* out := assign_rows rest' rows' in
            Ok (set_cells r cs :: out)
        end
    end.

  (* build.go:1238-1243 + loop: one row group *)
  Definition assign_group (rows : list row) : res (list row) :=
    assign_rows (repeat [] (length rows)) rows.
End Grid.
