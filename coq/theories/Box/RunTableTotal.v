(* Box/RunTableTotal.v -- AnonymousTableBoxes is total on documents with
   running elements: Box/TableFixupTotal.v generalised to Box/RunInv.v. *)
From Verif Require Import Box.BoxGen Box.BoxWf Box.BoxBasics Box.BoxInv Box.TableGridProofs Box.TableFixupProofs
  Box.TableFixupTotal Box.BoxSim Box.RunInv Box.RunSim Box.RunFlexGrid Box.RunWf Box.RunTableA Box.RunTableB.
From Coq Require Import Lia.
Open Scope Z_scope.

Notation F1R := (fun c => fixedR 1 c = true).

(* ------------------------------------------------------------------ wrapImproper *)
Section WITotal.
  Variables (rec : box -> list box -> res box) (b : box) (wty : bty) (test : box -> bool).
  Variable Pc : box -> Prop.
  Hypothesis Hrec : forall l, Forall (fun c => Pc c /\ test c = false) l ->
    exists w, rec (anon_from wty b []) l = Ok w.

  Lemma flush_totalR imp : Forall (fun c => Pc c /\ test c = false) imp -> exists out, flush rec b wty imp = Ok out.
  Proof.
    intros H. unfold flush. destruct imp as [|c imp]; [eauto|].
    destruct (Hrec (rev (c :: imp))) as [w Hw]; [apply Forall_rev; assumption|].
    rewrite Hw. simpl. eauto.
  Qed.

  Lemma wi_go_totalR : forall children imp,
    Forall Pc children -> Forall (fun c => Pc c /\ test c = false) imp ->
    exists out, wi_go rec b wty test children imp = Ok out.
  Proof.
    induction children as [|c children IH]; intros imp Hc Hi; simpl.
    - apply flush_totalR. assumption.
    - inversion Hc; subst. destruct (test c) eqn:Et.
      + destruct (flush_totalR imp Hi) as [w Hw]. rewrite Hw. simpl.
        destruct (IH [] H2 (Forall_nil _)) as [r Hr]. rewrite Hr. simpl. eauto.
      + destruct (flex_container_t (ty b)); [apply IH; assumption|].
        apply IH; [assumption|constructor; auto].
  Qed.

  Lemma wrap_improper_totalR children : Forall Pc children -> exists out, wrap_improper rec b wty test children = Ok out.
  Proof. intros H. apply wi_go_totalR; [assumption|constructor]. Qed.
End WITotal.

(* ------------------------------------------------------------------ pieces of wrapTable *)
Lemma classify_totalR l : Forall (fun c => ptc c = true) l -> exists r, classify l = Ok r.
Proof.
  induction 1 as [|c l Hc Hl IH]; simpl; [eauto|].
  destruct IH as [[[cols rows] caps] E]. rewrite E. simpl.
  unfold ptc in Hc. destruct (ty c); try discriminate; eauto.
Qed.

Local Arguments number_columns : simpl never.

Lemma number_groups_totalR groups : forall x,
  Forall (fun g => ty g = ColGroupT) groups -> exists out, number_groups x groups = Ok out.
Proof.
  induction groups as [|g groups IH]; intros x H; simpl; [eauto|].
  inversion H; subst.
  assert (E : is ColGroupT g = true) by (apply is_true_iff; assumption). rewrite E. simpl.
  destruct (ch g) as [|c0 cols0].
  - destruct (IH (x + span_of g) H3) as [r Hr]. rewrite Hr. simpl. eauto.
  - destruct (number_columns x (c0 :: cols0)) as [cols' x'].
    destruct (IH x' H3) as [r Hr]. rewrite Hr. simpl. eauto.
Qed.

Lemma mapM_totalR {A B} (f : A -> res B) l : Forall (fun a => exists b, f a = Ok b) l -> exists out, mapM f l = Ok out.
Proof.
  induction 1 as [|a l [b Hb] Hl [out IH]]; simpl; [eauto|]. rewrite Hb. simpl. rewrite IH. simpl. eauto.
Qed.

Lemma group_spans_of_treeR st g :
  treeR (cokR st) g = true -> ty g = RowGroupT -> group_spans_ok g.
Proof.
  intros Ht _. unfold group_spans_ok. eapply Forall_impl; [|exact (treeR_grandkids_sp _ _ Ht)].
  intros r Hr. eapply Forall_impl; [|exact Hr]. intros c Hc. apply sp_bounds in Hc. exact Hc.
Qed.

Section WrapTableTotal.
  Variable rec : box -> list box -> res box.
  Variable b : box.
  Hypothesis Hrec : forall wty l w', wrap_ty wty = true -> Forall F1R l ->
    rec (anon_from wty b []) l = Ok w' -> fixedR 1 w' = true /\ ty w' = result_ty wty.
  (* the two kinds of wrappers wrapTable creates *)
  Hypothesis Hcolgroup : forall l, Forall F1R l -> exists w, rec (anon_from ColGroupT b []) l = Ok w.
  Hypothesis Hrowgroup : forall l, Forall (fun c => fixedR 1 c = true /\ ty c = RowT) l ->
    exists w, rec (anon_from RowGroupT b []) l = Ok w.

  Lemma wrap_table_totalR children :
    Forall (fun c => fixedR 1 c = true /\ ptc c = true) children -> exists w, wrap_table rec b children = Ok w.
  Proof.
    intros Hch. unfold wrap_table.
    destruct (classify_totalR children) as [[[cols rows] caps] Hcl].
    { eapply Forall_impl; [|exact Hch]. intros c [_ E]; exact E. }
    rewrite Hcl. simpl.
    assert (Hf : Forall F1R children) by (eapply Forall_impl; [|exact Hch]; intros c [E _]; exact E).
    destruct (classify_spec _ _ _ _ _ Hcl Hf) as (Hcols & Hrows & Hcaps).
    (* column groups *)
    destruct (wrap_improper_totalR rec b ColGroupT (is ColGroupT) (fun c => fixedR 1 c = true) ) with (children := cols) as [groups0 Hg0].
    { intros l Hl. apply Hcolgroup. eapply Forall_impl; [|exact Hl]. intros c [E _]; exact E. }
    { eapply Forall_impl; [|exact Hcols]. intros c [E _]. exact E. }
    rewrite Hg0. simpl.
    assert (Hgroups0 : Forall (fun g => fixedR 1 g = true /\ ty g = ColGroupT) groups0).
    { pose proof Hg0 as Hg0'.
      eapply (wrap_improper_out rec b ColGroupT (is ColGroupT) F1R
                (fun w => fixedR 1 w = true /\ ty w = ColGroupT)) in Hg0'.
      - eapply Forall_impl; [|exact Hg0']. intros c [[H1 H2]|H1]; [|assumption].
        split; [assumption|apply is_true_iff; assumption].
      - intros l w' Hl Hw. apply (Hrec ColGroupT l w'); auto.
      - eapply Forall_impl; [|exact Hcols]. intros c [H1 _]. exact H1. }
    destruct (number_groups_totalR groups0 0) as [groups Hg].
    { eapply Forall_impl; [|exact Hgroups0]. intros c [_ E]; exact E. }
    rewrite Hg. simpl.
    (* row groups *)
    destruct (wrap_improper_totalR rec b RowGroupT (is RowGroupT)
                (fun c => fixedR 1 c = true /\ (ty c = RowT \/ ty c = RowGroupT))) with (children := rows) as [rgs0 Hr0].
    { intros l Hl. apply Hrowgroup. eapply Forall_impl; [|exact Hl].
      intros c [[E [E1|E1]] E2]; split; auto.
      apply is_false_iff in E2. contradiction. }
    { exact Hrows. }
    rewrite Hr0. simpl.
    assert (Hrgs0 : Forall (fun g => fixedR 1 g = true /\ ty g = RowGroupT) rgs0).
    { pose proof Hr0 as Hr0'.
      eapply (wrap_improper_out rec b RowGroupT (is RowGroupT) F1R
                (fun w => fixedR 1 w = true /\ ty w = RowGroupT)) in Hr0'.
      - eapply Forall_impl; [|exact Hr0']. intros c [[H1 H2]|H1]; [|assumption].
        split; [assumption|apply is_true_iff; assumption].
      - intros l w' Hl Hw. apply (Hrec RowGroupT l w'); auto.
      - eapply Forall_impl; [|exact Hrows]. intros c [H1 _]. exact H1. }
    assert (Hrgs1 : Forall (fun g => fixedR 1 g = true /\ ty g = RowGroupT) (reorder_groups rgs0)).
    { apply reorder_groups_forall; [|assumption].
      intros g [H1 H2]. rewrite fixed_set_hdrR, fixed_set_ftrR. destruct g; auto. }
    destruct (mapM_totalR box_assign_group (reorder_groups rgs0)) as [rgs Hrgs].
    { eapply Forall_impl; [|exact Hrgs1]. intros g [Hfx Et].
      destruct (box_group_grid g) as (g' & Hg' & _); [|eauto].
      eapply group_spans_of_treeR; [apply fixed_treeR; exact Hfx|exact Et]. }
    rewrite Hrgs. simpl. eauto.
  Qed.
End WrapTableTotal.

(* ------------------------------------------------------------------ the levels *)
Lemma shell_attrsR b : shellR b = true -> attrs_okR (at_ b) = true.
Proof. unfold shellR. intros H. bsplit. assumption. Qed.

Lemma rec_typedR n b : shellR b = true ->
  forall wty l w', wrap_ty wty = true -> Forall F1R l ->
    table_boxes_children n (anon_from wty b []) l = Ok w' -> fixedR 1 w' = true /\ ty w' = result_ty wty.
Proof.
  intros Hsh wty l w' Hw Hl H.
  apply (tbc_typedR n (anon_from wty b []) l w'); auto. apply shell_anonR; [apply shell_attrsR|]; assumption.
Qed.

Lemma c2_fixedR b children :
  shellR b = true -> Forall F1R children -> Forall F1R (rule_1_4 None (rule_1_3 b (tbc_c0 b children))).
Proof.
  intros Hsh Hch. apply (Forall_incl _ _ (tbc_c0 b children)).
  - eapply incl_tran; [apply rule_1_4_incl|apply rule_1_3_incl].
  - apply tbc_c0_fixedR; [apply shell_attrsR; assumption|exact Hch].
Qed.

Lemma c2_inclR b children : incl (rule_1_4 None (rule_1_3 b (tbc_c0 b children))) (tbc_c0 b children).
Proof. eapply incl_tran; [apply rule_1_4_incl|apply rule_1_3_incl]. Qed.

Lemma tbc_c0_otherR b children : is ColT b = false -> is ColGroupT b = false -> tbc_c0 b children = children.
Proof. intros H1 H2. unfold tbc_c0. rewrite H1, H2. reflexivity. Qed.

(* level A: column groups, columns, row groups of rows: no wrapper is created *)
Lemma tbc_total_AR n b children :
  shellR b = true -> Forall F1R children ->
  is ColT b = true \/ is ColGroupT b = true \/
  (is RowGroupT b = true /\ Forall (fun c => is RowT c = true) children) ->
  exists b', table_boxes_children (S n) b children = Ok b'.
Proof.
  intros Hsh Hch Hcase. rewrite tbc_unfoldR. cbv zeta.
  set (rec := table_boxes_children n).
  set (c2 := rule_1_4 None (rule_1_3 b (tbc_c0 b children))).
  assert (Hty : (is ColT b = true /\ c2 = []) \/
                (is ColGroupT b = true /\ Forall (fun c => is ColT c = true) c2) \/
                (is RowGroupT b = true /\ Forall (fun c => is RowT c = true) c2)).
  { destruct Hcase as [H|[H|[H1 H2]]].
    - left. split; [assumption|]. pose proof (c2_inclR b children) as Hi. fold c2 in Hi.
      unfold tbc_c0 in Hi. rewrite H in Hi. destruct c2 as [|x r]; [reflexivity|]. exfalso. apply (Hi x). left; reflexivity.
    - right. left. split; [assumption|]. eapply Forall_incl; [apply c2_inclR|]. apply tbc_c0_colsR. assumption.
    - right. right. split; [assumption|]. eapply Forall_incl; [apply c2_inclR|].
      apply is_true_iff in H1. rewrite tbc_c0_otherR; [assumption| |]; apply is_false_iff; congruence. }
  assert (Etab : table_t (ty b) = false).
  { destruct Hty as [[H _]|[[H _]|[H _]]]; apply is_true_iff in H; rewrite H; reflexivity. }
  assert (Erow : is RowT b = false).
  { destruct Hty as [[H _]|[[H _]|[H _]]]; apply is_true_iff in H; apply is_false_iff; congruence. }
  assert (Einl : is InlineT b = false).
  { destruct Hty as [[H _]|[[H _]|[H _]]]; apply is_true_iff in H; apply is_false_iff; congruence. }
  unfold stage3, stage4, stage5. rewrite Etab, Erow, Einl.
  destruct Hty as [[H E]|[[H Hc]|[H Hc]]].
  - assert (Erg : is RowGroupT b = false) by (apply is_true_iff in H; apply is_false_iff; congruence).
    rewrite Erg, E. simpl. eauto.
  - assert (Erg : is RowGroupT b = false) by (apply is_true_iff in H; apply is_false_iff; congruence).
    rewrite Erg. simpl.
    rewrite wrap_improper_id by (eapply Forall_impl; [|exact Hc]; intros c E; apply is_true_iff in E; unfold is; rewrite E; reflexivity).
    simpl.
    rewrite wrap_improper_id.
    2:{ eapply Forall_impl; [|exact Hc]. intros c E. apply is_true_iff in E. apply is_true_iff in H.
        rewrite H, E. simpl. apply Bool.orb_true_r. }
    simpl. eauto.
  - rewrite H.
    rewrite wrap_improper_id by assumption. simpl.
    rewrite wrap_improper_id by (eapply Forall_impl; [|exact Hc]; intros c E; apply is_true_iff in E; unfold is; rewrite E; reflexivity).
    simpl.
    rewrite wrap_improper_id.
    2:{ eapply Forall_impl; [|exact Hc]. intros c E. apply is_true_iff in E. apply is_true_iff in H.
        rewrite H, E. simpl. apply Bool.orb_true_r. }
    simpl. eauto.
Qed.

(* level B: a table whose children are all proper table children *)
Lemma tbc_total_BR n b children :
  shellR b = true -> table_t (ty b) = true ->
  Forall (fun c => fixedR 1 c = true /\ ptc c = true) children ->
  exists b', table_boxes_children (S (S n)) b children = Ok b'.
Proof.
  intros Hsh Htab Hch. rewrite tbc_unfoldR. cbv zeta.
  set (rec := table_boxes_children (S n)).
  assert (E1 : is ColT b = false) by (unfold is; destruct (ty b); try discriminate; reflexivity).
  assert (E2 : is ColGroupT b = false) by (unfold is; destruct (ty b); try discriminate; reflexivity).
  assert (E3 : is RowT b = false) by (unfold is; destruct (ty b); try discriminate; reflexivity).
  assert (E4 : is InlineT b = false) by (unfold is; destruct (ty b); try discriminate; reflexivity).
  rewrite (tbc_c0_otherR _ _ E1 E2).
  set (c2 := rule_1_4 None (rule_1_3 b children)).
  assert (Hc2 : Forall (fun c => fixedR 1 c = true /\ ptc c = true) c2).
  { eapply Forall_incl; [|exact Hch]. eapply incl_tran; [apply rule_1_4_incl|apply rule_1_3_incl]. }
  unfold stage3, stage4, stage5. rewrite Htab, E3, E4.
  rewrite wrap_improper_id by (eapply Forall_impl; [|exact Hc2]; intros c [_ E]; exact E). simpl.
  rewrite wrap_improper_id.
  2:{ eapply Forall_impl; [|exact Hc2]. intros c [_ E]. unfold ptc, is in *. destruct (ty c); try discriminate; reflexivity. }
  simpl.
  rewrite wrap_improper_id.
  2:{ eapply Forall_impl; [|exact Hc2]. intros c [_ E]. unfold ptc in *.
      destruct (ty b); try discriminate; destruct (ty c); try discriminate; reflexivity. }
  simpl.
  apply wrap_table_totalR; [apply rec_typedR; assumption| | |assumption].
  - intros l Hl. apply tbc_total_AR; [apply shell_anonR; [apply shell_attrsR; assumption|reflexivity]|assumption|].
    right. left. reflexivity.
  - intros l Hl. apply tbc_total_AR; [apply shell_anonR; [apply shell_attrsR; assumption|reflexivity]| |].
    + eapply Forall_impl; [|exact Hl]. intros c [E _]; exact E.
    + right. right. split; [reflexivity|]. eapply Forall_impl; [|exact Hl]. intros c [_ E]. apply is_true_iff. exact E.
Qed.

(* a box that is not a table part *)

Lemma generic_factsR b : generic_t (ty b) = true ->
  table_t (ty b) = false /\ is RowGroupT b = false /\ is RowT b = false /\ is ColT b = false /\ is ColGroupT b = false /\
  (forall c, in_proper_parents (ty b) c = false).
Proof.
  unfold generic_t, is. intros H. destruct (ty b); try discriminate; repeat split; intros c; destruct c; reflexivity.
Qed.

(* level C: a generic box without cell children: only table wrappers are created *)
Lemma tbc_total_CR n b children :
  shellR b = true -> generic_t (ty b) = true ->
  Forall (fun c => fixedR 1 c = true /\ is CellT c = false) children ->
  exists b', table_boxes_children (S (S (S n))) b children = Ok b'.
Proof.
  intros Hsh Hgen Hch. rewrite tbc_unfoldR. cbv zeta.
  set (rec := table_boxes_children (S (S n))).
  destruct (generic_factsR b Hgen) as (Etab & Erg & Erow & Ecol & Ecg & Hipp).
  rewrite (tbc_c0_otherR _ _ Ecol Ecg).
  set (c2 := rule_1_4 None (rule_1_3 b children)).
  assert (Hc2 : Forall (fun c => fixedR 1 c = true /\ is CellT c = false) c2).
  { eapply Forall_incl; [|exact Hch]. eapply incl_tran; [apply rule_1_4_incl|apply rule_1_3_incl]. }
  unfold stage3, stage4, stage5. rewrite Etab, Erg, Erow. simpl.
  rewrite wrap_improper_id by (eapply Forall_impl; [|exact Hc2]; intros c [_ E]; rewrite E; reflexivity). simpl.
  assert (Hf2 : Forall F1R c2) by (eapply Forall_impl; [|exact Hc2]; intros c [E _]; exact E).
  assert (Hwrap : forall wty, (wty = TableT \/ wty = InlineTableT) ->
            forall l, Forall (fun c => fixedR 1 c = true /\ ptc c = true) l ->
            exists w, rec (anon_from wty b []) l = Ok w).
  { intros wty Hw l Hl. apply tbc_total_BR; [|destruct Hw as [-> | ->]; reflexivity|assumption].
    apply shell_anonR; [apply shell_attrsR; assumption|destruct Hw as [-> | ->]; reflexivity]. }
  destruct (is InlineT b).
  - destruct (wrap_improper_totalR rec b InlineTableT (fun c => negb (ptc c)) (fun c => fixedR 1 c = true)) with (children := c2) as [c5 H5].
    + intros l Hl. apply (Hwrap InlineTableT); [auto|]. eapply Forall_impl; [|exact Hl].
      intros c [E1 E2]. split; [assumption|]. apply Bool.negb_false_iff. exact E2.
    + assumption.
    + rewrite H5. simpl. eauto.
  - destruct (wrap_improper_totalR rec b TableT (fun c => negb (ptc c) || in_proper_parents (ty b) (ty c)) (fun c => fixedR 1 c = true)) with (children := c2) as [c5 H5].
    + intros l Hl. apply (Hwrap TableT); [auto|]. eapply Forall_impl; [|exact Hl].
      intros c [E1 E2]. split; [assumption|]. rewrite Hipp, Bool.orb_false_r in E2. apply Bool.negb_false_iff. exact E2.
    + assumption.
    + rewrite H5. simpl. eauto.
Qed.

(* level D: a row: non-cells go into cell wrappers *)
Lemma tbc_total_DR n b children :
  shellR b = true -> is RowT b = true -> Forall F1R children ->
  exists b', table_boxes_children (S (S (S (S n)))) b children = Ok b'.
Proof.
  intros Hsh Hrow Hch. rewrite tbc_unfoldR. cbv zeta.
  set (rec := table_boxes_children (S (S (S n)))).
  pose proof Hrow as Hrow'. apply is_true_iff in Hrow'.
  assert (Etab : table_t (ty b) = false) by (rewrite Hrow'; reflexivity).
  assert (Erg : is RowGroupT b = false) by (apply is_false_iff; congruence).
  assert (Einl : is InlineT b = false) by (apply is_false_iff; congruence).
  pose proof (c2_fixedR b children Hsh Hch) as Hc2.
  set (c2 := rule_1_4 None (rule_1_3 b (tbc_c0 b children))) in *.
  unfold stage3, stage4, stage5. rewrite Etab, Erg, Hrow, Einl. simpl.
  destruct (wrap_improper_totalR rec b CellT (is CellT) (fun c => fixedR 1 c = true)) with (children := c2) as [c4 H4].
  - intros l Hl. apply tbc_total_CR; [apply shell_anonR; [apply shell_attrsR; assumption|reflexivity]|reflexivity|assumption].
  - assumption.
  - rewrite H4. simpl.
    pose proof (stage_outR rec b (rec_typedR _ b Hsh) CellT (is CellT) c2 c4 eq_refl Hc2 H4) as Hs4.
    rewrite wrap_improper_id.
    2:{ eapply Forall_impl; [|exact Hs4]. intros c [_ [[_ E]|E]].
        - apply is_true_iff in E. unfold ptc. rewrite E. reflexivity.
        - simpl in E. unfold ptc. rewrite E. reflexivity. }
    simpl. eauto.
Qed.

(* level E: any box *)
Theorem tbc_totalR n b children :
  shellR b = true -> Forall F1R children ->
  exists b', table_boxes_children (S (S (S (S (S n))))) b children = Ok b'.
Proof.
  intros Hsh Hch.
  destruct (is RowT b) eqn:Erow; [apply (tbc_total_DR (S n)); assumption|].
  destruct (is ColT b) eqn:Ecol; [apply (tbc_total_AR (4 + n)); auto|].
  destruct (is ColGroupT b) eqn:Ecg; [apply (tbc_total_AR (4 + n)); auto|].
  rewrite tbc_unfoldR. cbv zeta.
  set (rec := table_boxes_children (S (S (S (S n))))).
  pose proof (c2_fixedR b children Hsh Hch) as Hc2.
  set (c2 := rule_1_4 None (rule_1_3 b (tbc_c0 b children))) in *.
  assert (Hrowwrap : forall l, Forall F1R l -> exists w, rec (anon_from RowT b []) l = Ok w).
  { intros l Hl. apply tbc_total_DR; [apply shell_anonR; [apply shell_attrsR; assumption|reflexivity]|reflexivity|assumption]. }
  pose proof (rec_typedR (S (S (S (S n)))) b Hsh) as Hrec.
  unfold stage3, stage4, stage5. rewrite Erow.
  destruct (table_t (ty b)) eqn:Etab.
  - (* a table *)
    destruct (wrap_improper_totalR rec b RowT ptc (fun c => fixedR 1 c = true)) with (children := c2) as [c3 H3].
    { intros l Hl. apply Hrowwrap. eapply Forall_impl; [|exact Hl]. intros c [E _]; exact E. }
    { assumption. }
    rewrite H3. simpl.
    pose proof (stage_outR rec b Hrec RowT ptc c2 c3 eq_refl Hc2 H3) as Hs3.
    assert (Hptc : Forall (fun c => fixedR 1 c = true /\ ptc c = true) c3).
    { eapply Forall_impl; [|exact Hs3]. intros c [Hf [[_ E]|E]]; split; auto. unfold ptc. rewrite E. reflexivity. }
    rewrite wrap_improper_id.
    2:{ eapply Forall_impl; [|exact Hptc]. intros c [_ E]. unfold ptc, is in *. destruct (ty c); try discriminate; reflexivity. }
    simpl.
    assert (Einl : is InlineT b = false) by (unfold is; destruct (ty b); try discriminate; reflexivity).
    rewrite Einl.
    rewrite wrap_improper_id.
    2:{ eapply Forall_impl; [|exact Hptc]. intros c [_ E]. unfold ptc in *.
        destruct (ty b); try discriminate; destruct (ty c); try discriminate; reflexivity. }
    simpl.
    apply wrap_table_totalR; [exact Hrec| | |assumption].
    + intros l Hl. apply (tbc_total_AR (3 + n)); [apply shell_anonR; [apply shell_attrsR; assumption|reflexivity]|assumption|].
      right. left. reflexivity.
    + intros l Hl. apply (tbc_total_AR (3 + n)); [apply shell_anonR; [apply shell_attrsR; assumption|reflexivity]| |].
      * eapply Forall_impl; [|exact Hl]. intros c [E _]; exact E.
      * right. right. split; [reflexivity|]. eapply Forall_impl; [|exact Hl]. intros c [_ E]. apply is_true_iff. exact E.
  - destruct (is RowGroupT b) eqn:Erg.
    + (* a row group *)
      destruct (wrap_improper_totalR rec b RowT (is RowT) (fun c => fixedR 1 c = true)) with (children := c2) as [c3 H3].
      { intros l Hl. apply Hrowwrap. eapply Forall_impl; [|exact Hl]. intros c [E _]; exact E. }
      { assumption. }
      rewrite H3. simpl.
      pose proof (stage_outR rec b Hrec RowT (is RowT) c2 c3 eq_refl Hc2 H3) as Hs3.
      assert (Hrows : Forall (fun c => is RowT c = true) c3).
      { eapply Forall_impl; [|exact Hs3]. intros c [_ [[_ E]|E]]; [assumption|]. apply is_true_iff. exact E. }
      rewrite wrap_improper_id by (eapply Forall_impl; [|exact Hrows]; intros c E; apply is_true_iff in E; unfold is; rewrite E; reflexivity).
      simpl.
      apply is_true_iff in Erg.
      assert (Einl : is InlineT b = false) by (apply is_false_iff; congruence).
      rewrite Einl.
      rewrite wrap_improper_id.
      2:{ eapply Forall_impl; [|exact Hrows]. intros c E. apply is_true_iff in E. rewrite Erg, E. simpl. apply Bool.orb_true_r. }
      simpl. eauto.
    + (* a generic box *)
      simpl.
      destruct (wrap_improper_totalR rec b RowT (fun c => negb (is CellT c)) (fun c => fixedR 1 c = true)) with (children := c2) as [c4 H4].
      { intros l Hl. apply Hrowwrap. eapply Forall_impl; [|exact Hl]. intros c [E _]; exact E. }
      { assumption. }
      rewrite H4. simpl.
      pose proof (stage_outR rec b Hrec RowT (fun c => negb (is CellT c)) c2 c4 eq_refl Hc2 H4) as Hs4.
      assert (Hf4 : Forall F1R c4) by (eapply Forall_impl; [|exact Hs4]; intros c [E _]; exact E).
      assert (Hwrap : forall wty, (wty = TableT \/ wty = InlineTableT) ->
                forall l, Forall (fun c => fixedR 1 c = true /\ ptc c = true) l ->
                exists w, rec (anon_from wty b []) l = Ok w).
      { intros wty Hw l Hl. apply (tbc_total_BR (2 + n)); [|destruct Hw as [-> | ->]; reflexivity|assumption].
        apply shell_anonR; [apply shell_attrsR; assumption|destruct Hw as [-> | ->]; reflexivity]. }
      assert (Hipp : forall c, in_proper_parents (ty b) c = false).
      { intros c. apply ipp_otherR; [assumption| |]; apply is_false_iff; assumption. }
      destruct (is InlineT b).
      * destruct (wrap_improper_totalR rec b InlineTableT (fun c => negb (ptc c)) (fun c => fixedR 1 c = true)) with (children := c4) as [c5 H5].
        -- intros l Hl. apply (Hwrap InlineTableT); [auto|]. eapply Forall_impl; [|exact Hl].
           intros c [E1 E2]. split; [assumption|]. apply Bool.negb_false_iff. exact E2.
        -- assumption.
        -- rewrite H5. simpl. eauto.
      * destruct (wrap_improper_totalR rec b TableT (fun c => negb (ptc c) || in_proper_parents (ty b) (ty c)) (fun c => fixedR 1 c = true)) with (children := c4) as [c5 H5].
        -- intros l Hl. apply (Hwrap TableT); [auto|]. eapply Forall_impl; [|exact Hl].
           intros c [E1 E2]. split; [assumption|]. rewrite Hipp, Bool.orb_false_r in E2. apply Bool.negb_false_iff. exact E2.
        -- assumption.
        -- rewrite H5. simpl. eauto.
Qed.

(* ------------------------------------------------------------------ AnonymousTableBoxes is total *)
Lemma atb_list_totalR l :
  Forall (fun c => exists c', anonymous_table_boxes c = Ok c') l -> exists l', atb_list l = Ok l'.
Proof.
  induction 1 as [|c l [c' Hc] Hl [l' IH]]; simpl; [eauto|].
  rewrite Hc. simpl. rewrite IH. simpl. eauto.
Qed.

Local Arguments table_boxes_children : simpl never.

Theorem atb_totalR : forall b, tree iokS b = true -> exists b', anonymous_table_boxes b = Ok b'.
Proof.
  induction b as [t a m l IH] using box_ind'. intros Ht.
  pose proof Ht as Ht0.
  apply tree_inv in Ht. destruct Ht as [Hi Hkids]. simpl ch in Hkids.
  rewrite atb_unfoldR. destruct (running (Box t a m l)) eqn:Er; [rewrite Bool.orb_true_r; eauto|].
  rewrite Bool.orb_false_r.
  destruct (parent_t (ty (Box t a m l))) eqn:Epar; simpl negb; cbv iota; [|eauto].
  destruct (atb_list_totalR l) as [children Hc].
  { rewrite Forall_forall in *. intros c Hin. apply IH; auto. }
  simpl ch. rewrite Hc. cbn [bind].
  change tbc_fuel with (S (S (S (S (S 3))))).
  apply tbc_totalR.
  - unfold iokS, iokR in Hi. unfold shellR. rewrite Er. bsplit. brw. reflexivity.
  - eapply (atb_list_specR (fun c c' => fixedR 1 c' = true)) in Hc.
    + clear -Hc. induction Hc; constructor; auto.
    + rewrite Forall_forall in *. intros c Hin c' Hc'. apply (atb_typedR c c'); auto.
Qed.
