(* Properties/C12.v -- placeholder while the proofs are being written *)
From Verif Require Import Layout.Paginate Layout.PaginateSpec.
