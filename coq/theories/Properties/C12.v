(* Properties/C12.v -- Pages have the declared geometry and break where CSS allows.

   Theorem statements only; proofs are in Layout/PaginateProofs.v.
   Model: Layout/Paginate.v.  Specification: Layout/PaginateSpec.v.

   Reading guide.  A document `d` is linearised to its content units
   `us := lin_flows (d_flow d)` (lines and fixed-height boxes).  A pagination is a
   list of content pages (state, s, e) -- the page made in page-maker state
   `state` holds units s .. e-1 -- from which `paginate` renders the final page
   list (blank pages, page types, geometry, counters).  `css` selects the reading
   of "change of named page": true = CSS Page 3. *)
From Verif Require Import Layout.Paginate Layout.PaginateSpec Layout.PaginateProofs.
From Verif Require Import Layout.PaginateCounters Layout.PaginateCountersProofs.
From Verif Require Import Layout.PaginateMore.
From Coq Require Import List ZArith NArith QArith Arith.
Import ListNotations.
Local Open Scope nat_scope.

(* --- every predicate of the property text holds of the model's pages, for every
   document (flows of blocks / paragraphs / boxes x @page rule sets x break values
   x orphans / widows): no forced break inside a page; content overflows a page only
   if no earlier legal break exists on it; a page ends early only at a forced break
   or because the content up to the next legal break does not fit; avoid / orphans /
   widows are honoured whenever a conforming break exists. *)
Theorem C12_paginate_satisfies_spec : forall (css : bool) (d : doc),
  let us := lin_flows (d_flow d) in
  pagination_ok pstate (length us) (forced_at css us) (allowed_at us) (fits_doc css d us)
    (next_pstate css (d_rtl d) us) (init_pstate d) (paginate_ranges css d).
Proof. exact paginate_satisfies_spec. Qed.
Print Assumptions C12_paginate_satisfies_spec.

(* the predicates one by one, as named in the property text (projections of the above) *)
Theorem C12_geometry_ok : forall css d,
  Forall (fun p => pg_geom p = page_box_geometry (d_rules d) (pg_type p)) (paginate css d).
Proof. exact paginate_geometry_ok. Qed.
Print Assumptions C12_geometry_ok.

Theorem C12_avoid_honoured_if_possible : forall (css : bool) (d : doc),
  let us := lin_flows (d_flow d) in let n := length us in
  Forall (fun p : pstate * nat * nat => let '(st, s, e) := p in
    e < n -> forced_at css us e = false -> avoid_ok us e = false ->
    forall b c, is_cap n (forced_at css us) s c -> s < b -> b <= c ->
      fits_doc css d us st s b = true -> ~ legal_break n (forced_at css us) (allowed_at us) s b)
    (paginate_ranges css d).
Proof. exact paginate_avoid_honoured_if_possible. Qed.
Print Assumptions C12_avoid_honoured_if_possible.

Theorem C12_orphans_widows_ok_if_possible : forall (css : bool) (d : doc),
  let us := lin_flows (d_flow d) in let n := length us in
  Forall (fun p : pstate * nat * nat => let '(st, s, e) := p in
    e < n -> forced_at css us e = false -> ow_ok us s e = false ->
    forall b c, is_cap n (forced_at css us) s c -> s < b -> b <= c ->
      fits_doc css d us st s b = true -> ~ legal_break n (forced_at css us) (allowed_at us) s b)
    (paginate_ranges css d).
Proof. exact paginate_orphans_widows_ok_if_possible. Qed.
Print Assumptions C12_orphans_widows_ok_if_possible.

(* flows with non-negative metrics and non-empty blocks linearise to well-formed units
   (the hypothesis of the uniqueness theorem; Check/C12.v skips anything else) *)
Theorem C12_wf_flow_units : forall fs, forallb wf_flow fs = true -> Forall wf_unit (lin_flows fs).
Proof. exact wf_flows_units. Qed.
Print Assumptions C12_wf_flow_units.

(* --- uniqueness (partial: licenses equality with the model on this class only).
   Full statement: the predicates determine the pagination whenever a conforming
   break exists at every page start of *some* pagination satisfying them. *)
Definition C12_paginate_unique_statement : Prop := forall (css : bool) (d : doc),
  let us := lin_flows (d_flow d) in
  forall ps ps',
    pagination_ok pstate (length us) (forced_at css us) (allowed_at us) (fits_doc css d us)
      (next_pstate css (d_rtl d) us) (init_pstate d) ps ->
    pagination_ok pstate (length us) (forced_at css us) (allowed_at us) (fits_doc css d us)
      (next_pstate css (d_rtl d) us) (init_pstate d) ps' ->
    ps = ps'.

(* proved: on the class "non-negative metrics, and wherever a page of ps starts
   some legal break fits" (no conflicting avoid constraints, every unit shorter
   than its page) a pagination satisfying the predicates is the model's *)
Theorem C12_paginate_unique_partial : forall (css : bool) (d : doc),
  let us := lin_flows (d_flow d) in
  Forall wf_unit us ->
  forall ps,
    pagination_ok pstate (length us) (forced_at css us) (allowed_at us) (fits_doc css d us)
      (next_pstate css (d_rtl d) us) (init_pstate d) ps ->
    Forall (conforming_exists pstate (length us) (forced_at css us) (allowed_at us) (fits_doc css d us)) ps ->
    ps = paginate_ranges css d.
Proof. exact paginate_unique_partial. Qed.
Print Assumptions C12_paginate_unique_partial.

(* partial2 (proofs: Layout/PaginateMore.v): on the same class -- non-negative metrics and
   BOTH paginations have a fitting legal break wherever one of their pages starts -- any two
   paginations satisfying the predicates are equal (not only each equal to the model) *)
Theorem C12_paginate_unique_partial2 : forall (css : bool) (d : doc),
  let us := lin_flows (d_flow d) in
  Forall wf_unit us ->
  forall ps ps',
    pagination_ok pstate (length us) (forced_at css us) (allowed_at us) (fits_doc css d us)
      (next_pstate css (d_rtl d) us) (init_pstate d) ps ->
    Forall (conforming_exists pstate (length us) (forced_at css us) (allowed_at us) (fits_doc css d us)) ps ->
    pagination_ok pstate (length us) (forced_at css us) (allowed_at us) (fits_doc css d us)
      (next_pstate css (d_rtl d) us) (init_pstate d) ps' ->
    Forall (conforming_exists pstate (length us) (forced_at css us) (allowed_at us) (fits_doc css d us)) ps' ->
    ps = ps'.
Proof. exact paginate_unique_between. Qed.
Print Assumptions C12_paginate_unique_partial2.

(* exists-unique: when the model's own pages are in the class, there is exactly one
   pagination that satisfies the predicates and is in the class *)
Theorem C12_paginate_exists_unique : forall (css : bool) (d : doc),
  let us := lin_flows (d_flow d) in
  Forall wf_unit us ->
  Forall (conforming_exists pstate (length us) (forced_at css us) (allowed_at us) (fits_doc css d us))
    (paginate_ranges css d) ->
  exists! ps,
    pagination_ok pstate (length us) (forced_at css us) (allowed_at us) (fits_doc css d us)
      (next_pstate css (d_rtl d) us) (init_pstate d) ps /\
    Forall (conforming_exists pstate (length us) (forced_at css us) (allowed_at us) (fits_doc css d us)) ps.
Proof. exact paginate_exists_unique. Qed.
Print Assumptions C12_paginate_exists_unique.

(* --- content conservation, for every document: the units of the content pages, and of the
   rendered pages (blank pages included), concatenated in page order are exactly 0 .. n-1 *)
Theorem C12_ranges_conserve_content : forall (css : bool) (d : doc),
  flat_map (fun p : pstate * nat * nat => let '(_, a, e) := p in seq a (e - a)) (paginate_ranges css d)
  = seq 0 (length (lin_flows (d_flow d))).
Proof. exact paginate_conserves. Qed.
Print Assumptions C12_ranges_conserve_content.

Theorem C12_pages_conserve_content : forall (css : bool) (d : doc),
  concat (map pg_units (paginate css d)) = seq 0 (length (lin_flows (d_flow d))).
Proof. exact paginate_pages_conserve. Qed.
Print Assumptions C12_pages_conserve_content.

(* --- monotonicity, for every document: the first content page starts at unit 0 in the
   initial state; each next page starts where the previous one ends, strictly later, in the
   successor state; the last page ends at the end of the flow; no pages iff no units *)
Theorem C12_page_starts_monotone : forall (css : bool) (d : doc),
  let us := lin_flows (d_flow d) in
  let ps := paginate_ranges css d in
  (forall p, nth_error ps 0 = Some p -> snd (fst p) = 0 /\ fst (fst p) = init_pstate d) /\
  (forall i p q, nth_error ps i = Some p -> nth_error ps (S i) = Some q ->
     snd (fst q) = snd p /\ snd (fst p) < snd (fst q) /\
     fst (fst q) = next_pstate css (d_rtl d) us (fst (fst p)) (snd (fst p))) /\
  (forall dflt, ps <> [] -> snd (last ps dflt) = length us) /\
  (ps = [] <-> us = []).
Proof. exact paginate_monotone. Qed.
Print Assumptions C12_page_starts_monotone.

(* --- page selectors: pageTypeMatch is the CSS Page 3 matching relation, with
   :nth(an+b) as "exists k >= 0, index + 1 = a k + b" although the code computes
   with Go's truncating / and % *)
Theorem C12_page_type_match_spec : forall s p,
  page_type_match s p = true <-> page_type_match_spec s p.
Proof. exact page_type_match_correct. Qed.
Print Assumptions C12_page_type_match_spec.

(* --- @page cascade: for each property the value used is that of a declaration of
   maximal (origin/importance, specificity) weight among those whose selector
   matches the page, the last such in source order *)
Theorem C12_page_cascade_spec : forall rules pt p,
  cascade_winner (applicable rules pt) p (cascaded rules pt p).
Proof. exact page_cascade_correct. Qed.
Print Assumptions C12_page_cascade_spec.

Theorem C12_page_declarations_applicable : forall rules pt w d,
  In (w, d) (applicable rules pt) <->
  exists r s, In r rules /\ In s (r_sels r) /\ page_type_match s pt = true /\
              In d (r_decls r) /\ w = weight_of s d.
Proof. exact applicable_in. Qed.
Print Assumptions C12_page_declarations_applicable.

(* --- page box geometry: per axis the block-width-like equation (margin + padding
   + inner + margin = size unless all three are specified; auto inner fills with
   auto margins zero; two auto margins centre; one auto margin absorbs the rest),
   solved again with the clamped size when min / max apply *)
Theorem C12_page_geometry_spec : forall cb pb inner ma mb mn mx,
  exists inner', (inner' = inner \/ (exists m, mx = Some m /\ inner' = Some m) \/ inner' = Some mn) /\
                 axis_spec cb pb inner' ma mb (axis_minmax cb pb inner ma mb mn mx).
Proof. exact page_geometry_axes. Qed.
Print Assumptions C12_page_geometry_spec.

(* --- break classification: the fold over the `choices` table computes the CSS
   priority (side values: the latest wins; then page / column; then avoid; then auto) *)
Theorem C12_break_class_table_correct : forall vs, block_level_page_break vs = brk_spec vs.
Proof. exact break_class_table_correct. Qed.
Print Assumptions C12_break_class_table_correct.

(* --- which values meet at a boundary (CSS Fragmentation 3, 3.1): at the boundary between
   two sibling boxes the model folds the break-after values of the first box and of every
   box that ends with it (its last child, that one's last child, ...; innermost first) and
   the break-before values of the second box and of every box that starts it (outermost
   first) -- `sibling_break`, stated on the flow tree.  In particular a break-after on the
   LAST child of a block acts at the boundary between that block and its next sibling. *)
Theorem C12_boundary_break_values_spec :
  forall f1 f2 anc1 pg1 anc2 pg2 pre post,
    wf_flow f1 = true -> wf_flow f2 = true ->
    boundary_brk (pre ++ lin anc1 pg1 f1 ++ lin anc2 pg2 f2 ++ post)
                 (length pre + length (lin anc1 pg1 f1)) = sibling_break f1 f2.
Proof. exact boundary_brk_siblings. Qed.
Print Assumptions C12_boundary_break_values_spec.

Theorem C12_closing_values_spec : forall f anc pg, wf_flow f = true ->
  map c_ba (u_closes (last (lin anc pg f) dummy_unit)) = closing_ba f.
Proof. exact lin_closing_values. Qed.
Print Assumptions C12_closing_values_spec.

Theorem C12_opening_values_spec : forall f anc pg, wf_flow f = true ->
  map o_bb (u_opens (hd dummy_unit (lin anc pg f))) = opening_bb f.
Proof. exact lin_opening_values. Qed.
Print Assumptions C12_opening_values_spec.

(* break-after: page on the last of two children forces a break between the parent and the
   next sibling; the same value on the first child does not *)
Example C12_example_break_after_last_child :
  sibling_break (Blk 0 0 0 0 BAuto BAuto BAuto 0
                   [Mono 30; Blk 0 0 0 0 BAuto BPage BAuto 0 [Para 1 20 1 1]]) (Para 2 20 1 1) = BPage /\
  sibling_break (Blk 0 0 0 0 BAuto BAuto BAuto 0
                   [Blk 0 0 0 0 BAuto BPage BAuto 0 [Para 1 20 1 1]; Mono 30]) (Para 2 20 1 1) = BAuto.
Proof. vm_compute. auto. Qed.

(* --- page sequence: sides alternate from the first page's side, index = position,
   :first only on page 0, a blank page exactly before content that asked for the
   other side, names from the content that starts the page *)
Theorem C12_forced_break_page_sequence : forall (css : bool) (d : doc),
  lin_flows (d_flow d) <> [] ->
  exists infos,
    map pi_type infos = map pg_type (paginate css d) /\
    page_seq_ok (first_page_right (d_rtl d) (d_root_bb d)) 0 infos.
Proof. exact paginate_page_seq. Qed.
Print Assumptions C12_forced_break_page_sequence.

(* --- counter(page) = position, counter(pages) = total, on every page *)
Theorem C12_counters_ok : forall css d, counters_ok (paginate css d).
Proof. exact paginate_counters. Qed.
Print Assumptions C12_counters_ok.

(* --- progress and termination (used by C01): every content page places at least
   one unit; pages <= units, and with blank pages <= 2 * units *)
Theorem C12_paginate_progress : forall css d,
  Forall (fun p : pstate * nat * nat => let '(_, a, e) := p in a < e) (paginate_ranges css d).
Proof. exact paginate_progress. Qed.
Print Assumptions C12_paginate_progress.

Theorem C12_paginate_terminates : forall css d,
  length (paginate_ranges css d) <= length (lin_flows (d_flow d)) /\
  length (paginate css d) <= Nat.max 1 (2 * length (lin_flows (d_flow d))).
Proof. intros css d. split. exact (paginate_terminates css d). exact (paginate_length css d). Qed.
Print Assumptions C12_paginate_terminates.

(* the result of the model does not depend on the fuel once it covers the flow *)
Theorem C12_fuel_irrelevant : forall St n forced allowed fits next_st fuel fuel' (st : St) s,
  s <= n -> n - s <= fuel -> n - s <= fuel' ->
  paginate_from St n forced allowed fits next_st fuel st s =
  paginate_from St n forced allowed fits next_st fuel' st s.
Proof. exact paginate_from_fuel_irrelevant. Qed.
Print Assumptions C12_fuel_irrelevant.

(* --- the boolean procedures Check/C12.v evaluates on the implementation's pages
   decide the predicates *)
Theorem C12_deciders_sound : forall St n forced allowed fits (p : St * nat * nat),
  (forced_inside_free_b St forced p = true <-> forced_inside_free St forced p) /\
  (no_avoidable_overflow_b St allowed fits p = true <-> no_avoidable_overflow St allowed fits p) /\
  ((let '(_, s, e) := p in s < e /\ e <= n) ->
   (no_early_end_b St n forced allowed fits p = true <-> no_early_end St n forced allowed fits p)) /\
  ((let '(_, s, e) := p in s < e /\ e <= cap n forced s /\ s < n) ->
   (soft_if_possible_b St n forced allowed fits p = true <-> soft_if_possible St n forced allowed fits p)) /\
  ((let '(_, s, _) := p in s < n) ->
   (conforming_exists_b St n forced allowed fits p = true <-> conforming_exists St n forced allowed fits p)).
Proof.
  intros. split; [apply forced_inside_free_b_spec|]. split; [apply no_avoidable_overflow_b_spec|].
  split; [apply no_early_end_b_spec|]. split; [apply soft_if_possible_b_spec|apply conforming_exists_b_spec].
Qed.
Print Assumptions C12_deciders_sound.

(* the vertical extent of a page grows with its content (non-negative metrics):
   the candidates that fit form an initial segment *)
Theorem C12_extent_monotone : forall keep us s e e',
  Forall wf_unit us -> e <= e' -> (extent keep us s e <= extent keep us s e')%Z.
Proof. exact extent_mono. Qed.
Print Assumptions C12_extent_monotone.

(* --- the hypotheses are inhabited: a two-page document with a forced recto break *)
Example C12_example :
  let d := mkDoc false BAuto
             [mkRule [mkSel 0 0 false false None] [mkDecl PSize (VSize 180 120)%Q false;
                                                    mkDecl PMarginTop (VPx 10%Q) false; mkDecl PMarginBottom (VPx 10%Q) false]]
             [Para 2 20 1 1; Blk 0 0 0 0 BAuto BAuto BAvoid 0 [Mono 30; Blk 0 0 0 0 BRecto BAuto BAuto 0 [Para 3 20 1 1]]] in
  map (fun p => (p_side (pg_type p), p_blank (pg_type p), pg_units p, pg_counter p, pg_pages p)) (paginate true d)
  = [(2%N, false, [0; 1; 2], 1%N, 3%N); (1%N, true, [], 2%N, 3%N); (2%N, false, [3; 4; 5], 3%N, 3%N)].
Proof. vm_compute. reflexivity. Qed.

(* --- the second layout of inFlowLayout (blocks.go:966-985: a block whose content fits but
   whose bottom padding / border does not is laid out again with that much more bottomSpace).
   `reserve` (Layout/Paginate.v) is the bottomSpace in force at a boundary, `fits_retry` the
   fit test with it; Check/C12.v uses it to name pages that end early for this reason only
   (code 17).  The reservation is never negative, so a page accepted with it is accepted by
   the specification's test; and it is zero in flows without bottom padding / border, where
   the two tests are the same function. *)
Theorem C12_retry_reserve_nonneg : forall km us forced h s b, (0 <= reserve km us forced h s b)%Z.
Proof. exact reserve_nonneg. Qed.
Print Assumptions C12_retry_reserve_nonneg.

Theorem C12_fits_retry_fits : forall css d us st s e,
  fits_retry css d us st s e = true -> fits_doc css d us st s e = true.
Proof. exact fits_retry_fits. Qed.
Print Assumptions C12_fits_retry_fits.

Theorem C12_fits_retry_without_bottom_decoration : forall css d us st s e,
  Forall (fun u => Forall (fun c => c_pb c = 0%Z) (u_closes u)) us ->
  fits_retry css d us st s e = fits_doc css d us st s e.
Proof. exact fits_retry_without_bottom_decoration. Qed.
Print Assumptions C12_fits_retry_without_bottom_decoration.

(* a block of two lines with 15px of bottom padding after one line, on a page of 60px: the
   block's content (ends at 60) fits, its padding does not: 15px are reserved for the break
   between its two lines, none for the break before it *)
Example C12_example_retry_reserve :
  let us := lin_flows [Para 1 20 1 1; Blk 0 0 0 15 BAuto BAuto BAuto 0 [Para 2 20 1 1]] in
  reserve true us (fun _ => false) 60 0 2 = 15%Z /\ reserve true us (fun _ => false) 60 0 1 = 0%Z.
Proof. split; reflexivity. Qed.

(* --- counters in page-margin boxes (Layout/PaginateCounters.v: makeMarginBoxes pages.go:418-461
   + UpdateCounters build.go:903-954).  A margin rule may manipulate counters (counter-reset /
   counter-set / counter-increment, e.g. an offset numbering); this only affects the content of
   that margin box: every margin box starts from a copy of the page's counter state.  So the
   numbers a margin box shows are those it shows as the only margin box of the page, whatever
   the rules of the boxes generated before and after it ... *)
Theorem C12_margin_boxes_independent : forall cv pre b post,
  nth (length pre) (margin_texts cv (pre ++ b :: post)) [] = nth 0 (margin_texts cv [b]) [].
Proof. exact margin_boxes_independent_proof. Qed.
Print Assumptions C12_margin_boxes_independent.

(* ... in particular counter(page), in every margin box whose own rule does not manipulate
   `page`, is the position of the page, and counter(pages) is the number of pages in every
   margin box (operations on `pages` are ignored in a margin context) *)
Theorem C12_margin_page_counter : forall i total pre b post k,
  touches b c_page = false ->
  nth_error (mb_reads b) k = Some (RCounter c_page) ->
  nth_error (nth (length pre) (margin_texts (page_values i total) (pre ++ b :: post)) []) k
  = Some [Z.of_nat (S i)].
Proof. exact margin_page_counter_proof. Qed.
Print Assumptions C12_margin_page_counter.

Theorem C12_margin_pages_counter : forall i total pre b post k,
  nth_error (mb_reads b) k = Some (RCounter c_pages) ->
  nth_error (nth (length pre) (margin_texts (page_values i total) (pre ++ b :: post)) []) k
  = Some [Z.of_nat total].
Proof. exact margin_pages_counter_proof. Qed.
Print Assumptions C12_margin_pages_counter.

(* the same loop with ONE state for all the margin boxes of a page (no copy) computes the same
   texts when no margin rule has a counter-* declaration -- the ordinary footers cannot tell
   the two apart -- and other texts as soon as one has:
   @top-left { counter-increment: page 100; content: counter(page) } makes
   @bottom-center { content: counter(page) "/" counter(pages) } show 101/3 on page 1 of 3 *)
Theorem C12_margin_shared_state_agrees_without_ops : forall bs cv,
  forallb no_ops bs = true -> margin_texts_shared cv bs = margin_texts cv bs.
Proof. exact shared_agrees_without_ops. Qed.
Print Assumptions C12_margin_shared_state_agrees_without_ops.

Theorem C12_margin_shared_state_refuted :
  margin_texts (page_values 0 3) [ex_top_left; ex_bottom_center] = [[[101%Z]]; [[1%Z]; [3%Z]]] /\
  margin_texts_shared (page_values 0 3) [ex_top_left; ex_bottom_center] = [[[101%Z]]; [[101%Z]; [3%Z]]].
Proof. exact shared_state_refuted_proof. Qed.
Print Assumptions C12_margin_shared_state_refuted.
