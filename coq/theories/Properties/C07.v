(* Properties/C07.v -- Parsers of document-supplied text never crash.
   Only statements, closed by `exact`, each followed by Print Assumptions.

   The models (Css/Urls.v, Css/PageSel.v, Css/HtmlAttr.v, Css/SvgAttr.v, Css/ColorMq.v, Css/W3cDate.v) are
   ports of the Go code in the result monad of Base/GoSem.v: every slice index,
   slice expression and explicit panic of the ported code is a `Panic site`,
   every loop runs on fuel.  `X_total` says: for ALL inputs the result is `Ok`
   (a value or the error value), never `Panic` nor `OutOfFuel`.
   Check/C07.v compares, on every run, the outcome (and the value) of each model
   with what /repo does on the same input.

   Components of the property that have a model owned by another property
   (CSS tokenizer / rule parsers C06, selector parser C05, SVG number / path /
   transform scanners C18, counter-style rendering C19, var() resolution C08,
   bookmark tree C14) state their totality in their own Properties file; the
   names expected are listed in notes/C07.md.  The ~300 property validators,
   the shorthand expanders and the @font-face / @counter-style descriptor
   parsers have no Gallina model: for them the property is TESTED on every run
   (CTotal cases), not proved -- see the evidence field
   coverage.tested_only_components. *)
From Verif Require Import Base.GoSem Base.GoStrings Base.GoStringsProofs.
From Verif Require Import Css.Urls Css.UrlsProofs Css.PageSel Css.PageSelProofs
  Css.HtmlAttr Css.HtmlAttrProofs Css.SvgAttr Css.SvgAttrProofs Css.ColorMq Css.ColorMqProofs
  Css.W3cDate Css.W3cDateProofs Css.SvgAttrMore.
From Coq Require Import List ZArith NArith Bool.
Import ListNotations.
Open Scope Z_scope.

(* ------------------------------------------------------------------ URL percent-decoding, data: URIs *)
(* utils.Unquote (= net/url.PathUnescape) *)
Theorem C07_unquote_total : forall s, exists r, unquote s = Ok r.
Proof. exact unquote_total. Qed.
Print Assumptions C07_unquote_total.

Theorem C07_path_unescape_total : forall s, exists r, path_unescape s = Ok r.
Proof. exact path_unescape_total. Qed.
Print Assumptions C07_path_unescape_total.

Theorem C07_unquote_identity_without_percent :
  forall s, contains_byte s 37 = false -> unquote s = Ok s.
Proof. exact unquote_no_percent. Qed.
Print Assumptions C07_unquote_identity_without_percent.

Theorem C07_unquote_never_grows : forall s t, unquote s = Ok t -> (length t <= length s)%nat.
Proof. exact unquote_length. Qed.
Print Assumptions C07_unquote_never_grows.

(* percent-decoding inverts the percent-encoding "%XX" of every byte string (RFC 3986 2.1) *)
Theorem C07_unquote_inverts_escape :
  forall s, forallb is_byte s = true -> unquote (escape_all s) = Ok s.
Proof. exact unquote_escape_all. Qed.
Print Assumptions C07_unquote_inverts_escape.

Theorem C07_unescape_inverts_escape :
  forall s, forallb is_byte s = true -> unescape_bytes (escape_all s) = Ok (Some s).
Proof. exact unescape_escape_all. Qed.
Print Assumptions C07_unescape_inverts_escape.
Example C07_escape_all_example : escape_all [0; 255; 37]%N = [37; 48; 48; 37; 70; 70; 37; 50; 53]%N.
Proof. reflexivity. Qed.

(* utils.unescape: percent-decoding of a data: payload *)
Theorem C07_unescape_total : forall s, exists r, unescape_bytes s = Ok r.
Proof. exact unescape_total. Qed.
Print Assumptions C07_unescape_total.

Theorem C07_unescape_never_grows :
  forall s t, unescape_bytes s = Ok (Some t) -> (length t <= length s)%nat.
Proof. exact unescape_length. Qed.
Print Assumptions C07_unescape_never_grows.

(* utils.parseDataURL, reached only behind the "data:" prefix test *)
Theorem C07_parse_data_url_total : forall url, 5 <= len url -> exists r, parse_data_url url = Ok r.
Proof. exact parse_data_url_total. Qed.
Print Assumptions C07_parse_data_url_total.

(* the unguarded statement is false for the internal function: url[5:] *)
Definition C07_parse_data_url_unguarded_statement : Prop :=
  forall url, exists r, parse_data_url url = Ok r.
Theorem C07_parse_data_url_unguarded_refuted : ~ C07_parse_data_url_unguarded_statement.
Proof.
  exact (fun H => match H [100; 97; 116; 97]%N with
                  | ex_intro _ r Hr =>
                      eq_ind (Panic 710) (fun x => match x with Panic _ => True | _ => False end) I (Ok r)
                             (eq_trans (eq_sym parse_data_url_short_panics) Hr)
                  end).
Qed.
Print Assumptions C07_parse_data_url_unguarded_refuted.

(* utils.DefaultUrlFetcher on every string it takes for a data: URL, up to the base64 step *)
Theorem C07_fetch_data_url_total :
  forall s, is_data_url s = true -> exists r, fetch_data_url s = Ok r.
Proof. exact fetch_data_url_total. Qed.
Print Assumptions C07_fetch_data_url_total.
Example C07_is_data_url_inhabited : is_data_url [68; 97; 84; 97; 58; 44]%N = true.
Proof. reflexivity. Qed.

(* ------------------------------------------------------------------ An+B and @page selectors *)
(* pa.ParseNth on token lists as the tokenizer builds them (no empty identifier / number text) *)
Theorem C07_parse_nth_total : forall input, wf_toks input = true -> exists r, parse_nth input = Ok r.
Proof. exact parse_nth_total. Qed.
Print Assumptions C07_parse_nth_total.

Theorem C07_parse_page_selectors_total :
  forall prelude, wf_toks prelude = true -> exists r, parse_page_selectors prelude = Ok r.
Proof. exact parse_page_selectors_total. Qed.
Print Assumptions C07_parse_page_selectors_total.

(* the code as found in /repo (before fix 9c985a3): `@page :nth(of)` *)
Theorem C07_parse_page_selectors_as_found_refuted :
  wf_toks page_nth_of = true /\ parse_page_selectors_unfixed page_nth_of = Panic 737.
Proof. exact parse_page_selectors_unfixed_refuted. Qed.
Print Assumptions C07_parse_page_selectors_as_found_refuted.

(* ------------------------------------------------------------------ HTML integer attributes *)
Theorem C07_integer_attribute_total :
  forall attr minimum, exists v, integer_attribute attr minimum = Ok v.
Proof. exact integer_attribute_total. Qed.
Print Assumptions C07_integer_attribute_total.

Theorem C07_integer_attribute_spec : forall attr minimum,
  integer_attribute attr minimum =
  Ok (match atoi (trim_space attr) with Some x => Z.max x minimum | None => 1 end).
Proof. exact integer_attribute_spec. Qed.
Print Assumptions C07_integer_attribute_spec.

(* colspan, span (minimum 1) and rowspan (minimum 0) are never below their minimum *)
Theorem C07_integer_attribute_clamped : forall attr minimum v,
  minimum <= 1 -> min_int64 <= minimum ->
  integer_attribute attr minimum = Ok v -> minimum <= v <= max_int64.
Proof. exact integer_attribute_clamped. Qed.
Print Assumptions C07_integer_attribute_clamped.

(* the call sites of integerAttribute (NewTableCellBox, TableColumnBox.span, TableColumnGroupBox.span):
   the number the table code receives is the HTML "clamped to the range" value of the attribute *)
Theorem C07_cell_colspan_spec : forall attr,
  cell_colspan attr = Ok (match atoi (trim_space attr) with Some x => clamp 1 1000 x | None => 1 end).
Proof. exact cell_colspan_spec. Qed.
Print Assumptions C07_cell_colspan_spec.

Theorem C07_cell_rowspan_spec : forall attr,
  cell_rowspan attr = Ok (match atoi (trim_space attr) with Some x => clamp 0 65534 x | None => 1 end).
Proof. exact cell_rowspan_spec. Qed.
Print Assumptions C07_cell_rowspan_spec.

Theorem C07_column_span_spec : forall attr,
  column_span attr = Ok (match atoi (trim_space attr) with Some x => clamp 1 1000 x | None => 1 end) /\
  column_group_span attr = column_span attr.
Proof. exact column_span_spec. Qed.
Print Assumptions C07_column_span_spec.

(* every cell covers >= 1 column, every <col> / <colgroup> stands for >= 1 column, all spans bounded:
   the precondition of the grid indexing in build.go / layout (table.go, preferred.go) *)
Theorem C07_table_spans_range : forall attr,
  (exists c, cell_colspan attr = Ok c /\ 1 <= c <= 1000) /\
  (exists r, cell_rowspan attr = Ok r /\ 0 <= r <= 65534) /\
  (exists s, column_span attr = Ok s /\ 1 <= s <= 1000) /\
  (exists s, column_group_span attr = Ok s /\ 1 <= s <= 1000).
Proof. exact table_spans_range. Qed.
Print Assumptions C07_table_spans_range.

Theorem C07_font_size_attr_total : forall attr, exists r, font_size_attr attr = Ok r.
Proof. exact font_size_attr_total. Qed.
Print Assumptions C07_font_size_attr_total.

Theorem C07_font_size_attr_range : forall attr i, font_size_attr attr = Ok (Some i) -> 1 <= i <= 7.
Proof. exact font_size_attr_range. Qed.
Print Assumptions C07_font_size_attr_range.

(* ------------------------------------------------------------------ SVG attribute parsers *)
Theorem C07_parse_preserve_aspect_ratio_total :
  forall s, exists r, parse_preserve_aspect_ratio s = Ok r.
Proof. exact parse_preserve_aspect_ratio_total. Qed.
Print Assumptions C07_parse_preserve_aspect_ratio_total.

(* the code as found (before fix 4704256): preserveAspectRatio="abc" and "" *)
Theorem C07_parse_preserve_aspect_ratio_as_found_refuted :
  parse_preserve_aspect_ratio_unfixed [97; 98; 99]%N = Panic 761 /\
  parse_preserve_aspect_ratio_unfixed [] = Panic 761.
Proof. exact parse_preserve_aspect_ratio_unfixed_refuted. Qed.
Print Assumptions C07_parse_preserve_aspect_ratio_as_found_refuted.

Theorem C07_parse_url_strip_total : forall u, exists r, parse_url_strip u = Ok r.
Proof. exact parse_url_strip_total. Qed.
Print Assumptions C07_parse_url_strip_total.

Theorem C07_new_painter_total : forall attr, exists r, new_painter attr = Ok r.
Proof. exact new_painter_total. Qed.
Print Assumptions C07_new_painter_total.

Theorem C07_parse_value_total : forall s, exists r, parse_value s = Ok r.
Proof. exact parse_value_total. Qed.
Print Assumptions C07_parse_value_total.

Theorem C07_parse_value_unit_in_table :
  forall s u num, parse_value s = Ok (Some (u, num)) -> (1 <= u <= 11)%N.
Proof. exact parse_value_unit. Qed.
Print Assumptions C07_parse_value_unit_in_table.

Theorem C07_parse_opacity_total : forall value, exists r, parse_opacity value = Ok r.
Proof. exact parse_opacity_total. Qed.
Print Assumptions C07_parse_opacity_total.

Theorem C07_parse_font_weight_total : forall s, exists r, parse_font_weight s = Ok r.
Proof. exact parse_font_weight_total. Qed.
Print Assumptions C07_parse_font_weight_total.

(* ------------------------------------------------------------------ colour and media query parsers *)
(* pa.ParseColor on any component value (incl. the explicit panic of mustParseHexa: unreachable) *)
Theorem C07_parse_color_total : forall t, exists r, parse_color t = Ok r.
Proof. exact parse_color_total. Qed.
Print Assumptions C07_parse_color_total.

Theorem C07_parse_comma_separated_total : forall tokens, exists r, parse_comma_separated tokens = Ok r.
Proof. exact parse_comma_separated_total. Qed.
Print Assumptions C07_parse_comma_separated_total.

Theorem C07_parse_media_query_total : forall tokens, exists r, parse_media_query tokens = Ok r.
Proof. exact parse_media_query_total. Qed.
Print Assumptions C07_parse_media_query_total.

(* the prelude handling of @import: tokens[0] / tokens[1:] *)
Theorem C07_import_media_total : forall prelude, exists r, import_media prelude = Ok r.
Proof. exact import_media_total. Qed.
Print Assumptions C07_import_media_total.

(* ------------------------------------------------------------------ W3C dates of <meta name=dcterms.created / dcterms.modified> *)
(* utils.parseW3cDate (called by GetHtmlMetadata for every HTML document): the regular expression as a
   recursive-descent recogniser, toInt with its explicit panic ("unexpected string for int"), the error returns.
   Total on EVERY byte string: the panic of toInt is unreachable ... *)
Theorem C07_parse_w3c_date_total : forall s, exists r, parse_w3c_date false s = Ok r.
Proof. exact parse_w3c_date_total. Qed.
Print Assumptions C07_parse_w3c_date_total.

(* ... because of the digit-length bound of the captured groups: a year of exactly 4 digits, the other fields
   absent or 2 digits, tzHour a sign and 2 digits (and minute / tzMinute present whenever hour / tzHour are:
   the two "shouldn't be empty" error returns are dead code) ... *)
Theorem C07_w3c_groups_bounded : forall s g, match_w3c false s = Some g -> wf_groups g.
Proof. exact match_w3c_wf. Qed.
Print Assumptions C07_w3c_groups_bounded.

(* ... and strconv.Atoi cannot fail on a run of at most 18 digits (10^18 < 2^63) *)
Theorem C07_to_int_total_bounded : forall s default,
  forallb is_digit s = true -> (length s <= 18)%nat -> (s = [] -> default <> None) ->
  exists v, to_int s default = Ok v.
Proof. exact to_int_total_bounded. Qed.
Print Assumptions C07_to_int_total_bounded.

(* REFUTATION without the bound: with the year relaxed to \d{4,} the regular expression matches 20 nines, Atoi
   overflows and toInt panics (site 830 = html.go:450), where the code as it is returns the "invalid date" error *)
Theorem C07_parse_w3c_date_unbounded_year_refuted :
  match_w3c true (repeat 57%N 20) = Some (mkG (repeat 57%N 20) [] [] [] [] [] [] []) /\
  parse_w3c_date true (repeat 57%N 20) = Panic site_toint /\
  parse_w3c_date false (repeat 57%N 20) = Ok None.
Proof. exact parse_w3c_date_long_years_refuted. Qed.
Print Assumptions C07_parse_w3c_date_unbounded_year_refuted.

(* ------------------------------------------------------------------ the property, as far as it is a statement about models *)
(* Every parser modelled here is total.  The full property text also covers the
   components modelled by C05/C06/C08/C14/C18/C19 (their own theorems) and the
   validators / expanders / descriptor parsers, for which no model exists:
   that part is tested (Check/C07.v, CTotal), not proved. *)
Definition C07_modelled_parsers_total_statement : Prop :=
  (forall s, exists r, unquote s = Ok r) /\
  (forall s, exists r, unescape_bytes s = Ok r) /\
  (forall s, is_data_url s = true -> exists r, fetch_data_url s = Ok r) /\
  (forall t, wf_toks t = true -> exists r, parse_nth t = Ok r) /\
  (forall t, wf_toks t = true -> exists r, parse_page_selectors t = Ok r) /\
  (forall a m, exists r, integer_attribute a m = Ok r) /\
  (forall a, exists r, font_size_attr a = Ok r) /\
  (forall s, exists r, parse_preserve_aspect_ratio s = Ok r) /\
  (forall s, exists r, parse_url_strip s = Ok r) /\
  (forall s, exists r, new_painter s = Ok r) /\
  (forall s, exists r, parse_value s = Ok r) /\
  (forall s, exists r, parse_opacity s = Ok r) /\
  (forall s, exists r, parse_font_weight s = Ok r) /\
  (forall t, exists r, parse_color t = Ok r) /\
  (forall t, exists r, parse_media_query t = Ok r) /\
  (forall t, exists r, import_media t = Ok r) /\
  (forall s, exists r, parse_w3c_date false s = Ok r).
Theorem C07_modelled_parsers_total : C07_modelled_parsers_total_statement.
Proof.
  exact (conj unquote_total (conj unescape_total (conj fetch_data_url_total
        (conj parse_nth_total (conj parse_page_selectors_total (conj integer_attribute_total
        (conj font_size_attr_total (conj parse_preserve_aspect_ratio_total (conj parse_url_strip_total
        (conj new_painter_total (conj parse_value_total (conj parse_opacity_total
        (conj parse_font_weight_total (conj parse_color_total (conj parse_media_query_total
        (conj import_media_total parse_w3c_date_total)))))))))))))))).
Qed.
Print Assumptions C07_modelled_parsers_total.

(* ---- final round: correctness laws of total SVG attribute parsers (Css/SvgAttrMore.v) ---- *)
Theorem C07_parse_font_weight_result : forall s v,
  parse_font_weight s = Ok v -> v = 400 \/ v = 700 \/ atoi s = Some v.
Proof. exact parse_font_weight_result. Qed.
Print Assumptions C07_parse_font_weight_result.

Theorem C07_parse_value_none_iff : forall s,
  parse_value s = Ok None <-> list_eqb (trim_space s) [] = true.
Proof. exact parse_value_none_iff. Qed.
Print Assumptions C07_parse_value_none_iff.

Theorem C07_parse_opacity_plain : forall value,
  list_eqb (trim_space value) [] = false -> has_suffix (trim_space value) [37%N] = false ->
  parse_opacity value = Ok (Some (false, trim_space value)).
Proof. exact parse_opacity_plain. Qed.
Print Assumptions C07_parse_opacity_plain.

Theorem C07_parse_opacity_none_iff : forall value,
  parse_opacity value = Ok None <-> list_eqb (trim_space value) [] = true.
Proof. exact parse_opacity_none_iff. Qed.
Print Assumptions C07_parse_opacity_none_iff.

Theorem C07_new_painter_color : forall attr c,
  new_painter attr = Ok (PaintColor c) -> c = trim_space attr /\ has_prefix (trim_space attr) s_url_open = false.
Proof. exact new_painter_color. Qed.
Print Assumptions C07_new_painter_color.
