(* Properties/C17.v -- Transform functions and matrices follow CSS Transforms / SVG.
   Only statements, closed by `exact`, each followed by Print Assumptions.
   All statements are about the exact-rational instance (exactQ) of the model
   in Geom/Matrix.v; Check/C17.v ties the float32 instance of the same
   definitions to /repo on every run. *)
From Verif Require Import Base.F32 Geom.Matrix Geom.TransformSpec Geom.MatrixProofs Geom.MatrixMore Geom.TransformReal.
From Coq Require Import QArith Reals.
Open Scope Q_scope.

(* group laws *)
Theorem C17_mul_assoc : forall t u v,
  meq (mmul exactQ (mmul exactQ t u) v) (mmul exactQ t (mmul exactQ u v)).
Proof. exact mul_assoc. Qed.
Print Assumptions C17_mul_assoc.

Theorem C17_mul_identity : forall t,
  meq (mmul exactQ identity t) t /\ meq (mmul exactQ t identity) t.
Proof. intros t; split; [exact (mul_id_l t) | exact (mul_id_r t)]. Qed.
Print Assumptions C17_mul_identity.

Theorem C17_apply_homomorphism : forall t u x y,
  let p := apply exactQ u x y in
  fst (apply exactQ (mmul exactQ t u) x y) == fst (apply exactQ t (fst p) (snd p)) /\
  snd (apply exactQ (mmul exactQ t u) x y) == snd (apply exactQ t (fst p) (snd p)).
Proof. exact apply_mul. Qed.
Print Assumptions C17_apply_homomorphism.

Theorem C17_invert_two_sided : forall t t', invert exactQ t = Some t' ->
  meq (mmul exactQ t t') identity /\ meq (mmul exactQ t' t) identity.
Proof. exact invert_two_sided. Qed.
Print Assumptions C17_invert_two_sided.

Theorem C17_invert_fails_iff_singular : forall t,
  invert exactQ t = None <-> determinant exactQ t == 0.
Proof. exact invert_none_iff. Qed.
Print Assumptions C17_invert_fails_iff_singular.

Theorem C17_inplace_ops_are_right_multiplication : forall t,
  (forall tx ty, meq (translate exactQ t tx ty) (mmul exactQ t (translation tx ty))) /\
  (forall sx sy, meq (scale exactQ t sx sy) (mmul exactQ t (scaling sx sy))) /\
  (forall c s, meq (rotate_cs exactQ t c s) (mmul exactQ t (rotation_cs c s))) /\
  (forall tx ty, meq (skew_tt exactQ t tx ty) (mmul exactQ t (skew_t tx ty))) /\
  (forall u, meq (left_mult_by exactQ t u) (mmul exactQ u t)) /\
  (forall u, meq (right_mult_by exactQ t u) (mmul exactQ t u)) /\
  (forall r s, meq (mul3 exactQ r s t) (mmul exactQ r (mmul exactQ s t))).
Proof.
  intros t.
  exact (conj (translate_eq_rightmult t) (conj (scale_eq_rightmult t)
        (conj (rotate_eq_rightmult t) (conj (skew_eq_rightmult t)
        (conj (left_mult_by_eq t) (conj (right_mult_by_eq t)
        (fun r s => mul3_eq r s t))))))).
Qed.
Print Assumptions C17_inplace_ops_are_right_multiplication.

(* CSS: the matrix handed to the backend is T(origin) . f1 . f2 ... fn . T(-origin)
   with each fi the matrix CSS Transforms defines *)
Theorem C17_css_matrix_spec : forall g fs, meq (css_matrix exactQ g fs) (css_spec g fs).
Proof. exact css_matrix_spec. Qed.
Print Assumptions C17_css_matrix_spec.

(* ... and with the functions as written in the style sheet (translateX, scaleY,
   skewX, skew(a), rotate with any angle unit ...): normalisation by
   css/validation followed by getMatrix is the product of the CSS Transforms
   matrices *)
Theorem C17_css_source_spec : forall tr g fs,
  meq (css_matrix exactQ g (map (css_normalise tr) fs)) (css_src_spec tr g fs).
Proof. exact css_source_spec. Qed.
Print Assumptions C17_css_source_spec.

(* SVG: the aggregated matrix is the left-to-right product of the SVG 1.1 matrices *)
Theorem C17_svg_transform_spec : forall tr l, trig_ok tr ->
  meq (svg_aggregate exactQ tr l) (svg_spec tr l).
Proof. exact svg_transform_spec. Qed.
Print Assumptions C17_svg_transform_spec.

(* non-vacuity: a non-trivial list, and the skewX entry position *)
Example C17_css_example :
  let g := {| bbx := 10; bby := 20; bw := 100; bh := 50; orx := Pct 50; ory := Pct 50; fsz := 16 |} in
  meq (css_matrix exactQ g [TSkew (1#2) 0; TTranslate (Px 3) (Pct 10); TScale 2 3])
      (mk 2 0 (3 # 2) 3 (-122) (-85)) /\
  Matrix.C (css_matrix exactQ g [TSkew (1#2) 0]) == 1#2.
Proof. vm_compute. repeat split; reflexivity. Qed.

Example C17_trig_ok_inhabited : trig_ok (fun a => if Qeq_bool a 0 then (1, 0, 0) else (1#2, 1#3, 1#4)).
Proof. reflexivity. Qed.

(* trigonometric laws, over R (depends on the axioms of Coq.Reals) *)
Theorem C17_rotation_homomorphism : forall a b : R,
  rrotate (a + b) = rprod (rrotate a) (rrotate b).
Proof. exact rotation_hom. Qed.
Print Assumptions C17_rotation_homomorphism.

Theorem C17_rotation_det_1 : forall a : R, rdet (rrotate a) = 1%R.
Proof. exact rotation_det_1. Qed.
Print Assumptions C17_rotation_det_1.

(* final round: further algebraic laws (Geom/MatrixMore.v) *)
Theorem C17_det_multiplicative : forall t u,
  determinant exactQ (mmul exactQ t u) == determinant exactQ t * determinant exactQ u.
Proof. exact det_mul. Qed.
Print Assumptions C17_det_multiplicative.

Theorem C17_translate_translate : forall t a b c d,
  meq (translate exactQ (translate exactQ t a b) c d) (translate exactQ t (a + c) (b + d)).
Proof. exact translate_translate. Qed.
Print Assumptions C17_translate_translate.

Theorem C17_scale_scale : forall t a b c d,
  meq (scale exactQ (scale exactQ t a b) c d) (scale exactQ t (a * c) (b * d)).
Proof. exact scale_scale. Qed.
Print Assumptions C17_scale_scale.

Theorem C17_det_translate_scale : forall t a b,
  determinant exactQ (translate exactQ t a b) == determinant exactQ t /\
  determinant exactQ (scale exactQ t a b) == determinant exactQ t * (a * b).
Proof. intros t a b; split; [exact (det_translate t a b) | exact (det_scale t a b)]. Qed.
Print Assumptions C17_det_translate_scale.

Theorem C17_product_singular_iff_factor_singular : forall t u,
  invert exactQ (mmul exactQ t u) = None <-> invert exactQ t = None \/ invert exactQ u = None.
Proof. exact invert_mul_none_iff. Qed.
Print Assumptions C17_product_singular_iff_factor_singular.
