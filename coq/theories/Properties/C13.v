(* Properties/C13.v -- Table cells form a consistent grid.
   Only statements, closed by `exact`, each followed by Print Assumptions.
   Model: Box/TableGrid.v (grid slots, shared with C09) and Layout/TableGeom.v
   (fixedTableLayout, column positions, cell x / width, row positions and
   heights with rowspans); all statements are about the exact-rational
   instance; Check/C13.v ties the float32 instance to /repo on every run.
   Specification: Layout/TableGeomSpec.v (closed forms col_left / col_right /
   row_top / row_bottom), Box/TableGridSpec.v. *)
From Verif Require Import Base.F32 Base.GoSem Box.TableGrid Box.TableGridSpec Box.TableGridProofs
  Box.TableGridPlain Box.TableGridPlainProofs Layout.TableGeom Layout.TableGeomSpec Layout.TableGeomProofs
  Layout.TableGeomAuto Layout.TableGeomAutoProofs Layout.TableAutoContract Layout.TableAutoContractNonneg.
From Coq Require Import QArith List ZArith Permutation.
Import ListNotations.
Open Scope Q_scope.

(* ------------------------------------------------------------------ slots (from C09) *)
Theorem C13_slots :
  forall (cell row : Type) (colspan_of rowspan_of gridx_of : cell -> Z) (place : cell -> Z -> Z -> cell)
         (cells_of : row -> list cell) (set_cells : row -> list cell -> row),
    (forall c x r, gridx_of (place c x r) = x) ->
    (forall c x r, rowspan_of (place c x r) = r) ->
    (forall c x r, colspan_of (place c x r) = colspan_of c) ->
    (forall r cs, cells_of (set_cells r cs) = cs) ->
    forall rows,
      rows_spans_ok cell row colspan_of rowspan_of cells_of rows ->
      exists rows',
        assign_group cell row colspan_of rowspan_of place cells_of set_cells rows = Ok rows' /\
        rows_placed cell row colspan_of rowspan_of gridx_of place cells_of set_cells [] 0
                    (Z.of_nat (length rows)) rows rows' /\
        anchors_free (rows_slots cell row colspan_of rowspan_of gridx_of cells_of 0 rows') = true /\
        forallb (slot_in_group (Z.of_nat (length rows)))
                (rows_slots cell row colspan_of rowspan_of gridx_of cells_of 0 rows') = true.
Proof. exact assign_group_spec. Qed.
Print Assumptions C13_slots.

(* ------------------------------------------------------------------ the whole table, from its structure *)
(* Box/TableGridPlain.v computes the grid of a table from the document
   structure alone (row groups x rows x cells with their span attributes);
   Check/C13.v compares the GridX / Colspan / Rowspan of every cell of /repo's
   table box with it (code 13). *)

(* whatever the colspan / rowspan attributes say, the spans of the cell boxes
   are in the domain of the slot theorems *)
Theorem C13_span_attributes_clamped : forall (rows : list (list (Z * Z))),
  pspans_ok (map (map (fun a => cell_of_attrs (fst a) (snd a))) rows) /\
  (forall v, 1 <= colspan_of_attr v <= 1000)%Z /\ (forall v, 0 <= rowspan_of_attr v <= 65534)%Z.
Proof. intros rows. split; [apply cells_of_attrs_spans_ok|split; [exact colspan_of_attr_range|exact rowspan_of_attr_range]]. Qed.
Print Assumptions C13_span_attributes_clamped.

(* header / footer extraction only reorders the row groups *)
Theorem C13_row_groups_permuted : forall gs, Permutation gs (order_groups gs).
Proof. exact order_groups_perm. Qed.
Print Assumptions C13_row_groups_permuted.

(* the assignment never fails, and every row group gets exactly the slots it
   would get as the only group of the table: nothing (in particular no
   rowspan occupancy) is carried from one row group into the next *)
Theorem C13_table_grid : forall gs,
  table_spans_ok gs ->
  exists out, table_grid gs = Ok out /\
              Forall2 (fun g o => assign_pgroup (pg_rows g) = Ok o) (order_groups gs) out.
Proof. exact table_grid_spec. Qed.
Print Assumptions C13_table_grid.

(* C13_slots for the plain cells of the structure *)
Theorem C13_group_slots : forall rows,
  pspans_ok rows ->
  exists rows',
    assign_pgroup rows = Ok rows' /\
    rows_placed pcell prow pc_colspan pc_rowspan pc_gridx pplace (fun r => r) (fun _ cs => cs)
                [] 0 (Z.of_nat (length rows)) rows rows' /\
    anchors_free (pslots 0 rows') = true /\
    forallb (slot_in_group (Z.of_nat (length rows))) (pslots 0 rows') = true.
Proof. exact assign_pgroup_spec. Qed.
Print Assumptions C13_group_slots.

(* in a row group none of whose cells spans rows every row is laid side by
   side from column 0 (GridX = sum of the colspans before the cell), whatever
   the other row groups of the table contain *)
Theorem C13_group_without_rowspan_packed : forall rows,
  Forall (Forall (fun c => pc_rowspan c = 1%Z)) rows ->
  assign_pgroup rows = Ok (map (pack 0) rows).
Proof. exact group_without_rowspan_packed. Qed.
Print Assumptions C13_group_without_rowspan_packed.

(* the first row of every row group is laid side by side from column 0 *)
Theorem C13_group_first_row_packed : forall r rows rows',
  pspans_ok (r :: rows) ->
  assign_pgroup (r :: rows) = Ok rows' ->
  exists r' rest, rows' = r' :: rest /\ map pc_gridx r' = map pc_gridx (pack 0 r).
Proof. exact group_first_row_packed. Qed.
Print Assumptions C13_group_first_row_packed.

(* the seeded shape: a header whose first cell spans its two rows, then a body
   of two rows of two cells: both body rows sit on columns 0 and 1 *)
Example C13_example_two_groups :
  table_grid [mkPG GHeader [[cell_of_attrs 1 2; cell_of_attrs 1 1]; [cell_of_attrs 1 1]];
              mkPG GBody [[cell_of_attrs 1 1; cell_of_attrs 1 1]; [cell_of_attrs 1 1; cell_of_attrs 1 1]]]
  = Ok [[[mkPC 0 1 2; mkPC 1 1 1]; [mkPC 1 1 1]]; [[mkPC 0 1 1; mkPC 1 1 1]; [mkPC 0 1 1; mkPC 1 1 1]]].
Proof. vm_compute. reflexivity. Qed.

(* ------------------------------------------------------------------ grid_consistent: columns *)
(* the column positions computed by tableLayout are the closed form:
   x0 + (j+1) spacing + widths of the columns before *)
Theorem C13_column_positions : forall widths x0 bsx j,
  (j < length widths)%nat ->
  nth j (column_positions exactQ x0 bsx widths) 0 == col_left x0 bsx widths j.
Proof. exact column_positions_spec. Qed.
Print Assumptions C13_column_positions.

(* a table split across pages: tableLayout runs once per page on the same table
   box and every fragment keeps the ColumnPositions slice of its page
   (Layout/TableGeom.v: Go slice headers into a store of arrays, a fresh array
   per call).  After ALL pages are laid out every fragment still reads the
   positions computed for its own page, whatever the arithmetic ... *)
Theorem C13_fragments_positions : forall ar bsx pages,
  fragments_positions ar bsx pages = map (fun p => column_positions ar (fst p) bsx (snd p)) pages.
Proof. exact fragments_positions_spec. Qed.
Print Assumptions C13_fragments_positions.

(* ... hence the closed form, with the content box and the column widths the
   table has on THAT page (Check/C13.v, case CPaged, codes 18 / 19) *)
Theorem C13_fragment_column_positions : forall bsx pages k x0 widths j,
  nth_error pages k = Some (x0, widths) -> (j < length widths)%nat ->
  nth j (nth k (fragments_positions exactQ bsx pages) []) 0 == col_left x0 bsx widths j.
Proof. exact fragment_column_positions. Qed.
Print Assumptions C13_fragment_column_positions.

(* two pages whose content boxes start at 60 and at 0: the first fragment keeps 62 / 114 *)
Example C13_example_fragments :
  fragments_positions exactQ 2 [(60, [50; 30]); (0, [50; 30])] = [[62; 114]; [2; 54]].
Proof. vm_compute. reflexivity. Qed.

(* every cell: colspan clipped to the grid; its left edge is the left edge of
   its first column (so cells starting in the same column share their left
   edge), its right edge the right edge of its last column (cells ending in the
   same column share their right edge), and its border box is exactly the
   spanned columns plus the spacing between them *)
Theorem C13_cell_horizontal : forall x0 bsx widths c cs x w bw,
  (0 <= hc_gridx c)%Z -> (1 <= hc_colspan c)%Z ->
  cell_horizontal exactQ widths (column_positions exactQ x0 bsx widths) bsx c = Ok (Some (cs, x, w, bw)) ->
  let gx := Z.to_nat (hc_gridx c) in
  let n := Z.to_nat cs in
  cs = Z.min (hc_colspan c) (Z.of_nat (length widths) - hc_gridx c) /\ (1 <= cs)%Z /\
  x == col_left x0 bsx widths gx /\
  x + bw == col_right x0 bsx widths (gx + n - 1) /\
  bw == sumQ (firstn n (skipn gx widths)) + inject_Z (cs - 1) * bsx /\
  w == bw - (hc_pl c + hc_pr c + hc_bl c + hc_br c).
Proof. exact cell_horizontal_spec. Qed.
Print Assumptions C13_cell_horizontal.

(* direction: rtl (tables.go:48-56, 157-161): the columns run from the right
   edge xr = content box x + used width, column 0 rightmost; a cell sits on the
   LAST column it spans and reaches the right edge of its first one: it covers
   exactly its grid slots.  Check/C13.v compares the float32 instance with every
   laid-out rtl table (code 24). *)
Theorem C13_column_positions_rtl : forall widths xr bsx j,
  (j < length widths)%nat ->
  nth j (column_positions_rtl exactQ xr bsx widths) 0 == col_left_rtl xr bsx widths j.
Proof. exact column_positions_rtl_spec. Qed.
Print Assumptions C13_column_positions_rtl.

Theorem C13_cell_horizontal_rtl : forall xr bsx widths c cs x w bw,
  (0 <= hc_gridx c)%Z -> (1 <= hc_colspan c)%Z ->
  cell_horizontal_rtl exactQ widths (column_positions_rtl exactQ xr bsx widths) bsx c = Ok (Some (cs, x, w, bw)) ->
  let gx := Z.to_nat (hc_gridx c) in
  let n := Z.to_nat cs in
  cs = Z.min (hc_colspan c) (Z.of_nat (length widths) - hc_gridx c) /\ (1 <= cs)%Z /\
  x == col_left_rtl xr bsx widths (gx + n - 1) /\
  x + bw == col_right_rtl xr bsx widths gx /\
  bw == sumQ (firstn n (skipn gx widths)) + inject_Z (cs - 1) * bsx /\
  w == bw - (hc_pl c + hc_pr c + hc_bl c + hc_br c).
Proof. exact cell_horizontal_rtl_spec. Qed.
Print Assumptions C13_cell_horizontal_rtl.

Theorem C13_columns_adjacent_rtl : forall xr bsx widths j,
  (S j < length widths)%nat ->
  col_left_rtl xr bsx widths j - col_right_rtl xr bsx widths (S j) == bsx.
Proof. exact columns_adjacent_rtl. Qed.
Print Assumptions C13_columns_adjacent_rtl.

(* the rtl grid is the ltr grid reflected in the content box [x0, x0 + tw] *)
Theorem C13_col_rtl_mirror : forall x0 tw bsx widths j,
  (j < length widths)%nat ->
  col_right_rtl (x0 + tw) bsx widths j - x0 == tw - (col_left x0 bsx widths j - x0) /\
  col_left_rtl (x0 + tw) bsx widths j - x0 == tw - (col_right x0 bsx widths j - x0).
Proof. exact col_rtl_mirror. Qed.
Print Assumptions C13_col_rtl_mirror.

(* a rtl table 200 wide from x = 10, spacing 2, columns 30 / 40 / 50: the cell
   spanning columns 1-2 lies on [84, 176], left of column 0 = [178, 208] *)
Example C13_example_rtl :
  cell_horizontal_rtl exactQ [30; 40; 50] (column_positions_rtl exactQ 210 2 [30; 40; 50]) 2 (mkH 1 2 0 0 0 0)
  = Ok (Some (2%Z, 84, 92, 92)).
Proof. vm_compute. reflexivity. Qed.

(* no cell has a negative used size, never smaller than the content's minimum:
   the used content width of a cell is at least mc (mc = 0: non negative; mc =
   min-content width of its content) exactly when the columns it spans, with
   the spacing between them, cover mc plus the cell's own paddings and borders
   -- the used ones, in the collapsing border model the halves of the collapsed
   edges on BOTH sides.  Check/C13.v evaluates the right-hand side on every
   laid-out cell (codes 20, 21, 23). *)
Theorem C13_cell_content_fits : forall x0 bsx widths c cs x w bw mc,
  (0 <= hc_gridx c)%Z -> (1 <= hc_colspan c)%Z ->
  cell_horizontal exactQ widths (column_positions exactQ x0 bsx widths) bsx c = Ok (Some (cs, x, w, bw)) ->
  let cols := sumQ (firstn (Z.to_nat cs) (skipn (Z.to_nat (hc_gridx c)) widths)) + inject_Z (cs - 1) * bsx in
  (mc + (hc_pl c + hc_pr c + hc_bl c + hc_br c) <= cols <-> mc <= w).
Proof. exact cell_content_fits. Qed.
Print Assumptions C13_cell_content_fits.

(* adjacent columns are exactly border-spacing apart *)
Theorem C13_columns_adjacent : forall x0 bsx widths j,
  (S j < length widths)%nat ->
  col_left x0 bsx widths (S j) - col_right x0 bsx widths j == bsx.
Proof. exact columns_adjacent. Qed.
Print Assumptions C13_columns_adjacent.

(* cells on disjoint column ranges do not overlap (non negative widths and spacing) *)
Theorem C13_columns_disjoint : forall x0 bsx widths e1 g2,
  Forall (fun w => 0 <= w) widths -> 0 <= bsx -> (e1 < g2)%nat -> (g2 < length widths)%nat ->
  col_right x0 bsx widths e1 + bsx <= col_left x0 bsx widths g2.
Proof. exact columns_disjoint. Qed.
Print Assumptions C13_columns_disjoint.

(* ------------------------------------------------------------------ grid_consistent: rows *)
(* One row group laid out from y: rows follow each other row_top-wise with the
   vertical spacing between them; no row has a negative height; every cell
   starts at the top edge of the row it is placed in and ends exactly at the
   bottom edge of the last row it spans, so its height is the heights of the
   rows it spans plus the spacing between them (rowspan_heights_spec); the
   group's height is its rows plus the spacing between them. *)
Theorem C13_rowspan_heights_spec : forall bsy y rows outs gh y_end,
  group_vertical exactQ bsy y rows = Ok (outs, gh, y_end) ->
  let hs := map r_h outs in
  length outs = length rows /\
  Forall (fun h => 0 <= h) hs /\
  (forall k ro, nth_error outs k = Some ro -> r_y ro == row_top y bsy hs k) /\
  (forall k ro e, nth_error outs k = Some ro -> In e (r_ending ro) ->
     (e_row e < length outs)%nat /\
     e_y e == row_top y bsy hs (e_row e) /\
     e_y e + e_bh e == row_bottom y bsy hs k) /\
  (rows <> [] -> gh == sumQ hs + inject_Z (Z.of_nat (length outs) - 1) * bsy).
Proof. exact rowspan_heights_spec. Qed.
Print Assumptions C13_rowspan_heights_spec.

(* ------------------------------------------------------------------ fixed layout *)
(* fixedTableLayout: the used table width is never smaller than the specified
   one; the columns plus the spacing around them exactly fill it (unless there
   is no column at all); there is one column per <col> or per column spanned by
   the first row; no column has a negative width. *)
Theorem C13_fixed_layout_fills : forall W cols cells bsx out W',
  fixed_table_layout exactQ W cols cells bsx = Ok (out, W') ->
  W <= W' /\
  (out <> [] -> sumQ out + inject_Z (Z.of_nat (length out) + 1) * bsx == W') /\
  Z.of_nat (length out) = Z.max (Z.of_nat (length cols)) (fold_left (fun s c => (s + fc_colspan c)%Z) cells 0%Z) /\
  (0 <= W -> 0 <= bsx -> Forall onn cols -> Forall (fun w => 0 <= w) out).
Proof. exact fixed_layout_spec. Qed.
Print Assumptions C13_fixed_layout_fills.

(* ------------------------------------------------------------------ auto layout *)
(* Layout/TableGeomAuto.v models autoTableLayout and distributeExcessWidth
   given the preferred widths of the table and its columns
   (tableAndColumnsPreferredWidths is NOT modelled: its results are inputs,
   read from /repo on every run by Check/C13.v, case CAuto).

   Whatever branch is taken -- one of the four guesses, the interpolation
   between two of them, the five groups of distributeExcessWidth, the
   shrinking of the table or the "break the rules" step -- the columns plus the
   total horizontal border spacing exactly fill the used table width, provided
   the table's min-content width covers the columns' min-content widths and
   the spacing, does not exceed the max-content width, and a cell originates
   in some column. *)
Theorem C13_auto_layout_fills : forall width avail tmin tmax spacing cols cw W',
  auto_table_layout exactQ width avail tmin tmax spacing cols = (cw, W') ->
  cols <> [] ->
  sumQ (map ac_min cols) + spacing <= tmin -> tmin <= tmax ->
  (exists c, In c cols /\ ac_cell c = true) ->
  length cw = length cols /\ sumQ cw + spacing == W'.
Proof. exact auto_layout_fills. Qed.
Print Assumptions C13_auto_layout_fills.

(* distributeExcessWidth: what it does not return it has added to the columns *)
Theorem C13_distribute_excess_conserves : forall cols cw excess cw' e',
  length cw = length cols -> 0 < excess ->
  distribute_excess exactQ cols cw excess = (cw', e') ->
  length cw' = length cw /\ 0 <= e' /\ sumQ cw' == sumQ cw + excess - e'.
Proof. exact distribute_excess_spec. Qed.
Print Assumptions C13_distribute_excess_conserves.

(* the fifth group is reachable: two constrained columns without percentage, the
   second one made of empty cells only; the excess 300 goes to that column and
   nothing is returned (so the caller neither shrinks the table nor distributes
   it a second time) *)
Example C13_example_fifth_group :
  distribute_excess exactQ [mkAC 50 100 0 true true false; mkAC 0 0 0 true true true] [100; 0] 300 = ([100; 300], 0) /\
  auto_table_layout exactQ (Some 400) 1600 50 100 0 [mkAC 50 100 0 true true false; mkAC 0 0 0 true true true] = ([100; 300], 400).
Proof. split; vm_compute; reflexivity. Qed.

(* "the used width is never below the specified width" (CSS 2.1 17.5.2.2) is
   FALSE of the faithful model: when every column is constrained
   distributeExcessWidth returns the excess and the table is shrunk
   (tables.go:1020-1023); same on /repo: known finding
   C13/auto-table-narrower-than-specified *)
Definition C13_auto_layout_keeps_specified_width_statement : Prop :=
  forall w avail tmin tmax spacing cols cw W',
    auto_table_layout exactQ (Some w) avail tmin tmax spacing cols = (cw, W') ->
    sumQ (map ac_min cols) + spacing <= tmin -> tmin <= tmax -> w <= W'.
Theorem C13_auto_layout_keeps_specified_width_refuted : ~ C13_auto_layout_keeps_specified_width_statement.
Proof.
  intros H.
  specialize (H 500 1600 100 200 0 [mkAC 50 100 0 true true false; mkAC 50 100 0 true true false] [100; 100] 200).
  assert (E : 500 <= 200); [|vm_compute in E; apply E; reflexivity].
  apply H; [vm_compute; reflexivity|vm_compute; discriminate|vm_compute; discriminate].
Qed.
Print Assumptions C13_auto_layout_keeps_specified_width_refuted.

(* The contract for ANY column-width algorithm (preferred widths included),
   of which the above proves the part that does not depend on
   tableAndColumnsPreferredWidths: *)
Definition C13_auto_layout_contract_statement
  (auto_layout : Q (* available width *) -> Q (* specified width *) -> bool (* width is not auto *) ->
                 Q (* border-spacing *) -> list Q (* min-content widths *) -> list Q (* max-content widths *) ->
                 Q * list Q (* used table width, column widths *)) : Prop :=
  forall avail spec has bsx mins maxs,
    Forall (fun w => 0 <= w) mins -> length mins = length maxs ->
    let '(table_w, widths) := auto_layout avail spec has bsx mins maxs in
    length widths = length mins /\ auto_contract 0 table_w spec bsx has widths = true.

(* proved part: the contract is what makes the grid fill the table: *)
Theorem C13_auto_layout_contract_partial : forall table_w spec bsx has widths,
  auto_contract 0 table_w spec bsx has widths = true ->
  Forall (fun w => 0 <= w) widths /\
  (widths <> [] -> sumQ widths + inject_Z (Z.of_nat (S (length widths))) * bsx == table_w) /\
  (has = true -> spec <= table_w).
Proof.
  intros table_w spec bsx has widths H. unfold auto_contract in H.
  apply andb_prop in H. destruct H as [H H3]. apply andb_prop in H. destruct H as [H1 H2].
  split; [|split].
  - apply Forall_forall. intros w Hw. rewrite forallb_forall in H1. apply Qle_bool_iff. apply H1. assumption.
  - intros Hne. destruct widths as [|w0 r]; [contradiction|].
    apply andb_prop in H2. destruct H2 as [Ha Hb]. apply Qle_bool_iff in Ha, Hb.
    apply Qle_antisym.
    + eapply Qle_trans; [|exact Ha]. unfold Qminus. rewrite Qplus_0_r. apply Qle_refl.
    + eapply Qle_trans; [exact Hb|]. rewrite Qplus_0_r. apply Qle_refl.
  - intros ->. apply Qle_bool_iff in H3. eapply Qle_trans; [|exact H3].
    unfold Qminus. rewrite Qplus_0_r. apply Qle_refl.
Qed.
Print Assumptions C13_auto_layout_contract_partial.

(* further part, for the MODEL of autoTableLayout adapted to the signature of
   the contract (Layout/TableAutoContract.v, model_auto_layout: every column
   unconstrained, without percentage, a cell in each; table min- / max-content
   width = sum of the columns' + (n+1) * bsx).  Class covered: every input
   with at least one column and as many max- as min-content widths, no sign
   hypothesis.  Proved: one width per column, the columns plus the spacing
   exactly fill the used width, a specified width is kept (the refutation
   above needs constrained columns only).  NOT proved: the non negativity
   conjunct (forallb (Qle_bool 0) widths) of auto_contract. *)
Theorem C13_auto_layout_contract_partial2 : forall avail spec has bsx mins maxs,
  mins <> [] -> length mins = length maxs ->
  let '(table_w, widths) := model_auto_layout avail spec has bsx mins maxs in
  length widths = length mins /\
  sumQ widths + inject_Z (Z.of_nat (S (length widths))) * bsx == table_w /\
  (has = true -> spec <= table_w).
Proof. exact model_auto_layout_contract_partial. Qed.
Print Assumptions C13_auto_layout_contract_partial2.

(* the hypotheses are inhabited, and on this input the whole contract holds *)
Example C13_example_auto_contract :
  model_auto_layout 300 200 true 2 [10; 20] [100; 60] = (200, [234 # 2; 154 # 2]) /\
  auto_contract 0 200 200 2 true [234 # 2; 154 # 2] = true.
Proof. exact model_auto_layout_example_specified. Qed.

(* partial3 (Layout/TableAutoContractNonneg.v): the conclusion of
   C13_auto_layout_contract_statement for model_auto_layout, reduced to its
   single open conjunct.  Class covered: every input with at least one column,
   as many max- as min-content widths, ON WHICH THE RETURNED WIDTHS ARE NON
   NEGATIVE (branch condition = explicit hypothesis on the result; it is NOT
   derived from 0 <= mins <= maxs, 0 <= bsx here: that derivation through
   the interpolation / distributeExcessWidth branches remains unproved). *)
Theorem C13_auto_layout_contract_partial3 : forall avail spec has bsx mins maxs,
  mins <> [] -> length mins = length maxs ->
  let '(table_w, widths) := model_auto_layout avail spec has bsx mins maxs in
  Forall (fun w => 0 <= w) widths ->
  length widths = length mins /\ auto_contract 0 table_w spec bsx has widths = true.
Proof. exact model_auto_layout_contract_of_nonneg. Qed.
Print Assumptions C13_auto_layout_contract_partial3.

(* its hypotheses (the one on the result included) are inhabited *)
Example C13_example_auto_contract_nonneg :
  model_auto_layout 300 0 false 2 [10; 20] [100; 60] = (166, [100; 60]) /\
  Forall (fun w => 0 <= w) [100; 60] /\
  auto_contract 0 166 0 2 false [100; 60] = true.
Proof. exact model_auto_layout_nonneg_example. Qed.

(* partial4: a branch where the WHOLE conclusion of
   C13_auto_layout_contract_statement follows from sign hypotheses on the inputs
   only.  Class covered: at least one column, 0 <= mins, 0 <= maxs, equal
   lengths, and autoTableLayout takes the branch of tables.go:976 + 997-998
   (assignable width <= sum of the last guess, lower guess = upper guess; for
   these columns: the table gets its max-content width).  The other branches
   (interpolation 1000-1013, distributeExcessWidth 1016-1046) are NOT covered. *)
Theorem C13_auto_layout_contract_partial4 : forall avail spec (has : bool) bsx mins maxs,
  mins <> [] -> length mins = length maxs ->
  Forall (fun w => 0 <= w) mins -> Forall (fun w => 0 <= w) maxs ->
  let spacing := inject_Z (Z.of_nat (S (length mins))) * bsx in
  let tmin := sumQ mins + spacing in
  let tmax := Qmax_ tmin (sumQ maxs + spacing) in
  let W := used_width (if has then Some spec else None) avail tmin tmax in
  let cols := contract_cols mins maxs in
  let a := sub exactQ W spacing in
  let guesses := [map ac_min cols; map (guess1 exactQ a) cols; map (guess2 exactQ a) cols; map (guess3 exactQ a) cols] in
  Qle_b a (sumf exactQ (map (guess3 exactQ a) cols)) = true ->
  Nat.eqb (upper_index a (map (sumf exactQ) guesses)) (lower_index a (map (sumf exactQ) guesses) 0 0) = true ->
  let '(table_w, widths) := model_auto_layout avail spec has bsx mins maxs in
  length widths = length mins /\ auto_contract 0 table_w spec bsx has widths = true.
Proof. exact model_auto_layout_same_guess_contract. Qed.
Print Assumptions C13_auto_layout_contract_partial4.

(* the branch condition is inhabited (input of C13_example_auto_contract_nonneg) *)
Example C13_example_auto_contract_branch :
  let spacing := inject_Z (Z.of_nat 3) * 2 in
  let a := sub exactQ (used_width None 300 (30 + spacing) (Qmax_ (30 + spacing) (160 + spacing))) spacing in
  let cols := contract_cols [10; 20] [100; 60] in
  let guesses := [map ac_min cols; map (guess1 exactQ a) cols; map (guess2 exactQ a) cols; map (guess3 exactQ a) cols] in
  Qle_b a (sumf exactQ (map (guess3 exactQ a) cols)) = true /\
  Nat.eqb (upper_index a (map (sumf exactQ) guesses)) (lower_index a (map (sumf exactQ) guesses) 0 0) = true.
Proof. exact model_auto_layout_same_guess_example. Qed.

(* the hypotheses are inhabited *)
Example C13_example_fixed :
  exists out W', fixed_table_layout exactQ 200 [Some 50; None] [mkF 2 (Some 120); mkF 1 None] 4 = Ok (out, W') /\
                 out <> [] /\ 200 <= W'.
Proof. eexists. eexists. split; [vm_compute; reflexivity|]. split; [discriminate|]. vm_compute. discriminate. Qed.
Example C13_example_rows :
  exists outs gh ye,
    group_vertical exactQ 2 10 [(None, [mkV 2 10; mkV 1 100]); (None, [])] = Ok (outs, gh, ye) /\ gh == 102.
Proof. eexists. eexists. eexists. split; [vm_compute; reflexivity|]. reflexivity. Qed.
